/-
  EasyMl.Props.C19Natural — property C19, "any user type supplying the same operations can be used as
  an element type everywhere … and the library's result on it is identical to evaluating the documented
  formula directly on that type; trace/record wrappers inherit these".

  The `user … DualFp | DualRat | TraceFp | RecordFp` lines of the correspondence evaluate the
  documented formulas over the ring of dual numbers in the driver.  The theorems here say why that
  is the right answer, for the model functions of the owning properties (C07 `Det.determinant`,
  C08 `Decomp.dot / matMul / cholesky / ldlt`, C14 `Stats.mean / variance / covariance…`):

    * `generic_routines_natural` — every routine commutes with every map of element types that
      preserves the operations the routine uses (generic code cannot do at one numeric type what it
      does not do at another);
    * `dual_value_part` — over dual numbers the value part of the result is the routine applied to
      the value parts, whatever the derivative parts are (and `none` / panic for the same inputs);
    * `dual_derivative_part_polynomial`, `dual_derivative_part_is_directional_derivative` — for the
      polynomial routines the derivative part is the directional derivative: there is one polynomial
      `P` with result-over-duals `= ⟨P(0), P′(0)⟩` and result-at-`a + t·a′` `= P(t)` for all `t`;
      over `ℝ` it is `deriv (fun t => routine (a + t·a′)) 0`.
-/
import EasyMl.Lemmas.NaturalDual
import EasyMl.Lemmas.Decomp

namespace EasyMl.C19
open EasyMl EasyMl.Natural Polynomial

set_option linter.unusedSectionVars false

attribute [local instance] dualNatCast

/-- **Naturality of the generic routines.**  `φ` preserving `0 1 + − ×` commutes with determinant
    (presence and value), scalar product, matrix product and sums; preserving also `÷` and counts,
    with mean, variance (same panic on empty input) and both covariance routines. -/
theorem generic_routines_natural {α β : Type}
    [Add α] [Sub α] [Mul α] [Div α] [Zero α] [One α] [NatCast α]
    [Add β] [Sub β] [Mul β] [Div β] [Zero β] [One β] [NatCast β] {φ : α → β} :
    (OpsHom φ →
      (∀ m : Matrix α, Det.determinant (mapMat φ m) = (Det.determinant m).map φ) ∧
      (∀ xs ys : List α, Decomp.dot (xs.map φ) (ys.map φ) = φ (Decomp.dot xs ys)) ∧
      (∀ l r : Matrix α, Decomp.matMul (mapMat φ l) (mapMat φ r) = mapMat φ (Decomp.matMul l r)) ∧
      (∀ l : List α, Stats.sum (l.map φ) = φ (Stats.sum l))) ∧
    (FieldHom φ →
      (∀ d : List α, Stats.mean (d.map φ) =
        omap φ (Stats.mean d)) ∧
      (∀ d : List α, Stats.variance (d.map φ) =
        omap φ (Stats.variance d)) ∧
      (∀ m : Matrix α, Stats.covarianceColumnFeatures (mapMat φ m) =
        omap (mapMat φ) (Stats.covarianceColumnFeatures m)) ∧
      (∀ m : Matrix α, Stats.covarianceRowFeatures (mapMat φ m) =
        omap (mapMat φ) (Stats.covarianceRowFeatures m))) := by
  refine ⟨fun h => ⟨determinant_hom h, fun xs ys => (dot_hom h xs ys).symm, matMul_hom h,
      fun l => (sum_hom h l).symm⟩,
    fun h => ⟨mean_hom h, variance_hom h, fun m => (covariance_hom h m).1, fun m => (covariance_hom h m).2⟩⟩

/-- … and with the symmetric factorisations (which additionally use `÷`, `sqrt` and the
    comparisons; `Decomp.NumHom`, proved for C08): presence and every entry. -/
theorem factorisations_natural' {α β : Type}
    [Add α] [Sub α] [Mul α] [Div α] [Neg α] [Zero α] [One α] [RealFns α] [NumOrd α]
    [Add β] [Sub β] [Mul β] [Div β] [Neg β] [Zero β] [One β] [RealFns β] [NumOrd β]
    {φ : α → β} (h : Decomp.NumHom φ) (A : Matrix α) :
    Decomp.cholesky (Decomp.mapM φ A) = (Decomp.cholesky A).map (Decomp.mapM φ) ∧
    Decomp.ldlt (Decomp.mapM φ A) = (Decomp.ldlt A).map (fun s => (Decomp.mapM φ s.1, Decomp.mapM φ s.2)) :=
  ⟨Decomp.cholesky_natural h A, Decomp.ldlt_natural h A⟩

-- the two notions of "image of a matrix" are the same definition
example {α β : Type} (φ : α → β) (M : Matrix α) : mapMat φ M = Decomp.mapM φ M := rfl

/-- **Value part over dual numbers = the routine on the value parts** (for `Trace<T>`, user-defined
    dual types, and `Record<T>` numbers): determinant, products, sums; mean / variance / covariances
    with counts embedded as constants; Cholesky and LDLᵀ — whatever the derivative parts are. -/
theorem dual_value_part {R : Type} [Add R] [Sub R] [Mul R] [Div R] [Neg R] [Zero R] [One R] [NatCast R]
    [RealFns R] [NumOrd R] :
    (∀ m : Matrix (Dual R), Det.determinant (mapMat Dual.number m) = (Det.determinant m).map Dual.number) ∧
    (∀ xs ys : List (Dual R), Decomp.dot (xs.map Dual.number) (ys.map Dual.number) = (Decomp.dot xs ys).number) ∧
    (∀ l r : Matrix (Dual R), Decomp.matMul (mapMat Dual.number l) (mapMat Dual.number r)
        = mapMat Dual.number (Decomp.matMul l r)) ∧
    (∀ d : List (Dual R), Stats.mean (d.map Dual.number) =
        omap Dual.number (Stats.mean d)) ∧
    (∀ d : List (Dual R), Stats.variance (d.map Dual.number) =
        omap Dual.number (Stats.variance d)) ∧
    (∀ A : Matrix (Dual R), Decomp.cholesky (Decomp.mapM Dual.number A)
        = (Decomp.cholesky A).map (Decomp.mapM Dual.number)) ∧
    (∀ A : Matrix (Dual R), Decomp.ldlt (Decomp.mapM Dual.number A)
        = (Decomp.ldlt A).map (fun s => (Decomp.mapM Dual.number s.1, Decomp.mapM Dual.number s.2))) := by
  have hO : OpsHom (Dual.number : Dual R → R) :=
    ⟨rfl, rfl, fun _ _ => rfl, fun _ _ => rfl, fun _ _ => rfl⟩
  have hF := number_fieldHom (S := R)
  exact ⟨determinant_hom hO, fun xs ys => (dot_hom hO xs ys).symm, matMul_hom hO,
    mean_hom hF, variance_hom hF,
    fun A => Decomp.cholesky_natural Decomp.dualNumber_hom A,
    fun A => Decomp.ldlt_natural Decomp.dualNumber_hom A⟩

/-- … and the covariances: over `Dual R` (counts embedded as constants) the value parts of
    `covariance_column_features` / `covariance_row_features` are the covariances of the value parts,
    with the same panic on a matrix without features — whatever the derivative parts are. -/
theorem dual_value_part_covariance {R : Type} [Add R] [Sub R] [Mul R] [Div R] [Neg R] [Zero R] [One R]
    [NatCast R] (m : Matrix (Dual R)) :
    Stats.covarianceColumnFeatures (mapMat Dual.number m) =
        omap (mapMat Dual.number) (Stats.covarianceColumnFeatures m) ∧
    Stats.covarianceRowFeatures (mapMat Dual.number m) =
        omap (mapMat Dual.number) (Stats.covarianceRowFeatures m) :=
  covariance_hom (number_fieldHom (S := R)) m

-- non-vacuity: two samples of one feature, values 1 and 3 with arbitrary derivative parts: variance 1
example : (match Stats.covarianceColumnFeatures (⟨[⟨1, 7⟩, ⟨3, -2⟩], 2, 1⟩ : Matrix (Dual ℚ)) with
    | .ok r => r.data.map Dual.number | .panic _ => []) = [1] := by
  decide +kernel

/-- **Derivative part = directional derivative (polynomial form).**  For a commutative ring `R`, inputs
    `a` with directions `a′`: with `A(X) = a + X·a′` entrywise there is the single polynomial result
    `P = routine(A(X))` over `R[X]` such that the result over the duals `⟨a, a′⟩` is `⟨P(0), P′(0)⟩`
    and the result over `R` at `a + t·a′` is `P(t)` for every `t` — determinant (Leibniz sum of any
    size), scalar product, matrix product (every entry), sums. -/
theorem dual_derivative_part_polynomial {R : Type} [CommRing R] [Div R] :
    (∀ (n : ℕ) (a a' : ℕ → ℕ → R),
      let P := Det.detModel n (fun i j => line (a i j) (a' i j))
      Det.detModel n (fun i j => (⟨a i j, a' i j⟩ : Dual R)) = ⟨P.eval 0, (derivative P).eval 0⟩ ∧
        ∀ t, Det.detModel n (fun i j => a i j + t * a' i j) = P.eval t) ∧
    (∀ (xs ys : List (R × R)),
      let P := Decomp.dot (xs.map fun p => line p.1 p.2) (ys.map fun p => line p.1 p.2)
      Decomp.dot (xs.map fun p => (⟨p.1, p.2⟩ : Dual R)) (ys.map fun p => (⟨p.1, p.2⟩ : Dual R))
          = ⟨P.eval 0, (derivative P).eval 0⟩ ∧
        ∀ t, Decomp.dot (xs.map fun p => p.1 + t * p.2) (ys.map fun p => p.1 + t * p.2) = P.eval t) ∧
    (∀ (l r : Matrix (R × R)),
      let P := Decomp.matMul (mapMat (fun p => line p.1 p.2) l) (mapMat (fun p => line p.1 p.2) r)
      Decomp.matMul (mapMat (fun p => (⟨p.1, p.2⟩ : Dual R)) l) (mapMat (fun p => (⟨p.1, p.2⟩ : Dual R)) r)
          = mapMat polyToDual P ∧
        ∀ t, Decomp.matMul (mapMat (fun p => p.1 + t * p.2) l) (mapMat (fun p => p.1 + t * p.2) r)
          = mapMat (Polynomial.eval t) P) ∧
    (∀ (xs : List (R × R)),
      let P := Stats.sum (xs.map fun p => line p.1 p.2)
      Stats.sum (xs.map fun p => (⟨p.1, p.2⟩ : Dual R)) = ⟨P.eval 0, (derivative P).eval 0⟩ ∧
        ∀ t, Stats.sum (xs.map fun p => p.1 + t * p.2) = P.eval t) := by
  have hD := polyToDual_opsHom (R := R)
  have hE := fun t => eval_opsHom (R := R) t
  have mm : ∀ {γ : Type} (f : R[X] → γ) (g : R × R → γ) (hfg : ∀ p : R × R, f (line p.1 p.2) = g p)
      (l : List (R × R)), (l.map fun p => line p.1 p.2).map f = l.map g := by
    intro γ f g hfg l; simp [List.map_map, Function.comp_def, hfg]
  have mmM : ∀ {γ : Type} (f : R[X] → γ) (g : R × R → γ) (hfg : ∀ p : R × R, f (line p.1 p.2) = g p)
      (M : Matrix (R × R)), mapMat f (mapMat (fun p => line p.1 p.2) M) = mapMat g M := by
    intro γ f g hfg M; simp [mapMat, List.map_map, Function.comp_def, hfg]
  refine ⟨?_, ?_, ?_, ?_⟩
  · intro n a a'
    refine ⟨?_, fun t => ?_⟩
    · have := detModel_hom hD n (fun i j => line (a i j) (a' i j))
      simp only [polyToDual_line] at this
      exact this.symm
    · have := detModel_hom (hE t) n (fun i j => line (a i j) (a' i j))
      simp only [eval_line] at this
      exact this.symm
  · intro xs ys
    refine ⟨?_, fun t => ?_⟩
    · have := dot_hom hD (xs.map fun p => line p.1 p.2) (ys.map fun p => line p.1 p.2)
      rw [mm polyToDual (fun p => (⟨p.1, p.2⟩ : Dual R)) (fun p => polyToDual_line p.1 p.2),
        mm polyToDual (fun p => (⟨p.1, p.2⟩ : Dual R)) (fun p => polyToDual_line p.1 p.2)] at this
      exact this.symm
    · have := dot_hom (hE t) (xs.map fun p => line p.1 p.2) (ys.map fun p => line p.1 p.2)
      rw [mm (Polynomial.eval t) (fun p => p.1 + t * p.2) (fun p => eval_line t p.1 p.2),
        mm (Polynomial.eval t) (fun p => p.1 + t * p.2) (fun p => eval_line t p.1 p.2)] at this
      exact this.symm
  · intro l r
    refine ⟨?_, fun t => ?_⟩
    · have := matMul_hom hD (mapMat (fun p => line p.1 p.2) l) (mapMat (fun p => line p.1 p.2) r)
      rw [mmM polyToDual (fun p => (⟨p.1, p.2⟩ : Dual R)) (fun p => polyToDual_line p.1 p.2),
        mmM polyToDual (fun p => (⟨p.1, p.2⟩ : Dual R)) (fun p => polyToDual_line p.1 p.2)] at this
      exact this
    · have := matMul_hom (hE t) (mapMat (fun p => line p.1 p.2) l) (mapMat (fun p => line p.1 p.2) r)
      rw [mmM (Polynomial.eval t) (fun p => p.1 + t * p.2) (fun p => eval_line t p.1 p.2),
        mmM (Polynomial.eval t) (fun p => p.1 + t * p.2) (fun p => eval_line t p.1 p.2)] at this
      exact this
  · intro xs
    refine ⟨?_, fun t => ?_⟩
    · have := sum_hom hD (xs.map fun p => line p.1 p.2)
      rw [mm polyToDual (fun p => (⟨p.1, p.2⟩ : Dual R)) (fun p => polyToDual_line p.1 p.2)] at this
      exact this.symm
    · have := sum_hom (hE t) (xs.map fun p => line p.1 p.2)
      rw [mm (Polynomial.eval t) (fun p => p.1 + t * p.2) (fun p => eval_line t p.1 p.2)] at this
      exact this.symm

/-- **… and over `ℝ` it is the derivative**: the derivative part of the determinant / scalar product
    over dual numbers is `d/dt` at `0` of the routine along `a + t·a′`. -/
theorem dual_derivative_part_is_directional_derivative :
    (∀ (n : ℕ) (a a' : ℕ → ℕ → ℝ),
      (Det.detModel n (fun i j => (⟨a i j, a' i j⟩ : Dual ℝ))).derivative =
        deriv (fun t : ℝ => Det.detModel n (fun i j => a i j + t * a' i j)) 0) ∧
    (∀ xs xs' ys ys' : List ℝ,
      (Decomp.dot (List.zipWith (fun v d => (⟨v, d⟩ : Dual ℝ)) xs xs')
          (List.zipWith (fun v d => (⟨v, d⟩ : Dual ℝ)) ys ys')).derivative =
        deriv (fun t : ℝ => Decomp.dot (List.zipWith (fun v d => v + t * d) xs xs')
          (List.zipWith (fun v d => v + t * d) ys ys')) 0) :=
  ⟨detModel_dual_deriv, dot_dual_deriv⟩

-- non-vacuity: the maps the theorems are instantiated with exist, and the determinant over duals
-- of [[x, 1], [2, 3]] seeded at x has derivative part 3 = d/dx (3x - 2)
example : OpsHom (Dual.number : Dual ℚ → ℚ) := ⟨rfl, rfl, fun _ _ => rfl, fun _ _ => rfl, fun _ _ => rfl⟩
example : OpsHom (polyToDual : ℚ[X] → Dual ℚ) := polyToDual_opsHom
example : (Det.determinant (⟨[⟨5, 1⟩, ⟨1, 0⟩, ⟨2, 0⟩, ⟨3, 0⟩], 2, 2⟩ : Matrix (Dual ℚ))).map
    (fun d => (d.number, d.derivative)) = some (13, 3) := by
  decide +kernel

end EasyMl.C19
