/-
  EasyMl.Props.C15 — property theorems for C15 (tape clear/reset cycles and cross-tape misuse;
  scalar records — record containers are C06's).

  Only property statements live here; lemmas are in EasyMl/Lemmas/TapeWorld.lean.  The model is
  the world of tapes of EasyMl/Model/Tape.lean: `World R = tape id → Tape R`, records carry the
  id of their tape, `World.clear`, `Rec.reset`, every operator's `same_list` test.

  All statements are about **arbitrary** states: any contents of any tape (well formed or not),
  any records (also stale ones, whose tape was cleared without resetting them) — i.e. any history
  of creating, computing, differentiating, clearing and resetting.  `R` is any commutative ring
  with a `Div` instance (no property of `/` is used, except in `cycle_true_derivatives`, which
  takes C04's `DivOK` hypothesis).
-/
import EasyMl.Lemmas.TapeWorld
import EasyMl.Props.C04
import EasyMl.Lemmas.TapeSession

namespace EasyMl.C15
open EasyMl EasyMl.Spec

set_option linter.unusedSectionVars false

variable {R : Type} [CommRing R] [Div R] [RealFns R]

/-- **Each new variable or result occupies the next unused tape position.**
    (a) `Record::variable` and `reset` of a variable put the record at the current length of the
        tape and append one (nullary) entry to that tape only; `reset` of a constant does nothing.
    (b) Every instruction other than `Sum`, in any state: its result is a constant and no tape
        changed, or it sits at the current length of its tape, and exactly that tape grew by
        exactly one entry.
    (c) `Sum`: the result is a constant and no tape changed, or only the result's tape grew, by
        at least one entry, and the result sits in the last one. -/
theorem position_is_length :
    (∀ (x : R) (t : Nat) (w : World R),
      (Rec.mkVar x t w).1 = ⟨x, some t, (w t).length⟩ ∧
      (Rec.mkVar x t w).2 = w.update t (w t ++ [⟨(w t).length, (w t).length, 0, 0⟩])) ∧
    (∀ (r : Rec R) (w : World R),
      match r.history with
      | none => r.reset w = (r, w)
      | some t => (r.reset w).1 = ⟨r.number, some t, (w t).length⟩ ∧
          (r.reset w).2 = w.update t (w t ++ [⟨(w t).length, (w t).length, 0, 0⟩])) ∧
    (∀ (ins : Instr R) (h : Nat) (env : Nat → R) (recs : List (Rec R)) (w w' : World R) (r : Rec R),
      (∀ as, ins ≠ .sum as) → ins.exec h env recs w = (w', .ok r) →
      (r.history = none ∧ w' = w) ∨
      ∃ t e, r.history = some t ∧ r.index = (w t).length ∧ w' = w.update t (w t ++ [e])) ∧
    (∀ (as : List Nat) (h : Nat) (env : Nat → R) (recs : List (Rec R)) (w w' : World R) (r : Rec R),
      (Instr.sum as : Instr R).exec h env recs w = (w', .ok r) →
      (r.history = none ∧ w' = w) ∨
      ∃ t ext, r.history = some t ∧ ext ≠ [] ∧ w' = w.update t (w t ++ ext) ∧
        r.index + 1 = (w t).length + ext.length) := by
  refine ⟨fun x t w => ⟨rfl, rfl⟩, fun r w => ?_, fun ins h env recs w w' r hns hexec => ?_,
    fun as h env recs w w' r hexec => ?_⟩
  · cases hr : r.history with
    | none => simp [Rec.reset, hr]
    | some t => simp [Rec.reset, hr, Tape.appendNullary]
  · exact exec_pos1 ins h env recs w w' r hns hexec
  · have := sumLoop_position _ _ _ _ _ hexec
    simpa [Rec.constant] using this

example : (Instr.var : Instr R).exec 3 (fun _ => 7) [] World.empty
    = (World.empty.update 3 [⟨0, 0, 0, 0⟩], .ok ⟨7, some 3, 0⟩) := rfl

/-- **Every derivative set has exactly one entry per tape entry**: whenever `derivatives()` /
    `try_derivatives()` returns (on any tape, well formed or not, for any record), the vector is as
    long as the record's tape. -/
theorem derivs_length_eq_tape_length (r : Rec R) (w : World R) :
    (∀ d, r.derivatives w = .ok d → ∃ t, r.history = some t ∧ d.length = (w t).length) ∧
    (∀ d, r.tryDerivatives w = .ok (some d) → ∃ t, r.history = some t ∧ d.length = (w t).length) := by
  have key : ∀ d, r.tryDerivatives w = .ok (some d) →
      ∃ t, r.history = some t ∧ d.length = (w t).length := by
    intro d hd
    unfold Rec.tryDerivatives at hd
    cases hr : r.history with
    | none => simp [hr] at hd
    | some t =>
      simp only [hr] at hd
      split at hd
      · rename_i d' hs
        simp only [Outcome.ok.injEq, Option.some.injEq] at hd
        subst hd
        exact ⟨t, rfl, reverseSweep_length _ _ _ hs⟩
      · cases hd
  refine ⟨fun d hd => ?_, key⟩
  unfold Rec.derivatives at hd
  split at hd
  · rename_i d' hs
    cases hd
    exact key _ hs
  · cases hd
  · cases hd

example : (⟨1, some 0, 0⟩ : Rec R).derivatives ((World.empty : World R).update 0 [⟨0, 0, 0, 0⟩])
    = .ok [1] := by
  simp [Rec.derivatives, Rec.tryDerivatives, reverseSweep, sweepFrom, sweepEntry, accumulate,
    World.update]

/-- **After clear-then-reset the tape is a fresh tape running the same computation.**  For any
    world `w` (any history) and any records `rs` of tape `t` (live or stale, any old positions):
    clearing `t` makes it the empty tape and leaves the other tapes alone, and resetting `rs` in
    some order yields *exactly* the records and the world obtained by creating fresh variables
    with the same numbers in that order on the emptied tape.  Hence every subsequent computation
    — being a function of the records and the world — gives the same values, positions and
    derivative vectors as on the fresh tape (second part: any program continued from the two
    states). -/
theorem clear_reset_equiv_fresh (w : World R) (t : Nat) (rs : List (Rec R))
    (hrs : ∀ r ∈ rs, r.history = some t) :
    (w.clear t) t = [] ∧ (∀ t', t' ≠ t → (w.clear t) t' = w t') ∧
    resetAll rs (w.clear t) = mkVars (rs.map (·.number)) t (w.clear t) ∧
    ∀ (p : Prog R) (h : Nat) (env : Nat → R) (k : Nat),
      let live := resetAll rs (w.clear t)
      let fresh := mkVars (rs.map (·.number)) t (w.clear t)
      let runL := Prog.execFrom h env p live.2 live.1
      let runF := Prog.execFrom h env p fresh.2 fresh.1
      runL = runF ∧
      ∀ recs, runL.2 = .ok recs →
        (getRec recs k).derivatives runL.1 = (getRec recs k).derivatives runF.1 := by
  refine ⟨by simp [World.clear], fun t' ht' => World.update_other _ _ _ _ ht',
    resetAll_eq_mkVars rs t hrs _, ?_⟩
  intro p h env k
  simp only
  rw [resetAll_eq_mkVars rs t hrs _]
  exact ⟨rfl, fun _ _ => rfl⟩

example : ∀ r ∈ ([⟨3, some 1, 7⟩, ⟨5, some 1, 2⟩] : List (Rec R)), r.history = some 1 := by
  intro r hr; simp at hr; rcases hr with rfl | rfl <;> rfl

/-- **… and of a fresh WORLD.**  The same against a brand-new list in any other world `wf` (e.g.
    `World.empty`, or a world whose other tapes hold anything): clearing `t` in `w` and resetting
    `rs` gives the same records and the same content of tape `t` as creating the variables on the
    fresh list; and any program then run on tape `t` has the same outcome (records or panic), the
    same final content of tape `t`, and every result has the same `derivatives()` — because a
    computation on tape `t` neither reads nor writes any other tape (`exec_frame`). -/
theorem clear_reset_equiv_fresh_world (w wf : World R) (t : Nat) (hfresh : wf t = [])
    (rs : List (Rec R)) (hrs : ∀ r ∈ rs, r.history = some t) (p : Prog R) (env : Nat → R) :
    let live := resetAll rs (w.clear t)
    let fresh := mkVars (rs.map (·.number)) t wf
    let runL := Prog.execFrom t env p live.2 live.1
    let runF := Prog.execFrom t env p fresh.2 fresh.1
    live.1 = fresh.1 ∧ live.2 t = fresh.2 t ∧ runL.2 = runF.2 ∧ runL.1 t = runF.1 t ∧
    ∀ recs, runL.2 = .ok recs → ∀ k,
      (getRec recs k).derivatives runL.1 = (getRec recs k).derivatives runF.1 := by
  intro live fresh runL runF
  have hw0 : (w.clear t) t = wf t := by simp [World.clear, hfresh]
  obtain ⟨h1, h2, h3⟩ := mkVars_frame t (rs.map (·.number)) (w.clear t) wf hw0
  have hlive : live = mkVars (rs.map (·.number)) t (w.clear t) := resetAll_eq_mkVars rs t hrs _
  have e1 : live.1 = fresh.1 := by rw [hlive]; exact h1
  have e2 : live.2 t = fresh.2 t := by rw [hlive]; exact h2
  have hon : ∀ r ∈ live.1, OnTape t r := by rw [hlive]; exact h3
  obtain ⟨f1, f2, f3⟩ := execFrom_frame t env p live.1 live.2 fresh.2 hon e2
  have eL : runF = Prog.execFrom t env p fresh.2 live.1 := by simp only [runF, e1]
  refine ⟨e1, e2, by rw [eL]; exact f1, by rw [eL]; exact f2, ?_⟩
  intro recs hrecs k
  rw [eL]
  exact derivatives_frame _ _ _ t
    (OnTape.getRec_default t recs (f3 recs hrecs) k) f2

example : (World.empty : World R) 3 = [] := rfl

/-- **Derivatives requested after a clear-and-reset cycle are the true partial derivatives.**
    After any history, clearing tape `t`, resetting the records `rs` of `t` in some order and then
    running any program `p` (whose operand positions `0 … rs.length−1` denote the reset records)
    is literally running the program `var, …, var, p` on the emptied tape with the records'
    numbers as inputs — so all of C04 applies to it: no panic, plain values, and `derivatives()`
    of every result holds at the position of every input (the reset records included) the
    partial derivative defined by the chain rule. -/
theorem cycle_true_derivatives (w : World R) (t : Nat) (rs : List (Rec R))
    (hrs : ∀ r ∈ rs, r.history = some t) (p : Prog R) (env : Nat → R)
    (henv : ∀ j (hj : j < rs.length), env j = (rs[j]).number)
    (hp : Prog.WellScoped ((rs.map fun _ => (Instr.var : Instr R)) ++ p))
    (hd : DivOK ((rs.map fun _ => (Instr.var : Instr R)) ++ p)) :
    let live := resetAll rs (w.clear t)
    let q : Prog R := (rs.map fun _ => (Instr.var : Instr R)) ++ p
    Prog.execFrom t env p live.2 live.1 = Prog.exec t env q (w.clear t) ∧
    ∃ w' recs, Prog.execFrom t env p live.2 live.1 = (w', .ok recs) ∧ recs.length = q.length ∧
      ∀ k, k < q.length →
        match (getRec recs k).history with
        | none => (getRec recs k).derivatives w' = .panic .explicit ∧
            ∀ i, (Prog.grad env q i).getD k 0 = 0
        | some _ =>
          ∃ adj, (getRec recs k).derivatives w' = .ok adj ∧ adj.length = (w' t).length ∧
            ∀ i, q.isInput i = true →
              adj.getD (getRec recs i).index 0 = (Prog.grad env q i).getD k 0 := by
  intro live q
  have hEq : Prog.execFrom t env p live.2 live.1 = Prog.exec t env q (w.clear t) := by
    simp only [live, q, Prog.exec]
    rw [resetAll_eq_mkVars rs t hrs, execFrom_append]
    have := mkVars_eq_exec t env (rs.map (·.number)) (w.clear t) []
      (by intro j hj; simp only [List.length_map] at hj; simpa using henv j hj)
    simp only [List.map_map, Function.comp_def, List.nil_append] at this
    rw [this]
  refine ⟨hEq, ?_⟩
  rw [hEq]
  exact C04.reverse_eq_grad q hp hd t env (w.clear t) (by simp [World.clear]; exact Tape.WF_nil)

example : Prog.WellScoped (([⟨3, some 1, 7⟩, ⟨5, some 1, 2⟩] : List (Rec R)).map
    (fun _ => (Instr.var : Instr R)) ++ [.arith .mul 0 1, .real .sin 2]) := rfl
example : DivOK (([⟨3, some 1, 7⟩, ⟨5, some 1, 2⟩] : List (Rec R)).map
    (fun _ => (Instr.var : Instr R)) ++ [.arith .mul 0 1, .real .sin 2]) := Or.inl rfl

/-- **Reset WITHOUT a clear, or of a subset, also gives true partial derivatives.**  On any
    well-formed tape (e.g. one that still holds earlier computations: `reset` without `clear`, a
    second `reset`, resetting only some records) resetting the records `rs` in some order and then
    running any program `p` is literally running `var, …, var, p` from that tape: the reset records
    are new, independent inputs at the next unused positions, C04's conclusion holds for them and
    for every result, and the derivative vector has one entry per entry of the *whole* tape. -/
theorem reset_true_derivatives (w : World R) (t : Nat) (hw : Tape.WF (w t)) (rs : List (Rec R))
    (hrs : ∀ r ∈ rs, r.history = some t) (p : Prog R) (env : Nat → R)
    (henv : ∀ j (hj : j < rs.length), env j = (rs[j]).number)
    (hp : Prog.WellScoped ((rs.map fun _ => (Instr.var : Instr R)) ++ p))
    (hd : DivOK ((rs.map fun _ => (Instr.var : Instr R)) ++ p)) :
    let live := resetAll rs w
    let q : Prog R := (rs.map fun _ => (Instr.var : Instr R)) ++ p
    Prog.execFrom t env p live.2 live.1 = Prog.exec t env q w ∧
    ∃ w' recs, Prog.execFrom t env p live.2 live.1 = (w', .ok recs) ∧ recs.length = q.length ∧
      ∀ k, k < q.length →
        match (getRec recs k).history with
        | none => (getRec recs k).derivatives w' = .panic .explicit ∧
            ∀ i, (Prog.grad env q i).getD k 0 = 0
        | some _ =>
          ∃ adj, (getRec recs k).derivatives w' = .ok adj ∧ adj.length = (w' t).length ∧
            ∀ i, q.isInput i = true →
              adj.getD (getRec recs i).index 0 = (Prog.grad env q i).getD k 0 := by
  intro live q
  have hEq : Prog.execFrom t env p live.2 live.1 = Prog.exec t env q w := by
    simp only [live, q, Prog.exec]
    rw [resetAll_eq_mkVars rs t hrs, execFrom_append]
    have := mkVars_eq_exec t env (rs.map (·.number)) w []
      (by intro j hj; simp only [List.length_map] at hj; simpa using henv j hj)
    simp only [List.map_map, Function.comp_def, List.nil_append] at this
    rw [this]
  refine ⟨hEq, ?_⟩
  rw [hEq]
  exact C04.reverse_eq_grad q hp hd t env w hw

example : Tape.WF ([⟨0, 0, 0, 0⟩, ⟨0, 1, 5, 0⟩] : Tape R) := by
  intro i hi
  have : i = 0 ∨ i = 1 := by simp at hi; omega
  rcases this with rfl | rfl <;> simp

/-- **A cloned `WengertList` is an independent copy.**  `clone()` makes a new tape `dst` with the
    entries of `src` and changes no other tape; a record carried over with
    `Record::from_existing((number, index), &copy)` has the derivatives it had on the original;
    afterwards the two tapes evolve separately (an append to one is `World.update` of that one). -/
theorem tape_clone_same_derivatives (w : World R) (src dst : Nat) (hne : dst ≠ src) (r : Rec R)
    (hr : r.history = some src) :
    (w.cloneTape src dst) dst = w src ∧ (∀ t, t ≠ dst → (w.cloneTape src dst) t = w t) ∧
    (Rec.fromExisting (r.number, r.index) (some dst)).derivatives (w.cloneTape src dst)
      = r.derivatives w ∧
    r.derivatives (w.cloneTape src dst) = r.derivatives w := by
  have h1 : (w.cloneTape src dst) dst = w src := by simp [World.cloneTape]
  have h2 : (w.cloneTape src dst) src = w src := World.update_other _ _ _ _ (Ne.symm hne)
  refine ⟨h1, fun t ht => World.update_other _ _ _ _ ht, ?_, ?_⟩
  · rw [Rec.derivatives_some _ _ dst rfl, Rec.derivatives_some _ _ src hr, h1]
    rfl
  · rw [Rec.derivatives_some _ _ src hr, Rec.derivatives_some _ _ src hr, h2]

example : (⟨2, some 0, 5⟩ : Rec R).history = some 0 ∧ (1 : Nat) ≠ 0 := ⟨rfl, by decide⟩

/-- **Every binary operation between variables of two different tapes is rejected with a panic
    and appends nothing.**  For `+ − × ÷`, `pow`, `Record::binary` (as model operators and as
    instructions of a program: the world is returned unchanged), and for `Sum` over any list
    `pre ++ a :: mid ++ b :: post` whose terms before `b` are constants or on `a`'s tape: it panics
    when the term `b` of another tape arrives; the entries appended for the earlier terms are all
    on `a`'s tape — no other tape changes. -/
theorem cross_tape_rejected (a b : Rec R) (ta tb : Nat) (ha : a.history = some ta)
    (hb : b.history = some tb) (hne : ta ≠ tb) (w : World R) :
    a.add b w = .panic .explicit ∧ a.sub b w = .panic .explicit ∧
    a.mul b w = .panic .explicit ∧ a.div b w = .panic .explicit ∧
    a.pow b w = .panic .explicit ∧
    (∀ f dfx dfy, a.binary b f dfx dfy w = .panic .explicit) ∧
    (∀ (h : Nat) (env : Nat → R) (recs : List (Rec R)) (i j : Nat),
      getRec recs i = a → getRec recs j = b →
      (∀ o, (Instr.arith o i j : Instr R).exec h env recs w = (w, .panic .explicit)) ∧
      (Instr.pow i j : Instr R).exec h env recs w = (w, .panic .explicit) ∧
      (∀ f dfx dfy, (Instr.binary f dfx dfy i j : Instr R).exec h env recs w = (w, .panic .explicit))) ∧
    (∀ (pre mid post : List (Rec R)), (∀ r ∈ pre, r.history = none ∨ r.history = some ta) →
      (∀ r ∈ mid, r.history = none ∨ r.history = some ta) →
      ∃ w', Rec.sum (pre ++ a :: mid ++ b :: post) w = (w', .panic .explicit) ∧
        ∀ t', t' ≠ ta → w' t' = w t') := by
  have hbin := fun f dfx dfy => binary_cross a b f dfx dfy w ta tb ha hb hne
  refine ⟨by rw [Rec.add_eq]; exact hbin _ _ _, by rw [Rec.sub_eq]; exact hbin _ _ _,
    by rw [Rec.mul_eq]; exact hbin _ _ _, by rw [Rec.div_eq]; exact hbin _ _ _,
    by rw [Rec.pow_eq]; exact hbin _ _ _, hbin, ?_, ?_⟩
  · intro h env recs i j hi hj
    refine ⟨fun o => ?_, ?_, fun f dfx dfy => ?_⟩
    · cases o <;> simp only [Instr.exec, hi, hj, Rec.add_eq, Rec.sub_eq, Rec.mul_eq, Rec.div_eq,
        hbin, liftStep]
    · simp only [Instr.exec, hi, hj, Rec.pow_eq, hbin, liftStep]
    · simp only [Instr.exec, hi, hj, hbin, liftStep]
  · intro pre mid post hpre hmid
    have := sumLoop_cross (pre ++ a :: mid) b post ta tb hb hne (Rec.constant 0) w
      (Or.inr ⟨rfl, a, by simp, ha⟩)
      (by
        intro r hr
        simp only [List.mem_append, List.mem_cons] at hr
        rcases hr with hr | rfl | hr
        · exact hpre r hr
        · exact Or.inr ha
        · exact hmid r hr)
    simpa [Rec.sum, List.append_assoc] using this

example : (⟨2, some 0, 0⟩ : Rec R).history = some 0 ∧ (⟨3, some 1, 0⟩ : Rec R).history = some 1
    ∧ (0 : Nat) ≠ 1 := ⟨rfl, rfl, by decide⟩

/-! ### every tape the public API can produce -/

/-- **Every tape reachable by public operations is well formed**, so the correctness of the
    reverse sweep (`sweep_correct`) needs no hypothesis on such tapes.  Start from any state in
    which every tape is well formed — e.g. `World.empty`, no list created yet — and apply *any*
    sequence of tape-changing public operations (`PubOp`: new variables, `unary` / `binary` with
    arbitrary closures and hence every operator in every operand form, `Sum`, `reset`, `clear`,
    `WengertList::clone`, on any tapes, in any order, with arbitrary records as operands,
    including `same_list` panics and half-completed sums), provided each record operand points
    inside its tape when it is used (`InRangeAll`).  Then every tape is well formed, and from
    every position `y` of every tape the sweep does not panic, returns one adjoint per entry,
    and `Σ_j adj[j]·seed j` is the tangent of entry `y` along `seed` for every direction `seed`.

    The side condition is not about discipline: *stale* records (tape cleared, record not reset)
    are allowed as soon as the tape has regrown past their position — the code appends, the tape
    stays well formed, only the meaning of the derivative is lost.  It excludes exactly the use of
    a record at or beyond the end of its tape, which `clear`'s documentation forbids ("you must
    reset all the Records still using that list") and for which the statement is false: see the
    `example` below.  `live_records` shows the side condition holds by itself for every record
    an operation returned, until its tape is cleared or overwritten. -/
theorem reachable_wf (ops : List (PubOp R)) (w0 : World R) (hw0 : ∀ h, Tape.WF (w0 h))
    (hr : PubOp.InRangeAll ops w0) :
    ∀ h, Tape.WF ((PubOp.run ops w0) h) ∧
      ∀ y, y < ((PubOp.run ops w0) h).length →
        ∃ adj, reverseSweep ((PubOp.run ops w0) h) y = .ok adj ∧
          adj.length = ((PubOp.run ops w0) h).length ∧
          ∀ seed : Nat → R, dotF adj seed = (tapeTan seed ((PubOp.run ops w0) h)).getD y 0 := by
  intro h
  have hwf := PubOp.run_wf ops w0 hw0 hr h
  exact ⟨hwf, fun y hy => sweep_correct _ hwf y hy⟩

-- a sequence with a cleared tape, a stale record used after the tape regrew, a reset, a clone
example : PubOp.InRangeAll
    ([.newVar 2 0, .newVar 3 0, .binary ⟨2, some 0, 0⟩ ⟨3, some 0, 1⟩ (· * ·) (fun _ y => y) (fun x _ => x),
      .clear 0, .newVar 5 0, .unary ⟨2, some 0, 0⟩ (fun x => x) (fun _ => 1), .reset ⟨3, some 0, 1⟩,
      .cloneTape 0 1, .sum [⟨3, some 0, 2⟩, Rec.constant 4]] : List (PubOp ℤ)) World.empty := by
  simp [PubOp.InRangeAll, PubOp.InRange, PubOp.apply, Live, Rec.mkVar, Rec.binary, Rec.sameList,
    Rec.pushBinary, Rec.pushUnary, Rec.unary, Rec.reset, Rec.constant, World.clear, World.update,
    World.cloneTape, World.empty, Tape.appendNullary, Tape.appendUnary, Tape.appendBinary]

-- the side condition cannot be dropped: a record used at the end of its cleared tape makes the
-- code append an entry that is its own parent with a non-zero weight
example : ¬ Tape.WF ((PubOp.run
    ([.newVar 2 0, .clear 0, .unary ⟨2, some 0, 0⟩ (fun x => x) (fun _ => 1)] : List (PubOp ℤ))
    World.empty) 0) := by
  intro hwf
  have := hwf 0 (by
    simp [PubOp.run, PubOp.apply, Rec.mkVar, Rec.unary, Rec.pushUnary, World.clear, World.update,
      World.empty, Tape.appendNullary, Tape.appendUnary])
  simp [PubOp.run, PubOp.apply, Rec.mkVar, Rec.unary, Rec.pushUnary, World.clear, World.update,
    World.empty, Tape.appendNullary, Tape.appendUnary] at this

/-- **Records the API hands out point inside their tape, and keep doing so until the tape is
    cleared.**  (a) The record returned by `variable`, `reset`, `unary`, `binary` (when it does
    not panic) and `Sum` (when it does not panic) is live in the state the operation leaves, if
    the operands were.  (b) Every operation other than `clear` and `WengertList::clone` only
    makes tapes longer, so a live record stays live (`Live.mono`).  Hence the side condition of
    `reachable_wf` holds for every record obtained from the API and used before the next
    `clear` of its tape — and again after `reset`. -/
theorem live_records (w : World R) (hw : ∀ h, Tape.WF (w h)) :
    (∀ x h, Live (Rec.mkVar x h w).2 (Rec.mkVar x h w).1) ∧
    (∀ r : Rec R, Live (r.reset w).2 (r.reset w).1) ∧
    (∀ (a : Rec R) fx dfx, Live w a → Live (a.unary fx dfx w).2 (a.unary fx dfx w).1) ∧
    (∀ (a b : Rec R) fxy dfx dfy r w', Live w a → Live w b →
      a.binary b fxy dfx dfy w = .ok (r, w') → Live w' r) ∧
    (∀ (items : List (Rec R)) r, (∀ x ∈ items, Live w x) → (Rec.sum items w).2 = .ok r →
      Live (Rec.sum items w).1 r) ∧
    (∀ (op : PubOp R), op.InRange w → (∀ h, op ≠ .clear h) → (∀ s d, op ≠ .cloneTape s d) →
      ∀ r : Rec R, Live w r → Live (op.apply w) r) :=
  ⟨fun x h => (mkVar_good x h w hw).2.2,
   fun r => (reset_good r w hw).2.2,
   fun a fx dfx ha => (unary_good a fx dfx w hw ha).2.2,
   fun a b fxy dfx dfy r w' ha hb hrun => (binary_good a b fxy dfx dfy w w' r hw ha hb hrun).2.2,
   fun items r hi hr => (sumLoop_good items _ w hw (Live.constant _ _) hi).2.2 r hr,
   fun op hr hc hcl _ hl => Live.mono (PubOp.apply_grows op w hw hr hc hcl) hl⟩

end EasyMl.C15
