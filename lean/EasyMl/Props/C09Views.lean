/-
  EasyMl.Props.C09Views — C09 over *every* tensor view: the bridge from the C02 view model
  (`View`, `C02.view_get_injective`, `C02.view_unchecked_eq_checked`) to the iterator theorems of
  Props/C09.lean.  It imports both property modules, so the registry's `lean_module` for C09 is
  this file (the theorems of Props/C09.lean are audited through it).

  The tensor adaptors are no longer a hypothesis: a view built by the library's constructors
  (`View.WF`, established by `C02.constructors_establish_wf`) whose leaves are distinct containers
  is a well-formed iterator source, hence all of `mut_items_distinct`, `owned_moves_once`,
  `copy_kth`, `withIndex_kth` apply to `Tensor`, `TensorRefMatrix` and any composition, to any
  depth, of `TensorRange`, `TensorMask`, `TensorIndex`, `TensorExpansion`, `TensorRename`,
  `TensorReverse`, `TensorAccess`, `TensorTranspose`, `TensorStack`, `TensorChain`.
-/
import EasyMl.Props.C02
import EasyMl.Props.C09
import EasyMl.Model.IterView

namespace EasyMl.C09
open EasyMl EasyMl.Iter EasyMl.Spec EasyMl.View

set_option linter.unusedSectionVars false

variable {ν : Type} [DecidableEq ν] [Inhabited ν] {α : Type}

/-- Every well-formed view with distinct leaves is a well-formed iterator source: the unchecked
    accessor the iterators call resolves every index inside the reported shape (no `unwrap` on
    `None`, no undefined behaviour), and different indexes resolve to different cells. -/
theorem view_source_wellFormed (v : View ν α) (h : v.WF) (hn : v.leafIds.Nodup) :
    (TSource.ofView v).WellFormed := by
  constructor
  · intro idx hb
    obtain ⟨c, hu, _⟩ := C02.view_unchecked_eq_checked v h idx hb
    exact ⟨c, by simp [TSource.ofView, hu]⟩
  · intro p q c hp hq h1 h2
    obtain ⟨cp, hup, hgp⟩ := C02.view_unchecked_eq_checked v h p hp
    obtain ⟨cq, huq, hgq⟩ := C02.view_unchecked_eq_checked v h q hq
    simp only [TSource.ofView, hup, Option.some.injEq] at h1
    simp only [TSource.ofView, huq, Option.some.injEq] at h2
    subst h1
    subst h2
    exact (C02.view_get_injective v h hn p q hp hq _ hgp hgq).1

/-- The tensor iterators over every such view are faithful. -/
theorem view_iterators_faithful (v : View ν α) (h : v.WF) (hn : v.leafIds.Nodup) :
    Faithful (shapeItem (lens v.shape)) (prod (lens v.shape)) (TSource.ofView v).cell
      (fun k => ((shapeItem (lens v.shape) k).bind (TSource.ofView v).cell).getD default) :=
  tensor_source_faithful (TSource.ofView v) (view_source_wellFormed v h hn)

/-- Mutable iteration over any view never hands out an element twice (for every number of
    calls; `None` after the end). -/
theorem view_mut_items_distinct (v : View ν α) (h : v.WF) (hn : v.leafIds.Nodup) (n : Nat) :
    ∃ cellOf : Nat → Cell,
      collect (refNext shapeNext (TSource.ofView v).cell) n (ShapeIter.new (lens v.shape)) =
        .ok ((List.range n).map
            (fun k => if k < prod (lens v.shape) then some (some (cellOf k)) else none),
          ShapeIter.steps n (ShapeIter.new (lens v.shape))) ∧
      ((List.range (min n (prod (lens v.shape)))).map cellOf).Nodup :=
  ⟨_, mut_items_distinct (shape_enumerates (lens v.shape)) (view_iterators_faithful v h hn) n⟩

/-- Owned iteration over any view returns each original value once, in view order, and leaves
    placeholders in exactly the visited cells. -/
theorem view_owned_moves_once {β : Type} (v : View ν α) (h : v.WF) (hn : v.leafIds.Nodup)
    (mem0 : Cell → β) (placeholder : β) (n : Nat) :
    ∃ (cellOf : Nat → Cell) (mem : Cell → β),
      (∀ j k, j < prod (lens v.shape) → k < prod (lens v.shape) → cellOf j = cellOf k → j = k) ∧
      collect (ownedNext shapeNext (TSource.ofView v).cell placeholder) n
          (ShapeIter.new (lens v.shape), mem0) =
        .ok ((List.range n).map
            (fun k => if k < prod (lens v.shape) then some (some (mem0 (cellOf k))) else none),
          (ShapeIter.steps n (ShapeIter.new (lens v.shape)), mem)) ∧
      (∀ k, k < min n (prod (lens v.shape)) → mem (cellOf k) = placeholder) ∧
      (∀ c, (∀ k, k < min n (prod (lens v.shape)) → cellOf k ≠ c) → mem c = mem0 c) := by
  have F := view_iterators_faithful v h hn
  refine ⟨_, _, F.distinct,
    owned_moves_once (shape_enumerates (lens v.shape)) F mem0 placeholder n, ?_, ?_⟩
  · intro k hk
    have : ((shapeItem (lens v.shape) k).bind (TSource.ofView v).cell).getD default ∈
        (List.range (min n (prod (lens v.shape)))).map
          (fun k => ((shapeItem (lens v.shape) k).bind (TSource.ofView v).cell).getD default) :=
      List.mem_map.mpr ⟨k, List.mem_range.mpr hk, rfl⟩
    simp only [this, if_true]
  · intro c hc
    have : ¬ c ∈ (List.range (min n (prod (lens v.shape)))).map
        (fun k => ((shapeItem (lens v.shape) k).bind (TSource.ofView v).cell).getD default) := by
      intro hm
      obtain ⟨k, hk, he⟩ := List.mem_map.mp hm
      exact hc k (List.mem_range.mp hk) he
    simp only [this, if_false]

/-- A view never has more elements than its leaves have storage cells (distinct indexes resolve
    to distinct cells of the view's own leaves — pigeonhole). -/
theorem view_elements_le_storage (v : View ν α) (h : v.WF) (hn : v.leafIds.Nodup) :
    prod (lens v.shape) ≤ (v.leaves.map fun l => l.2.length).sum := by
  have F := view_iterators_faithful v h hn
  have E := shape_enumerates (lens v.shape)
  have hnodup := (mut_items_distinct E F (prod (lens v.shape))).2
  rw [Nat.min_self] at hnodup
  -- every handed-out cell is a storage cell of one of the leaves
  let allCells : List Cell :=
    v.leaves.flatMap fun l => (List.range l.2.length).map fun o => (l.1, o)
  have hsub : (List.range (prod (lens v.shape))).map
      (fun k => ((shapeItem (lens v.shape) k).bind (TSource.ofView v).cell).getD default) ⊆
      allCells := by
    intro c hc
    obtain ⟨k, hk, rfl⟩ := List.mem_map.mp hc
    have hk' := List.mem_range.mp hk
    have hin := unravel_inBounds (lens v.shape) k hk'
    obtain ⟨c, hcs, data, h1, h2⟩ := (View.resolves v h).1 _ hin
    have hu := View.uncheckedOK v h _ c hin hcs
    simp only [shapeItem, hk', if_true, Option.bind_some, TSource.ofView, hu, Option.getD_some]
    exact List.mem_flatMap.mpr ⟨(c.1, data), h1, List.mem_map.mpr ⟨c.2, List.mem_range.mpr h2, rfl⟩⟩
  have hlen := List.Nodup.length_le_of_subset hnodup hsub
  have hall : allCells.length = (v.leaves.map fun l => l.2.length).sum := by
    simp [allCells, List.length_flatMap]
  rw [List.length_map, List.length_range, hall] at hlen
  exact hlen

/-- `shapeIter_len` without the hypothesis on the element count: for every view over leaves
    that fit in the address space together, `size_hint()` / `len()` of its iterators are exact at
    every point of the iteration and their computation cannot overflow. -/
theorem view_len_exact (v : View ν α) (h : v.WF) (hn : v.leafIds.Nodup)
    (hfit : (v.leaves.map fun l => l.2.length).sum ≤ usizeMax) (k : Nat) :
    (ShapeIter.steps k (ShapeIter.new (lens v.shape))).sizeHint =
        .ok (remaining (prod (lens v.shape)) k, some (remaining (prod (lens v.shape)) k)) ∧
      lenOfHint (ShapeIter.steps k (ShapeIter.new (lens v.shape))).sizeHint =
        .ok (remaining (prod (lens v.shape)) k) :=
  shapeIter_len (lens v.shape) (Nat.le_trans (view_elements_le_storage v h hn) hfit) k

/-- **The four getters** (`probe m=checked|checked_mut|unchecked|unchecked_mut`; the model has one
    function for the two checked getters, `View.get`, and one for the two unchecked ones,
    `View.getUnchecked`).  On every index inside the reported shape they all resolve to the cell
    the iterators use (`TSource.ofView v`), without any panic; on an index of the right arity
    outside the shape the checked getters answer `None` — never a panic, never a cell. -/
theorem view_probe_spec (v : View ν α) (h : v.WF) (idx : List Nat) :
    (inBounds (lens v.shape) idx = true →
      ∃ c, (TSource.ofView v).cell idx = some c ∧ v.getUnchecked idx = .ok c ∧
        v.get idx = .ok (some c)) ∧
    (inBounds (lens v.shape) idx = false → idx.length = v.shape.length →
      (∀ i ∈ idx, i ≤ usizeMax) → v.get idx = .ok none) := by
  constructor
  · intro hin
    obtain ⟨c, hu, hg⟩ := C02.view_unchecked_eq_checked v h idx hin
    exact ⟨c, by simp [TSource.ofView, hu], hu, hg⟩
  · intro hout hl hb
    obtain ⟨r, hr, hiff⟩ := C02.view_get_some_iff_inBounds v h idx hl hb
    rw [hr]
    cases r with
    | none => rfl
    | some c =>
      have := hiff.mp (by simp)
      rw [hout] at this
      cases this

/-- non-vacuity of `v.WF ∧ v.leafIds.Nodup`: a 2-element tensor leaf -/
example : ∃ v : View String Nat, v.WF ∧ v.leafIds.Nodup :=
  ⟨View.tensor 0 ⟨[0, 1], [("a", 2)], [1]⟩,
    (C02.constructors_establish_wf (ν := String) (α := Nat)).1 0 [("a", 2)] [0, 1] _ rfl
      (by decide), by decide⟩

/-- non-vacuity: a range over a reversed 2×3 tensor is a well-formed view with one leaf, and
    iterating it visits offsets 2, 1, 5, 4 -/
example :
    ∃ v : View String Nat, (mkTensor 0 [("a", 2), ("b", 3)] (List.range 6)).bind
        (fun t => (mkReverse t ["b"]).bind (fun r => mkRange r [("b", ⟨1, 2⟩)])) = some v ∧
      v.leafIds = [0] ∧
      (List.range 4).map (fun k => ((shapeItem (lens v.shape) k).bind (TSource.ofView v).cell)) =
        [some (0, 1), some (0, 0), some (0, 4), some (0, 3)] := by
  refine ⟨_, rfl, rfl, ?_⟩
  rfl

end EasyMl.C09
