/-
  EasyMl.Props.C05 — property theorems for C05 (forward-mode differentiation carries the true
  derivative through every operation).

  Only property statements live here; lemmas are in EasyMl/Lemmas/Dual.lean (and, for the
  agreement with reverse mode, Lemmas/TapeProg.lean).  The dual-number model is
  `EasyMl.Dual` (Model/Tape.lean: the rules of trace_operations.rs read literally); a program is
  run with it by `Prog.execDual i` (Model/TapeExec.lean): input `i` is the `Trace::variable`,
  every other input a `Trace::constant`, plain numbers stay plain numbers.

  `R` is any commutative ring with uninterpreted `sqrt exp ln sin cos pow`; `hd : DivOK p`: the
  program never divides (then any commutative ring, e.g. ℤ/2⁶⁴), or `/` obeys `DivLaws R`, as in
  every field (`DivOK.ofField`: `Fp`, the rationals, ℝ).  No other hypothesis is needed for
  `dual_eq_grad`: traces have no failure mode, ill-scoped operands read the same default on both
  sides, and at a zero divisor both the code's rule `(u'v − uv')/v²` and the formal one are the
  field's `x/0 = 0`.
  That the formal derivative is the analytic one on the functions' domains is `dual_hasDerivAt`.
-/
import EasyMl.Lemmas.Dual
import EasyMl.Props.C04
import EasyMl.Lemmas.TapeChecked

namespace EasyMl.C05
open EasyMl EasyMl.Spec

set_option linter.unusedSectionVars false

variable {R : Type} [CommRing R] [Div R] [RealFns R]

/-- **Forward mode computes the value and the formal derivative.**  For every program (any size,
    fan-out, operand forms), every seeded input `i` and every input point: the trace of every
    instruction `k` carries the plain value of `k` and `∂(instruction k)/∂(input i)` as defined
    by the chain rule. -/
theorem dual_eq_grad (p : Prog R) (hd : DivOK p) (i : Nat) (env : Nat → R) :
    (Prog.execDual i env p).length = p.length ∧
    ∀ k, (getDual (Prog.execDual i env p) k).number = (Prog.eval env p).getD k 0 ∧
         (getDual (Prog.execDual i env p) k).derivative = (Prog.grad env p i).getD k 0 := by
  have h := dual_run i env p hd [] [] [] DualInv.init
  refine ⟨by simp [Prog.execDual, execDualFrom_length], fun k => ?_⟩
  have hk := h.2.2 k
  unfold Prog.execDual Prog.eval Prog.grad Prog.tangents
  rw [hk]
  exact ⟨rfl, rfl⟩

/-- **Comparing traces is comparing the plain numbers**, whatever input is seeded; a `clone` is
    the same trace and `Display` shows the number. -/
theorem compare_eq_plain [NumOrd R] (p : Prog R) (hd : DivOK p) (i : Nat) (env : Nat → R)
    (a b : Nat) (render : R → String) :
    let ds := Prog.execDual i env p
    (getDual ds a).eq (getDual ds b)
      = NumOrd.eq ((Prog.eval env p).getD a 0) ((Prog.eval env p).getD b 0) ∧
    (getDual ds a).partialCmp (getDual ds b)
      = numPartialCmp ((Prog.eval env p).getD a 0) ((Prog.eval env p).getD b 0) ∧
    (getDual ds a).clone = getDual ds a ∧
    (getDual ds a).display render = render ((Prog.eval env p).getD a 0) := by
  intro ds
  have ha := ((dual_eq_grad p hd i env).2 a).1
  have hb := ((dual_eq_grad p hd i env).2 b).1
  refine ⟨?_, ?_, rfl, ?_⟩
  · simp only [Dual.eq, ds, ha, hb]
  · simp only [Dual.partialCmp, ds, ha, hb]
  · simp only [Dual.display, ds, ha]

/-- **`Trace::derivative(function, x)` returns the derivative.**  When `function` is the program
    as a function of the trace put in for input `i` (the other inputs constants) and `x` the
    value of input `i`, the helper returns `∂(result k)/∂(input i)`. -/
theorem derivative_helper_eq_grad (p : Prog R) (hd : DivOK p) (i k : Nat) (env : Nat → R) :
    Dual.derivativeOf (fun t => getDual (Prog.execDualWith i t env p) k) (env i)
      = (Prog.grad env p i).getD k 0 := by
  unfold Dual.derivativeOf Prog.execDualWith
  simp only [execDualWith_mkVar]
  exact ((dual_eq_grad p hd i env).2 k).2

/-- **`Sum for Trace` is repeated addition**: summing traces is adding them one after another with
    `+` to `Trace::zero()`. -/
theorem sum_is_repeated_addition (items : List (Dual R)) :
    Dual.sum items = items.foldl Dual.add (Dual.constant 0) := rfl

/-- **Seeding each input in turn reproduces the gradient reverse mode reports.**  For the same
    program run with records on a tape: a result with a tape has `derivatives()` whose entry at
    the position of every input `i` equals the derivative component of the trace of the run
    seeded at `i`; for a result without a tape (where reverse mode reports nothing) every such
    component is zero. -/
theorem forward_eq_reverse (p : Prog R) (hp : p.WellScoped) (hd : DivOK p) (h : Nat) (env : Nat → R)
    (w0 : World R) (hw0 : Tape.WF (w0 h)) :
    ∃ w recs, Prog.exec h env p w0 = (w, .ok recs) ∧
      ∀ k, k < p.length →
        match (getRec recs k).history with
        | none => ∀ i, (getDual (Prog.execDual i env p) k).derivative = 0
        | some _ =>
          ∃ adj, (getRec recs k).derivatives w = .ok adj ∧
            ∀ i, p.isInput i = true →
              adj.getD (getRec recs i).index 0 = (getDual (Prog.execDual i env p) k).derivative := by
  obtain ⟨w, recs, hrun, _, hall⟩ := C04.reverse_eq_grad p hp hd h env w0 hw0
  refine ⟨w, recs, hrun, fun k hk => ?_⟩
  have := hall k hk
  cases hh : (getRec recs k).history with
  | none =>
    simp only [hh] at this
    intro i
    rw [(dual_eq_grad p hd i env).2 k |>.2]
    exact this.2 i
  | some h' =>
    simp only [hh] at this
    obtain ⟨adj, h1, _, h3⟩ := this
    refine ⟨adj, h1, fun i hi => ?_⟩
    rw [(dual_eq_grad p hd i env).2 k |>.2]
    exact h3 i hi

example : Prog.WellScoped ([.var, .numPow 2 0, .real .cos 1, .arith .div 2 0] : Prog R) := rfl
example : DivOK ([.var, .numPow 2 0, .real .cos 1, .arith .mul 2 0] : Prog R) := Or.inl rfl
example {F : Type} [Field F] [RealFns F] :
    DivOK ([.var, .numPow 2 0, .real .cos 1, .arith .div 2 0] : Prog F) := DivOK.ofField _

/-! ### statements behind the harness-side oracles, hypotheses discharged, closures -/

/-- **Comparisons look at the number only** — for any two traces, whatever their derivative
    components: `==` is the element type's `==` on the numbers, `partial_cmp` its `partial_cmp`
    (and `< <= > >=`, the trait's default methods, are read off it). -/
theorem cmp_eq_plain_cmp [NumOrd R] (a b : Dual R) :
    a.eq b = NumOrd.eq a.number b.number ∧
    a.partialCmp b = numPartialCmp a.number b.number ∧
    ∀ da db : R, (⟨a.number, da⟩ : Dual R).eq ⟨b.number, db⟩ = a.eq b ∧
      (⟨a.number, da⟩ : Dual R).partialCmp ⟨b.number, db⟩ = a.partialCmp b :=
  ⟨rfl, rfl, fun _ _ => ⟨rfl, rfl⟩⟩

example [NumOrd R] : (⟨3, 1⟩ : Dual R).eq ⟨3, 0⟩ = (Dual.constant 3 : Dual R).eq (Dual.constant 3) :=
  rfl

/-- **`clone_from` is `clone`**: whatever the destination held, afterwards it is the source —
    number and derivative. -/
theorem clone_from_eq_clone (dst src : Dual R) :
    dst.cloneFrom src = src.clone ∧ dst.cloneFrom src = src :=
  ⟨rfl, rfl⟩

example : (⟨1, 4⟩ : Dual R).cloneFrom ⟨7, 3⟩ = ⟨7, 3⟩ := rfl

/-- **The chain rule through user-supplied closures.**  `Trace::unary(fx, dfx)` and
    `Trace::binary(fxy, dfx, dfy)` with arbitrary closures: the number is what `fx` / `fxy`
    returned, the derivative is the operand's derivative times what `dfx` returned at the
    operand's number, resp. `a'·dfx(a,b) + b'·dfy(a,b)` — the derivative the closures imply.
    (Inside a program these are the instructions `.unary` / `.binary`, covered by `dual_eq_grad`
    like every other instruction.) -/
theorem user_closure_chain_rule (a b : Dual R) :
    (∀ fx dfx : R → R, (a.unary fx dfx).number = fx a.number ∧
      (a.unary fx dfx).derivative = a.derivative * dfx a.number) ∧
    (∀ fxy dfx dfy : R → R → R, (a.binary b fxy dfx dfy).number = fxy a.number b.number ∧
      (a.binary b fxy dfx dfy).derivative
        = a.derivative * dfx a.number b.number + b.derivative * dfy a.number b.number) :=
  ⟨fun _ _ => ⟨rfl, rfl⟩, fun _ _ _ => ⟨rfl, rfl⟩⟩

/-- `forward_eq_reverse` for every program the generators' grammar can emit (`Prog.Emitted`,
    `C04.generated_programs_valid`), over a field, reverse mode on a fresh tape: no hypothesis
    is left.  At every result, for every input, reverse mode and forward mode report the same
    derivative. -/
theorem forward_eq_reverse_generated {F : Type} [Field F] [RealFns F] (p : Prog F)
    (hp : Prog.Emitted p) (h : Nat) (env : Nat → F) :
    ∃ w recs, Prog.exec h env p World.empty = (w, .ok recs) ∧
      ∀ k, k < p.length →
        match (getRec recs k).history with
        | none => ∀ i, (getDual (Prog.execDual i env p) k).derivative = 0
        | some _ =>
          ∃ adj, (getRec recs k).derivatives w = .ok adj ∧
            ∀ i, p.isInput i = true →
              adj.getD (getRec recs i).index 0 = (getDual (Prog.execDual i env p) k).derivative :=
  forward_eq_reverse p hp.wellScoped (DivOK.ofField p) h env World.empty Tape.WF_nil

example : Prog.Emitted ([.var, .unary (fun x => x * x) (fun x => 2 * x) 0] : Prog R) :=
  .snoc [.var] _ (.snoc [] _ .nil (by simp [Instr.operands])) (by simp [Instr.operands])

/-! ### bounded integer element types (the `@ int trace` lines) -/

open EasyMl.Num in
/-- **Over a bounded integer type the wrapper's value-or-panic is the plain operator's** — the
    statement behind the `@ int trace` self-check lines, as a theorem over the trace model
    instantiated at checked arithmetic (`Model/TapeChecked.lean`; the operators are agent K's
    `arithPlain t`).  For each of the twelve integer types, each of `+ - * /`, any two traces
    whose fields are values:

    * the number of `&a op &b`, and of `&a op &y` with a plain number, is `x op y` as the plain
      operator evaluates it — the same value or the same panic kind —, and the number of `-a`
      is that of plain `-x` (the code computes `0 - x`, which overflows exactly when `-x` does);
    * the whole operation — number first, then the derivative by the rule of
      trace_operations.rs, each step with the checked operators — is agent K's `traceBin` /
      `traceScalar` / `traceNeg`, the model that property C19 ties to the implementation for
      all twelve types: the operation's value, or its first panic.

    The `@ f64` lines stay oracle-only (no Lean model of IEEE-754 arithmetic; the harness
    compares with the documented formula in `f64` by `to_bits`). -/
theorem trace_op_checked_eq_plain (t : IntTy) (op : BinOp) (a b : Num.Trace (Val t)) (y : Val t) :
    (Dual.bin op (Dual.ofTrace a) (Dual.ofTrace b)).number.out
      = (arithPlain t).bin op a.number b.number ∧
    (Dual.binNum op (Dual.ofTrace a) (Chk.lift y)).number.out = (arithPlain t).bin op a.number y ∧
    (Dual.neg (Dual.ofTrace a)).number.out = (arithPlain t).neg a.number ∧
    (Dual.bin op (Dual.ofTrace a) (Dual.ofTrace b)).evaluated = traceBin (arithPlain t) op a b ∧
    (Dual.binNum op (Dual.ofTrace a) (Chk.lift y)).evaluated = traceScalar (arithPlain t) op a y ∧
    (Dual.neg (Dual.ofTrace a)).evaluated = traceNeg (arithPlain t) a := by
  refine ⟨?_, ?_, ?_, Dual.bin_evaluated op a b, Dual.binNum_evaluated op a y,
    Dual.neg_evaluated a⟩
  · cases op <;> rfl
  · cases op <;> rfl
  · exact Chk.zero_sub a.number

open EasyMl.Num in
example : (Dual.bin .mul (Dual.ofTrace (⟨ofInt .i8 16, ofInt .i8 1⟩ : Num.Trace (Val .i8)))
    (Dual.ofTrace ⟨ofInt .i8 8, ofInt .i8 0⟩)).evaluated.isOk = false ∧
    (Dual.bin .mul (Dual.ofTrace (⟨ofInt .i8 15, ofInt .i8 1⟩ : Num.Trace (Val .i8)))
    (Dual.ofTrace ⟨ofInt .i8 8, ofInt .i8 0⟩)).evaluated.isOk = true := by
  decide

/-- **The derivative component of a trace is the true derivative.**  Over ℝ, for a program
    regular at the input point, the trace of result `k` in the run seeded at input `i` carries the
    value of `k` and the derivative of that value with respect to input `i`. -/
theorem dual_hasDerivAt (p : Prog ℝ) (env : Nat → ℝ) (hreg : p.Regular env) (i k : Nat) :
    (getDual (Prog.execDual i env p) k).number = (Prog.eval env p).getD k 0 ∧
    HasDerivAt (fun x => (Prog.eval (Function.update env i x) p).getD k 0)
      (getDual (Prog.execDual i env p) k).derivative (env i) := by
  obtain ⟨h1, h2⟩ := (dual_eq_grad p (DivOK.ofField p) i env).2 k
  exact ⟨h1, by rw [h2]; exact C04.grad_hasDerivAt p env hreg i k⟩

example : Prog.Regular (fun _ => (3 : ℝ)) [.var, .numPow 2 0, .real .cos 1, .arithNum .div 2 5,
    .real .sqrt 0] := by
  simp [Prog.Regular, Prog.RegularFrom, Instr.Regular, Instr.val]

end EasyMl.C05
