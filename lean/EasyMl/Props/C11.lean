/-
  EasyMl.Props.C11 — property theorems for C11 (matrix resizing histories keep the matrix equal
  to a list-of-rows model).

  Only property statements live here; helper lemmas are in EasyMl/Lemmas/MatrixResize.lean.
  The theorems are about the very definitions the `emlmodel` driver executes against the
  implementation: the code-shaped model `Matrix.exec / step / run` (EasyMl/Model/MatrixResize.lean,
  mirroring the *repaired* code, fixes E-01 … E-04) and the list-of-rows specification
  `Rows.pre / apply / step / run` (EasyMl/Spec/MatrixResize.lean).

  `abs m = m.toRows` cuts the flat storage into `rows` rows of `columns` elements.  All theorems
  hold for every element type, every size, every argument (no bound on indexes, value lists or
  slice expressions) and — `history_refines` — every finite history.

  The pre-fix behaviour of the pinned commit is kept in the `…Old` definitions; the theorems at
  the end show, on concrete witnesses and by kernel evaluation, that it violates the frame /
  refinement statements proved here for the repaired code.
-/
import EasyMl.Lemmas.MatrixResize

namespace EasyMl.C11
open EasyMl EasyMl.Matrix

variable {α : Type}

/-- The abstraction function: flat row-major storage ↦ list of rows. -/
abbrev abs (m : Matrix α) : Rows α := m.toRows

/-! ### what the observations of a matrix say about its list of rows -/

/-- A matrix satisfying the invariant abstracts to a rectangular list of rows that is at least
    1×1. -/
theorem abs_wf (m : Matrix α) (h : m.Inv) : Rows.Wf (abs m) :=
  wf_of_rect (rect_toRows m h) (by rw [length_toRows]; exact h.2.1) h.2.2

/-- `size()` reports the number of rows and the common row length of the list of rows. -/
theorem size_refines (m : Matrix α) (h : m.Inv) :
    m.size = (Rows.nrows (abs m), Rows.ncols (abs m)) := by
  simp [Matrix.size, Rows.nrows, length_toRows, ncols_toRows m h]

/-- Every element: the checked getter answers exactly the cell of the list of rows (for every
    `(row, column)`, in range or not; no invariant needed). -/
theorem get_refines (m : Matrix α) (row column : Nat) :
    m.tryGet row column = Rows.cell (abs m) row column :=
  (cell_toRows m row column).symm

/-- The storage of a matrix satisfying the invariant is the concatenation of its rows. -/
theorem data_eq_flatten (m : Matrix α) (h : m.Inv) : m.data = (abs m).flatten :=
  (flatten_toRows m h).symm

/-! ### one operation -/

/-- **Refinement.** Whenever the documented precondition holds the operation does not panic and
    the resulting matrix abstracts to the list of rows the specification computes. -/
theorem step_refines (m : Matrix α) (h : m.Inv) (op : Op α) (hp : Rows.pre (abs m) op = true) :
    m.step op = .ok (m.exec op).state ∧ abs (m.exec op).state = Rows.apply (abs m) op := by
  obtain ⟨h1, _, h3⟩ := (exec_spec m h op).1 hp
  refine ⟨?_, h3⟩
  unfold Matrix.step
  generalize m.exec op = res at h1
  obtain ⟨s, p⟩ := res
  simp only at h1
  subst h1
  rfl

/-- **Invariant.** Whatever the arguments, the matrix left behind (also after a panic) has
    `data.len() = rows · columns`, at least one row and at least one column. -/
theorem step_inv (m : Matrix α) (h : m.Inv) (op : Op α) : (m.exec op).state.Inv := by
  cases hp : Rows.pre (abs m) op with
  | true => exact ((exec_spec m h op).1 hp).2.1
  | false => rw [((exec_spec m h op).2 hp).2]; exact h

/-- **Panics exactly on the documented precondition failures** (index beyond the allowed range,
    removing the only or a non-existent row/column, too few supplied values, a retention that
    would leave no row or no column) — and then by one of the library's own assertions. -/
theorem step_panics_iff_precondition_fails (m : Matrix α) (h : m.Inv) (op : Op α) :
    ((∃ k, m.step op = .panic k) ↔ Rows.pre (abs m) op = false) ∧
    (∀ k, m.step op = .panic k → k = .explicit) := by
  unfold Matrix.step
  cases hp : Rows.pre (abs m) op with
  | true =>
    obtain ⟨h1, _, _⟩ := (exec_spec m h op).1 hp
    generalize m.exec op = res at h1
    obtain ⟨s, p⟩ := res
    simp only at h1
    subst h1
    simp
  | false =>
    obtain ⟨h1, _⟩ := (exec_spec m h op).2 hp
    generalize m.exec op = res at h1
    obtain ⟨s, p⟩ := res
    simp only at h1
    subst h1
    simp

/-- **Frame.** An operation that panics leaves the matrix exactly as it was. -/
theorem panic_frame (m : Matrix α) (h : m.Inv) (op : Op α) (hp : (m.exec op).panic ≠ none) :
    (m.exec op).state = m := by
  cases hpre : Rows.pre (abs m) op with
  | true => exact absurd ((exec_spec m h op).1 hpre).1 hp
  | false => exact ((exec_spec m h op).2 hpre).2

/-- One step of the code-shaped model simulates one step of the list-of-rows model, outcome
    included. -/
theorem step_simulates (m : Matrix α) (h : m.Inv) (op : Op α) :
    match m.step op, Rows.step (abs m) op with
    | .ok m', .ok rs' => m'.Inv ∧ abs m' = rs'
    | .panic k, .panic k' => k = k' ∧ (m.exec op).state = m
    | _, _ => False := by
  unfold Matrix.step Rows.step
  cases hp : Rows.pre (abs m) op with
  | true =>
    obtain ⟨h1, h2, h3⟩ := (exec_spec m h op).1 hp
    generalize m.exec op = res at h1 h2 h3
    obtain ⟨s, p⟩ := res
    simp only at h1 h2 h3
    subst h1
    exact ⟨h2, h3⟩
  | false =>
    obtain ⟨h1, h2⟩ := (exec_spec m h op).2 hp
    generalize m.exec op = res at h1 h2
    obtain ⟨s, p⟩ := res
    simp only at h1 h2
    subst h1
    exact ⟨rfl, h2⟩

/-- The list-of-rows model itself never reaches an empty or jagged state. -/
theorem spec_step_wf (rs : Rows α) (h : Rows.Wf rs) (op : Op α) : Rows.Wf (Rows.next rs op) := by
  have hrect : Rect (Rows.ncols rs) rs := h.2.2
  have e := toRows_ofRows rs hrect
  have hinv : (ofRows rs (Rows.ncols rs)).Inv := inv_ofRows hrect h.1 h.2.1
  unfold Rows.next
  cases hp : Rows.pre rs op with
  | true =>
    have := (exec_spec _ hinv op).1 (by rw [e]; exact hp)
    simp only [if_true]
    rw [← e, ← this.2.2]
    exact abs_wf _ this.2.1
  | false => simpa using h

/-! ### all histories -/

/-- **Every finite history.** Starting from any matrix that satisfies the invariant, after any
    sequence of operations with any arguments (valid or not): the invariant holds (in particular
    the matrix never has zero rows or columns), the matrix abstracts to the state the
    list-of-rows model reaches by the same history, and the two models panicked at exactly the
    same operations. -/
theorem history_refines (m : Matrix α) (h : m.Inv) (ops : List (Op α)) :
    (m.run ops).Inv ∧ abs (m.run ops) = Rows.run (abs m) ops ∧
      m.runTrace ops = Rows.runTrace (abs m) ops := by
  induction ops generalizing m with
  | nil => exact ⟨h, rfl, rfl⟩
  | cons op ops ih =>
    simp only [Matrix.run, Matrix.runTrace, Rows.run, Rows.runTrace, Rows.next]
    cases hp : Rows.pre (abs m) op with
    | true =>
      obtain ⟨h1, h2, h3⟩ := (exec_spec m h op).1 hp
      obtain ⟨i1, i2, i3⟩ := ih (m.exec op).state h2
      simp only [if_true]
      rw [← h3]
      exact ⟨i1, i2, by rw [i3, h1]; rfl⟩
    | false =>
      obtain ⟨h1, h2⟩ := (exec_spec m h op).2 hp
      obtain ⟨i1, i2, i3⟩ := ih (m.exec op).state (by rw [h2]; exact h)
      rw [h2] at i1 i2 i3
      rw [h2]
      simp only [Bool.false_eq_true, if_false]
      exact ⟨i1, i2, by rw [i3, h1]; rfl⟩

/-- Corollary: along every history the reported size is at least 1×1 and agrees with the storage. -/
theorem history_never_empty (m : Matrix α) (h : m.Inv) (ops : List (Op α)) :
    1 ≤ (m.run ops).rows ∧ 1 ≤ (m.run ops).columns ∧
      (m.run ops).data.length = (m.run ops).rows * (m.run ops).columns :=
  let ⟨hi, _, _⟩ := history_refines m h ops
  ⟨hi.2.1, hi.2.2, hi.1⟩

/-! ### user closures / iterators that panic part way -/

/-- **User code panicking on its `k`-th call** (`map_mut`, `map_mut_with_index`, `map`,
    `map_with_index` closures; the `next` of the iterator handed to `insert_row_with` /
    `insert_column_with`), for every `k`, on every matrix satisfying the invariant: the matrix
    the caller is left with still satisfies the invariant (size and storage agree, at least 1×1)
    and abstracts to the documented state — for the in-place maps the cells visited before the
    panic (row-major) are mapped and the others untouched, in every other case the matrix is
    unmodified — and the operation panics exactly when the user code is reached at its `k`-th
    call (or a documented precondition fails). -/
theorem xstep_refines (m : Matrix α) (h : m.Inv) (x : XOp α) :
    (m.xexec x).state.Inv ∧ abs (m.xexec x).state = Rows.xnext (abs m) x ∧
      (m.xexec x).panic.isSome = Rows.xpanics (abs m) x :=
  xexec_spec m h x

/-- A panic raised by the iterator's `next` or by the closure of an allocating map leaves the
    matrix exactly as it was (the in-place maps are the only operations that may keep a partial
    effect, and only on element values). -/
theorem xpanic_frame (m : Matrix α) (h : m.Inv) (x : XOp α)
    (hx : (∀ f k, x ≠ .mapMutPanic f k) ∧ (∀ g k, x ≠ .mapMutWithIndexPanic g k))
    (hp : (m.xexec x).panic ≠ none) : (m.xexec x).state = m := by
  cases x with
  | op o => exact panic_frame m h o hp
  | mapMutPanic f k => exact absurd rfl (hx.1 f k)
  | mapMutWithIndexPanic f k => exact absurd rfl (hx.2 f k)
  | mapPanic f k =>
    simp only [xexec, mapPanic] at hp ⊢
    split
    · rfl
    · rename_i hk
      rw [if_neg hk] at hp
      exact panic_frame m h (.map f) hp
  | mapWithIndexPanic f k =>
    simp only [xexec, mapWithIndexPanic] at hp ⊢
    split
    · rfl
    · rename_i hk
      rw [if_neg hk] at hp
      exact panic_frame m h (.mapWithIndex f) hp
  | insertRowWithPanic row values k =>
    simp only [xexec, insertRowWithPanic] at hp ⊢
    split
    · split
      · rfl
      · rename_i hr hk
        rw [if_pos hr, if_neg hk] at hp
        exact panic_frame m h (.insertRowWith row values) hp
    · rfl
  | insertColumnWithPanic column values k =>
    simp only [xexec, insertColumnWithPanic] at hp ⊢
    split
    · split
      · rfl
      · rename_i hr hk
        rw [if_pos hr, if_neg hk] at hp
        exact panic_frame m h (.insertColumnWith column values) hp
    · rfl

/-- **What the property itself demands of an in-place map whose closure panics** (whatever the
    visiting order and however much of the work was done — this is the statement the `obs` part
    of the correspondence compares; the exact pattern of mapped cells of `xstep_refines` is
    code-shaped detail): the survivor satisfies the invariant, has the size it had, and every
    cell holds either its old value or the mapped value. -/
theorem inplace_map_panic_obs (m : Matrix α) (h : m.Inv) (f : α → α) (g : α → Nat → Nat → α)
    (k i j : Nat) :
    ((m.mapMutPanic f k).state.Inv ∧ (m.mapMutPanic f k).state.size = m.size ∧
      (Rows.cell (abs (m.mapMutPanic f k).state) i j = Rows.cell (abs m) i j ∨
       Rows.cell (abs (m.mapMutPanic f k).state) i j = (Rows.cell (abs m) i j).map f)) ∧
    ((m.mapMutWithIndexPanic g k).state.Inv ∧ (m.mapMutWithIndexPanic g k).state.size = m.size ∧
      (Rows.cell (abs (m.mapMutWithIndexPanic g k).state) i j = Rows.cell (abs m) i j ∨
       Rows.cell (abs (m.mapMutWithIndexPanic g k).state) i j =
         (Rows.cell (abs m) i j).map fun x => g x i j)) := by
  obtain ⟨a1, a2, _⟩ := xexec_spec m h (.mapMutPanic f k)
  obtain ⟨b1, b2, _⟩ := xexec_spec m h (.mapMutWithIndexPanic g k)
  simp only [Matrix.xexec, Rows.xnext] at a1 a2 b1 b2
  refine ⟨⟨a1, rfl, ?_⟩, ⟨b1, rfl, ?_⟩⟩
  · show Rows.cell (m.mapMutPanic f k).state.toRows i j = _ ∨ Rows.cell (m.mapMutPanic f k).state.toRows i j = _
    rw [a2]; exact cell_mapFirst_old_or_mapped k (fun x _ _ => f x) _ i j
  · show Rows.cell (m.mapMutWithIndexPanic g k).state.toRows i j = _ ∨
      Rows.cell (m.mapMutWithIndexPanic g k).state.toRows i j = _
    rw [b2]; exact cell_mapFirst_old_or_mapped k g _ i j

/-- The in-place maps never change the size, whether or not their closure panics. -/
theorem inplace_map_keeps_size (m : Matrix α) (f : α → α) (g : α → Nat → Nat → α) (k : Nat) :
    (m.mapMutPanic f k).state.size = m.size ∧ (m.mapMutWithIndexPanic g k).state.size = m.size :=
  ⟨rfl, rfl⟩

/-- **Every finite history over the extended alphabet** (ordinary operations with any arguments
    and user code panicking at any call): invariant, refinement of the list-of-rows history, and
    identical panic traces. -/
theorem xhistory_refines (m : Matrix α) (h : m.Inv) (xs : List (XOp α)) :
    (m.xrun xs).Inv ∧ abs (m.xrun xs) = Rows.xrun (abs m) xs ∧
      m.xrunTrace xs = Rows.xrunTrace (abs m) xs := by
  induction xs generalizing m with
  | nil => exact ⟨h, rfl, rfl⟩
  | cons x xs ih =>
    obtain ⟨h1, h2, h3⟩ := xexec_spec m h x
    obtain ⟨i1, i2, i3⟩ := ih (m.xexec x).state h1
    simp only [Matrix.xrun, Matrix.xrunTrace, Rows.xrun, Rows.xrunTrace]
    rw [← h2, ← h3]
    exact ⟨i1, i2, by rw [i3]⟩

/-! ### round trips -/

/-- the abstraction is injective on matrices satisfying the invariant: equal lists of rows mean
    the very same matrix (size fields and storage) -/
theorem abs_injective (a b : Matrix α) (ha : a.Inv) (hb : b.Inv) (h : abs a = abs b) : a = b :=
  eq_of_toRows_eq a b ha hb h

/-- **Operations that undo each other give back the very same matrix** (size fields and storage,
    not only the same elements): double in-place transposition, double allocating transposition,
    retain-all, the identity maps, insert-then-remove of a row / column at any valid position, and
    removing a row then re-inserting its values through an iterator. -/
theorem round_trips (m : Matrix α) (h : m.Inv) (p : Nat) (v : α) :
    m.run [.transposeMut, .transposeMut] = m ∧
    m.run [.transpose, .transpose] = m ∧
    m.run [.retainMut .all .all] = m ∧ m.run [.retain .all (.not .none)] = m ∧
    m.run [.mapMut id] = m ∧ m.run [.mapMutWithIndex fun x _ _ => x] = m ∧
    (p ≤ m.rows → m.run [.insertRow p v, .removeRow p] = m) ∧
    (p ≤ m.columns → m.run [.insertColumn p v, .removeColumn p] = m) ∧
    (1 < m.rows → ∀ (hp : p < (abs m).length),
      m.run [.removeRow p, .insertRowWith p ((abs m)[p])] = m) := by
  have hn : Rows.nrows (abs m) = m.rows := length_toRows m
  have hc : Rows.ncols (abs m) = m.columns := ncols_toRows m h
  have hrect : Rect m.columns (abs m) := rect_toRows m h
  -- a history whose list-of-rows effect is the identity gives back `m`
  have key : ∀ ops : List (Op α), Rows.run (abs m) ops = abs m → m.run ops = m := by
    intro ops hr
    obtain ⟨i1, i2, _⟩ := history_refines m h ops
    exact abs_injective _ _ i1 h (by rw [i2, hr])
  refine ⟨key _ ?_, key _ ?_, key _ ?_, key _ ?_, key _ ?_, key _ ?_, fun hp => key _ ?_,
    fun hp => key _ ?_, fun h1 hp => key _ ?_⟩
  · simp only [Rows.run, Rows.next, Rows.pre, Rows.apply, if_true]
    exact transpose_transpose_toRows m h
  · simp only [Rows.run, Rows.next, Rows.pre, Rows.apply, if_true]
    exact transpose_transpose_toRows m h
  · have e : Rows.apply (abs m) (.retainMut .all .all) = abs m := by
      simp only [Rows.apply]
      rw [show Slice.accepts Slice.all = fun _ => true from rfl, filterIdx_true]
      rw [List.map_congr_left (g := id) (fun x _ => filterIdx_true x)]
      simp
    simp only [Rows.run, Rows.next, e, ite_self]
  · have e : Rows.apply (abs m) (.retain .all (.not .none)) = abs m := by
      simp only [Rows.apply]
      rw [show Slice.accepts Slice.all = fun _ => true from rfl,
        show Slice.accepts (Slice.not Slice.none) = fun _ => true from rfl, filterIdx_true]
      rw [List.map_congr_left (g := id) (fun x _ => filterIdx_true x)]
      simp
    simp only [Rows.run, Rows.next, e, ite_self]
  · simp [Rows.run, Rows.next, Rows.pre, Rows.apply]
  · have e : Rows.apply (abs m) (.mapMutWithIndex fun x _ _ => x) = abs m := by
      simp only [Rows.apply]
      apply List.ext_getElem?
      intro i
      simp only [List.getElem?_mapIdx]
      cases (abs m)[i]? with
      | none => rfl
      | some r => simp [mapIdx_id']
    simp only [Rows.run, Rows.next, e, ite_self]
  · have h1 : Rows.pre (abs m) (.insertRow p v) = true := by simp [Rows.pre, hn, hp]
    have hlen : (List.insertIdx (abs m) p (List.replicate (Rows.ncols (abs m)) v)).length = m.rows + 1 := by
      rw [List.length_insertIdx_of_le_length (by rw [← hn] at hp; exact hp)]; simp [← hn]
    have h2 : Rows.pre (Rows.apply (abs m) (.insertRow p v)) (.removeRow p) = true := by
      simp only [Rows.pre, Rows.apply, Rows.nrows, hlen, Bool.and_eq_true, decide_eq_true_eq]
      have := h.2.1; omega
    simp only [Rows.run, Rows.next, h1, h2, if_true]
    simp only [Rows.apply]
    exact List.eraseIdx_insertIdx_self _
  · have h1 : Rows.pre (abs m) (.insertColumn p v) = true := by simp [Rows.pre, hc, hp]
    have hnc : Rows.ncols (Rows.apply (abs m) (.insertColumn p v)) = m.columns + 1 := by
      simp only [Rows.apply]
      exact ncols_of_rect (rect_map_insertIdx _ hrect p hp v) (by simp only [List.length_map]; rw [length_toRows]; exact h.2.1)
    have h2 : Rows.pre (Rows.apply (abs m) (.insertColumn p v)) (.removeColumn p) = true := by
      simp only [Rows.pre, hnc, Bool.and_eq_true, decide_eq_true_eq]
      have := h.2.2; omega
    simp only [Rows.run, Rows.next, h1, h2, if_true]
    simp only [Rows.apply, List.map_map]
    rw [List.map_congr_left (g := id)]
    · simp
    · intro r _
      exact List.eraseIdx_insertIdx_self _
  · have hp' : p < m.rows := by rw [← hn]; exact hp
    have h1' : Rows.pre (abs m) (.removeRow p) = true := by simp [Rows.pre, hn, h1, hp']
    have hlen : ((abs m).eraseIdx p).length = m.rows - 1 := by
      rw [List.length_eraseIdx_of_lt hp]; simp [← hn]
    have hrl : ((abs m)[p]).length = m.columns := hrect _ (List.getElem_mem hp)
    have hnc : Rows.ncols ((abs m).eraseIdx p) = m.columns :=
      ncols_of_rect (rect_eraseIdx _ hrect p) (by rw [hlen]; omega)
    have h2 : Rows.pre (Rows.apply (abs m) (.removeRow p)) (.insertRowWith p ((abs m)[p])) = true := by
      simp only [Rows.pre, Rows.apply, Rows.nrows, hlen, hnc, hrl, Bool.and_eq_true, decide_eq_true_eq]
      omega
    simp only [Rows.run, Rows.next, h1', h2, if_true]
    simp only [Rows.apply, hnc]
    rw [List.take_of_length_le (by rw [hrl]; exact Nat.le_refl _)]
    exact insertIdx_eraseIdx_self _ p hp

/-! ### constructors establish the invariant -/

/-- `Matrix::from(Vec<Vec<T>>)` accepts exactly the rectangular, at least 1×1 lists of rows … -/
theorem fromRows_some_iff (values : List (List α)) :
    (∃ m, Matrix.fromRows values = some m) ↔ Rows.Wf values := by
  unfold Matrix.fromRows Rows.Wf
  cases values with
  | nil => simp [Rows.nrows]
  | cons first rest =>
    by_cases hf : first = []
    · simp [hf, Rows.ncols]
    · have hpos : 1 ≤ first.length := by
        cases first with
        | nil => exact absurd rfl hf
        | cons a l => simp
      simp only [hf, if_false, Rows.nrows, Rows.ncols, List.length_cons]
      by_cases hall : ((first :: rest).all fun r => r.length == first.length) = true
      · simp only [hall, if_true]
        refine ⟨fun _ => ⟨by omega, hpos, ?_⟩, fun _ => ⟨_, rfl⟩⟩
        intro r hr
        simp only [List.all_eq_true, beq_iff_eq] at hall
        exact hall r hr
      · simp only [hall]
        refine ⟨fun ⟨_, h⟩ => by simp at h, fun ⟨_, _, h3⟩ => ?_⟩
        exfalso
        apply hall
        simp only [List.all_eq_true, beq_iff_eq]
        exact h3

/-- … and the matrix it builds satisfies the invariant and abstracts to the given rows. -/
theorem fromRows_refines (values : List (List α)) (m : Matrix α)
    (h : Matrix.fromRows values = some m) : m.Inv ∧ abs m = values := by
  have hwf := (fromRows_some_iff values).mp ⟨m, h⟩
  unfold Matrix.fromRows at h
  cases values with
  | nil => simp at h
  | cons first rest =>
    by_cases hf : first = []
    · simp [hf] at h
    · simp only [hf, if_false] at h
      split at h
      · simp only [Option.some.injEq] at h
        subst h
        exact ofRows_result (first :: rest) hwf.2.2 hwf.1 hwf.2.1
      · simp at h

/-- `from_flat_row_major` (and `from_fn`, which ends in it) establishes the invariant. -/
theorem fromFlatRowMajor_inv (rows columns : Nat) (values : List α) (m : Matrix α)
    (h : Matrix.fromFlatRowMajor rows columns values = some m) :
    m.Inv ∧ m.data = values ∧ m.size = (rows, columns) := by
  unfold Matrix.fromFlatRowMajor at h
  split at h
  · rename_i hc
    simp only [Option.some.injEq] at h
    subst h
    have hpos : 0 < values.length := List.length_pos_iff.mpr hc.2
    have hr : 1 ≤ rows := by
      rcases Nat.eq_zero_or_pos rows with h0 | h0
      · rw [h0] at hc; simp at hc; omega
      · exact h0
    have hcl : 1 ≤ columns := by
      rcases Nat.eq_zero_or_pos columns with h0 | h0
      · rw [h0] at hc; simp at hc; omega
      · exact h0
    exact ⟨⟨hc.1.symm, hr, hcl⟩, rfl, rfl⟩
  · simp at h

/-- **Every public constructor** (`from_scalar`/`unit`, `row`, `column`, `from`,
    `from_flat_row_major`, `from_fn`, `empty`, `diagonal`, `from_diagonal`), with any arguments:
    when the documented precondition holds (at least 1×1, rectangular, matching element count,
    square for the diagonal forms, an element count `usize` can represent) the constructor
    returns a matrix that satisfies the invariant and abstracts to the described list of rows;
    otherwise it panics by one of the library's assertions.  So every history of C11 may start
    from any of them. -/
theorem constructors_inv (c : Ctor α) :
    (Rows.ctorPre c = true → ∃ m, c.build = .ok m ∧ m.Inv ∧ abs m = Rows.ctorRows c) ∧
    (Rows.ctorPre c = false → c.build = .panic .explicit) :=
  ctor_spec c

/-- Histories from constructors: a matrix built by any public constructor and then subjected to
    any finite history satisfies the invariant and abstracts to the list-of-rows history started
    from the constructor's rows. -/
theorem constructed_history_refines (c : Ctor α) (m : Matrix α) (h : c.build = .ok m)
    (ops : List (Op α)) :
    (m.run ops).Inv ∧ abs (m.run ops) = Rows.run (Rows.ctorRows c) ops := by
  cases hp : Rows.ctorPre c with
  | false => rw [(ctor_spec c).2 hp] at h; cases h
  | true =>
    obtain ⟨m', hb, hinv, habs⟩ := (ctor_spec c).1 hp
    rw [hb] at h
    cases h
    rw [← habs]
    exact ⟨(history_refines m hinv ops).1, (history_refines m hinv ops).2.1⟩

/-- The same for the extended alphabet: from any constructor, through any finite history that
    may contain user code panicking at any call. -/
theorem constructed_xhistory_refines (c : Ctor α) (m : Matrix α) (h : c.build = .ok m)
    (xs : List (XOp α)) :
    (m.xrun xs).Inv ∧ abs (m.xrun xs) = Rows.xrun (Rows.ctorRows c) xs := by
  cases hp : Rows.ctorPre c with
  | false => rw [(ctor_spec c).2 hp] at h; cases h
  | true =>
    obtain ⟨m', hb, hinv, habs⟩ := (ctor_spec c).1 hp
    rw [hb] at h
    cases h
    rw [← habs]
    exact ⟨(xhistory_refines m hinv xs).1, (xhistory_refines m hinv xs).2.1⟩

/-! ### read-only scalar accessors -/

/-- `scalar()` returns the only element of a 1×1 list of rows and panics otherwise. -/
theorem scalar_refines (m : Matrix α) (h : m.Inv) : m.scalarP = Rows.scalar (abs m) :=
  scalarP_spec m h

/-- `try_into_scalar()` never panics: `Ok` of the only element of a 1×1 list of rows, `Err` otherwise. -/
theorem tryIntoScalar_refines (m : Matrix α) (h : m.Inv) :
    m.tryIntoScalar = .ok (Rows.tryIntoScalar (abs m)) :=
  tryIntoScalar_spec m h

/-- `row_iter(r)` yields row `r` of the list of rows and panics when there is no such row. -/
theorem rowIter_refines (m : Matrix α) (h : m.Inv) (r : Nat) :
    m.rowIter r = Rows.rowAt (abs m) r :=
  rowIter_spec m h r

/-- `column_iter(c)` yields column `c` (top to bottom) and panics when there is no such column. -/
theorem columnIter_refines (m : Matrix α) (h : m.Inv) (c : Nat) :
    m.columnIter c = Rows.columnAt (abs m) c :=
  columnIter_spec m h c

/-- `diagonal_iter()` yields the cells `(i, i)`, for square and non-square matrices, and never
    panics; in particular none of the unchecked accesses of the three getters leaves the storage. -/
theorem diagonalIter_refines (m : Matrix α) (h : m.Inv) :
    m.diagonalIter = .ok (Rows.diagonal (abs m)) :=
  diagonalIter_spec m h

/-- `==` (`PartialEq`) on matrices satisfying the invariant decides equality of the lists of rows
    (same size and same elements); without the invariant the `zip` of the storages could stop
    early, which is why the invariant theorems matter for it. -/
theorem eq_refines [BEq α] [LawfulBEq α] (a b : Matrix α) (ha : a.Inv) (hb : b.Inv) :
    a.eqP b = true ↔ abs a = abs b :=
  eqP_spec a b ha hb

/-- `clone()` of a matrix satisfying the invariant does not panic and is the same matrix. -/
theorem clone_refines (m : Matrix α) (h : m.Inv) : m.clone = .ok m :=
  clone_inv m h

/-- the totalisation trap made explicit: on a storage that lost the invariant `==` would call
    different matrices equal -/
example : (⟨[1, 2], 1, 2⟩ : Matrix Nat).eqP ⟨[1, 2, 3, 4], 1, 2⟩ = true := by decide

/-! ### the slice algebra is its set semantics -/

/-- **`Slice::accepts` is membership in the denoted set**, for every slice expression (any
    nesting of `not` / `and` / `or`) and every index: `All` = everything, `None` = nothing,
    `Single(i)` = `{i}`, `Range(a..b)` = `{k | a ≤ k < b}` (empty for reversed and empty ranges),
    `Not` = complement, `And` = intersection, `Or` = union. -/
theorem accepts_iff_mem (s : Slice) (k : Nat) : s.accepts k = true ↔ s.Mem k :=
  Matrix.accepts_iff_mem s k

/-- `Slice2D::accepts` is membership in the product of the two sets. -/
theorem accepts2D_iff_mem (rows columns : Slice) (r c : Nat) :
    Slice.accepts2D rows columns r c = true ↔ rows.Mem r ∧ columns.Mem c := by
  simp [Slice.accepts2D, Matrix.accepts_iff_mem]

/-- The executable set semantics the driver compares with (`Slice.members`, computed by list
    complement / intersection / union without calling `accepts`) lists exactly the accepted
    indexes below `n`. -/
theorem members_iff_accepts (n : Nat) (s : Slice) (k : Nat) :
    k ∈ s.members n ↔ k < n ∧ s.accepts k = true :=
  Matrix.mem_members n s k

/-- a reversed or empty range accepts nothing, and its complement everything -/
theorem reversed_range_empty (a b : Nat) (h : b ≤ a) (k : Nat) :
    (Slice.range a b).accepts k = false ∧ (Slice.not (Slice.range a b)).accepts k = true := by
  have : (Slice.range a b).accepts k = false := by
    simp only [Slice.accepts, Bool.and_eq_false_iff, decide_eq_false_iff_not]; omega
  refine ⟨this, ?_⟩
  show (!(Slice.range a b).accepts k) = true
  rw [this]; rfl

/-- two slice expressions denote the same set -/
def SliceEquiv (a b : Slice) : Prop := ∀ k, a.accepts k = b.accepts k

/-- The boolean algebra laws hold for slice expressions (double negation, De Morgan,
    commutativity, units and zeros), and the intersection of two ranges is the range of the
    larger start and the smaller end — also for reversed, empty and overlapping ranges. -/
theorem slice_algebra (a b : Slice) (s t u v : Nat) :
    SliceEquiv (.not (.not a)) a ∧
    SliceEquiv (.not (.and a b)) (.or (.not a) (.not b)) ∧
    SliceEquiv (.not (.or a b)) (.and (.not a) (.not b)) ∧
    SliceEquiv (.and a b) (.and b a) ∧ SliceEquiv (.or a b) (.or b a) ∧
    SliceEquiv (.and a .all) a ∧ SliceEquiv (.or a .none) a ∧
    SliceEquiv (.and a .none) .none ∧ SliceEquiv (.or a .all) .all ∧
    SliceEquiv (.and a (.not a)) .none ∧ SliceEquiv (.or a (.not a)) .all ∧
    SliceEquiv (.and (.range s t) (.range u v)) (.range (max s u) (min t v)) := by
  refine ⟨?_, ?_, ?_, ?_, ?_, ?_, ?_, ?_, ?_, ?_, ?_, ?_⟩ <;> intro k <;>
    simp only [Slice.accepts]
  · simp
  · simp [Bool.not_and]
  · simp [Bool.not_or]
  · exact Bool.and_comm _ _
  · exact Bool.or_comm _ _
  · simp
  · simp
  · simp
  · simp
  · simp
  · simp
  · rw [Bool.eq_iff_iff]
    simp only [Bool.and_eq_true, decide_eq_true_eq]
    omega

/-- **Only the denoted sets matter for a retention**: slice expressions that accept the same
    indexes give the same `retain_mut` / `retain` result (state and panic), whatever their shape. -/
theorem retain_congr (m : Matrix α) (a a' b b' : Slice) (ha : SliceEquiv a a') (hb : SliceEquiv b b') :
    m.exec (.retainMut a b) = m.exec (.retainMut a' b') ∧
    m.exec (.retain a b) = m.exec (.retain a' b') := by
  have ea : a.accepts = a'.accepts := funext ha
  have eb : b.accepts = b'.accepts := funext hb
  have e2 : Slice.accepts2D a b = Slice.accepts2D a' b' := by
    funext r c; simp only [Slice.accepts2D, ea, eb]
  have ec : ∀ n, countAccepted a n = countAccepted a' n := by
    intro n; simp only [countAccepted, ea]
  have ed : ∀ n, countAccepted b n = countAccepted b' n := by
    intro n; simp only [countAccepted, eb]
  have hmut : ∀ x : Matrix α, x.retainMut a b = x.retainMut a' b' := by
    intro x; simp only [Matrix.retainMut, ec, ed, e2]
  refine ⟨hmut m, ?_⟩
  simp only [Matrix.exec, Matrix.retain]
  cases m.clone with
  | panic k => rfl
  | ok c => simp only [hmut c]

/-! ### a supply of values shared by a sequence of insertions -/

/-- **One iterator lent (`by_ref`) to any sequence of `insert_row_with` / `insert_column_with`
    calls**: every successful insertion takes its values from the front of what is left, exactly as
    many as it uses; a call with too few values left or an invalid position panics without
    touching the matrix; the matrix left behind, the panic flags and what the iterator yields
    afterwards are those of the list-of-rows model, and the invariant holds throughout. -/
theorem shared_supply_refines (m : Matrix α) (h : m.Inv) (steps : List (Bool × Nat))
    (values : List α) :
    (m.sharedInserts steps values).1.Inv ∧
    abs (m.sharedInserts steps values).1 = (Rows.sharedInserts (abs m) steps values).1 ∧
    (m.sharedInserts steps values).2 = (Rows.sharedInserts (abs m) steps values).2 :=
  sharedInserts_spec steps m h values

/-- row-then-column from one supply of six values on a 2×2 matrix: the row takes two, the column
    three, one is left -/
example : (⟨[1, 2, 3, 4], 2, 2⟩ : Matrix Nat).sharedInserts [(true, 1), (false, 0)] [5, 6, 7, 8, 9, 10] =
    (⟨[7, 1, 2, 8, 5, 6, 9, 3, 4], 3, 3⟩, [false, false], [10]) := by decide

/-- **Conversion to a tensor** (`into_tensor`, `TryFrom<(Matrix, [Dimension; 2])>`): for a matrix
    satisfying the invariant it never panics; with two different names it yields the tensor of
    shape `[(row name, rows), (column name, columns)]` whose data is the row-major concatenation of
    the list of rows; with equal names it is `Err`. -/
theorem intoTensor_refines {ν : Type} [DecidableEq ν] (m : Matrix α) (h : m.Inv) (rn cn : ν) :
    (rn ≠ cn → ∃ t, m.intoTensorRows rn cn = .ok (some t) ∧ t.data = (abs m).flatten ∧
      t.shape = [(rn, Rows.nrows (abs m)), (cn, Rows.ncols (abs m))]) ∧
    (rn = cn → m.intoTensorRows rn cn = .ok none) := by
  have hn : Rows.nrows (abs m) = m.rows := length_toRows m
  have hc : Rows.ncols (abs m) = m.columns := ncols_toRows m h
  constructor
  · intro hne
    have hdup : hasDuplicates [rn, cn] = false := by
      simp [hasDuplicates]; exact hne
    have hr : (m.rows == 0) = false := by have := h.2.1; simp; omega
    have hcl : (m.columns == 0) = false := by have := h.2.2; simp; omega
    have hel : elements [(rn, m.rows), (cn, m.columns)] = m.rows * m.columns := by
      simp [elements, prod]
    refine ⟨⟨m.data, [(rn, m.rows), (cn, m.columns)], computeStrides [(rn, m.rows), (cn, m.columns)]⟩,
      ?_, (flatten_toRows m h).symm, by rw [hn, hc]⟩
    simp [Matrix.intoTensorRows, Tensor.tryFrom, validateDimensions, hdup, hr, hcl, hel, h.1]
  · intro he
    subst he
    simp [Matrix.intoTensorRows, hasDuplicates]

/-- **Writes through `MatrixMut::try_get_reference_mut`** never panic: inside the matrix they are
    `set`, outside they return `None` and change nothing. -/
theorem trySet_refines (m : Matrix α) (h : m.Inv) (r c : Nat) (v : α) :
    (Rows.pre (abs m) (.set r c v) = true →
      m.trySet r c v = some (m.exec (.set r c v)).state) ∧
    (Rows.pre (abs m) (.set r c v) = false → m.trySet r c v = none) := by
  have hn : Rows.nrows (abs m) = m.rows := length_toRows m
  have hc : Rows.ncols (abs m) = m.columns := ncols_toRows m h
  simp only [Rows.pre, hn, hc, Bool.and_eq_true, decide_eq_true_eq, Bool.and_eq_false_iff,
    decide_eq_false_iff_not]
  constructor
  · intro hp
    have hidx : m.getIndex r c < m.data.length := by
      unfold Matrix.getIndex; rw [h.1]; exact getIndex_lt hp.1 hp.2
    simp [Matrix.trySet, Matrix.exec, Matrix.set, hp.1, hp.2, hidx]
  · intro hp
    have : ¬ (r < m.rows ∧ c < m.columns) := by omega
    simp [Matrix.trySet, this]

/-! ### the list-of-rows operations are the obvious ones -/

/-- transposition of a well-formed list of rows exchanges the coordinates of every cell -/
theorem spec_transpose_cell (rs : Rows α) (h : Rows.Wf rs) (i j : Nat) (hi : i < Rows.ncols rs)
    (hj : j < Rows.nrows rs) : Rows.cell (Rows.transpose rs) i j = Rows.cell rs j i := by
  have hrect : Rect (Rows.ncols rs) rs := h.2.2
  have e := toRows_ofRows rs hrect
  have hinv : (ofRows rs (Rows.ncols rs)).Inv := inv_ofRows hrect h.1 h.2.1
  have := cell_transpose_toRows _ hinv i j hi hj
  rw [e] at this
  rw [this, ← cell_toRows, e]

/-! ### the layout claim, the unchecked getter, the whole-matrix iterators -/

/-- **`MatrixRef` for `Matrix` is truthful.**  For a matrix satisfying the invariant and every
    index inside the size: the checked getter (`try_get_reference`, the trait route and the
    inherent one are the same function) finds an element; the unchecked getter reads the very same
    storage cell (`data[column + row·columns]`, inside the storage); and the `RowMajor` layout
    claim holds: that cell is position `row·columns + column` of the concatenated list of rows and
    holds the cell `(row, column)` of the list of rows.  Outside the size the checked getter
    answers `None`. -/
theorem matrix_ref_refines (m : Matrix α) (h : m.Inv) (r c : Nat) :
    (r < m.rows → c < m.columns →
      (∃ x, m.tryGet r c = some x) ∧
      m.data[m.getIndex r c]? = m.tryGet r c ∧
      m.collectUnchecked [(r, c)] = .ok ((m.tryGet r c).toList) ∧
      (abs m).flatten[r * m.columns + c]? = m.tryGet r c ∧
      m.tryGet r c = Rows.cell (abs m) r c) ∧
    (¬ (r < m.rows ∧ c < m.columns) → m.tryGet r c = none ∧ Rows.cell (abs m) r c = none) := by
  constructor
  · intro hr hc
    obtain ⟨x, hx⟩ := tryGet_isSome m h.1 hr hc
    have hcell := cell_toRows m r c
    refine ⟨⟨x, hx⟩, by simp [Matrix.tryGet, hr, hc], ?_, ?_, hcell.symm⟩
    · rw [collectUnchecked_ok m h.1 [(r, c)] (by intro p hp; simp at hp; rw [hp]; exact ⟨hr, hc⟩)]
      simp [hx]
    · rw [← hcell]
      have := flatten_getElem?_rect (abs m) (rect_toRows m h) r c
        (by rw [length_toRows]; exact hr) hc
      exact this
  · intro hn
    have : m.tryGet r c = none := by simp [Matrix.tryGet, hn]
    exact ⟨this, by rw [← this]; exact cell_toRows m r c⟩

/-- **The whole-matrix iterators** (`row_major_*`, `column_major_*` in the copying, reference,
    `&mut`, owned and `with_index` flavours all walk the same positions, C09): reading the index
    pairs of the size in row-major order yields the concatenated list of rows — i.e. the storage
    itself, cell `k` at call `k` —, and in column-major order the concatenated transposed rows;
    every position holds an element. -/
theorem whole_matrix_iterators_refine (m : Matrix α) (h : m.Inv) :
    (indexPairs m.rows m.columns).filterMap (fun p => m.tryGet p.1 p.2) = (abs m).flatten ∧
    ((indexPairs m.columns m.rows).filterMap fun p => m.tryGet p.2 p.1) =
      (Rows.transpose (abs m)).flatten ∧
    m.collectUnchecked (indexPairs m.rows m.columns) = .ok (abs m).flatten ∧
    (abs m).flatten = m.data := by
  have hd := flatten_toRows m h
  refine ⟨by rw [rowMajor_tryGet_eq_data m h, hd], ?_, ?_, hd⟩
  · -- column-major: the transposed matrix read row-major
    obtain ⟨_, hinv, ht⟩ := transpose_spec m h
    generalize m.transpose.state = t at hinv ht
    have htr : t.rows = m.columns := by rw [← length_toRows t, ht, length_transpose_toRows m h]
    have htc : t.columns = m.rows := by
      rw [← ncols_toRows t hinv, ht]
      exact ncols_of_rect (rect_transpose_toRows m h)
        (by rw [length_transpose_toRows m h]; exact h.2.2)
    have h1 := rowMajor_tryGet_eq_data t hinv
    rw [htr, htc] at h1
    rw [← ht, flatten_toRows t hinv, ← h1]
    apply filterMap_congr'
    intro p hp
    have hp' := mem_indexPairs.mp hp
    rw [← cell_toRows t p.1 p.2, ht, cell_transpose_toRows m h p.1 p.2 hp'.1 hp'.2]
  · rw [collectUnchecked_ok m h.1 _ (fun p hp => mem_indexPairs.mp hp), rowMajor_tryGet_eq_data m h, hd]

/-- **`Display`** (`format_view` behind `impl Display for Matrix`, any element renderer — the
    precision argument only changes that renderer): on a matrix satisfying the invariant it never
    panics and the text is a function of the list of rows alone: `[ `, the rows with `, ` between
    cells, two spaces before and a newline between rows, ` ]`. -/
theorem display_refines (sh : α → String) (m : Matrix α) (h : m.Inv) :
    m.display sh = .ok (Rows.display sh (abs m)) :=
  display_spec sh m h

/-- the documented example text of a 2×2 matrix, and a single column -/
example : (⟨[1, 2, 3, 4], 2, 2⟩ : Matrix Nat).display toString = .ok "[ 1, 2\n  3, 4 ]" ∧
    Rows.display toString ([[7], [8], [9]] : Rows Nat) = "[ 7\n  8\n  9 ]" := ⟨rfl, rfl⟩

/-! ### hypothesis-free: every matrix a program can hold -/

/-- The matrices a program can hold: built by any public constructor with any arguments, then
    subjected to any finite history over the extended alphabet (any arguments, valid or not,
    user closures / iterators panicking at any call). -/
def Reachable (m : Matrix α) : Prop :=
  ∃ (c : Ctor α) (m0 : Matrix α) (xs : List (XOp α)), c.build = .ok m0 ∧ m = m0.xrun xs

/-- every reachable matrix satisfies the invariant — no hypothesis left -/
theorem reachable_inv (m : Matrix α) (hr : Reachable m) : m.Inv := by
  obtain ⟨c, m0, xs, hb, rfl⟩ := hr
  exact (constructed_xhistory_refines c m0 hb xs).1

/-- reachability is closed under every further (extended) operation -/
theorem reachable_step (m : Matrix α) (hr : Reachable m) (x : XOp α) :
    Reachable (m.xexec x).state := by
  obtain ⟨c, m0, xs, hb, rfl⟩ := hr
  refine ⟨c, m0, xs ++ [x], hb, ?_⟩
  have : ∀ (a : Matrix α) (l : List (XOp α)), a.xrun (l ++ [x]) = ((a.xrun l).xexec x).state := by
    intro a l
    induction l generalizing a with
    | nil => rfl
    | cons y l ih => simp only [List.cons_append, Matrix.xrun]; exact ih _
  exact (this m0 xs).symm

/-- **The headline statements without hypotheses**: for every reachable matrix and every
    (extended) operation with any arguments — the observations are those of the list of rows
    (size, every element, storage, at least 1×1); the operation refines the list-of-rows model,
    panics exactly when that model does, and keeps the invariant; a panic other than that of an
    in-place map's closure leaves the matrix untouched; ordinary operations panic only by a library
    assertion. -/
theorem reachable_headline (m : Matrix α) (hr : Reachable m) (x : XOp α) :
    Rows.Wf (abs m) ∧ m.size = (Rows.nrows (abs m), Rows.ncols (abs m)) ∧
    (∀ r c, m.tryGet r c = Rows.cell (abs m) r c) ∧ m.data = (abs m).flatten ∧
    (m.xexec x).state.Inv ∧ abs (m.xexec x).state = Rows.xnext (abs m) x ∧
    (m.xexec x).panic.isSome = Rows.xpanics (abs m) x ∧
    (((∀ f k, x ≠ .mapMutPanic f k) ∧ (∀ g k, x ≠ .mapMutWithIndexPanic g k)) →
      (m.xexec x).panic ≠ none → (m.xexec x).state = m) ∧
    (∀ o k, x = .op o → m.step o = .panic k → k = .explicit) := by
  have h := reachable_inv m hr
  obtain ⟨s1, s2, s3⟩ := xstep_refines m h x
  refine ⟨abs_wf m h, size_refines m h, get_refines m, data_eq_flatten m h, s1, s2, s3,
    fun hx hp => xpanic_frame m h x hx hp, ?_⟩
  intro o k _ hk
  exact (step_panics_iff_precondition_fails m h o).2 k hk

/-- the read-only API on every reachable matrix: getters, scalar accessors, equality, clone,
    conversion — all functions of the list of rows, none panics unexpectedly -/
theorem reachable_readonly [BEq α] [LawfulBEq α] (a b : Matrix α) (ha : Reachable a)
    (hb : Reachable b) (i : Nat) :
    a.rowIter i = Rows.rowAt (abs a) i ∧ a.columnIter i = Rows.columnAt (abs a) i ∧
    a.diagonalIter = .ok (Rows.diagonal (abs a)) ∧ a.scalarP = Rows.scalar (abs a) ∧
    a.tryIntoScalar = .ok (Rows.tryIntoScalar (abs a)) ∧ a.clone = .ok a ∧
    (a.eqP b = true ↔ abs a = abs b) ∧ (abs a = abs b → a = b) := by
  have h := reachable_inv a ha
  have h' := reachable_inv b hb
  exact ⟨rowIter_refines a h i, columnIter_refines a h i, diagonalIter_refines a h,
    scalar_refines a h, tryIntoScalar_refines a h, clone_refines a h, eq_refines a b h h',
    abs_injective a b h h'⟩

/-- non-vacuity of `Reachable`: a matrix built by `from_diagonal`, grown, hit by a panicking
    closure and shrunk again is reachable, and is not the matrix it started from -/
example : Reachable (⟨[27, 20, 10, 18], 2, 2⟩ : Matrix Nat) :=
  ⟨.fromDiagonal 0 [7, 8], ⟨[7, 0, 0, 8], 2, 2⟩,
    [.op (.insertRow 1 5), .mapMutPanic (· + 10) 2, .op (.removeRow 1), .op (.mapMut (· + 10)),
     .op (.removeRow 7)], rfl, by decide⟩

/-! ### non-vacuity -/

/-- a concrete 2×3 matrix satisfies the invariant … -/
example : (⟨[1, 2, 3, 4, 5, 6], 2, 3⟩ : Matrix Nat).Inv := by decide

/-- … a valid operation on it satisfies the precondition hypothesis of `step_refines` … -/
example : Rows.pre (abs (⟨[1, 2, 3, 4, 5, 6], 2, 3⟩ : Matrix Nat)) (.insertColumnWith 1 [7, 8, 9]) = true := by
  decide

/-- … an invalid one satisfies the panic hypothesis of `panic_frame` … -/
example : ((⟨[1, 2, 3, 4, 5, 6], 2, 3⟩ : Matrix Nat).exec (.insertRowWith 1 [7, 8])).panic ≠ none := by
  decide

/-- … and a mixed history (valid and invalid operations) really moves through different states. -/
example :
    (⟨[1, 2, 3, 4, 5, 6], 2, 3⟩ : Matrix Nat).run
      [.insertRowWith 1 [7, 8], .removeColumn 5, .insertColumnWith 0 [7, 8, 9],
       .retainMut (.not (.single 0)) .all, .transposeMut, .set 0 0 99, .removeRow 3] =
      ⟨[99, 4, 5], 3, 1⟩ ∧
    (⟨[1, 2, 3, 4, 5, 6], 2, 3⟩ : Matrix Nat).runTrace
      [.insertRowWith 1 [7, 8], .removeColumn 5, .insertColumnWith 0 [7, 8, 9],
       .retainMut (.not (.single 0)) .all, .transposeMut, .set 0 0 99, .removeRow 3] =
      [true, true, false, false, false, false, false] := by
  decide

/-- a closure panicking on its call number 4 on a 2×3 matrix: four cells mapped, size kept -/
example : ((⟨[1, 2, 3, 4, 5, 6], 2, 3⟩ : Matrix Nat).xexec (.mapMutPanic (· + 10) 4)) =
      ⟨⟨[11, 12, 13, 14, 5, 6], 2, 3⟩, some .explicit⟩ ∧
    Rows.xnext [[1, 2, 3], [4, 5, 6]] (.mapMutPanic (· + 10) 4 : XOp Nat) = [[11, 12, 13], [14, 5, 6]] ∧
    ((⟨[1, 2, 3, 4, 5, 6], 2, 3⟩ : Matrix Nat).xexec (.insertColumnWithPanic 0 [7, 8] 1)) =
      ⟨⟨[1, 2, 3, 4, 5, 6], 2, 3⟩, some .explicit⟩ := by
  decide

/-- constructors: an accepted and a rejected argument for each clause of `constructors_inv` -/
example : Rows.ctorPre (Ctor.fromDiagonal 0 [7, 8, 9] : Ctor Nat) = true ∧
    (Ctor.fromDiagonal 0 [7, 8, 9] : Ctor Nat).build = .ok ⟨[7, 0, 0, 0, 8, 0, 0, 0, 9], 3, 3⟩ ∧
    Rows.ctorPre (Ctor.diagonal 0 5 2 3 : Ctor Nat) = false ∧
    Rows.ctorPre (Ctor.empty 1 (2 ^ 63) 2 : Ctor Nat) = false ∧
    Rows.ctorPre (Ctor.row [] : Ctor Nat) = false :=
  ⟨by decide, rfl, by decide, by decide, by decide⟩

/-- `retain_congr`: two differently shaped slice expressions that denote the same set -/
example : SliceEquiv (.not (.or (.single 0) (.range 2 9))) (.and (.not (.single 0)) (.not (.range 2 9))) :=
  (slice_algebra (.single 0) (.range 2 9) 0 0 0 0).2.2.1

/-- `round_trips`: its position hypotheses hold for a middle row of a 3×2 matrix, and the row that
    is removed and re-inserted is `[3, 4]` -/
example : (1 ≤ (⟨[1, 2, 3, 4, 5, 6], 3, 2⟩ : Matrix Nat).rows) ∧
    1 < (⟨[1, 2, 3, 4, 5, 6], 3, 2⟩ : Matrix Nat).rows ∧
    (abs (⟨[1, 2, 3, 4, 5, 6], 3, 2⟩ : Matrix Nat))[1]? = some [3, 4] := by decide

/-- `xpanic_frame`: an operation that is not an in-place map and does panic (the iterator's `next`
    panics on its second call) -/
example : ((⟨[1, 2, 3, 4, 5, 6], 3, 2⟩ : Matrix Nat).xexec (.insertRowWithPanic 1 [7, 8] 1)).panic ≠ none := by
  decide

/-- `trySet_refines` / `matrix_ref_refines` / `intoTensor_refines`: an index inside and one outside
    a 2×3 matrix, two different dimension names -/
example : Rows.pre (abs (⟨[1, 2, 3, 4, 5, 6], 2, 3⟩ : Matrix Nat)) (.set 1 2 9) = true ∧
    Rows.pre (abs (⟨[1, 2, 3, 4, 5, 6], 2, 3⟩ : Matrix Nat)) (.set 2 0 9) = false ∧
    (⟨[1, 2, 3, 4, 5, 6], 2, 3⟩ : Matrix Nat).tryGet 1 2 = some 6 ∧
    (abs (⟨[1, 2, 3, 4, 5, 6], 2, 3⟩ : Matrix Nat)).flatten[1 * 3 + 2]? = some 6 ∧
    ("row" : String) ≠ "column" := by decide

/-- `eq_refines` / `abs_injective`: two matrices with the invariant and equal lists of rows -/
example : (⟨[1, 2], 1, 2⟩ : Matrix Nat).Inv ∧
    abs ((⟨[1, 2, 9, 9], 2, 2⟩ : Matrix Nat).run [.removeRow 1]) = abs (⟨[1, 2], 1, 2⟩ : Matrix Nat) := by
  decide

/-! ### the unrepaired code violates these statements (defect witnesses)

  `…Old` are the operations as they are at the pinned commit.  Each witness is evaluated by the
  kernel; the same inputs are replayed against the real code by the correspondence check. -/

/-- Defect 1 (DESIGN §8 #1): `remove_row(5)` on a 2×2 matrix does not panic, removes nothing and
    still decrements `rows`: the invariant `data.len() = rows·columns` is lost. -/
theorem removeRowOld_violates :
    let m : Matrix Nat := ⟨[1, 2, 3, 4], 2, 2⟩
    m.Inv ∧ Rows.pre (abs m) (.removeRow 5) = false ∧
      (m.removeRowOld 5).panic = none ∧ (m.removeRowOld 5).state = ⟨[1, 2, 3, 4], 1, 2⟩ ∧
      ¬ (m.removeRowOld 5).state.Inv := by
  decide

/-- Defect 1, column form: `remove_column(5)` on 2×2 keeps the four elements and reports 2×1;
    the elements read afterwards are `1, 2` instead of a panic / `1,2;3,4`. -/
theorem removeColumnOld_violates :
    let m : Matrix Nat := ⟨[1, 2, 3, 4], 2, 2⟩
    m.Inv ∧ Rows.pre (abs m) (.removeColumn 5) = false ∧
      (m.removeColumnOld 5).panic = none ∧ ¬ (m.removeColumnOld 5).state.Inv ∧
      abs (m.removeColumnOld 5).state = [[1], [2]] := by
  decide

/-- Defect 2 (DESIGN §8 #2): `insert_row_with(1, [7])` on 2×2 panics *after* inserting `7`: the
    surviving matrix has five elements for a 2×2 size and shifted contents — the frame statement
    fails. -/
theorem insertRowWithOld_violates_frame :
    let m : Matrix Nat := ⟨[1, 2, 3, 4], 2, 2⟩
    m.Inv ∧ (m.insertRowWithOld 1 [7]).panic = some .explicit ∧
      (m.insertRowWithOld 1 [7]).state = ⟨[1, 2, 7, 3, 4], 2, 2⟩ ∧
      (m.insertRowWithOld 1 [7]).state ≠ m ∧ ¬ (m.insertRowWithOld 1 [7]).state.Inv := by
  decide

/-- Defect 3 (DESIGN §8 #3): `retain_mut` with a row slice accepting nothing panics after having
    dropped all the data: the surviving 2×2 matrix has no elements. -/
theorem retainMutOld_violates_frame :
    let m : Matrix Nat := ⟨[1, 2, 3, 4], 2, 2⟩
    m.Inv ∧ (m.retainMutOld .none .all).panic = some .explicit ∧
      (m.retainMutOld .none .all).state = ⟨[], 2, 2⟩ ∧ ¬ (m.retainMutOld .none .all).state.Inv := by
  decide

/-- Defect 4 (found by this check): `insert_column_with` given more values than rows fills the
    column from the *last* values (`[8, 9]`), not in sequence from the front (`[7, 8]`). -/
theorem insertColumnWithOld_violates_refinement :
    let m : Matrix Nat := ⟨[1, 2, 3, 4], 2, 2⟩
    m.Inv ∧ Rows.pre (abs m) (.insertColumnWith 0 [7, 8, 9]) = true ∧
      abs (m.insertColumnWithOld 0 [7, 8, 9]).state = [[8, 1, 2], [9, 3, 4]] ∧
      Rows.apply (abs m) (.insertColumnWith 0 [7, 8, 9]) = [[7, 1, 2], [8, 3, 4]] ∧
      abs (m.insertColumnWith 0 [7, 8, 9]).state = [[7, 1, 2], [8, 3, 4]] := by
  decide

end EasyMl.C11
