/-
  EasyMl.Props.C07 — property theorems for C07 (determinant and inverse are exact and present
  exactly when defined).

  Only property statements live here; helper lemmas are in EasyMl/Lemmas/{DetHeaps, DetTable,
  DetMinor, Det}.lean.  Every theorem is about the very definitions the `emlmodel` driver
  executes against the implementation (EasyMl/Model/{Heaps, Det}.lean); the specification is
  Mathlib's `Matrix.det`, `Matrix.adjugate` and `A⁻¹`.

  Vocabulary (defined in Lemmas/Det.lean):
    `sqMat n get`      the Mathlib matrix `fun i j : Fin n => get i j` a square view shows
    `matOfList n l`    a row-major `n × n` buffer as a Mathlib matrix
    `LawfulEq K`       the element type's `==` (used for `det == T::zero()`) is equality
  Sizes: every theorem holds for every size `n ≥ 1` (the property speaks about 1..6).  The
  determinant is proved twice: `heaps_enumerates` / `detModel_eq_det` for sizes 1..6 through
  kernel-checked tables of Heap's algorithm (`decide +kernel`, Lemmas/DetTable.lean), and
  `heaps_enumerates_all` / `detModel_eq_det_all` for every size through a proof of Heap's
  algorithm by induction on the level (Lemmas/HeapsArith.lean, Lemmas/HeapsAll.lean); the
  inverse theorems use the latter.  The tensor inverse theorems carry `names.1 ≠ names.2` (the
  `TensorRef` contract): the model of `Tensor::transpose_mut` resolves the requested order by name
  (`tensor_transpose_by_name`, `tensor_transpose_equal_names`); for constructed inputs it is discharged
  (`inverse_some_iff_constructed`).  `det_congr`/`inverse_congr`: one answer per (size, cells);
  `inverse_result_canonical`: the result is `Tensor::from(shape, buffer)`; `cramer`;
  `inverse_matMul_identity`: composition with C03's model of the library's matrix product.
-/
import EasyMl.Lemmas.Det
import EasyMl.Lemmas.Transform
import EasyMl.Props.C03
import EasyMl.Props.C11

namespace EasyMl.C07
open EasyMl EasyMl.Det Equiv

set_option linter.unusedSectionVars false

/-! ### Heap's algorithm enumerates the permutations with their signs -/

/-- For `n ∈ 1..6` the list emitted by `generate_permutations` on `0..n` is, in emission order,
    the image of a duplicate-free list of **all** permutations of `Fin n`, each presented as its
    arrangement `[σ 0, …, σ (n-1)]` together with the flag `sign σ = 1`: every arrangement occurs
    exactly once and the alternating `even_swaps` flag is the permutation's sign.
    (Kernel-checked tables, `decide +kernel`, in Lemmas/DetTable.lean.) -/
theorem heaps_enumerates (n : Nat) (h1 : 1 ≤ n) (h6 : n ≤ 6) :
    ∃ σs : List (Perm (Fin n)), σs.Nodup ∧ (∀ σ, σ ∈ σs) ∧
      generatePermutations (List.range n)
        = σs.map fun σ => (List.ofFn fun i : Fin n => ((σ i : Fin n) : Nat), decide (Perm.sign σ = 1)) :=
  enumerates_of_tableOK (tableOK_le6 n h1 h6)

/-- Any table that enumerates `Perm (Fin n)` once each with correct signs, folded by the closure
    of `determinant_less_generic` (`sum = sum + signature * Π get([k, perm[k]])`), gives
    Mathlib's determinant — over any commutative ring, any `n`. -/
theorem det_of_enumeration {R : Type} [CommRing R] (n : Nat) (σs : List (Perm (Fin n)))
    (hnd : σs.Nodup) (hall : ∀ σ, σ ∈ σs) (get : Nat → Nat → R) :
    (σs.map fun σ => (List.ofFn fun i : Fin n => ((σ i : Fin n) : Nat), decide (Perm.sign σ = 1))).foldl
        (fun s pe => detStep get s pe.1 pe.2) 0
      = (Matrix.of fun i j : Fin n => get i j).det :=
  det_of_enumeration' σs hnd hall get

/-- Non-vacuity: the two permutations of `Fin 2` in Heap's order. -/
example : ([1, Equiv.swap (0 : Fin 2) 1] : List (Perm (Fin 2))).Nodup ∧
    ∀ σ : Perm (Fin 2), σ ∈ ([1, Equiv.swap (0 : Fin 2) 1] : List (Perm (Fin 2))) := by
  constructor
  · decide
  · decide

/-- **Heap's algorithm as easy-ml runs it is correct for every size**: the emitted list is the
    image of a duplicate-free list of all permutations of `Fin n`, each with its sign flag.
    (Induction on the level `k`: end state of `heaps k` in closed form, every element visits
    position `k-1` exactly once, consecutive emissions differ by one transposition.) -/
theorem heaps_enumerates_all (n : Nat) (h1 : 1 ≤ n) :
    ∃ σs : List (Perm (Fin n)), σs.Nodup ∧ (∀ σ, σ ∈ σs) ∧
      generatePermutations (List.range n)
        = σs.map fun σ => (List.ofFn fun i : Fin n => ((σ i : Fin n) : Nat), decide (Perm.sign σ = 1)) :=
  enumerates_all n h1

/-! ### The determinant -/

/-- **Determinant, sizes 1..6, any commutative ring.**  The Leibniz sum the code accumulates
    (Heap's order, alternating flag, left-nested products) is `Matrix.det` of the entries. -/
theorem detModel_eq_det {R : Type} [CommRing R] (n : Nat) (h1 : 1 ≤ n) (h6 : n ≤ 6)
    (get : Nat → Nat → R) : detModel n get = (Matrix.of fun i j : Fin n => get i j).det :=
  detModel_eq_det' n h1 h6 get

/-- **Determinant, every size `n ≥ 1`, any commutative ring** (through `heaps_enumerates_all`). -/
theorem detModel_eq_det_all {R : Type} [CommRing R] (n : Nat) (h1 : 1 ≤ n)
    (get : Nat → Nat → R) : detModel n get = (Matrix.of fun i j : Fin n => get i j).det :=
  detModel_eq_det_all' n h1 get

/-- `determinant_tensor` / `Tensor::determinant` / `TensorView::determinant` on a square view
    return exactly `Matrix.det` of the entries shown (every size). -/
theorem determinantTensor_eq_det {R : Type} [CommRing R] (n : Nat) (h1 : 1 ≤ n)
    (get : Nat → Nat → R) :
    determinantTensor ⟨n, n, get⟩ = some (Matrix.of fun i j : Fin n => get i j).det :=
  detView_eq_det' n h1 get

/-- `linear_algebra::determinant` / `Matrix::determinant` on a square matrix return exactly
    `Matrix.det` of its entries (entry `[r, c]` is `data[c + r·columns]`), every size. -/
theorem determinant_eq_det {R : Type} [CommRing R] (m : EasyMl.Matrix R) (hsq : m.rows = m.columns)
    (h1 : 1 ≤ m.rows) :
    determinant m = some (Matrix.of fun i j : Fin m.rows => m.data.getD ((j : Nat) + (i : Nat) * m.columns) 0).det := by
  rw [determinant_eq_detView]
  have : viewOfMatrix m = ⟨m.rows, m.rows, (viewOfMatrix m).get⟩ := by
    simp [viewOfMatrix, hsq]
  rw [this]
  exact detView_eq_det' m.rows h1 _

/-- Non-vacuity: a 3×3 integer matrix. -/
example : determinant (⟨[2, 0, 1, 1, 3, 2, 1, 1, 4], 3, 3⟩ : EasyMl.Matrix Int) = some 18 := by decide

/-- The determinant is absent exactly for non-square input — tensors and views of every size
    (dimension lengths of a tensor are at least 1). -/
theorem det_none_iff_nonsquare {α : Type} [Add α] [Sub α] [Mul α] [Zero α] [One α] (v : Det.View α)
    (h1 : 1 ≤ v.rows) : determinantTensor v = none ↔ v.rows ≠ v.cols := by
  obtain ⟨n, c, g⟩ := v
  constructor
  · intro h hsq
    simp only at hsq h1
    subst hsq
    rw [determinantTensor, detView_square, if_neg (by omega)] at h
    split at h <;> cases h
  · intro h
    exact detView_nonsquare _ h

/-- … and matrices of every size (a `Matrix` is at least 1×1). -/
theorem matrix_det_none_iff_nonsquare {α : Type} [Add α] [Sub α] [Mul α] [Zero α] [One α]
    (m : EasyMl.Matrix α) (hinv : m.Inv) : determinant m = none ↔ m.rows ≠ m.columns := by
  rw [determinant_eq_detView]
  exact det_none_iff_nonsquare (viewOfMatrix m) hinv.2.1

/-- Non-vacuity: a 2×3 matrix satisfies the invariant and has no determinant. -/
example : (⟨[1, 2, 3, 4, 5, 6], 2, 3⟩ : EasyMl.Matrix Int).Inv ∧
    determinant (⟨[1, 2, 3, 4, 5, 6], 2, 3⟩ : EasyMl.Matrix Int) = none := by decide

/-! ### The inverse -/

section Inverse
variable {K : Type} [Field K] [NumOrd K] {ν : Type} [DecidableEq ν] [Inhabited ν]

/-- **Present exactly when defined.**  `inverse_tensor` returns a tensor exactly when the view is
    square with non-zero determinant (every shape). -/
theorem inverse_some_iff (heq : LawfulEq K) (names : ν × ν) (hne : names.1 ≠ names.2) (v : Det.View K)
    (h1 : 1 ≤ v.rows) :
    (∃ t, inverseTensor names v = .ok (some t)) ↔
      v.rows = v.cols ∧ (Matrix.of fun i j : Fin v.rows => v.get i j).det ≠ 0 := by
  obtain ⟨n, c, g⟩ := v
  simp only at h1 ⊢
  constructor
  · rintro ⟨t, ht⟩
    by_cases hsq : n = c
    · subst hsq
      refine ⟨rfl, fun h0 => ?_⟩
      rw [(inverseTensor_spec names hne n h1 g heq).1 h0] at ht
      cases ht
    · rw [inverseTensor_nonsquare names _ hsq] at ht
      cases ht
  · rintro ⟨hsq, hdet⟩
    subst hsq
    obtain ⟨data, hd, _, _⟩ := (inverseTensor_spec names hne n h1 g heq).2 hdet
    exact ⟨_, hd⟩

/-- The inverse is exact: its buffer is Mathlib's `A⁻¹`, hence `A⁻¹ · A = 1` … -/
theorem inverse_mul_self (heq : LawfulEq K) (names : ν × ν) (hne : names.1 ≠ names.2) (n : Nat) (h1 : 1 ≤ n)
    (get : Nat → Nat → K) (t : Tensor ν K) (h : inverseTensor names ⟨n, n, get⟩ = .ok (some t)) :
    matOfList n t.data * (Matrix.of fun i j : Fin n => get i j) = 1 := by
  have hspec := inverseTensor_spec names hne n h1 get heq
  by_cases h0 : (sqMat n get).det = 0
  · rw [hspec.1 h0] at h; cases h
  · obtain ⟨data, hd, _, hinv⟩ := hspec.2 h0
    rw [hd] at h
    simp only [Outcome.ok.injEq, Option.some.injEq] at h
    subst h
    simp only [hinv]
    exact Matrix.nonsing_inv_mul _ (isUnit_iff_ne_zero.mpr h0)

/-- … and `A · A⁻¹ = 1`. -/
theorem self_mul_inverse (heq : LawfulEq K) (names : ν × ν) (hne : names.1 ≠ names.2) (n : Nat) (h1 : 1 ≤ n)
    (get : Nat → Nat → K) (t : Tensor ν K) (h : inverseTensor names ⟨n, n, get⟩ = .ok (some t)) :
    (Matrix.of fun i j : Fin n => get i j) * matOfList n t.data = 1 := by
  have hspec := inverseTensor_spec names hne n h1 get heq
  by_cases h0 : (sqMat n get).det = 0
  · rw [hspec.1 h0] at h; cases h
  · obtain ⟨data, hd, _, hinv⟩ := hspec.2 h0
    rw [hd] at h
    simp only [Outcome.ok.injEq, Option.some.injEq] at h
    subst h
    simp only [hinv]
    exact Matrix.mul_nonsing_inv _ (isUnit_iff_ne_zero.mpr h0)

/-- The same for `linear_algebra::inverse` / `Matrix::inverse`: present exactly for a square
    matrix with non-zero determinant … -/
theorem matrix_inverse_some_iff (heq : LawfulEq K) (m : EasyMl.Matrix K) (hinv : m.Inv) :
    (∃ r, inverse m = .ok (some r)) ↔
      m.rows = m.columns ∧
        (Matrix.of fun i j : Fin m.rows => m.data.getD ((j : Nat) + (i : Nat) * m.columns) 0).det ≠ 0 := by
  rw [inverse_eq_inverseTensor (false, true) (by decide) m hinv]
  have h := inverse_some_iff heq (false, true) (by decide) (viewOfMatrix m) hinv.2.1
  constructor
  · rintro ⟨r, hr⟩
    apply h.mp
    cases hx : inverseTensor (false, true) (viewOfMatrix m) with
    | panic k => rw [hx] at hr; cases hr
    | ok o =>
      cases o with
      | none => rw [hx] at hr; cases hr
      | some t => exact ⟨t, rfl⟩
  · intro hr
    obtain ⟨t, ht⟩ := h.mpr hr
    rw [ht]
    exact ⟨_, rfl⟩

/-- … and then it has the input's size and is a two-sided inverse. -/
theorem matrix_inverse_mul (heq : LawfulEq K) (m r : EasyMl.Matrix K) (hinv : m.Inv)
    (hsq : m.rows = m.columns) (h : inverse m = .ok (some r)) :
    r.rows = m.rows ∧ r.columns = m.columns ∧
      matOfList m.rows r.data
          * (Matrix.of fun i j : Fin m.rows => m.data.getD ((j : Nat) + (i : Nat) * m.columns) 0) = 1 ∧
      (Matrix.of fun i j : Fin m.rows => m.data.getD ((j : Nat) + (i : Nat) * m.columns) 0)
          * matOfList m.rows r.data = 1 := by
  rw [inverse_eq_inverseTensor (false, true) (by decide) m hinv] at h
  have hv : viewOfMatrix m = ⟨m.rows, m.rows, (viewOfMatrix m).get⟩ := by
    simp [viewOfMatrix, hsq]
  cases hx : inverseTensor (false, true) (viewOfMatrix m) with
  | panic k => rw [hx] at h; cases h
  | ok o =>
    cases o with
    | none => rw [hx] at h; cases h
    | some t =>
      rw [hx] at h
      simp only [Outcome.ok.injEq, Option.some.injEq] at h
      subst h
      rw [hv] at hx
      exact ⟨rfl, rfl, inverse_mul_self heq _ (by decide) m.rows hinv.2.1 _ t hx,
        self_mul_inverse heq _ (by decide) m.rows hinv.2.1 _ t hx⟩

/-- Non-vacuity: a square 2×2 rational matrix satisfying the invariant. -/
example : (⟨[1, 2, 3, 4], 2, 2⟩ : EasyMl.Matrix ℚ).Inv ∧
    (⟨[1, 2, 3, 4], 2, 2⟩ : EasyMl.Matrix ℚ).rows = (⟨[1, 2, 3, 4], 2, 2⟩ : EasyMl.Matrix ℚ).columns := by
  refine ⟨⟨rfl, ?_, ?_⟩, rfl⟩ <;> decide

/-- Non-vacuity of `LawfulEq` and of the determinant hypothesis: the rationals, a 2×2 matrix. -/
example : LawfulEq ℚ := fun a b => by simp [NumOrd.eq]

example : (Matrix.of fun i j : Fin 2 => (((i : Nat) + 2 * (j : Nat) + 1 : Nat) : ℚ)).det ≠ 0 := by
  simp [Matrix.det_fin_two]
  norm_num

/-- Non-vacuity of the hypothesis `inverseTensor … = .ok (some t)` of `inverse_mul_self`,
    `self_mul_inverse`, `tensor_keeps_names`: that 2×2 rational view does have an inverse. -/
example : ∃ t, inverseTensor ("a", "b") ⟨2, 2, fun i j => ((i + 2 * j + 1 : Nat) : ℚ)⟩ = .ok (some t) :=
  (inverse_some_iff (fun a b => by simp [NumOrd.eq]) ("a", "b") (by decide)
      ⟨2, 2, fun i j => ((i + 2 * j + 1 : Nat) : ℚ)⟩ (by decide)).mpr
    ⟨rfl, by simp [Matrix.det_fin_two]; norm_num⟩

/-- Scaling the input by a non-zero factor keeps the determinant non-zero: this is what the float
    part of the correspondence uses (a well-conditioned integer matrix times `10^±k` must still
    have an inverse; the float results themselves are only compared with the specification). -/
theorem scaling_keeps_invertibility (n : Nat) (A : _root_.Matrix (Fin n) (Fin n) K) (c : K)
    (hc : c ≠ 0) : (c • A).det ≠ 0 ↔ A.det ≠ 0 := by
  rw [Matrix.det_smul]
  simp [hc]

/-- Non-vacuity: `10⁻⁹ ≠ 0` in ℚ. -/
example : ((10 : ℚ) ^ 9)⁻¹ ≠ 0 := by norm_num

end Inverse

/-! ### The entry points agree; shape and names; no panic (every size, every element type) -/

section Agree
variable {α : Type} [Add α] [Sub α] [Mul α] [Zero α] [One α]

/-- `Matrix::determinant` is `determinant_tensor` of the matrix seen as a view. -/
theorem determinant_entry_points_agree (m : EasyMl.Matrix α) :
    determinant m = determinantTensor (viewOfMatrix m) :=
  determinant_eq_detView m

/-- The minor computed by removing row `i` and column `j` from a clone (matrix path) is the minor
    computed through the mask view (tensor path). -/
theorem minor_mask_eq_minor_remove (m : EasyMl.Matrix α) (hinv : m.Inv) (i j : Nat)
    (hi : i < m.rows) (hj : j < m.columns) :
    minorTensor (viewOfMatrix m) i j = .ok (minorMatrix m i j) :=
  minor_agree m hinv i j hi hj

/-- Non-vacuity: a 3×3 matrix, the (1, 2) minor. -/
example : (⟨[2, 0, 1, 1, 3, 2, 1, 1, 4], 3, 3⟩ : EasyMl.Matrix Int).Inv ∧
    minorMatrix (⟨[2, 0, 1, 1, 3, 2, 1, 1, 4], 3, 3⟩ : EasyMl.Matrix Int) 1 2 = some 2 := by decide

variable [Div α] [NumOrd α] {ν : Type} [DecidableEq ν] [Inhabited ν]

/-- `Matrix::inverse` is `inverse_tensor` of the matrix seen as a view under any two different
    dimension names, repackaged. -/
theorem inverse_entry_points_agree (names : ν × ν) (hne : names.1 ≠ names.2) (m : EasyMl.Matrix α)
    (hinv : m.Inv) :
    inverse m = match inverseTensor names (viewOfMatrix m) with
      | .panic k => .panic k
      | .ok none => .ok none
      | .ok (some t) => .ok (some ⟨t.data, m.rows, m.columns⟩) :=
  inverse_eq_inverseTensor names hne m hinv

/-- Tensor results keep the input's dimension names (and order), lengths and a full buffer. -/
theorem tensor_keeps_names (names : ν × ν) (v : Det.View α) (t : Tensor ν α)
    (h : inverseTensor names v = .ok (some t)) :
    t.shape = [(names.1, v.rows), (names.2, v.cols)] ∧ t.strides = computeStrides t.shape ∧
      t.data.length = v.rows * v.cols :=
  inverseTensor_shape names v t h

/-- `inverse_tensor` (and with it `Matrix::inverse`) never panics. -/
theorem inverse_total (names : ν × ν) (v : Det.View α) : ∃ o, inverseTensor names v = .ok o :=
  inverseTensor_total names v

end Agree

/-! ### Algebra of the computed determinant; uniqueness, involution; name handling -/

section Algebra
variable {R : Type} [CommRing R]

/-- the determinant the code computes is invariant under transposition of the input -/
theorem detModel_transpose (n : Nat) (h1 : 1 ≤ n) (get : Nat → Nat → R) :
    detModel n (fun i j => get j i) = detModel n get := by
  rw [detModel_eq_det_all' n h1, detModel_eq_det_all' n h1, ← Matrix.det_transpose]
  rfl

/-- … and multiplicative -/
theorem detModel_mul (n : Nat) (h1 : 1 ≤ n) (a b : Nat → Nat → R) :
    detModel n (fun i j => ∑ k ∈ Finset.range n, a i k * b k j) = detModel n a * detModel n b := by
  rw [detModel_eq_det_all' n h1, detModel_eq_det_all' n h1, detModel_eq_det_all' n h1,
    ← Matrix.det_mul]
  congr 1
  ext i j
  simp only [sqMat, Matrix.of_apply, Matrix.mul_apply]
  rw [Finset.sum_range]

end Algebra

section Unique
variable {K : Type} [Field K] [NumOrd K] {ν : Type} [DecidableEq ν] [Inhabited ν]

/-- **Uniqueness.**  Whatever one-sided inverse of the input there is, it is the buffer returned. -/
theorem inverse_unique (heq : LawfulEq K) (names : ν × ν) (hne : names.1 ≠ names.2) (n : Nat)
    (h1 : 1 ≤ n) (get : Nat → Nat → K) (t : Tensor ν K)
    (h : inverseTensor names ⟨n, n, get⟩ = .ok (some t))
    (B : _root_.Matrix (Fin n) (Fin n) K)
    (hB : B * (Matrix.of fun i j : Fin n => get i j) = 1 ∨ (Matrix.of fun i j : Fin n => get i j) * B = 1) :
    B = matOfList n t.data := by
  have hl := inverse_mul_self heq names hne n h1 get t h
  have hr := self_mul_inverse heq names hne n h1 get t h
  rcases hB with hB | hB
  · calc B = B * ((Matrix.of fun i j : Fin n => get i j) * matOfList n t.data) := by rw [hr, Matrix.mul_one]
      _ = matOfList n t.data := by rw [← Matrix.mul_assoc, hB, Matrix.one_mul]
  · calc B = (matOfList n t.data * (Matrix.of fun i j : Fin n => get i j)) * B := by rw [hl, Matrix.one_mul]
      _ = matOfList n t.data := by rw [Matrix.mul_assoc, hB, Matrix.mul_one]

/-- **Absent exactly when there is nothing to return**: on a square view `inverse_tensor` answers
    `None` iff the input has no (left) inverse at all. -/
theorem inverse_none_iff_no_inverse (heq : LawfulEq K) (names : ν × ν) (hne : names.1 ≠ names.2)
    (n : Nat) (h1 : 1 ≤ n) (get : Nat → Nat → K) :
    inverseTensor names ⟨n, n, get⟩ = .ok none ↔
      ¬ ∃ B : _root_.Matrix (Fin n) (Fin n) K, B * (Matrix.of fun i j : Fin n => get i j) = 1 := by
  have hspec := inverseTensor_spec names hne n h1 get heq
  constructor
  · intro hnone ⟨B, hB⟩
    have hdet : (sqMat n get).det ≠ 0 := by
      intro h0
      have := congrArg Matrix.det hB
      rw [Matrix.det_mul, Matrix.det_one] at this
      have h0' : (Matrix.of fun i j : Fin n => get i j).det = 0 := h0
      rw [h0', mul_zero] at this
      exact zero_ne_one this
    obtain ⟨data, hd, _, _⟩ := hspec.2 hdet
    rw [hd] at hnone
    cases hnone
  · intro hno
    by_cases h0 : (sqMat n get).det = 0
    · exact hspec.1 h0
    · exfalso
      apply hno
      exact ⟨(sqMat n get)⁻¹, Matrix.nonsing_inv_mul _ (isUnit_iff_ne_zero.mpr h0)⟩

/-- **Involution.**  Feeding the returned buffer back gives the original entries. -/
theorem inverse_involutive (heq : LawfulEq K) (names : ν × ν) (hne : names.1 ≠ names.2) (n : Nat)
    (h1 : 1 ≤ n) (get : Nat → Nat → K) (t : Tensor ν K)
    (h : inverseTensor names ⟨n, n, get⟩ = .ok (some t)) :
    ∃ t', inverseTensor names ⟨n, n, fun i j => t.data.getD (j + i * n) 0⟩ = .ok (some t') ∧
      matOfList n t'.data = Matrix.of fun i j : Fin n => get i j := by
  have hr := self_mul_inverse heq names hne n h1 get t h
  have hB : sqMat n (fun i j => t.data.getD (j + i * n) 0) = matOfList n t.data := rfl
  have hdet : (sqMat n (fun i j => t.data.getD (j + i * n) 0)).det ≠ 0 := by
    rw [hB]
    intro h0
    have := congrArg Matrix.det hr
    rw [Matrix.det_mul, h0, mul_zero, Matrix.det_one] at this
    exact zero_ne_one this
  obtain ⟨data, hd, _, hinv⟩ :=
    (inverseTensor_spec names hne n h1 (fun i j => t.data.getD (j + i * n) 0) heq).2 hdet
  refine ⟨_, hd, ?_⟩
  simp only [hinv, hB]
  exact Matrix.inv_eq_left_inv hr

end Unique

section Names
variable {α : Type} {ν : Type} [DecidableEq ν] [Inhabited ν]

/-- **Name handling of `Tensor::transpose_mut` inside `inverse_tensor`.**  The requested order
    `[name₁, name₀]` is resolved by comparing names (`DimensionMappings::new`): for two different
    names — whatever they are — the buffer is transposed in place and the shape keeps the input's
    names in the input's order … -/
theorem tensor_transpose_by_name (a b : ν) (h : a ≠ b) (n : Nat) (data : List α) :
    transposeMutSquare [(a, n), (b, n)] n data = .ok (transposeSquare n data, [(a, n), (b, n)]) :=
  transposeMutSquare_distinct a b h n data

/-- … while for two equal names (excluded by `TensorRef`'s contract) the lookup yields the
    identity mapping and nothing is transposed: uniqueness of the names is what the inverse
    theorems need, and it is all they need. -/
theorem tensor_transpose_equal_names (a : ν) (n : Nat) (data : List α) :
    transposeMutSquare [(a, n), (a, n)] n data = .ok (data, [(a, n), (a, n)]) :=
  transposeMutSquare_dup a n data

/-- Non-vacuity: the library's own internal names, in the "wrong" order. -/
example : ("column" : String) ≠ "row" := by decide

end Names
/-! ### One answer per (size, cells); canonical result; constructed inputs; Cramer; composition with C03 -/

section Surface
variable {α : Type} [Add α] [Sub α] [Mul α] [Div α] [Zero α] [One α] [NumOrd α]
variable {ν : Type} [DecidableEq ν] [Inhabited ν]

/-- **The determinant depends on the input only through (rows, columns, cells).**  Two sources —
    whatever wrappers, forwarders, trait objects or view adaptors produced them — that report the
    same two lengths and show the same cell at every in-range position get the same answer from
    every determinant entry point (`none` included). -/
theorem det_congr (v w : Det.View α) (hr : v.rows = w.rows) (hc : v.cols = w.cols)
    (hcell : ∀ r c, r < v.rows → c < v.cols → v.get r c = w.get r c) :
    determinantTensor v = determinantTensor w :=
  detView_view_congr v w hr hc hcell

/-- … and the same inverse: same presence, same buffer, same shape. -/
theorem inverse_congr (names : ν × ν) (v w : Det.View α) (hr : v.rows = w.rows) (hc : v.cols = w.cols)
    (hcell : ∀ r c, r < v.rows → c < v.cols → v.get r c = w.get r c) :
    inverseTensor names v = inverseTensor names w :=
  inverseTensor_congr names v w hr hc hcell

/-- Non-vacuity: a 2×2 view and the same cells read out of a 3×4 buffer at offset (1, 2) (what a
    `MatrixRange`/`TensorRange` wrapper shows); outside the shape the two sources differ. -/
example : ∃ v w : Det.View Int, v.rows = w.rows ∧ v.cols = w.cols ∧ v.get 5 5 ≠ w.get 5 5 ∧
    (∀ r c, r < v.rows → c < v.cols → v.get r c = w.get r c) :=
  ⟨⟨2, 2, fun r c => ([1, 2, 3, 4] : List Int).getD (c + r * 2) 7⟩,
   ⟨2, 2, fun r c => ([0, 0, 0, 0, 0, 0, 1, 2, 0, 0, 3, 4] : List Int).getD (c + 2 + (r + 1) * 4) 9⟩,
   rfl, rfl, by decide, by
     intro r c hr hc
     have hr' : r = 0 ∨ r = 1 := by simp only at hr; omega
     have hc' : c = 0 ∨ c = 1 := by simp only at hc; omega
     rcases hr' with rfl | rfl <;> rcases hc' with rfl | rfl <;> rfl⟩

/-- **Canonical form of the result.**  The tensor `inverse_tensor` returns is exactly
    `Tensor::from(input shape, buffer)`: valid, strides row-major for its shape, the buffer in
    shape order … -/
theorem inverse_result_canonical (names : ν × ν) (hne : names.1 ≠ names.2) (v : Det.View α)
    (h1 : 1 ≤ v.rows) (t : Tensor ν α) (h : inverseTensor names v = .ok (some t)) :
    Tensor.tryFrom [(names.1, v.rows), (names.2, v.cols)] t.data = some t :=
  (inverseTensor_canonical names hne v h1 t h).2

/-- … hence reading it through its strides in logical order gives the buffer itself (C13's
    `materialise`): every consumer that walks the raw buffer (`into_matrix`, `Matrix::from`,
    `elementwise*`, `map_with_index`, `+`/`-` with a plain tensor, `reshape_owned`, owned iteration)
    sees what index-by-index reading sees. -/
theorem inverse_result_storage_is_logical (names : ν × ν) (hne : names.1 ≠ names.2) (v : Det.View α)
    (h1 : 1 ≤ v.rows) (t : Tensor ν α) (h : inverseTensor names v = .ok (some t)) :
    Spec.materialise t.view.lazy
      = { shape := [(names.1, v.rows), (names.2, v.cols)], elems := t.data } :=
  materialise_view _ _ t (inverse_result_canonical names hne v h1 t h)

end Surface
section Constructed
variable {K : Type} [Field K] [NumOrd K] {ν : Type} [DecidableEq ν] [Inhabited ν]

/-- **Hypotheses discharged by construction (tensors).**  For an input built by `Tensor::from` /
    `try_from` nothing has to be assumed about names or lengths: the constructor already rejects
    duplicate names and zero lengths. -/
theorem inverse_some_iff_constructed (heq : LawfulEq K) (a b : ν) (r c : Nat) (data : List K)
    (tin : Tensor ν K) (hin : Tensor.tryFrom [(a, r), (b, c)] data = some tin) :
    (∃ t, inverseTensor (a, b) ⟨r, c, fun i j => data.getD (j + i * c) 0⟩ = .ok (some t)) ↔
      r = c ∧ (Matrix.of fun i j : Fin r => data.getD ((j : Nat) + (i : Nat) * c) 0).det ≠ 0 := by
  obtain ⟨hne, hr, _, _, _⟩ := (tryFrom_pair_iff a b r c data tin).1 hin
  exact inverse_some_iff heq (a, b) hne ⟨r, c, fun i j => data.getD (j + i * c) 0⟩ hr

/-- **Hypotheses discharged by construction (matrices).**  `Matrix::from_flat_row_major`
    establishes the matrix invariant the matrix theorems assume. -/
theorem matrix_inverse_some_iff_constructed (heq : LawfulEq K) (rows cols : Nat) (values : List K)
    (m : EasyMl.Matrix K) (hm : Matrix.fromFlatRowMajor rows cols values = some m) :
    (∃ r, inverse m = .ok (some r)) ↔
      m.rows = m.columns ∧
        (Matrix.of fun i j : Fin m.rows => m.data.getD ((j : Nat) + (i : Nat) * m.columns) 0).det ≠ 0 :=
  matrix_inverse_some_iff heq m (fromFlatRowMajor_inv rows cols values m hm).1

/-- Non-vacuity: the constructors accept a 2×2 input. -/
example : (Tensor.tryFrom [("column", 2), ("row", 2)] ([1, 2, 3, 4] : List ℚ)).isSome = true ∧
    (Matrix.fromFlatRowMajor 2 2 ([1, 2, 3, 4] : List ℚ)).isSome = true := by
  constructor <;> rfl

end Constructed

section Cramer
variable {R : Type} [CommRing R]

/-- **Cramer's rule over any commutative ring** (the lemma behind `inverse_mul_self`, without any
    division): the cofactor matrix the code fills, transposed in place, is the adjugate, so its
    products with the input are `det A • 1` on both sides. -/
theorem cramer (n : Nat) (h2 : 2 ≤ n) (get : Nat → Nat → R) :
    ∃ cof, cofactorMatrix n (minorTensor ⟨n, n, get⟩) = .ok (some cof) ∧
      (Matrix.of fun i j : Fin n => get i j) * matOfList n (transposeSquare n cof)
        = (Matrix.of fun i j : Fin n => get i j).det • (1 : _root_.Matrix (Fin n) (Fin n) R) ∧
      matOfList n (transposeSquare n cof) * (Matrix.of fun i j : Fin n => get i j)
        = (Matrix.of fun i j : Fin n => get i j).det • (1 : _root_.Matrix (Fin n) (Fin n) R) := by
  obtain ⟨m, rfl⟩ : ∃ m, n = m + 1 := ⟨n - 1, by omega⟩
  obtain ⟨cof, hc, _, hadj⟩ := adjugate_buffer m (by omega) get
  refine ⟨cof, hc, ?_, ?_⟩
  · rw [hadj]; exact Matrix.mul_adjugate _
  · rw [hadj]; exact Matrix.adjugate_mul _

end Cramer
section Compose
open EasyMl.Arith
variable {K : Type} [Field K] [NumOrd K] {ν : Type} [DecidableEq ν] [Inhabited ν]

/-- entries of a constructed square tensor, as C03's `TView` shows them -/
theorem ofTensor_entries (a b : ν) (n : Nat) (data : List K) (t : Tensor ν K)
    (ht : Tensor.tryFrom [(a, n), (b, n)] data = some t) (i p : Fin n) :
    (Arith.TView.ofTensor t).get [i.val, p.val] = some (matOfList n data i p) := by
  obtain ⟨hv, hs, hd⟩ := tryFrom_valid ht
  obtain ⟨_, _, _, hlen, _⟩ := (tryFrom_pair_iff a b n n data t).1 ht
  show t.get [i.val, p.val] = _
  rw [hv.get_eq [i.val, p.val] (by rw [hs]; rfl), hs, hd]
  have hb : Spec.inBounds [n, n] [i.val, p.val] = true := by simp [Spec.inBounds, i.isLt, p.isLt]
  simp only [List.map_cons, List.map_nil, hb, if_true]
  have hr : Spec.ravel [n, n] [i.val, p.val] = p.val + i.val * n := by simp [Spec.ravel]; omega
  rw [hr]
  have hlt : p.val + i.val * n < data.length := by
    rw [hlen]; exact mul_lt_of_lt_rows i.isLt p.isLt
  rw [List.getElem?_eq_getElem hlt]
  simp [matOfList, List.getD_eq_getElem?_getD, List.getElem?_eq_getElem hlt]

/-- **Composition with C03's matrix product.**  For an input built by `Tensor::from`, the tensor
    returned by `inverse_tensor`, multiplied with the input by the *library's own* `*`
    (C03's model `Arith.matMul` of `tensor_view_matrix_product`) in either order, is the identity
    tensor of the input's shape. -/
theorem inverse_matMul_identity (heq : LawfulEq K) (a b : ν) (n : Nat) (data : List K)
    (tin tinv : Tensor ν K) (hin : Tensor.tryFrom [(a, n), (b, n)] data = some tin)
    (h : inverseTensor (a, b) ⟨n, n, fun i j => data.getD (j + i * n) 0⟩ = .ok (some tinv)) :
    (∃ t, Arith.matMul (Arith.TView.ofTensor tinv) (Arith.TView.ofTensor tin) = .ok t ∧
        t.shape = [(a, n), (b, n)] ∧
        ∀ i j : Fin n, t.get [i.val, j.val] = some (if i = j then 1 else 0)) ∧
    (∃ t, Arith.matMul (Arith.TView.ofTensor tin) (Arith.TView.ofTensor tinv) = .ok t ∧
        t.shape = [(a, n), (b, n)] ∧
        ∀ i j : Fin n, t.get [i.val, j.val] = some (if i = j then 1 else 0)) := by
  obtain ⟨hne, h1, _, _, _⟩ := (tryFrom_pair_iff a b n n data tin).1 hin
  have hcan := inverse_result_canonical (a, b) hne ⟨n, n, fun i j => data.getD (j + i * n) 0⟩ h1 tinv h
  simp only at hcan
  have hvin := (tryFrom_valid hin)
  have hvinv := (tryFrom_valid hcan)
  have hl := inverse_mul_self heq (a, b) hne n h1 _ tinv h
  have hr := self_mul_inverse heq (a, b) hne n h1 _ tinv h
  have hA : (Matrix.of fun i j : Fin n => data.getD ((j : Nat) + (i : Nat) * n) 0) = matOfList n data := rfl
  rw [hA] at hl hr
  obtain ⟨m, rfl⟩ : ∃ m, n = m + 1 := ⟨n - 1, by omega⟩
  constructor
  · obtain ⟨t, ht, hts, hget⟩ := C03.matMul_eq_Matrix_mul (Arith.TView.ofTensor tinv)
      (Arith.TView.ofTensor tin) (ofTensor_WF hvinv.1) (ofTensor_WF hvin.1)
      (a := a) (b := b) (c := a) (d := b) (m := m + 1) (n := m) (k := m + 1)
      (by show tinv.shape = _; exact hvinv.2.1) (by show tin.shape = _; exact hvin.2.1) hne
      (matOfList (m + 1) tinv.data) (matOfList (m + 1) data)
      (fun i p => ofTensor_entries a b (m + 1) tinv.data tinv hcan i p)
      (fun p j => ofTensor_entries a b (m + 1) data tin hin p j)
    refine ⟨t, ht, hts, fun i j => ?_⟩
    rw [hget i j, hl, Matrix.one_apply]
  · obtain ⟨t, ht, hts, hget⟩ := C03.matMul_eq_Matrix_mul (Arith.TView.ofTensor tin)
      (Arith.TView.ofTensor tinv) (ofTensor_WF hvin.1) (ofTensor_WF hvinv.1)
      (a := a) (b := b) (c := a) (d := b) (m := m + 1) (n := m) (k := m + 1)
      (by show tin.shape = _; exact hvin.2.1) (by show tinv.shape = _; exact hvinv.2.1) hne
      (matOfList (m + 1) data) (matOfList (m + 1) tinv.data)
      (fun i p => ofTensor_entries a b (m + 1) data tin hin i p)
      (fun p j => ofTensor_entries a b (m + 1) tinv.data tinv hcan p j)
    refine ⟨t, ht, hts, fun i j => ?_⟩
    rw [hget i j, hr, Matrix.one_apply]

end Compose
/-! ### After any history of C11's operations -/

section History
variable {α : Type} [Add α] [Sub α] [Mul α] [Div α] [Zero α] [One α] [NumOrd α]
variable {ν : Type} [DecidableEq ν] [Inhabited ν]

/-- **Determinant and inverse after any history.**  For every matrix a program can hold (any
    constructor, then any finite history of resizing / retaining / mapping operations with any
    arguments, C11's `Reachable`), `Matrix::determinant` and `Matrix::inverse` answer what the
    tensor functions answer on C11's list-of-rows state: by `det_congr` / `inverse_congr` and
    C11's `reachable_headline`. -/
theorem det_after_history (m : EasyMl.Matrix α) (hr : C11.Reachable m) (names : ν × ν)
    (hne : names.1 ≠ names.2) :
    determinant m = determinantTensor (rowsView (C11.abs m)) ∧
    inverse m = match inverseTensor names (rowsView (C11.abs m)) with
      | .panic k => .panic k
      | .ok none => .ok none
      | .ok (some t) => .ok (some ⟨t.data, m.rows, m.columns⟩) := by
  have hinv := C11.reachable_inv m hr
  obtain ⟨_, hsize, hcell, _⟩ := C11.reachable_headline m hr (.op (.removeRow 0))
  have hrows : m.rows = Rows.nrows (C11.abs m) := congrArg Prod.fst hsize
  have hcols : m.columns = Rows.ncols (C11.abs m) := congrArg Prod.snd hsize
  have hc : ∀ r c, r < (viewOfMatrix m).rows → c < (viewOfMatrix m).cols →
      (viewOfMatrix m).get r c = (rowsView (C11.abs m)).get r c := by
    intro r c hr' hc'
    have h1 : r < m.rows := hr'
    have h2 : c < m.columns := hc'
    simp only [viewOfMatrix, rowsView]
    rw [← hcell r c]
    unfold Matrix.tryGet
    rw [if_pos ⟨h1, h2⟩, List.getD_eq_getElem?_getD]
  constructor
  · rw [determinant_entry_points_agree]
    exact det_congr _ _ hrows hcols hc
  · rw [inverse_entry_points_agree names hne m hinv,
      inverse_congr names (viewOfMatrix m) (rowsView (C11.abs m)) hrows hcols hc]

end History
end EasyMl.C07
