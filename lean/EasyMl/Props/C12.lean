/-
  EasyMl.Props.C12 — property theorems for C12 (matrix views and partitions expose exactly the
  requested disjoint sub-grids).

  Only property statements (and their non-vacuity examples) live here; helper lemmas are in
  EasyMl/Lemmas/{MatrixViewSpec,MatrixViewEval,Partition,PartitionGrid,PartViews,InteropNames,
  LiveView,MatrixEq,FallibleMatrix}.lean.  The theorems
  connect the code-shaped model (EasyMl/Model/MatrixView.lean: `MExpr.eval`, `partition` — the
  very definitions the `emlmodel` driver executes against the implementation) with the
  specification (EasyMl/Spec/MatrixView.lean: `MExpr.size`, `MExpr.cell`, `partitionSpec`,
  `gridSpec`).  A cell is identified by its row-major offset in the underlying `Matrix`.
  The model is that of the repaired code (fixes D-04 reverse getters, D-06 `IndexRange::clip`).
-/
import EasyMl.Lemmas.PartitionGrid
import EasyMl.Lemmas.LiveView
import EasyMl.Lemmas.MatrixEq
import EasyMl.Lemmas.InteropNames
import EasyMl.Lemmas.MatrixViewEval
import EasyMl.Lemmas.PartViews
import EasyMl.Lemmas.ViewIterators
import EasyMl.Lemmas.ViewConsumers
import EasyMl.Props.C03
import EasyMl.Props.C07

namespace EasyMl.C12
open EasyMl EasyMl.Spec EasyMl.Fallible EasyMl.MatrixView

set_option linter.unusedSectionVars false
set_option linter.unusedVariables false

/-! ## Views: `MatrixRange`, `MatrixReverse`, `MatrixMap`, the tensor wrappers, nested -/

/-- **mview_get_eq_spec (with range_size_clipped and "never a panic").**  For every nested
    composition `e` of range / reverse / map / tensor-roundtrip views over a matrix (any range
    starts and lengths up to `usize::MAX` and beyond, any reversal flags, any depth): if every
    tensor wrapper in it wraps a non-empty view the construction succeeds without a panic, the
    view reports the specified size (requests clipped to the source), its checked getters answer
    — for *every* index, including out-of-range ones and on empty views — exactly the designated
    cell or `None`, and its unchecked getters reach the same cell inside the size.  Otherwise
    the wrapper (`TensorRefMatrix::from`) answers `Err`. -/
theorem mview_get_eq_spec (e : MExpr) (hle : e.LeavesOk) :
    if e.Buildable = true then
      ∃ v, e.eval Arith.fixed = .ok (.ok v) ∧
        v.view.rows = e.size.1 ∧ v.view.columns = e.size.2 ∧
        (∀ i j, v.view.get i j = .ok (e.cell i j)) ∧
        (∀ i j o, e.cell i j = some o → v.uget i j = .ok o)
    else ∃ s, e.eval Arith.fixed = .ok (.error s) :=
  eval_refines e hle

/-- **range_size_clipped.**  The size of a range view is the request clipped to the source:
    `min(start + length, source) − start` on each axis (0 for a range that starts beyond it). -/
theorem range_size_clipped (e : MExpr) (rows columns : Fallible.IndexRange) :
    (MExpr.range e rows columns).size =
      (min (rows.start + rows.length) e.size.1 - rows.start,
       min (columns.start + columns.length) e.size.2 - columns.start) := rfl

/-- **mview_get_some_iff.**  An index designates a cell exactly when it is inside the size —
    for every composition, also the empty ones. -/
theorem mview_get_some_iff (e : MExpr) (i j : Nat) :
    (e.cell i j).isSome = true ↔ i < e.size.1 ∧ j < e.size.2 := by
  constructor
  · intro h
    apply Classical.byContradiction
    intro hn
    rw [e.cell_none i j hn] at h
    simp at h
  · exact e.cell_some i j

/-- **mview_unchecked_eq_checked.**  Inside the size the unchecked getter (`unwrap`s and
    unchecked subtractions included) dereferences the very cell the checked getter answers. -/
theorem mview_unchecked_eq_checked (e : MExpr) (hle : e.LeavesOk) (v : MViewU)
    (hv : e.eval Arith.fixed = .ok (.ok v)) (i j : Nat) (hi : i < e.size.1) (hj : j < e.size.2) :
    ∃ o, v.view.get i j = .ok (some o) ∧ v.uget i j = .ok o := by
  have h := eval_refines e hle
  split at h
  · obtain ⟨v', hv', _, _, hget, hu⟩ := h
    rw [hv] at hv'
    simp only [Outcome.ok.injEq, Except.ok.injEq] at hv'
    subst hv'
    have hs := e.cell_some i j ⟨hi, hj⟩
    cases hc : e.cell i j with
    | none => rw [hc] at hs; simp at hs
    | some o => exact ⟨o, by rw [hget, hc], hu i j o hc⟩
  · obtain ⟨s, hs⟩ := h
    rw [hv] at hs; simp at hs

/-- The designated cells, adaptor by adaptor: a range shifts by its starts, a reversal mirrors
    the flagged axes, a map and the tensor round trip change nothing (**interop_roundtrip**:
    matrix → tensor → matrix is the identity mapping). -/
theorem cell_equations (e : MExpr) (rows columns : Fallible.IndexRange) (fr fc : Bool) (i j : Nat) :
    ((MExpr.range e rows columns).cell i j =
      if i < (MExpr.range e rows columns).size.1 ∧ j < (MExpr.range e rows columns).size.2 then
        e.cell (i + rows.start) (j + columns.start) else none) ∧
    ((MExpr.reverse e fr fc).cell i j =
      if i < e.size.1 ∧ j < e.size.2 then
        e.cell (if fr then e.size.1 - 1 - i else i) (if fc then e.size.2 - 1 - j else j)
      else none) ∧
    (MExpr.map e).cell i j = e.cell i j ∧
    (MExpr.viaTensor e).cell i j = e.cell i j ∧ (MExpr.viaTensor e).size = e.size :=
  ⟨rfl, rfl, rfl, rfl, rfl⟩

/-- `TensorRefMatrix::with_names` fails exactly when the two names coincide or a length is 0. -/
theorem interop_with_names {ν : Type} [DecidableEq ν] (src : MView) (hsrc : src.WF)
    (rowName columnName : ν) :
    (∃ v, tensorRefMatrixWithNames src rowName columnName = .ok (.ok v) ∧ v.WF ∧
        v.shape = [(rowName, src.rows), (columnName, src.columns)] ∧
        rowName ≠ columnName ∧ 1 ≤ src.rows ∧ 1 ≤ src.columns) ∨
    (tensorRefMatrixWithNames src rowName columnName =
        .ok (.error [(rowName, src.rows), (columnName, src.columns)]) ∧
      ¬ (rowName ≠ columnName ∧ 1 ≤ src.rows ∧ 1 ≤ src.columns)) :=
  withNames_spec src hsrc rowName columnName

/-- Non-vacuity: a reversed, clipped range of a 2×3 matrix (the D-06 witness) and its cells. -/
example :
    let e := MExpr.reverse (MExpr.range (MExpr.leaf 2 3) ⟨1, usizeMax⟩ ⟨0, 2⟩) true true
    e.LeavesOk ∧ e.Buildable = true ∧ e.size = (1, 2) ∧ e.cell 0 0 = some 4 ∧ e.cell 0 1 = some 3 ∧
      e.cell 1 0 = none ∧ e.cell usizeMax usizeMax = none := by
  refine ⟨by simp only [MExpr.LeavesOk]; decide, by decide, by decide, by decide, by decide,
    by decide, by decide⟩

/-- **The transposed view through the tensor side.**  `MExpr.swapped e` —
    `MatrixRefTensor` over a `TensorAccess` in the order `[column, row]` over `TensorRefMatrix`
    of `e` — has the size of `e` with rows and columns exchanged, its index `(i, j)` designates
    the cell `e` designates by `(j, i)`, and it reports row-major for a column-major source and
    vice versa (`Other` stays).  Being an `MExpr` constructor it is covered by
    `mview_get_eq_spec` (built through the modelled `with_names`, `TensorAccess::try_from`,
    `DimensionMappings::new`), `layout_eq_spec`, `view_cell_injective`, … -/
theorem swapped_cell_equation (e : MExpr) (i j : Nat) :
    (MExpr.swapped e).size = (e.size.2, e.size.1) ∧
    (MExpr.swapped e).cell i j = e.cell j i ∧
    (MExpr.swapped (MExpr.swapped e)).cell i j = e.cell i j ∧
    (MExpr.swapped (MExpr.swapped e)).size = e.size ∧
    (MExpr.swapped e).layoutSpec =
      (match e.layoutSpec with
       | .rowMajor => .columnMajor | .columnMajor => .rowMajor | .other => .other) :=
  ⟨rfl, rfl, rfl, rfl, rfl⟩

/-- Non-vacuity: the transposed 2×3 matrix is 3×2, column-major, and its cell (2, 1) is
    offset 5. -/
example : (MExpr.swapped (MExpr.leaf 2 3)).size = (3, 2) ∧
    (MExpr.swapped (MExpr.leaf 2 3)).cell 2 1 = some 5 ∧
    (MExpr.swapped (MExpr.leaf 2 3)).layout = .columnMajor ∧
    (MExpr.swapped (MExpr.leaf 2 3)).Buildable = true := by
  refine ⟨by decide, by decide, by decide, by decide⟩

/-! ## Iterators over view stacks (the bridge to C09) -/

/-- **Every view stack is a well-formed iterator source.**  In the vocabulary of C09's iterator
    model (`Iter.MSource`: a size and the cell a position resolves to), a composition `e` — over a
    matrix, a column-major source or a part, through ranges, reversals, maps, tensor round trips
    and transpositions — resolves every position inside its size to a cell and no two positions
    to the same cell.  This is the hypothesis (`MSource.WellFormed`) of C09's theorems about the
    row-major, column-major, row, column and diagonal iterators in all their flavours
    (`matrix_source_faithful`, `mut_items_distinct`, `copy_kth`, …), which therefore hold over
    every such stack. -/
theorem view_stack_is_iterator_source (e : MExpr) (hle : e.LeavesOk) :
    e.msource.WellFormed ∧ e.msource.rows = e.size.1 ∧ e.msource.columns = e.size.2 ∧
      ∀ p, e.msource.cell p = e.cell p.1 p.2 :=
  ⟨e.msource_wellFormed hle, rfl, rfl, fun _ => rfl⟩

/-- **Row-major and column-major iteration enumerate `cell`.**  For every number `n` of calls
    — also past the end — the reference flavour of `row_major_iter` over a view stack yields, at
    call `k`, the cell designated by index `(k / columns, k % columns)` while
    `k < rows·columns` and `None` afterwards; `column_major_iter` yields that of
    `(k % rows, k / rows)`; no call panics, on empty views nothing is yielded; and every cell
    yielded is a real one (`Some`, never an access outside the source). -/
theorem view_iteration_enumerates_cells (e : MExpr) (hle : e.LeavesOk) (n : Nat) :
    Iter.collect (Iter.refNext Iter.rowMajorNext e.msource.cell) n (Iter.MatIter.new e.size.1 e.size.2) =
      .ok ((List.range n).map (fun k =>
              if k < e.size.1 * e.size.2 then some (e.cell (k / e.size.2) (k % e.size.2)) else none),
           Iter.rowMajorState e.size.1 e.size.2 n) ∧
    Iter.collect (Iter.refNext Iter.colMajorNext e.msource.cell) n (Iter.MatIter.new e.size.1 e.size.2) =
      .ok ((List.range n).map (fun k =>
              if k < e.size.1 * e.size.2 then some (e.cell (k % e.size.1) (k / e.size.1)) else none),
           Iter.colMajorState e.size.1 e.size.2 n) ∧
    (∀ k, k < e.size.1 * e.size.2 →
      (e.cell (k / e.size.2) (k % e.size.2)).isSome = true ∧
      (e.cell (k % e.size.1) (k / e.size.1)).isSome = true) := by
  refine ⟨rowMajor_ref_collect e n, colMajor_ref_collect e n, ?_⟩
  intro k hk
  have hc : 0 < e.size.2 := by
    rcases Nat.eq_zero_or_pos e.size.2 with h | h
    · rw [h] at hk; simp at hk
    · exact h
  have hr : 0 < e.size.1 := by
    rcases Nat.eq_zero_or_pos e.size.1 with h | h
    · rw [h] at hk; simp at hk
    · exact h
  constructor
  · apply e.cell_some
    exact ⟨(Nat.div_lt_iff_lt_mul hc).mpr hk, Nat.mod_lt _ hc⟩
  · apply e.cell_some
    exact ⟨Nat.mod_lt _ hr, (Nat.div_lt_iff_lt_mul hr).mpr (by rw [Nat.mul_comm]; exact hk)⟩

/-- Non-vacuity: three calls of the row-major reference iterator over the transposed 1×2 leaf
    (a 2×1 view): cells 0 and 1, then `None`. -/
example : Iter.collect (Iter.refNext Iter.rowMajorNext (MExpr.swapped (MExpr.leaf 1 2)).msource.cell) 3
      (Iter.MatIter.new 2 1) =
    .ok ([some (some 0), some (some 1), none], Iter.rowMajorState 2 1 3) := by
  rfl

/-! ## Consumers of a view stack

  The `consume` operations of the correspondence feed a view stack to operators, iterators and
  the determinant.  What such a consumer sees is `MViewU.elements` of the model's `eval e`; the
  theorems below show it is the specified view `MExpr.elements e` (size `MExpr.size`, element of
  the designated `MExpr.cell`) and instantiate the consumers' own models — C03's
  `mElementwise` / `mNeg` / `mScalarOp` / `mMatMul`, C09's diagonal iterator, C07's
  `determinantTensor` — on it. -/

/-- **A consumer of `eval e` sees the specified view.**  For every buildable composition the
    model's view, read through the source's elements `elem`, *is* the specification's view — the
    same sizes and the same element at every index, absent outside — and a non-empty one
    satisfies the `MatrixRef` contract C03's theorems assume, with the row-major element list of
    the specification. -/
theorem consumers_see_spec {α : Type} (e : MExpr) (hle : e.LeavesOk) (hb : e.Buildable = true)
    (elem : Nat → α) :
    (∃ v, e.eval Arith.fixed = .ok (.ok v) ∧ v.elements elem = e.elements elem) ∧
    (1 ≤ e.size.1 → 1 ≤ e.size.2 → (e.elements elem).WF) ∧
    (e.elements elem).elems = e.rowMajorElements elem :=
  ⟨eval_elements_eq_spec e hle hb elem, elements_WF e elem, rfl⟩

/-- **`+` / `-` with a view stack as the left or the right operand** (`consume add`, `sub`): with
    any well-formed operand `R` of the same size the operator returns the matrix of that size
    whose entry `(i, j)` is `op (element of cell (i,j)) (R[i,j])` resp. `op (R[i,j]) (element)`;
    with an operand of another size it panics as documented. -/
theorem consume_elementwise {α : Type} [Inhabited α] (op : α → α → α) (e : MExpr) (elem : Nat → α)
    (h1 : 1 ≤ e.size.1) (h2 : 1 ≤ e.size.2) (R : EasyMl.Arith.MOperand α) (hR : R.WF) :
    (R.size = e.size →
      (∃ M, EasyMl.Arith.mElementwise op (.view (e.elements elem)) R = .ok M ∧
        (M.rows, M.columns) = e.size ∧
        ∀ i j b, i < e.size.1 → j < e.size.2 → R.asView.get i j = some b →
          M.tryGet i j = some (op (e.elemAt elem i j) b)) ∧
      (∃ M, EasyMl.Arith.mElementwise op R (.view (e.elements elem)) = .ok M ∧
        (M.rows, M.columns) = e.size ∧
        ∀ i j b, i < e.size.1 → j < e.size.2 → R.asView.get i j = some b →
          M.tryGet i j = some (op b (e.elemAt elem i j)))) ∧
    (R.size ≠ e.size →
      EasyMl.Arith.mElementwise op (.view (e.elements elem)) R = .panic .explicit) := by
  have hV : (EasyMl.Arith.MOperand.view (e.elements elem)).WF := elements_WF e elem h1 h2
  constructor
  · intro hs
    constructor
    · obtain ⟨M, hM, hsz, hget⟩ := (C03.mElementwise_get op (.view (e.elements elem)) R hV hR).1 hs.symm
      refine ⟨M, hM, hsz, ?_⟩
      intro i j b hi hj hb
      rw [hget i j]
      show (match (e.elements elem).get i j, R.asView.get i j with
        | some a, some b => some (op a b) | _, _ => none) = _
      rw [elements_get e elem i j hi hj, hb]
    · obtain ⟨M, hM, hsz, hget⟩ := (C03.mElementwise_get op R (.view (e.elements elem)) hR hV).1 hs
      refine ⟨M, hM, by rw [hsz, hs], ?_⟩
      intro i j b hi hj hb
      rw [hget i j]
      show (match R.asView.get i j, (e.elements elem).get i j with
        | some a, some b => some (op a b) | _, _ => none) = _
      rw [elements_get e elem i j hi hj, hb]
  · intro hs
    exact (C03.mElementwise_get op (.view (e.elements elem)) R hV hR).2 (fun h => hs h.symm)

/-- `consume add`: a view stack plus itself is the matrix of its elements doubled. -/
theorem consume_add_self {α : Type} [Inhabited α] [Add α] (e : MExpr) (elem : Nat → α)
    (h1 : 1 ≤ e.size.1) (h2 : 1 ≤ e.size.2) :
    ∃ M, EasyMl.Arith.mElementwise (· + ·) (.view (e.elements elem)) (.view (e.elements elem)) = .ok M ∧
      (M.rows, M.columns) = e.size ∧
      ∀ i j, i < e.size.1 → j < e.size.2 →
        M.tryGet i j = some (e.elemAt elem i j + e.elemAt elem i j) := by
  have hV : (EasyMl.Arith.MOperand.view (e.elements elem)).WF := elements_WF e elem h1 h2
  obtain ⟨⟨M, hM, hsz, hget⟩, _⟩ := (consume_elementwise (· + ·) e elem h1 h2 (.view (e.elements elem)) hV).1 rfl
  exact ⟨M, hM, hsz, fun i j hi hj => hget i j _ hi hj (elements_get e elem i j hi hj)⟩

/-- `consume neg` / `consume scalar`: unary minus and the scalar broadcasts over a view stack
    apply the function to the element of every designated cell and keep the size. -/
theorem consume_map {α : Type} [Inhabited α] (e : MExpr) (elem : Nat → α)
    (h1 : 1 ≤ e.size.1) (h2 : 1 ≤ e.size.2) :
    (∀ [Neg α], ∃ M, EasyMl.Arith.mNeg (.view (e.elements elem)) = .ok M ∧ (M.rows, M.columns) = e.size ∧
      ∀ i j, i < e.size.1 → j < e.size.2 → M.tryGet i j = some (- e.elemAt elem i j)) ∧
    (∀ (op : α → α → α) (s : α), ∃ M, EasyMl.Arith.mScalarOp op (.view (e.elements elem)) s = .ok M ∧
      (M.rows, M.columns) = e.size ∧
      ∀ i j, i < e.size.1 → j < e.size.2 → M.tryGet i j = some (op (e.elemAt elem i j) s)) := by
  have hV : (EasyMl.Arith.MOperand.view (e.elements elem)).WF := elements_WF e elem h1 h2
  constructor
  · intro _
    obtain ⟨M, hM, hsz, hget⟩ := C03.mNeg_get (.view (e.elements elem)) hV
    refine ⟨M, hM, hsz, fun i j hi hj => ?_⟩
    rw [hget i j]
    show ((e.elements elem).get i j).map _ = _
    rw [elements_get e elem i j hi hj]; rfl
  · intro op s
    obtain ⟨M, hM, hsz, hget⟩ := C03.mScalarOp_get op (.view (e.elements elem)) s hV
    refine ⟨M, hM, hsz, fun i j hi hj => ?_⟩
    rw [hget i j]
    show ((e.elements elem).get i j).map _ = _
    rw [elements_get e elem i j hi hj]; rfl

/-- `consume mul` / `consume tmul`: the matrix products of a view stack with its transposition
    (`MExpr.swapped`): `(A·Aᵀ)[i,k] = Σ_p A[i,p]·A[k,p]` and `(Aᵀ·A)[i,k] = Σ_p A[p,i]·A[p,k]`,
    folded from the left, of sizes `rows × rows` and `columns × columns`. -/
theorem consume_mul {α : Type} [Inhabited α] [Add α] [Mul α] [Zero α] (e : MExpr) (elem : Nat → α)
    (h1 : 1 ≤ e.size.1) (h2 : 1 ≤ e.size.2) :
    (∃ M, EasyMl.Arith.mMatMul (e.elements elem) ((MExpr.swapped e).elements elem) = .ok M ∧
      M.rows = e.size.1 ∧ M.columns = e.size.1 ∧
      ∀ i k, i < e.size.1 → k < e.size.1 →
        M.tryGet i k = some (EasyMl.Arith.leftSum (fun p => e.elemAt elem i p * e.elemAt elem k p) (e.size.2 - 1))) ∧
    (∃ M, EasyMl.Arith.mMatMul ((MExpr.swapped e).elements elem) (e.elements elem) = .ok M ∧
      M.rows = e.size.2 ∧ M.columns = e.size.2 ∧
      ∀ i k, i < e.size.2 → k < e.size.2 →
        M.tryGet i k = some (EasyMl.Arith.leftSum (fun p => e.elemAt elem p i * e.elemAt elem p k) (e.size.1 - 1))) := by
  have hV := elements_WF e elem h1 h2
  have hT : ((MExpr.swapped e).elements elem).WF := elements_WF (MExpr.swapped e) elem h2 h1
  have hA := elements_hasEntries e elem
  have hB : ((MExpr.swapped e).elements elem).HasEntries (fun p k => e.elemAt elem k p) := by
    intro i j hi hj
    exact elements_hasEntries e elem j i hj hi
  constructor
  · obtain ⟨M, hM, hr, hc, hget⟩ := (C03.mMatMul_get_eq_sum (e.elements elem) ((MExpr.swapped e).elements elem) hV hT).1
      (e.size.2 - 1) (by show e.size.2 = _; omega) (by show e.size.2 = _; omega) _ _ hA hB
    exact ⟨M, hM, hr, hc, fun i k hi hk => hget i k hi hk⟩
  · obtain ⟨M, hM, hr, hc, hget⟩ := (C03.mMatMul_get_eq_sum ((MExpr.swapped e).elements elem) (e.elements elem) hT hV).1
      (e.size.1 - 1) (by show e.size.1 = _; omega) (by show e.size.1 = _; omega) _ _ hB hA
    exact ⟨M, hM, hr, hc, fun i k hi hk => hget i k hi hk⟩

/-- Non-vacuity of the operator theorems: the 1×2 leaf holding its offsets `[0, 1]` is a
    non-empty stack; `A·Aᵀ` is the 1×1 matrix `[0·0 + 1·1]`, `Aᵀ·A` has entry `(1,1)` equal to 1,
    and the doubled elements are `[0, 2]`. -/
example : 1 ≤ (MExpr.leaf 1 2).size.1 ∧ 1 ≤ (MExpr.leaf 1 2).size.2 ∧
    EasyMl.Arith.leftSum (fun p => (MExpr.leaf 1 2).elemAt (fun o => (o : Int)) 0 p *
      (MExpr.leaf 1 2).elemAt (fun o => (o : Int)) 0 p) ((MExpr.leaf 1 2).size.2 - 1) = 1 ∧
    EasyMl.Arith.leftSum (fun p => (MExpr.leaf 1 2).elemAt (fun o => (o : Int)) p 1 *
      (MExpr.leaf 1 2).elemAt (fun o => (o : Int)) p 1) ((MExpr.leaf 1 2).size.1 - 1) = 1 ∧
    ((MExpr.leaf 1 2).rowMajorElements (fun o => (o : Int))).map (fun a => a + a) = [0, 2] := by
  refine ⟨by decide, by decide, by decide, by decide, by decide⟩

/-- `consume diag`: the diagonal iterator (C09's model, reference flavour) over a view stack
    yields at call `k` the cell of index `(k, k)` while `k < min rows columns`, then `None`; never
    a panic; the elements so enumerated are `MExpr.diagonalElements`. -/
theorem consume_diagonal (e : MExpr) (n : Nat) :
    Iter.collect (Iter.refNext Iter.lineNext e.msource.cell) n (Iter.LineIter.newDiagonal e.size.1 e.size.2) =
      .ok ((List.range n).map (fun k => if k < min e.size.1 e.size.2 then some (e.cell k k) else none),
           Iter.lineState .diagonal (min e.size.1 e.size.2) n) :=
  diagonal_ref_collect e n

/-- `consume det`: the determinant through the tensor route (`determinant_tensor`,
    `TensorView::determinant` over `TensorRefMatrix`; C07's model) of the view the model builds is
    that of the specified view: `None` for a non-square stack, and for a square one of side `n`
    **`Matrix.det` of the elements of the designated cells** (any commutative ring). -/
theorem consume_det {R : Type} [CommRing R] [Inhabited R] (e : MExpr) (hle : e.LeavesOk)
    (hb : e.Buildable = true) (elem : Nat → R) (h1 : 1 ≤ e.size.1) :
    ∃ v, e.eval Arith.fixed = .ok (.ok v) ∧
      Det.determinantTensor (toDetView (v.elements elem)) =
        Det.determinantTensor (toDetView (e.elements elem)) ∧
      (e.size.1 ≠ e.size.2 → Det.determinantTensor (toDetView (e.elements elem)) = none) ∧
      (∀ hsq : e.size.1 = e.size.2,
        Det.determinantTensor (toDetView (e.elements elem)) =
          some (Matrix.of fun i j : Fin e.size.1 => e.elemAt elem i j).det) := by
  obtain ⟨v, hv, hel⟩ := eval_elements_eq_spec e hle hb elem
  refine ⟨v, hv, by rw [hel], ?_, ?_⟩
  · intro hns
    exact (C07.det_none_iff_nonsquare (toDetView (e.elements elem)) h1).mpr hns
  · intro hsq
    have hview : toDetView (e.elements elem) =
        ⟨e.size.1, e.size.1, fun r c => ((e.cell r c).map elem).getD default⟩ := by
      simp only [toDetView, MExpr.elements, ← hsq]
    rw [hview, C07.determinantTensor_eq_det e.size.1 h1]
    rfl

/-- Non-vacuity: the 2×2 top-left range of a 2×3 leaf holding its offsets has determinant
    `0·4 − 1·3 = −3`; its diagonal is cells 0 and 4. -/
example : (MExpr.range (MExpr.leaf 2 3) ⟨0, 2⟩ ⟨0, 2⟩).diagonalElements (fun o => (o : Int)) = [0, 4] ∧
    (Matrix.of fun i j : Fin 2 =>
      (MExpr.range (MExpr.leaf 2 3) ⟨0, 2⟩ ⟨0, 2⟩).elemAt (fun o => (o : Int)) i j).det = -3 := by
  refine ⟨by decide, ?_⟩
  rw [Matrix.det_fin_two]
  decide

/-! ## The wrappers are positional: dimension names never matter -/

/-- **`MatrixRefTensor` is positional.**  Over any 2-dimensional tensor view its rows and columns
    are the first and the second length and index `(r, c)` reads `[r, c]`; renaming the tensor's
    dimensions (to anything: "row"/"column" swapped, the empty name, …) gives the very same
    matrix view. -/
theorem matrix_ref_tensor_positional {ν : Type} [DecidableEq ν] (t : Fallible.TView ν) (a b : ν × Nat)
    (h : t.shape = [a, b]) (m1 m2 : ν) :
    MView.ofTensor t = .ok ⟨a.2, b.2, fun r c => t.get [r, c]⟩ ∧
    MView.ofTensor (t.rename [m1, m2]) = MView.ofTensor t :=
  ⟨ofTensor_eq t a b h, ofTensor_rename t a b h m1 m2⟩

/-- **`with_names` refuses exactly equal names (or an empty view)** … -/
theorem with_names_ok_iff {ν : Type} [DecidableEq ν] (src : MView) (n1 n2 : ν) :
    (∃ t, tensorRefMatrixWithNames src n1 n2 = .ok (.ok t)) ↔
      n1 ≠ n2 ∧ 1 ≤ src.rows ∧ 1 ≤ src.columns :=
  withNames_ok_iff src n1 n2

/-- … **and otherwise the names are irrelevant**: for *every* two pairs of distinct names the
    round trips matrix → tensor → matrix succeed and expose the same size and, cell by cell, the
    same answers — those of the view they started from. -/
theorem interop_names_irrelevant {ν : Type} [DecidableEq ν] (src : MView) (n1 n2 m1 m2 : ν)
    (hn : n1 ≠ n2) (hm : m1 ≠ m2) (hr : 1 ≤ src.rows) (hc : 1 ≤ src.columns) :
    ∃ t t' v v', tensorRefMatrixWithNames src n1 n2 = .ok (.ok t) ∧ MView.ofTensor t = .ok v ∧
      tensorRefMatrixWithNames src m1 m2 = .ok (.ok t') ∧ MView.ofTensor t' = .ok v' ∧
      v.rows = v'.rows ∧ v.columns = v'.columns ∧ v.rows = src.rows ∧ v.columns = src.columns ∧
      ∀ r c, v.get r c = v'.get r c ∧ v.get r c = src.get r c := by
  obtain ⟨t, v, h1, h2, hr1, hc1, hg1⟩ := roundtrip_names_irrelevant src n1 n2 hn hr hc
  obtain ⟨t', v', h1', h2', hr2, hc2, hg2⟩ := roundtrip_names_irrelevant src m1 m2 hm hr hc
  exact ⟨t, t', v, v', h1, h2, h1', h2', by rw [hr1, hr2], by rw [hc1, hc2], hr1, hc1,
    fun r c => ⟨by rw [hg1, hg2], hg1 r c⟩⟩

/-- **The tensor-backed leaves, for every pair of distinct names.**  A `Tensor` of shape
    `[(n1, l1), (n2, l2)]` holding its offsets, seen through `MatrixRefTensor`, is the row-major
    `l1 × l2` leaf of this model (`MExpr.leaf`); accessed in the order `[n2, n1]`
    (`TensorAccess`) and then seen through `MatrixRefTensor` it is the column-major `l2 × l1`
    leaf (`MExpr.leafCM`, whose getter `cmGet` the model takes in closed form).  Both through
    the modelled `Tensor::try_from`, `get_index_direct`, `DimensionMappings::new`. -/
theorem tensor_leaves_refine {ν : Type} [DecidableEq ν] [Inhabited ν] (n1 n2 : ν) (hne : n1 ≠ n2)
    (l1 l2 : Nat) (h1 : 1 ≤ l1) (h2 : 1 ≤ l2) (hb : l1 * l2 ≤ usizeMax) :
    (∃ t v, tensorTryFrom Arith.fixed [(n1, l1), (n2, l2)] (l1 * l2) = .ok (.ok t) ∧
      MView.ofTensor (TView.ofTensor t) = .ok v ∧ v.rows = l1 ∧ v.columns = l2 ∧
      ∀ i j, v.get i j = .ok ((MExpr.leaf l1 l2).cell i j)) ∧
    (∃ t a v, tensorTryFrom Arith.fixed [(n1, l1), (n2, l2)] (l1 * l2) = .ok (.ok t) ∧
      accessTryFrom (TView.ofTensor t) [n2, n1] = .ok (.ok a) ∧
      MView.ofTensor a = .ok v ∧ v.rows = l2 ∧ v.columns = l1 ∧
      ∀ i j, v.get i j = .ok ((MExpr.leafCM l2 l1).cell i j) ∧ v.get i j = cmGet l2 l1 i j) :=
  ⟨tensor_leaf_refines n1 n2 hne l1 l2 h1 h2 hb, tensor_leaf_swapped_refines n1 n2 hne l1 l2 h1 h2 hb⟩

/-- **`Matrix::into_tensor` is positional too.**  For every pair of distinct names the owned
    conversion keeps the data (`t.dataLen`) and, seen back through `MatrixRefTensor`, has the
    matrix's size and cells; equal names are refused (C16 `intoTensor_total_err_iff`). -/
theorem into_tensor_names_irrelevant {ν : Type} [DecidableEq ν] (m : MatrixMeta) (hm : m.Inv)
    (rn cn : ν) (hne : rn ≠ cn) :
    ∃ t v, matrixIntoTensor Arith.fixed m rn cn = .ok (.ok t) ∧ t.dataLen = m.dataLen ∧
      MView.ofTensor (TView.ofTensor t) = .ok v ∧ v.rows = m.rows ∧ v.columns = m.columns ∧
      ∀ i j, v.get i j = (MView.ofMatrix m).get i j :=
  intoTensor_positional m hm rn cn hne

/-- Non-vacuity: the names of the seeded change — a tensor `[("column", 2), ("row", 3)]` is a
    2×3 matrix whose cell (1, 2) is offset 5; accessed as `["row", "column"]` it is 3×2 and its
    cell (2, 1) is that same offset. -/
example : (MExpr.leaf 2 3).cell 1 2 = some 5 ∧ (MExpr.leafCM 3 2).cell 2 1 = some 5 ∧
    ("column" : String) ≠ "row" := by
  refine ⟨by decide, by decide, by decide⟩

/-! ## `data_layout` and equality -/

/-- The layout a nested view reports (each adaptor's `data_layout()`, incl. the translation to
    the tensor vocabulary and back in the two interop wrappers) is that of its source for
    ranges, maps and the tensor round trip, and `Other` after a reversal. -/
theorem layout_eq_spec (e : MExpr) : e.layout = e.layoutSpec := e.layout_eq_spec

/-- **matrix_eq_iff.**  `matrix_equality` — the one function behind `MatrixView == MatrixView`,
    `MatrixView == Matrix` and `Matrix == MatrixView` — answers `true` exactly when the two
    sources have the same size and equal elements at every index … -/
theorem matrix_eq_iff (l r : Grid) :
    matrixEquality l r = true ↔
      l.rows = r.rows ∧ l.columns = r.columns ∧
      ∀ i j, i < l.rows → j < l.columns → l.elem i j = r.elem i j :=
  matrixEquality_iff l r

/-- … so the answer does not depend on the layouts of the operands (the column-major fast path
    and the row-major path agree), nor on which operand is on the left. -/
theorem matrix_eq_layout_irrelevant (l r : Grid) (ll lr : MLayout) :
    matrixEquality { l with layout := ll } { r with layout := lr } = matrixEquality l r ∧
    matrixEquality l r = matrixEquality r l := by
  constructor
  · rw [Bool.eq_iff_iff, matrixEquality_iff, matrixEquality_iff]; rfl
  · rw [Bool.eq_iff_iff, matrixEquality_iff, matrixEquality_iff]
    simp only [gridEqSpec]
    constructor
    · rintro ⟨h1, h2, h3⟩
      exact ⟨h1.symm, h2.symm, fun i j hi hj => (h3 i j (h1 ▸ hi) (h2 ▸ hj)).symm⟩
    · rintro ⟨h1, h2, h3⟩
      exact ⟨h1.symm, h2.symm, fun i j hi hj => (h3 i j (h1 ▸ hi) (h2 ▸ hj)).symm⟩

/-- Non-vacuity: equal 2×2 sources in different layouts; a difference in one cell; in the size. -/
example :
    matrixEquality ⟨2, 2, .columnMajor, fun i j => i * 2 + j⟩ ⟨2, 2, .rowMajor, fun i j => i * 2 + j⟩ = true ∧
    matrixEquality ⟨2, 2, .columnMajor, fun i j => i * 2 + j⟩
      ⟨2, 2, .columnMajor, fun i j => if i = 1 ∧ j = 0 then 9 else i * 2 + j⟩ = false ∧
    matrixEquality ⟨2, 2, .rowMajor, fun _ _ => 0⟩ ⟨2, 3, .rowMajor, fun _ _ => 0⟩ = false := by
  refine ⟨by decide, by decide, by decide⟩

/-! ## Views whose source changes after construction (`source_ref_mut`, `source_ref`, `source`) -/

/-- **The view's mapping is a function of the CURRENT source.**  Take reversal views (any
    number, any flags — `MatrixReverse` is the only public matrix adaptor that hands its source
    back out) around a matrix, then apply *any* history of operations to that matrix through
    `source_ref_mut()` — writes, `insert_row`, `remove_column`, `retain_mut`, transposition, also
    rejected ones that panic (the alphabet and semantics of C11's `Matrix.exec`).  Afterwards the
    view is exactly the reversal, with the same flags, of the matrix **as it is now**
    (`Matrix.run`): its size is the matrix's current size, its checked getters answer for every
    index the designated cell of the current data (or `None`; never a panic), and its unchecked
    getters reach the same cell inside the size. -/
theorem live_view_after_source_steps {α : Type} (l : Live α) (ops : List (Matrix.Op α))
    (h : l.leaf.Inv) (hb : (Matrix.run l.leaf ops).data.length ≤ usizeMax) :
    (l.mutateAll ops).leaf = Matrix.run l.leaf ops ∧
    (l.mutateAll ops).flags = l.flags ∧
    ∀ e, e = reversalsOver (Matrix.run l.leaf ops).rows (Matrix.run l.leaf ops).columns l.flags →
      ((l.mutateAll ops).view Arith.fixed).view.rows = e.size.1 ∧
      ((l.mutateAll ops).view Arith.fixed).view.columns = e.size.2 ∧
      (∀ i j, ((l.mutateAll ops).view Arith.fixed).view.get i j = .ok (e.cell i j)) ∧
      (∀ i j o, e.cell i j = some o → ((l.mutateAll ops).view Arith.fixed).uget i j = .ok o) := by
  have hleaf := l.mutateAll_leaf ops
  have hflags := l.mutateAll_flags ops
  refine ⟨hleaf, hflags, ?_⟩
  intro e he
  have hinv : (l.mutateAll ops).leaf.Inv := by rw [hleaf]; exact run_inv l.leaf h ops
  have href := (l.mutateAll ops).view_refines hinv (by rw [hleaf]; exact hb)
  rw [(l.mutateAll ops).expr_eq, hleaf, hflags, ← he] at href
  exact href

/-- `source_ref()` (any number of times) and `source(self)` give the inner reversal view over
    the same matrix: the statement above applies to it with the remaining flags. -/
theorem live_source_ref {α : Type} (l : Live α) (k : Nat) (s : Live α)
    (hs : l.sourceRef k = some s) (h : l.leaf.Inv) (hb : l.leaf.data.length ≤ usizeMax) :
    s.leaf = l.leaf ∧ s.flags = l.flags.take (l.flags.length - k) ∧
    ∀ i j, (s.view Arith.fixed).view.get i j =
      .ok ((reversalsOver l.leaf.rows l.leaf.columns (l.flags.take (l.flags.length - k))).cell i j) := by
  obtain ⟨h1, h2⟩ := l.sourceRef_leaf k s hs
  refine ⟨h1, h2, ?_⟩
  have href := s.view_refines (by rw [h1]; exact h) (by rw [h1]; exact hb)
  rw [s.expr_eq, h1, h2] at href
  exact href.2.2.1

/-- Non-vacuity: a row-reversed 2×3 matrix, a row inserted at the end through the view; the
    view now has 3 rows and its index (0, 0) is the first cell of the *new* last row (offset 6). -/
example :
    let l : Live Nat := .reverse (.matrix ⟨[1, 2, 3, 4, 5, 6], 2, 3⟩) true false
    let l' := l.mutateAll [.insertRow 2 99]
    l.leaf.Inv ∧ l'.leaf.data = [1, 2, 3, 4, 5, 6, 99, 99, 99] ∧
      (reversalsOver l'.leaf.rows l'.leaf.columns l.flags).size = (3, 3) ∧
      (reversalsOver l'.leaf.rows l'.leaf.columns l.flags).cell 0 0 = some 6 := by
  refine ⟨by decide, by decide, by decide, by decide⟩

/-! ## Partitions -/

/-- **partition_ok_iff (and which panic otherwise).**  `Matrix::partition` does exactly what
    `partitionSpec` says, for every matrix and every two boundary lists: `panic(explicit)` when
    `check_axis` refuses the rows, then the columns (a boundary beyond the length, or a boundary
    after the first that does not exceed the *first* — the quirk: `[3,3]` is refused, `[2,3,3]`
    is not); `panic(overflow)` when the capacity product overflows or a difference of consecutive
    boundaries underflows (`[1,3,2]`); otherwise the grid. -/
theorem partition_eq_spec (m : MatrixMeta) (hm : m.Inv) (rp cp : List Nat) :
    partition m rp cp = partitionSpec m rp cp :=
  MatrixView.partition_eq_spec m hm rp cp

/-- The accepted lists, in closed form. -/
theorem partition_ok_iff (m : MatrixMeta) (hm : m.Inv) (rp cp : List Nat) :
    (∃ parts, partition m rp cp = .ok parts) ↔
      axisChecked rp m.rows = true ∧ axisChecked cp m.columns = true ∧
      (rp.length + 1) * (cp.length + 1) ≤ usizeMax ∧ sortedLe rp = true ∧ sortedLe cp = true := by
  rw [partition_eq_spec m hm]
  simp only [partitionSpec]
  by_cases h1 : axisChecked rp m.rows = true
  · by_cases h2 : axisChecked cp m.columns = true
    · by_cases h3 : (rp.length + 1) * (cp.length + 1) ≤ usizeMax
      · by_cases h4 : sortedLe rp = true
        · by_cases h5 : sortedLe cp = true
          · simp [h1, h2, h3, h4, h5]
          · simp [h1, h2, h3, h4, h5]
        · simp [h1, h2, h3, h4]
      · simp [h1, h2, h3]
    · simp [h1, h2]
  · simp [h1]

/-- Non-vacuity of the hypothesis `m.Inv`: a 3×3 matrix. -/
example : MatrixMeta.Inv ⟨9, 3, 3⟩ := ⟨rfl, by decide, by decide, by decide⟩

/-- The `check_axis` quirk on a 3×3 matrix. -/
example : partitionSpec ⟨9, 3, 3⟩ [2, 3, 3] [] =
    .ok (gridSpec ⟨9, 3, 3⟩ [2, 3, 3] []) ∧
    partitionSpec ⟨9, 3, 3⟩ [3, 3] [] = .panic .explicit ∧
    partitionSpec ⟨9, 3, 3⟩ [1, 3, 2] [] = .panic .overflow := by
  refine ⟨by decide, by decide, by decide⟩

/-- **partition_sizes.**  Whenever `partition` returns, the parts come in row-major grid order
    and part `(a, b)` has the consecutive-difference size — normalised to `0×0` when either
    difference is 0. -/
theorem partition_sizes (m : MatrixMeta) (hm : m.Inv) (rp cp : List Nat) (parts : List MatrixPart)
    (h : partition m rp cp = .ok parts) :
    parts.map (fun p => (p.rows, p.columns)) =
      (diffs (rp ++ [m.rows]) 0).flatMap fun r =>
        (diffs (cp ++ [m.columns]) 0).map fun c => normSize r.2 c.2 := by
  obtain ⟨hparts, hok1, hok2, hok4, hok5⟩ := partition_ok_grid m hm rp cp parts h
  subst hparts
  simp only [gridSpec, List.map_flatMap, List.map_map]
  congr 1
  funext r
  apply List.map_congr_left
  intro c _
  exact ofSlices_size m.columns r.1 r.2 c.1 c.2

/-- **The cells of a part** (mview_get_eq_spec for `MatrixPart`).  Each part is the rectangle of
    a row slice `[r₀, r₀+rl)` and a column slice `[c₀, c₀+cl)`; its checked getter answers, for
    every index, the cell `(r₀ + i, c₀ + j)` of the matrix inside its size and `None` outside —
    never a panic; its row slices are rectangular (the hypothesis of C16's `mpart_get_total`). -/
theorem partition_part_get (m : MatrixMeta) (hm : m.Inv) (rp cp : List Nat) (parts : List MatrixPart)
    (h : partition m rp cp = .ok parts) :
    ∀ p ∈ parts, ∃ r ∈ diffs (rp ++ [m.rows]) 0, ∃ c ∈ diffs (cp ++ [m.columns]) 0,
      (p.rows, p.columns) = normSize r.2 c.2 ∧ p.Rect ∧
      r.1 + r.2 ≤ m.rows ∧ c.1 + c.2 ≤ m.columns ∧
      ∀ i j, p.get i j =
        .ok (if i < p.rows ∧ j < p.columns then some ((r.1 + i) * m.columns + c.1 + j) else none) := by
  obtain ⟨hparts, hok1, hok2, hok4, hok5⟩ := partition_ok_grid m hm rp cp parts h
  subst hparts
  intro p hp
  obtain ⟨r, hr, c, hc, rfl⟩ := gridSpec_mem m rp cp p hp
  have hrs : sortedLe (0 :: (rp ++ [m.rows])) = true := by
    rw [sortedLe_zero_cons, sortedLe_append_singleton _ _ (axisChecked_le hok1)]; exact hok4
  have hcs : sortedLe (0 :: (cp ++ [m.columns])) = true := by
    rw [sortedLe_zero_cons, sortedLe_append_singleton _ _ (axisChecked_le hok2)]; exact hok5
  have hrb := diffs_mem_bound _ 0 m.rows hrs (by
    intro b hb; simp only [List.mem_append, List.mem_singleton] at hb
    rcases hb with hb | rfl
    · exact axisChecked_le hok1 b hb
    · exact Nat.le_refl _) r hr
  have hcb := diffs_mem_bound _ 0 m.columns hcs (by
    intro b hb; simp only [List.mem_append, List.mem_singleton] at hb
    rcases hb with hb | rfl
    · exact axisChecked_le hok2 b hb
    · exact Nat.le_refl _) c hc
  have hsz := ofSlices_size m.columns r.1 r.2 c.1 c.2
  refine ⟨r, hr, c, hc, hsz, ofSlices_rect _ _ _ _ _, hrb.2, hcb.2, ?_⟩
  intro i j
  rw [ofSlices_get]
  simp only [Prod.ext_iff] at hsz
  rw [hsz.1, hsz.2]

/-- **partition_disjoint and partition_cover.**  Whenever `partition` returns, concatenating the
    cells of all parts rearranges exactly the cells `0 .. rows·columns` of the matrix: every
    matrix cell belongs to exactly one part (and occurs once in it). -/
theorem partition_cells_perm (m : MatrixMeta) (hm : m.Inv) (rp cp : List Nat)
    (parts : List MatrixPart) (h : partition m rp cp = .ok parts) :
    (parts.flatMap MatrixPart.cells).Perm (List.range (m.rows * m.columns)) := by
  obtain ⟨hparts, hok1, hok2, hok4, hok5⟩ := partition_ok_grid m hm rp cp parts h
  subst hparts
  rw [← hm.1]
  exact grid_cells_perm m hm rp cp hok1 hok2 hok4 hok5

/-- **partition_disjoint.**  Two different parts share no cell. -/
theorem partition_disjoint (m : MatrixMeta) (hm : m.Inv) (rp cp : List Nat)
    (parts : List MatrixPart) (h : partition m rp cp = .ok parts) (k k' : Nat) (hk : k < parts.length)
    (hk' : k' < parts.length) (hne : k ≠ k') : ∀ x, x ∈ parts[k].cells → x ∉ parts[k'].cells := by
  have hperm := partition_cells_perm m hm rp cp parts h
  have hnd : (parts.flatMap MatrixPart.cells).Nodup := (hperm.nodup_iff).mpr List.nodup_range
  have hpw := (List.nodup_flatMap.mp hnd).2
  rw [List.pairwise_iff_getElem] at hpw
  intro x hx hx'
  rcases Nat.lt_or_gt_of_ne hne with hlt | hgt
  · exact hpw k k' hk hk' hlt hx hx'
  · exact hpw k' k hk' hk hgt hx' hx

/-- **partition_cover.**  Every cell of the matrix is a cell of some part. -/
theorem partition_cover (m : MatrixMeta) (hm : m.Inv) (rp cp : List Nat)
    (parts : List MatrixPart) (h : partition m rp cp = .ok parts) (o : Nat)
    (ho : o < m.rows * m.columns) : ∃ p ∈ parts, o ∈ p.cells := by
  have hperm := partition_cells_perm m hm rp cp parts h
  have : o ∈ parts.flatMap MatrixPart.cells := hperm.symm.subset (by simpa using ho)
  simpa [List.mem_flatMap] using this

/-- **part_write_frame.**  A write goes to the cell the checked getter resolves.  If index
    `(i, j)` of part `k` resolves to cell `o`, then no index of a *different* part resolves to
    `o`, and no *other* index of the same part does: a write through one part changes only that
    one cell of that part. -/
theorem part_write_frame (m : MatrixMeta) (hm : m.Inv) (rp cp : List Nat)
    (parts : List MatrixPart) (h : partition m rp cp = .ok parts) (k k' : Nat) (hk : k < parts.length)
    (hk' : k' < parts.length) (i j i' j' o : Nat)
    (hw : parts[k].get i j = .ok (some o)) (hr : parts[k'].get i' j' = .ok (some o)) :
    k = k' ∧ i = i' ∧ j = j' := by
  -- both parts are rectangles of the grid
  obtain ⟨r, _, c, _, hsz, _, _, hcb, hget⟩ :=
    partition_part_get m hm rp cp parts h parts[k] (List.getElem_mem hk)
  obtain ⟨r', _, c', _, hsz', _, _, hcb', hget'⟩ :=
    partition_part_get m hm rp cp parts h parts[k'] (List.getElem_mem hk')
  have hmem : ∀ (p : MatrixPart) (r c : Nat × Nat) (a b x : Nat),
      (p.rows, p.columns) = normSize r.2 c.2 →
      (∀ i j, p.get i j =
        .ok (if i < p.rows ∧ j < p.columns then some ((r.1 + i) * m.columns + c.1 + j) else none)) →
      p.get a b = .ok (some x) → a < r.2 ∧ b < c.2 ∧ x = (r.1 + a) * m.columns + c.1 + b := by
    intro p r c a b x hs hg hx
    rw [hg] at hx
    simp only [Prod.ext_iff, normSize] at hs
    split at hx
    · rename_i hin
      simp only [Outcome.ok.injEq, Option.some.injEq] at hx
      split at hs <;> simp only at hs <;> exact ⟨by omega, by omega, hx.symm⟩
    · simp at hx
  obtain ⟨hi, hj, ho⟩ := hmem _ r c i j o hsz hget hw
  obtain ⟨hi', hj', ho'⟩ := hmem _ r' c' i' j' o hsz' hget' hr
  by_cases hkk : k = k'
  · subst hkk
    -- same part: same rectangle
    have hw' := hw
    rw [hget] at hw'
    have hr' := hr
    rw [hget] at hr'
    have hin : i < parts[k].rows ∧ j < parts[k].columns := by
      by_contra hn; rw [if_neg hn] at hw'; simp at hw'
    have hin' : i' < parts[k].rows ∧ j' < parts[k].columns := by
      by_contra hn; rw [if_neg hn] at hr'; simp at hr'
    rw [if_pos hin] at hw'
    rw [if_pos hin'] at hr'
    simp only [Outcome.ok.injEq, Option.some.injEq] at hw' hr'
    have hcl : j < c.2 ∧ j' < c.2 := by
      simp only [Prod.ext_iff, normSize] at hsz
      split at hsz <;> simp only at hsz <;> omega
    obtain ⟨h1, h2⟩ := block_injective m.columns r.1 c.1 c.2 i j i' j' hcb hcl.1 hcl.2
      (by rw [hw', hr'])
    exact ⟨rfl, h1, h2⟩
  · exfalso
    obtain ⟨hparts, _⟩ := partition_ok_grid m hm rp cp parts h
    have hx : o ∈ parts[k].cells := by
      have hmem : parts[k] ∈ gridSpec m rp cp := by rw [← hparts]; exact List.getElem_mem hk
      obtain ⟨r0, _, c0, _, hp⟩ := gridSpec_mem m rp cp parts[k] hmem
      rw [hp] at hw ⊢
      exact ofSlices_get_mem_cells _ _ _ _ _ _ _ _ hw
    have hx' : o ∈ parts[k'].cells := by
      have hmem : parts[k'] ∈ gridSpec m rp cp := by rw [← hparts]; exact List.getElem_mem hk'
      obtain ⟨r0, _, c0, _, hp⟩ := gridSpec_mem m rp cp parts[k'] hmem
      rw [hp] at hr ⊢
      exact ofSlices_get_mem_cells _ _ _ _ _ _ _ _ hr
    exact partition_disjoint m hm rp cp parts h k k' hk hk' hkk o hx hx'

/-! ## Views over the parts of a partition -/

/-- **The part leaf.**  `MExpr.part rows columns rp cp kr kc` — the `MatrixPart` at grid position
    `(kr, kc)`, i.e. `parts[kr·(cp.len()+1) + kc]`, as a source of further views — has the size of
    the `kr`-th row slice by the `kc`-th column slice (`0×0` when either is empty) and its index
    `(i, j)` designates matrix cell `(r₀+i)·columns + c₀+j`.  Being an `MExpr` leaf,
    `mview_get_eq_spec`, `mview_get_some_iff`, `mview_unchecked_eq_checked`, `cell_equations`
    and `layout_eq_spec` hold for every composition of ranges, reversals, maps and tensor round
    trips **over a part** as well (its `data_layout` is row-major). -/
theorem part_leaf_cell (rows columns : Nat) (rp cp : List Nat) (kr kc i j : Nat) :
    let r := (diffs (rp ++ [rows]) 0).getD kr (0, 0)
    let c := (diffs (cp ++ [columns]) 0).getD kc (0, 0)
    (MExpr.part rows columns rp cp kr kc).size = normSize r.2 c.2 ∧
    (MExpr.part rows columns rp cp kr kc).cell i j =
      (if i < (normSize r.2 c.2).1 ∧ j < (normSize r.2 c.2).2 then
        some ((r.1 + i) * columns + c.1 + j) else none) ∧
    (MExpr.part rows columns rp cp kr kc).layoutSpec = .rowMajor :=
  ⟨rfl, rfl, rfl⟩

/-- the model builds it from `partition` itself: the part the code hands out at that position
    answers exactly these cells -/
theorem part_leaf_is_partition_part (rows columns : Nat) (rp cp : List Nat) (kr kc : Nat)
    (hle : (MExpr.part rows columns rp cp kr kc).LeavesOk) :
    ∃ parts, partition ⟨rows * columns, rows, columns⟩ rp cp = .ok parts ∧
      ∃ hk : kr * (cp.length + 1) + kc < parts.length,
        ∀ i j, parts[kr * (cp.length + 1) + kc].get i j =
          .ok ((MExpr.part rows columns rp cp kr kc).cell i j) :=
  part_getter rows columns rp cp kr kc hle

/-- **No view merges cells.**  Two indexes of a composition (over a matrix, a column-major source
    or a part) that designate the same cell are the same index: a write through a view changes
    exactly one cell of that view. -/
theorem view_cell_injective (e : MExpr) (hle : e.LeavesOk) (i j i' j' o : Nat)
    (h : e.cell i j = some o) (h' : e.cell i' j' = some o) : i = i' ∧ j = j' :=
  e.cell_injective hle i j i' j' o h h'

/-- **Views over different parts never alias.**  If a cell is designated by some index of a
    composition over part `(kr, kc)` and by some index of a composition over part `(kr', kc')` of
    the same partition, the two parts are the same part — whatever ranges, reversals and round
    trips were stacked on either. -/
theorem views_over_parts_never_alias (e e' : MExpr) (rows columns : Nat) (rp cp : List Nat)
    (kr kc kr' kc' : Nat)
    (hb : e.base = .part rows columns rp cp kr kc) (hb' : e'.base = .part rows columns rp cp kr' kc')
    (hle : e.LeavesOk) (hle' : e'.LeavesOk) (i j i' j' o : Nat)
    (h : e.cell i j = some o) (h' : e'.cell i' j' = some o) : kr = kr' ∧ kc = kc' := by
  obtain ⟨a, b, hab⟩ := e.cell_in_base i j o h
  obtain ⟨a', b', hab'⟩ := e'.cell_in_base i' j' o h'
  rw [hb] at hab
  rw [hb'] at hab'
  have hl := e.leavesOk_base hle
  have hl' := e'.leavesOk_base hle'
  rw [hb] at hl
  rw [hb'] at hl'
  obtain ⟨parts, hp, hk, hget⟩ := part_getter rows columns rp cp kr kc hl
  obtain ⟨parts', hp', hk', hget'⟩ := part_getter rows columns rp cp kr' kc' hl'
  rw [hp] at hp'
  simp only [Outcome.ok.injEq] at hp'
  subst hp'
  have hinv : MatrixMeta.Inv ⟨rows * columns, rows, columns⟩ := ⟨rfl, hl.1.1, hl.1.2.1, hl.1.2.2⟩
  have := part_write_frame _ hinv rp cp parts hp _ _ hk hk' a b a' b' o
    (by rw [hget, hab]) (by rw [hget', hab'])
  exact grid_index_inj (cp.length + 1) kr kc kr' kc' (by have := hl.2.2.2; omega)
    (by have := hl'.2.2.2; omega) this.1

/-- **Write, then read, through one view.**  Over source data of the right length, writing `x`
    at an index inside the view and reading any index of the same view gives `x` at that very
    index and the old element everywhere else; a write at an index outside the view changes
    nothing. -/
theorem view_write_then_read {α : Type} (e : MExpr) (hle : e.LeavesOk) (data : List α)
    (hd : data.length = e.dataLen) (i j i' j' : Nat) (x : α) :
    e.read (e.write data i j x) i' j' =
      if (i < e.size.1 ∧ j < e.size.2) ∧ i = i' ∧ j = j' then some x else e.read data i' j' := by
  simp only [MExpr.read, MExpr.write]
  cases hc : e.cell i j with
  | none =>
    have hout : ¬ (i < e.size.1 ∧ j < e.size.2) := by
      intro hin
      have := e.cell_some i j hin
      rw [hc] at this; simp at this
    simp [hout]
  | some o =>
    have hin : i < e.size.1 ∧ j < e.size.2 := by
      by_contra hn
      rw [e.cell_none i j hn] at hc; simp at hc
    have ho : o < data.length := by rw [hd]; exact e.cell_lt hle i j o hc
    by_cases heq : i = i' ∧ j = j'
    · obtain ⟨rfl, rfl⟩ := heq
      simp [hc, hin, ho]
    · rw [if_neg (fun h => heq h.2)]
      cases hc' : e.cell i' j' with
      | none => rfl
      | some o' =>
        have hne : o ≠ o' := by
          intro h; subst h
          exact heq (e.cell_injective hle i j i' j' o hc hc')
        simp [List.getElem?_set_ne hne]

/-- **A write through a view over one part is invisible through every view over another part.** -/
theorem part_view_write_frame {α : Type} (e e' : MExpr) (rows columns : Nat) (rp cp : List Nat)
    (kr kc kr' kc' : Nat)
    (hb : e.base = .part rows columns rp cp kr kc) (hb' : e'.base = .part rows columns rp cp kr' kc')
    (hle : e.LeavesOk) (hle' : e'.LeavesOk) (hne : ¬ (kr = kr' ∧ kc = kc'))
    (data : List α) (i j i' j' : Nat) (x : α) :
    e'.read (e.write data i j x) i' j' = e'.read data i' j' := by
  simp only [MExpr.read, MExpr.write]
  cases hc : e.cell i j with
  | none => rfl
  | some o =>
    cases hc' : e'.cell i' j' with
    | none => rfl
    | some o' =>
      have hoo : o ≠ o' := by
        intro h; subst h
        exact hne (views_over_parts_never_alias e e' rows columns rp cp kr kc kr' kc' hb hb' hle hle'
          i j i' j' o hc hc')
      simp [List.getElem?_set_ne hoo]

/-- Non-vacuity: a 4×5 matrix cut after rows 1, 3 and column 2; over the part at grid position
    (1, 1) (rows 1–2, columns 2–4) a reversed range designates cell 13, which no index of a
    view over part (1, 0) does. -/
example :
    let p := MExpr.part 4 5 [1, 3] [2] 1 1
    let e := MExpr.reverse (MExpr.range p ⟨0, 2⟩ ⟨1, usizeMax⟩) true false
    p.LeavesOk ∧ p.size = (2, 3) ∧ e.size = (2, 2) ∧ e.base = p ∧ e.cell 0 0 = some 13 ∧
    (MExpr.part 4 5 [1, 3] [2] 1 0).cell 1 1 = some 11 ∧
    (MExpr.part 4 5 [1, 3] [2] 2 1).size = (1, 3) ∧ (MExpr.part 4 5 [1, 3] [5] 0 1).size = (0, 0) := by
  refine ⟨by simp only [MExpr.LeavesOk, PartitionAccepted]; decide, by decide, by decide, rfl,
    by decide, by decide, by decide, by decide⟩

/-- `partition_quadrants(row, column)` is `partition(&[row], &[column])`: four parts. -/
theorem partition_quadrants_eq (m : MatrixMeta) (hm : m.Inv) (row column : Nat)
    (hr : row ≤ m.rows) (hc : column ≤ m.columns) :
    ∃ a b c d, partitionQuadrants m row column = .ok (a, b, c, d) ∧
      partition m [row] [column] = .ok [a, b, c, d] := by
  have hspec := partition_eq_spec m hm [row] [column]
  have h3 : ([row].length + 1) * ([column].length + 1) ≤ usizeMax := by
    simp only [List.length_singleton]; decide
  simp only [partitionSpec, axisChecked, List.all_nil, Bool.and_true, hr, hc, decide_true, Bool.not_true,
    Bool.false_eq_true, if_false, h3, not_true_eq_false, sortedLe, Bool.and_self] at hspec
  simp only [partitionQuadrants, hspec, gridSpec, diffs, List.nil_append, List.cons_append,
    List.flatMap_cons, List.flatMap_nil, List.map_cons, List.map_nil, List.append_nil,
    List.cons_append]
  exact ⟨_, _, _, _, rfl, rfl⟩

/-- **`partition_quadrants` in full**: it returns exactly when `row ≤ rows ∧ column ≤ columns`
    (the documented panic otherwise, raised by `check_axis`), and then the four quadrants have
    the sizes `row × column`, `row × (columns − column)`, `(rows − row) × column`,
    `(rows − row) × (columns − column)` — an empty one being `0×0`. -/
theorem partition_quadrants_iff (m : MatrixMeta) (hm : m.Inv) (row column : Nat) :
    (row ≤ m.rows ∧ column ≤ m.columns →
      ∃ a b c d, partitionQuadrants m row column = .ok (a, b, c, d) ∧
        (a.rows, a.columns) = normSize row column ∧
        (b.rows, b.columns) = normSize row (m.columns - column) ∧
        (c.rows, c.columns) = normSize (m.rows - row) column ∧
        (d.rows, d.columns) = normSize (m.rows - row) (m.columns - column)) ∧
    (¬ (row ≤ m.rows ∧ column ≤ m.columns) →
      partitionQuadrants m row column = .panic .explicit) := by
  constructor
  · rintro ⟨hr, hc⟩
    obtain ⟨a, b, c, d, hq, hp⟩ := partition_quadrants_eq m hm row column hr hc
    have hs := partition_sizes m hm [row] [column] [a, b, c, d] hp
    simp only [List.map_cons, List.map_nil, diffs, List.cons_append, List.nil_append,
      List.flatMap_cons, List.flatMap_nil, List.append_nil, List.cons.injEq, and_true] at hs
    exact ⟨a, b, c, d, hq, by simpa using hs.1, by simpa using hs.2.1, by simpa using hs.2.2.1,
      by simpa using hs.2.2.2⟩
  · intro hn
    have hspec := partition_eq_spec m hm [row] [column]
    simp only [partitionQuadrants, hspec, partitionSpec, axisChecked, List.all_nil, Bool.and_true]
    by_cases hr : row ≤ m.rows
    · have hc : ¬ column ≤ m.columns := fun hc => hn ⟨hr, hc⟩
      simp [hr, hc]
    · simp [hr]

/-- Non-vacuity: the 2×2 quadrants of a 3×3 matrix split after row 1 and column 2. -/
example : partition ⟨9, 3, 3⟩ [1] [2] = .ok
    [⟨[[0, 1]], 1, 2⟩, ⟨[[2]], 1, 1⟩, ⟨[[3, 4], [6, 7]], 2, 2⟩, ⟨[[5], [8]], 2, 1⟩] := by decide

end EasyMl.C12
