/-
  EasyMl.Props.C10 — property theorems for C10 (no safe API call sequence reaches an
  out-of-bounds unchecked element access).

  C10 is a composition over the models of the other properties; the theorems here are mostly
  corollaries of Props/C01 (constructors, offsets), Props/C09 (iterators), Props/C11 (matrix
  histories) and Props/C13 (in-place transformations), stated in the vocabulary of the
  *monitor* that the `verif-hooks` feature puts in front of the six leaf unchecked accessors:

    tensor access  (indexes, shape, stored elements):  indexes < shape pointwise,
                   stored elements = Π lengths, names unique, lengths ≥ 1      (`TensorAccessOk`)
    matrix access  (row, column, rows, columns, stored elements): row < rows, column < columns,
                   rows · columns = stored elements > 0                         (`MatrixAccessOk`)

  Only property statements (and non-vacuity examples) live here; helpers are in
  EasyMl/Lemmas/Survivor.lean.  Everything is about the definitions the `emlmodel` driver
  executes against the implementation (Model/Survivor.lean, Model/Iter.lean, Model/Tensor.lean,
  Model/MatrixResize.lean, Model/Transform.lean).
-/
import EasyMl.Lemmas.Survivor
import EasyMl.Props.C01
import EasyMl.Props.C09
import EasyMl.Props.C11
import EasyMl.Props.C13

namespace EasyMl.C10
open EasyMl EasyMl.Spec EasyMl.Survivor EasyMl.Iter

set_option linter.unusedSectionVars false

variable {ν : Type} [DecidableEq ν] {α : Type}

/-! ## `leaf_inv`: constructors and mutators keep the leaf containers consistent -/

/-- **Tensor constructors** (`Tensor::from` / `try_from`; `reshape_owned`, `from_fn`, `empty` end
    in them): a tensor is produced exactly when the element count is the product of the lengths,
    the names are unique and every length is ≥ 1, and it then satisfies the invariant; in
    particular a shape whose element count is not representable as a `usize` is rejected whatever
    the data (the statement the unrepaired `dimensions::elements` violated in release builds,
    defect #8). -/
theorem leaf_inv_tensor_constructors (shape : Shape ν) (data : List α) :
    ((∃ t, Tensor.tryFrom shape data = some t) ↔
        data.length = elements shape ∧ (shape.map (·.1)).Nodup ∧ ∀ d ∈ shape, 1 ≤ d.2) ∧
      (∀ t, Tensor.tryFrom shape data = some t → TInv t ∧ t.data = data ∧ t.shape = shape) ∧
      (usizeMax < elements shape → data.length ≤ usizeMax → Tensor.tryFrom shape data = none) := by
  refine ⟨C01.from_validates shape data, fun t h => ?_, fun hbig hlen => ?_⟩
  · obtain ⟨h1, h2, _⟩ := C01.from_fields shape data t h
    exact ⟨tinv_of_tryFrom shape data t h, h1, h2⟩
  · cases h : Tensor.tryFrom shape data with
    | none => rfl
    | some t =>
      have := ((C01.from_validates shape data).1 ⟨t, h⟩).1
      omega

/-- non-vacuity: an accepted shape; the wrapped product `(2^63+1)·2 ≡ 2 (mod 2^64)` is rejected -/
example : (Tensor.tryFrom [("a", 2), ("b", 3)] (List.range 6)).isSome = true := by decide
example : usizeMax < elements [("a", 2 ^ 63 + 1), ("b", 2)] ∧
    Tensor.tryFrom [("a", 2 ^ 63 + 1), ("b", 2)] [7, 8] = none := by decide

/-- **Every mutating operation on a tensor** (constructor calls while holding an object,
    `reshape_mut`, `reshape_owned`, `rename`, `transpose_mut`, `reorder_mut`, `map_mut`,
    `map_mut_with_index`, `TensorAccess::map_mut*`, checked writes — with any arguments, valid or
    not, and with user closures that panic at any call): the tensor left behind satisfies the
    invariant; if the call did not return normally and ran no user closure the tensor is exactly
    what it was (the panic came before any change); a user closure's panic can only have changed
    element values — shape, strides and element count are what they were. -/
theorem leaf_inv_tensor_step [Inhabited ν] (t : Tensor ν α) (ht : TInv t) (op : Op ν α) :
    TInv (exec t op).state ∧
      (op.runsClosure = false → (exec t op).out ≠ .ok → (exec t op).state = t) ∧
      (op.runsClosure = true → SameFrame (exec t op).state t) :=
  ⟨exec_inv t ht op, exec_frame t op, exec_closure_sameFrame t op⟩

/-- What a panicking closure leaves behind, exactly: `map_mut` whose closure panics on call `p`
    has overwritten the first `p` stored elements and nothing else; if the closure is never
    called `p` times the call completes and is the C13 `map_mut`. -/
theorem leaf_inv_closure_panic (t : Tensor ν α) (f : α → α) (p : Nat) :
    (p < t.data.length →
        (mapMut t f (some p)).out = .panic .explicit ∧
        (mapMut t f (some p)).state = { t with data := (t.data.take p).map f ++ t.data.drop p }) ∧
      (t.data.length ≤ p →
        (mapMut t f (some p)).out = .ok ∧ (mapMut t f (some p)).state = t.mapMut f) ∧
      ((mapMut t f none).out = .ok ∧ (mapMut t f none).state = t.mapMut f) := by
  have h := mapLoop_eq f p t.data 0
  rw [Nat.zero_add] at h
  refine ⟨fun hp => ?_, fun hp => ?_, ?_⟩
  · simp [mapMut, h, hp]
  · have : ¬ p < t.data.length := by omega
    simp [mapMut, h, this, Tensor.mapMut]
  · simp [mapMut, mapLoop_none, Tensor.mapMut]

example : (mapMut (Tensor.ofVal ⟨[("a", 2), ("b", 2)], [1, 2, 3, 4]⟩) (· + 10) (some 2)).state.data
    = [11, 12, 3, 4] := by decide

/-- **Every finite history on a tensor**: after any sequence of operations (each acting on what
    the previous one left behind, panics included) the invariant holds. -/
theorem leaf_inv_tensor_history [Inhabited ν] (t : Tensor ν α) (ht : TInv t)
    (ops : List (Op ν α)) : TInv (run t ops) :=
  run_inv t ht ops

/-- non-vacuity: a history with a rejected reshape (overflowing shape), a closure panic and a
    bad reorder keeps a consistent 2×3 tensor -/
example :
    let t0 : Tensor String Nat := Tensor.ofVal ⟨[("a", 2), ("b", 3)], [0, 1, 2, 3, 4, 5]⟩
    let t := run t0 [.reshapeMut [("x", 2 ^ 63 + 3), ("y", 2)], .mapMut (· + 10) (some 4),
      .reorderMut ["a", "a"], .transposeMut ["b", "a"]]
    TInv t0 ∧ t.shape = [("a", 3), ("b", 2)] ∧ t.data = [10, 13, 11, 4, 12, 5] := by
  refine ⟨?_, ?_, ?_⟩
  · exact (tinv_iff_tryFrom _).2 rfl
  · decide
  · decide

/-- **Matrices** (C11): the constructors establish `data.len() = rows·columns ≥ 1` (sizes whose
    element count is not representable are rejected — fix L-12), every resizing / in-place
    operation with any arguments leaves a matrix satisfying it and, if it panics, leaves the
    matrix exactly as it was; hence every finite history does. -/
theorem leaf_inv_matrix :
    (∀ (rows columns : Nat) (values : List α) (m : Matrix α),
        Matrix.fromFlatRowMajor rows columns values = some m → m.Inv) ∧
      (∀ (values : List (List α)) (m : Matrix α), Matrix.fromRows values = some m → m.Inv) ∧
      (∀ (rows columns : Nat) (v : α) (m : Matrix α), matrixEmpty rows columns v = some m → m.Inv) ∧
      (∀ (rows columns : Nat) (v : α), usizeMax < rows * columns → matrixEmpty rows columns v = none) ∧
      (∀ (m : Matrix α), m.Inv → ∀ op : Matrix.Op α,
        (m.exec op).state.Inv ∧ ((m.exec op).panic ≠ none → (m.exec op).state = m)) ∧
      (∀ (m : Matrix α), m.Inv → ∀ ops : List (Matrix.Op α), (m.run ops).Inv) := by
  refine ⟨fun r c vs m h => (C11.fromFlatRowMajor_inv r c vs m h).1, fun vs m h => ?_,
    fun r c v m h => (matrixEmpty_inv r c v m h).1, fun r c v h => ?_,
    fun m hm op => ⟨C11.step_inv m hm op, C11.panic_frame m hm op⟩,
    fun m hm ops => (C11.history_refines m hm ops).1⟩
  · exact (C11.fromRows_refines vs m h).1
  · unfold matrixEmpty
    rw [if_neg (by omega)]

/-- **`insert_row` / `insert_column` with an element type whose `Clone` panics** on any call
    (all safe code): the matrix left behind satisfies the invariant and, if the call panicked, is
    exactly what it was (fix L-13: the clones are made before the first insertion). -/
theorem leaf_inv_matrix_clone_panic (m : Matrix α) (hm : m.Inv) (i : Nat) (v : α) (p : Option Nat) :
    ((insertRowCloning m i v p).state.Inv ∧
        ((insertRowCloning m i v p).panic ≠ none → (insertRowCloning m i v p).state = m)) ∧
      ((insertColumnCloning m i v p).state.Inv ∧
        ((insertColumnCloning m i v p).panic ≠ none → (insertColumnCloning m i v p).state = m)) :=
  ⟨insertRowCloning_spec m hm i v p, insertColumnCloning_spec m hm i v p⟩

/-- The unrepaired `insert_row` violates it: on a 2×2 matrix a `Clone` that panics on its second
    call leaves 5 stored elements for a matrix that still claims 2×2 (defect L-13; kernel
    evaluation of the model of the old code). -/
theorem insertRowCloneOld_violates :
    let m : Matrix Nat := ⟨[1, 2, 3, 4], 2, 2⟩
    m.Inv ∧ ¬ (insertRowCloningOld m 0 9 (some 1)).state.Inv ∧
      (insertRowCloningOld m 0 9 (some 1)).state = ⟨[9, 1, 2, 3, 4], 2, 2⟩ ∧
      (insertRowCloning m 0 9 (some 0)).state = m := by
  decide

/-- **`Matrix::map_mut` / `map_mut_with_index` (and the `MatrixView` forms) with a closure that
    panics on any call** — the model the driver answers the `m map_mut …`, `m map_mut_with_index …`,
    `m map_div …` lines with: the matrix left behind satisfies the invariant and has the size it
    had; the closure panics exactly when its panicking call number is below the element count,
    and then the first `k` row-major elements hold the closure's results (from the old value and
    its position) while the rest are untouched.  For a closure that ignores the position this is
    C11's `mapMutPanic`, so `C11.inplace_map_panic_obs` and the extended histories speak about the
    same function.  (The statement seeded change C10-r4m1 falsifies: it left `data = []`.) -/
theorem leaf_inv_matrix_map_panic (m : Matrix α) (hm : m.Inv) (f : α → Nat → Nat → α)
    (p : Option Nat) :
    (matrixMapPanic m f p).state.Inv ∧
      (matrixMapPanic m f p).state.size = m.size ∧
      (matrixMapPanic m f p).state.data.length = m.data.length ∧
      ((matrixMapPanic m f p).panic = some .explicit ↔ ∃ k, p = some k ∧ k < m.data.length) ∧
      (∀ k, p = some k → k < m.data.length →
        (matrixMapPanic m f p).state.data =
          ((List.zip m.data (List.range m.data.length)).take k).map
            (fun q => f q.1 (q.2 / m.columns) (q.2 % m.columns)) ++ m.data.drop k) ∧
      (∀ (g : α → α) (k : Nat), matrixMapPanic m (fun x _ _ => g x) (some k) = m.mapMutPanic g k) := by
  obtain ⟨h1, h2, h3, h4, _, h6⟩ := matrixMapPanic_spec m f p
  refine ⟨matrixMapPanic_inv m hm f p, ?_, h3, h4, h6, fun g k => matrixMapPanic_eq_mapMutPanic m g k⟩
  simp [Matrix.size, h1, h2]

/-- non-vacuity: `x ↦ 12 / x` on `[[3, 0], [4, 6]]` panics at the zero; the 2×2 matrix keeps four
    elements, the first mapped -/
example : (matrixMapPanic (⟨[3, 0, 4, 6], 2, 2⟩ : Matrix Nat) (fun x _ _ => 12 / x) (some 1)).state =
    ⟨[4, 0, 4, 6], 2, 2⟩ ∧ (⟨[3, 0, 4, 6], 2, 2⟩ : Matrix Nat).Inv := by decide

example : (Matrix.fromFlatRowMajor 2 3 (List.range 6)).isSome = true ∧
    Matrix.fromFlatRowMajor (2 ^ 63 + 1) 2 [1, 2] = none ∧
    matrixEmpty (2 ^ 63) 2 7 = none := by decide

/-- **A view adaptor's setter with invalid arguments** (`TensorRename::set_names`): whatever
    name list it is called with, the names of the surviving view are unique and as many as
    before; a call that panics (repeated names) leaves the names it had. -/
theorem leaf_inv_view_setter (names new : List ν) (h : names.Nodup) :
    (renameSetNames names new).1.Nodup ∧
      (renameSetNames names new).1.length = names.length ∧
      ((renameSetNames names new).2 = true → (renameSetNames names new).1 = names) ∧
      ((renameSetNames names new).2 = false → (renameSetNames names new).1 = new ∧ new.Nodup) :=
  renameSetNames_spec names new h

example : renameSetNames ["a", "b", "c"] ["x", "x", "y"] = (["a", "b", "c"], true) ∧
    renameSetNames ["a", "b", "c"] ["x", "z", "y"] = (["x", "z", "y"], false) := by decide

/-- **`leaf_inv`** in one statement: whatever safe calls are made on a tensor or a matrix that
    satisfies the invariant — any operations, any arguments, panics caught and the object used
    again, for any finite history — the object keeps `stored elements = Π lengths` (resp.
    `rows·columns`), unique names and lengths ≥ 1 (resp. at least 1×1). -/
theorem leaf_inv [Inhabited ν] :
    (∀ (t : Tensor ν α), TInv t → ∀ ops : List (Op ν α),
      (run t ops).data.length = elements (run t ops).shape ∧
        ((run t ops).shape.map (·.1)).Nodup ∧ ∀ d ∈ (run t ops).shape, 1 ≤ d.2) ∧
    (∀ (m : Matrix α), m.Inv → ∀ ops : List (Matrix.Op α),
      (m.run ops).data.length = (m.run ops).rows * (m.run ops).columns ∧
        1 ≤ (m.run ops).rows ∧ 1 ≤ (m.run ops).columns) := by
  refine ⟨fun t ht ops => ?_, fun m hm ops => (C11.history_refines m hm ops).1⟩
  have h := run_inv t ht ops
  exact ⟨h.1, h.2.1, h.2.2.1⟩

/-! ## `iter_unchecked_inBounds`: the iterators call the unchecked accessors only inside the shape -/

/-- Every element iterator (copying, reference, mutable reference, owned — they differ only in
    what they do with the resolved cell) over **any** source calls the source's unchecked
    accessor on call `k` exactly at the `k`-th position of its position iterator
    (`shapeItem shape k`; `(k / columns, k % columns)`; `(k % rows, k / rows)`; `(r, k)`;
    `(k, c)`; `(k, k)`), for every number of calls, and every such position lies inside the
    shape / size the source reported — for every dimensionality, shape (zero lengths included)
    and matrix size (empty views included). -/
theorem iter_unchecked_inBounds :
    -- tensors: positions and where the accessor is applied
    (∀ shape k idx, shapeItem shape k = some idx → inBounds shape idx = true) ∧
    (∀ {κ : Type} (shape : List Nat) (cell : List Nat → Option κ),
      Enumerates (refNext shapeNext cell) (ShapeIter.new shape) (prod shape)
        (fun k => (shapeItem shape k).map cell) (fun k => ShapeIter.steps k (ShapeIter.new shape))) ∧
    -- matrices, both whole-matrix orders
    (∀ rows columns k p, rowMajorItem rows columns k = some p ∨ colMajorItem rows columns k = some p →
      p.1 < rows ∧ p.2 < columns) ∧
    (∀ {κ : Type} (rows columns : Nat) (cell : Nat × Nat → Option κ),
      Enumerates (refNext rowMajorNext cell) (MatIter.new rows columns) (rows * columns)
          (fun k => (rowMajorItem rows columns k).map cell) (rowMajorState rows columns) ∧
        Enumerates (refNext colMajorNext cell) (MatIter.new rows columns) (rows * columns)
          (fun k => (colMajorItem rows columns k).map cell) (colMajorState rows columns)) ∧
    -- rows, columns, diagonal: the constructors reject a line outside the matrix
    (∀ rows columns row it, LineIter.newRow rows columns row = .ok it →
      it = ⟨.row row, ⟨0, columns⟩⟩ ∧ ∀ k p, rowItem columns row k = some p → p.1 < rows ∧ p.2 < columns) ∧
    (∀ rows columns column it, LineIter.newColumn rows columns column = .ok it →
      it = ⟨.column column, ⟨0, rows⟩⟩ ∧
        ∀ k p, columnItem rows column k = some p → p.1 < rows ∧ p.2 < columns) ∧
    (∀ rows columns k p, diagonalItem rows columns k = some p → p.1 < rows ∧ p.2 < columns) ∧
    (∀ {κ : Type} (rows columns : Nat) (cell : Nat × Nat → Option κ),
      (∀ row, Enumerates (refNext lineNext cell) ⟨.row row, ⟨0, columns⟩⟩ columns
        (fun k => (rowItem columns row k).map cell) (lineState (.row row) columns)) ∧
      (∀ column, Enumerates (refNext lineNext cell) ⟨.column column, ⟨0, rows⟩⟩ rows
        (fun k => (columnItem rows column k).map cell) (lineState (.column column) rows)) ∧
      Enumerates (refNext lineNext cell) (LineIter.newDiagonal rows columns) (min rows columns)
        (fun k => (diagonalItem rows columns k).map cell) (lineState .diagonal (min rows columns))) := by
  refine ⟨?_, fun shape cell => (shape_enumerates shape).ref cell, ?_, ?_, ?_, ?_, ?_, ?_⟩
  · intro shape k idx h
    unfold shapeItem at h
    split at h
    · rename_i hk; cases h; exact unravel_inBounds shape k hk
    · cases h
  · rintro rows columns k p (h | h)
    · exact rowMajorItem_valid rows columns k p h
    · exact colMajorItem_valid rows columns k p h
  · intro κ rows columns cell
    exact ⟨(rowMajor_enumerates rows columns).ref cell, (colMajor_enumerates rows columns).ref cell⟩
  · intro rows columns row it h
    unfold LineIter.newRow at h
    split at h
    · rename_i hc
      cases h
      refine ⟨rfl, fun k p hp => ?_⟩
      unfold rowItem at hp
      split at hp
      · rename_i hk; cases hp; exact ⟨hc.1, hk⟩
      · cases hp
    · cases h
  · intro rows columns column it h
    unfold LineIter.newColumn at h
    split at h
    · rename_i hc
      cases h
      refine ⟨rfl, fun k p hp => ?_⟩
      unfold columnItem at hp
      split at hp
      · rename_i hk; cases hp; exact ⟨hk, hc.2⟩
      · cases hp
    · cases h
  · intro rows columns k p hp
    unfold diagonalItem at hp
    split at hp
    · rename_i hk; cases hp; exact ⟨by simp only; omega, by simp only; omega⟩
    · cases hp
  · intro κ rows columns cell
    obtain ⟨h1, h2, h3⟩ := C09.line_iterators_enumerate rows columns
    exact ⟨fun row => (h1 row).ref cell, fun column => (h2 column).ref cell, h3.ref cell⟩

example : shapeItem [2, 3, 2] 7 = some [1, 0, 1] ∧ inBounds [2, 3, 2] [1, 0, 1] = true := by decide
example : LineIter.newRow 2 3 2 = .panic .explicit := rfl

/-! ## `view_unchecked_inBounds`: adaptors map in-bounds view indexes to in-bounds source indexes -/

/-! The general statements — every tensor view adaptor and composition (from C02), every matrix
  view composition (from C12) — are `EasyMl.C10.view_unchecked_inBounds` and
  `EasyMl.C10.view_unchecked_inBounds_matrix` in **EasyMl/Props/C10Views.lean**: a module of its
  own because C02's lemma files and C01's cannot be imported together at present (both declare
  `EasyMl.mapDimensionsToSource_eq_coords`); the check audits both modules. -/

/-! The same in the vocabulary of the iterator model (C09), which is what the access-log
  predictions of the driver use: `Tensor`, `TensorAccess` over a tensor (any ordering), `Matrix`,
  and `MatrixRange` / `MatrixReverse` nested to any depth, empty views included — with the
  bound on the leaf offset.  (`_partial` in the sense that this vocabulary has no model of the
  other tensor adaptors; the general statement is `view_unchecked_inBounds` above.) -/
theorem view_unchecked_inBounds_partial [Inhabited ν] :
    -- `Tensor` as a source: in-bounds index ↦ row-major offset below the stored element count
    (∀ (t : Tensor ν α), TInv t → ∀ idx, inBounds (tensorSource t).shape idx = true →
      ∃ o, (tensorSource t).cell idx = some o ∧ o < t.data.length) ∧
    -- `TensorAccess::from(&tensor, names)`: the constructor accepts exactly the orderings, and
    -- maps an index inside its (reordered) shape to an offset below the stored element count
    (∀ (t : Tensor ν α), TInv t → ∀ names,
      ((∃ src, accessSource t names = some src) ↔ names.Perm (t.shape.map (·.1))) ∧
      ∀ src, accessSource t names = some src → ∀ idx, inBounds src.shape idx = true →
        ∃ o, src.cell idx = some o ∧ o < t.data.length) ∧
    -- `Matrix`, and per adaptor: a position inside the view maps to a position inside the source
    (∀ rows columns, MBounded (MSource.ofMatrix rows columns) (rows * columns)) ∧
    (∀ (src : MSource Nat) rs rl cs cl p,
      p.1 < (src.range rs rl cs cl).rows ∧ p.2 < (src.range rs rl cs cl).columns →
      (src.range rs rl cs cl).cell p = src.cell (p.1 + rs, p.2 + cs) ∧
        (p.1 + rs < src.rows ∧ p.2 + cs < src.columns)) ∧
    (∀ (src : MSource Nat) r c p,
      p.1 < (src.reverse r c).rows ∧ p.2 < (src.reverse r c).columns →
      (src.reverse r c).cell p =
          src.cell (if r then src.rows - 1 - p.1 else p.1, if c then src.columns - 1 - p.2 else p.2) ∧
        ((if r then src.rows - 1 - p.1 else p.1) < src.rows ∧
          (if c then src.columns - 1 - p.2 else p.2) < src.columns)) ∧
    -- hence compositions to any depth stay inside the leaf
    (∀ (src : MSource Nat) len, MBounded src len →
      (∀ rs rl cs cl, MBounded (src.range rs rl cs cl) len) ∧ ∀ r c, MBounded (src.reverse r c) len) := by
  refine ⟨fun t ht idx hb => ?_, fun t ht names => ⟨⟨?_, ?_⟩, fun src h idx hb =>
      accessSource_inBounds t ht names src h idx hb⟩, ofMatrix_bounded,
    fun src rs rl cs cl p hp => range_maps_inBounds src rs rl cs cl p hp,
    fun src r c p hp => reverse_maps_inBounds src r c p hp,
    fun src len h => ⟨fun rs rl cs cl => range_bounded src len h rs rl cs cl,
      fun r c => reverse_bounded src len h r c⟩⟩
  · have htf := (tinv_iff_tryFrom t).1 ht
    have hb' : inBounds (t.shape.map (·.2)) idx = true := hb
    refine ⟨_, (ofTensor_cell t.shape t.data t htf idx hb').1, ?_⟩
    rw [ht.1]
    exact C01.offset_lt_elements t.shape idx hb'
  · rintro ⟨src, h⟩
    exact (accessSource_spec t ht names src h).1
  · intro hp
    have := new_of_perm t.shape names ht.2.1 hp
    exact ⟨_, by unfold accessSource; rw [this]⟩

example : ((MSource.ofMatrix 3 4).range 1 5 0 2).cell (1, 1) = some 9 := by decide

/-! ## iterator constructors over empty and thin sources (the probe cases `@ piter` / `@ pten`) -/

/-- **No iterator touches an empty source, and none leaves a non-empty one.**  For every element
    iterator the model builds — `from`, `with_index` and the `from_numeric` twins build the same
    iterator state; the flavours differ only in what they do with the resolved cell — and for
    every number of calls `n`:

    * over a tensor source one of whose lengths is zero, and over a matrix source with zero rows
      or zero columns (0×N, N×0, 0×0; also views cut empty out of a non-empty matrix), the list of
      unchecked accesses is **empty** for the row-major, column-major and diagonal iterators,
      whatever the source would answer; the row / column iterator constructors refuse such a
      source (the statement seeded change C10-r6m2 falsifies: one access at (0,0) of a 2×0 view);
    * over any well-formed matrix source whose cells lie below `len` (a `Matrix`, any nest of
      `MatrixRange` / `MatrixReverse`) every access of every iterator kind is a cell below `len`,
      and there are exactly `min n total` of them. -/
theorem iter_accesses_inBounds_incl_empty :
    (∀ (src : TSource Nat) (n : Nat), 0 ∈ src.shape → tensorAccesses src n = .ok []) ∧
    (∀ (src : MSource Nat) (n : Nat), src.rows = 0 ∨ src.columns = 0 →
      matrixAccesses src .rowMajor n = .ok [] ∧ matrixAccesses src .columnMajor n = .ok [] ∧
        matrixAccesses src .diagonal n = .ok [] ∧
        (∀ r, matrixAccesses src (.row r) n = .panic .explicit) ∧
        (∀ c, matrixAccesses src (.column c) n = .panic .explicit)) ∧
    (∀ (src : MSource Nat) (len : Nat), src.WellFormed → MBounded src len → ∀ (order : MOrder) (n : Nat)
      (accs : List Survivor.Access), matrixAccesses src order n = .ok accs →
        (∀ a ∈ accs, ∃ o, a = some o ∧ o < len) ∧
        accs.length = min n (match order with
          | .rowMajor | .columnMajor => src.rows * src.columns
          | .row _ => src.columns
          | .column _ => src.rows
          | .diagonal => min src.rows src.columns)) := by
  refine ⟨fun src n h0 => ?_, fun src n h0 => ?_, fun src len hw hb order n accs h => ?_⟩
  · have hp : prod src.shape = 0 := prod_eq_zero_of_mem _ h0
    have E := shape_enumerates src.shape
    rw [hp] at E
    exact accesses_nil_of_total_zero E src.cell n
  · have hz : src.rows * src.columns = 0 := by rcases h0 with h | h <;> simp [h]
    have hm : min src.rows src.columns = 0 := by rcases h0 with h | h <;> simp [h]
    refine ⟨?_, ?_, ?_, fun r => ?_, fun c => ?_⟩
    · have E := rowMajor_enumerates src.rows src.columns
      rw [hz] at E
      exact accesses_nil_of_total_zero E src.cell n
    · have E := colMajor_enumerates src.rows src.columns
      rw [hz] at E
      exact accesses_nil_of_total_zero E src.cell n
    · have E := line_enumerates .diagonal (min src.rows src.columns)
      rw [hm] at E
      have := accesses_nil_of_total_zero E src.cell n
      simpa [matrixAccesses, LineIter.newDiagonal, hm, lineNext] using this
    · have : ¬ (r < src.rows ∧ 0 < src.columns) := by omega
      simp [matrixAccesses, LineIter.newRow, this]
    · have : ¬ (0 < src.rows ∧ c < src.columns) := by omega
      simp [matrixAccesses, LineIter.newColumn, this]
  · obtain ⟨F1, F2, F3, F4, F5⟩ := C09.matrix_source_faithful src hw
    obtain ⟨L1, L2, L3⟩ := C09.line_iterators_enumerate src.rows src.columns
    have finish : ∀ {total : Nat} (accs' : List Survivor.Access), Outcome.ok accs' = .ok accs →
        accs'.length = min n total → (∀ a ∈ accs', ∃ o, a = some o ∧ o < len) →
        (∀ a ∈ accs, ∃ o, a = some o ∧ o < len) ∧ accs.length = min n total := by
      intro total accs' he hl hin
      cases he
      exact ⟨hin, hl⟩
    cases order with
    | rowMajor =>
      obtain ⟨accs', he, hl, hin⟩ := accesses_bounded (rowMajor_enumerates src.rows src.columns) F1 len
        (fun k hk => by
          have hv := rowMajorItem_valid src.rows src.columns k (k / src.columns, k % src.columns)
            (by simp [rowMajorItem, hk])
          obtain ⟨c, hc, hlt⟩ := hb _ hv
          exact ⟨_, c, by simp [rowMajorItem, hk], hc, hlt⟩) n
      simp only [matrixAccesses] at h
      rw [he] at h
      exact finish accs' h hl hin
    | columnMajor =>
      obtain ⟨accs', he, hl, hin⟩ := accesses_bounded (colMajor_enumerates src.rows src.columns) F2 len
        (fun k hk => by
          have hv := colMajorItem_valid src.rows src.columns k (k % src.rows, k / src.rows)
            (by simp [colMajorItem, hk])
          obtain ⟨c, hc, hlt⟩ := hb _ hv
          exact ⟨_, c, by simp [colMajorItem, hk], hc, hlt⟩) n
      simp only [matrixAccesses] at h
      rw [he] at h
      exact finish accs' h hl hin
    | row r =>
      by_cases hr : r < src.rows ∧ 0 < src.columns
      · obtain ⟨accs', he, hl, hin⟩ := accesses_bounded (L1 r) (F3 r hr.1) len
          (fun k hk => by
            obtain ⟨c, hc, hlt⟩ := hb (r, k) ⟨hr.1, hk⟩
            exact ⟨_, c, by simp [rowItem, hk], hc, hlt⟩) n
        have h' : matrixAccesses src (.row r) n =
            accessesOf (collect (refNext lineNext src.cell) n ⟨.row r, ⟨0, src.columns⟩⟩) := by
          simp [matrixAccesses, LineIter.newRow, hr]
        rw [h', he] at h
        exact finish accs' h hl hin
      · have h' : matrixAccesses src (.row r) n = .panic .explicit := by
          simp [matrixAccesses, LineIter.newRow, hr]
        rw [h'] at h
        cases h
    | column c =>
      by_cases hc : 0 < src.rows ∧ c < src.columns
      · obtain ⟨accs', he, hl, hin⟩ := accesses_bounded (L2 c) (F4 c hc.2) len
          (fun k hk => by
            obtain ⟨c', hc', hlt⟩ := hb (k, c) ⟨hk, hc.2⟩
            exact ⟨_, c', by simp [columnItem, hk], hc', hlt⟩) n
        have h' : matrixAccesses src (.column c) n =
            accessesOf (collect (refNext lineNext src.cell) n ⟨.column c, ⟨0, src.rows⟩⟩) := by
          simp [matrixAccesses, LineIter.newColumn, hc]
        rw [h', he] at h
        exact finish accs' h hl hin
      · have h' : matrixAccesses src (.column c) n = .panic .explicit := by
          simp [matrixAccesses, LineIter.newColumn, hc]
        rw [h'] at h
        cases h
    | diagonal =>
      obtain ⟨accs', he, hl, hin⟩ := accesses_bounded L3 F5 len
        (fun k hk => by
          obtain ⟨c, hc, hlt⟩ := hb (k, k) ⟨by omega, by omega⟩
          exact ⟨_, c, by simp [diagonalItem, hk], hc, hlt⟩) n
      simp only [matrixAccesses] at h
      rw [he] at h
      exact finish accs' h hl hin

/-- non-vacuity: the 2×0 view of the seeded change, a 0×3 matrix, and a view cut empty in one
    direction out of a 2×3 matrix; a tensor source with a zero length -/
example : matrixAccesses (MSource.ofMatrix 2 0) .columnMajor 5 = .ok [] ∧
    matrixAccesses (MSource.ofMatrix 0 3) .rowMajor 5 = .ok [] ∧
    ((MSource.ofMatrix 2 3).range 0 2 3 2).columns = 0 ∧
    matrixAccesses ((MSource.ofMatrix 2 3).range 0 2 3 2) .columnMajor 4 = .ok [] ∧
    matrixAccesses ((MSource.ofMatrix 2 3).range 0 2 1 2) .columnMajor 9 =
      .ok [some 1, some 4, some 2, some 5] := by
  refine ⟨rfl, rfl, by decide, rfl, rfl⟩

/-! ## `unchecked_safe`: every leaf access of a program of the modelled fragment passes the monitor -/

/-- **Tensor programs**: build a tensor with a constructor, run any history of operations
    (valid or not, closures panicking anywhere), then iterate over it — directly or through
    `TensorAccess` with any accepted ordering — for any number of calls.  Every leaf access
    `(indexes, shape, stored elements)` passes the monitor's check, and the storage offsets
    touched are: offset `k` on call `k` for direct iteration; an offset below the element count
    for iteration through an ordering.

    **Matrix programs**: a matrix satisfying the invariant (as the constructors establish), any
    history of resizing operations, then a row-major / column-major / row / column / diagonal
    iteration: every position handed to the leaf passes the monitor's check. -/
theorem unchecked_safe [Inhabited ν] :
    (∀ (shape : Shape ν) (data : List α) (t0 : Tensor ν α) (ops : List (Op ν α)),
      Tensor.tryFrom shape data = some t0 →
      (∀ k idx, shapeItem ((run t0 ops).shape.map (·.2)) k = some idx →
        TensorAccessOk (run t0 ops) idx ∧ (tensorSource (run t0 ops)).cell idx = some k) ∧
      (∀ names src, accessSource (run t0 ops) names = some src →
        ∀ k idx, shapeItem src.shape k = some idx →
          ∃ o, src.cell idx = some o ∧ o < (run t0 ops).data.length)) ∧
    (∀ (m0 : Matrix α) (ops : List (Matrix.Op α)), m0.Inv →
      ∀ k p, (rowMajorItem (m0.run ops).rows (m0.run ops).columns k = some p ∨
          colMajorItem (m0.run ops).rows (m0.run ops).columns k = some p ∨
          diagonalItem (m0.run ops).rows (m0.run ops).columns k = some p ∨
          (∃ row, row < (m0.run ops).rows ∧ rowItem (m0.run ops).columns row k = some p) ∨
          (∃ column, column < (m0.run ops).columns ∧ columnItem (m0.run ops).rows column k = some p)) →
        MatrixAccessOk (m0.run ops) p) := by
  obtain ⟨hpos, _, hmat, _, _, _, hdiag, _⟩ := iter_unchecked_inBounds
  constructor
  · intro shape data t0 ops h0
    have ht : TInv (run t0 ops) := run_inv t0 (tinv_of_tryFrom shape data t0 h0) ops
    have htf := (tinv_iff_tryFrom _).1 ht
    constructor
    · intro k idx hk
      have hb := hpos _ k idx hk
      refine ⟨tensorAccessOk_of_inv _ ht idx hb, ?_⟩
      have hk' : k < prod ((run t0 ops).shape.map (·.2)) := by
        unfold shapeItem at hk; split at hk
        · assumption
        · cases hk
      have hidx : idx = unravel ((run t0 ops).shape.map (·.2)) k := by
        unfold shapeItem at hk; rw [if_pos hk'] at hk; cases hk; rfl
      show (TSource.ofTensor (run t0 ops)).cell idx = some k
      rw [(ofTensor_cell _ _ _ htf idx hb).1, hidx, ravel_unravel _ k hk']
    · intro names src hsrc k idx hk
      exact accessSource_inBounds _ ht names src hsrc idx (hpos _ k idx hk)
  · intro m0 ops hm k p hp
    have hi : (m0.run ops).Inv := (C11.history_refines m0 hm ops).1
    apply matrixAccessOk_of_inv _ hi
    rcases hp with h | h | h | ⟨row, hr, h⟩ | ⟨column, hc, h⟩
    · exact hmat _ _ k p (Or.inl h)
    · exact hmat _ _ k p (Or.inr h)
    · exact hdiag _ _ k p h
    · unfold rowItem at h
      split at h
      · rename_i hk; cases h; exact ⟨hr, hk⟩
      · cases h
    · unfold columnItem at h
      split at h
      · rename_i hk; cases h; exact ⟨hk, hc⟩
      · cases h

/-- non-vacuity: a tensor program whose history contains rejected calls, and the accesses of the
    iteration afterwards -/
example :
    ∃ t0, Tensor.tryFrom [("a", 2), ("b", 3)] (List.range 6) = some t0 ∧
      (run t0 [.reshapeMut [("x", 7)], .reorderMut ["b", "a"]]).shape = [("b", 3), ("a", 2)] ∧
      shapeItem [3, 2] 3 = some [1, 1] := by
  refine ⟨_, rfl, ?_, ?_⟩ <;> decide

/-- **`unchecked_safe` without hypotheses on the container** (matrices): build a matrix with ANY
    public constructor (`from_scalar`, `row`, `column`, `from`, `from_flat_row_major`, `from_fn`,
    `empty`, `diagonal`, `from_diagonal` — C11's `Ctor`, with any arguments; a constructor call
    that panics produces no matrix), subject it to ANY finite history over C11's extended
    alphabet — the 13 resizing / in-place operations with any arguments and the operations whose
    user closure or iterator panics at any call, panics caught and the object used again — and
    then iterate it row-major, column-major, along the diagonal or along any existing row or
    column: every position handed to the leaf passes the monitor's predicate.  (The tensor half of
    `unchecked_safe` already starts from the public constructor `Tensor::try_from` and any
    history including panicking closures.) -/
theorem unchecked_safe_constructed (c : Matrix.Ctor α) (m0 : Matrix α) (xs : List (Matrix.XOp α))
    (hc : c.build = .ok m0) (k : Nat) (p : Nat × Nat)
    (hp : rowMajorItem (m0.xrun xs).rows (m0.xrun xs).columns k = some p ∨
      colMajorItem (m0.xrun xs).rows (m0.xrun xs).columns k = some p ∨
      diagonalItem (m0.xrun xs).rows (m0.xrun xs).columns k = some p ∨
      (∃ row, row < (m0.xrun xs).rows ∧ rowItem (m0.xrun xs).columns row k = some p) ∨
      (∃ column, column < (m0.xrun xs).columns ∧ columnItem (m0.xrun xs).rows column k = some p)) :
    MatrixAccessOk (m0.xrun xs) p := by
  obtain ⟨_, _, hmat, _, _, _, hdiag, _⟩ := iter_unchecked_inBounds
  have hi : (m0.xrun xs).Inv := (C11.constructed_xhistory_refines c m0 hc xs).1
  apply matrixAccessOk_of_inv _ hi
  rcases hp with h | h | h | ⟨row, hr, h⟩ | ⟨column, hcol, h⟩
  · exact hmat _ _ k p (Or.inl h)
  · exact hmat _ _ k p (Or.inr h)
  · exact hdiag _ _ k p h
  · unfold rowItem at h
    split at h
    · rename_i hk; cases h; exact ⟨hr, hk⟩
    · cases h
  · unfold columnItem at h
    split at h
    · rename_i hk; cases h; exact ⟨hk, hcol⟩
    · cases h

/-- non-vacuity: `Matrix::from_flat_row_major((2, 2), …)`, a `map_mut` whose closure panics on its
    second call, a rejected `remove_row(7)`, an `insert_row`: a 3×2 matrix with six elements -/
example :
    let c : Matrix.Ctor Nat := .fromFlatRowMajor 2 2 [1, 2, 3, 4]
    let xs : List (Matrix.XOp Nat) := [.mapMutPanic (· + 10) 1, .op (.removeRow 7), .op (.insertRow 0 9)]
    c.build = .ok ⟨[1, 2, 3, 4], 2, 2⟩ ∧
      (Matrix.xrun ⟨[1, 2, 3, 4], 2, 2⟩ xs) = ⟨[9, 9, 11, 2, 3, 4], 3, 2⟩ := by
  exact ⟨rfl, rfl⟩

/-! ## the access log the monitor records is the one the model predicts -/

/-- The list of leaf accesses the driver predicts for `n` calls of an iterator (and which the
    harness compares with the monitor's log): for a tensor that satisfies the invariant, offsets
    `0, 1, …` in order, one per element, none outside; for a matrix row-major the same,
    column-major `k / rows + (k % rows)·columns`. -/
theorem access_log_predicted :
    (∀ (t : Tensor ν α), TInv t → ∀ n,
      tensorAccesses (tensorSource t) n = .ok ((List.range (min n t.data.length)).map some)) ∧
    (∀ rows columns n,
      matrixAccesses (MSource.ofMatrix rows columns) .rowMajor n =
          .ok ((List.range (min n (rows * columns))).map some) ∧
        matrixAccesses (MSource.ofMatrix rows columns) .columnMajor n =
          .ok ((List.range (min n (rows * columns))).map fun k =>
            some (k / rows + (k % rows) * columns))) := by
  constructor
  · intro t ht n
    have htf := (tinv_iff_tryFrom t).1 ht
    obtain ⟨hs, F⟩ := C09.tensor_faithful t.shape t.data t htf
    have hsrc : (tensorSource t).shape = t.shape.map (·.2) := hs
    have := tensorAccesses_eq (tensorSource t) (fun k => k) (by rw [hsrc]; exact F) n
    rw [this, hsrc]
    have e : prod (t.shape.map (·.2)) = t.data.length := ht.1.symm
    rw [e]
  · intro rows columns n
    obtain ⟨F1, F2⟩ := C09.matrix_faithful rows columns
    constructor
    · exact accesses_of_enumerates (rowMajor_enumerates rows columns) F1 n
    · exact accesses_of_enumerates (colMajor_enumerates rows columns) F2 n

example : matrixAccesses (MSource.ofMatrix 2 3) .columnMajor 7 =
    .ok [some 0, some 3, some 1, some 4, some 2, some 5] := rfl

end EasyMl.C10
