/-
  EasyMl.Props.C01 — property theorems for C01 (named-dimension addressing).

  Only property statements live here; helper lemmas are in EasyMl/Lemmas/Tensor.lean.
  Every theorem is about the very definitions the `emlmodel` driver executes against the
  implementation (EasyMl/Model/Tensor.lean) and the specification (EasyMl/Spec/Tensor.lean).
-/
import EasyMl.Lemmas.Tensor

namespace EasyMl.C01
open EasyMl EasyMl.Spec

set_option linter.unusedSectionVars false

variable {ν : Type} [DecidableEq ν] {α : Type}

/-- Strides are row-major: the stride of dimension `d` is the product of the later lengths. -/
theorem strides_rowMajor (shape : Shape ν) (d : Nat) (hd : d < shape.length) :
    (computeStrides shape)[d]? = some (prod ((shape.drop (d + 1)).map (·.2))) := by
  simp [computeStrides, hd]

/-- The checked offset computation of a tensor is `some` exactly for tuples inside the shape
    (for coordinates of any size — there is no arithmetic before the bound check), and then it
    is the row-major offset. -/
theorem offset_eq_rowMajor (shape : Shape ν) (data : List α) (t : Tensor ν α)
    (ht : Tensor.tryFrom shape data = some t) (idx : List Nat) (hlen : idx.length = shape.length) :
    t.offset idx =
      if inBounds (shape.map (·.2)) idx then some (ravel (shape.map (·.2)) idx) else none := by
  unfold Tensor.tryFrom at ht
  split at ht
  · simp at ht
  · simp only [Option.some.injEq] at ht
    subst ht
    simp only [Tensor.offset, getIndexDirect]
    rw [getIndexDirectGo_eq shape idx 0 hlen]
    simp

/-- In-bounds tuples address offsets below the element count … -/
theorem offset_lt_elements (shape : Shape ν) (idx : List Nat)
    (h : inBounds (shape.map (·.2)) idx = true) :
    ravel (shape.map (·.2)) idx < elements shape :=
  ravel_lt _ _ h

/-- … and distinct in-bounds tuples never alias the same element. -/
theorem offset_injective (shape : Shape ν) (a b : List Nat)
    (ha : inBounds (shape.map (·.2)) a = true) (hb : inBounds (shape.map (·.2)) b = true)
    (h : ravel (shape.map (·.2)) a = ravel (shape.map (·.2)) b) : a = b :=
  ravel_injective _ a b ha hb h

/-- Non-vacuity: a concrete 2×3×2 tensor meets the hypotheses and resolves `[1,2,1]` to offset 11. -/
example :
    ∃ t, Tensor.tryFrom [("a", 2), ("b", 3), ("c", 2)] (List.range 12) = some t ∧
      t.offset [1, 2, 1] = some 11 := by
  refine ⟨_, rfl, ?_⟩
  decide

end EasyMl.C01
