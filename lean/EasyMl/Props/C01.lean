/-
  EasyMl.Props.C01 — property theorems for C01 (named-dimension addressing).

  Only property statements live here; helper lemmas are in EasyMl/Lemmas/Tensor.lean.
  Every theorem is about the very definitions the `emlmodel` driver executes against the
  implementation (EasyMl/Model/Tensor.lean) and the specification (EasyMl/Spec/Tensor.lean).
-/
import EasyMl.Lemmas.Tensor
import EasyMl.Lemmas.Mappings
import EasyMl.Lemmas.ShapeIter
import EasyMl.Lemmas.TensorChecked
import EasyMl.Lemmas.AccessView

namespace EasyMl.C01
open EasyMl EasyMl.Spec

set_option linter.unusedSectionVars false

variable {ν : Type} [DecidableEq ν] {α : Type}

/-- Strides are row-major: the stride of dimension `d` is the product of the later lengths. -/
theorem strides_rowMajor (shape : Shape ν) (d : Nat) (hd : d < shape.length) :
    (computeStrides shape)[d]? = some (prod ((shape.drop (d + 1)).map (·.2))) := by
  simp [computeStrides, hd]

/-- The checked offset computation of a tensor is `some` exactly for tuples inside the shape
    (for coordinates of any size — there is no arithmetic before the bound check), and then it
    is the row-major offset. -/
theorem offset_eq_rowMajor (shape : Shape ν) (data : List α) (t : Tensor ν α)
    (ht : Tensor.tryFrom shape data = some t) (idx : List Nat) (hlen : idx.length = shape.length) :
    t.offset idx =
      if inBounds (shape.map (·.2)) idx then some (ravel (shape.map (·.2)) idx) else none := by
  unfold Tensor.tryFrom at ht
  split at ht
  · simp at ht
  · simp only [Option.some.injEq] at ht
    subst ht
    simp only [Tensor.offset, getIndexDirect]
    rw [getIndexDirectGo_eq shape idx 0 hlen]
    simp

/-- In-bounds tuples address offsets below the element count … -/
theorem offset_lt_elements (shape : Shape ν) (idx : List Nat)
    (h : inBounds (shape.map (·.2)) idx = true) :
    ravel (shape.map (·.2)) idx < elements shape :=
  ravel_lt _ _ h

/-- … and distinct in-bounds tuples never alias the same element. -/
theorem offset_injective (shape : Shape ν) (a b : List Nat)
    (ha : inBounds (shape.map (·.2)) a = true) (hb : inBounds (shape.map (·.2)) b = true)
    (h : ravel (shape.map (·.2)) a = ravel (shape.map (·.2)) b) : a = b :=
  ravel_injective _ a b ha hb h

/-- Non-vacuity: a concrete 2×3×2 tensor meets the hypotheses and resolves `[1,2,1]` to offset 11. -/
example :
    ∃ t, Tensor.tryFrom [("a", 2), ("b", 3), ("c", 2)] (List.range 12) = some t ∧
      t.offset [1, 2, 1] = some 11 := by
  refine ⟨_, rfl, ?_⟩
  decide

/-! ### constructor validation -/

/-- `dimensions::has_duplicates` answers "some name occurs twice". -/
theorem hasDuplicates_iff (names : List ν) : hasDuplicates names = true ↔ ¬ names.Nodup :=
  EasyMl.hasDuplicates_iff names

/-- `Tensor::try_from` (and `Tensor::from`, which panics on the other inputs) accepts exactly:
    element count = product of lengths, names unique, every length ≥ 1 — and then stores the data
    and shape unchanged with row-major strides. -/
theorem from_validates (shape : Shape ν) (data : List α) :
    (∃ t, Tensor.tryFrom shape data = some t) ↔
      data.length = elements shape ∧ (shape.map (·.1)).Nodup ∧ ∀ d ∈ shape, 1 ≤ d.2 := by
  constructor
  · rintro ⟨t, ht⟩; exact ((tryFrom_eq_some_iff shape data t).1 ht).1
  · intro h; exact ⟨_, (tryFrom_eq_some_iff shape data _).2 ⟨h, rfl⟩⟩

/-- the same, in the form the driver evaluates as the specification's verdict -/
theorem from_accepts_iff (shape : Shape ν) (data : List α) :
    (Tensor.tryFrom shape data).isSome = decide (Accepts shape data.length) := by
  rw [Bool.eq_iff_iff, decide_eq_true_iff, Option.isSome_iff_exists]
  exact from_validates shape data

theorem from_fields (shape : Shape ν) (data : List α) (t : Tensor ν α)
    (ht : Tensor.tryFrom shape data = some t) :
    t.data = data ∧ t.shape = shape ∧ t.strides = computeStrides shape := by
  obtain ⟨_, rfl⟩ := (tryFrom_eq_some_iff shape data t).1 ht
  exact ⟨rfl, rfl, rfl⟩

/-- Non-vacuity / error branches: the three rejections and an acceptance. -/
example : Tensor.tryFrom [("a", 2), ("b", 3)] (List.range 5) = none := by decide
example : Tensor.tryFrom [("a", 2), ("a", 3)] (List.range 6) = none := by decide
example : Tensor.tryFrom [("a", 2), ("b", 0)] ([] : List Nat) = none := by decide
example : (Tensor.tryFrom [("a", 2), ("b", 3)] (List.range 6)).isSome = true := by decide

/-! ### `DimensionMappings` -/

/-- For a source shape with unique names, `DimensionMappings::new` succeeds exactly on the
    permutations of the source names. -/
theorem mappings_new_some_iff_perm (source : Shape ν) (requested : List ν)
    (hnd : (source.map (·.1)).Nodup) :
    (∃ m, DimensionMappings.new source requested = some m) ↔ requested.Perm (source.map (·.1)) :=
  ⟨fun ⟨m, hm⟩ => perm_of_new source requested m hnd hm,
   fun hp => ⟨_, new_of_perm source requested hnd hp⟩⟩

/-- … in particular a name list with a repeated name is rejected … -/
theorem mappings_new_rejects_repeated (source : Shape ν) (requested : List ν)
    (hnd : (source.map (·.1)).Nodup) (hrep : ¬ requested.Nodup) :
    DimensionMappings.new source requested = none := by
  cases h : DimensionMappings.new source requested with
  | none => rfl
  | some m => exact absurd ((perm_of_new source requested m hnd h).nodup_iff.2 hnd) hrep

/-- … and so is one with a name the tensor does not have. -/
theorem mappings_new_rejects_unknown (source : Shape ν) (requested : List ν) (n : ν)
    (hnd : (source.map (·.1)).Nodup) (hn : n ∈ requested) (hunk : n ∉ source.map (·.1)) :
    DimensionMappings.new source requested = none := by
  cases h : DimensionMappings.new source requested with
  | none => rfl
  | some m => exact absurd ((perm_of_new source requested m hnd h).mem_iff.1 hn) hunk

/-- The tables: `source_to_requested[d]` is the position of the source's `d`-th name in the
    requested list, `requested_to_source[d]` the position of the `d`-th requested name in the
    source. -/
theorem mappings_tables (source : Shape ν) (requested : List ν) (m : DimensionMappings)
    (hnd : (source.map (·.1)).Nodup) (hm : DimensionMappings.new source requested = some m) :
    m.sourceToRequested = (source.map (·.1)).map (requested.idxOf ·) ∧
    m.requestedToSource = requested.map ((source.map (·.1)).idxOf ·) := by
  have hp := perm_of_new source requested m hnd hm
  rw [new_of_perm source requested hnd hp] at hm
  simp only [Option.some.injEq] at hm
  subst hm
  exact ⟨rfl, rfl⟩

/-- The two tables are permutations of `0..D-1` and mutually inverse. -/
theorem mappings_inverse (source : Shape ν) (requested : List ν) (m : DimensionMappings)
    (hnd : (source.map (·.1)).Nodup) (hm : DimensionMappings.new source requested = some m) :
    m.sourceToRequested.Perm (List.range source.length) ∧
    m.requestedToSource.Perm (List.range source.length) ∧
    (∀ d, d < source.length →
      (m.sourceToRequested[d]?).bind (fun k => m.requestedToSource[k]?) = some d) ∧
    (∀ d, d < source.length →
      (m.requestedToSource[d]?).bind (fun k => m.sourceToRequested[k]?) = some d) := by
  have hp := perm_of_new source requested m hnd hm
  have hrn : requested.Nodup := hp.nodup_iff.2 hnd
  have hlen : requested.length = source.length := by simpa using hp.length_eq
  obtain ⟨h1, h2⟩ := mappings_tables source requested m hnd hm
  rw [h1, h2]
  refine ⟨?_, ?_, ?_, ?_⟩
  · simpa [hlen] using idxOf_table_perm_range (source.map (·.1)) requested hnd hrn hp.symm
  · simpa using idxOf_table_perm_range requested (source.map (·.1)) hrn hnd hp
  · intro d hd
    exact idxOf_tables_inverse (source.map (·.1)) requested hnd hp.symm d (by simpa using hd)
  · intro d hd
    exact idxOf_tables_inverse requested (source.map (·.1)) hrn hp d (by omega)

/-- Non-vacuity: a non-involutive permutation (the two tables differ), and rejections. -/
example : DimensionMappings.new [("x", 2), ("y", 3), ("z", 4)] ["z", "x", "y"] =
    some { sourceToRequested := [1, 2, 0], requestedToSource := [2, 0, 1] } := by decide
example : DimensionMappings.new [("x", 2), ("y", 3), ("z", 4)] ["x", "x", "y"] = none := by decide
example : DimensionMappings.new [("x", 2), ("y", 3), ("z", 4)] ["x", "y", "w"] = none := by decide

/-! ### access through an ordering of the names -/

/-- `index_by` rejects every name list that is not a permutation of the tensor's names. -/
theorem indexBy_some_iff_perm (shape : Shape ν) (data : List α) (t : Tensor ν α) (names : List ν)
    (ht : Tensor.tryFrom shape data = some t) :
    (∃ a, t.indexBy names = some a) ↔ names.Perm (shape.map (·.1)) := by
  obtain ⟨⟨_, hnd, _⟩, rfl⟩ := (tryFrom_eq_some_iff shape data t).1 ht
  constructor
  · rintro ⟨a, ha⟩; exact (indexBy_eq_some shape data _ names a ht ha).1
  · intro hp
    have h := new_of_perm shape names hnd hp
    exact ⟨_, by unfold Tensor.indexBy; simp only [h]; rfl⟩

/-- the same, in the form the driver evaluates as the specification's verdict -/
theorem indexBy_isSome_eq (shape : Shape ν) (data : List α) (t : Tensor ν α) (names : List ν)
    (ht : Tensor.tryFrom shape data = some t) :
    (t.indexBy names).isSome = decide (IsOrdering shape names) := by
  rw [Bool.eq_iff_iff, decide_eq_true_iff, Option.isSome_iff_exists]
  exact indexBy_some_iff_perm shape data t names ht

/-- The shape reported for an ordering is the spec's: each requested name with its length in
    the tensor … -/
theorem access_shape_eq [Inhabited ν] (shape : Shape ν) (data : List α) (t : Tensor ν α)
    (names : List ν) (a : Access ν α) (ht : Tensor.tryFrom shape data = some t)
    (ha : t.indexBy names = some a) : a.shape = shapeFor shape names := by
  obtain ⟨hp, rfl⟩ := indexBy_eq_some shape data t names a ht ha
  obtain ⟨_, rfl⟩ := (tryFrom_eq_some_iff shape data t).1 ht
  exact mapShapeToRequested_eq_shapeFor shape names (fun n hn => hp.mem_iff.1 hn) _

/-- … which is the tensor's shape permuted the same way: its names are the requested names in
    the requested order and it is a permutation of the tensor's shape. -/
theorem access_shape_perm [Inhabited ν] (shape : Shape ν) (data : List α) (t : Tensor ν α)
    (names : List ν) (a : Access ν α) (ht : Tensor.tryFrom shape data = some t)
    (ha : t.indexBy names = some a) : a.shape.map (·.1) = names ∧ a.shape.Perm shape := by
  rw [access_shape_eq shape data t names a ht ha]
  obtain ⟨hp, _⟩ := indexBy_eq_some shape data t names a ht ha
  obtain ⟨⟨_, hnd, _⟩, _⟩ := (tryFrom_eq_some_iff shape data t).1 ht
  constructor
  · simp [shapeFor, List.map_map, Function.comp_def]
  · have h1 : (shapeFor shape names).Perm (shapeFor shape (shape.map (·.1))) := by
      unfold shapeFor; exact hp.map _
    rwa [shapeFor_self shape hnd] at h1

/-- The offset the code-shaped access resolves is the spec's by-name row-major offset. -/
theorem access_offset_eq_lookupOffset (shape : Shape ν) (data : List α) (t : Tensor ν α)
    (names : List ν) (a : Access ν α) (ht : Tensor.tryFrom shape data = some t)
    (ha : t.indexBy names = some a) (idx : List Nat) :
    a.offset idx = lookupOffset shape names idx := by
  obtain ⟨_, rfl⟩ := indexBy_eq_some shape data t names a ht ha
  unfold Access.offset
  simp only [mapDimensionsToSource_eq_coords]
  rw [offset_eq_rowMajor shape data t ht _ (coords_length shape names idx)]
  rfl

/-- Reading through any ordering of the names returns exactly the element whose per-dimension
    coordinates match by name (absent when the spec says absent). -/
theorem access_get_eq_lookupByName (shape : Shape ν) (data : List α) (t : Tensor ν α)
    (names : List ν) (a : Access ν α) (ht : Tensor.tryFrom shape data = some t)
    (ha : t.indexBy names = some a) (idx : List Nat) :
    a.get idx = lookupByName shape data names idx := by
  have h := access_offset_eq_lookupOffset shape data t names a ht ha idx
  obtain ⟨_, rfl⟩ := indexBy_eq_some shape data t names a ht ha
  obtain ⟨hd, _, _⟩ := from_fields shape data t ht
  unfold Access.offset at h
  unfold Access.get Tensor.get lookupByName
  simp only at h ⊢
  rw [h, hd]
  cases lookupOffset shape names idx <;> rfl

/-- Present ⇔ in bounds: the accessors report an element exactly when every coordinate of the
    index tuple is below the length of the dimension named at its position (the lengths of the
    shape reported for that ordering); one-past-the-end and `usize::MAX` coordinates are absent. -/
theorem access_get_isSome_iff [Inhabited ν] (shape : Shape ν) (data : List α) (t : Tensor ν α)
    (names : List ν) (a : Access ν α) (ht : Tensor.tryFrom shape data = some t)
    (ha : t.indexBy names = some a) (idx : List Nat) (hlen : idx.length = names.length) :
    (a.get idx).isSome = inBounds (a.shape.map (·.2)) idx := by
  rw [access_get_eq_lookupByName shape data t names a ht ha idx,
    access_shape_eq shape data t names a ht ha]
  obtain ⟨hp, _⟩ := indexBy_eq_some shape data t names a ht ha
  obtain ⟨⟨hcount, hnd, _⟩, _⟩ := (tryFrom_eq_some_iff shape data t).1 ht
  rw [← lookupOffset_isSome_iff shape names idx hnd hp hlen]
  unfold lookupByName
  cases h : lookupOffset shape names idx with
  | none => rfl
  | some o =>
    have := lookupOffset_lt shape names idx o h
    simp only [Option.isSome_some]
    rw [List.getElem?_eq_getElem (by omega)]
    rfl

/-- Distinct index tuples given in one ordering never alias the same element. -/
theorem access_no_alias (shape : Shape ν) (data : List α) (t : Tensor ν α)
    (names : List ν) (a : Access ν α) (ht : Tensor.tryFrom shape data = some t)
    (ha : t.indexBy names = some a) (i j : List Nat) (o : Nat)
    (hi : i.length = names.length) (hj : j.length = names.length)
    (hio : a.offset i = some o) (hjo : a.offset j = some o) : i = j := by
  rw [access_offset_eq_lookupOffset shape data t names a ht ha] at hio hjo
  obtain ⟨hp, _⟩ := indexBy_eq_some shape data t names a ht ha
  obtain ⟨⟨_, hnd, _⟩, _⟩ := (tryFrom_eq_some_iff shape data t).1 ht
  exact lookupOffset_injective shape names i j o hnd hp hi hj hio hjo

/-- Writing through any ordering changes exactly the addressed offset of the data and nothing
    else (shape, strides and mapping stay); an absent index tuple writes nothing. -/
theorem access_write_frame (shape : Shape ν) (data : List α) (t : Tensor ν α)
    (names : List ν) (a : Access ν α) (ht : Tensor.tryFrom shape data = some t)
    (ha : t.indexBy names = some a) (idx : List Nat) (v : α) :
    a.set idx v = (lookupOffset shape names idx).map fun o =>
      { a with source := { t with data := data.set o v } } := by
  have h := access_offset_eq_lookupOffset shape data t names a ht ha idx
  obtain ⟨_, rfl⟩ := indexBy_eq_some shape data t names a ht ha
  obtain ⟨⟨hcount, _, _⟩, rfl⟩ := (tryFrom_eq_some_iff shape data t).1 ht
  unfold Access.offset at h
  unfold Access.set Tensor.set
  simp only at h ⊢
  rw [h]
  cases ho : lookupOffset shape names idx with
  | none => rfl
  | some o =>
    have := lookupOffset_lt shape names idx o ho
    simp only [Option.map_some]
    rw [if_pos (by omega)]

/-- After a write the addressed element reads back the new value and every other index tuple
    (in the same ordering) reads what it read before. -/
theorem access_set_get (shape : Shape ν) (data : List α) (t : Tensor ν α)
    (names : List ν) (a a' : Access ν α) (ht : Tensor.tryFrom shape data = some t)
    (ha : t.indexBy names = some a) (idx : List Nat) (v : α) (hlen : idx.length = names.length)
    (hset : a.set idx v = some a') :
    a'.get idx = some v ∧
    ∀ idx', idx'.length = names.length → idx' ≠ idx → a'.get idx' = a.get idx' := by
  rw [access_write_frame shape data t names a ht ha idx v] at hset
  obtain ⟨hp, ha_eq⟩ := indexBy_eq_some shape data t names a ht ha
  obtain ⟨⟨hcount, hnd, _⟩, ht_eq⟩ := (tryFrom_eq_some_iff shape data t).1 ht
  cases ho : lookupOffset shape names idx with
  | none => simp [ho] at hset
  | some o =>
    simp only [ho, Option.map_some, Option.some.injEq] at hset
    have hlt := lookupOffset_lt shape names idx o ho
    have key : ∀ idx', a'.get idx' = (lookupOffset shape names idx').bind ((data.set o v)[·]?) := by
      intro idx'
      subst hset ha_eq ht_eq
      have := mapDimensionsToSource_eq_coords shape names idx'
        (names.map ((shape.map (·.1)).idxOf ·))
      simp only [Access.get, Tensor.get, Tensor.offset, this]
      have h2 := offset_eq_rowMajor shape data _ ht _ (coords_length shape names idx')
      simp only [Tensor.offset] at h2
      have h2' : getIndexDirect (coords shape names idx') (computeStrides shape) shape =
          lookupOffset shape names idx' := h2
      rw [h2']
      cases lookupOffset shape names idx' <;> rfl
    constructor
    · rw [key, ho]; simp [List.getElem?_set, hcount, hlt]
    · intro idx' hl' hne
      rw [key, access_get_eq_lookupByName shape data t names a ht ha idx']
      unfold lookupByName
      cases ho' : lookupOffset shape names idx' with
      | none => rfl
      | some o' =>
        have : o ≠ o' := by
          intro e; subst e
          exact hne (lookupOffset_injective shape names idx' idx o hnd hp hl' hlen ho' ho)
        simp [List.getElem?_set, this]

/-- Non-vacuity: a 2×3×2 tensor addressed as `c, a, b` (a non-involutive reordering). -/
example :
    ∃ t a, Tensor.tryFrom [("a", 2), ("b", 3), ("c", 2)] (List.range 12) = some t ∧
      t.indexBy ["c", "a", "b"] = some a ∧
      a.shape = [("c", 2), ("a", 2), ("b", 3)] ∧
      a.get [1, 0, 2] = some 5 ∧ a.get [2, 0, 0] = none ∧ a.get [0, 0, 3] = none ∧
      (a.set [1, 0, 2] 99).map (·.source.data) = some [0, 1, 2, 3, 4, 99, 6, 7, 8, 9, 10, 11] := by
  refine ⟨_, _, rfl, rfl, ?_⟩
  decide

/-! ### further constructors: `from_fn`, `from_scalar` -/

/-- `Tensor::from_fn(shape, producer)` is `Tensor::from(shape, data)` with `data` the producer
    applied to every index tuple of the shape in row-major order (the `ShapeIterator` enumerates
    exactly those: `shapeIndexes_eq_allIndexes`). -/
theorem fromFn_eq_from (shape : Shape ν) (producer : List Nat → α) :
    Tensor.fromFn shape producer =
      Tensor.tryFrom shape ((allIndexes (shape.map (·.2))).map producer) := by
  unfold Tensor.fromFn; rw [shapeIndexes_eq_allIndexes]

/-- `from_fn` accepts exactly the valid shapes (unique names, lengths ≥ 1), and the element at
    every in-bounds index tuple is the producer's value for that tuple. -/
theorem fromFn_get (shape : Shape ν) (producer : List Nat → α) :
    (¬ ValidShape shape → Tensor.fromFn shape producer = none) ∧
    (ValidShape shape → ∃ t, Tensor.fromFn shape producer = some t ∧ t.shape = shape ∧
      ∀ idx, inBounds (shape.map (·.2)) idx = true → t.get idx = some (producer idx)) := by
  rw [fromFn_eq_from]
  have hlen : ((allIndexes (shape.map (·.2))).map producer).length = elements shape := by
    rw [List.length_map, allIndexes_length]; rfl
  constructor
  · intro hv
    cases h : Tensor.tryFrom shape ((allIndexes (shape.map (·.2))).map producer) with
    | none => rfl
    | some t =>
      obtain ⟨⟨_, h1, h2⟩, _⟩ := (tryFrom_eq_some_iff _ _ t).1 h
      exact absurd ⟨h1, h2⟩ hv
  · intro hv
    have ht := (tryFrom_eq_some_iff shape ((allIndexes (shape.map (·.2))).map producer) _).2
      ⟨⟨hlen, hv.1, hv.2⟩, rfl⟩
    refine ⟨_, ht, rfl, fun idx hb => ?_⟩
    have ho := offset_of_tryFrom shape _ _ ht idx (by simpa using inBounds_length _ _ hb)
    unfold Tensor.get
    rw [ho, hb]
    simp only [if_true, List.getElem?_map, allIndexes_getElem?_ravel _ idx hb, Option.map_some]

/-- `Tensor::from_scalar(v)` (and `From<T>`) is the 0-dimensional tensor `Tensor::from([], [v])`. -/
theorem fromScalar_eq_from (v : α) :
    Tensor.tryFrom ([] : Shape ν) [v] = some (Tensor.fromScalar v) := by
  rfl

example : ∃ t, Tensor.fromFn [("a", 2), ("b", 2)] (fun idx => idx) = some t ∧
    t.data = [[0, 0], [0, 1], [1, 0], [1, 1]] := ⟨_, rfl, rfl⟩
example : Tensor.fromFn [("a", 2), ("a", 2)] (fun idx => idx) = none := by decide
example : Tensor.fromFn [("a", 0)] (fun idx => idx) = none := by decide

/-! ### shape look-ups: `position_of`, `contains`, `length_of`, `last_index_of`, `is_valid` -/

/-- For a shape with unique names: `position_of` is the position of the name, `contains` says
    whether it occurs, `length_of` is the length paired with it and `last_index_of` one less;
    all are absent for a name the shape does not have. -/
theorem dim_lookup (shape : Shape ν) (n : ν) (hnd : (shape.map (·.1)).Nodup) :
    dimContains shape n = decide (n ∈ shape.map (·.1)) ∧
    dimPositionOf shape n =
      (if n ∈ shape.map (·.1) then some ((shape.map (·.1)).idxOf n) else none) ∧
    (∀ l, dimLengthOf shape n = some l ↔ (n, l) ∈ shape) ∧
    dimLastIndexOf shape n = (dimLengthOf shape n).map (· - 1) := by
  refine ⟨?_, ?_, ?_, rfl⟩
  · unfold dimContains
    rw [Bool.eq_iff_iff]
    simp [List.any_eq_true]
  · unfold dimPositionOf
    induction shape with
    | nil => simp [findPos]
    | cons d rest ih =>
      have hnd' : d.1 ∉ rest.map (·.1) ∧ (rest.map (·.1)).Nodup :=
        List.nodup_cons.1 (by rw [List.map_cons] at hnd; exact hnd)
      simp only [findPos, List.map_cons, List.mem_cons, List.idxOf_cons]
      by_cases h : d.1 = n
      · simp [h]
      · have hb : (d.1 == n) = false := by simp [h]
        have h' : ¬ n = d.1 := fun e => h e.symm
        rw [ih hnd'.2]
        by_cases hm : n ∈ rest.map (·.1) <;> simp [h, h', hm, hb]
  · intro l
    unfold dimLengthOf
    constructor
    · intro h
      cases hf : shape.find? (fun d => decide (d.1 = n)) with
      | none => simp [hf] at h
      | some d =>
        simp only [hf, Option.map_some, Option.some.injEq] at h
        have hmem := List.mem_of_find?_eq_some hf
        have hp := List.find?_some hf
        simp only [decide_eq_true_eq] at hp
        cases d with
        | mk a b => simp only at hp h; subst hp h; exact hmem
    · intro h
      have := find?_name_of_mem shape hnd (n, l) h
      simp only at this
      rw [this]; rfl

/-- `InvalidShapeError::is_valid` ⇔ unique names and lengths ≥ 1 (the element count is not part
    of it: `try_from` also returns the error for a valid shape with the wrong amount of data). -/
theorem shapeIsValid_iff (shape : Shape ν) : shapeIsValid shape = true ↔ ValidShape shape := by
  have h := validateDimensions_none_iff shape (elements shape)
  unfold validateDimensions at h
  simp only [ne_eq, not_true_eq_false, if_false, true_and] at h
  unfold shapeIsValid ValidShape
  rw [← h]
  cases hasDuplicates (shape.map (·.1)) <;> cases shape.any (·.2 == 0) <;> simp

example : dimLengthOf [("a", 2), ("b", 3)] "b" = some 3 ∧ dimLastIndexOf [("a", 2), ("b", 3)] "b" = some 2 ∧
    dimPositionOf [("a", 2), ("b", 3)] "b" = some 1 ∧ dimLengthOf [("a", 2), ("b", 3)] "c" = none := by decide

/-! ### `usize` overflow: the checked arithmetic never overflows on accepted tensors

`B` is `usize::MAX` (any bound works).  The rest of this file models lengths, products and
offsets as unbounded naturals; these theorems justify that. -/

/-- `checked_elements` returns the true product whenever it returns anything. -/
theorem checkedElements_sound (B : Nat) (shape : Shape ν) (n : Nat)
    (h : checkedElements B shape = some n) : n = elements shape := by
  have := checkedProd_some B 1 _ n h
  simpa [elements] using this

/-- The constructors' validation as it is in the code (count test
    `Some(data_len) == checked_elements(shape)`) accepts exactly what the unbounded model accepts,
    for every data length that fits in a `usize`. -/
theorem validate_checked_iff (B : Nat) (shape : Shape ν) (dataLen : Nat) (h : dataLen ≤ B) :
    validateDimensionsChecked B shape dataLen = none ↔
      (dataLen = elements shape ∧ (shape.map (·.1)).Nodup ∧ ∀ d ∈ shape, 1 ≤ d.2) := by
  rw [validateDimensionsChecked_none_iff B shape dataLen h, validateDimensions_none_iff]

/-- In particular a shape whose element count does not fit in a `usize` is rejected whatever the
    data: it can never be accepted with a wrapped-around product (defect 8 of DESIGN §8, fixed by
    `21ce61d`). -/
theorem overflowing_shape_rejected (B : Nat) (shape : Shape ν) (dataLen : Nat) (h : dataLen ≤ B)
    (hbig : B < elements shape) : validateDimensionsChecked B shape dataLen ≠ none := by
  intro hv
  have := ((validate_checked_iff B shape dataLen h).1 hv).1
  omega

/-- On an accepted tensor no multiplication in `compute_strides` overflows, and the strides are
    the unbounded model's. -/
theorem strides_no_overflow (B : Nat) (shape : Shape ν) (data : List α) (t : Tensor ν α)
    (ht : Tensor.tryFrom shape data = some t) (hB : data.length ≤ B) :
    computeStridesChecked B shape = some t.strides := by
  obtain ⟨⟨hc, _, hpos⟩, ht'⟩ := (tryFrom_eq_some_iff shape data t).1 ht
  rw [ht']
  exact computeStridesChecked_eq B shape hpos (hc ▸ hB)

/-- On an accepted tensor `get_index_direct` never overflows — for **any** index tuple, however
    large its coordinates (the bound check precedes the multiplication) — and returns the
    unbounded model's answer. -/
theorem getIndexDirect_no_overflow (B : Nat) (shape : Shape ν) (data : List α) (t : Tensor ν α)
    (ht : Tensor.tryFrom shape data = some t) (hB : data.length ≤ B) (idx : List Nat) :
    getIndexDirectChecked B idx t.strides t.shape = some (t.offset idx) := by
  obtain ⟨⟨hc, _, _⟩, ht'⟩ := (tryFrom_eq_some_iff shape data t).1 ht
  rw [ht']
  exact getIndexDirectCheckedGo_eq B shape idx 0 (by rw [Nat.zero_add, ← hc]; exact hB)

/-- Non-vacuity with an 8-bit `usize`: 16×16 = 256 elements overflows and is rejected even for
    `data_len = 0` (the wrapped product); 15×17 = 255 is accepted; a prefix overflow is reported
    even when a later zero length makes the true product 0. -/
example : validateDimensionsChecked 255 [("a", 16), ("b", 16)] 0 = some .wrongCount := by decide
example : validateDimensionsChecked 255 [("a", 15), ("b", 17)] 255 = none := by decide
example : checkedElements 255 [("a", 16), ("b", 16), ("c", 0)] = none := by decide
example : getIndexDirectChecked 255 [14, 300] (computeStrides [("a", 15), ("b", 17)]) [("a", 15), ("b", 17)] = some none := by decide

/-! ### composition with C02: a `TensorAccess` of a tensor is C02's `View.access` node -/

/-- `TensorAccess::try_from(&tensor, names)` of this model and C02's `View.mkAccess` over the
    tensor leaf are the same construction (same acceptance, same mapping tables), report the same
    shape and read the same element at every index tuple — so every C02 / C09 theorem about views
    (cell equations, injectivity, layouts, iterators over views) applies to C01's accesses, and
    C01's by-name characterisation (`access_get_eq_lookupByName`) describes C02's node. -/
theorem access_is_view [Inhabited ν] (id : Nat) (t : Tensor ν α) (names : List ν) :
    View.mkAccess (View.tensor id t) names =
      ((t.indexBy names).map fun a => View.access (View.tensor id t) a.mapping) ∧
    ∀ a, t.indexBy names = some a →
      (View.access (View.tensor id t) a.mapping).shape = a.shape ∧
      ∀ idx, (View.access (View.tensor id t) a.mapping).read idx = .ok (a.get idx) := by
  refine ⟨mkAccess_tensor id t names, fun a ha => ?_⟩
  have hsrc : a.source = t := by
    unfold Tensor.indexBy at ha
    split at ha
    · simp only [Option.some.injEq] at ha; rw [← ha]
    · simp at ha
  refine ⟨by simp [View.shape, Access.shape, hsrc], fun idx => ?_⟩
  rw [View.read_access_tensor]
  simp [Access.get, hsrc]

/-- Non-vacuity: the 3-cycle access of a 2×3×2 tensor as a C02 view. -/
example :
    ∃ t a, Tensor.tryFrom [("a", 2), ("b", 3), ("c", 2)] (List.range 12) = some t ∧
      t.indexBy ["c", "a", "b"] = some a ∧
      (View.access (View.tensor 0 t) a.mapping).read [1, 0, 2] = .ok (some 5) := by
  refine ⟨_, _, rfl, rfl, ?_⟩
  rw [View.read_access_tensor]; rfl

end EasyMl.C01
