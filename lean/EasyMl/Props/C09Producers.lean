/-
  EasyMl.Props.C09Producers — C09 over containers that are the *product of other operations*
  (producer → consumer): the iterator theorems of Props/C09.lean composed with the invariant
  theorems of the producers.

  * Tensors: any history of `Tensor::from / try_from / reshape_mut / reshape_owned / rename /
    transpose_mut / reorder_mut / map_mut(_with_index) / index_by_mut().map_mut… / set`, including
    operations that panic part way (the alphabet `Survivor.Op`, Model/Survivor.lean; invariant
    `Survivor.run_inv`, Lemmas/Survivor.lean).
  * Matrices: any history of the resizing operations of C11 (`Matrix.run`, `C11.history_refines`).

  Whatever happened before, the container's iterators follow the *current* shape: call `k` reads
  the storage cell `k` (row-major) — one step in memory per call — so no stale stride, length or
  capacity of an earlier state can show through.  (A `Vec`'s spare capacity is not part of the
  model — containers are lists —; the correspondence covers it, `prep:cap:<k>`.)

  A module of its own because it needs the lemma files of C10/C11/C13 beside the C02 bridge; it
  is the registry's `lean_module` for C09, so every C09 theorem is audited through it.
-/
import EasyMl.Props.C09Views
import EasyMl.Lemmas.Survivor
import EasyMl.Props.C11
import EasyMl.Props.C12
import EasyMl.Model.RecordContainer

namespace EasyMl.C09
open EasyMl EasyMl.Iter EasyMl.Spec EasyMl.View

set_option linter.unusedSectionVars false

variable {ν : Type} [DecidableEq ν] [Inhabited ν] {α : Type}

/-- **Tensors after any history.**  Start from a valid tensor, run any list of operations of the
    alphabet (in-place transposition, reordering, reshaping, renaming, mapping with closures that
    may panic, element writes, re-construction): the tensor that is left is a well-formed iterator
    source, and iteration over it reads storage cell `k` at call `k` for the shape it has *now*. -/
theorem tensor_iter_after_history (t : Tensor ν α) (ht : Survivor.TInv t)
    (ops : List (Survivor.Op ν α)) :
    (TSource.ofTensor (Survivor.run t ops)).WellFormed ∧
      Faithful (shapeItem ((Survivor.run t ops).shape.map (·.2)))
        (prod ((Survivor.run t ops).shape.map (·.2))) (TSource.ofTensor (Survivor.run t ops)).cell
        (fun k => k) := by
  have hi := Survivor.run_inv t ht ops
  have htf := (Survivor.tinv_iff_tryFrom _).1 hi
  exact ⟨ofTensor_wellFormed _ _ _ htf, (tensor_faithful _ _ _ htf).2⟩

/-- The two in-place reorderings on their own: the result of `transpose_mut` / `reorder_mut` on a
    valid tensor is iterated in the order of its new shape, storage cell `k` at call `k`. -/
theorem tensor_iter_after_reorder (t : Tensor ν α) (ht : Survivor.TInv t) (names : List ν)
    (t' : Tensor ν α) (h : t.reorderMut names = .ok t' ∨ t.transposeMut names = .ok t') :
    Faithful (shapeItem (t'.shape.map (·.2))) (prod (t'.shape.map (·.2)))
      (TSource.ofTensor t').cell (fun k => k) := by
  have hi : Survivor.TInv t' := by
    rcases h with h | h
    · exact Survivor.reorderMut_inv t ht names t' h
    · exact Survivor.transposeMut_inv t ht names t' h
  exact (tensor_faithful _ _ _ ((Survivor.tinv_iff_tryFrom _).1 hi)).2

/-- non-vacuity: a 2×3 tensor transposed in place -/
example : ∃ t t' : Tensor String Nat,
    Tensor.tryFrom [("a", 2), ("b", 3)] (List.range 6) = some t ∧
      t.transposeMut ["b", "a"] = .ok t' ∧ t'.shape = [("a", 3), ("b", 2)] ∧
      t'.data = [0, 3, 1, 4, 2, 5] :=
  ⟨_, _, rfl, rfl, rfl, rfl⟩

/-- **Every matrix that satisfies the container invariant** (`data.len() == rows * columns`):
    both whole-matrix iterators hand out exactly its storage cells — row-major cell `k` at call
    `k`, column-major `k / rows + (k % rows)·columns` — each below the stored length, none twice. -/
theorem matrix_iter_of_inv (m : Matrix α) (hlen : m.data.length = m.rows * m.columns) :
    Faithful (rowMajorItem m.rows m.columns) (m.rows * m.columns)
        (MSource.ofMatrix m.rows m.columns).cell (fun k => k) ∧
      Faithful (colMajorItem m.rows m.columns) (m.rows * m.columns)
        (MSource.ofMatrix m.rows m.columns).cell
        (fun k => k / m.rows + (k % m.rows) * m.columns) ∧
      (∀ k, k < m.rows * m.columns → k < m.data.length ∧
        k / m.rows + (k % m.rows) * m.columns < m.data.length) := by
  refine ⟨(matrix_faithful _ _).1, (matrix_faithful _ _).2, ?_⟩
  intro k hk
  have hr : 0 < m.rows := Nat.pos_of_ne_zero fun h0 => by rw [h0] at hk; simp at hk
  have hdiv : k / m.rows < m.columns :=
    (Nat.div_lt_iff_lt_mul hr).mpr (by rw [Nat.mul_comm]; exact hk)
  have hmod := Nat.mod_lt k hr
  have h1 : (k % m.rows + 1) * m.columns ≤ m.rows * m.columns := Nat.mul_le_mul_right _ hmod
  rw [Nat.add_mul, Nat.one_mul] at h1
  rw [hlen]
  exact ⟨hk, by omega⟩

example : (⟨[5, 6, 7, 8, 9, 10], 2, 3⟩ : Matrix Nat).data.length = 2 * 3 := rfl

/-- **Matrices after any history** of removals, insertions, retentions, transpositions, writes
    (C11's alphabet, including operations that are refused): the matrix that is left satisfies
    the invariant, hence `matrix_iter_of_inv` applies to it. -/
theorem matrix_iter_after_history (m : Matrix α) (h : m.Inv) (ops : List (Matrix.Op α)) :
    (m.run ops).data.length = (m.run ops).rows * (m.run ops).columns ∧
      Faithful (rowMajorItem (m.run ops).rows (m.run ops).columns)
        ((m.run ops).rows * (m.run ops).columns)
        (MSource.ofMatrix (m.run ops).rows (m.run ops).columns).cell (fun k => k) ∧
      Faithful (colMajorItem (m.run ops).rows (m.run ops).columns)
        ((m.run ops).rows * (m.run ops).columns)
        (MSource.ofMatrix (m.run ops).rows (m.run ops).columns).cell
        (fun k => k / (m.run ops).rows + (k % (m.run ops).rows) * (m.run ops).columns) :=
  let hi := (C11.history_never_empty m h ops).2.2
  ⟨hi, (matrix_iter_of_inv _ hi).1, (matrix_iter_of_inv _ hi).2.1⟩

/-! ## `map_mut` as mutable iteration -/

/-- **`Tensor::map_mut` is the mutable iterator writing `g(old)`**, including a closure that
    panics: after `p` calls of the writing mutable iterator over a valid tensor the storage, read
    in order, is exactly what `map_mut` leaves behind when its closure panics at call `p`
    (`Survivor.mapMut t g (some p)`: the closure's results in the first `p` cells *in iteration
    order*, the old contents from there on; the complete map when `p ≥ len`). -/
theorem tensor_mut_write_eq_mapMut (t : Tensor ν α) (ht : Survivor.TInv t) (g : α → α)
    (mem0 : Nat → α) (hmem : t.data = (List.range t.data.length).map mem0) (p : Nat) :
    ∃ cells st mem',
      collect (writeNext shapeNext (TSource.ofTensor t).cell g) p
          (ShapeIter.new (t.shape.map (·.2)), mem0) = .ok (cells, (st, mem')) ∧
      (List.range t.data.length).map mem' = (Survivor.mapMut t g (some p)).state.data := by
  have htf := (Survivor.tinv_iff_tryFrom t).1 ht
  have F := (tensor_faithful t.shape t.data t htf).2
  have hlen : prod (t.shape.map (·.2)) = t.data.length := by rw [ht.1]; rfl
  have h := mut_writes_eq_map (shape_enumerates (t.shape.map (·.2))) F mem0 g p
  refine ⟨_, _, _, h, ?_⟩
  have hm := Survivor.mapLoop_eq g p t.data 0
  rw [Nat.zero_add] at hm
  simp only [Survivor.mapMut, hm]
  rw [hlen]
  -- both sides are "g on the cells before p, the old value from p on"
  have hL : (List.range t.data.length).map
      (fun c => if c ∈ (List.range (min p t.data.length)).map (fun k => k) then g (mem0 c)
        else mem0 c) =
      (List.range t.data.length).map (fun i => if i < p then g (mem0 i) else mem0 i) := by
    apply List.map_congr_left
    intro c hc
    have hc' := List.mem_range.mp hc
    have : (c ∈ (List.range (min p t.data.length)).map (fun k => k)) ↔ c < p := by
      simp only [List.map_id', List.mem_range]; omega
    simp only [this]
  rw [hL]
  by_cases hp : p < t.data.length
  · simp only [hp, if_true]
    conv => rhs; rw [hmem]
    exact (take_map_append_drop mem0 g t.data.length p).symm
  · simp only [hp, if_false]
    conv => rhs; rw [hmem]
    rw [List.map_map]
    apply List.map_congr_left
    intro c hc
    have hc' := List.mem_range.mp hc
    have : c < p := by omega
    simp [this]

/-- non-vacuity: a valid 2×2 tensor whose data are read off a memory -/
example : ∃ t : Tensor String Nat, Survivor.TInv t ∧
    t.data = (List.range t.data.length).map (fun c => c + 5) :=
  ⟨⟨[5, 6, 7, 8], [("a", 2), ("b", 2)], [2, 1]⟩, ⟨rfl, by decide, by decide, rfl⟩, rfl⟩

/-! ## `AsRecords` -/

/-- **`AsRecords` yields the records of the container's cells in iteration order** — the link to
    C06's container model: for any enumerating iterator over the `(number, index)` elements of a
    record container `c` (`TensorIterator` / `RowMajorIterator` over it), the items of the
    `AsRecords` iterator (`mapNext`), call by call until exhaustion, are exactly `c.toRecs`
    (Model/RecordContainer.lean: `Record::from_existing(number, history)` per element). -/
theorem asRecords_items_eq_toRecs {σ R : Type} (c : Cont R)
    {next : σ → Outcome (Option (R × Nat) × σ)} {s0 : σ} {item : Nat → Option (R × Nat)}
    {state : Nat → σ} (E : Enumerates next s0 c.elems.length item state)
    (hitem : ∀ k, item k = c.elems[k]?) :
    ∃ st, drain (mapNext (fun e : R × Nat => (⟨e.1, c.history, e.2⟩ : Rec R)) next)
        (c.elems.length + 1) s0 = .ok (c.toRecs, st) := by
  have E' := E.map (fun e : R × Nat => (⟨e.1, c.history, e.2⟩ : Rec R))
  obtain ⟨h1, _⟩ := consumers_drain E' 0 (c.elems.length + 1) (by omega)
  rw [E'.start] at h1
  refine ⟨state (0 + (c.elems.length - 0 + 1)), ?_⟩
  rw [h1]
  congr 2
  have := filterMap_range'_getElem?_map
    (fun e : R × Nat => (⟨e.1, c.history, e.2⟩ : Rec R)) c.elems []
  simp only [List.length_nil, List.nil_append] at this
  simp only [Nat.sub_zero, Cont.toRecs, hitem]
  exact this

/-! ## Every source the harness (or a user of the safe API) can construct is well formed -/

/-- The tensor sources of the C09 workload, as a grammar — "constructible with adaptor nesting
    depth at most `n`": a leaf `Tensor` that satisfies the container invariant (in particular
    after any history of in-place operations, `tensor_iter_after_history`), under any nesting of
    the adaptors' constructors, stacked or chained with others. -/
def ConstructibleN : Nat → View ν α → Prop
  | 0, v => ∃ id t, v = .tensor id t ∧ Survivor.TInv t ∧ t.data.length ≤ usizeMax
  | n + 1, v =>
    ConstructibleN n v ∨
    (∃ s, ConstructibleN n s ∧
      ((∃ rs, mkRange s rs = some v) ∨ (∃ ms, mkMask s ms = some v) ∨ (∃ p, mkIndex s p = some v) ∨
       (∃ e, mkExpansion s e = some v) ∨ (∃ ns, mkRename s ns = some v) ∨
       (∃ ns, mkReverse s ns = some v) ∨ (∃ ns, mkAccess s ns = some v) ∨
       (∃ ns, mkTranspose s ns = some v))) ∨
    (∃ ss, (∀ s ∈ ss, ConstructibleN n s) ∧
      ((∃ along, ss.length ≤ usizeMax ∧ mkStack ss along = some v) ∨
       (∃ along, (∀ a, (chainLens (shapes ss) a).sum ≤ usizeMax) ∧ mkChain ss along = some v)))

/-- a tensor source the safe API can construct -/
def Constructible (v : View ν α) : Prop := ∃ n, ConstructibleN n v

theorem ConstructibleN.wf : ∀ (n : Nat) (v : View ν α), ConstructibleN n v → v.WF
  | 0, v, h => by
    obtain ⟨id, t, rfl, ht, hfit⟩ := h
    simp only [View.WF]
    exact ⟨⟨ht.2.1, ht.2.2.1⟩, ht.2.2.2, ht.1, hfit⟩
  | n + 1, v, h => by
    have C := C02.constructors_establish_wf (ν := ν) (α := α)
    rcases h with h | ⟨s, hs, h⟩ | ⟨ss, hs, h⟩
    · exact ConstructibleN.wf n v h
    · have hw := ConstructibleN.wf n s hs
      obtain ⟨_, _, h3, _, _, _, h7, _, _, _, h11, h12, h13, h14, h15, h16⟩ := C.2.2.2.1 s v hw
      rcases h with ⟨x, h⟩ | ⟨x, h⟩ | ⟨x, h⟩ | ⟨x, h⟩ | ⟨x, h⟩ | ⟨x, h⟩ | ⟨x, h⟩ | ⟨x, h⟩
      · exact h3 x h
      · exact h7 x h
      · exact h11 x h
      · exact h12 x h
      · exact h13 x h
      · exact h14 x h
      · exact h15 x h
      · exact h16 x h
    · have hw : ∀ s ∈ ss, s.WF := fun s hm => ConstructibleN.wf n s (hs s hm)
      obtain ⟨hst, hch⟩ := C.2.2.2.2.1 ss v hw
      rcases h with ⟨along, hn, h⟩ | ⟨along, hsum, h⟩
      · exact hst along hn h
      · exact hch along hsum h

/-- the matrix sources of the workload: a `Matrix` of any size (the size is all the iterators
    see; after any history by `matrix_iter_after_history`), under any nesting of `MatrixRange`
    (clipped, possibly empty) and `MatrixReverse` -/
inductive ConstructibleM : MSource Nat → Prop
  | leaf (rows columns : Nat) : ConstructibleM (MSource.ofMatrix rows columns)
  | range (src : MSource Nat) (h : ConstructibleM src) (rs rl cs cl : Nat) :
      ConstructibleM (src.range rs rl cs cl)
  | reverse (src : MSource Nat) (h : ConstructibleM src) (r c : Bool) :
      ConstructibleM (src.reverse r c)

/-- **Every source the workload (or any user of the safe API) can construct is a well-formed
    iterator source** — so `mut_items_distinct`, `owned_moves_once`, `copy_kth`, `withIndex_kth`,
    `mut_writes_eq_map`, `*_len_eq_count` can be read without a hypothesis on the source:
    (1) tensor sources: any nesting of `TensorRange/Mask/Index/Expansion/Rename/Reverse/Access/
    Transpose`, `TensorStack`, `TensorChain` over leaves that satisfy the container invariant,
    with distinct leaves;
    (2) such leaves are what any history of in-place operations leaves behind;
    (3) matrix sources: `Matrix`, `MatrixRange`, `MatrixReverse` nestings, empty views included;
    (4) C12's view stacks (partitions, maps, tensor round trips) over matrices. -/
theorem every_constructible_source_wellFormed :
    (∀ v : View ν α, Constructible v → v.leafIds.Nodup → (TSource.ofView v).WellFormed) ∧
    (∀ (t : Tensor ν α) (ops : List (Survivor.Op ν α)) (id : Nat), Survivor.TInv t →
      (Survivor.run t ops).data.length ≤ usizeMax →
      Constructible (View.tensor id (Survivor.run t ops))) ∧
    (∀ src : MSource Nat, ConstructibleM src → src.WellFormed) ∧
    (∀ e : MatrixView.MExpr, e.LeavesOk → e.msource.WellFormed) := by
  refine ⟨?_, ?_, ?_, ?_⟩
  · rintro v ⟨n, hn⟩ hnd
    exact view_source_wellFormed v (ConstructibleN.wf n v hn) hnd
  · intro t ops id ht hfit
    exact ⟨0, id, _, rfl, Survivor.run_inv t ht ops, hfit⟩
  · intro src h
    induction h with
    | leaf rows columns => exact ofMatrix_wellFormed rows columns
    | range src _ rs rl cs cl ih => exact range_wellFormed src ih rs rl cs cl
    | reverse src _ r c ih => exact reverse_wellFormed src ih r c
  · intro e hle
    exact (C12.view_stack_is_iterator_source e hle).1

/-- non-vacuity: a chain of two tensors under a reverse is constructible (depth 2) -/
example : Constructible
    (View.reverse (View.chain [View.tensor 0 ⟨[0, 1], [("a", 2)], [1]⟩,
      View.tensor 1 ⟨[0], [("a", 1)], [1]⟩] 0) [true] : View String Nat) := by
  refine ⟨2, Or.inr (Or.inl ⟨View.chain [View.tensor 0 ⟨[0, 1], [("a", 2)], [1]⟩,
    View.tensor 1 ⟨[0], [("a", 1)], [1]⟩] 0, ?_, Or.inr (Or.inr (Or.inr (Or.inr (Or.inr
      (Or.inl ⟨["a"], rfl⟩)))))⟩)⟩
  refine Or.inr (Or.inr ⟨[View.tensor 0 ⟨[0, 1], [("a", 2)], [1]⟩,
    View.tensor 1 ⟨[0], [("a", 1)], [1]⟩], ?_, Or.inr ⟨"a", ?_, rfl⟩⟩)
  · intro s hs
    simp only [List.mem_cons, List.mem_nil_iff, or_false] at hs
    rcases hs with rfl | rfl
    · exact ⟨0, _, rfl, ⟨rfl, by decide, by decide, rfl⟩, by decide⟩
    · exact ⟨1, _, rfl, ⟨rfl, by decide, by decide, rfl⟩, by decide⟩
  · intro a
    cases a with
    | zero => decide
    | succ a => simp [chainLens, View.shapes, View.shape, usizeMax]

end EasyMl.C09
