/-
  EasyMl.Props.C16 — property theorems for C16 (fallible APIs are total).

  Only property statements (and their non-vacuity examples) live here; helper lemmas are in
  EasyMl/Lemmas/Fallible*.lean.  Every theorem is about the definitions of
  EasyMl/Model/Fallible.lean and EasyMl/Model/MatrixView.lean that the `emlmodel` driver executes
  against the implementation (the repaired code, `Arith.fixed`; fixes/D-04 … D-09).  Coordinates,
  starts, lengths and data lengths range over *all* natural numbers `≤ usize::MAX` (most
  statements do not even need the bound), name lists and shapes are arbitrary.

  For the code at the pinned commit (`Arith.pre`, `qrShapePre`) the `pre_*` theorems exhibit the
  concrete inputs on which it panics — the theorems below are false for it.
-/
import EasyMl.Lemmas.FallibleAccess
import EasyMl.Lemmas.FallibleMatrix
import EasyMl.Lemmas.FallibleZip
import EasyMl.Lemmas.FallibleExpansion
import EasyMl.Lemmas.FallibleRange
import EasyMl.Lemmas.FallibleNamed
import EasyMl.Lemmas.PartViews
import EasyMl.Lemmas.FixConservative
import EasyMl.Lemmas.FallibleSurface
import EasyMl.Lemmas.MatrixViewEval
import EasyMl.Lemmas.Numeric

namespace EasyMl.C16
open EasyMl EasyMl.Spec EasyMl.Fallible EasyMl.MatrixView

set_option linter.unusedSectionVars false
set_option linter.unusedVariables false

variable {ν : Type} [DecidableEq ν]

/-! ## 1. Arithmetic: clipping (lenient_clips) and the pinned code's panics -/

/-- **lenient_clips, arithmetic core.**  For every `usize` start, length and bound the repaired
    `IndexRange::clip` leaves the start alone and sets `length = min(start + length, max) − start`
    (computed without overflow: the model has no panic path), after which the range lies inside
    the dimension. -/
theorem clip_eq_min (r : IndexRange) (max : Nat) (hmax : max ≤ usizeMax) :
    (r.clip max).start = r.start ∧
    (r.clip max).length = min (r.start + r.length) max - r.start ∧
    ((r.clip max).length = 0 ∨ (r.clip max).start + (r.clip max).length ≤ max) :=
  ⟨rfl, IndexRange.clip_length r max hmax, IndexRange.clip_clipped r max hmax⟩

/-- `IndexRange::map` on a clipped range never overflows, for every coordinate. -/
theorem map_total (r : IndexRange) (max : Nat) (hmax : max ≤ usizeMax) (i : Nat) :
    (r.clip max).map i =
      .ok (if i < (r.clip max).length then some (i + r.start) else none) :=
  IndexRange.map_clip_eq r max hmax i

/-- D-06: the pinned `clip` panics on `IndexRange::new(1, usize::MAX)`. -/
theorem pre_clip_panics : IndexRange.clipPre ⟨1, usizeMax⟩ 2 = .panic .overflow := by decide

/-- D-07: the pinned `range_exceeds_bounds` panics on the same range. -/
theorem pre_exceeds_panics :
    rangeExceedsBounds (ν := String) Arith.pre [("a", 2)] [some ⟨1, usizeMax⟩] = .panic .overflow := by
  decide

/-- D-05: the pinned `TensorMask` checked getter panics at coordinate `usize::MAX`. -/
theorem pre_mask_getter_panics :
    mapIndexesByMask Arith.pre [⟨0, 1⟩] [usizeMax] = .panic .overflow := by decide

/-- D-04: the pinned `TensorReverse` checked getter panics one past the end. -/
theorem pre_reverse_getter_panics :
    reverseIndexes (ν := String) Arith.pre [1] [("a", 1)] [true] = .panic .overflow := by decide

/-- D-08: the pinned `Tensor::try_from` panics on `[("a", usize::MAX), ("b", 2)]`. -/
theorem pre_tryFrom_panics :
    (tensorTryFrom (ν := String) Arith.pre [("a", usizeMax), ("b", 2)] 0).isOk = false := by decide

/-- D-09: the pinned QR decomposition panics on a 1×1 matrix. -/
theorem pre_qr_panics : qrShapePre 1 1 = .panic .unwrap := by decide

/-! ## 2. `Tensor::try_from`, `InvalidShapeError::is_valid` -/

/-- `Tensor::try_from` returns normally for every shape (lengths of any size) and every `usize`
    data length. -/
theorem tensorTryFrom_total (shape : Shape ν) (n : Nat) (hn : n ≤ usizeMax) :
    ∃ r, tensorTryFrom Arith.fixed shape n = .ok r := by
  rw [tensorTryFrom_fixed_eq shape n hn]; split <;> exact ⟨_, rfl⟩

/-- **err_iff_invalid.**  It answers `Err` exactly when the input is invalid: the element count
    (the mathematical product, however large) differs from the data length, a name is repeated,
    or a length is zero. -/
theorem tensorTryFrom_err_iff_invalid (shape : Shape ν) (n : Nat) (hn : n ≤ usizeMax) :
    (∃ e, tensorTryFrom Arith.fixed shape n = .ok (.error e)) ↔
      ¬ (n = elements shape ∧ (shape.map (·.1)).Nodup ∧ ∀ d ∈ shape, 1 ≤ d.2) := by
  rw [tensorTryFrom_fixed_eq shape n hn, ← isValidShape_iff]
  by_cases hc : n = elements shape ∧ isValidShape shape = true
  · rw [if_pos hc]
    constructor
    · rintro ⟨e, he⟩; simp at he
    · intro h; exact absurd hc h
  · rw [if_neg hc]
    constructor
    · intro _; exact hc
    · intro _; exact ⟨shape, rfl⟩

/-- **error_payload_eq.**  The error carries the requested shape; success keeps shape and data
    and has row-major strides (so C01's addressing theorems apply to it). -/
theorem tensorTryFrom_payload (shape : Shape ν) (n : Nat) (hn : n ≤ usizeMax) :
    (∀ e, tensorTryFrom Arith.fixed shape n = .ok (.error e) → e = shape) ∧
    (∀ t, tensorTryFrom Arith.fixed shape n = .ok (.ok t) →
      t = { dataLen := n, shape := shape, strides := computeStrides shape }) := by
  rw [tensorTryFrom_fixed_eq shape n hn]
  constructor
  · intro e h; split at h <;> simp at h; exact h.symm
  · intro t h; split at h <;> simp at h; exact h.symm

/-- `InvalidShapeError::is_valid` is `true` exactly for unique names and non-zero lengths. -/
theorem isValid_iff (shape : Shape ν) :
    isValidShape shape = true ↔ (shape.map (·.1)).Nodup ∧ ∀ d ∈ shape, 1 ≤ d.2 :=
  isValidShape_iff shape

/-- Non-vacuity: a valid and an overflowing request. -/
example : tensorTryFrom (ν := String) Arith.fixed [("a", 2), ("b", 3)] 6 =
    .ok (.ok { dataLen := 6, shape := [("a", 2), ("b", 3)], strides := [3, 1] }) := by rfl
example : tensorTryFrom (ν := String) Arith.fixed [("a", usizeMax), ("b", 2)] 0 =
    .ok (.error [("a", usizeMax), ("b", 2)]) := by rfl

/-- Non-vacuity of the hypothesis `src.WF` used from here on: the 2×3 tensor above. -/
example : (TView.ofTensor (ν := String) { dataLen := 6, shape := [("a", 2), ("b", 3)], strides := [3, 1] }).WF :=
  ofTensor_wf (n := 6) (shape := [("a", 2), ("b", 3)]) (by decide) (by rfl)

/-! ## 3. `TensorAccess::try_from`, `TensorTranspose::try_from` -/

/-- For every list of names: never a panic (no table entry indexes out of range); `Ok` — and
    then the view is total — exactly when the names are a permutation of the source's; otherwise
    `Err` carrying the source's shape and the requested names. -/
theorem accessTryFrom_total_err_iff [Inhabited ν] (src : TView ν) (hsrc : src.WF) (dimensions : List ν) :
    (∃ v, accessTryFrom src dimensions = .ok (.ok v) ∧ v.WF ∧
        dimensions.Perm (src.shape.map (·.1))) ∨
    (accessTryFrom src dimensions =
        .ok (.error { actual := src.shape, requested := dimensions }) ∧
      ¬ dimensions.Perm (src.shape.map (·.1))) :=
  accessTryFrom_spec src hsrc dimensions

theorem transposeTryFrom_total_err_iff [Inhabited ν] (src : TView ν) (hsrc : src.WF)
    (dimensions : List ν) :
    (∃ v, transposeTryFrom src dimensions = .ok (.ok v) ∧ v.WF ∧
        v.shape.map (·.1) = src.shape.map (·.1) ∧ dimensions.Perm (src.shape.map (·.1))) ∨
    (transposeTryFrom src dimensions =
        .ok (.error { actual := src.shape, requested := dimensions }) ∧
      ¬ dimensions.Perm (src.shape.map (·.1))) :=
  transposeTryFrom_spec src hsrc dimensions

/-! ## 4. `TensorRange` / `TensorMask` constructors -/

/-- **lenient_clips.**  `TensorRange::from_all` over a total source, for every `usize` start and
    length: never a panic; it succeeds exactly when every dimension keeps at least one index
    (`min(start + length, len) − start ≥ 1`, `None` keeping everything); the view is total and its
    lengths are those clipped lengths; otherwise `Err(InvalidShape)` carries the clipped shape. -/
theorem rangeFromAll_lenient_clips (src : TView ν) (hsrc : src.WF)
    (ranges : List (Option IndexRange)) (hlen : ranges.length = src.shape.length) :
    (∃ v, rangeFromAll Arith.fixed src ranges = .ok (.ok v) ∧ v.WF ∧
        v.shape.map (·.2) =
          List.zipWith (fun d r => keptByRange d.2 r) src.shape (defaultRanges src.shape ranges) ∧
        ∀ l ∈ List.zipWith (fun d r => keptByRange d.2 r) src.shape (defaultRanges src.shape ranges),
          1 ≤ l) ∨
    (rangeFromAll Arith.fixed src ranges =
        .ok (.error (.invalidShape (rangeShape src.shape (defaultRanges src.shape ranges)))) ∧
      ¬ ∀ l ∈ List.zipWith (fun d r => keptByRange d.2 r) src.shape (defaultRanges src.shape ranges),
          1 ≤ l) := by
  rcases rangeFromAll_spec src hsrc ranges hlen with ⟨v, h1, h2, h3, h4⟩ | h
  · left
    exact ⟨v, h1, h2, by rw [h3, rangeShape_lens _ (ushape_le hsrc.1)], h4⟩
  · right; exact h

/-- The same for `TensorMask::from_all`: a dimension keeps `len − min(start + length, len) + start`. -/
theorem maskFromAll_lenient_clips (src : TView ν) (hsrc : src.WF)
    (masks : List (Option IndexRange)) (hlen : masks.length = src.shape.length) :
    (∃ v, maskFromAll Arith.fixed src masks = .ok (.ok v) ∧ v.WF ∧
        v.shape.map (·.2) =
          List.zipWith (fun d r => d.2 - keptByRange d.2 r) src.shape (defaultMasks masks) ∧
        ∀ l ∈ List.zipWith (fun d r => d.2 - keptByRange d.2 r) src.shape (defaultMasks masks),
          1 ≤ l) ∨
    (maskFromAll Arith.fixed src masks =
        .ok (.error (.invalidShape (maskShape src.shape (defaultMasks masks)))) ∧
      ¬ ∀ l ∈ List.zipWith (fun d r => d.2 - keptByRange d.2 r) src.shape (defaultMasks masks),
          1 ≤ l) := by
  rcases maskFromAll_spec src hsrc masks hlen with ⟨v, h1, h2, h3, h4⟩ | h
  · left
    exact ⟨v, h1, h2, by rw [h3, maskShape_lens _ (ushape_le hsrc.1)], h4⟩
  · right; exact h

/-- The strict constructors answer `Err(OutsideShape { shape, index_range })` — with the
    source's shape and the ranges as given — exactly when some range ends beyond its dimension
    (`start + length > len` as natural numbers, even when the sum is not a `usize`), and
    otherwise behave like the lenient ones. -/
theorem strict_err_iff (src : TView ν) (hsrc : src.WF) (ranges : List (Option IndexRange)) :
    rangeFromAllStrict Arith.fixed src ranges =
      (if exceedsAny src.shape ranges = true then .ok (.error (.outsideShape src.shape ranges))
       else rangeFromAll Arith.fixed src ranges) ∧
    maskFromAllStrict Arith.fixed src ranges =
      (if exceedsAny src.shape ranges = true then .ok (.error (.outsideShape src.shape ranges))
       else maskFromAll Arith.fixed src ranges) :=
  ⟨rangeFromAllStrict_fixed_eq src ranges (ushape_le hsrc.1),
   maskFromAllStrict_fixed_eq src ranges (ushape_le hsrc.1)⟩

/-- `from_named_to_all`, for every list of (name, range) pairs: it fails exactly when a name is
    repeated or not a dimension of the source, with `InvalidDimensions { provided, valid }`. -/
theorem named_err_iff (shape : Shape ν) (ranges : List (ν × IndexRange)) :
    (∃ all, fromNamedToAll shape ranges = .ok (.ok all) ∧ all.length = shape.length ∧
        (ranges.map (·.1)).Nodup ∧ ∀ p ∈ ranges, p.1 ∈ shape.map (·.1)) ∨
    (fromNamedToAll shape ranges =
        .ok (.error (.invalidDimensions (ranges.map (·.1)) (shape.map (·.1)))) ∧
      (¬ (ranges.map (·.1)).Nodup ∨ ∃ p ∈ ranges, p.1 ∉ shape.map (·.1))) :=
  fromNamedToAll_spec shape ranges

/-- All eight constructors return normally on every input — in particular the `panic!` arm of
    `from_strict` is unreachable — and every view they build is total. -/
theorem range_mask_constructors_total (src : TView ν) (hsrc : src.WF)
    (named : List (ν × IndexRange)) (all : List (Option IndexRange))
    (hlen : all.length = src.shape.length) :
    GoodAnswer (rangeFrom Arith.fixed src named) ∧ GoodAnswer (maskFrom Arith.fixed src named) ∧
    GoodAnswer (rangeFromStrict Arith.fixed src named) ∧
    GoodAnswer (maskFromStrict Arith.fixed src named) ∧
    GoodAnswer (rangeFromAll Arith.fixed src all) ∧ GoodAnswer (maskFromAll Arith.fixed src all) ∧
    GoodAnswer (rangeFromAllStrict Arith.fixed src all) ∧
    GoodAnswer (maskFromAllStrict Arith.fixed src all) := by
  obtain ⟨h1, h2, h3, h4⟩ := named_good src hsrc named
  exact ⟨h1, h2, h3, h4, rangeFromAll_good src hsrc all hlen, maskFromAll_good src hsrc all hlen,
    rangeFromAllStrict_good src hsrc all hlen, maskFromAllStrict_good src hsrc all hlen⟩

/-- Non-vacuity: the witness of D-06 is clipped to one row, that of D-07 is reported. -/
example :
    (match rangeFromAll (ν := String) Arith.fixed
        (TView.ofTensor { dataLen := 2, shape := [("a", 2)], strides := [1] }) [some ⟨1, usizeMax⟩] with
     | .ok (.ok v) => v.shape
     | _ => []) = [("a", 1)] ∧
    rangeExceedsBounds (ν := String) Arith.fixed [("a", 2)] [some ⟨1, usizeMax⟩] = .ok true :=
  ⟨by rfl, by decide⟩

/-! ## 5. Checked getters: every adaptor is total over a total source -/

/-- The checked getter of a `Tensor` accepted by `try_from`: for every coordinate tuple it
    returns normally, `Some` exactly inside the shape (no overflow in `index * stride`). -/
theorem tensor_get_total {shape : Shape ν} {n : Nat} {t : TensorMeta ν} (hn : n ≤ usizeMax)
    (h : tensorTryFrom Arith.fixed shape n = .ok (.ok t)) : (TView.ofTensor t).WF :=
  ofTensor_wf hn h

/-- `TensorReverse` (D-04 repaired), for every subset of names. -/
theorem reverse_get_total (src : TView ν) (hsrc : src.WF) (dimensions : List ν) :
    (src.reverse Arith.fixed dimensions).WF :=
  ⟨hsrc.1, reverse_total src hsrc dimensions⟩

/-- `TensorRename`. -/
theorem rename_get_total (src : TView ν) (hsrc : src.WF) (dimensions : List ν)
    (hl : dimensions.length = src.shape.length) (hn : dimensions.Nodup) :
    (src.rename dimensions).WF := by
  refine ⟨⟨?_, ?_⟩, rename_total src hsrc dimensions hl⟩
  · simp only [TView.rename]; rw [rename_names _ _ hl]; exact hn
  · intro d hd
    have hmem : d.2 ∈ src.shape.map (·.2) := by
      rw [← rename_lens src.shape dimensions hl]
      exact List.mem_map_of_mem (f := fun x : ν × Nat => x.2) hd
    simp only [List.mem_map] at hmem
    obtain ⟨e, he, heq⟩ := hmem
    rw [← heq]; exact hsrc.1.2 e he

/-- `TensorIndex`: the `unwrap` in its checked getter cannot fail. -/
theorem index_get_total (src : TView ν) (hsrc : src.WF) (provided : List (ν × Nat))
    (hvalid : ∀ d ∈ src.shape, ∀ p ∈ provided, p.1 = d.1 → p.2 < d.2) :
    (src.index provided).WF :=
  index_wf src hsrc provided hvalid

/-- `TensorExpansion`: neither loop indexes out of range. -/
theorem expansion_get_total (src : TView ν) (hsrc : src.WF) (extra : List (Nat × ν))
    (hpos : ∀ e ∈ extra, e.1 ≤ src.shape.length)
    (hnames : (src.shape.map (·.1) ++ extra.map (·.2)).Nodup) :
    ∃ v, src.expansion extra = .ok v ∧ v.WF ∧
      v.shape.Perm (src.shape ++ extra.map fun e => (e.2, 1)) :=
  expansion_wf src hsrc extra hpos hnames

/-- `TensorStack`. -/
theorem stack_get_total (sources : List (TView ν)) (along : Nat × ν) (shape : Shape ν)
    (hne : sources ≠ []) (hN : sources.length ≤ usizeMax)
    (hsrc : ∀ s ∈ sources, s.WF ∧ s.shape = shape)
    (halong : along.1 ≤ shape.length) (hname : along.2 ∉ shape.map (·.1)) :
    (TView.stack sources along).WF :=
  (stack_wf sources along shape hne hN hsrc halong hname).1

/-- `TensorChain`: the subtraction loop never underflows. -/
theorem chain_get_total (first : TView ν) (rest : List (TView ν)) (k : Nat)
    (hk : k < first.shape.length)
    (hsrc : ∀ s ∈ first :: rest, s.WF ∧ s.shape.length = first.shape.length ∧
      s.shape.map (·.1) = first.shape.map (·.1) ∧
      (s.shape.map (·.2)).set k 1 = (first.shape.map (·.2)).set k 1)
    (htotal : ((first :: rest).map (chainLen k)).sum ≤ usizeMax) :
    ∃ v, TView.chain (first :: rest) k = .ok v ∧ v.WF :=
  let ⟨v, h1, h2, _⟩ := chain_wf (first :: rest) k first rest rfl hk hsrc htotal
  ⟨v, h1, h2⟩

/-- The checked getters of a `Matrix`. -/
theorem matrix_get_total (m : MatrixMeta) (h : m.Inv) : (MView.ofMatrix m).WF :=
  matrix_total m h

/-- `MatrixRange::from` (D-06 repaired) never panics, clips to the source, and is total —
    including empty and fully out-of-range requests. -/
theorem mrange_get_total (src : MView) (hsrc : src.WF) (rows columns : IndexRange) :
    ∃ v, MView.range Arith.fixed src rows columns = .ok v ∧ v.WF ∧
      v.rows = min (rows.start + rows.length) src.rows - rows.start ∧
      v.columns = min (columns.start + columns.length) src.columns - columns.start :=
  mrange_total src hsrc rows columns

/-- `MatrixReverse` (D-04 repaired), also over an empty source. -/
theorem mreverse_get_total (src : MView) (hsrc : src.WF) (rows columns : Bool) :
    (src.reverse Arith.fixed rows columns).WF :=
  mreverse_total src hsrc rows columns

/-- `MatrixPart` with rectangular row slices. -/
theorem mpart_get_total (p : MatrixPart) (h : p.Rect) : (MView.ofPart p).Total :=
  mpart_total p h

/-- … and **every part `Matrix::partition` hands out is one**: for every matrix and every pair of
    boundary lists the call accepts, each part has rectangular row slices, so its checked getters
    are total (`Some` ⇔ inside its size, never a panic) and it is a legitimate source of further
    views (`MBuilt`). -/
theorem partition_parts_get_total (m : MatrixMeta) (hm : m.Inv) (rp cp : List Nat)
    (parts : List MatrixPart) (h : partition m rp cp = .ok parts) :
    ∀ p ∈ parts, p.Rect ∧ (MView.ofPart p).WF ∧ MBuilt (ν := ν) (MView.ofPart p) := by
  intro p hp
  obtain ⟨hrect, hr, hc⟩ := partition_parts_rect m hm rp cp parts h p hp
  obtain ⟨hd, h1, h2, hb⟩ := hm
  have hR : m.rows ≤ usizeMax := by
    calc m.rows = m.rows * 1 := by simp
      _ ≤ m.rows * m.columns := Nat.mul_le_mul_left _ h2
      _ ≤ usizeMax := by rw [← hd]; exact hb
  have hC : m.columns ≤ usizeMax := by
    calc m.columns = 1 * m.columns := by simp
      _ ≤ m.rows * m.columns := Nat.mul_le_mul_right _ h1
      _ ≤ usizeMax := by rw [← hd]; exact hb
  have hpr : p.rows ≤ usizeMax := Nat.le_trans hr hR
  have hpc : p.columns ≤ usizeMax := Nat.le_trans hc hC
  exact ⟨hrect, ⟨hpr, hpc, mpart_total p hrect⟩, .part hrect hpr hpc⟩

/-- `MatrixRefTensor`. -/
theorem matrixRefTensor_get_total (t : TView ν) (ht : t.WF) (h2 : t.shape.length = 2) :
    ∃ v, MView.ofTensor t = .ok v ∧ v.WF ∧ t.shape.map (·.2) = [v.rows, v.columns] :=
  matrixRefTensor_total t ht h2

/-- `TensorRefMatrix::with_names`: never panics; `Err(shape)` exactly when the names coincide or a
    length is 0 (an empty matrix view); otherwise a total tensor view of that shape. -/
theorem withNames_total_err_iff (src : MView) (hsrc : src.WF) (rowName columnName : ν) :
    (∃ v, tensorRefMatrixWithNames src rowName columnName = .ok (.ok v) ∧ v.WF ∧
        v.shape = [(rowName, src.rows), (columnName, src.columns)] ∧
        rowName ≠ columnName ∧ 1 ≤ src.rows ∧ 1 ≤ src.columns) ∨
    (tensorRefMatrixWithNames src rowName columnName =
        .ok (.error [(rowName, src.rows), (columnName, src.columns)]) ∧
      ¬ (rowName ≠ columnName ∧ 1 ≤ src.rows ∧ 1 ≤ src.columns)) :=
  withNames_spec src hsrc rowName columnName

/-! ### every composition -/

mutual

/-- **Every adaptor as the receiver, at any nesting depth.**  Whatever view is built from
    containers through the constructors (fallible ones that answered `Ok`, panicking ones with
    arguments they accept), its checked getter returns normally for every coordinate tuple and
    answers `Some` exactly inside the view's shape. -/
theorem every_tensor_view_total [Inhabited ν] : ∀ {v : TView ν}, TBuilt v → v.WF
  | _, .tensor hn h => ofTensor_wf hn h
  | _, .rangeFromAll hs hlen h => good_ok (rangeFromAll_good _ (every_tensor_view_total hs) _ hlen) h
  | _, .rangeFromAllStrict hs hlen h =>
    good_ok (rangeFromAllStrict_good _ (every_tensor_view_total hs) _ hlen) h
  | _, .maskFromAll hs hlen h => good_ok (maskFromAll_good _ (every_tensor_view_total hs) _ hlen) h
  | _, .maskFromAllStrict hs hlen h =>
    good_ok (maskFromAllStrict_good _ (every_tensor_view_total hs) _ hlen) h
  | _, .rangeFrom hs h => good_ok (named_good _ (every_tensor_view_total hs) _).1 h
  | _, .maskFrom hs h => good_ok (named_good _ (every_tensor_view_total hs) _).2.1 h
  | _, .rangeFromStrict hs h => good_ok (named_good _ (every_tensor_view_total hs) _).2.2.1 h
  | _, .maskFromStrict hs h => good_ok (named_good _ (every_tensor_view_total hs) _).2.2.2 h
  | _, .access hs h => access_wf _ (every_tensor_view_total hs) _ h
  | _, .transpose (src := src) (dimensions := dims) hs h => by
    rcases transposeTryFrom_spec src (every_tensor_view_total hs) dims with ⟨v', h1, h2, _⟩ | ⟨h1, _⟩
    · rw [h] at h1; simp only [Outcome.ok.injEq, Except.ok.injEq] at h1; subst h1; exact h2
    · rw [h] at h1; simp at h1
  | _, .reverse hs => reverse_get_total _ (every_tensor_view_total hs) _
  | _, .rename hs hl hn => rename_get_total _ (every_tensor_view_total hs) _ hl hn
  | _, .index hs hvalid => index_wf _ (every_tensor_view_total hs) _ hvalid
  | _, .expansion (src := src) (extra := extra) hs hpos hnames h => by
    obtain ⟨v', h1, h2, _⟩ := expansion_wf src (every_tensor_view_total hs) extra hpos hnames
    rw [h] at h1; simp only [Outcome.ok.injEq] at h1; subst h1; exact h2
  | _, .stack hne hN hall hshape halong hname =>
    (stack_wf _ _ _ hne hN (fun s hs => ⟨every_tensor_view_total (hall s hs), hshape s hs⟩)
      halong hname).1
  | _, .chain (first := first) (rest := rest) (k := k) hk hall hsim htotal h => by
    obtain ⟨v', h1, h2, _⟩ := chain_wf (first :: rest) k first rest rfl hk
      (fun s hs => ⟨every_tensor_view_total (hall s hs), hsim s hs⟩) htotal
    rw [h] at h1; simp only [Outcome.ok.injEq] at h1; subst h1; exact h2
  | _, .matrixBacked (m := m) (rowName := rn) (columnName := cn) hm h => by
    rcases withNames_spec m (every_matrix_view_total hm) rn cn with ⟨v', h1, h2, _⟩ | ⟨h1, _⟩
    · rw [h] at h1; simp only [Outcome.ok.injEq, Except.ok.injEq] at h1; subst h1; exact h2
    · rw [h] at h1; simp at h1

/-- The same for matrix views (which may be empty). -/
theorem every_matrix_view_total [Inhabited ν] : ∀ {m : MView}, MBuilt (ν := ν) m → m.WF
  | _, .matrix h => matrix_total _ h
  | _, .range (src := src) (rows := rows) (columns := columns) hs h => by
    obtain ⟨v', h1, h2, _⟩ := mrange_total src (every_matrix_view_total hs) rows columns
    rw [h] at h1; simp only [Outcome.ok.injEq] at h1; subst h1; exact h2
  | _, .reverse hs => mreverse_total _ (every_matrix_view_total hs) _ _
  | _, .map hs => every_matrix_view_total hs
  | _, .part h hr hc => ⟨hr, hc, mpart_total _ h⟩
  | _, .ofTensor (t := t) ht h2 h => by
    obtain ⟨v', h1, hwf, _⟩ := matrixRefTensor_total t (every_tensor_view_total ht) h2
    rw [h] at h1; simp only [Outcome.ok.injEq] at h1; subst h1; exact hwf

end

/-- Non-vacuity of `TBuilt` / `MBuilt`: a reversed mask of a 2×3 tensor, and a reversed clipped
    range of a 2×3 matrix, are such compositions. -/
example : ∃ v : TView String, TBuilt v ∧ v.shape.map (·.2) = [1, 3] := by
  have ht : tensorTryFrom (ν := String) Arith.fixed [("a", 2), ("b", 3)] 6 =
      .ok (.ok { dataLen := 6, shape := [("a", 2), ("b", 3)], strides := [3, 1] }) := by rfl
  have hb := TBuilt.tensor (by decide) ht
  rcases maskFromAll_lenient_clips _ (every_tensor_view_total hb) [some ⟨0, 1⟩, none] rfl with
    ⟨v, h1, _, h3, _⟩ | ⟨_, h2⟩
  · refine ⟨v.reverse Arith.fixed ["b"], .reverse (.maskFromAll hb rfl h1), ?_⟩
    simp only [TView.reverse]
    rw [h3]; decide
  · exfalso; apply h2; decide

example : ∃ m : MView, MBuilt (ν := String) m ∧ (m.rows, m.columns) = (1, 2) := by
  have hinv : MatrixMeta.Inv ⟨6, 2, 3⟩ := ⟨rfl, by decide, by decide, by decide⟩
  have hb : MBuilt (ν := String) (MView.ofMatrix ⟨6, 2, 3⟩) := .matrix hinv
  obtain ⟨v, h1, _, hr, hc⟩ := mrange_get_total _ (every_matrix_view_total hb) ⟨1, usizeMax⟩ ⟨0, 2⟩
  refine ⟨v.reverse Arith.fixed true true, .reverse (.range hb h1), ?_⟩
  simp only [MView.reverse, hr, hc, MView.ofMatrix]
  decide

/-- Non-vacuity: a reversed mask of a 2×3 tensor is such a composition; its getter answers `None`
    at coordinates `usize::MAX` (where the pinned code panicked) and `Some` inside. -/
example :
    let t : TensorMeta String := { dataLen := 6, shape := [("a", 2), ("b", 3)], strides := [3, 1] }
    let get := fun idx =>
      match maskFromAll Arith.fixed (TView.ofTensor t) [some ⟨0, 1⟩, none] with
      | .ok (.ok v) => (v.reverse Arith.fixed ["b"]).get idx
      | _ => .panic .explicit
    tensorTryFrom Arith.fixed t.shape 6 = .ok (.ok t) ∧
    get [usizeMax, usizeMax] = .ok none ∧ get [0, 0] = .ok (some 5) :=
  ⟨by rfl, by rfl, by rfl⟩

/-! ## 6. `try_into_scalar`, `into_tensor` -/

/-- `Matrix::try_into_scalar` never panics (its `unwrap` is guarded) and is `Ok(element)` exactly
    for a 1×1 matrix. -/
theorem tryIntoScalar_total_err_iff (m : MatrixMeta) (h : m.Inv) :
    tryIntoScalar m = .ok (if m.rows = 1 ∧ m.columns = 1 then some 0 else none) :=
  tryIntoScalar_spec m h

/-- `Matrix::into_tensor` never reaches the panic of the inner `Tensor::from`; it answers
    `Err(shape)` exactly when the two names coincide. -/
theorem intoTensor_total_err_iff (m : MatrixMeta) (h : m.Inv) (rowName columnName : ν) :
    matrixIntoTensor Arith.fixed m rowName columnName =
      if rowName ≠ columnName then
        .ok (.ok { dataLen := m.dataLen, shape := [(rowName, m.rows), (columnName, m.columns)],
                   strides := computeStrides [(rowName, m.rows), (columnName, m.columns)] })
      else .ok (.error [(rowName, m.rows), (columnName, m.columns)]) :=
  matrixIntoTensor_spec m h rowName columnName

/-! ## 7. Linear algebra entry points (shape logic) -/

/-- On every size `≥ 1×1` the entry points return normally: `determinant` is `Some` exactly for
    square input, `inverse` for square non-singular input, Cholesky/LDLᵀ for square (positive
    definite) input, and QR (D-09 repaired) whenever `columns ≤ rows` — including 1×1. -/
theorem linalg_shape_total (rows columns : Nat) (hr : 1 ≤ rows) (singular : Bool) :
    determinantShape rows columns = .ok (if rows = columns then some () else none) ∧
    inverseShape rows columns singular =
      .ok (if rows = columns ∧ singular = false then some (rows, columns) else none) ∧
    choleskyShape rows columns = .ok (if rows = columns then some (rows, columns) else none) ∧
    qrShape rows columns =
      .ok (if columns > rows then none else some ((rows, rows), (rows, columns))) := by
  refine ⟨?_, ?_, ?_, qrShape_eq rows columns hr⟩
  · simp only [determinantShape]
    by_cases h : rows = columns
    · have : ¬ rows = 0 := by omega
      simp [h]; omega
    · simp [h]
  · simp only [inverseShape]
    by_cases h : rows = columns <;> cases singular <;> simp [h]
  · simp only [choleskyShape]
    by_cases h : rows = columns <;> simp [h]

/-! ## 8. Record containers -/

/-- `RecordTensor::from_iter`, for every shape and every iterator (empty, constants, mixed
    histories) of `usize` length: never a panic; `Err(Empty)` for the empty iterator,
    `Err(InconsistentHistory { first, later })` when some record's history differs from the
    first's (`later` being the last such), `Err(Shape { requested, length })` when the shape is
    invalid or its element count is not the number of records, and `Ok` otherwise. -/
theorem recordTensorFromIter_total_err_iff (shape : Shape ν) (hs : List (Option Nat))
    (hn : hs.length ≤ usizeMax) :
    recordTensorFromIter Arith.fixed shape hs =
      match historySummary (ν := ν) hs with
      | .error e => .ok (.error e)
      | .ok (h, n) =>
        if n = elements shape ∧ isValidShape shape = true then
          .ok (.ok (h, { dataLen := n, shape := shape, strides := computeStrides shape }))
        else .ok (.error (.shape shape n)) :=
  recordTensorFromIter_eq shape hs hn

/-- `RecordMatrix::from_iter` (D-08 repaired): the same, with `Err(Shape)` exactly when
    `rows × columns` (as natural numbers) is not the number of records. -/
theorem recordMatrixFromIter_total_err_iff (rows columns : Nat) (rn cn : ν) (hs : List (Option Nat)) :
    recordMatrixFromIter Arith.fixed rows columns rn cn hs =
      match historySummary (ν := ν) hs with
      | .error e => .ok (.error e)
      | .ok (h, n) =>
        if n = rows * columns ∧ rows * columns ≤ usizeMax then .ok (.ok (h, rows, columns))
        else .ok (.error (.shape [(rn, rows), (cn, columns)] n)) :=
  recordMatrixFromIter_eq rows columns rn cn hs

/-- What `historySummary` says: empty ⇒ `Empty`; all histories equal to the first ⇒ that history
    and the count; otherwise the first and the last differing one. -/
theorem historySummary_cases (h : Option Nat) (rest : List (Option Nat)) :
    historySummary (ν := ν) [] = .error .empty ∧
    ((∀ x ∈ rest, x = h) → historySummary (ν := ν) (h :: rest) = .ok (h, rest.length + 1)) ∧
    (∀ later, historySummary (ν := ν) (h :: rest) = .error (.inconsistentHistory h later) →
      later ∈ rest ∧ later ≠ h) := by
  refine ⟨rfl, ?_, ?_⟩
  · intro hall
    simp [historySummary, (lastOther_eq_none h rest).mpr hall]
  · intro later hl
    simp only [historySummary] at hl
    cases hlo : lastOther h rest with
    | none => simp [hlo] at hl
    | some y =>
      simp only [hlo, Except.error.injEq, RecordIterError.inconsistentHistory.injEq, true_and] at hl
      subst hl
      exact lastOther_some hlo

/-- D-08: the pinned `RecordMatrix::from_iter` panics on `(usize::MAX, 2)`. -/
theorem pre_recordMatrix_panics :
    (recordMatrixFromIter (ν := String) Arith.pre usizeMax 2 "rows" "columns" [some 0, some 0]).isOk
      = false := by decide

/-! ## 9. `Ok` ⇔ valid, with validity as a decidable predicate

  For each fallible constructor family: a `Bool`-valued predicate on the *arguments alone* and
  the theorem that the API answers `Ok` exactly on the arguments satisfying it (the API never
  panics: sections 2–4). -/

/-- `Tensor::try_from(shape, data)` answers `Ok` ⇔ `data.len()` is the element count of the shape
    and the shape is valid (`InvalidShapeError::is_valid`). -/
theorem tensorTryFrom_ok_iff (shape : Shape ν) (n : Nat) (hn : n ≤ usizeMax) :
    (∃ t, tensorTryFrom Arith.fixed shape n = .ok (.ok t)) ↔
      (decide (n = elements shape) && isValidShape shape) = true := by
  rw [tensorTryFrom_fixed_eq shape n hn]
  simp only [Bool.and_eq_true, decide_eq_true_eq]
  by_cases hc : n = elements shape ∧ isValidShape shape = true
  · rw [if_pos hc]; exact ⟨fun _ => hc, fun _ => ⟨_, rfl⟩⟩
  · rw [if_neg hc]
    constructor
    · rintro ⟨t, ht⟩; simp at ht
    · intro h; exact absurd h hc

/-- **`is_valid` ⇔ some constructor call succeeds.**  A shape passes `InvalidShapeError::is_valid`
    and has a representable element count exactly when `Tensor::try_from` accepts it for some
    data length. -/
theorem isValid_iff_constructible (shape : Shape ν) :
    (isValidShape shape = true ∧ elements shape ≤ usizeMax) ↔
      ∃ n, n ≤ usizeMax ∧ ∃ t, tensorTryFrom Arith.fixed shape n = .ok (.ok t) := by
  constructor
  · rintro ⟨hv, hb⟩
    exact ⟨elements shape, hb, (tensorTryFrom_ok_iff shape _ hb).mpr (by simp [hv])⟩
  · rintro ⟨n, hn, ht⟩
    have := (tensorTryFrom_ok_iff shape n hn).mp ht
    simp only [Bool.and_eq_true, decide_eq_true_eq] at this
    exact ⟨this.2, by rw [← this.1]; exact hn⟩

/-- `TensorAccess::try_from` / `TensorTranspose::try_from` answer `Ok` ⇔ the requested names are a
    permutation of the source's (`List.isPerm`, decidable). -/
theorem accessTryFrom_ok_iff [Inhabited ν] (src : TView ν) (hsrc : src.WF) (dimensions : List ν) :
    ((∃ v, accessTryFrom src dimensions = .ok (.ok v)) ↔
      dimensions.isPerm (src.shape.map (·.1)) = true) ∧
    ((∃ v, transposeTryFrom src dimensions = .ok (.ok v)) ↔
      dimensions.isPerm (src.shape.map (·.1)) = true) := by
  rw [List.isPerm_iff]
  constructor
  · rcases accessTryFrom_spec src hsrc dimensions with ⟨v, h, _, hp⟩ | ⟨h, hnp⟩
    · exact ⟨fun _ => hp, fun _ => ⟨v, h⟩⟩
    · constructor
      · rintro ⟨v, hv⟩; rw [h] at hv; simp at hv
      · intro hp; exact absurd hp hnp
  · rcases transposeTryFrom_spec src hsrc dimensions with ⟨v, h, _, _, hp⟩ | ⟨h, hnp⟩
    · exact ⟨fun _ => hp, fun _ => ⟨v, h⟩⟩
    · constructor
      · rintro ⟨v, hv⟩; rw [h] at hv; simp at hv
      · intro hp; exact absurd hp hnp

/-- The eight `TensorRange` / `TensorMask` constructors answer `Ok` exactly on the arguments
    their validity predicate accepts: names distinct and known (`namesOk`), no range beyond its
    dimension for the strict ones (`exceedsAny`), every dimension keeps an index
    (`rangeKeeps` / `maskKeeps`, computed from `min(start+length, len) − start`). -/
theorem range_mask_ok_iff_valid (src : TView ν) (hsrc : src.WF)
    (named : List (ν × IndexRange)) (all : List (Option IndexRange))
    (hlen : all.length = src.shape.length) :
    (IsOk (rangeFrom Arith.fixed src named) ↔ validRangeFrom src.shape named = true) ∧
    (IsOk (maskFrom Arith.fixed src named) ↔ validMaskFrom src.shape named = true) ∧
    (IsOk (rangeFromStrict Arith.fixed src named) ↔ validRangeFromStrict src.shape named = true) ∧
    (IsOk (maskFromStrict Arith.fixed src named) ↔ validMaskFromStrict src.shape named = true) ∧
    (IsOk (rangeFromAll Arith.fixed src all) ↔ validRangeFromAll src.shape all = true) ∧
    (IsOk (maskFromAll Arith.fixed src all) ↔ validMaskFromAll src.shape all = true) ∧
    (IsOk (rangeFromAllStrict Arith.fixed src all) ↔ validRangeFromAllStrict src.shape all = true) ∧
    (IsOk (maskFromAllStrict Arith.fixed src all) ↔ validMaskFromAllStrict src.shape all = true) :=
  ⟨rangeFrom_ok_iff src hsrc named, maskFrom_ok_iff src hsrc named,
   rangeFromStrict_ok_iff src hsrc named, maskFromStrict_ok_iff src hsrc named,
   rangeFromAll_ok_iff src hsrc all hlen, maskFromAll_ok_iff src hsrc all hlen,
   rangeFromAllStrict_ok_iff src hsrc all hlen, maskFromAllStrict_ok_iff src hsrc all hlen⟩

/-- For distinct, known names `from_named_to_all` answers the table of the given ranges by
    dimension (`None` where no range was given). -/
theorem fromNamedToAll_table (shape : Shape ν) (hshape : (shape.map (·.1)).Nodup)
    (ranges : List (ν × IndexRange)) (hok : namesOk shape ranges = true) :
    fromNamedToAll shape ranges = .ok (.ok (namedTable shape ranges)) :=
  fromNamedToAll_eq shape hshape ranges ((namesOk_iff shape ranges).mp hok).1
    ((namesOk_iff shape ranges).mp hok).2

/-- **The named constructors are the positional ones on the table of the given ranges.**  With
    distinct, known names, `from` / `from_strict` answer exactly what `from_all` /
    `from_all_strict` answer for `namedTable` (the `panic!` arm of the strict forms, reached only
    by an `InvalidDimensions` error of the inner call, is dead). -/
theorem named_eq_positional (src : TView ν) (hsrc : src.WF) (named : List (ν × IndexRange))
    (hok : namesOk src.shape named = true) :
    rangeFrom Arith.fixed src named = rangeFromAll Arith.fixed src (namedTable src.shape named) ∧
    maskFrom Arith.fixed src named = maskFromAll Arith.fixed src (namedTable src.shape named) ∧
    rangeFromStrict Arith.fixed src named =
      rangeFromAllStrict Arith.fixed src (namedTable src.shape named) ∧
    maskFromStrict Arith.fixed src named =
      maskFromAllStrict Arith.fixed src (namedTable src.shape named) := by
  have h := fromNamedToAll_table src.shape hsrc.1.1 named hok
  refine ⟨by simp only [rangeFrom, h], by simp only [maskFrom, h], ?_, ?_⟩
  · simp only [rangeFromStrict, h]
    exact rewrapStrict_rangeFromAllStrict src hsrc _ (namedTable_length _ _)
  · simp only [maskFromStrict, h]
    exact rewrapStrict_maskFromAllStrict src hsrc _ (namedTable_length _ _)

/-- Non-vacuity: on a 2×3 source the lenient constructor accepts an over-long range of `b`, the
    strict one does not; a repeated and an unknown name are refused by both. -/
example :
    validRangeFrom [("a", 2), ("b", 3)] [("b", ⟨1, usizeMax⟩)] = true ∧
    validRangeFromStrict [("a", 2), ("b", 3)] [("b", ⟨1, usizeMax⟩)] = false ∧
    validRangeFrom [("a", 2), ("b", 3)] [("b", ⟨0, 1⟩), ("b", ⟨1, 1⟩)] = false ∧
    validMaskFrom [("a", 2), ("b", 3)] [("c", ⟨0, 1⟩)] = false ∧
    validMaskFrom [("a", 2), ("b", 3)] [("a", ⟨0, 2⟩)] = false ∧
    namedTable [("a", 2), ("b", 3)] [("b", ⟨1, 1⟩)] = [none, some ⟨1, 1⟩] := by
  refine ⟨by decide, by decide, by decide, by decide, by decide, by decide⟩

/-- `RecordTensor::from_iter` answers `Ok` ⇔ `validRecords`. -/
theorem recordTensorFromIter_ok_iff (shape : Shape ν) (hs : List (Option Nat))
    (hn : hs.length ≤ usizeMax) :
    (∃ r, recordTensorFromIter Arith.fixed shape hs = .ok (.ok r)) ↔ validRecords shape hs = true := by
  rw [recordTensorFromIter_eq shape hs hn]
  cases hs with
  | nil => simp [historySummary, validRecords]
  | cons h rest =>
    simp only [historySummary, validRecords, Bool.and_eq_true, List.all_eq_true, beq_iff_eq,
      decide_eq_true_eq]
    cases hl : lastOther h rest with
    | some later =>
      have hne := (lastOther_some hl)
      simp only
      constructor
      · rintro ⟨r, hr⟩; simp at hr
      · rintro ⟨⟨hall, _⟩, _⟩; exact absurd (hall later hne.1) hne.2
    | none =>
      have hall := (lastOther_eq_none h rest).mp hl
      simp only
      by_cases hc : rest.length + 1 = elements shape ∧ isValidShape shape = true
      · rw [if_pos hc]; exact ⟨fun _ => ⟨⟨hall, hc.1⟩, hc.2⟩, fun _ => ⟨_, rfl⟩⟩
      · rw [if_neg hc]
        constructor
        · rintro ⟨r, hr⟩; simp at hr
        · rintro ⟨⟨_, h1⟩, h2⟩; exact absurd ⟨h1, h2⟩ hc

/-- `RecordMatrix::from_iter` answers `Ok` ⇔ `validRecordsMatrix`: non-empty, one history, as
    many records as `rows * columns`, and that product representable (a matrix may be empty of
    neither: a zero side makes the count 0, which a non-empty iterator cannot match). -/
theorem recordMatrixFromIter_ok_iff (rows columns : Nat) (rn cn : ν) (hs : List (Option Nat)) :
    (∃ r, recordMatrixFromIter Arith.fixed rows columns rn cn hs = .ok (.ok r)) ↔
      validRecordsMatrix rows columns hs = true := by
  rw [recordMatrixFromIter_eq rows columns rn cn hs]
  cases hs with
  | nil => simp [historySummary, validRecordsMatrix]
  | cons h rest =>
    simp only [historySummary, validRecordsMatrix, Bool.and_eq_true, List.all_eq_true, beq_iff_eq,
      decide_eq_true_eq]
    cases hl : lastOther h rest with
    | some later =>
      have hne := (lastOther_some hl)
      simp only
      constructor
      · rintro ⟨r, hr⟩; simp at hr
      · rintro ⟨⟨hall, _⟩, _⟩; exact absurd (hall later hne.1) hne.2
    | none =>
      have hall := (lastOther_eq_none h rest).mp hl
      simp only
      by_cases hc : rest.length + 1 = rows * columns ∧ rows * columns ≤ usizeMax
      · rw [if_pos hc]; exact ⟨fun _ => ⟨⟨hall, hc.1⟩, hc.2⟩, fun _ => ⟨_, rfl⟩⟩
      · rw [if_neg hc]
        constructor
        · rintro ⟨r, hr⟩; simp at hr
        · rintro ⟨⟨_, h1⟩, h2⟩; exact absurd ⟨h1, h2⟩ hc

/-- Non-vacuity: three records of one history fill a 3-element shape; a foreign history, a
    constant among records, a wrong count, a zero length and the empty iterator are refused. -/
example :
    validRecords [("x", 3)] [some 7, some 7, some 7] = true ∧
    validRecords [("x", 3)] [some 7, some 8, some 7] = false ∧
    validRecords [("x", 3)] [some 7, none, some 7] = false ∧
    validRecords [("x", 3)] [some 7, some 7] = false ∧
    validRecords [("x", 0)] ([] : List (Option Nat)) = false ∧
    validRecordsMatrix 1 2 [none, none] = true ∧
    validRecordsMatrix 2 2 [none, none] = false ∧
    (decide (6 = elements [("a", 2), ("b", 3)]) && isValidShape [("a", 2), ("b", 3)]) = true ∧
    (decide (0 = elements [("a", 0), ("b", 3)]) && isValidShape [("a", 0), ("b", 3)]) = false ∧
    ["b", "a"].isPerm ([("a", 2), ("b", 3)].map (·.1)) = true ∧
    ["b", "b"].isPerm ([("a", 2), ("b", 3)].map (·.1)) = false := by
  refine ⟨by decide, by decide, by decide, by decide, by decide, by decide, by decide, by decide,
    by decide, by decide, by decide⟩
/-! ## 10. Conversions between `IndexRange` and `Range<usize>` (infallible conversions, outside
   C16's list of Option/Result APIs; modelled as written) -/

/-- As written, `Range<usize>::from(IndexRange)` adds `start + length` unchecked: in the dev
    profile it panics for a range whose end is not representable. -/
theorem pre_toStdRange_panics : IndexRange.toStdRangePre ⟨1, usizeMax⟩ = .panic .overflow := by decide

/-- **The conversions, exactly.**  `Range<usize>::from(IndexRange)` returns `start .. start+length`
    exactly when that end is representable and panics (overflow) otherwise;
    `IndexRange::from(a..b)` is total (`length = b − a`, saturating); converting an `IndexRange`
    with a representable end to a `Range` and back is the identity, and so is converting a
    `Range` with `a ≤ b` to an `IndexRange` and back. -/
theorem std_range_conversions (r : IndexRange) (a b : Nat) :
    (r.start + r.length ≤ usizeMax →
      IndexRange.toStdRangePre r = .ok (r.start, r.start + r.length) ∧
      IndexRange.ofStdRange r.start (r.start + r.length) = r) ∧
    (usizeMax < r.start + r.length → IndexRange.toStdRangePre r = .panic .overflow) ∧
    (IndexRange.ofStdRange a b).start = a ∧ (IndexRange.ofStdRange a b).length = b - a ∧
    (a ≤ b → b ≤ usizeMax → IndexRange.toStdRangePre (IndexRange.ofStdRange a b) = .ok (a, b)) := by
  refine ⟨?_, ?_, rfl, rfl, ?_⟩
  · intro h
    refine ⟨by simp only [IndexRange.toStdRangePre, cadd_ok h], ?_⟩
    simp only [IndexRange.ofStdRange]
    cases r; simp
  · intro h
    simp only [IndexRange.toStdRangePre, cadd]
    rw [if_neg (by omega)]
  · intro hab hb
    have h : a + (b - a) ≤ usizeMax := by omega
    simp only [IndexRange.toStdRangePre, IndexRange.ofStdRange, cadd_ok h, Nat.add_sub_cancel' hab]
/-! ## 11. The repairs are conservative -/

/-- **The repairs D-04 … D-08 replaced overflow panics and nothing else.**  At each of the six
    places where the code after the fixes differs from the pinned code — `IndexRange::clip`,
    the `start + length > end` test of `range_exceeds_bounds`, the mask and the reverse index
    mapping of the checked getters, `dimensions::elements`, `rows * columns` of
    `RecordMatrix::from_iter` — the pinned code, for every input, either panicked with an
    arithmetic overflow or returned exactly what the repaired code returns; hence so do
    `Tensor::try_from`, the clipping of a list of ranges and the strict bounds test. -/
theorem fixes_conservative (r : IndexRange) (m e i l : Nat) (ls : List Nat) (a b : Nat)
    (shape : Shape ν) (n : Nat) (ranges : List IndexRange) (oranges : List (Option IndexRange)) :
    (Arith.pre.clip r m = .panic .overflow ∨ Arith.pre.clip r m = Arith.fixed.clip r m) ∧
    (Arith.pre.exceeds r e = .panic .overflow ∨ Arith.pre.exceeds r e = Arith.fixed.exceeds r e) ∧
    (Arith.pre.maskChecked r i = .panic .overflow ∨
      Arith.pre.maskChecked r i = Arith.fixed.maskChecked r i) ∧
    (Arith.pre.reverseChecked l i = .panic .overflow ∨
      Arith.pre.reverseChecked l i = Arith.fixed.reverseChecked l i) ∧
    (Arith.pre.elementsChecked ls = .panic .overflow ∨
      Arith.pre.elementsChecked ls = Arith.fixed.elementsChecked ls) ∧
    (Arith.pre.mulChecked a b = .panic .overflow ∨
      Arith.pre.mulChecked a b = Arith.fixed.mulChecked a b) ∧
    (tensorTryFrom Arith.pre shape n = .panic .overflow ∨
      tensorTryFrom Arith.pre shape n = tensorTryFrom Arith.fixed shape n) ∧
    (clipRangeShape Arith.pre shape ranges = .panic .overflow ∨
      clipRangeShape Arith.pre shape ranges = clipRangeShape Arith.fixed shape ranges) ∧
    (rangeExceedsBounds Arith.pre shape oranges = .panic .overflow ∨
      rangeExceedsBounds Arith.pre shape oranges = rangeExceedsBounds Arith.fixed shape oranges) := by
  obtain ⟨h1, h2, h3, h4, h5, h6⟩ := fixes_only_replace_overflow_panics r m e i l ls a b
  exact ⟨h1, h2, h3, h4, h5, h6, tensorTryFrom_fix_conservative shape n,
    clipRangeShape_fix_conservative shape ranges, rangeExceedsBounds_fix_conservative shape oranges⟩

/-! ## 12. Dimension lookups -/

/-- **`length_of` / `last_index_of` / `position_of`** (on `Tensor`, `TensorView` and in
    `dimensions::`) answer `Some` exactly for a name of the shape — for a shape with distinct
    names: the length paired with that name, that length minus one (saturating), and the position
    at which the name stands — and `None` for every other name. -/
theorem dim_lookup_total (shape : Shape ν) (name : ν) :
    ((lengthOf shape name).isSome = true ↔ name ∈ shape.map (·.1)) ∧
    ((lastIndexOf shape name).isSome = true ↔ name ∈ shape.map (·.1)) ∧
    (∀ l, lengthOf shape name = some l → (name, l) ∈ shape ∧ lastIndexOf shape name = some (l - 1)) ∧
    ((shape.map (·.1)).Nodup → ∀ l, (name, l) ∈ shape → lengthOf shape name = some l) := by
  have hfind : ∀ l, lengthOf shape name = some l → (name, l) ∈ shape := by
    intro l h
    simp only [lengthOf, Option.map_eq_some_iff] at h
    obtain ⟨d, hd, rfl⟩ := h
    have h1 := List.find?_some hd
    have h2 := List.mem_of_find?_eq_some hd
    simp only [decide_eq_true_eq] at h1
    rw [← h1]; exact h2
  have hsome : (lengthOf shape name).isSome = true ↔ name ∈ shape.map (·.1) := by
    simp only [lengthOf, Option.isSome_map, List.find?_isSome, decide_eq_true_eq, List.mem_map]
  refine ⟨hsome, ?_, ?_, ?_⟩
  · simp only [lastIndexOf, Option.isSome_map]; exact hsome
  · intro l h
    exact ⟨hfind l h, by simp [lastIndexOf, h]⟩
  · intro hnd l hmem
    cases h : lengthOf shape name with
    | none =>
      have : (lengthOf shape name).isSome = true := hsome.mpr (List.mem_map.mpr ⟨(name, l), hmem, rfl⟩)
      rw [h] at this; simp at this
    | some l' =>
      have hm' := hfind l' h
      -- two entries with the same name in a list with distinct names are the same entry
      have : (name, l') = (name, l) := by
        have hinj := List.inj_on_of_nodup_map hnd
        exact hinj hm' hmem rfl
      simp only [Prod.mk.injEq, true_and] at this
      rw [this]

/-- Non-vacuity on the shape of the seeded change. -/
example : lengthOf [("c", 3), ("r", 2)] "r" = some 2 ∧ lastIndexOf [("c", 3), ("r", 2)] "c" = some 2 ∧
    lengthOf [("c", 3), ("r", 2)] "x" = none ∧ positionOf [("c", 3), ("r", 2)] "r" = some 1 := by
  refine ⟨by decide, by decide, by decide, by decide⟩

/-! ## 13. The API-surface operations -/

/-- **`record_get_ok_iff`** — `TensorAccess<_, RecordTensor (owned | & | &mut), D>::
    try_get_as_record` (model `recordGet`; also RecordTensor's own `TensorRef`/`TensorMut` impl
    read through the access): for every valid shape, every order that is a permutation of its
    names and every index tuple of that arity, the call returns normally; the accessed shape
    carries the names in the REQUESTED order, each with its own length; the answer is `Some`
    exactly when the index is inside that ACCESSED shape; and its value is the tensor's own
    answer at the index mapped back to the source order (so an index valid only in the source
    order is `None`, one valid only in the accessed order is `Some`). -/
theorem record_get_ok_iff [Inhabited ν] (shape : Shape ν) (hv : isValidShape shape = true)
    (hb : elements shape ≤ usizeMax) (order : List ν) (hp : order.Perm (shape.map (·.1)))
    (idx : List Nat) (hlen : idx.length = shape.length) :
    ∃ t a m, tensorTryFrom Arith.fixed shape (elements shape) = .ok (.ok t) ∧
      DimensionMappings.new shape order = some m ∧
      accessTryFrom (TView.ofTensor t) order = .ok (.ok a) ∧
      a.shape.map (·.1) = order ∧ (∀ d ∈ a.shape, d ∈ shape) ∧
      ∃ r, recordGet shape order idx = .ok r ∧
        r.isSome = Spec.inBounds (a.shape.map (·.2)) idx ∧
        (TView.ofTensor t).get (m.sourceToRequested.map (idx.getD · 0)) = .ok r :=
  recordGet_spec shape hv hb order hp idx hlen

/-- Non-vacuity, the configuration of the seeded change C16-r6m2: shape `[c:3, r:2]` accessed as
    `[r, c]` — index `[1, 2]` (valid only in the accessed order) is cell 5, index `[2, 1]`
    (valid only in the source order) is absent. -/
example : recordGet [("c", 3), ("r", 2)] ["r", "c"] [1, 2] = .ok (some 5) ∧
    recordGet [("c", 3), ("r", 2)] ["r", "c"] [2, 1] = .ok none ∧
    recordGet [("c", 3), ("r", 2)] ["c", "r"] [2, 1] = .ok (some 5) := by
  refine ⟨by decide, by decide, by decide⟩

/-- **`record_mget_ok_iff`** — `RecordMatrix::try_get_as_record(row, column)` (and its
    `MatrixRef`/`MatrixMut` impl): `Some` exactly inside the matrix, the cell `column + row·columns`,
    never a panic. -/
theorem record_mget_ok_iff (rows columns i j : Nat) (hr : 1 ≤ rows) (hc : 1 ≤ columns)
    (hb : rows * columns ≤ usizeMax) :
    (MView.ofMatrix ⟨rows * columns, rows, columns⟩).get i j =
      .ok (if i < rows ∧ j < columns then some (j + i * columns) else none) :=
  MatrixMeta.get_eq ⟨rows * columns, rows, columns⟩ ⟨rfl, hr, hc, hb⟩ i j

/-- **`from_usize_ok_iff`** (re-export of C19's model of `from_usize_integral!`): for each of the
    twelve integer types, `FromUsize::from_usize(n)` is `Some` exactly when `n ≤ T::MAX`; the
    thresholds are those of the correspondence table (`u64`, `usize`, `u128`, `i128` accept every
    `usize`). -/
theorem from_usize_ok_iff (t : Num.IntTy) (n : Nat) (hn : n ≤ usizeMax) :
    ((Num.fromUsize t (BitVec.ofNat 64 n)).isSome = true ↔ (n : Int) ≤ t.maxInt) ∧
    Num.IntTy.u8.maxInt = 255 ∧ Num.IntTy.i8.maxInt = 127 ∧ Num.IntTy.u16.maxInt = 65535 ∧
    Num.IntTy.i16.maxInt = 32767 ∧ Num.IntTy.u32.maxInt = 4294967295 ∧
    Num.IntTy.i32.maxInt = 2147483647 ∧ Num.IntTy.i64.maxInt = 9223372036854775807 ∧
    Num.IntTy.isize.maxInt = 9223372036854775807 ∧
    (usizeMax : Int) ≤ Num.IntTy.u64.maxInt ∧ (usizeMax : Int) ≤ Num.IntTy.usize.maxInt ∧
    (usizeMax : Int) ≤ Num.IntTy.u128.maxInt ∧ (usizeMax : Int) ≤ Num.IntTy.i128.maxInt := by
  have hn' : n < 2 ^ 64 := by
    have : usizeMax = 2 ^ 64 - 1 := rfl
    omega
  refine ⟨Num.fromUsize_isSome_iff t n hn', by decide, by decide, by decide, by decide, by decide,
    by decide, by decide, by decide, by decide, by decide, by decide, by decide⟩

/-- **The named convenience methods** (`Tensor::{range, range_mut, range_owned, mask, mask_mut,
    mask_owned}` and the same six of `TensorView`; the `@ named` cases): `Ok` exactly on the
    arguments `validRangeFrom` / `validMaskFrom` accept, and then the view is total with the
    shape obtained by clipping the table of the given ranges dimension by dimension. -/
theorem named_methods_spec (src : TView ν) (hsrc : src.WF) (named : List (ν × IndexRange)) :
    (IsOk (rangeFrom Arith.fixed src named) ↔ validRangeFrom src.shape named = true) ∧
    (IsOk (maskFrom Arith.fixed src named) ↔ validMaskFrom src.shape named = true) ∧
    (∀ v, rangeFrom Arith.fixed src named = .ok (.ok v) → v.WF ∧
      v.shape = rangeShape src.shape (defaultRanges src.shape (namedTable src.shape named))) ∧
    (∀ v, maskFrom Arith.fixed src named = .ok (.ok v) → v.WF ∧
      v.shape = maskShape src.shape (defaultMasks (namedTable src.shape named))) := by
  have h1 := rangeFrom_ok_iff src hsrc named
  have h2 := maskFrom_ok_iff src hsrc named
  refine ⟨h1, h2, ?_, ?_⟩
  · intro v hv
    have hvalid := h1.mp ⟨v, hv⟩
    simp only [validRangeFrom, Bool.and_eq_true] at hvalid
    rw [(named_eq_positional src hsrc named hvalid.1).1] at hv
    rcases rangeFromAll_spec src hsrc _ (namedTable_length _ _) with ⟨w, hw, hwf, hshape, _⟩ | ⟨he, _⟩
    · rw [hv] at hw
      simp only [Outcome.ok.injEq, Except.ok.injEq] at hw
      subst hw
      exact ⟨hwf, hshape⟩
    · rw [hv] at he; simp at he
  · intro v hv
    have hvalid := h2.mp ⟨v, hv⟩
    simp only [validMaskFrom, Bool.and_eq_true] at hvalid
    rw [(named_eq_positional src hsrc named hvalid.1).2.1] at hv
    rcases maskFromAll_spec src hsrc _ (namedTable_length _ _) with ⟨w, hw, hwf, hshape, _⟩ | ⟨he, _⟩
    · rw [hv] at hw
      simp only [Outcome.ok.injEq, Except.ok.injEq] at hw
      subst hw
      exact ⟨hwf, hshape⟩
    · rw [hv] at he; simp at he

/-! ## 14. The fallible layer adds nothing beyond the view semantics -/

/-- **One bridging lemma.**  A matrix view whose getter answers, for every index, the cell a
    specification `cell` designates — `Some` exactly inside the size (`C12.mview_get_eq_spec`
    with `C12.mview_get_some_iff`) — is total in C16's sense: the checked getters return
    normally for every index and are `Some` exactly inside the size. -/
theorem total_of_get_eq_spec (v : MView) (cell : Nat → Nat → Option Nat)
    (hget : ∀ i j, v.get i j = .ok (cell i j))
    (hsome : ∀ i j, (cell i j).isSome = true ↔ i < v.rows ∧ j < v.columns) : v.Total :=
  fun i j => ⟨cell i j, hget i j, hsome i j⟩

/-- **C16's totality of the matrix view getters as a corollary of C12's view semantics**: for
    every composition of ranges, reversals, maps, tensor round trips and transpositions over a
    matrix, a column-major source or a partition part, the view `MExpr.eval` builds is `MView.WF`
    (sizes representable, getters total) — obtained from the specification theorems alone
    (`eval_refines`, `cell_some`, `cell_none`, `size_le`), not from the adaptor-by-adaptor
    totality proofs of section 5. -/
theorem matrix_views_total_from_view_semantics (e : MExpr) (hle : e.LeavesOk)
    (hb : e.Buildable = true) :
    ∃ v, e.eval Arith.fixed = .ok (.ok v) ∧ v.view.WF := by
  have h := eval_refines e hle
  rw [if_pos hb] at h
  obtain ⟨v, hv, hr, hc, hget, _⟩ := h
  have hsz := e.size_le hle
  refine ⟨v, hv, by rw [hr]; exact hsz.1, by rw [hc]; exact hsz.2, ?_⟩
  apply total_of_get_eq_spec v.view e.cell hget
  intro i j
  rw [hr, hc]
  constructor
  · intro h
    by_contra hn
    rw [e.cell_none i j hn] at h
    simp at h
  · exact e.cell_some i j

/-- The same bridge for tensor views: a getter that answers, for every index tuple of the view's
    arity, the cell a specification designates — `Some` exactly inside the shape (the form of
    C02's `view_get_eq_spec` / `view_get_some_iff_inBounds`) — is total in C16's sense. -/
theorem tensor_total_of_get_eq_spec (v : TView ν) (cell : List Nat → Option Nat)
    (hget : ∀ idx, idx.length = v.shape.length → v.get idx = .ok (cell idx))
    (hsome : ∀ idx, idx.length = v.shape.length →
      (cell idx).isSome = Spec.inBounds (v.shape.map (·.2)) idx) : v.Total :=
  fun idx hlen => ⟨cell idx, hget idx hlen, hsome idx hlen⟩

/-- Non-vacuity: a reversed clipped range over a part of a partition is such a composition. -/
example : (MExpr.reverse (MExpr.range (MExpr.part 4 5 [1, 3] [2] 1 1) ⟨0, 2⟩ ⟨1, usizeMax⟩) true false).LeavesOk ∧
    (MExpr.reverse (MExpr.range (MExpr.part 4 5 [1, 3] [2] 1 1) ⟨0, 2⟩ ⟨1, usizeMax⟩) true false).Buildable = true := by
  refine ⟨by simp only [MExpr.LeavesOk, PartitionAccepted]; decide, by decide⟩


end EasyMl.C16
