/-
  EasyMl.Spec.Gaussian — what C17 promises, stated directly (core Lean only: the driver
  evaluates these definitions next to the code-shaped model of `Model/Gaussian.lean`).

    * `normalPdf`     the normal density `(1/√(2π σ²)) · exp(−(x−μ)² / (2σ²))`
    * `boxMuller₁/₂`  the documented Box–Muller functions of a pair `(u, v)` of uniform numbers,
                      scaled by the standard deviation and shifted by the mean
    * `drawSpec`      `k` samples: sample `2i` / `2i+1` are `boxMuller₁/₂` of source numbers
                      `2i`, `2i+1`; absent when the source has fewer than `2⌈k/2⌉` numbers
    * `mvSpec`        multivariate draws: row `s` is `μ + L·z_s`, `L` the Cholesky factor of the
                      covariance, `z_s` = `N` standard-normal draws from the `s`-th chunk of
                      `2⌈N/2⌉` source numbers
-/
import EasyMl.Model.Decomp

namespace EasyMl.Spec.Gaussian
open EasyMl.Decomp

variable {α : Type} [Add α] [Sub α] [Mul α] [Div α] [Neg α] [Zero α] [One α] [RealFns α]

def normalPdf (mean variance x : α) : α :=
  let two : α := 1 + 1
  (1 / RealFns.sqrt (two * RealFns.pi * variance)) *
    RealFns.exp (-((x - mean) * (x - mean)) / (two * variance))

def boxMuller₁ (mean standardDeviation u v : α) : α :=
  RealFns.sqrt (-(1 + 1) * RealFns.ln u) * RealFns.cos ((1 + 1) * RealFns.pi * v) * standardDeviation
    + mean

def boxMuller₂ (mean standardDeviation u v : α) : α :=
  RealFns.sqrt (-(1 + 1) * RealFns.ln u) * RealFns.sin ((1 + 1) * RealFns.pi * v) * standardDeviation
    + mean

/-- source numbers needed for `k` samples: `2⌈k/2⌉` -/
def needed (k : Nat) : Nat := 2 * ((k + 1) / 2)

/-- numbers taken from a source of length `len` by a draw of `k` samples (a failing draw has
    used the source up) -/
def consumed (len k : Nat) : Nat := min len (needed k)

def drawSpec (mean variance : α) (source : List α) (k : Nat) : Option (List α) :=
  if source.length < needed k then none
  else
    let sd := RealFns.sqrt variance
    some ((List.range k).map fun i =>
      let u := source.getD (2 * (i / 2)) 0
      let v := source.getD (2 * (i / 2) + 1) 0
      if i % 2 = 0 then boxMuller₁ mean sd u v else boxMuller₂ mean sd u v)

/-- entry `(s, i)` of a multivariate draw: `μ_i + Σ_k L[i,k] · z_s[k]` -/
def mvEntry (mean : List α) (L : Matrix α) (z : List α) (i : Nat) : α :=
  mean.getD i 0 + (List.range mean.length).foldl (fun acc k => acc + get L i k * z.getD k 0) 0

/-- the `s`-th chunk of `2⌈n/2⌉` source numbers -/
def chunk (source : List α) (n s : Nat) : List α := (source.drop (s * needed n)).take (needed n)

/-- the standard normals of sample row `s` -/
def rowNormals (source : List α) (n s : Nat) : List α :=
  (drawSpec (0 : α) (1 : α) (chunk source n s) n).getD []

def mvSpec [NumOrd α] (mean : List α) (covariance : Matrix α) (source : List α) (samples : Nat)
    (sameNames : Bool) : Option (Matrix α) :=
  let n := mean.length
  if sameNames then none
  else match cholesky covariance with
    | none => none
    | some L =>
      if source.length < samples * needed n then none
      else some (ofFn samples n fun s i => mvEntry mean L (rowNormals source n s) i)

/-- numbers taken by a multivariate draw -/
def mvConsumed [NumOrd α] (mean : List α) (covariance : Matrix α) (len samples : Nat)
    (sameNames : Bool) : Nat :=
  if sameNames then 0
  else match cholesky covariance with
    | none => 0
    | some _ => min len (samples * needed mean.length)

end EasyMl.Spec.Gaussian
