/-
  EasyMl.Spec.SendSync — the families of public types property C20 speaks about, as lists of
  indices into the generated struct table.  Hand-written: this is the classification the
  property demands ("tensors, matrices, views, traces, derivative sets and error types are
  sendable and shareable exactly when their element and source types are"); the theorems in
  Props/C20.lean state the Send/Sync formula of each family and `catalogue_complete` shows that
  every public type of the regenerated table belongs to one of them.  A type renamed or removed
  in the crate makes this file fail to compile (the `Id.*` constants are generated).
-/
import EasyMl.Generated.Structs

namespace EasyMl.SendSync
open EasyMl.Generated

/-- structs with one element parameter that own their elements -/
def ownersOfT : List Nat :=
  [Id.Tensor, Id.Matrix, Id.Trace, Id.Derivatives, Id.MatrixPart, Id.MatrixQuadrants,
   Id.Gaussian, Id.MultivariateGaussian, Id.MultivariateGaussianTensor, Id.MultivariateGaussianError,
   Id.LDLTDecomposition, Id.LDLTDecompositionTensor, Id.QRDecomposition, Id.QRDecompositionTensor,
   Id.TensorDeserialize, Id.MatrixDeserialize, Id.WithIndex,
   Id.Addition, Id.Subtraction, Id.Multiplication, Id.Division, Id.Power, Id.Negation, Id.Sine,
   Id.Cosine, Id.Exponential, Id.NaturalLogarithm, Id.SquareRoot]

/-- error types and plain value types without type parameters -/
def plainTypes : List Nat :=
  [Id.ScalarConversionError, Id.InvalidShapeError, Id.InvalidDimensionsError_tensors,
   Id.InvalidDimensionsError_tensors_indexing, Id.IndexRangeValidationError,
   Id.StrictIndexRangeValidationError, Id.IndexRange, Id.Reverse, Id.Slice, Id.Slice2D,
   Id.EmptySlice2DBuilder, Id.RowSlice2DBuilder, Id.ColumnSlice2DBuilder, Id.DataLayout_matrices_views,
   Id.DataLayout_tensors_views, Id.ShapeIterator, Id.RowAndColumn, Id.Access, Id.Leaf]

/-- view adaptors `V<T, S, …>` owning their source `S` (with a `PhantomData<T>` marker) -/
def viewAdaptors : List Nat :=
  [Id.TensorView, Id.TensorAccess, Id.TensorTranspose, Id.TensorIndex, Id.TensorExpansion,
   Id.TensorRange, Id.TensorMask, Id.TensorRename, Id.TensorReverse, Id.TensorChain, Id.TensorStack,
   Id.MatrixView, Id.MatrixRange, Id.MatrixReverse, Id.MatrixRefTensor]

/-- iterators holding `&'a S` and a `PhantomData<&'a T>` marker -/
def sharedBorrowIterators : List Nat :=
  [Id.TensorReferenceIterator, Id.ColumnIterator, Id.RowIterator, Id.ColumnMajorIterator,
   Id.RowMajorIterator, Id.ColumnReferenceIterator, Id.RowReferenceIterator,
   Id.ColumnMajorReferenceIterator, Id.RowMajorReferenceIterator, Id.DiagonalIterator,
   Id.DiagonalReferenceIterator]

/-- iterators holding `&'a mut S` and a `PhantomData<&'a mut T>` marker -/
def mutBorrowIterators : List Nat :=
  [Id.TensorReferenceMutIterator, Id.ColumnMajorReferenceMutIterator,
   Id.RowMajorReferenceMutIterator, Id.DiagonalReferenceMutIterator, Id.ColumnReferenceMutIterator,
   Id.RowReferenceMutIterator]

/-- owning iterators: the source `S` and a `fn() -> T` producer -/
def ownedIterators : List Nat :=
  [Id.TensorOwnedIterator, Id.ColumnMajorOwnedIterator, Id.RowMajorOwnedIterator]

/-- the types with their own theorem (tape family, three-parameter adaptor, `TensorIterator`) -/
def singled : List Nat :=
  [Id.WengertList, Id.Record, Id.RecordContainer, Id.AsRecords, Id.InconsistentHistory,
   Id.InvalidRecordIteratorError, Id.TensorRefMatrix, Id.TensorIterator]

/-- lifetime-carrying public types with their OWN lifetime-relation probes: the tape family (generated
    table `ENTRIES` of props/c20_lifetimes.py: escapes-the-borrow and outlives-the-tape programs per
    entry point, three-step and closure probes; probes/fail_record_*.rs) and the matrix partitions
    (probes/fail_matrix_quadrants_alias.rs, ok_iterators_and_views.rs) -/
def lifetimeProbedDirectly : List Nat :=
  [Id.Record, Id.RecordContainer, Id.AsRecords, Id.InconsistentHistory, Id.InvalidRecordIteratorError,
   Id.MatrixPart, Id.MatrixQuadrants]

/-- lifetime-carrying iterator types: probed per FAMILY, not per struct — one representative of each
    constructor family has a cannot-outlive / cannot-alias program (probes/fail_iterator_outlives_matrix,
    fail_matrix_mutated_while_iterating, fail_matrix_resized_while_iterating, fail_matrix_two_mut_iterators,
    fail_matrix_read_while_mut_iterating, fail_mut_item_aliases_matrix, fail_tensor_mutated_while_iterating,
    fail_tensor_two_mut_iterators, fail_mut_item_outlives_tensor, fail_mut_item_aliases_tensor), and every
    one of them is named with an explicit lifetime argument in the generated auto-trait probes -/
def lifetimeProbedByFamily : List Nat :=
  sharedBorrowIterators ++ mutBorrowIterators ++ [Id.TensorIterator]

end EasyMl.SendSync
