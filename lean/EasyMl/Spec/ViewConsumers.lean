/-
  EasyMl.Spec.ViewConsumers — what a *consumer* of a matrix view (operators, iterators, the
  determinant, …) sees, in the vocabulary of the models of those consumers:

    * `EasyMl.Arith.MView α` (C03: `view_rows`, `view_columns`, `try_get_reference` as elements),
    * `EasyMl.Det.View α`    (C07: the two lengths and the element at `[row, column]`).

  Two versions: of the *model's* view (`MViewU.elements`: the getter of `MExpr.eval`, whose
  answer — a cell of the source — is looked up in the source's elements) and of the
  *specification* (`MExpr.elements`: `MExpr.size` and `MExpr.cell`).  Core Lean only.
-/
import EasyMl.Spec.MatrixView
import EasyMl.Model.Arith
import EasyMl.Model.Det

namespace EasyMl.MatrixView
open EasyMl

variable {α : Type}

/-- the model's view as its consumers see it: `elem o` is the element the source stores in cell
    `o`; a panicking getter shows as an absent element -/
def MViewU.elements (v : MViewU) (elem : Nat → α) : Arith.MView α :=
  { rows := v.view.rows, columns := v.view.columns
    get := fun r c =>
      match v.view.get r c with
      | .ok (some o) => some (elem o)
      | _ => none }

/-- the specification's view: size `MExpr.size`, element of the designated cell -/
def MExpr.elements (e : MExpr) (elem : Nat → α) : Arith.MView α :=
  { rows := e.size.1, columns := e.size.2, get := fun r c => (e.cell r c).map elem }

/-- the element at index `(i, j)` of a composition (`default` outside the view) -/
def MExpr.elemAt [Inhabited α] (e : MExpr) (elem : Nat → α) (i j : Nat) : α :=
  ((e.cell i j).map elem).getD default

/-- the row-major list of the elements of a composition (`RowMajorIterator`) -/
def MExpr.rowMajorElements (e : MExpr) (elem : Nat → α) : List α :=
  (List.range e.size.1).flatMap fun i => (List.range e.size.2).filterMap fun j => (e.cell i j).map elem

/-- the diagonal elements (`DiagonalIterator`) -/
def MExpr.diagonalElements (e : MExpr) (elem : Nat → α) : List α :=
  (List.range (min e.size.1 e.size.2)).filterMap fun k => (e.cell k k).map elem

/-- a view as the determinant code sees it (`TensorView::from(TensorRefMatrix::from(view))`) -/
def toDetView [Inhabited α] (v : Arith.MView α) : Det.View α :=
  { rows := v.rows, cols := v.columns, get := fun r c => (v.get r c).getD default }

end EasyMl.MatrixView
