/-
  EasyMl.Spec.View — the documented index mapping of every tensor view adaptor, as one-line
  functions on coordinates, and the mapping of a composition as their composition (C02).

  `View.specGet v idx` is the specification-level answer to `get_reference(idx)`:
  an index is present exactly when it lies inside the view's shape, and then it designates the
  cell obtained by pushing the coordinates through the documented mapping of each adaptor down
  to a leaf, where the row-major offset is taken.  No machine arithmetic, no loops over
  counters.  Core Lean only (the driver prints it as the `obs` answer).
-/
import EasyMl.Model.View
import EasyMl.Spec.Tensor

namespace EasyMl

variable {ν : Type} [DecidableEq ν] [Inhabited ν] {α : Type}

namespace Spec

/-- sub-range: `i ↦ i + start` -/
def rangeCoords (idx : List Nat) (rs : List IndexRange) : List Nat :=
  List.zipWith (fun i r => i + r.start) idx rs

/-- mask: `i ↦ if i < start then i else i + length` -/
def maskCoords (idx : List Nat) (ms : List IndexRange) : List Nat :=
  List.zipWith (fun i m => if i < m.start then i else i + m.length) idx ms

/-- fixed-index selection: insert the fixed coordinates at their dimensions -/
def selectCoords : List (Option Nat) → List Nat → List Nat
  | [], _ => []
  | some p :: ps, idx => p :: selectCoords ps idx
  | none :: ps, i :: idx => i :: selectCoords ps idx
  | none :: ps, [] => 0 :: selectCoords ps []

/-- length-one expansion: delete the coordinates of the inserted dimensions -/
def expansionCoords (viewShape : List (ν × Nat)) (extraNames : List ν) (idx : List Nat) : List Nat :=
  ((idx.zip viewShape).filter fun p => !extraNames.contains p.2.1).map (·.1)

/-- per-dimension reversal: `i ↦ length − 1 − i` on the flagged dimensions -/
def reverseCoords : List Nat → List Nat → List Bool → List Nat
  | i :: idx, l :: ls, r :: rs => (if r then l - 1 - i else i) :: reverseCoords idx ls rs
  | _, _, _ => []

/-- chaining: the source holding position `i` along the chained dimension and the position
    inside it (prefix sums of the sources' lengths) -/
def chainLocate : List Nat → Nat → Option (Nat × Nat)
  | [], _ => none
  | l :: ls, i => if i < l then some (0, i) else (chainLocate ls (i - l)).map fun p => (p.1 + 1, p.2)

end Spec

namespace View
open Spec

mutual
/-- the cell designated by coordinates assumed to lie inside the view's shape -/
def specCell : View ν α → List Nat → Option Cell
  | .tensor id t, idx => some (id, ravel (lens t.shape) idx)
  | .matrix id m _ _, idx => some (id, ravel [m.rows, m.columns] idx)
  | .range s rs, idx => s.specCell (rangeCoords idx rs)
  | .mask s ms, idx => s.specCell (maskCoords idx ms)
  | .index s p, idx => s.specCell (selectCoords p idx)
  | .expansion s e, idx =>
    s.specCell (expansionCoords (expansionShape (s.shape.length + e.length) e s.shape 0)
      (e.map (·.2)) idx)
  | .rename s _, idx => s.specCell idx
  | .reverse s r, idx => s.specCell (reverseCoords idx (lens s.shape) r)
  | .access s m, idx => s.specCell (coords s.shape (namesOf (m.mapShapeToRequested s.shape)) idx)
  | .transpose s m, idx => s.specCell (coords s.shape (namesOf (m.mapShapeToRequested s.shape)) idx)
  | .stack ss along, idx => specCellAt ss (idx.getD along.1 0) (idx.eraseIdx along.1)
  | .chain ss along, idx =>
    match chainLocate ((shapes ss).map fun s => (s.getD along (default, 0)).2) (idx.getD along 0) with
    | some (k, i) => specCellAt ss k (idx.set along i)
    | none => none
def specCellAt : List (View ν α) → Nat → List Nat → Option Cell
  | [], _, _ => none
  | v :: _, 0, idx => v.specCell idx
  | _ :: vs, n + 1, idx => specCellAt vs n idx
end

/-- The documented answer of `get_reference(idx)`. -/
def specGet (v : View ν α) (idx : List Nat) : Option Cell :=
  if inBounds (lens v.shape) idx then v.specCell idx else none

end View
end EasyMl
