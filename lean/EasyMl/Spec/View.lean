/-
  EasyMl.Spec.View — the documented index mapping of every tensor view adaptor, as one-line
  functions on coordinates, and the mapping of a composition as their composition (C02).

  `View.specGet v idx` is the specification-level answer to `get_reference(idx)`:
  an index is present exactly when it lies inside the view's shape, and then it designates the
  cell obtained by pushing the coordinates through the documented mapping of each adaptor down
  to a leaf, where the row-major offset is taken.  No machine arithmetic, no loops over
  counters.  Core Lean only (the driver prints it as the `obs` answer).
-/
import EasyMl.Model.View
import EasyMl.Spec.Tensor

namespace EasyMl

variable {ν : Type} [DecidableEq ν] [Inhabited ν] {α : Type}

namespace Spec

/-- sub-range: `i ↦ i + start` -/
def rangeCoords (idx : List Nat) (rs : List IndexRange) : List Nat :=
  List.zipWith (fun i r => i + r.start) idx rs

/-- mask: `i ↦ if i < start then i else i + length` -/
def maskCoords (idx : List Nat) (ms : List IndexRange) : List Nat :=
  List.zipWith (fun i m => if i < m.start then i else i + m.length) idx ms

/-- fixed-index selection: insert the fixed coordinates at their dimensions -/
def selectCoords : List (Option Nat) → List Nat → List Nat
  | [], _ => []
  | some p :: ps, idx => p :: selectCoords ps idx
  | none :: ps, i :: idx => i :: selectCoords ps idx
  | none :: ps, [] => 0 :: selectCoords ps []

/-- length-one expansion: delete the coordinates of the inserted dimensions -/
def expansionCoords (viewShape : List (ν × Nat)) (extraNames : List ν) (idx : List Nat) : List Nat :=
  ((idx.zip viewShape).filter fun p => !extraNames.contains p.2.1).map (·.1)

/-- per-dimension reversal: `i ↦ length − 1 − i` on the flagged dimensions -/
def reverseCoords : List Nat → List Nat → List Bool → List Nat
  | i :: idx, l :: ls, r :: rs => (if r then l - 1 - i else i) :: reverseCoords idx ls rs
  | _, _, _ => []

/-- chaining: the source holding position `i` along the chained dimension and the position
    inside it (prefix sums of the sources' lengths) -/
def chainLocate : List Nat → Nat → Option (Nat × Nat)
  | [], _ => none
  | l :: ls, i => if i < l then some (0, i) else (chainLocate ls (i - l)).map fun p => (p.1 + 1, p.2)

end Spec

namespace View
open Spec

mutual
/-- the cell designated by coordinates assumed to lie inside the view's shape -/
def specCell : View ν α → List Nat → Option Cell
  | .tensor id t, idx => some (id, ravel (lens t.shape) idx)
  | .matrix id m _ _, idx => some (id, ravel [m.rows, m.columns] idx)
  | .matrixOf s _ _, idx => s.specCell idx
  | .mrange s rows columns, idx => s.specCell (rangeCoords idx [rows, columns])
  | .mreverse s rows columns, idx => s.specCell (reverseCoords idx (lens s.shape) [rows, columns])
  | .tmap s, idx => s.specCell idx
  | .range s rs, idx => s.specCell (rangeCoords idx rs)
  | .mask s ms, idx => s.specCell (maskCoords idx ms)
  | .index s p, idx => s.specCell (selectCoords p idx)
  | .expansion s e, idx =>
    s.specCell (expansionCoords (expansionShape (s.shape.length + e.length) e s.shape 0)
      (e.map (·.2)) idx)
  | .rename s _, idx => s.specCell idx
  | .reverse s r, idx => s.specCell (reverseCoords idx (lens s.shape) r)
  | .access s m, idx => s.specCell (coords s.shape (namesOf (m.mapShapeToRequested s.shape)) idx)
  | .transpose s m, idx => s.specCell (coords s.shape (namesOf (m.mapShapeToRequested s.shape)) idx)
  | .stack ss along, idx => specCellAt ss (idx.getD along.1 0) (idx.eraseIdx along.1)
  | .chain ss along, idx =>
    match chainLocate ((shapes ss).map fun s => (s.getD along (default, 0)).2) (idx.getD along 0) with
    | some (k, i) => specCellAt ss k (idx.set along i)
    | none => none
def specCellAt : List (View ν α) → Nat → List Nat → Option Cell
  | [], _, _ => none
  | v :: _, 0, idx => v.specCell idx
  | _ :: vs, n + 1, idx => specCellAt vs n idx
end

/-! ### The invariant the constructors establish (`View.WF`)

  Every clause is a fact the Rust constructor checks or establishes and that the adaptor keeps in
  its fields; `Lemmas/View.lean` proves `mkX s … = some v → s.WF → v.WF` for every constructor.
  Two clauses are *assumptions about sizes* rather than checks of the code, both implied by
  "everything fits in memory": a leaf stores at most `usize::MAX` elements, and the lengths of
  chained sources sum to at most `usize::MAX` (the code adds them with `Iterator::sum`; distinct
  sources occupy distinct memory, but the same tensor borrowed many times could exceed it). -/

/-- ranges clipped to the source and non-empty -/
def RangesOK : Shape ν → List IndexRange → Prop
  | d :: ds, r :: rs => (1 ≤ r.length ∧ r.start + r.length ≤ d.2) ∧ RangesOK ds rs
  | [], [] => True
  | _, _ => False

/-- masks clipped to the source (or empty) that leave something visible -/
def MasksOK : Shape ν → List IndexRange → Prop
  | d :: ds, m :: ms => ((m.length = 0 ∨ m.start + m.length ≤ d.2) ∧ m.length < d.2) ∧ MasksOK ds ms
  | [], [] => True
  | _, _ => False

/-- provided indexes inside their dimension -/
def ProvidedOK : Shape ν → List (Option Nat) → Prop
  | d :: ds, some p :: ps => p < d.2 ∧ ProvidedOK ds ps
  | _ :: ds, none :: ps => ProvidedOK ds ps
  | [], [] => True
  | _, _ => False

/-- extra dimensions: ascending positions within `0..=D`, fresh distinct names -/
def ExtraOK (shape : Shape ν) (extra : List (Nat × ν)) : Prop :=
  (extra.map (·.1)).Pairwise (· ≤ ·) ∧ (∀ e ∈ extra, e.1 ≤ shape.length) ∧
  (extra.map (·.2)).Nodup ∧ (∀ e ∈ extra, e.2 ∉ namesOf shape)

/-- the two tables of a `DimensionMappings` are mutually inverse permutations of `0..D` -/
def MappingOK (m : DimensionMappings) (D : Nat) : Prop :=
  m.sourceToRequested.length = D ∧ m.requestedToSource.length = D ∧
  (∀ d, d < D → m.sourceToRequested.getD d 0 < D ∧
    m.requestedToSource.getD (m.sourceToRequested.getD d 0) 0 = d) ∧
  (∀ d, d < D → m.requestedToSource.getD d 0 < D ∧
    m.sourceToRequested.getD (m.requestedToSource.getD d 0) 0 = d)

/-- same names in the same order, same lengths except along the chained dimension -/
def Similar (along : Nat) (shape first : Shape ν) : Prop :=
  namesOf shape = namesOf first ∧
  lens shape = (lens first).set along (shape.getD along (default, 0)).2

/-- the length of every source along the chained dimension -/
def chainLens (shapes : List (Shape ν)) (along : Nat) : List Nat :=
  shapes.map fun s => (s.getD along (default, 0)).2

mutual
/-- The invariant of a view: what its constructor established about its fields. -/
def WF : View ν α → Prop
  | .tensor _ t =>
    ValidShape t.shape ∧ t.strides = computeStrides t.shape ∧ t.data.length = elements t.shape ∧
    t.data.length ≤ usizeMax
  | .matrix _ m r c => m.Inv ∧ r ≠ c ∧ m.data.length ≤ usizeMax
  | .matrixOf s r c => s.WF ∧ s.shape.length = 2 ∧ r ≠ c
  | .mrange s rows columns => s.WF ∧ s.shape.length = 2 ∧ RangesOK s.shape [rows, columns]
  | .mreverse s _ _ => s.WF ∧ s.shape.length = 2
  | .tmap s => s.WF
  | .range s rs => s.WF ∧ RangesOK s.shape rs
  | .mask s ms => s.WF ∧ MasksOK s.shape ms
  | .index s p => s.WF ∧ ProvidedOK s.shape p
  | .expansion s e => s.WF ∧ ExtraOK s.shape e
  | .rename s ns => s.WF ∧ ns.length = s.shape.length ∧ ns.Nodup
  | .reverse s r => s.WF ∧ r.length = s.shape.length
  | .access s m => s.WF ∧ MappingOK m s.shape.length
  | .transpose s m => s.WF ∧ MappingOK m s.shape.length
  | .stack ss along =>
    WFs ss ∧ ss ≠ [] ∧ ss.length ≤ usizeMax ∧ (∀ sh ∈ shapes ss, sh = (shapes ss).headD []) ∧
    along.1 ≤ ((shapes ss).headD []).length ∧ along.2 ∉ namesOf ((shapes ss).headD [])
  | .chain ss along =>
    WFs ss ∧ ss ≠ [] ∧ along < ((shapes ss).headD []).length ∧
    (∀ sh ∈ shapes ss, Similar along sh ((shapes ss).headD [])) ∧
    (chainLens (shapes ss) along).sum ≤ usizeMax
def WFs : List (View ν α) → Prop
  | [] => True
  | v :: vs => v.WF ∧ WFs vs
end

/-- The documented answer of `get_reference(idx)`. -/
def specGet (v : View ν α) (idx : List Nat) : Option Cell :=
  if inBounds (lens v.shape) idx then v.specCell idx else none

end View
end EasyMl
