/-
  EasyMl.Spec.ViewBuilt — the views that can be *constructed*: starting from `Tensor::from` /
  `TensorRefMatrix` over a `Matrix`, by the constructors of the adaptors (every form, which are
  also what the convenience methods of `Tensor` / `TensorView` call), the mutators of existing
  adaptors, and writes through a view.  The only side conditions are the two size assumptions
  discussed at `View.WF` (a container holds at most `usize::MAX` elements; stacked / chained
  sources fit).  Core Lean only.
-/
import EasyMl.Spec.View

namespace EasyMl
open EasyMl.View

variable {ν : Type} [DecidableEq ν] [Inhabited ν] {α : Type}

inductive Built : View ν α → Prop
  | tensor {id : Nat} {shape : Shape ν} {data : List α} {v : View ν α} :
      mkTensor id shape data = some v → data.length ≤ usizeMax → Built v
  | matrix {id rows columns : Nat} {data : List α} {r c : ν} {v : View ν α} :
      mkMatrix id rows columns data r c = some v → data.length ≤ usizeMax → Built v
  | tmap {s : View ν α} : Built s → Built (View.tmap s)
  | matrixOf {s v : View ν α} {r c : ν} : Built s → mkMatrixOf s r c = some v → Built v
  | matrixStack {s v : View ν α} {ops : List MatOp} {r c : ν} :
      Built s → mkMatrixStack s ops r c = some v → Built v
  | range {s v : View ν α} {rs : List (ν × IndexRange)} : Built s → mkRange s rs = some v → Built v
  | rangeStrict {s v : View ν α} {rs : List (ν × IndexRange)} :
      Built s → mkRangeStrict s rs = some v → Built v
  | rangeAll {s v : View ν α} {rs : List (Option IndexRange)} :
      Built s → mkRangeAll s rs = some v → Built v
  | rangeAllStrict {s v : View ν α} {rs : List (Option IndexRange)} :
      Built s → mkRangeAllStrict s rs = some v → Built v
  | mask {s v : View ν α} {ms : List (ν × IndexRange)} : Built s → mkMask s ms = some v → Built v
  | maskStrict {s v : View ν α} {ms : List (ν × IndexRange)} :
      Built s → mkMaskStrict s ms = some v → Built v
  | maskAll {s v : View ν α} {ms : List (Option IndexRange)} :
      Built s → mkMaskAll s ms = some v → Built v
  | maskAllStrict {s v : View ν α} {ms : List (Option IndexRange)} :
      Built s → mkMaskAllStrict s ms = some v → Built v
  | index {s v : View ν α} {p : List (ν × Nat)} : Built s → mkIndex s p = some v → Built v
  | expansion {s v : View ν α} {e : List (Nat × ν)} : Built s → mkExpansion s e = some v → Built v
  | rename {s v : View ν α} {ns : List ν} : Built s → mkRename s ns = some v → Built v
  | reverse {s v : View ν α} {ns : List ν} : Built s → mkReverse s ns = some v → Built v
  | access {s v : View ν α} {ns : List ν} : Built s → mkAccess s ns = some v → Built v
  | transpose {s v : View ν α} {ns : List ν} : Built s → mkTranspose s ns = some v → Built v
  | stack {ss : List (View ν α)} {along : Nat × ν} {v : View ν α} :
      (∀ s ∈ ss, Built s) → ss.length ≤ usizeMax → mkStack ss along = some v → Built v
  | chain {ss : List (View ν α)} {along : ν} {v : View ν α} :
      (∀ s ∈ ss, Built s) → (∀ a, (chainLens (shapes ss) a).sum ≤ usizeMax) →
      mkChain ss along = some v → Built v
  | setNames {v : View ν α} {dimensions : List ν} :
      Built v → dimensions.length = v.shape.length → Built (v.setNames dimensions).1
  | replaceSource {v s s' : View ν α} :
      Built v → Built s' → v.sourceOf = some s → s'.shape.length = s.shape.length →
      Built (v.replaceSource s')
  | written {v : View ν α} {c : Cell} {x : α} : Built v → Built (v.setCell c x)

end EasyMl
