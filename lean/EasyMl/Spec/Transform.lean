/-
  EasyMl.Spec.Transform — declarative specification of the tensor transformations, equality and
  similarity (C13).

  A tensor *value* is a shape together with its elements in row-major order (`TVal`).  A lazy
  view is a shape and a partial function from index tuples to elements (`LazyView`);
  `materialise` lists the view's elements at all index tuples of its shape in lexicographic
  (row-major) order.  Every allocating or in-place transformation is specified as "the value of
  the corresponding lazy view"; equality is equality of values; similarity is "some reordering of
  the right operand's dimensions has the left operand's value".
  Core Lean only (the driver evaluates these as the property-level answers).
-/
import EasyMl.Spec.Tensor

namespace EasyMl.Spec

variable {ν : Type} [DecidableEq ν] {α β : Type}

/-- every index tuple of a grid with side lengths `lens`, in lexicographic (row-major) order -/
def allIndexes : List Nat → List (List Nat)
  | [] => [[]]
  | l :: ls => (List.range l).flatMap fun i => (allIndexes ls).map (i :: ·)

/-- a lazy view: the shape it reports and the element (if any) at an index tuple -/
structure LazyView (ν α : Type) where
  shape : List (ν × Nat)
  get : List Nat → Option α

/-- The `TensorRef` contract a view must meet: unique names, every length ≥ 1, and an element
    at exactly the index tuples inside the shape. -/
structure LazyView.Valid (v : LazyView ν α) : Prop where
  shape : ValidShape v.shape
  get : ∀ idx : List Nat, idx.length = v.shape.length →
    (v.get idx).isSome = inBounds (v.shape.map (·.2)) idx

/-- two views that report the same shape and the same elements -/
def LazyView.Equiv (l r : LazyView ν α) : Prop :=
  l.shape = r.shape ∧ ∀ idx : List Nat, idx.length = l.shape.length → l.get idx = r.get idx

/-- a tensor value: shape and row-major elements -/
structure TVal (ν α : Type) where
  shape : List (ν × Nat)
  elems : List α
  deriving DecidableEq, Repr

/-- the elements of a view at all index tuples of its shape, in row-major order -/
def materialise (v : LazyView ν α) : TVal ν α :=
  { shape := v.shape, elems := (allIndexes (v.shape.map (·.2))).filterMap v.get }

/-- a stored tensor seen as a view: row-major addressing of `data` -/
def ofData (shape : List (ν × Nat)) (data : List α) : LazyView ν α :=
  { shape := shape,
    get := fun idx =>
      if inBounds (shape.map (·.2)) idx then data[ravel (shape.map (·.2)) idx]? else none }

/-- the view addressed through another ordering of the names (by-name semantics of C01) -/
def reordered (v : LazyView ν α) (names : List ν) : LazyView ν α :=
  { shape := shapeFor v.shape names, get := fun idx => v.get (coords v.shape names idx) }

/-- position `d` keeps the name `shape[d].1` but takes the length from `other[d]` -/
def withNames (lengthsFrom : List (ν × Nat)) (names : List ν) : List (ν × Nat) :=
  List.zipWith (fun d n => (n, d.2)) lengthsFrom names

/-- the transposed view: indexing of `reordered`, dimension names staying in place -/
def transposed (v : LazyView ν α) (names : List ν) : LazyView ν α :=
  { shape := withNames (shapeFor v.shape names) (v.shape.map (·.1)),
    get := (reordered v names).get }

/-- the renamed view -/
def renamed (v : LazyView ν α) (names : List ν) : LazyView ν α :=
  { shape := withNames v.shape names, get := v.get }

/-- element-wise image of a view -/
def mapped (f : α → β) (v : LazyView ν α) : LazyView ν β :=
  { shape := v.shape, get := fun idx => (v.get idx).map f }

def mappedWithIndex (f : List Nat → α → β) (v : LazyView ν α) : LazyView ν β :=
  { shape := v.shape, get := fun idx => (v.get idx).map (f idx) }

/-- element-wise combination of two views of the same shape -/
def zipped (f : List Nat → α → α → α) (l r : LazyView ν α) : LazyView ν α :=
  { shape := l.shape,
    get := fun idx =>
      match l.get idx, r.get idx with
      | some x, some y => some (f idx x y)
      | _, _ => none }

/-- Similarity: some ordering of the right operand's dimension names makes it equal to the left. -/
def Similar [DecidableEq α] (l r : LazyView ν α) : Prop :=
  ∃ names, IsOrdering r.shape names ∧ materialise (reordered r names) = materialise l

/-- one in-place transformation, at the level of values -/
inductive Step (ν α : Type) where
  | reorder (names : List ν)
  | transpose (names : List ν)
  | reshape (shape : List (ν × Nat))
  | rename (names : List ν)
  | map (f : α → α)
  | mapi (f : List Nat → α → α)

/-- The value after one in-place transformation of the tensor value `v` (`none`: the
    transformation is refused): the value of the corresponding lazy view of `v`. -/
def stepValue (v : TVal ν α) : Step ν α → Option (TVal ν α)
  | .reorder names =>
    if IsOrdering v.shape names then some (materialise (reordered (ofData v.shape v.elems) names))
    else none
  | .transpose names =>
    if IsOrdering v.shape names then some (materialise (transposed (ofData v.shape v.elems) names))
    else none
  | .reshape s => if Accepts s v.elems.length then some ⟨s, v.elems⟩ else none
  | .rename names =>
    if names.Nodup then some (materialise (renamed (ofData v.shape v.elems) names)) else none
  | .map f => some ⟨v.shape, v.elems.map f⟩
  | .mapi f => some (materialise (mappedWithIndex f (ofData v.shape v.elems)))

/-- the value after a history of in-place transformations -/
def runSteps (v : TVal ν α) : List (Step ν α) → Option (TVal ν α)
  | [] => some v
  | st :: rest =>
    match stepValue v st with
    | some v' => runSteps v' rest
    | none => none

/-- the element comparison lifted to two cells: both present and related -/
def cellRel (rel : α → α → Bool) : Option α → Option α → Bool
  | some x, some y => rel x y
  | _, _ => false

/-- Equality of two views under an arbitrary (possibly irreflexive) element comparison: the same
    shape, and at every index tuple of it the two elements are related. -/
def EqualBy (rel : α → α → Bool) (l r : LazyView ν α) : Prop :=
  l.shape = r.shape ∧
  ∀ idx, inBounds (l.shape.map (·.2)) idx = true → cellRel rel (l.get idx) (r.get idx) = true

/-- Similarity under an arbitrary element comparison: some ordering of the right operand's names
    makes it `EqualBy` the left operand. -/
def SimilarBy (rel : α → α → Bool) (l r : LazyView ν α) : Prop :=
  ∃ names, IsOrdering r.shape names ∧ EqualBy rel l (reordered r names)

/-- all permutations of a list (for the executable form of `Similar`) -/
def insertEverywhere (x : ν) : List ν → List (List ν)
  | [] => [[x]]
  | y :: ys => (x :: y :: ys) :: (insertEverywhere x ys).map (y :: ·)

def perms : List ν → List (List ν)
  | [] => [[]]
  | x :: xs => (perms xs).flatMap (insertEverywhere x)

/-- executable form of `Similar`: try every ordering of the right operand's names -/
def similarB [DecidableEq α] (l r : LazyView ν α) : Bool :=
  (perms (r.shape.map (·.1))).any fun names =>
    -- (the shape test comes first only so that the elements are not listed for orderings that
    -- cannot match)
    decide (shapeFor r.shape names = l.shape) &&
      decide (materialise (reordered r names) = materialise l)

end EasyMl.Spec
