/-
  EasyMl.Spec.Prog — what "the true partial derivative of a computation" means, declaratively.

  A computation is a straight-line program in SSA form: instruction `k` may use the results of
  instructions `< k` any number of times (fan-out).  Leaves are constants and input variables;
  the variable created by instruction `j` reads its value from `env j`, so every variable is an
  independent input.  Plain-number operands are part of the instruction.

  * `Prog.eval`  — the computation on plain numbers.
  * `Prog.tangents` — the formal derivative by the chain rule, accumulated forwards: the textbook
    rules `(u+v)' = u'+v'`, `(uv)' = u'v + uv'`, `(u/v)' = (u'v − uv')/v²`, `f(u)' = f'(u)·u'`,
    `f(u,v)' = f_x u' + f_y v'`, with `seed j` the derivative of input `j`.
  * `Prog.grad env p i` — `∂(instruction k)/∂(input i)` for every `k`: `tangents` with the seed
    `1` at `i`, `0` elsewhere.
  * `Prog.deps` — whether any input variable contributes to an instruction (syntactically).

  The real functions carry their derivative functions in the table `RealFn.deriv`; user supplied
  functions carry theirs in the instruction.  `Props/C04.lean` (`grad_hasDerivAt`) shows that over
  ℝ the formal derivative is the analytic one on the functions' domains.

  Core Lean only (the driver evaluates the spec).
-/
import EasyMl.Model.Fp

namespace EasyMl.Spec

inductive Arith where
  | add | sub | mul | div
  deriving DecidableEq, Repr, Inhabited

/-- the constant-on-the-left forms that exist for records: `c − x`, `c / x` -/
inductive Swapped where
  | sub | div
  deriving DecidableEq, Repr, Inhabited

inductive RealFn where
  | sin | cos | exp | ln | sqrt
  deriving DecidableEq, Repr, Inhabited

/-- One instruction; `Nat` operands are indices of earlier instructions, `R` operands are plain
    numbers. -/
inductive Instr (R : Type) where
  | const (c : R)
  | var
  | arith (o : Arith) (a b : Nat)
  | arithNum (o : Arith) (a : Nat) (c : R)
  | swapped (o : Swapped) (c : R) (a : Nat)
  | neg (a : Nat)
  | sum (as : List Nat)
  | real (f : RealFn) (a : Nat)
  | pow (a b : Nat)
  | powNum (a : Nat) (c : R)
  | numPow (c : R) (a : Nat)
  | unary (f df : R → R) (a : Nat)
  | binary (f dfx dfy : R → R → R) (a b : Nat)

abbrev Prog (R : Type) := List (Instr R)

section
variable {R : Type} [Add R] [Sub R] [Mul R] [Div R] [Neg R] [Zero R] [One R] [RealFns R]

def Arith.app : Arith → R → R → R
  | .add, x, y => x + y
  | .sub, x, y => x - y
  | .mul, x, y => x * y
  | .div, x, y => x / y

/-- sum, difference, product and quotient rules -/
def Arith.tan : Arith → (x dx y dy : R) → R
  | .add, _, dx, _, dy => dx + dy
  | .sub, _, dx, _, dy => dx - dy
  | .mul, x, dx, y, dy => dx * y + x * dy
  | .div, x, dx, y, dy => (dx * y - x * dy) / (y * y)

def Swapped.toArith : Swapped → Arith
  | .sub => .sub
  | .div => .div

def RealFn.app : RealFn → R → R
  | .sin, x => RealFns.sin x
  | .cos, x => RealFns.cos x
  | .exp, x => RealFns.exp x
  | .ln, x => RealFns.ln x
  | .sqrt, x => RealFns.sqrt x

/-- `sin' = cos`, `cos' = −sin`, `exp' = exp`, `ln' x = 1/x`, `sqrt' x = 1/(2 sqrt x)` -/
def RealFn.deriv : RealFn → R → R
  | .sin, x => RealFns.cos x
  | .cos, x => -(RealFns.sin x)
  | .exp, x => RealFns.exp x
  | .ln, x => 1 / x
  | .sqrt, x => 1 / ((1 + 1) * RealFns.sqrt x)

/-- `∂(x^y)/∂x = y·x^(y−1)` -/
def powDx (x y : R) : R := y * RealFns.pow x (y - 1)
/-- `∂(x^y)/∂y = x^y·ln x` -/
def powDy (x y : R) : R := RealFns.pow x y * RealFns.ln x

/-- `Iterator::sum` on plain numbers: left fold from zero. -/
def sumList (l : List R) : R := l.foldl (· + ·) 0

/-- Value of an instruction given the values `vs` of the earlier ones (`vs.length` is the
    instruction's own position). -/
def Instr.val (env : Nat → R) (vs : List R) : Instr R → R
  | .const c => c
  | .var => env vs.length
  | .arith o a b => o.app (vs.getD a 0) (vs.getD b 0)
  | .arithNum o a c => o.app (vs.getD a 0) c
  | .swapped o c a => o.toArith.app c (vs.getD a 0)
  | .neg a => -(vs.getD a 0)
  | .sum as => sumList (as.map (vs.getD · 0))
  | .real f a => f.app (vs.getD a 0)
  | .pow a b => RealFns.pow (vs.getD a 0) (vs.getD b 0)
  | .powNum a c => RealFns.pow (vs.getD a 0) c
  | .numPow c a => RealFns.pow c (vs.getD a 0)
  | .unary f _ a => f (vs.getD a 0)
  | .binary f _ _ a b => f (vs.getD a 0) (vs.getD b 0)

/-- Formal derivative of an instruction given values `vs` and derivatives `ts` of the earlier
    ones; a plain-number operand has derivative zero. -/
def Instr.tan (seed : Nat → R) (vs ts : List R) : Instr R → R
  | .const _ => 0
  | .var => seed vs.length
  | .arith o a b => o.tan (vs.getD a 0) (ts.getD a 0) (vs.getD b 0) (ts.getD b 0)
  | .arithNum o a c => o.tan (vs.getD a 0) (ts.getD a 0) c 0
  | .swapped o c a => o.toArith.tan c 0 (vs.getD a 0) (ts.getD a 0)
  | .neg a => -(ts.getD a 0)
  | .sum as => sumList (as.map (ts.getD · 0))
  | .real f a => f.deriv (vs.getD a 0) * ts.getD a 0
  | .pow a b =>
    powDx (vs.getD a 0) (vs.getD b 0) * ts.getD a 0 + powDy (vs.getD a 0) (vs.getD b 0) * ts.getD b 0
  | .powNum a c => powDx (vs.getD a 0) c * ts.getD a 0
  | .numPow c a => powDy c (vs.getD a 0) * ts.getD a 0
  | .unary _ df a => df (vs.getD a 0) * ts.getD a 0
  | .binary _ dfx dfy a b =>
    dfx (vs.getD a 0) (vs.getD b 0) * ts.getD a 0 + dfy (vs.getD a 0) (vs.getD b 0) * ts.getD b 0

/-- values of all instructions, continuing from the values `vs` of a prefix -/
def Prog.evalFrom (env : Nat → R) : Prog R → List R → List R
  | [], vs => vs
  | ins :: rest, vs => Prog.evalFrom env rest (vs ++ [ins.val env vs])

/-- the computation on plain numbers: the value of every instruction -/
def Prog.eval (env : Nat → R) (p : Prog R) : List R := Prog.evalFrom env p []

/-- values and formal derivatives, continuing from a prefix -/
def Prog.tangentsFrom (env seed : Nat → R) : Prog R → List R → List R → List R × List R
  | [], vs, ts => (vs, ts)
  | ins :: rest, vs, ts =>
    Prog.tangentsFrom env seed rest (vs ++ [ins.val env vs]) (ts ++ [ins.tan seed vs ts])

/-- the formal derivative of every instruction along the direction `seed` of the inputs -/
def Prog.tangents (env seed : Nat → R) (p : Prog R) : List R :=
  (Prog.tangentsFrom env seed p [] []).2

/-- values and derivatives with respect to *nodes*: every instruction `k` (input or intermediate
    result) is perturbed additively by `nseed k`; variables have no other seed -/
def Prog.nodeTangentsFrom (env nseed : Nat → R) : Prog R → List R → List R → List R × List R
  | [], vs, ts => (vs, ts)
  | ins :: rest, vs, ts =>
    Prog.nodeTangentsFrom env nseed rest (vs ++ [ins.val env vs])
      (ts ++ [ins.tan (fun _ => 0) vs ts + nseed vs.length])

/-- the direction of input `i` -/
def unitSeed (i : Nat) : Nat → R := fun j => if j = i then 1 else 0

/-- `∂(instruction k)/∂(input i)` for every `k` -/
def Prog.grad (env : Nat → R) (p : Prog R) (i : Nat) : List R := Prog.tangents env (unitSeed i) p

/-- `∂(instruction k)/∂(node m)` for every `k`: the derivative of the later results when the
    result of instruction `m` — an input or an intermediate step — is varied on its own -/
def Prog.gradNode (env : Nat → R) (p : Prog R) (m : Nat) : List R :=
  (Prog.nodeTangentsFrom env (unitSeed m) p [] []).2

end

section
variable {R : Type}

def Instr.operands : Instr R → List Nat
  | .const _ => []
  | .var => []
  | .arith _ a b => [a, b]
  | .arithNum _ a _ => [a]
  | .swapped _ _ a => [a]
  | .neg a => [a]
  | .sum as => as
  | .real _ a => [a]
  | .pow a b => [a, b]
  | .powNum a _ => [a]
  | .numPow _ a => [a]
  | .unary _ _ a => [a]
  | .binary _ _ _ a b => [a, b]

/-- does the instruction, or its derivative rule, divide (`÷`, `ln' = 1/x`, `sqrt' = 1/(2 sqrt x)`) -/
def Instr.usesDiv : Instr R → Bool
  | .arith .div _ _ => true
  | .arithNum .div _ _ => true
  | .swapped .div _ _ => true
  | .real .ln _ => true
  | .real .sqrt _ => true
  | _ => false

def Prog.usesDiv (p : Prog R) : Bool := p.any Instr.usesDiv

def Instr.isVar : Instr R → Bool
  | .var => true
  | _ => false

/-- every operand refers to an earlier instruction (a Rust program cannot do otherwise) -/
def Prog.wellScopedFrom : Prog R → Nat → Bool
  | [], _ => true
  | ins :: rest, n => ins.operands.all (· < n) && Prog.wellScopedFrom rest (n + 1)

def Prog.WellScoped (p : Prog R) : Prop := Prog.wellScopedFrom p 0 = true

/-- does an input variable contribute to the instruction, given the answers for earlier ones -/
def Instr.dep (ds : List Bool) (ins : Instr R) : Bool :=
  ins.isVar || ins.operands.any (ds.getD · false)

def Prog.depsFrom : Prog R → List Bool → List Bool
  | [], ds => ds
  | ins :: rest, ds => Prog.depsFrom rest (ds ++ [ins.dep ds])

/-- for every instruction: does any input variable contribute to it -/
def Prog.deps (p : Prog R) : List Bool := Prog.depsFrom p []

/-- is instruction `i` an input variable -/
def Prog.isInput (p : Prog R) (i : Nat) : Bool := (p.map Instr.isVar).getD i false

/-- does input `i` contribute to an instruction (`rs`: the answers for the earlier ones; the
    instruction's own position is `rs.length`) -/
def Instr.reach (i : Nat) (rs : List Bool) (ins : Instr R) : Bool :=
  (ins.isVar && rs.length == i) || ins.operands.any (rs.getD · false)

def Prog.reachFrom (i : Nat) : Prog R → List Bool → List Bool
  | [], rs => rs
  | ins :: rest, rs => Prog.reachFrom i rest (rs ++ [ins.reach i rs])

/-- for every instruction: does input `i` contribute to it (syntactically) -/
def Prog.reach (p : Prog R) (i : Nat) : List Bool := Prog.reachFrom i p []

/-- positions of the input variables, in creation order -/
def Prog.varsFrom : Prog R → Nat → List Nat
  | [], _ => []
  | ins :: rest, n => (if ins.isVar then [n] else []) ++ Prog.varsFrom rest (n + 1)

def Prog.vars (p : Prog R) : List Nat := Prog.varsFrom p 0

/-- The grammar of the program generators (harness/src/c04.rs, `ProgGen::operand`: an operand is
    drawn from the results `0..n` that exist when the instruction is emitted; every generator of
    C04, C05 and C15 — random, degenerate, large, chain, matrix — goes through it): a program is
    built instruction by instruction, and the record operands of a new instruction are positions
    of instructions already emitted.  Nothing else is restricted: any instruction kind, any plain
    numbers, any closures, any fan-out, any length. -/
inductive Prog.Emitted : Prog R → Prop
  | nil : Prog.Emitted []
  | snoc (p : Prog R) (ins : Instr R) : Prog.Emitted p → (∀ o ∈ ins.operands, o < p.length) →
      Prog.Emitted (p ++ [ins])

end

end EasyMl.Spec
