/-
  EasyMl.Spec.Fallible — what C16 (and the "present ⇔ inside the size, never a panic" clause of
  C12) demands of a view, stated on the (shape, checked getter) pairs of the model.

  * `UShape`: a shape a `TensorRef` may report — unique names, every length in `1..=usize::MAX`.
  * `TView.Total`: for *every* coordinate tuple of the view's arity (every coordinate is an
    arbitrary natural number, in particular every `usize`), the checked getter returns normally
    (no panic, no overflow) and the answer is `Some` exactly when the tuple is inside the shape.
  * `MView.Total`: the same for a matrix view, which may be empty (`0` rows or columns).
-/
import EasyMl.Model.MatrixView
import EasyMl.Spec.Tensor

namespace EasyMl.Fallible

variable {ν : Type} [DecidableEq ν]

def UShape (shape : Shape ν) : Prop :=
  (shape.map (·.1)).Nodup ∧ ∀ d ∈ shape, 1 ≤ d.2 ∧ d.2 ≤ usizeMax

def TView.Total (v : TView ν) : Prop :=
  ∀ idx : List Nat, idx.length = v.shape.length →
    ∃ r, v.get idx = .ok r ∧ r.isSome = Spec.inBounds (v.shape.map (·.2)) idx

def TView.WF (v : TView ν) : Prop := UShape v.shape ∧ v.Total

end EasyMl.Fallible

namespace EasyMl.MatrixView

def MView.Total (v : MView) : Prop :=
  ∀ row column : Nat,
    ∃ r, v.get row column = .ok r ∧ (r.isSome = true ↔ row < v.rows ∧ column < v.columns)

def MView.WF (v : MView) : Prop := v.rows ≤ usizeMax ∧ v.columns ≤ usizeMax ∧ v.Total

end EasyMl.MatrixView

namespace EasyMl.Fallible

/-- never panics: the outcome is a value -/
def Returns {α : Type} (o : Outcome α) : Prop := ∃ a, o = .ok a

end EasyMl.Fallible
