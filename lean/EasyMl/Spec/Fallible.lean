/-
  EasyMl.Spec.Fallible — what C16 (and the "present ⇔ inside the size, never a panic" clause of
  C12) demands of a view, stated on the (shape, checked getter) pairs of the model.

  * `UShape`: a shape a `TensorRef` may report — unique names, every length in `1..=usize::MAX`.
  * `TView.Total`: for *every* coordinate tuple of the view's arity (every coordinate is an
    arbitrary natural number, in particular every `usize`), the checked getter returns normally
    (no panic, no overflow) and the answer is `Some` exactly when the tuple is inside the shape.
  * `MView.Total`: the same for a matrix view, which may be empty (`0` rows or columns).
-/
import EasyMl.Model.MatrixView
import EasyMl.Spec.Tensor

namespace EasyMl.Fallible

variable {ν : Type} [DecidableEq ν]

def UShape (shape : Shape ν) : Prop :=
  (shape.map (·.1)).Nodup ∧ ∀ d ∈ shape, 1 ≤ d.2 ∧ d.2 ≤ usizeMax

def TView.Total (v : TView ν) : Prop :=
  ∀ idx : List Nat, idx.length = v.shape.length →
    ∃ r, v.get idx = .ok r ∧ r.isSome = Spec.inBounds (v.shape.map (·.2)) idx

def TView.WF (v : TView ν) : Prop := UShape v.shape ∧ v.Total

end EasyMl.Fallible

namespace EasyMl.MatrixView

def MView.Total (v : MView) : Prop :=
  ∀ row column : Nat,
    ∃ r, v.get row column = .ok r ∧ (r.isSome = true ↔ row < v.rows ∧ column < v.columns)

def MView.WF (v : MView) : Prop := v.rows ≤ usizeMax ∧ v.columns ≤ usizeMax ∧ v.Total

/-- the invariant of a `Matrix`: row-major data of exactly `rows × columns ≥ 1` elements, and no
    more than `usize::MAX` of them -/
def MatrixMeta.Inv (m : MatrixMeta) : Prop :=
  m.dataLen = m.rows * m.columns ∧ 1 ≤ m.rows ∧ 1 ≤ m.columns ∧ m.dataLen ≤ usizeMax

/-- a `MatrixPart` whose row slices really have the advertised size -/
def MatrixPart.Rect (p : MatrixPart) : Prop :=
  p.rows ≤ p.data.length ∧ ∀ slice ∈ p.data, p.columns ≤ slice.length

end EasyMl.MatrixView

namespace EasyMl.Fallible
open EasyMl.MatrixView

/-- never panics: the outcome is a value -/
def Returns {α : Type} (o : Outcome α) : Prop := ∃ a, o = .ok a

/-! ### every view that can be built

  `TBuilt v` / `MBuilt m`: `v` (`m`) is a tensor (matrix) view obtained from containers by any
  finite nesting of the adaptors — through the *fallible* constructors whenever they answered
  `Ok`, and through the panicking constructors with arguments they accept.  The composition
  theorems of Props/C16 say that every such view is total. -/

mutual

inductive TBuilt {ν : Type} [DecidableEq ν] : TView ν → Prop
  /-- a `Tensor` accepted by `Tensor::try_from` -/
  | tensor {shape : Shape ν} {n : Nat} {t : TensorMeta ν} (hn : n ≤ usizeMax)
      (h : tensorTryFrom Arith.fixed shape n = .ok (.ok t)) : TBuilt (TView.ofTensor t)
  | rangeFromAll {src v : TView ν} {ranges : List (Option IndexRange)} (hs : TBuilt src)
      (hlen : ranges.length = src.shape.length)
      (h : rangeFromAll Arith.fixed src ranges = .ok (.ok v)) : TBuilt v
  | rangeFromAllStrict {src v : TView ν} {ranges : List (Option IndexRange)} (hs : TBuilt src)
      (hlen : ranges.length = src.shape.length)
      (h : rangeFromAllStrict Arith.fixed src ranges = .ok (.ok v)) : TBuilt v
  | maskFromAll {src v : TView ν} {masks : List (Option IndexRange)} (hs : TBuilt src)
      (hlen : masks.length = src.shape.length)
      (h : maskFromAll Arith.fixed src masks = .ok (.ok v)) : TBuilt v
  | maskFromAllStrict {src v : TView ν} {masks : List (Option IndexRange)} (hs : TBuilt src)
      (hlen : masks.length = src.shape.length)
      (h : maskFromAllStrict Arith.fixed src masks = .ok (.ok v)) : TBuilt v
  | rangeFrom {src v : TView ν} {ranges : List (ν × IndexRange)} (hs : TBuilt src)
      (h : rangeFrom Arith.fixed src ranges = .ok (.ok v)) : TBuilt v
  | rangeFromStrict {src v : TView ν} {ranges : List (ν × IndexRange)} (hs : TBuilt src)
      (h : rangeFromStrict Arith.fixed src ranges = .ok (.ok v)) : TBuilt v
  | maskFrom {src v : TView ν} {masks : List (ν × IndexRange)} (hs : TBuilt src)
      (h : maskFrom Arith.fixed src masks = .ok (.ok v)) : TBuilt v
  | maskFromStrict {src v : TView ν} {masks : List (ν × IndexRange)} (hs : TBuilt src)
      (h : maskFromStrict Arith.fixed src masks = .ok (.ok v)) : TBuilt v
  | access {src v : TView ν} {dimensions : List ν} (hs : TBuilt src)
      (h : accessTryFrom src dimensions = .ok (.ok v)) : TBuilt v
  | transpose {src v : TView ν} {dimensions : List ν} (hs : TBuilt src)
      (h : transposeTryFrom src dimensions = .ok (.ok v)) : TBuilt v
  /-- `TensorReverse::from` (any subset of the names) -/
  | reverse {src : TView ν} {dimensions : List ν} (hs : TBuilt src) :
      TBuilt (src.reverse Arith.fixed dimensions)
  /-- `TensorRename::from` with `D` distinct names -/
  | rename {src : TView ν} {dimensions : List ν} (hs : TBuilt src)
      (hl : dimensions.length = src.shape.length) (hn : dimensions.Nodup) :
      TBuilt (src.rename dimensions)
  /-- `TensorIndex::from` with valid indexes for the named dimensions -/
  | index {src : TView ν} {provided : List (ν × Nat)} (hs : TBuilt src)
      (hvalid : ∀ d ∈ src.shape, ∀ p ∈ provided, p.1 = d.1 → p.2 < d.2) :
      TBuilt (src.index provided)
  /-- `TensorExpansion::from` with new, distinct names at positions `≤ D` -/
  | expansion {src v : TView ν} {extra : List (Nat × ν)} (hs : TBuilt src)
      (hpos : ∀ e ∈ extra, e.1 ≤ src.shape.length)
      (hnames : (src.shape.map (·.1) ++ extra.map (·.2)).Nodup)
      (h : src.expansion extra = .ok v) : TBuilt v
  /-- `TensorStack::from`: `1 ≤ N ≤ usize::MAX` sources of one shape, a new name at a position `≤ D` -/
  | stack {sources : List (TView ν)} {along : Nat × ν} {shape : Shape ν}
      (hne : sources ≠ []) (hN : sources.length ≤ usizeMax)
      (hall : ∀ s, s ∈ sources → TBuilt s) (hshape : ∀ s, s ∈ sources → s.shape = shape)
      (halong : along.1 ≤ shape.length) (hname : along.2 ∉ shape.map (·.1)) :
      TBuilt (TView.stack sources along)
  /-- `TensorChain::from`: sources that agree except for the length along dimension `k`, whose
      total length is a `usize` -/
  | chain {first v : TView ν} {rest : List (TView ν)} {k : Nat} (hk : k < first.shape.length)
      (hall : ∀ s, s ∈ first :: rest → TBuilt s)
      (hsim : ∀ s, s ∈ first :: rest → s.shape.length = first.shape.length ∧
        s.shape.map (·.1) = first.shape.map (·.1) ∧
        (s.shape.map (·.2)).set k 1 = (first.shape.map (·.2)).set k 1)
      (htotal : ((first :: rest).map fun s => ((s.shape[k]?).map (·.2)).getD 0).sum ≤ usizeMax)
      (h : TView.chain (first :: rest) k = .ok v) : TBuilt v
  /-- `TensorRefMatrix::with_names` over a matrix view -/
  | matrixBacked {m : MView} {rowName columnName : ν} {v : TView ν} (hm : MBuilt (ν := ν) m)
      (h : tensorRefMatrixWithNames m rowName columnName = .ok (.ok v)) : TBuilt v

inductive MBuilt {ν : Type} [DecidableEq ν] : MView → Prop
  | matrix {m : MatrixMeta} (h : m.Inv) : MBuilt (ν := ν) (MView.ofMatrix m)
  | range {src v : MView} {rows columns : IndexRange} (hs : MBuilt (ν := ν) src)
      (h : MView.range Arith.fixed src rows columns = .ok v) : MBuilt (ν := ν) v
  | reverse {src : MView} {rows columns : Bool} (hs : MBuilt (ν := ν) src) :
      MBuilt (ν := ν) (src.reverse Arith.fixed rows columns)
  | map {src : MView} (hs : MBuilt (ν := ν) src) : MBuilt (ν := ν) src.map
  /-- a `MatrixPart` with rectangular row slices (what `Matrix::partition` hands out, C12) -/
  | part {p : MatrixPart} (h : p.Rect) (hr : p.rows ≤ usizeMax) (hc : p.columns ≤ usizeMax) :
      MBuilt (ν := ν) (MView.ofPart p)
  /-- `MatrixRefTensor::from` over a two-dimensional tensor view -/
  | ofTensor {t : TView ν} {v : MView} (ht : TBuilt t) (h2 : t.shape.length = 2)
      (h : MView.ofTensor t = .ok v) : MBuilt (ν := ν) v

end

end EasyMl.Fallible
