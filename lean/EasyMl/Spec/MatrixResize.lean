/-
  EasyMl.Spec.MatrixResize — the plain list-of-rows model of C11.

  A matrix is a `List (List α)`: a non-empty list of rows of one common non-zero length
  (`Rows.Wf`).  Every operation of the alphabet `Matrix.Op` has
    * a documented precondition `Rows.pre` (index within the allowed range, not removing the
      only or a non-existent row/column, enough supplied values, a retention that leaves at
      least one row and one column), and
    * its obvious effect `Rows.apply` on the list of rows (iterator-supplied values are consumed
      in sequence from the front).
  `Rows.step` panics exactly when the precondition fails; a history `Rows.run` skips panicking
  operations (the list of rows is left unmodified).  Core Lean only: the driver evaluates these
  definitions to produce the specification-level answer of every operation line.
-/
import EasyMl.Model.MatrixResize

namespace EasyMl

/-! ### the set semantics of slices -/

namespace Slice

/-- The set of indexes a slice denotes: predicate logic over `All`, `None`, a point, a half-open
    interval (empty when `stop ≤ start`, e.g. a reversed range). -/
def Mem : Slice → Nat → Prop
  | .all, _ => True
  | .none, _ => False
  | .single i, k => k = i
  | .range start stop, k => start ≤ k ∧ k < stop
  | .not s, k => ¬ Mem s k
  | .and a b, k => Mem a k ∧ Mem b k
  | .or a b, k => Mem a k ∨ Mem b k

/-- The members below `n`, computed by set operations on sorted lists (never calling `accepts`):
    the executable set semantics the driver compares `accepts` with, point by point. -/
def members (n : Nat) : Slice → List Nat
  | .all => List.range n
  | .none => []
  | .single i => if i < n then [i] else []
  | .range start stop => List.range' start (min stop n - start)
  | .not s => (List.range n).filter fun k => !(members n s).contains k
  | .and a b => (members n a).filter fun k => (members n b).contains k
  | .or a b => (List.range n).filter fun k => (members n a).contains k || (members n b).contains k

end Slice

/-- the list-of-rows state -/
abbrev Rows (α : Type) := List (List α)

namespace Rows
open Matrix (Op)

variable {α : Type}

abbrev nrows (rs : Rows α) : Nat := rs.length

/-- the common row length (that of the first row) -/
def ncols : Rows α → Nat
  | [] => 0
  | r :: _ => r.length

/-- rectangular and at least 1×1 -/
def Wf (rs : Rows α) : Prop :=
  1 ≤ nrows rs ∧ 1 ≤ ncols rs ∧ ∀ r ∈ rs, r.length = ncols rs

/-- the element at `(r, c)`, if any -/
def cell (rs : Rows α) (r c : Nat) : Option α := rs[r]?.bind (·[c]?)

/-- keep the elements whose position (counted from `k`) satisfies `p` -/
def filterIdxFrom (p : Nat → Bool) : Nat → List α → List α
  | _, [] => []
  | k, x :: xs => if p k then x :: filterIdxFrom p (k + 1) xs else filterIdxFrom p (k + 1) xs

/-- keep the elements whose index satisfies `p` -/
def filterIdx (p : Nat → Bool) (l : List α) : List α := filterIdxFrom p 0 l

/-- column `c` as a list (top to bottom) -/
def column (rs : Rows α) (c : Nat) : List α := rs.filterMap (·[c]?)

/-- the transposed list of rows: row `c` of the result is column `c` of `rs` -/
def transpose (rs : Rows α) : Rows α := (List.range (ncols rs)).map (column rs)

/-- some index below `n` is accepted -/
def anyAccepted (s : Slice) (n : Nat) : Bool := (List.range n).any s.accepts

/-- The documented precondition of each operation. -/
def pre (rs : Rows α) : Op α → Bool
  | .insertRow row _ => decide (row ≤ nrows rs)
  | .insertRowWith row values => decide (row ≤ nrows rs) && decide (ncols rs ≤ values.length)
  | .insertColumn column _ => decide (column ≤ ncols rs)
  | .insertColumnWith column values =>
    decide (column ≤ ncols rs) && decide (nrows rs ≤ values.length)
  | .removeRow row => decide (1 < nrows rs) && decide (row < nrows rs)
  | .removeColumn column => decide (1 < ncols rs) && decide (column < ncols rs)
  | .retainMut rows columns => anyAccepted rows (nrows rs) && anyAccepted columns (ncols rs)
  | .retain rows columns => anyAccepted rows (nrows rs) && anyAccepted columns (ncols rs)
  | .transpose => true
  | .transposeMut => true
  | .set row column _ => decide (row < nrows rs) && decide (column < ncols rs)
  | .mapMut _ => true
  | .mapMutWithIndex _ => true
  | .map _ => true
  | .mapWithIndex _ => true

/-- The effect of each operation on the list of rows (meaningful when `pre` holds). -/
def apply (rs : Rows α) : Op α → Rows α
  | .insertRow row value => rs.insertIdx row (List.replicate (ncols rs) value)
  | .insertRowWith row values => rs.insertIdx row (values.take (ncols rs))
  | .insertColumn column value => rs.map (·.insertIdx column value)
  | .insertColumnWith column values => List.zipWith (fun r v => r.insertIdx column v) rs values
  | .removeRow row => rs.eraseIdx row
  | .removeColumn column => rs.map (·.eraseIdx column)
  | .retainMut rows columns => (filterIdx rows.accepts rs).map (filterIdx columns.accepts)
  | .retain rows columns => (filterIdx rows.accepts rs).map (filterIdx columns.accepts)
  | .transpose => transpose rs
  | .transposeMut => transpose rs
  | .set row column value => rs.modify row (·.set column value)
  | .mapMut f => rs.map (·.map f)
  | .mapMutWithIndex f => rs.mapIdx fun i r => r.mapIdx fun j x => f x i j
  | .map f => rs.map (·.map f)
  | .mapWithIndex f => rs.mapIdx fun i r => r.mapIdx fun j x => f x i j

/-- One operation: the new list of rows, or a panic (the list of rows is then unmodified). -/
def step (rs : Rows α) (op : Op α) : Outcome (Rows α) :=
  if pre rs op then .ok (apply rs op) else .panic .explicit

/-- the state after one operation, panicking operations leaving it unchanged -/
def next (rs : Rows α) (op : Op α) : Rows α :=
  if pre rs op then apply rs op else rs

/-- A history on the list-of-rows model. -/
def run (rs : Rows α) : List (Op α) → Rows α
  | [] => rs
  | op :: ops => run (next rs op) ops

/-- The panic flags along a history. -/
def runTrace (rs : Rows α) : List (Op α) → List Bool
  | [] => []
  | op :: ops => (!pre rs op) :: runTrace (next rs op) ops

/-! ### user code that panics on its `k`-th call -/

open Matrix (XOp)

/-- `f` applied to the cells whose row-major position is below `k` (all of them for large `k`) -/
def mapFirst (k : Nat) (f : α → Nat → Nat → α) (rs : Rows α) : Rows α :=
  rs.mapIdx fun i r => r.mapIdx fun j x => if i * ncols rs + j < k then f x i j else x

/-- does the operation panic? -/
def xpanics (rs : Rows α) : XOp α → Bool
  | .op o => !pre rs o
  | .mapMutPanic _ k => decide (k < nrows rs * ncols rs)
  | .mapMutWithIndexPanic _ k => decide (k < nrows rs * ncols rs)
  | .mapPanic _ k => decide (k < nrows rs * ncols rs)
  | .mapWithIndexPanic _ k => decide (k < nrows rs * ncols rs)
  | .insertRowWithPanic row values k =>
    !(decide (row ≤ nrows rs) && !decide (k < Matrix.nextCalls (ncols rs) values.length) &&
      decide (ncols rs ≤ values.length))
  | .insertColumnWithPanic column values k =>
    !(decide (column ≤ ncols rs) && !decide (k < Matrix.nextCalls (nrows rs) values.length) &&
      decide (nrows rs ≤ values.length))

/-- the list of rows after the operation: a panic of the in-place maps leaves the cells visited
    before it mapped; every other panic leaves the rows as they were -/
def xnext (rs : Rows α) : XOp α → Rows α
  | .op o => next rs o
  | .mapMutPanic f k => mapFirst k (fun x _ _ => f x) rs
  | .mapMutWithIndexPanic f k => mapFirst k f rs
  | .mapPanic f k => if k < nrows rs * ncols rs then rs else rs.map (·.map f)
  | .mapWithIndexPanic f k =>
    if k < nrows rs * ncols rs then rs else rs.mapIdx fun i r => r.mapIdx fun j x => f x i j
  | .insertRowWithPanic row values k =>
    if xpanics rs (.insertRowWithPanic row values k) then rs
    else rs.insertIdx row (values.take (ncols rs))
  | .insertColumnWithPanic column values k =>
    if xpanics rs (.insertColumnWithPanic column values k) then rs
    else List.zipWith (fun r v => r.insertIdx column v) rs values

def xrun (rs : Rows α) : List (XOp α) → Rows α
  | [] => rs
  | x :: xs => xrun (xnext rs x) xs

def xrunTrace (rs : Rows α) : List (XOp α) → List Bool
  | [] => []
  | x :: xs => xpanics rs x :: xrunTrace (xnext rs x) xs

/-- `scalar()`: the only element of a 1×1 list of rows, a panic otherwise -/
def scalar (rs : Rows α) : Outcome α :=
  match rs with
  | [[x]] => .ok x
  | _ => .panic .explicit

/-- `try_into_scalar()`: the only element of a 1×1 list of rows, `none` (`Err`) otherwise -/
def tryIntoScalar (rs : Rows α) : Option α :=
  match rs with
  | [[x]] => some x
  | _ => none

/-- `row_iter(row)`: the row, a panic when it does not exist -/
def rowAt (rs : Rows α) (row : Nat) : Outcome (List α) :=
  match rs[row]? with
  | some r => .ok r
  | none => .panic .explicit

/-- `column_iter(column)`: the column top to bottom, a panic when it does not exist -/
def columnAt (rs : Rows α) (c : Nat) : Outcome (List α) :=
  if c < ncols rs then .ok (column rs c) else .panic .explicit

/-- `diagonal_iter()`: the cells `(i, i)` -/
def diagonal (rs : Rows α) : List α :=
  (List.range (min (nrows rs) (ncols rs))).filterMap fun i => cell rs i i

/-! ### a supply of values shared by a sequence of insertions -/

/-- the insertion operation of one step -/
def sharedOp (isRow : Bool) (position : Nat) (values : List α) : Op α :=
  if isRow then .insertRowWith position values else .insertColumnWith position values

/-- One insertion from a shared supply: the values are taken from the front, exactly as many as
    the new row / column needs; with too few left the insertion fails (and nothing is left); an
    invalid position fails before anything is taken. -/
def sharedStep (rs : Rows α) (isRow : Bool) (position : Nat) (values : List α) :
    Rows α × Bool × List α :=
  let need := if isRow then ncols rs else nrows rs
  let bound := if isRow then nrows rs else ncols rs
  (next rs (sharedOp isRow position values), !pre rs (sharedOp isRow position values),
    if position ≤ bound then values.drop need else values)

def sharedInserts (rs : Rows α) : List (Bool × Nat) → List α → Rows α × List Bool × List α
  | [], values => (rs, [], values)
  | (isRow, position) :: steps, values =>
    let r := sharedStep rs isRow position values
    let rest := sharedInserts r.1 steps r.2.2
    (rest.1, r.2.1 :: rest.2.1, rest.2.2)

/-! ### the text of a list of rows -/

/-- the pieces of one row: every cell rendered, `", "` between cells -/
def rowTokens (sh : α → String) (rs : Rows α) (i : Nat) : List String :=
  ((List.range (ncols rs)).filterMap fun j =>
    (cell rs i j).map fun x => sh x :: (if j < ncols rs - 1 then [", "] else [])).flatten

/-- the pieces of the text: `[ `, the rows (indented by two spaces after the first, separated by
    newlines), ` ]` -/
def displayTokens (sh : α → String) (rs : Rows α) : List String :=
  "[ " :: ((List.range (nrows rs)).map fun i =>
      (if 0 < i then ["  "] else []) ++ rowTokens sh rs i ++
        (if i < nrows rs - 1 then ["\n"] else [])).flatten ++ [" ]"]

/-- `Display`: e.g. `[ 1, 2\n  3, 4 ]` -/
def display (sh : α → String) (rs : Rows α) : String := String.join (displayTokens sh rs)

/-! ### constructors -/

/-- the square list of rows with `values` on the diagonal and `zero` elsewhere -/
def diag (zero : α) (values : List α) : Rows α :=
  values.mapIdx fun i x => (List.range values.length).map fun j => if j = i then x else zero

open Matrix (Ctor)

/-- The documented precondition of each constructor (at least 1×1, rectangular, matching element
    count, square for the diagonal forms; an element count that `usize` cannot represent is
    rejected). -/
def ctorPre : Ctor α → Bool
  | .fromScalar _ => true
  | .row values => !values.isEmpty
  | .column values => !values.isEmpty
  | .fromRows values =>
    match values with
    | [] => false
    | first :: _ => !first.isEmpty && values.all (·.length == first.length)
  | .fromFlatRowMajor rows columns values =>
    decide (rows * columns ≤ usizeMax) && decide (rows * columns = values.length) && !values.isEmpty
  | .fromFn rows columns _ =>
    decide (1 ≤ rows) && decide (1 ≤ columns) && decide (rows * columns ≤ usizeMax)
  | .empty _ rows columns =>
    decide (1 ≤ rows) && decide (1 ≤ columns) && decide (rows * columns ≤ usizeMax)
  | .diagonal _ _ rows columns =>
    decide (rows = columns) && decide (1 ≤ rows) && decide (rows * columns ≤ usizeMax)
  | .fromDiagonal _ values =>
    !values.isEmpty && decide (values.length * values.length ≤ usizeMax)

/-- The list of rows each constructor describes (meaningful when `ctorPre` holds). -/
def ctorRows : Ctor α → Rows α
  | .fromScalar value => [[value]]
  | .row values => [values]
  | .column values => values.map fun x => [x]
  | .fromRows values => values
  | .fromFlatRowMajor rows columns values =>
    (List.range rows).map fun r => (values.drop (r * columns)).take columns
  | .fromFn rows columns producer =>
    (List.range rows).map fun r => (List.range columns).map fun c => producer r c
  | .empty value rows columns => List.replicate rows (List.replicate columns value)
  | .diagonal zero value rows _ => diag zero (List.replicate rows value)
  | .fromDiagonal zero values => diag zero values

end Rows
end EasyMl
