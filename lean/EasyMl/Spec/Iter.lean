/-
  EasyMl.Spec.Iter — declarative specification of iteration order (C09).

  "Each element exactly once, in the documented order, with exact lengths":

  * the `k`-th item (counting from 0) of an iteration over a shape is the index tuple whose
    mixed-radix value is `k` (last dimension fastest) — `unravel shape k` — for
    `k < Π lengths`, and there is no item afterwards;
  * row-major iteration over `rows × columns` visits `(k / columns, k % columns)`,
    column-major iteration visits `(k % rows, k / rows)`, for `k < rows * columns`;
  * row `r` is `(r, 0), (r, 1), …`, column `c` is `(0, c), (1, c), …`, the diagonal is
    `(0, 0), (1, 1), …` up to `min rows columns`;
  * after `k` calls exactly `total - k` items remain (truncated subtraction: 0 past the end).

  Core Lean only: the driver evaluates these as the `obs` answers.
-/
import EasyMl.Model.Basic

namespace EasyMl.Spec

/-- mixed-radix digits of `k` for the radices `shape` (most significant first) -/
def unravel : List Nat → Nat → List Nat
  | [], _ => []
  | _ :: ls, k => (k / EasyMl.prod ls) :: unravel ls (k % EasyMl.prod ls)

/-- the `k`-th item of the iteration over all indexes of a shape -/
def shapeItem (shape : List Nat) (k : Nat) : Option (List Nat) :=
  if k < EasyMl.prod shape then some (unravel shape k) else none

/-- the number of items still to come after `k` calls of an iterator with `total` items -/
def remaining (total k : Nat) : Nat := total - k

def rowMajorItem (rows columns k : Nat) : Option (Nat × Nat) :=
  if k < rows * columns then some (k / columns, k % columns) else none

def colMajorItem (rows columns k : Nat) : Option (Nat × Nat) :=
  if k < rows * columns then some (k % rows, k / rows) else none

def rowItem (columns row k : Nat) : Option (Nat × Nat) :=
  if k < columns then some (row, k) else none

def columnItem (rows column k : Nat) : Option (Nat × Nat) :=
  if k < rows then some (k, column) else none

def diagonalItem (rows columns k : Nat) : Option (Nat × Nat) :=
  if k < min rows columns then some (k, k) else none

/-- `next`, started in `s0`, yields `item 0, item 1, …` — which is `some _` exactly for the
    first `total` calls — and never panics; `state k` is the iterator after `k` calls.
    ("Each element of the range exactly once, in this order, then nothing, forever.") -/
structure Enumerates {σ π : Type} (next : σ → EasyMl.Outcome (Option π × σ)) (s0 : σ) (total : Nat)
    (item : Nat → Option π) (state : Nat → σ) : Prop where
  start : state 0 = s0
  step : ∀ k, next (state k) = .ok (item k, state (k + 1))
  some_iff : ∀ k, (item k).isSome = true ↔ k < total

/-- The source resolves the position of call `k` to the storage cell `cellOf k`, and different
    calls resolve to different cells (so no cell is handed out twice). -/
structure Faithful {π κ : Type} (item : Nat → Option π) (total : Nat) (cell : π → Option κ)
    (cellOf : Nat → κ) : Prop where
  resolves : ∀ k, k < total → ∃ p, item k = some p ∧ cell p = some (cellOf k)
  distinct : ∀ j k, j < total → k < total → cellOf j = cellOf k → j = k

end EasyMl.Spec
