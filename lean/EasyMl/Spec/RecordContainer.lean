/-
  EasyMl.Spec.RecordContainer — what C06 promises, declaratively: "do it element by element with
  individual records (the scalar operators of Model/Tape.lean, i.e. the C04 model) in row-major
  order".

  * `UOp` / `BOp` — the catalogue of elementwise container operations.  `UOp.container`,
    `BOp.container` say which Rust container function an operation stands for (the code-shaped
    model of Model/RecordContainer.lean); `UOp.scalar`, `BOp.scalar` say which *scalar record*
    operator it stands for.
  * `mapRecs` (Model) / `zipRecs` — a scalar operator applied to every element (pair) in order,
    threading the tapes.
  * `variablesRecs`, `resetRecs` — `Record::variable` / `Record::reset` per element.
  * `matmulRecs` — matrix multiplication done with scalar records: every cell is
    `zip.map(x * y).reduce(x + y)` with `Rec.mul` and `Rec.add`, cells in row-major order
    (this is `scalar_product` of tensors/operations.rs:378 at `T = Record`).

  Core Lean only (the driver evaluates the spec beside the model).
-/
import EasyMl.Model.RecordContainer
import EasyMl.Model.RecordContainerSurface

namespace EasyMl

variable {R : Type}

/-- `Outcome` is a functor. -/
def Outcome.map {α β : Type} (f : α → β) : Outcome α → Outcome β
  | .ok a => .ok (f a)
  | .panic k => .panic k

/-- The elementwise operations of one container (and possibly a plain number). -/
inductive UOp (R : Type) where
  | fn (fx dfx : R → R)      -- `unary`
  | addN (k : R) | subN (k : R) | mulN (k : R) | divN (k : R)   -- container ∘ number
  | subSw (k : R) | divSw (k : R)                               -- number ∘ container
  | neg
  | sin | cos | exp | ln | sqrt
  | powN (k : R) | nPow (k : R)

/-- The elementwise operations of two containers. -/
inductive BOp (R : Type) where
  | fn (fxy dfx dfy : R → R → R)   -- `binary`
  | add | sub                      -- the operators `+`, `-`
  | mul | div                      -- `elementwise_multiply`, `elementwise_divide`

section Ops
variable [Add R] [Sub R] [Mul R] [Div R] [Neg R] [Zero R] [One R] [RealFns R]

/-- the Rust container function the operation stands for -/
def UOp.container : UOp R → Cont R → World R → Cont R × World R
  | .fn fx dfx, c, w => c.unary fx dfx w
  | .addN k, c, w => c.addScalar k w
  | .subN k, c, w => c.subScalar k w
  | .mulN k, c, w => c.mulScalar k w
  | .divN k, c, w => c.divScalar k w
  | .subSw k, c, w => c.subSwapped k w
  | .divSw k, c, w => c.divSwapped k w
  | .neg, c, w => c.neg w
  | .sin, c, w => c.sin w
  | .cos, c, w => c.cos w
  | .exp, c, w => c.exp w
  | .ln, c, w => c.ln w
  | .sqrt, c, w => c.sqrt w
  | .powN k, c, w => c.powScalar k w
  | .nPow k, c, w => Cont.scalarPow k c w

/-- the scalar record operator the operation stands for (Model/Tape.lean) -/
def UOp.scalar : UOp R → Rec R → World R → Rec R × World R
  | .fn fx dfx, r, w => r.unary fx dfx w
  | .addN k, r, w => r.addNum k w
  | .subN k, r, w => r.subNum k w
  | .mulN k, r, w => r.mulNum k w
  | .divN k, r, w => r.divNum k w
  | .subSw k, r, w => r.subSwapped k w
  | .divSw k, r, w => r.divSwapped k w
  | .neg, r, w => r.neg w
  | .sin, r, w => r.sin w
  | .cos, r, w => r.cos w
  | .exp, r, w => r.exp w
  | .ln, r, w => r.ln w
  | .sqrt, r, w => r.sqrt w
  | .powN k, r, w => r.powNum k w
  | .nPow k, r, w => Rec.numPow k r w

/-- the functions handed to `unary` / `unary_assign` for the operation -/
def UOp.fns : UOp R → (R → R) × (R → R)
  | .fn fx dfx => (fx, dfx)
  | .addN k => (fun x => Fn.Addition.function x k, fun x => Fn.Addition.dx x k)
  | .subN k => (fun x => Fn.Subtraction.function x k, fun x => Fn.Subtraction.dx x k)
  | .mulN k => (fun x => Fn.Multiplication.function x k, fun x => Fn.Multiplication.dx x k)
  | .divN k => (fun x => Fn.Division.function x k, fun x => Fn.Division.dx x k)
  | .subSw k => (fun x => Fn.Subtraction.function k x, fun x => Fn.Subtraction.dy k x)
  | .divSw k => (fun x => Fn.Division.function k x, fun x => Fn.Division.dy k x)
  | .neg => (fun x => -x, fun _ => -1)
  | .sin => (Fn.Sine.function, Fn.Sine.dx)
  | .cos => (Fn.Cosine.function, Fn.Cosine.dx)
  | .exp => (Fn.Exponential.function, Fn.Exponential.dx)
  | .ln => (Fn.NaturalLogarithm.function, Fn.NaturalLogarithm.dx)
  | .sqrt => (Fn.SquareRoot.function, Fn.SquareRoot.dx)
  | .powN k => (fun x => Fn.Power.function x k, fun x => Fn.Power.dx x k)
  | .nPow k => (fun x => Fn.Power.function k x, fun x => Fn.Power.dy k x)

/-- the Rust container function the operation stands for -/
def BOp.container : BOp R → Cont R → Cont R → World R → Outcome (Cont R × World R)
  | .fn fxy dfx dfy, a, b, w => a.binary b fxy dfx dfy w
  | .add, a, b, w => a.add b w
  | .sub, a, b, w => a.sub b w
  | .mul, a, b, w => a.elementwiseMultiply b w
  | .div, a, b, w => a.elementwiseDivide b w

/-- the scalar record operator the operation stands for -/
def BOp.scalar : BOp R → Rec R → Rec R → World R → Outcome (Rec R × World R)
  | .fn fxy dfx dfy, a, b, w => a.binary b fxy dfx dfy w
  | .add, a, b, w => a.add b w
  | .sub, a, b, w => a.sub b w
  | .mul, a, b, w => a.mul b w
  | .div, a, b, w => a.div b w

/-- the functions handed to `binary_left_assign` / `binary_right_assign` for the operation -/
def BOp.fns : BOp R → (R → R → R) × (R → R → R) × (R → R → R)
  | .fn fxy dfx dfy => (fxy, dfx, dfy)
  | .add => (Fn.Addition.function, Fn.Addition.dx, Fn.Addition.dy)
  | .sub => (Fn.Subtraction.function, Fn.Subtraction.dx, Fn.Subtraction.dy)
  | .mul => (Fn.Multiplication.function, Fn.Multiplication.dx, Fn.Multiplication.dy)
  | .div => (Fn.Division.function, Fn.Division.dx, Fn.Division.dy)

end Ops

/-- A scalar operator of two records applied to every pair in order.  The first panic ends the
    run (for containers, whose elements share one tape, that is the first pair). -/
def zipRecs (f : Rec R → Rec R → World R → Outcome (Rec R × World R)) :
    List (Rec R) → List (Rec R) → World R → Outcome (List (Rec R) × World R)
  | a :: as, b :: bs, w =>
    match f a b w with
    | .panic k => .panic k
    | .ok (y, w1) =>
      match zipRecs f as bs w1 with
      | .panic k => .panic k
      | .ok (ys, w2) => .ok (y :: ys, w2)
  | _, _, w => .ok ([], w)

/-- two entries of a list exchanged (nothing happens unless both exist): what "moving two records"
    means for the element-by-element computation -/
def listSwap {α : Type} (l : List α) (i j : Nat) : List α :=
  match l[i]?, l[j]? with
  | some x, some y => (l.set i y).set j x
  | _, _ => l

section Basic
variable [Zero R]

/-- `Record::variable` for every value in order. -/
def variablesRecs (h : Nat) : List R → World R → List (Rec R) × World R
  | [], w => ([], w)
  | x :: rest, w =>
    let (r, w1) := Rec.mkVar x h w
    let (rs, w2) := variablesRecs h rest w1
    (r :: rs, w2)

/-- `Record::reset` for every record in order. -/
def resetRecs (recs : List (Rec R)) (w : World R) : List (Rec R) × World R :=
  Cont.mapRecs Rec.reset recs w

end Basic

section Matmul
variable [Add R] [Sub R] [Mul R] [Div R] [Neg R] [Zero R] [One R]

/-- `.reduce(|x, y| x + y)` over the lazily multiplied pairs, with scalar records. -/
def reduceRecs : Rec R → List (Rec R × Rec R) → World R → Outcome (Rec R × World R)
  | acc, [], w => .ok (acc, w)
  | acc, (x, y) :: rest, w =>
    match x.mul y w with
    | .panic k => .panic k
    | .ok (q, w1) =>
      match acc.add q w1 with
      | .panic k => .panic k
      | .ok (s, w2) => reduceRecs s rest w2

/-- `scalar_product` (tensors/operations.rs:378) at `T = Record`:
    `zip.map(|(x, y)| x * y).reduce(|x, y| x + y).unwrap()`. -/
def scalarProductRecs : List (Rec R × Rec R) → World R → Outcome (Rec R × World R)
  | [], _ => .panic .unwrap
  | (x, y) :: rest, w =>
    match x.mul y w with
    | .panic k => .panic k
    | .ok (p, w1) => reduceRecs p rest w1

/-- every cell of the product with scalar records, cells in row-major order -/
def matmulRecsCells (a b : List (Rec R)) (n l : Nat) :
    List (Nat × Nat) → World R → Outcome (List (Rec R) × World R)
  | [], w => .ok ([], w)
  | (i, j) :: rest, w =>
    match scalarProductRecs ((Cont.rowOf a n i).zip (Cont.colOf b n l j)) w with
    | .panic k => .panic k
    | .ok (x, w1) =>
      match matmulRecsCells a b n l rest w1 with
      | .panic k => .panic k
      | .ok (xs, w2) => .ok (x :: xs, w2)

/-- `m × n` times `n × l` with scalar records -/
def matmulRecs (a b : List (Rec R)) (m n l : Nat) (w : World R) : Outcome (List (Rec R) × World R) :=
  matmulRecsCells a b n l (Cont.cellsOf m l) w

end Matmul

end EasyMl

/-! ## Histories of container operations

A *program* is a finite sequence of container operations; operands are the indices of earlier
results (or of containers overwritten in place).  `runModel` executes it with the code-shaped
container model, `runSpec` with lists of scalar records (and the shapes, which the scalar
computation needs only to decide which operand pairings exist).  Props/C06 `history_eq_elementwise`
says the two runs coincide for every program. -/

namespace EasyMl

variable {R : Type}

/-- one container operation of a history -/
inductive CInstr (R : Type) where
  | vars (h : Nat) (shape : Shape String) (vals : List R)      -- `variables`
  | consts (shape : Shape String) (vals : List R)              -- `constants`
  | un (op : UOp R) (a : Nat)                                  -- allocating, one container
  | bin (op : BOp R) (a b : Nat)                               -- allocating, two containers
  | matmulT (a b : Nat)                                        -- `RecordTensor * RecordTensor`
  | matmulM (a b : Nat)                                        -- `RecordMatrix * RecordMatrix`
  | reset (a : Nat)                                            -- in place
  | unAssign (op : UOp R) (a : Nat)                            -- `unary_assign`, in place
  | leftAssign (op : BOp R) (a b : Nat)                        -- `binary_left_assign`, overwrites `a`
  | rightAssign (op : BOp R) (a b : Nat)                       -- `(do_)binary_right_assign`, overwrites `b`
  | clone (a : Nat)                                            -- `clone` / `clone_from`
  | viaRecord (a : Nat)                                        -- 0-dim tensor → `Record` → 0-dim tensor
  | elem (a : Nat) (idx : List Nat)                            -- `get_as_record(idx)`, then `From<Record>`
  | swap (a : Nat) (i j : List Nat)                            -- two elements exchanged via `get_reference_mut(..).unwrap()`
  | fromIter (a : Nat)                                         -- `from_iter(shape, a.iter_as_records()).unwrap()`

/-- what the specification keeps of a container: its shape and its records -/
abbrev SCont (R : Type) := Shape String × List (Rec R)

/-- the specification's view of a model container -/
def Cont.abs (c : Cont R) : SCont R := (c.shape, c.toRecs)

section Run
variable [Add R] [Sub R] [Mul R] [Div R] [Neg R] [Zero R] [One R] [RealFns R]

/-- matrix multiplication of two record lists with the shapes' say on which products exist -/
def specMatmul (tensor : Bool) (a b : SCont R) (w : World R) : Outcome (SCont R × World R) :=
  match Cont.dims2 a.1, Cont.dims2 b.1 with
  | some (l0, l1), some (r0, r1) =>
    if l1.2 ≠ r0.2 then .panic .explicit
    else if tensor && l0.1 == r1.1 then .panic .explicit
    else
      (matmulRecs a.2 b.2 l0.2 l1.2 r1.2 w).map fun r =>
        ((if tensor then [l0, r1] else [(l0.1, l0.2), (l1.1, r1.2)], r.1), r.2)
  | _, _ => .panic .explicit

/-- one step of the code-shaped model; a dangling operand index is a (machinery) index panic -/
def CInstr.stepModel (i : CInstr R) (cs : List (Cont R)) (w : World R) :
    Outcome (List (Cont R) × World R) :=
  match i with
  | .vars h shape vals =>
    -- `Tensor::from` / `Matrix::from_flat_row_major` insist on as many numbers as cells, ≥ 1
    if vals.length ≠ elements shape ∨ vals.length = 0 then .panic .explicit
    else let r := Cont.variables h shape vals w; .ok (cs ++ [r.1], r.2)
  | .consts shape vals =>
    if vals.length ≠ elements shape ∨ vals.length = 0 then .panic .explicit
    else .ok (cs ++ [Cont.constants shape vals], w)
  | .un op a =>
    match cs[a]? with
    | none => .panic .index
    | some c => let r := op.container c w; .ok (cs ++ [r.1], r.2)
  | .bin op a b =>
    match cs[a]?, cs[b]? with
    | some x, some y => (op.container x y w).map fun r => (cs ++ [r.1], r.2)
    | _, _ => .panic .index
  | .matmulT a b =>
    match cs[a]?, cs[b]? with
    | some x, some y => (x.matmulTensor y w).map fun r => (cs ++ [r.1], r.2)
    | _, _ => .panic .index
  | .matmulM a b =>
    match cs[a]?, cs[b]? with
    | some x, some y => (x.matmulMatrix y w).map fun r => (cs ++ [r.1], r.2)
    | _, _ => .panic .index
  | .reset a =>
    match cs[a]? with
    | none => .panic .index
    | some c => let r := c.reset w; .ok (cs.set a r.1, r.2)
  | .unAssign op a =>
    match cs[a]? with
    | none => .panic .index
    | some c => let r := c.unaryAssign op.fns.1 op.fns.2 w; .ok (cs.set a r.1, r.2)
  | .leftAssign op a b =>
    match cs[a]?, cs[b]? with
    | some x, some y =>
      (x.binaryLeftAssign y op.fns.1 op.fns.2.1 op.fns.2.2 w).map fun r => (cs.set a r.1, r.2)
    | _, _ => .panic .index
  | .rightAssign op a b =>
    match cs[a]?, cs[b]? with
    | some x, some y =>
      (x.doBinaryRightAssign y op.fns.1 op.fns.2.1 op.fns.2.2 w).map fun r => (cs.set b r.1, r.2)
    | _, _ => .panic .index
  | .clone a =>
    match cs[a]? with
    | none => .panic .index
    | some c => .ok (cs ++ [Cont.cloneFrom c c.clone], w)
  | .viaRecord a =>
    match cs[a]? with
    | none => .panic .index
    | some c =>
      match c.intoRecord with
      | .ok r => .ok (cs ++ [Cont.fromRecordRef r], w)
      | .panic k => .panic k
  | .elem a idx =>
    match cs[a]? with
    | none => .panic .index
    | some c =>
      match c.getAsRecord (Cont.position c.shape idx) with
      | .ok r => .ok (cs ++ [Cont.fromRecord r], w)
      | .panic k => .panic k
  | .swap a i j =>
    match cs[a]? with
    | none => .panic .index
    | some c =>
      match Cont.position c.shape i, Cont.position c.shape j with
      | some pi, some pj => .ok (cs.set a (c.swapElems pi pj), w)
      | _, _ => .panic .unwrap
  | .fromIter a =>
    match cs[a]? with
    | none => .panic .index
    | some c =>
      match Cont.fromIterTensor c.shape c.toRecs with
      | .ok c' => .ok (cs ++ [c'], w)
      | .error _ => .panic .unwrap

/-- the same step done element by element with scalar records -/
def CInstr.stepSpec (i : CInstr R) (cs : List (SCont R)) (w : World R) :
    Outcome (List (SCont R) × World R) :=
  match i with
  | .vars h shape vals =>
    if vals.length ≠ elements shape ∨ vals.length = 0 then .panic .explicit
    else let r := variablesRecs h vals w; .ok (cs ++ [(shape, r.1)], r.2)
  | .consts shape vals =>
    if vals.length ≠ elements shape ∨ vals.length = 0 then .panic .explicit
    else .ok (cs ++ [(shape, vals.map Rec.constant)], w)
  | .un op a =>
    match cs[a]? with
    | none => .panic .index
    | some c => let r := Cont.mapRecs op.scalar c.2 w; .ok (cs ++ [(c.1, r.1)], r.2)
  | .bin op a b =>
    match cs[a]?, cs[b]? with
    | some x, some y =>
      if x.1 ≠ y.1 then .panic .explicit
      else (zipRecs op.scalar x.2 y.2 w).map fun r => (cs ++ [(x.1, r.1)], r.2)
    | _, _ => .panic .index
  | .matmulT a b =>
    match cs[a]?, cs[b]? with
    | some x, some y => (specMatmul true x y w).map fun r => (cs ++ [r.1], r.2)
    | _, _ => .panic .index
  | .matmulM a b =>
    match cs[a]?, cs[b]? with
    | some x, some y => (specMatmul false x y w).map fun r => (cs ++ [r.1], r.2)
    | _, _ => .panic .index
  | .reset a =>
    match cs[a]? with
    | none => .panic .index
    | some c => let r := resetRecs c.2 w; .ok (cs.set a (c.1, r.1), r.2)
  | .unAssign op a =>
    match cs[a]? with
    | none => .panic .index
    | some c => let r := Cont.mapRecs op.scalar c.2 w; .ok (cs.set a (c.1, r.1), r.2)
  | .leftAssign op a b =>
    match cs[a]?, cs[b]? with
    | some x, some y =>
      if x.1 ≠ y.1 then .panic .explicit
      else (zipRecs op.scalar x.2 y.2 w).map fun r => (cs.set a (x.1, r.1), r.2)
    | _, _ => .panic .index
  | .rightAssign op a b =>
    match cs[a]?, cs[b]? with
    | some x, some y =>
      if x.1 ≠ y.1 then .panic .explicit
      else
        -- the right element's record combined with the left one's: arguments swapped, the
        -- derivative w.r.t. the right element first
        (zipRecs (fun ry rx w => ry.binary rx (fun y x => op.fns.1 x y) (fun y x => op.fns.2.2 x y)
            (fun y x => op.fns.2.1 x y) w) y.2 x.2 w).map fun r => (cs.set b (y.1, r.1), r.2)
    | _, _ => .panic .index
  | .clone a =>
    match cs[a]? with
    | none => .panic .index
    | some c => .ok (cs ++ [c], w)
  | .viaRecord a =>
    match cs[a]? with
    | none => .panic .index
    | some c =>
      match c.2 with
      | r :: _ => .ok (cs ++ [([], [r])], w)
      | [] => .panic .unwrap
  | .elem a idx =>
    match cs[a]? with
    | none => .panic .index
    | some c =>
      match (Cont.position c.1 idx).bind fun k => c.2[k]? with
      | some r => .ok (cs ++ [([], [r])], w)
      | none => .panic .explicit
  | .swap a i j =>
    match cs[a]? with
    | none => .panic .index
    | some c =>
      match Cont.position c.1 i, Cont.position c.1 j with
      | some pi, some pj => .ok (cs.set a (c.1, listSwap c.2 pi pj), w)
      | _, _ => .panic .unwrap
  | .fromIter a =>
    match cs[a]? with
    | none => .panic .index
    | some c =>
      if validateDimensions c.1 c.2.length = none then .ok (cs ++ [c], w) else .panic .unwrap

/-- a program with the model: the first panic ends the run -/
def runModel : List (CInstr R) → List (Cont R) → World R → Outcome (List (Cont R) × World R)
  | [], cs, w => .ok (cs, w)
  | i :: rest, cs, w =>
    match i.stepModel cs w with
    | .panic k => .panic k
    | .ok (cs', w') => runModel rest cs' w'

/-- the same program element by element -/
def runSpec : List (CInstr R) → List (SCont R) → World R → Outcome (List (SCont R) × World R)
  | [], cs, w => .ok (cs, w)
  | i :: rest, cs, w =>
    match i.stepSpec cs w with
    | .panic k => .panic k
    | .ok (cs', w') => runSpec rest cs' w'

/-- `derivatives()` said with scalar records only: nothing for constants, otherwise the reverse
    sweep of every record (the records of one container are all constants or all on one tape) -/
def recsDerivatives (recs : List (Rec R)) (w : World R) : Outcome (Option (List (List R))) :=
  match recs.head? with
  | none => .ok none
  | some r =>
    match r.history with
    | none => .ok none
    | some _ =>
      match Cont.collectOutcomes (recs.map fun r => r.derivatives w) with
      | .ok ds => .ok (some ds)
      | .panic k => .panic k

end Run

end EasyMl
