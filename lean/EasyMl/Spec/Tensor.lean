/-
  EasyMl.Spec.Tensor — declarative specification of named-dimension addressing (C01).

  "The element whose per-dimension coordinates match by name": for source shape
  `[(n₀,l₀),…]`, a requested ordering `names` and an index tuple `idx` given in that ordering,
  the coordinate of dimension `n_d` is the entry of `idx` at the position where `n_d` occurs in
  `names`; the element is present iff every coordinate is below its length, and it is the entry
  of the row-major data at offset `Σ_d c_d · Π_{e>d} l_e`.
  Core Lean only (the driver evaluates it as the oracle of the failing-input search).
-/
import EasyMl.Model.Basic

namespace EasyMl.Spec

variable {ν : Type} [DecidableEq ν] {α : Type}

/-- row-major offset of coordinates `cs` in a grid with side lengths `ls` -/
def ravel : List Nat → List Nat → Nat
  | _ :: ls, c :: cs => c * EasyMl.prod ls + ravel ls cs
  | _, _ => 0

/-- every coordinate below its length (lists of equal length) -/
def inBounds : List Nat → List Nat → Bool
  | l :: ls, c :: cs => decide (c < l) && inBounds ls cs
  | [], [] => true
  | _, _ => false

/-- coordinate of dimension `n`: the entry of `idx` at the position of `n` in `names` -/
def coordOf (names : List ν) (idx : List Nat) (n : ν) : Nat :=
  idx.getD (names.idxOf n) 0

/-- source-order coordinates addressed by `idx` given in the order `names` -/
def coords (shape : List (ν × Nat)) (names : List ν) (idx : List Nat) : List Nat :=
  shape.map fun d => coordOf names idx d.1

/-- The addressed row-major offset, if the tuple is inside the shape. -/
def lookupOffset (shape : List (ν × Nat)) (names : List ν) (idx : List Nat) : Option Nat :=
  let cs := coords shape names idx
  if inBounds (shape.map (·.2)) cs then some (ravel (shape.map (·.2)) cs) else none

/-- The addressed element. -/
def lookupByName (shape : List (ν × Nat)) (data : List α) (names : List ν) (idx : List Nat) :
    Option α :=
  match lookupOffset shape names idx with
  | some o => data[o]?
  | none => none

/-- A shape a tensor may have: unique names, every length ≥ 1. -/
def ValidShape (shape : List (ν × Nat)) : Prop :=
  (shape.map (·.1)).Nodup ∧ ∀ d ∈ shape, 1 ≤ d.2

/-- What the constructors must accept: element count = product of the lengths, unique names,
    every length ≥ 1 (decidable, so the driver can evaluate it). -/
def Accepts (shape : List (ν × Nat)) (dataLen : Nat) : Prop :=
  dataLen = EasyMl.prod (shape.map (·.2)) ∧ (shape.map (·.1)).Nodup ∧ ∀ d ∈ shape, 1 ≤ d.2

instance (shape : List (ν × Nat)) (dataLen : Nat) : Decidable (Accepts shape dataLen) := by
  unfold Accepts; infer_instance

/-- A name list by which a tensor of this shape may be addressed: a permutation of its names. -/
def IsOrdering (shape : List (ν × Nat)) (names : List ν) : Prop :=
  names.Perm (shape.map (·.1))

instance (shape : List (ν × Nat)) (names : List ν) : Decidable (IsOrdering shape names) := by
  unfold IsOrdering; infer_instance

/-- The shape reported for an ordering: each requested name with its length in the source. -/
def shapeFor (shape : List (ν × Nat)) (names : List ν) : List (ν × Nat) :=
  names.map fun n => (n, ((shape.find? (·.1 = n)).map (·.2)).getD 0)

end EasyMl.Spec
