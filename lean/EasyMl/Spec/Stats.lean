/-
  EasyMl.Spec.Stats — the population statistics C14 speaks about, as the textbook formulas over a
  list of samples: `Σxᵢ/N`, `Σ(xᵢ−μ)²/N`, `Σ(xᵢ−μₓ)(yᵢ−μ_y)/N` (divide by `N`, not `N−1`).
  Core Lean only.
-/
namespace EasyMl.Spec.Stats

variable {α : Type} [Add α] [Sub α] [Mul α] [Div α] [Zero α] [NatCast α]

/-- `μ = Σxᵢ / N` -/
def popMean (xs : List α) : α := xs.sum / (xs.length : α)

/-- `σ² = Σ(xᵢ − μ)² / N` (population variance) -/
def popVariance (xs : List α) : α :=
  (xs.map fun x => (x - popMean xs) * (x - popMean xs)).sum / (xs.length : α)

/-- `cov(x, y) = Σ(xᵢ − μₓ)(yᵢ − μ_y) / N` (population covariance of two equally long samples) -/
def popCovariance (xs ys : List α) : α :=
  (List.zipWith (fun x y => (x - popMean xs) * (y - popMean ys)) xs ys).sum / (xs.length : α)

end EasyMl.Spec.Stats
