/-
  EasyMl.Spec.MatrixView — declarative specification for C12: which cell of the underlying
  `Matrix` an index of a (nested) matrix view designates, and which grid of sub-rectangles
  `Matrix::partition` hands out.  Core Lean only (the driver evaluates it as the oracle).

  A cell is identified by its flat row-major offset `row · columns + column` in the leaf matrix.
-/
import EasyMl.Model.MatrixView

namespace EasyMl.MatrixView
open EasyMl.Fallible

/-- `(start, length)` of the consecutive slices cut by the boundaries `bounds` after `prev` -/
def diffs : List Nat → Nat → List (Nat × Nat)
  | [], _ => []
  | b :: bs, prev => (prev, b - prev) :: diffs bs b

/-- what `check_axis` lets through: every boundary within the length and every boundary after
    the first strictly greater than the *first* -/
def axisChecked : List Nat → Nat → Bool
  | [], _ => true
  | first :: rest, length =>
    decide (first ≤ length) && rest.all fun x => decide (x ≤ length) && decide (first < x)

/-- non-decreasing -/
def sortedLe : List Nat → Bool
  | [] => true
  | [_] => true
  | a :: b :: rest => decide (a ≤ b) && sortedLe (b :: rest)

/-- the boundary lists `Matrix::partition` accepts (it panics on all others: `partitionSpec`) -/
def PartitionAccepted (rows columns : Nat) (rp cp : List Nat) : Prop :=
  axisChecked rp rows = true ∧ axisChecked cp columns = true ∧
    (rp.length + 1) * (cp.length + 1) ≤ usizeMax ∧ sortedLe rp = true ∧ sortedLe cp = true

/-- the size `partition` reports for the sub-grid with `rl` rows and `cl` columns: an empty one
    is `0×0` -/
def normSize (rl cl : Nat) : Nat × Nat := if rl = 0 ∨ cl = 0 then (0, 0) else (rl, cl)

/-- `(first row, rows)` and `(first column, columns)` of the part at grid position `(kr, kc)` -/
def partRect (rows columns : Nat) (rp cp : List Nat) (kr kc : Nat) : (Nat × Nat) × (Nat × Nat) :=
  ((diffs (rp ++ [rows]) 0).getD kr (0, 0), (diffs (cp ++ [columns]) 0).getD kc (0, 0))

/-- the size a composition reports: the request clipped to the source for ranges -/
def MExpr.size : MExpr → Nat × Nat
  | .leaf rows columns => (rows, columns)
  | .leafCM rows columns => (rows, columns)
  | .part rows columns rp cp kr kc =>
    normSize (partRect rows columns rp cp kr kc).1.2 (partRect rows columns rp cp kr kc).2.2
  | .range e rows columns =>
    (min (rows.start + rows.length) e.size.1 - rows.start,
     min (columns.start + columns.length) e.size.2 - columns.start)
  | .reverse e _ _ => e.size
  | .map e => e.size
  | .viaTensor e => e.size
  | .swapped e => (e.size.2, e.size.1)

/-- the designated cell of index `(i, j)`: present exactly inside the size -/
def MExpr.cell : MExpr → Nat → Nat → Option Nat
  | .leaf rows columns, i, j => if i < rows ∧ j < columns then some (i * columns + j) else none
  | .leafCM rows columns, i, j => if i < rows ∧ j < columns then some (j * rows + i) else none
  | .part rows columns rp cp kr kc, i, j =>
    if i < (MExpr.part rows columns rp cp kr kc).size.1 ∧
        j < (MExpr.part rows columns rp cp kr kc).size.2 then
      some (((partRect rows columns rp cp kr kc).1.1 + i) * columns +
        (partRect rows columns rp cp kr kc).2.1 + j)
    else none
  | .range e rows columns, i, j =>
    if i < (MExpr.range e rows columns).size.1 ∧ j < (MExpr.range e rows columns).size.2 then
      e.cell (i + rows.start) (j + columns.start)
    else none
  | .reverse e fr fc, i, j =>
    if i < e.size.1 ∧ j < e.size.2 then
      e.cell (if fr then e.size.1 - 1 - i else i) (if fc then e.size.2 - 1 - j else j)
    else none
  | .map e, i, j => e.cell i j
  | .viaTensor e, i, j => e.cell i j
  | .swapped e, i, j => e.cell j i

/-- the leaves are genuine matrices (at least 1×1, at most `usize::MAX` elements) -/
def MExpr.LeavesOk : MExpr → Prop
  | .leaf rows columns => 1 ≤ rows ∧ 1 ≤ columns ∧ rows * columns ≤ usizeMax
  | .leafCM rows columns => 1 ≤ rows ∧ 1 ≤ columns ∧ rows * columns ≤ usizeMax
  | .part rows columns rp cp kr kc =>
    (1 ≤ rows ∧ 1 ≤ columns ∧ rows * columns ≤ usizeMax) ∧ PartitionAccepted rows columns rp cp ∧
      kr ≤ rp.length ∧ kc ≤ cp.length
  | .range e _ _ => e.LeavesOk
  | .reverse e _ _ => e.LeavesOk
  | .map e => e.LeavesOk
  | .viaTensor e => e.LeavesOk
  | .swapped e => e.LeavesOk

/-- every tensor wrapper in the composition wraps a non-empty view (otherwise
    `TensorRefMatrix::from` answers `Err`) -/
def MExpr.Buildable : MExpr → Bool
  | .leaf _ _ => true
  | .leafCM _ _ => true
  | .part _ _ _ _ _ _ => true
  | .range e _ _ => e.Buildable
  | .reverse e _ _ => e.Buildable
  | .map e => e.Buildable
  | .viaTensor e => e.Buildable && decide (1 ≤ e.size.1) && decide (1 ≤ e.size.2)
  | .swapped e => e.Buildable && decide (1 ≤ e.size.1) && decide (1 ≤ e.size.2)

/-- the source at the bottom of a composition -/
def MExpr.base : MExpr → MExpr
  | .range e _ _ => e.base
  | .reverse e _ _ => e.base
  | .map e => e.base
  | .viaTensor e => e.base
  | .swapped e => e.base
  | e => e

/-- the number of elements of the matrix (or tensor) at the bottom of a composition -/
def MExpr.dataLen : MExpr → Nat
  | .leaf rows columns => rows * columns
  | .leafCM rows columns => rows * columns
  | .part rows columns _ _ _ _ => rows * columns
  | .range e _ _ => e.dataLen
  | .reverse e _ _ => e.dataLen
  | .map e => e.dataLen
  | .viaTensor e => e.dataLen
  | .swapped e => e.dataLen

/-- reading index `(i, j)` of a view over the data of its source -/
def MExpr.read {α : Type} (e : MExpr) (data : List α) (i j : Nat) : Option α :=
  (e.cell i j).bind (data[·]?)

/-- writing `x` at index `(i, j)` of a view: the designated cell of the source's data changes,
    nothing happens outside the view -/
def MExpr.write {α : Type} (e : MExpr) (data : List α) (i j : Nat) (x : α) : List α :=
  match e.cell i j with
  | some o => data.set o x
  | none => data

/-- the layout a composition reports, declaratively: that of its source for ranges, maps and the
    tensor round trip, `Other` after a reversal, row- and column-major exchanged by a transposition -/
def MExpr.layoutSpec : MExpr → MLayout
  | .leaf _ _ => .rowMajor
  | .leafCM _ _ => .columnMajor
  | .part _ _ _ _ _ _ => .rowMajor
  | .range e _ _ => e.layoutSpec
  | .reverse _ _ _ => .other
  | .map e => e.layoutSpec
  | .viaTensor e => e.layoutSpec
  | .swapped e =>
    match e.layoutSpec with
    | .rowMajor => .columnMajor
    | .columnMajor => .rowMajor
    | .other => .other

/-- two sources are equal when they have the same size and equal elements at every index -/
def gridEqSpec (l r : Grid) : Prop :=
  l.rows = r.rows ∧ l.columns = r.columns ∧ ∀ i j, i < l.rows → j < l.columns → l.elem i j = r.elem i j

/-! ### partitions -/

/-- the row slices (as offsets) of the sub-grid `[rs, rs+rl) × [cs, cs+cl)` of a matrix with
    `columns` columns -/
def partSlices (columns rs rl cs cl : Nat) : List (List Nat) :=
  (List.range rl).map fun i => List.range' ((rs + i) * columns + cs) cl

/-- the parts of a partition in row-major grid order -/
def gridSpec (m : MatrixMeta) (rowPartitions columnPartitions : List Nat) : List MatrixPart :=
  (diffs (rowPartitions ++ [m.rows]) 0).flatMap fun (rs, rl) =>
    (diffs (columnPartitions ++ [m.columns]) 0).map fun (cs, cl) =>
      MatrixPart.ofSlices (partSlices m.columns rs rl cs cl)

/-- The outcome of `Matrix::partition`: the grid, or the panic it raises (in the order the code
    reaches them). -/
def partitionSpec (m : MatrixMeta) (rowPartitions columnPartitions : List Nat) :
    Outcome (List MatrixPart) :=
  if !axisChecked rowPartitions m.rows then .panic .explicit
  else if !axisChecked columnPartitions m.columns then .panic .explicit
  else if ¬ (rowPartitions.length + 1) * (columnPartitions.length + 1) ≤ usizeMax then
    .panic .overflow
  else if !(sortedLe rowPartitions && sortedLe columnPartitions) then .panic .overflow
  else .ok (gridSpec m rowPartitions columnPartitions)

/-- the cells (offsets) a part exposes -/
def MatrixPart.cells (p : MatrixPart) : List Nat :=
  ((p.data.take p.rows).map fun slice => slice.take p.columns).flatten

/-! ### views over a source that changes after construction -/

/-- the reversal flags of the adaptors around the matrix, innermost first -/
def Live.flags {α : Type} : Live α → List (Bool × Bool)
  | .matrix _ => []
  | .reverse s fr fc => s.flags ++ [(fr, fc)]

/-- reversals with the given flags (innermost first) over a matrix of the given size -/
def reversalsOver (rows columns : Nat) (flags : List (Bool × Bool)) : MExpr :=
  flags.foldl (fun e f => .reverse e f.1 f.2) (.leaf rows columns)

end EasyMl.MatrixView
