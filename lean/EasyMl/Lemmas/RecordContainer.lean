/-
  EasyMl.Lemmas.RecordContainer — helper lemmas for Props/C06.lean: the batch appenders of the
  record containers append exactly what the scalar record operators append element by element.

  Self-contained (names live in `EasyMl.RC`): imports the models and single Mathlib modules only.
-/
import EasyMl.Spec.RecordContainer
import Mathlib.Algebra.Field.Basic
import Mathlib.Tactic.Ring

namespace EasyMl.RC
open EasyMl EasyMl.Fn

set_option linter.unusedSectionVars false
set_option linter.unusedSimpArgs false

/-! ### worlds -/

section World
variable {R : Type}

@[simp] theorem update_same (w : World R) (h : Nat) (t : Tape R) : (w.update h t) h = t := by
  simp [World.update]

@[simp] theorem update_update (w : World R) (h : Nat) (t1 t2 : Tape R) :
    (w.update h t1).update h t2 = w.update h t2 := by
  funext j; simp only [World.update]; split <;> rfl

@[simp] theorem update_self (w : World R) (h : Nat) : w.update h (w h) = w := by
  funext j; simp only [World.update]; split
  · next hj => rw [hj]
  · rfl

end World

/-! ### rows and columns of mapped lists -/

theorem rowOf_map' {α β : Type} (f : α → β) (l : List α) (n i : Nat) :
    Cont.rowOf (l.map f) n i = (Cont.rowOf l n i).map f := by
  simp [Cont.rowOf, List.map_take, List.map_drop]

theorem colOf_map' {α β : Type} (f : α → β) (l : List α) (n k j : Nat) :
    Cont.colOf (l.map f) n k j = (Cont.colOf l n k j).map f := by
  simp only [Cont.colOf, List.map_filterMap, List.getElem?_map]

/-! ### records of a container -/

section Recs
variable {R : Type}

/-- the records of an element list under a given tape -/
def recsOf (h : Option Nat) (elems : List (R × Nat)) : List (Rec R) :=
  elems.map fun e => ⟨e.1, h, e.2⟩

theorem toRecs_eq (c : Cont R) : c.toRecs = recsOf c.history c.elems := rfl

@[simp] theorem recsOf_nil (h : Option Nat) : recsOf h ([] : List (R × Nat)) = [] := rfl

@[simp] theorem recsOf_cons (h : Option Nat) (e : R × Nat) (es : List (R × Nat)) :
    recsOf h (e :: es) = ⟨e.1, h, e.2⟩ :: recsOf h es := rfl

@[simp] theorem recsOf_length (h : Option Nat) (es : List (R × Nat)) :
    (recsOf h es).length = es.length := by simp [recsOf]

end Recs

/-! ### every scalar operator is `Rec.unary` / `Rec.binary` with the functions of functions.rs -/

section Shapes
variable {R : Type} [Field R] [RealFns R]

theorem addNum_eq (a : Rec R) (c : R) (w : World R) :
    a.addNum c w = a.unary (fun x => Addition.function x c) (fun x => Addition.dx x c) w := by
  unfold Rec.addNum Rec.unary; cases a.history <;> rfl

theorem subNum_eq (a : Rec R) (c : R) (w : World R) :
    a.subNum c w = a.unary (fun x => Subtraction.function x c) (fun x => Subtraction.dx x c) w := by
  unfold Rec.subNum Rec.unary; cases a.history <;> rfl

theorem mulNum_eq (a : Rec R) (c : R) (w : World R) :
    a.mulNum c w = a.unary (fun x => Multiplication.function x c) (fun x => Multiplication.dx x c) w := by
  unfold Rec.mulNum Rec.unary; cases a.history <;> rfl

theorem divNum_eq (a : Rec R) (c : R) (w : World R) :
    a.divNum c w = a.unary (fun x => Division.function x c) (fun x => Division.dx x c) w := by
  unfold Rec.divNum Rec.unary; cases a.history <;> rfl

theorem subSwapped_eq (a : Rec R) (c : R) (w : World R) :
    a.subSwapped c w = a.unary (fun x => Subtraction.function c x) (fun x => Subtraction.dy c x) w := by
  unfold Rec.subSwapped Rec.unary; cases a.history <;> rfl

theorem divSwapped_eq (a : Rec R) (c : R) (w : World R) :
    a.divSwapped c w = a.unary (fun x => Division.function c x) (fun x => Division.dy c x) w := by
  unfold Rec.divSwapped Rec.unary; cases a.history <;> rfl

/-- a record is negated as `0 − x` (record_operations.rs:754), a container as `−x` with the
    weight `−1` (functions.rs:147): the same over a ring -/
theorem neg_eq (a : Rec R) (w : World R) :
    a.neg w = a.unary (fun x => -x) (fun _ => -1) w := by
  unfold Rec.neg
  cases hah : a.history with
  | none => simp [Rec.unary, hah]
  | some h' => simp [subSwapped_eq, Rec.unary, hah, Subtraction.function, Subtraction.dy]

theorem sin_eq (a : Rec R) (w : World R) : a.sin w = a.unary Sine.function Sine.dx w := by
  unfold Rec.sin Rec.unary; cases a.history <;> rfl

theorem cos_eq (a : Rec R) (w : World R) : a.cos w = a.unary Cosine.function Cosine.dx w := by
  unfold Rec.cos Rec.unary; cases a.history <;> rfl

theorem exp_eq (a : Rec R) (w : World R) :
    a.exp w = a.unary Exponential.function Exponential.dx w := by
  unfold Rec.exp Rec.unary; cases a.history <;> rfl

theorem ln_eq (a : Rec R) (w : World R) :
    a.ln w = a.unary NaturalLogarithm.function NaturalLogarithm.dx w := by
  unfold Rec.ln Rec.unary; cases a.history <;> rfl

theorem sqrt_eq (a : Rec R) (w : World R) :
    a.sqrt w = a.unary SquareRoot.function SquareRoot.dx w := by
  unfold Rec.sqrt Rec.unary; cases a.history <;> rfl

theorem powNum_eq (a : Rec R) (c : R) (w : World R) :
    a.powNum c w = a.unary (fun x => Power.function x c) (fun x => Power.dx x c) w := by
  unfold Rec.powNum Rec.unary; cases a.history <;> rfl

theorem numPow_eq (c : R) (a : Rec R) (w : World R) :
    Rec.numPow c a w = a.unary (fun x => Power.function c x) (fun x => Power.dy c x) w := by
  unfold Rec.numPow Rec.unary; cases a.history <;> rfl

/-- the constant-first arm of `&Record + &Record` computes `rhs + lhs` (record_operations.rs:177) -/
theorem add_eq (a b : Rec R) (w : World R) :
    a.add b w = a.binary b Addition.function Addition.dx Addition.dy w := by
  unfold Rec.add Rec.binary
  split
  · rfl
  · cases hah : a.history <;> cases hbh : b.history <;>
      simp [Rec.addNum, hah, hbh, Addition.function, Addition.dx, Addition.dy, add_comm]

theorem mul_eq (a b : Rec R) (w : World R) :
    a.mul b w = a.binary b Multiplication.function Multiplication.dx Multiplication.dy w := by
  unfold Rec.mul Rec.binary
  split
  · rfl
  · cases hah : a.history <;> cases hbh : b.history <;>
      simp [Rec.mulNum, hah, hbh, Multiplication.function, Multiplication.dx, Multiplication.dy,
        mul_comm]

theorem sub_eq (a b : Rec R) (w : World R) :
    a.sub b w = a.binary b Subtraction.function Subtraction.dx Subtraction.dy w := by
  unfold Rec.sub Rec.binary
  split
  · rfl
  · cases hah : a.history <;> cases hbh : b.history <;>
      simp [Rec.subNum, Rec.subSwapped, hah, hbh]

theorem div_eq (a b : Rec R) (w : World R) :
    a.div b w = a.binary b Division.function Division.dx Division.dy w := by
  unfold Rec.div Rec.binary
  split
  · rfl
  · cases hah : a.history <;> cases hbh : b.history <;>
      simp [Rec.divNum, Rec.divSwapped, hah, hbh]

/-- every scalar operator of the catalogue is `Rec.unary` with the functions of the container
    operator -/
theorem uop_scalar_eq (op : UOp R) (r : Rec R) (w : World R) :
    op.scalar r w = r.unary op.fns.1 op.fns.2 w := by
  cases op <;> simp only [UOp.scalar, UOp.fns]
  · exact addNum_eq r _ w
  · exact subNum_eq r _ w
  · exact mulNum_eq r _ w
  · exact divNum_eq r _ w
  · exact subSwapped_eq r _ w
  · exact divSwapped_eq r _ w
  · exact neg_eq r w
  · exact sin_eq r w
  · exact cos_eq r w
  · exact exp_eq r w
  · exact ln_eq r w
  · exact sqrt_eq r w
  · exact powNum_eq r _ w
  · exact numPow_eq _ r w

/-- every container operator of the catalogue is `Cont.unary` with the same functions -/
theorem uop_container_eq (op : UOp R) (c : Cont R) (w : World R) :
    op.container c w = c.unary op.fns.1 op.fns.2 w := by
  cases op <;> rfl

theorem bop_scalar_eq (op : BOp R) (a b : Rec R) (w : World R) :
    op.scalar a b w = a.binary b op.fns.1 op.fns.2.1 op.fns.2.2 w := by
  cases op <;> simp only [BOp.scalar, BOp.fns]
  · exact add_eq a b w
  · exact sub_eq a b w
  · exact mul_eq a b w
  · exact div_eq a b w

end Shapes

/-! ### the batch appenders against the scalar operators -/

section Batch
variable {R : Type} [Zero R]

/-- scalar `Rec.unary` on constants: no tape is touched -/
theorem mapRecs_unary_none (fx dfx : R → R) (es : List (R × Nat)) (w : World R) :
    Cont.mapRecs (fun r => r.unary fx dfx) (recsOf none es) w
      = (recsOf none (es.map fun e => (fx e.1, 0)), w) := by
  induction es with
  | nil => rfl
  | cons e es ih =>
    simp only [recsOf_cons, Cont.mapRecs, Rec.unary, ih, List.map_cons, Rec.constant]

/-- `fn unary` (the batch appender) appends what `Rec.unary` appends element by element -/
theorem mapRecs_unary_some (fx dfx : R → R) (h : Nat) (es : List (R × Nat)) (w : World R) :
    Cont.mapRecs (fun r => r.unary fx dfx) (recsOf (some h) es) w
      = (recsOf (some h) (Tape.batchUnary fx dfx es (w h)).1,
         w.update h (Tape.batchUnary fx dfx es (w h)).2) := by
  induction es generalizing w with
  | nil => simp [Cont.mapRecs, Tape.batchUnary]
  | cons e es ih =>
    obtain ⟨x, p⟩ := e
    simp only [recsOf_cons, Cont.mapRecs, Rec.unary, Rec.pushUnary, Tape.batchUnary,
      Tape.appendUnary, ih, update_same, update_update]

theorem zipRecs_binary_none_none (f dfx dfy : R → R → R) (as bs : List (R × Nat)) (w : World R) :
    zipRecs (fun x y => x.binary y f dfx dfy) (recsOf none as) (recsOf none bs) w
      = .ok (recsOf none ((as.zip bs).map fun p => (f p.1.1 p.2.1, 0)), w) := by
  induction as generalizing bs with
  | nil => simp [zipRecs]
  | cons a as ih =>
    cases bs with
    | nil => simp [zipRecs]
    | cons b bs =>
      simp [zipRecs, Rec.binary, Rec.sameList, ih, Rec.constant]

theorem zipRecs_binary_some_none (f dfx dfy : R → R → R) (h : Nat) (as bs : List (R × Nat))
    (w : World R) :
    zipRecs (fun x y => x.binary y f dfx dfy) (recsOf (some h) as) (recsOf none bs) w
      = .ok (recsOf (some h) (Tape.batchX f dfx (as.zip bs) (w h)).1,
             w.update h (Tape.batchX f dfx (as.zip bs) (w h)).2) := by
  induction as generalizing bs w with
  | nil => simp [zipRecs, Tape.batchX]
  | cons a as ih =>
    cases bs with
    | nil => simp [zipRecs, Tape.batchX]
    | cons b bs =>
      obtain ⟨x, p⟩ := a
      obtain ⟨y, q⟩ := b
      simp [zipRecs, Rec.binary, Rec.sameList, Rec.pushUnary, Tape.appendUnary, ih, Tape.batchX]

theorem zipRecs_binary_none_some (f dfx dfy : R → R → R) (h : Nat) (as bs : List (R × Nat))
    (w : World R) :
    zipRecs (fun x y => x.binary y f dfx dfy) (recsOf none as) (recsOf (some h) bs) w
      = .ok (recsOf (some h) (Tape.batchY f dfy (as.zip bs) (w h)).1,
             w.update h (Tape.batchY f dfy (as.zip bs) (w h)).2) := by
  induction as generalizing bs w with
  | nil => simp [zipRecs, Tape.batchY]
  | cons a as ih =>
    cases bs with
    | nil => simp [zipRecs, Tape.batchY]
    | cons b bs =>
      obtain ⟨x, p⟩ := a
      obtain ⟨y, q⟩ := b
      simp [zipRecs, Rec.binary, Rec.sameList, Rec.pushUnary, Tape.appendUnary, ih, Tape.batchY]

theorem zipRecs_binary_some_some (f dfx dfy : R → R → R) (h : Nat) (as bs : List (R × Nat))
    (w : World R) :
    zipRecs (fun x y => x.binary y f dfx dfy) (recsOf (some h) as) (recsOf (some h) bs) w
      = .ok (recsOf (some h) (Tape.batchBoth f dfx dfy (as.zip bs) (w h)).1,
             w.update h (Tape.batchBoth f dfx dfy (as.zip bs) (w h)).2) := by
  induction as generalizing bs w with
  | nil => simp [zipRecs, Tape.batchBoth]
  | cons a as ih =>
    cases bs with
    | nil => simp [zipRecs, Tape.batchBoth]
    | cons b bs =>
      obtain ⟨x, p⟩ := a
      obtain ⟨y, q⟩ := b
      simp [zipRecs, Rec.binary, Rec.sameList, Rec.pushBinary, Tape.appendBinary, ih,
        Tape.batchBoth]

/-- two non-empty containers of two different tapes: the first scalar pair is rejected -/
theorem zipRecs_binary_cross (f dfx dfy : R → R → R) (h h' : Nat) (hne : h ≠ h')
    (as bs : List (R × Nat)) (ha : as ≠ []) (hb : bs ≠ []) (w : World R) :
    zipRecs (fun x y => x.binary y f dfx dfy) (recsOf (some h) as) (recsOf (some h') bs) w
      = .panic .explicit := by
  cases as with
  | nil => exact absurd rfl ha
  | cons a as =>
    cases bs with
    | nil => exact absurd rfl hb
    | cons b bs =>
      simp [zipRecs, Rec.binary, Rec.sameList, hne]

end Batch

/-! ### whole containers -/

section Containers
variable {R : Type} [Zero R]

/-- what a container operation yields, as records and tapes -/
def asRecs (x : Cont R × World R) : List (Rec R) × World R := (x.1.toRecs, x.2)

theorem unary_eq (c : Cont R) (fx dfx : R → R) (w : World R) :
    asRecs (c.unary fx dfx w) = Cont.mapRecs (fun r => r.unary fx dfx) c.toRecs w := by
  unfold Cont.unary asRecs
  cases hh : c.history with
  | none =>
    simp only [toRecs_eq, hh, mapRecs_unary_none, Cont.constants]
    simp [recsOf, List.map_map, Function.comp_def]
  | some h => simp only [toRecs_eq, hh, mapRecs_unary_some]

theorem unary_shape (c : Cont R) (fx dfx : R → R) (w : World R) :
    (c.unary fx dfx w).1.shape = c.shape ∧ (c.unary fx dfx w).1.history = c.history := by
  unfold Cont.unary
  cases hh : c.history <;> simp [Cont.constants]

theorem binary_eq (a b : Cont R) (f dfx dfy : R → R → R) (w : World R)
    (hs : a.shape = b.shape) (ha : a.elems ≠ []) (hb : b.elems ≠ []) :
    (a.binary b f dfx dfy w).map asRecs
      = zipRecs (fun x y => x.binary y f dfx dfy) a.toRecs b.toRecs w := by
  unfold Cont.binary
  simp only [hs, ne_eq, not_true_eq_false, if_false, toRecs_eq]
  cases hha : a.history with
  | none =>
    cases hhb : b.history with
    | none =>
      simp only [zipRecs_binary_none_none, Outcome.map, asRecs, Cont.constants, toRecs_eq]
      simp [recsOf, List.map_map, Function.comp_def]
    | some h => simp only [zipRecs_binary_none_some, Outcome.map, asRecs, toRecs_eq]
  | some h =>
    cases hhb : b.history with
    | none => simp only [zipRecs_binary_some_none, Outcome.map, asRecs, toRecs_eq]
    | some h' =>
      by_cases hne : h = h'
      · subst hne
        simp only [ne_eq, not_true_eq_false, if_false, zipRecs_binary_some_some, Outcome.map,
          asRecs, toRecs_eq]
      · simp only [ne_eq, hne, not_false_eq_true, if_true, Outcome.map,
          zipRecs_binary_cross f dfx dfy h h' hne _ _ ha hb]

theorem binary_shape_mismatch (a b : Cont R) (f dfx dfy : R → R → R) (w : World R)
    (hs : a.shape ≠ b.shape) : a.binary b f dfx dfy w = .panic .explicit := by
  unfold Cont.binary; simp [hs]

/-- the `are_same_list` assertion of `+` / `-` rejects nothing `binary` would not reject itself -/
theorem guard_binary (a b : Cont R) (f dfx dfy : R → R → R) (w : World R) :
    (if !areSameList a.history b.history then Outcome.panic PanicKind.explicit
     else a.binary b f dfx dfy w) = a.binary b f dfx dfy w := by
  cases hha : a.history with
  | none => simp [areSameList]
  | some h =>
    cases hhb : b.history with
    | none => simp [areSameList]
    | some h' =>
      by_cases hne : h = h'
      · simp [areSameList, hne]
      · have hb : (h == h') = false := by simpa using hne
        unfold Cont.binary
        simp only [areSameList, hb, Bool.not_false, if_true, hha, hhb, ne_eq, hne,
          not_false_eq_true]
        split <;> rfl

end Containers

/-! ### assigning forms -/

section Assign
variable {R : Type} [Zero R]

theorem unaryAssign_eq (c : Cont R) (fx dfx : R → R) (w : World R)
    (hc : c.history = none → ∀ e ∈ c.elems, e.2 = 0) :
    c.unaryAssign fx dfx w
      = ({ c with elems := (c.unary fx dfx w).1.elems, history := (c.unary fx dfx w).1.history },
         (c.unary fx dfx w).2) := by
  unfold Cont.unaryAssign Cont.unary
  cases hh : c.history with
  | none =>
    have h0 := hc hh
    simp only [Cont.constants, List.map_map, Prod.mk.injEq, and_true]
    congr 1
    apply List.map_congr_left
    intro e he
    simp [h0 e he]
  | some h => rfl

theorem binaryLeftAssign_eq (a b : Cont R) (f dfx dfy : R → R → R) (w : World R) :
    a.binaryLeftAssign b f dfx dfy w
      = (a.binary b f dfx dfy w).map fun r =>
          ({ a with elems := r.1.elems, history := r.1.history }, r.2) := by
  unfold Cont.binaryLeftAssign Cont.binary
  split
  · rfl
  · cases hha : a.history <;> cases hhb : b.history
    · simp [Outcome.map, Cont.constants, List.map_map, Function.comp_def]
    · rfl
    · rfl
    · simp only []
      split <;> rfl

end Assign

/-! ### `binary_right_assign`: the same entries with the two parents written in the other order -/

section Swap
variable {R : Type}

/-- the entry with its two (parent, weight) pairs exchanged -/
def swapOp (op : Op R) : Op R :=
  ⟨op.rightParent, op.leftParent, op.rightDerivative, op.leftDerivative⟩

/-- `t` with the entries from position `k` on swapped -/
def swapFrom (k : Nat) (t : Tape R) : Tape R := t.take k ++ (t.drop k).map swapOp

theorem swapFrom_length (k : Nat) (t : Tape R) : (swapFrom k t).length = t.length := by
  simp [swapFrom]; omega

theorem swapFrom_all (t : Tape R) : swapFrom t.length t = t := by simp [swapFrom]

theorem swapFrom_snoc (k : Nat) (t : Tape R) (e : Op R) (hk : k ≤ t.length) :
    swapFrom k (t ++ [e]) = swapFrom k t ++ [swapOp e] := by
  simp [swapFrom, List.take_append_of_le_length hk, List.drop_append_of_le_length hk]

/-- `batchBoth` with every function's arguments exchanged over the exchanged pairs appends the
    swapped entries and yields the same numbers and positions -/
theorem batchBoth_swapped (f dfx dfy : R → R → R) (as bs : List (R × Nat)) (k : Nat) (t : Tape R)
    (hk : k ≤ t.length) :
    Tape.batchBoth (fun y x => f x y) (fun y x => dfy x y) (fun y x => dfx x y) (bs.zip as)
        (swapFrom k t)
      = ((Tape.batchBoth f dfx dfy (as.zip bs) t).1,
         swapFrom k (Tape.batchBoth f dfx dfy (as.zip bs) t).2) := by
  induction as generalizing bs t with
  | nil => cases bs <;> simp [Tape.batchBoth]
  | cons a as ih =>
    cases bs with
    | nil => simp [Tape.batchBoth]
    | cons b bs =>
      obtain ⟨x, p⟩ := a
      obtain ⟨y, q⟩ := b
      have hk' : k ≤ (t ++ [(⟨p, q, dfx x y, dfy x y⟩ : Op R)]).length := by
        simp; omega
      have := ih bs (t ++ [⟨p, q, dfx x y, dfy x y⟩]) hk'
      simp only [List.zip_cons_cons, Tape.batchBoth, Tape.appendBinary, swapFrom_length]
      rw [swapFrom_snoc k t _ hk] at this
      simp only [swapOp] at this
      rw [this]

end Swap

section AssignRight
variable {R : Type} [Zero R]

/-- the tapes after `binary_right_assign`, given the tapes `w'` after the allocating `binary`:
    when both containers are variables the appended entries are the swapped ones -/
def rightAssignWorld (a b : Cont R) (w w' : World R) : World R :=
  match a.history, b.history with
  | some _, some h => w'.update h (swapFrom (w h).length (w' h))
  | _, _ => w'

theorem batchX_swapped (f dfx : R → R → R) (as bs : List (R × Nat)) (t : Tape R) :
    Tape.batchY (fun y x => f x y) (fun y x => dfx x y) (bs.zip as) t
      = Tape.batchX f dfx (as.zip bs) t := by
  induction as generalizing bs t with
  | nil => cases bs <;> simp [Tape.batchX, Tape.batchY]
  | cons a as ih =>
    cases bs with
    | nil => simp [Tape.batchX, Tape.batchY]
    | cons b bs => simp [Tape.batchX, Tape.batchY, ih]

theorem batchY_swapped (f dfy : R → R → R) (as bs : List (R × Nat)) (t : Tape R) :
    Tape.batchX (fun y x => f x y) (fun y x => dfy x y) (bs.zip as) t
      = Tape.batchY f dfy (as.zip bs) t := by
  induction as generalizing bs t with
  | nil => cases bs <;> simp [Tape.batchX, Tape.batchY]
  | cons a as ih =>
    cases bs with
    | nil => simp [Tape.batchX, Tape.batchY]
    | cons b bs => simp [Tape.batchX, Tape.batchY, ih]

theorem zip_swap_map (f : R → R → R) (as bs : List (R × Nat)) :
    ((bs.zip as).map fun p => (f p.2.1 p.1.1, 0)) = ((as.zip bs).map fun p => (f p.1.1 p.2.1, (0 : Nat))) := by
  induction as generalizing bs with
  | nil => cases bs <;> simp
  | cons a as ih =>
    cases bs with
    | nil => simp
    | cons b bs => simp [ih]

theorem binaryRightAssign_eq (a b : Cont R) (f dfx dfy : R → R → R) (w : World R) :
    a.binaryRightAssign b f dfx dfy w
      = (a.binary b f dfx dfy w).map fun r =>
          ({ b with elems := r.1.elems, history := r.1.history }, rightAssignWorld a b w r.2) := by
  unfold Cont.binaryRightAssign Cont.binaryLeftAssign Cont.binary rightAssignWorld
  by_cases hs : a.shape = b.shape
  · have hs' : ¬ b.shape ≠ a.shape := by simp [hs]
    have hs'' : ¬ a.shape ≠ b.shape := by simp [hs]
    simp only [hs', hs'', if_false]
    cases hha : a.history <;> cases hhb : b.history
    · simp [Outcome.map, Cont.constants, zip_swap_map]
    · rename_i h
      simp only [Outcome.map, batchY_swapped]
    · rename_i h
      simp only [Outcome.map, batchX_swapped]
    · rename_i h h'
      by_cases hne : h = h'
      · subst hne
        simp only [ne_eq, not_true_eq_false, if_false, Outcome.map]
        have := batchBoth_swapped f dfx dfy a.elems b.elems (w h).length (w h) (Nat.le_refl _)
        rw [swapFrom_all] at this
        simp only [this, update_same, update_update]
      · have hne' : h' ≠ h := fun e => hne e.symm
        simp [hne, hne', Outcome.map]
  · have hs' : b.shape ≠ a.shape := fun e => hs e.symm
    simp [hs, hs', Outcome.map]

end AssignRight

/-! ### the reverse sweep does not see in which order an entry names its two parents -/

section SweepSwap
variable {R : Type} [CommRing R]

/-- two tapes of the same length whose entries agree up to the order of the two parents -/
def SwapEquiv (t t' : Tape R) : Prop :=
  t.length = t'.length ∧ ∀ i (h : i < t.length) (h' : i < t'.length), t'[i] = t[i] ∨ t'[i] = swapOp t[i]

theorem SwapEquiv.refl (t : Tape R) : SwapEquiv t t := ⟨rfl, fun _ _ _ => Or.inl rfl⟩

theorem swapFrom_getElem (k : Nat) (t : Tape R) (i : Nat) (h : i < t.length)
    (h' : i < (swapFrom k t).length) :
    (swapFrom k t)[i] = if i < k then t[i] else swapOp t[i] := by
  simp only [swapFrom, List.getElem_append, List.length_take, List.getElem_take, List.getElem_map,
    List.getElem_drop]
  by_cases hik : i < k
  · have : i < min k t.length := by omega
    simp [hik, this]
  · have : ¬ i < min k t.length := by omega
    simp only [hik, this, dite_false, if_false]
    congr 2
    omega

theorem swapEquiv_swapFrom (k : Nat) (t : Tape R) : SwapEquiv t (swapFrom k t) := by
  refine ⟨(swapFrom_length k t).symm, fun i h h' => ?_⟩
  rw [swapFrom_getElem k t i h h']
  by_cases hik : i < k
  · left; simp [hik]
  · right; simp [hik]

theorem SwapEquiv.append {t t' : Tape R} (h : SwapEquiv t t') (ext : Tape R) :
    SwapEquiv (t ++ ext) (t' ++ ext) := by
  refine ⟨by simp [h.1], fun i hi hi' => ?_⟩
  have hlen := h.1
  by_cases hlt : i < t.length
  · have hlt' : i < t'.length := h.1 ▸ hlt
    rw [List.getElem_append_left hlt, List.getElem_append_left hlt']
    exact h.2 i hlt hlt'
  · left
    rw [List.getElem_append_right (by omega), List.getElem_append_right (by omega)]
    simp [h.1]

theorem sweepEntry_swapOp (op : Op R) (i : Nat) (d : List R) :
    sweepEntry (swapOp op) i d = sweepEntry op i d := by
  unfold sweepEntry swapOp
  by_cases hi : i < d.length
  · simp only [hi, dite_true]
    by_cases h1 : op.leftParent = i <;> by_cases h2 : op.rightParent = i
    · simp only [h1, h2, if_true]
    · simp only [h1, h2, if_true, if_false]
      cases accumulate d op.rightParent (d[i] * op.rightDerivative) <;> rfl
    · simp only [h1, h2, if_true, if_false]
      cases accumulate d op.leftParent (d[i] * op.leftDerivative) <;> rfl
    · simp only [h1, h2, if_false]
      unfold accumulate
      by_cases hl : op.leftParent < d.length <;> by_cases hr : op.rightParent < d.length
      · simp only [hl, hr, dite_true, List.length_set]
        congr 1
        by_cases heq : op.leftParent = op.rightParent
        · simp only [heq, List.getElem_set_self, List.set_set]
          congr 1
          ring
        · have heq' : op.rightParent ≠ op.leftParent := fun e => heq e.symm
          simp only [List.getElem_set_ne heq, List.getElem_set_ne heq']
          exact List.set_comm _ _ heq'
      · simp [hl, hr, List.length_set]
      · simp [hl, hr, List.length_set]
      · simp [hl, hr, List.length_set]
  · simp [hi]

theorem sweepFrom_swapEquiv {t t' : Tape R} (h : SwapEquiv t t') (i : Nat) (d : List R) :
    sweepFrom t' i d = sweepFrom t i d := by
  induction i generalizing d with
  | zero => rfl
  | succ i ih =>
    unfold sweepFrom
    by_cases hi : i < t.length
    · have hi' : i < t'.length := h.1 ▸ hi
      rw [List.getElem?_eq_getElem hi, List.getElem?_eq_getElem hi']
      have hop : sweepEntry t'[i] i d = sweepEntry t[i] i d := by
        rcases h.2 i hi hi' with e | e
        · rw [e]
        · rw [e, sweepEntry_swapOp]
      simp only [hop]
      cases sweepEntry t[i] i d with
      | ok d' => exact ih d'
      | panic k => rfl
    · have hi' : ¬ i < t'.length := h.1 ▸ hi
      rw [List.getElem?_eq_none (by omega), List.getElem?_eq_none (by omega)]

/-- derivative vectors do not depend on the order in which entries name their two parents -/
theorem reverseSweep_swapEquiv {t t' : Tape R} (h : SwapEquiv t t') (y : Nat) :
    reverseSweep t' y = reverseSweep t y := by
  unfold reverseSweep
  simp only [← h.1, sweepFrom_swapEquiv h]

end SweepSwap

/-! ### `variables`, `reset`: blocks of nullary entries -/

section Nullary
variable {R : Type} [Zero R]

/-- `n` nullary entries for the positions `start, start+1, …` -/
def nullaries (start n : Nat) : Tape R :=
  (List.range n).map fun i => ⟨start + i, start + i, 0, 0⟩

theorem nullaries_succ (start n : Nat) :
    (nullaries start (n + 1) : Tape R) = ⟨start, start, 0, 0⟩ :: nullaries (start + 1) n := by
  simp only [nullaries, List.range_succ_eq_map, List.map_cons, List.map_map, Nat.add_zero]
  congr 1
  apply List.map_congr_left
  intro i _
  simp only [Function.comp]
  congr 1 <;> omega

theorem incrementingIndexes_succ (start n : Nat) :
    incrementingIndexes start (n + 1) = start :: incrementingIndexes (start + 1) n := by
  simp only [incrementingIndexes, List.range_succ_eq_map, List.map_cons, List.map_map, Nat.add_zero]
  congr 1
  apply List.map_congr_left
  intro i _
  simp only [Function.comp]
  omega

theorem foldl_snoc_map {α β : Type} (f : α → β) (l : List α) (t : List β) :
    l.foldl (fun acc i => acc ++ [f i]) t = t ++ l.map f := by
  induction l generalizing t with
  | nil => simp
  | cons a l ih => simp [ih]

theorem appendNullaryRepeating_eq (t : Tape R) (n : Nat) :
    t.appendNullaryRepeating n = (t.length, t ++ nullaries t.length n) := by
  unfold Tape.appendNullaryRepeating nullaries
  simp only [foldl_snoc_map]

/-- `Record::variable` element by element allocates the block `append_nullary_repeating` does -/
theorem variablesRecs_eq (h : Nat) (vals : List R) (w : World R) :
    variablesRecs h vals w
      = (recsOf (some h) (vals.zip (incrementingIndexes (w h).length vals.length)),
         w.update h (w h ++ nullaries (w h).length vals.length)) := by
  induction vals generalizing w with
  | nil => simp [variablesRecs, nullaries, incrementingIndexes]
  | cons x vals ih =>
    simp only [variablesRecs, Rec.mkVar, Tape.appendNullary, ih, update_same, update_update,
      List.length_cons, List.length_append, List.length_nil, Nat.zero_add,
      incrementingIndexes_succ, nullaries_succ, List.zip_cons_cons, recsOf_cons,
      List.append_assoc, List.cons_append, List.nil_append]

/-- `Record::reset` element by element allocates the block the container `reset` does -/
theorem resetRecs_some (h : Nat) (es : List (R × Nat)) (w : World R) :
    resetRecs (recsOf (some h) es) w
      = (recsOf (some h) ((es.zip (incrementingIndexes (w h).length es.length)).map
            fun p => (p.1.1, p.2)),
         w.update h (w h ++ nullaries (w h).length es.length)) := by
  unfold resetRecs
  induction es generalizing w with
  | nil => simp [Cont.mapRecs, nullaries, incrementingIndexes]
  | cons e es ih =>
    simp only [recsOf_cons, Cont.mapRecs, Rec.reset, Tape.appendNullary, ih, update_same,
      update_update, List.length_cons, List.length_append, List.length_nil, Nat.zero_add,
      incrementingIndexes_succ, nullaries_succ, List.zip_cons_cons, List.map_cons,
      List.append_assoc, List.cons_append, List.nil_append]

theorem resetRecs_none (es : List (R × Nat)) (w : World R) :
    resetRecs (recsOf none es) w = (recsOf none es, w) := by
  unfold resetRecs
  induction es with
  | nil => rfl
  | cons e es ih => simp only [recsOf_cons, Cont.mapRecs, Rec.reset, ih]

theorem variables_eq (h : Nat) (shape : Shape String) (vals : List R) (w : World R)
    (hlen : vals.length = elements shape) :
    asRecs (Cont.variables h shape vals w) = variablesRecs h vals w := by
  simp only [Cont.variables, asRecs, appendNullaryRepeating_eq, variablesRecs_eq, toRecs_eq, hlen]

theorem reset_eq (c : Cont R) (w : World R) (hlen : c.elems.length = elements c.shape) :
    asRecs (c.reset w) = resetRecs c.toRecs w := by
  unfold Cont.reset
  cases hh : c.history with
  | none => simp only [asRecs, toRecs_eq, hh, resetRecs_none]
  | some h =>
    simp only [asRecs, toRecs_eq, hh, resetRecs_some, appendNullaryRepeating_eq, Cont.total, hlen]

end Nullary

/-! ### positions handed out, well-formedness, cross-tape rejection -/

section Positions
variable {R : Type} [Zero R]

theorem batchUnary_spec (fx dfx : R → R) (es : List (R × Nat)) (t : Tape R) :
    (Tape.batchUnary fx dfx es t).1.map (·.2) = incrementingIndexes t.length es.length
      ∧ (Tape.batchUnary fx dfx es t).2.length = t.length + es.length := by
  induction es generalizing t with
  | nil => simp [Tape.batchUnary, incrementingIndexes]
  | cons e es ih =>
    obtain ⟨x, p⟩ := e
    have := ih (t ++ [⟨p, t.length, dfx x, 0⟩])
    simp only [List.length_append, List.length_cons, List.length_nil, Nat.zero_add] at this
    simp only [Tape.batchUnary, Tape.appendUnary, List.map_cons, List.length_cons,
      incrementingIndexes_succ, this.1, this.2]
    exact ⟨trivial, by omega⟩

theorem batchX_spec (f dfx : R → R → R) (ps : List ((R × Nat) × (R × Nat))) (t : Tape R) :
    (Tape.batchX f dfx ps t).1.map (·.2) = incrementingIndexes t.length ps.length
      ∧ (Tape.batchX f dfx ps t).2.length = t.length + ps.length := by
  induction ps generalizing t with
  | nil => simp [Tape.batchX, incrementingIndexes]
  | cons e es ih =>
    obtain ⟨⟨x, p⟩, ⟨y, q⟩⟩ := e
    have := ih (t ++ [⟨p, t.length, dfx x y, 0⟩])
    simp only [List.length_append, List.length_cons, List.length_nil, Nat.zero_add] at this
    simp only [Tape.batchX, Tape.appendUnary, List.map_cons, List.length_cons,
      incrementingIndexes_succ, this.1, this.2]
    exact ⟨trivial, by omega⟩

theorem batchY_spec (f dfy : R → R → R) (ps : List ((R × Nat) × (R × Nat))) (t : Tape R) :
    (Tape.batchY f dfy ps t).1.map (·.2) = incrementingIndexes t.length ps.length
      ∧ (Tape.batchY f dfy ps t).2.length = t.length + ps.length := by
  induction ps generalizing t with
  | nil => simp [Tape.batchY, incrementingIndexes]
  | cons e es ih =>
    obtain ⟨⟨x, p⟩, ⟨y, q⟩⟩ := e
    have := ih (t ++ [⟨q, t.length, dfy x y, 0⟩])
    simp only [List.length_append, List.length_cons, List.length_nil, Nat.zero_add] at this
    simp only [Tape.batchY, Tape.appendUnary, List.map_cons, List.length_cons,
      incrementingIndexes_succ, this.1, this.2]
    exact ⟨trivial, by omega⟩

theorem batchBoth_spec (f dfx dfy : R → R → R) (ps : List ((R × Nat) × (R × Nat))) (t : Tape R) :
    (Tape.batchBoth f dfx dfy ps t).1.map (·.2) = incrementingIndexes t.length ps.length
      ∧ (Tape.batchBoth f dfx dfy ps t).2.length = t.length + ps.length := by
  induction ps generalizing t with
  | nil => simp [Tape.batchBoth, incrementingIndexes]
  | cons e es ih =>
    obtain ⟨⟨x, p⟩, ⟨y, q⟩⟩ := e
    have := ih (t ++ [⟨p, q, dfx x y, dfy x y⟩])
    simp only [List.length_append, List.length_cons, List.length_nil, Nat.zero_add] at this
    simp only [Tape.batchBoth, Tape.appendBinary, List.map_cons, List.length_cons,
      incrementingIndexes_succ, this.1, this.2]
    exact ⟨trivial, by omega⟩

theorem incrementingIndexes_length (s n : Nat) : (incrementingIndexes s n).length = n := by
  simp [incrementingIndexes]

/-- the tape a result lives on had this many entries before the operation -/
def lenBefore (w : World R) : Option Nat → Nat
  | some h => (w h).length
  | none => 0

/-- `c'` occupies the next unused positions of its tape: a contiguous block starting at the
    number of entries the tape had, one new entry per element; constants touch nothing -/
def NextUnused (w : World R) (c' : Cont R) (w' : World R) : Prop :=
  match c'.history with
  | none => w' = w
  | some h =>
    c'.indexes = incrementingIndexes (w h).length c'.elems.length
      ∧ (w' h).length = (w h).length + c'.elems.length
      ∧ ∀ j, j ≠ h → w' j = w j

theorem update_other (w : World R) (h j : Nat) (t : Tape R) (hj : j ≠ h) :
    (w.update h t) j = w j := by simp [World.update, hj]

theorem unary_nextUnused (c : Cont R) (fx dfx : R → R) (w : World R) :
    NextUnused w (c.unary fx dfx w).1 (c.unary fx dfx w).2 := by
  unfold Cont.unary NextUnused
  cases hh : c.history with
  | none => simp [Cont.constants]
  | some h =>
    have hs := batchUnary_spec fx dfx c.elems (w h)
    have hl : (Tape.batchUnary fx dfx c.elems (w h)).1.length = c.elems.length := by
      have := congrArg List.length hs.1
      simpa [incrementingIndexes_length] using this
    simp only [Cont.indexes, hs.1, hl, update_same, hs.2, true_and]
    exact fun j hj => update_other w h j _ hj

theorem unary_wf (c : Cont R) (fx dfx : R → R) (w : World R) (hc : c.WF) :
    (c.unary fx dfx w).1.WF := by
  unfold Cont.unary
  cases hh : c.history with
  | none =>
    refine ⟨by simpa [Cont.constants] using hc.length_eq, ?_, ?_⟩
    · simpa [Cont.constants] using hc.nonempty
    · intro _ e he
      simp only [Cont.constants, List.map_map, List.mem_map] at he
      obtain ⟨_, _, rfl⟩ := he
      rfl
  | some h =>
    have hs := batchUnary_spec fx dfx c.elems (w h)
    have hl : (Tape.batchUnary fx dfx c.elems (w h)).1.length = c.elems.length := by
      have := congrArg List.length hs.1
      simpa [incrementingIndexes_length] using this
    refine ⟨by simpa [hl] using hc.length_eq, ?_, by simp⟩
    intro hnil
    have h0 : c.elems.length = 0 := by
      rw [← hl]; simp only at hnil; rw [hnil]; rfl
    exact hc.nonempty (List.eq_nil_of_length_eq_zero h0)

theorem wf_of_indexes (shape : Shape String) (zs : List (R × Nat)) (h : Nat) (s n : Nat)
    (hidx : zs.map (·.2) = incrementingIndexes s n) (hn : n = elements shape) (hpos : n ≠ 0) :
    (⟨shape, zs, some h⟩ : Cont R).WF := by
  have hl : zs.length = n := by
    have := congrArg List.length hidx
    simpa [incrementingIndexes_length] using this
  refine ⟨by simp [hl, hn], ?_, by simp⟩
  intro hnil
  simp only at hnil
  rw [hnil] at hl
  exact hpos hl.symm

theorem binary_ok_spec (a b : Cont R) (f dfx dfy : R → R → R) (w : World R) (ha : a.WF) (hb : b.WF)
    (c' : Cont R) (w' : World R) (hok : a.binary b f dfx dfy w = .ok (c', w')) :
    c'.WF ∧ NextUnused w c' w' ∧ c'.shape = a.shape
      ∧ c'.history = Cont.pickHistory a.history b.history := by
  unfold Cont.binary at hok
  by_cases hs : a.shape = b.shape
  · have hlen : (a.elems.zip b.elems).length = elements a.shape := by
      simp [List.length_zip, ha.length_eq, hb.length_eq, hs]
    have hpos : elements a.shape ≠ 0 := by
      rw [← ha.length_eq]
      exact fun h0 => ha.nonempty (List.eq_nil_of_length_eq_zero h0)
    simp only [hs, ne_eq, not_true_eq_false, if_false] at hok
    cases hha : a.history <;> cases hhb : b.history <;> simp only [hha, hhb] at hok
    · injection hok with hok
      injection hok with h1 h2
      subst h1 h2
      refine ⟨⟨?_, ?_, ?_⟩, ?_, hs.symm, rfl⟩
      · simp [Cont.constants, hlen, hs]
      · intro hnil
        have : (a.elems.zip b.elems).length = 0 := by
          simp only [Cont.constants, List.map_eq_nil_iff] at hnil
          rw [hnil]; rfl
        omega
      · intro _ e he
        simp only [Cont.constants, List.map_map, List.mem_map] at he
        obtain ⟨_, _, rfl⟩ := he
        rfl
      · simp [NextUnused, Cont.constants]
    · rename_i h
      injection hok with hok
      injection hok with h1 h2
      subst h1 h2
      have hsp := batchY_spec f dfy (a.elems.zip b.elems) (w h)
      have hl : (Tape.batchY f dfy (a.elems.zip b.elems) (w h)).1.length = (a.elems.zip b.elems).length := by
        have := congrArg List.length hsp.1
        simpa [incrementingIndexes_length] using this
      refine ⟨wf_of_indexes _ _ h _ _ hsp.1 (by rw [hlen, hs]) (by rw [hlen]; exact hpos), ?_, hs.symm, rfl⟩
      simp only [NextUnused, Cont.indexes, hsp.1, hl, update_same, hsp.2, true_and]
      exact fun j hj => update_other w h j _ hj
    · rename_i h
      injection hok with hok
      injection hok with h1 h2
      subst h1 h2
      have hsp := batchX_spec f dfx (a.elems.zip b.elems) (w h)
      have hl : (Tape.batchX f dfx (a.elems.zip b.elems) (w h)).1.length = (a.elems.zip b.elems).length := by
        have := congrArg List.length hsp.1
        simpa [incrementingIndexes_length] using this
      refine ⟨wf_of_indexes _ _ h _ _ hsp.1 (by rw [hlen, hs]) (by rw [hlen]; exact hpos), ?_, hs.symm, rfl⟩
      simp only [NextUnused, Cont.indexes, hsp.1, hl, update_same, hsp.2, true_and]
      exact fun j hj => update_other w h j _ hj
    · rename_i h h'
      by_cases hne : h = h'
      · subst hne
        simp only [ne_eq, not_true_eq_false, if_false] at hok
        injection hok with hok
        injection hok with h1 h2
        subst h1 h2
        have hsp := batchBoth_spec f dfx dfy (a.elems.zip b.elems) (w h)
        have hl : (Tape.batchBoth f dfx dfy (a.elems.zip b.elems) (w h)).1.length = (a.elems.zip b.elems).length := by
          have := congrArg List.length hsp.1
          simpa [incrementingIndexes_length] using this
        refine ⟨wf_of_indexes _ _ h _ _ hsp.1 (by rw [hlen, hs]) (by rw [hlen]; exact hpos), ?_, hs.symm, rfl⟩
        simp only [NextUnused, Cont.indexes, hsp.1, hl, update_same, hsp.2, true_and]
        exact fun j hj => update_other w h j _ hj
      · simp [hne] at hok
  · simp [hs] at hok

theorem binary_cross (a b : Cont R) (f dfx dfy : R → R → R) (w : World R) (h h' : Nat)
    (hha : a.history = some h) (hhb : b.history = some h') (hne : h ≠ h') :
    a.binary b f dfx dfy w = .panic .explicit := by
  unfold Cont.binary
  split
  · rfl
  · simp [hha, hhb, hne]

end Positions

/-! ### records in, records out -/

section Iter
variable {R : Type}

theorem areExactSameList_eq (a b : Option Nat) : areExactSameList a b = true ↔ a = b := by
  cases a <;> cases b <;> simp [areExactSameList]

theorem lastDifferent_none (first : Option Nat) (recs : List (Rec R)) (acc : Option (Option Nat)) :
    Cont.lastDifferent first recs acc = none ↔ acc = none ∧ ∀ r ∈ recs, r.history = first := by
  induction recs generalizing acc with
  | nil => simp [Cont.lastDifferent]
  | cons r rest ih =>
    simp only [Cont.lastDifferent, ih, List.mem_cons, forall_eq_or_imp]
    by_cases hr : areExactSameList first r.history = true
    · rw [if_pos hr]
      have := (areExactSameList_eq _ _).mp hr
      subst this
      simp
    · have hne : ¬ r.history = first := fun e => hr ((areExactSameList_eq _ _).mpr e.symm)
      simp [hr, hne]

theorem collectComponents_ok (recs : List (Rec R)) (hist : Option Nat) (numbers : List (R × Nat))
    (h : Cont.collectComponents recs = .ok (hist, numbers)) :
    recs ≠ [] ∧ recsOf hist numbers = recs := by
  cases recs with
  | nil => simp [Cont.collectComponents] at h
  | cons r rest =>
    simp only [Cont.collectComponents] at h
    cases hl : Cont.lastDifferent r.history rest none with
    | some later => simp [hl] at h
    | none =>
      simp only [hl] at h
      injection h with h
      injection h with h1 h2
      subst h1 h2
      have hall := ((lastDifferent_none _ _ _).mp hl).2
      refine ⟨by simp, ?_⟩
      simp only [recsOf, List.map_cons, List.map_map]
      congr 1
      rw [List.map_congr_left (g := id)]
      · simp
      · intro x hx
        simp only [Function.comp, id]
        cases x with
        | mk n hst i =>
          have := hall ⟨n, hst, i⟩ hx
          simp only at this
          simp [this]

theorem collectComponents_recsOf (hist : Option Nat) (es : List (R × Nat)) (hne : es ≠ []) :
    Cont.collectComponents (recsOf hist es) = .ok (hist, es) := by
  cases es with
  | nil => exact absurd rfl hne
  | cons e es =>
    have hl : Cont.lastDifferent hist (recsOf hist es) none = none := by
      rw [lastDifferent_none]
      refine ⟨rfl, ?_⟩
      intro r hr
      simp only [recsOf, List.mem_map] at hr
      obtain ⟨_, _, rfl⟩ := hr
      rfl
    simp only [recsOf_cons, Cont.collectComponents, hl]
    simp [recsOf, List.map_map, Function.comp_def]

/-- an iterator with a record whose tape differs from the first record's is rejected -/
theorem collectComponents_inconsistent (r : Rec R) (rest : List (Rec R))
    (hbad : ∃ x ∈ rest, x.history ≠ r.history) :
    ∃ later, Cont.collectComponents (r :: rest) = .error (.inconsistent r.history later) := by
  simp only [Cont.collectComponents]
  cases hl : Cont.lastDifferent r.history rest none with
  | some later => exact ⟨later, rfl⟩
  | none =>
    obtain ⟨x, hx, hne⟩ := hbad
    exact absurd (((lastDifferent_none _ _ _).mp hl).2 x hx) hne

theorem mapRecsIdx_length (f : Nat → Rec R → World R → Rec R × World R) (k : Nat)
    (recs : List (Rec R)) (w : World R) : (Cont.mapRecsIdx f k recs w).1.length = recs.length := by
  induction recs generalizing k w with
  | nil => rfl
  | cons r rest ih => simp [Cont.mapRecsIdx, ih]

end Iter

/-! ### matrix multiplication -/

section Matmul
variable {R : Type} [Field R]

/-- the record of one stored element -/
def recOf (h : Option Nat) (e : R × Nat) : Rec R := ⟨e.1, h, e.2⟩

/-- the two records of a zipped (row element, column element) pair -/
def pairRecs (ha hb : Option Nat) (p : (R × Nat) × (R × Nat)) : Rec R × Rec R :=
  (recOf ha p.1, recOf hb p.2)

theorem recsOf_eq_map (h : Option Nat) (es : List (R × Nat)) : recsOf h es = es.map (recOf h) := rfl

theorem rowOf_map {α β : Type} (f : α → β) (l : List α) (n i : Nat) :
    Cont.rowOf (l.map f) n i = (Cont.rowOf l n i).map f := by
  simp [Cont.rowOf, List.map_take, List.map_drop]

theorem colOf_map {α β : Type} (f : α → β) (l : List α) (n k j : Nat) :
    Cont.colOf (l.map f) n k j = (Cont.colOf l n k j).map f := by
  simp only [Cont.colOf, List.map_filterMap, List.getElem?_map]

theorem zip_recs (ha hb : Option Nat) (xs ys : List (R × Nat)) :
    (recsOf ha xs).zip (recsOf hb ys) = (xs.zip ys).map (pairRecs ha hb) := by
  simp only [recsOf_eq_map, List.zip_map]
  rfl

/-- which side has a tape, as the model's `entryFor` sees it -/
def sideHist (v : Bool) (h : Nat) : Option Nat := if v then some h else none

theorem mul_entry (lv rv : Bool) (hor : (lv || rv) = true) (h : Nat) (p : (R × Nat) × (R × Nat))
    (w : World R) :
    (recOf (sideHist lv h) p.1).mul (recOf (sideHist rv h) p.2) w
      = .ok (recOf (some h) (Cont.productEntry lv rv p (w h)).1,
             w.update h (Cont.productEntry lv rv p (w h)).2) := by
  obtain ⟨⟨x, i⟩, ⟨y, j⟩⟩ := p
  cases lv <;> cases rv
  · simp at hor
  · simp [recOf, sideHist, Rec.mul, Rec.sameList, Rec.mulNum, Rec.pushUnary, Tape.appendUnary,
      Cont.productEntry, Multiplication.function, Multiplication.dx, Multiplication.dy, mul_comm]
  · simp [recOf, sideHist, Rec.mul, Rec.sameList, Rec.mulNum, Rec.pushUnary, Tape.appendUnary,
      Cont.productEntry, Multiplication.function, Multiplication.dx, Multiplication.dy]
  · simp [recOf, sideHist, Rec.mul, Rec.sameList, Rec.pushBinary, Tape.appendBinary,
      Cont.productEntry, Multiplication.function, Multiplication.dx, Multiplication.dy]

theorem add_entry (h : Nat) (acc q : R × Nat) (w : World R) :
    (recOf (some h) acc).add (recOf (some h) q) w
      = .ok (recOf (some h) (Addition.function acc.1 q.1, (w h).length),
             w.update h ((w h).appendBinary acc.2 (Addition.dx acc.1 q.1) q.2
               (Addition.dy acc.1 q.1)).2) := by
  simp [recOf, Rec.add, Rec.sameList, Rec.pushBinary, Tape.appendBinary]

theorem reduce_eq (lv rv : Bool) (hor : (lv || rv) = true) (h : Nat) (acc : R × Nat)
    (ps : List ((R × Nat) × (R × Nat))) (w : World R) :
    reduceRecs (recOf (some h) acc) (ps.map (pairRecs (sideHist lv h) (sideHist rv h))) w
      = .ok (recOf (some h) (Cont.reduceProducts (Cont.productEntry lv rv) acc ps (w h)).1,
             w.update h (Cont.reduceProducts (Cont.productEntry lv rv) acc ps (w h)).2) := by
  induction ps generalizing acc w with
  | nil => simp [reduceRecs, Cont.reduceProducts]
  | cons p ps ih =>
    simp only [List.map_cons, reduceRecs, pairRecs, mul_entry lv rv hor h p w, add_entry,
      update_same, update_update, ih, Cont.reduceProducts, Tape.appendBinary]

theorem scalarProduct_eq (lv rv : Bool) (hor : (lv || rv) = true) (h : Nat)
    (ps : List ((R × Nat) × (R × Nat))) (w : World R) :
    scalarProductRecs (ps.map (pairRecs (sideHist lv h) (sideHist rv h))) w
      = (Cont.scalarProductOnTape (Cont.productEntry lv rv) ps (w h)).map
          fun r => (recOf (some h) r.1, w.update h r.2) := by
  cases ps with
  | nil => rfl
  | cons p ps =>
    simp only [List.map_cons, scalarProductRecs, pairRecs, mul_entry lv rv hor h p w,
      reduce_eq lv rv hor, update_same, update_update, Cont.scalarProductOnTape, Outcome.map]

theorem cells_eq (lv rv : Bool) (hor : (lv || rv) = true) (h : Nat) (as bs : List (R × Nat))
    (n l : Nat) (cells : List (Nat × Nat)) (w : World R) :
    matmulRecsCells (recsOf (sideHist lv h) as) (recsOf (sideHist rv h) bs) n l cells w
      = (Cont.matmulCells (Cont.productEntry lv rv) as bs n l cells (w h)).map
          fun r => (recsOf (some h) r.1, w.update h r.2) := by
  induction cells generalizing w with
  | nil => simp [matmulRecsCells, Cont.matmulCells, Outcome.map]
  | cons c cells ih =>
    obtain ⟨i, j⟩ := c
    simp only [matmulRecsCells, Cont.matmulCells, recsOf_eq_map, rowOf_map, colOf_map]
    simp only [← recsOf_eq_map, zip_recs, scalarProduct_eq lv rv hor]
    cases Cont.scalarProductOnTape (Cont.productEntry lv rv)
        ((Cont.rowOf as n i).zip (Cont.colOf bs n l j)) (w h) with
    | panic k => rfl
    | ok r =>
      obtain ⟨x, t1⟩ := r
      simp only [Outcome.map, ih, update_same, update_update]
      cases Cont.matmulCells (Cont.productEntry lv rv) as bs n l cells t1 with
      | panic k => rfl
      | ok r2 => rfl

/-! constants only -/

theorem reduce_const (s : R) (ps : List ((R × Nat) × (R × Nat))) (w : World R) :
    reduceRecs (Rec.constant s) (ps.map (pairRecs none none)) w
      = .ok (Rec.constant ((ps.map fun p => (p.1.1, p.2.1)).foldl (fun acc p => acc + p.1 * p.2) s), w) := by
  induction ps generalizing s with
  | nil => rfl
  | cons p ps ih =>
    simp only [List.map_cons, reduceRecs, pairRecs, recOf, Rec.mul, Rec.sameList, Rec.add,
      Rec.constant, Bool.not_true, Bool.false_eq_true, if_false, List.foldl_cons,
      Multiplication.function, Addition.function]
    exact ih _

theorem scalarProduct_const (ps : List ((R × Nat) × (R × Nat))) (w : World R) :
    scalarProductRecs (ps.map (pairRecs none none)) w
      = (Cont.plainScalarProduct (ps.map fun p => (p.1.1, p.2.1))).map
          fun x => (recOf none (x, 0), w) := by
  cases ps with
  | nil => rfl
  | cons p ps =>
    simp only [List.map_cons, scalarProductRecs, pairRecs, recOf, Rec.mul, Rec.sameList,
      Bool.not_true, Bool.false_eq_true, if_false, Cont.plainScalarProduct, Outcome.map,
      Multiplication.function]
    exact reduce_const _ ps w

theorem cells_const (as bs : List (R × Nat)) (n l : Nat) (cells : List (Nat × Nat)) (w : World R) :
    matmulRecsCells (recsOf none as) (recsOf none bs) n l cells w
      = (Cont.matmulPlain as bs n l cells).map fun xs => (recsOf none xs, w) := by
  induction cells with
  | nil => rfl
  | cons c cells ih =>
    obtain ⟨i, j⟩ := c
    simp only [matmulRecsCells, Cont.matmulPlain, recsOf_eq_map, rowOf_map, colOf_map]
    simp only [← recsOf_eq_map, zip_recs, scalarProduct_const]
    cases Cont.plainScalarProduct
        (((Cont.rowOf as n i).zip (Cont.colOf bs n l j)).map fun p => (p.1.1, p.2.1)) with
    | panic k => rfl
    | ok x =>
      simp only [Outcome.map, ih]
      cases Cont.matmulPlain as bs n l cells with
      | panic k => rfl
      | ok xs => rfl

theorem cellsOf_pos (m l : Nat) (hm : 0 < m) (hl : 0 < l) :
    ∃ rest, Cont.cellsOf m l = (0, 0) :: rest := by
  obtain ⟨m', rfl⟩ := Nat.exists_eq_succ_of_ne_zero (Nat.pos_iff_ne_zero.mp hm)
  obtain ⟨l', rfl⟩ := Nat.exists_eq_succ_of_ne_zero (Nat.pos_iff_ne_zero.mp hl)
  simp [Cont.cellsOf, List.range_succ_eq_map]

theorem first_pair {α β : Type} (as : List α) (bs : List β) (n l : Nat) (hn : 0 < n)
    (ha : as ≠ []) (hb : bs ≠ []) :
    ∃ x y rest, (Cont.rowOf as n 0).zip (Cont.colOf bs n l 0) = (x, y) :: rest := by
  obtain ⟨n', rfl⟩ := Nat.exists_eq_succ_of_ne_zero (Nat.pos_iff_ne_zero.mp hn)
  cases as with
  | nil => exact absurd rfl ha
  | cons a as =>
    cases bs with
    | nil => exact absurd rfl hb
    | cons b bs =>
      refine ⟨a, b, ?_⟩
      simp [Cont.rowOf, Cont.colOf, List.range_succ_eq_map]

/-- with two variables of two different tapes the very first scalar multiplication panics -/
theorem matmulRecs_cross (h h' : Nat) (hne : h ≠ h') (as bs : List (R × Nat)) (m n l : Nat)
    (hm : 0 < m) (hn : 0 < n) (hl : 0 < l) (ha : as ≠ []) (hb : bs ≠ []) (w : World R) :
    matmulRecs (recsOf (some h) as) (recsOf (some h') bs) m n l w = .panic .explicit := by
  obtain ⟨rest, hc⟩ := cellsOf_pos m l hm hl
  obtain ⟨x, y, rest', hp⟩ := first_pair as bs n l hn ha hb
  unfold matmulRecs
  rw [hc]
  simp only [matmulRecsCells, recsOf_eq_map, rowOf_map, colOf_map]
  simp only [← recsOf_eq_map, zip_recs, hp, List.map_cons, scalarProductRecs, pairRecs, recOf,
    Rec.mul, Rec.sameList]
  simp [hne]

theorem matmulCore_eq (a b : Cont R) (m n l : Nat) (outShape : Shape String) (w : World R)
    (hsame : areSameList a.history b.history = true) :
    (Cont.matmulCore (Cont.entryFor a b) a b m n l outShape w).map asRecs
      = matmulRecs a.toRecs b.toRecs m n l w := by
  unfold Cont.matmulCore matmulRecs Cont.entryFor
  cases hha : a.history with
  | none =>
    cases hhb : b.history with
    | none =>
      simp only [Cont.pickHistory, toRecs_eq, hha, hhb, cells_const]
      cases Cont.matmulPlain a.elems b.elems n l (Cont.cellsOf m l) with
      | panic k => rfl
      | ok xs => rfl
    | some h =>
      have := cells_eq false true rfl h a.elems b.elems n l (Cont.cellsOf m l) w
      simp only [sideHist, if_true, if_false, Bool.false_eq_true] at this
      simp only [Cont.pickHistory, toRecs_eq, hha, hhb, Option.isSome_none, Option.isSome_some, this]
      cases Cont.matmulCells (Cont.productEntry false true) a.elems b.elems n l (Cont.cellsOf m l) (w h) with
      | panic k => rfl
      | ok r => rfl
  | some h =>
    cases hhb : b.history with
    | none =>
      have := cells_eq true false rfl h a.elems b.elems n l (Cont.cellsOf m l) w
      simp only [sideHist, if_true, if_false, Bool.false_eq_true] at this
      simp only [Cont.pickHistory, toRecs_eq, hha, hhb, Option.isSome_none, Option.isSome_some, this]
      cases Cont.matmulCells (Cont.productEntry true false) a.elems b.elems n l (Cont.cellsOf m l) (w h) with
      | panic k => rfl
      | ok r => rfl
    | some h' =>
      have hh : h = h' := by simpa [areSameList, hha, hhb] using hsame
      subst hh
      have := cells_eq true true rfl h a.elems b.elems n l (Cont.cellsOf m l) w
      simp only [sideHist, if_true] at this
      simp only [Cont.pickHistory, toRecs_eq, hha, hhb, Option.isSome_some, this]
      cases Cont.matmulCells (Cont.productEntry true true) a.elems b.elems n l (Cont.cellsOf m l) (w h) with
      | panic k => rfl
      | ok r => rfl

end Matmul

/-! ### the stored indexes of a constants container are never used -/

section NoInfluence
variable {R : Type}

/-- the container with its stored indexes replaced -/
def reindex (g : Nat → Nat) (c : Cont R) : Cont R :=
  { c with elems := c.elems.map fun e => (e.1, g e.2) }

@[simp] theorem reindex_shape (g : Nat → Nat) (c : Cont R) : (reindex g c).shape = c.shape := rfl
@[simp] theorem reindex_history (g : Nat → Nat) (c : Cont R) : (reindex g c).history = c.history := rfl

variable [Zero R]

theorem batchX_reindex (g : Nat → Nat) (f dfx : R → R → R) (as bs : List (R × Nat)) (t : Tape R) :
    Tape.batchX f dfx (as.zip (bs.map fun e => (e.1, g e.2))) t = Tape.batchX f dfx (as.zip bs) t := by
  induction as generalizing bs t with
  | nil => simp [Tape.batchX]
  | cons a as ih =>
    cases bs with
    | nil => simp [Tape.batchX]
    | cons b bs => simp [Tape.batchX, ih]

theorem batchY_reindex (g : Nat → Nat) (f dfy : R → R → R) (as bs : List (R × Nat)) (t : Tape R) :
    Tape.batchY f dfy ((as.map fun e => (e.1, g e.2)).zip bs) t = Tape.batchY f dfy (as.zip bs) t := by
  induction as generalizing bs t with
  | nil => simp [Tape.batchY]
  | cons a as ih =>
    cases bs with
    | nil => simp [Tape.batchY]
    | cons b bs => simp [Tape.batchY, ih]

theorem zipmap_reindex_right (g : Nat → Nat) (f : R → R → R) (as bs : List (R × Nat)) :
    ((as.zip (bs.map fun e => (e.1, g e.2))).map fun p => f p.1.1 p.2.1)
      = (as.zip bs).map fun p => f p.1.1 p.2.1 := by
  induction as generalizing bs with
  | nil => simp
  | cons a as ih =>
    cases bs with
    | nil => simp
    | cons b bs => simp [ih]

theorem zipmap_reindex_left (g : Nat → Nat) (f : R → R → R) (as bs : List (R × Nat)) :
    (((as.map fun e => (e.1, g e.2)).zip bs).map fun p => f p.1.1 p.2.1)
      = (as.zip bs).map fun p => f p.1.1 p.2.1 := by
  induction as generalizing bs with
  | nil => simp
  | cons a as ih =>
    cases bs with
    | nil => simp
    | cons b bs => simp [ih]

theorem binary_reindex_right (g : Nat → Nat) (a b : Cont R) (f dfx dfy : R → R → R) (w : World R)
    (hb : b.history = none) : a.binary (reindex g b) f dfx dfy w = a.binary b f dfx dfy w := by
  unfold Cont.binary
  simp only [reindex_shape, reindex_history, hb]
  split
  · rfl
  · cases a.history with
    | none => simp only [reindex, zipmap_reindex_right]
    | some h => simp only [reindex, batchX_reindex]

theorem binary_reindex_left (g : Nat → Nat) (a b : Cont R) (f dfx dfy : R → R → R) (w : World R)
    (ha : a.history = none) : (reindex g a).binary b f dfx dfy w = a.binary b f dfx dfy w := by
  unfold Cont.binary
  simp only [reindex_shape, reindex_history, ha]
  split
  · rfl
  · cases b.history with
    | none => simp only [reindex, zipmap_reindex_left]
    | some h => simp only [reindex, batchY_reindex]

end NoInfluence

section NoInfluenceMatmul
variable {R : Type} [Add R] [Mul R] [Zero R] [One R]

/-- a zipped pair with the right element's stored index replaced -/
def reR (g : Nat → Nat) (p : (R × Nat) × (R × Nat)) : (R × Nat) × (R × Nat) := (p.1, (p.2.1, g p.2.2))
def reL (g : Nat → Nat) (p : (R × Nat) × (R × Nat)) : (R × Nat) × (R × Nat) := ((p.1.1, g p.1.2), p.2)

theorem zip_reR (g : Nat → Nat) (as bs : List (R × Nat)) :
    as.zip (bs.map fun e => (e.1, g e.2)) = (as.zip bs).map (reR g) := by
  induction as generalizing bs with
  | nil => simp
  | cons a as ih =>
    cases bs with
    | nil => simp
    | cons b bs => simp [ih, reR]

theorem zip_reL (g : Nat → Nat) (as bs : List (R × Nat)) :
    (as.map fun e => (e.1, g e.2)).zip bs = (as.zip bs).map (reL g) := by
  induction as generalizing bs with
  | nil => simp
  | cons a as ih =>
    cases bs with
    | nil => simp
    | cons b bs => simp [ih, reL]

theorem reduceProducts_congr (e e' : (R × Nat) × (R × Nat) → Tape R → (R × Nat) × Tape R)
    (r : (R × Nat) × (R × Nat) → (R × Nat) × (R × Nat)) (he : ∀ p t, e' (r p) t = e p t)
    (acc : R × Nat) (ps : List ((R × Nat) × (R × Nat))) (t : Tape R) :
    Cont.reduceProducts e' acc (ps.map r) t = Cont.reduceProducts e acc ps t := by
  induction ps generalizing acc t with
  | nil => rfl
  | cons p ps ih => simp only [List.map_cons, Cont.reduceProducts, he, ih]

theorem scalarProductOnTape_congr (e e' : (R × Nat) × (R × Nat) → Tape R → (R × Nat) × Tape R)
    (r : (R × Nat) × (R × Nat) → (R × Nat) × (R × Nat)) (he : ∀ p t, e' (r p) t = e p t)
    (ps : List ((R × Nat) × (R × Nat))) (t : Tape R) :
    Cont.scalarProductOnTape e' (ps.map r) t = Cont.scalarProductOnTape e ps t := by
  cases ps with
  | nil => rfl
  | cons p ps => simp only [List.map_cons, Cont.scalarProductOnTape, he, reduceProducts_congr e e' r he]

theorem matmulCells_reindex_right (g : Nat → Nat)
    (e : (R × Nat) × (R × Nat) → Tape R → (R × Nat) × Tape R) (he : ∀ p t, e (reR g p) t = e p t)
    (as bs : List (R × Nat)) (n l : Nat) (cells : List (Nat × Nat)) (t : Tape R) :
    Cont.matmulCells e as (bs.map fun x => (x.1, g x.2)) n l cells t
      = Cont.matmulCells e as bs n l cells t := by
  induction cells generalizing t with
  | nil => rfl
  | cons c cells ih =>
    obtain ⟨i, j⟩ := c
    simp only [Cont.matmulCells, RC.colOf_map', zip_reR, scalarProductOnTape_congr e e (reR g) he, ih]

theorem matmulCells_reindex_left (g : Nat → Nat)
    (e : (R × Nat) × (R × Nat) → Tape R → (R × Nat) × Tape R) (he : ∀ p t, e (reL g p) t = e p t)
    (as bs : List (R × Nat)) (n l : Nat) (cells : List (Nat × Nat)) (t : Tape R) :
    Cont.matmulCells e (as.map fun x => (x.1, g x.2)) bs n l cells t
      = Cont.matmulCells e as bs n l cells t := by
  induction cells generalizing t with
  | nil => rfl
  | cons c cells ih =>
    obtain ⟨i, j⟩ := c
    simp only [Cont.matmulCells, RC.rowOf_map', zip_reL, scalarProductOnTape_congr e e (reL g) he, ih]

theorem matmulPlain_reindex_right (g : Nat → Nat) (as bs : List (R × Nat)) (n l : Nat)
    (cells : List (Nat × Nat)) :
    Cont.matmulPlain as (bs.map fun x => (x.1, g x.2)) n l cells = Cont.matmulPlain as bs n l cells := by
  induction cells with
  | nil => rfl
  | cons c cells ih =>
    obtain ⟨i, j⟩ := c
    simp only [Cont.matmulPlain, RC.colOf_map', zip_reR, List.map_map, ih]
    rfl

theorem matmulPlain_reindex_left (g : Nat → Nat) (as bs : List (R × Nat)) (n l : Nat)
    (cells : List (Nat × Nat)) :
    Cont.matmulPlain (as.map fun x => (x.1, g x.2)) bs n l cells = Cont.matmulPlain as bs n l cells := by
  induction cells with
  | nil => rfl
  | cons c cells ih =>
    obtain ⟨i, j⟩ := c
    simp only [Cont.matmulPlain, RC.rowOf_map', zip_reL, List.map_map, ih]
    rfl

theorem matmulCore_reindex_right (g : Nat → Nat) (a b : Cont R) (m n l : Nat) (sh : Shape String)
    (w : World R) (hb : b.history = none) :
    Cont.matmulCore (Cont.entryFor a (reindex g b)) a (reindex g b) m n l sh w
      = Cont.matmulCore (Cont.entryFor a b) a b m n l sh w := by
  unfold Cont.matmulCore Cont.entryFor
  simp only [reindex_history, hb]
  cases hha : a.history with
  | none => simp only [Cont.pickHistory, reindex, matmulPlain_reindex_right]
  | some h =>
    simp only [Cont.pickHistory, reindex, Option.isSome_some, Option.isSome_none]
    rw [matmulCells_reindex_right g _ (fun p t => by simp [Cont.productEntry, reR])]

theorem matmulCore_reindex_left (g : Nat → Nat) (a b : Cont R) (m n l : Nat) (sh : Shape String)
    (w : World R) (ha : a.history = none) :
    Cont.matmulCore (Cont.entryFor (reindex g a) b) (reindex g a) b m n l sh w
      = Cont.matmulCore (Cont.entryFor a b) a b m n l sh w := by
  unfold Cont.matmulCore Cont.entryFor
  simp only [reindex_history, ha]
  cases hhb : b.history with
  | none => simp only [Cont.pickHistory, reindex, matmulPlain_reindex_left]
  | some h =>
    simp only [Cont.pickHistory, reindex, Option.isSome_some, Option.isSome_none]
    rw [matmulCells_reindex_left g _ (fun p t => by simp [Cont.productEntry, reL])]

end NoInfluenceMatmul

/-! ### the two matrix multiplications -/

section MatmulTop
variable {R : Type} [Field R]

theorem elements_two (d0 d1 : String × Nat) : elements [d0, d1] = d0.2 * d1.2 := by
  simp [elements, prod]

theorem dims_pos (c : Cont R) (d0 d1 : String × Nat) (hs : c.shape = [d0, d1]) (hc : c.WF) :
    0 < d0.2 ∧ 0 < d1.2 := by
  have hl := hc.length_eq
  rw [hs, elements_two] at hl
  have hne : c.elems.length ≠ 0 := fun h0 => hc.nonempty (List.eq_nil_of_length_eq_zero h0)
  rw [hl] at hne
  constructor
  · exact Nat.pos_of_ne_zero fun h0 => hne (by simp [h0])
  · exact Nat.pos_of_ne_zero fun h0 => hne (by simp [h0])

/-- both multiplications, once the shapes are accepted -/
theorem matmul_accepted (a b : Cont R) (w : World R) (l0 l1 r0 r1 : String × Nat)
    (outShape : Shape String) (hsa : a.shape = [l0, l1]) (hsb : b.shape = [r0, r1])
    (ha : a.WF) (hb : b.WF) :
    (if !areSameList a.history b.history then Outcome.panic PanicKind.explicit
      else Cont.matmulCore (Cont.entryFor a b) a b l0.2 l1.2 r1.2 outShape w).map asRecs
      = matmulRecs a.toRecs b.toRecs l0.2 l1.2 r1.2 w := by
  by_cases hsame : areSameList a.history b.history = true
  · simp only [hsame, Bool.not_true, Bool.false_eq_true, if_false]
    exact matmulCore_eq a b _ _ _ _ w hsame
  · have hf : areSameList a.history b.history = false := by simpa using hsame
    simp only [hf, Bool.not_false, if_true, Outcome.map]
    cases hha : a.history with
    | none => simp [areSameList, hha] at hf
    | some h =>
      cases hhb : b.history with
      | none => simp [areSameList, hha, hhb] at hf
      | some h' =>
        have hne : h ≠ h' := by simpa [areSameList, hha, hhb] using hf
        have ⟨hm, hn'⟩ := dims_pos a l0 l1 hsa ha
        have ⟨_, hl⟩ := dims_pos b r0 r1 hsb hb
        rw [toRecs_eq, toRecs_eq, hha, hhb]
        exact (matmulRecs_cross h h' hne a.elems b.elems _ _ _ hm hn' hl ha.nonempty hb.nonempty w).symm

theorem matmulTensor_eq (a b : Cont R) (w : World R) (l0 l1 r0 r1 : String × Nat)
    (hsa : a.shape = [l0, l1]) (hsb : b.shape = [r0, r1]) (hn : l1.2 = r0.2)
    (hnames : l0.1 ≠ r1.1) (ha : a.WF) (hb : b.WF) :
    (a.matmulTensor b w).map asRecs = matmulRecs a.toRecs b.toRecs l0.2 l1.2 r1.2 w := by
  have := matmul_accepted a b w l0 l1 r0 r1 [l0, r1] hsa hsb ha hb
  rw [← this]
  unfold Cont.matmulTensor Cont.matmulTensorWith
  simp only [hsa, hsb, Cont.dims2, hn, ne_eq, not_true_eq_false, if_false, hnames]

theorem matmulMatrix_eq (a b : Cont R) (w : World R) (l0 l1 r0 r1 : String × Nat)
    (hsa : a.shape = [l0, l1]) (hsb : b.shape = [r0, r1]) (hn : l1.2 = r0.2)
    (ha : a.WF) (hb : b.WF) :
    (a.matmulMatrix b w).map asRecs = matmulRecs a.toRecs b.toRecs l0.2 l1.2 r1.2 w := by
  have := matmul_accepted a b w l0 l1 r0 r1 [(l0.1, l0.2), (l1.1, r1.2)] hsa hsb ha hb
  rw [← this]
  unfold Cont.matmulMatrix
  simp only [hsa, hsb, Cont.dims2, hn, ne_eq, not_true_eq_false, if_false]

theorem cellsOf_length (m l : Nat) : (Cont.cellsOf m l).length = m * l := by
  simp only [Cont.cellsOf, List.length_flatMap, List.length_map, List.length_range]
  induction m with
  | zero => simp
  | succ m ih => simp [List.range_succ, ih, Nat.succ_mul]

theorem matmulCells_length (e : (R × Nat) × (R × Nat) → Tape R → (R × Nat) × Tape R)
    (as bs : List (R × Nat)) (n l : Nat) (cells : List (Nat × Nat)) (t : Tape R)
    (xs : List (R × Nat)) (t' : Tape R)
    (h : Cont.matmulCells e as bs n l cells t = .ok (xs, t')) : xs.length = cells.length := by
  induction cells generalizing t xs t' with
  | nil =>
    simp only [Cont.matmulCells] at h
    injection h with h; injection h with h1 _; subst h1; rfl
  | cons c cells ih =>
    obtain ⟨i, j⟩ := c
    simp only [Cont.matmulCells] at h
    cases hs : Cont.scalarProductOnTape e ((Cont.rowOf as n i).zip (Cont.colOf bs n l j)) t with
    | panic k => simp [hs] at h
    | ok r =>
      obtain ⟨x, t1⟩ := r
      simp only [hs] at h
      cases hr : Cont.matmulCells e as bs n l cells t1 with
      | panic k => simp [hr] at h
      | ok r2 =>
        obtain ⟨xs2, t2⟩ := r2
        simp only [hr] at h
        injection h with h; injection h with h1 _; subst h1
        simp [ih t1 xs2 t2 hr]

theorem matmulPlain_spec (as bs : List (R × Nat)) (n l : Nat) (cells : List (Nat × Nat))
    (xs : List (R × Nat)) (h : Cont.matmulPlain as bs n l cells = .ok xs) :
    xs.length = cells.length ∧ ∀ e ∈ xs, e.2 = 0 := by
  induction cells generalizing xs with
  | nil =>
    simp only [Cont.matmulPlain] at h
    injection h with h; subst h; simp
  | cons c cells ih =>
    obtain ⟨i, j⟩ := c
    simp only [Cont.matmulPlain] at h
    cases hs : Cont.plainScalarProduct (((Cont.rowOf as n i).zip (Cont.colOf bs n l j)).map fun p => (p.1.1, p.2.1)) with
    | panic k => simp [hs] at h
    | ok x =>
      simp only [hs] at h
      cases hr : Cont.matmulPlain as bs n l cells with
      | panic k => simp [hr] at h
      | ok xs2 =>
        simp only [hr] at h
        injection h with h; subst h
        have := ih xs2 hr
        refine ⟨by simp [this.1], ?_⟩
        intro e he
        simp only [List.mem_cons] at he
        rcases he with rfl | he
        · rfl
        · exact this.2 e he

/-- a result of the shared multiplication loop is a well-formed container of the shape
    `[(_, m), (_, l)]` -/
theorem matmulCore_wf (e : (R × Nat) × (R × Nat) → Tape R → (R × Nat) × Tape R) (a b : Cont R)
    (m n l : Nat) (d0 d1 : String × Nat) (hm : d0.2 = m) (hl : d1.2 = l) (hpos : 0 < m * l)
    (w : World R) (c' : Cont R) (w' : World R)
    (h : Cont.matmulCore e a b m n l [d0, d1] w = .ok (c', w')) : c'.WF := by
  unfold Cont.matmulCore at h
  cases hp : Cont.pickHistory a.history b.history with
  | none =>
    simp only [hp] at h
    cases hr : Cont.matmulPlain a.elems b.elems n l (Cont.cellsOf m l) with
    | panic k => simp [hr] at h
    | ok xs =>
      simp only [hr] at h
      injection h with h; injection h with h1 _; subst h1
      have hs := matmulPlain_spec _ _ _ _ _ _ hr
      refine ⟨by simp [hs.1, cellsOf_length, elements_two, hm, hl], ?_, fun _ => hs.2⟩
      intro hnil
      simp only at hnil
      have := hs.1
      rw [hnil, cellsOf_length] at this
      simp only [List.length_nil] at this
      omega
  | some hh =>
    simp only [hp] at h
    cases hr : Cont.matmulCells e a.elems b.elems n l (Cont.cellsOf m l) (w hh) with
    | panic k => simp [hr] at h
    | ok r =>
      obtain ⟨xs, t⟩ := r
      simp only [hr] at h
      injection h with h; injection h with h1 _; subst h1
      have hlen := matmulCells_length _ _ _ _ _ _ _ _ _ hr
      refine ⟨by simp [hlen, cellsOf_length, elements_two, hm, hl], ?_, by simp⟩
      intro hnil
      simp only at hnil
      rw [hnil, cellsOf_length] at hlen
      simp only [List.length_nil] at hlen
      omega

end MatmulTop

section Catalogue
variable {R : Type} [Field R] [RealFns R]

theorem bop_container_eq (op : BOp R) (a b : Cont R) (w : World R) :
    op.container a b w = a.binary b op.fns.1 op.fns.2.1 op.fns.2.2 w := by
  cases op <;> simp only [BOp.container, BOp.fns, Cont.add, Cont.sub, Cont.elementwiseMultiply,
    Cont.elementwiseDivide, guard_binary]

theorem bop_scalar_fun (op : BOp R) :
    op.scalar = fun x y w => x.binary y op.fns.1 op.fns.2.1 op.fns.2.2 w := by
  funext x y w; exact bop_scalar_eq op x y w

theorem uop_scalar_fun (op : UOp R) :
    op.scalar = fun r w => r.unary op.fns.1 op.fns.2 w := by
  funext r w; exact uop_scalar_eq op r w

end Catalogue

end EasyMl.RC
