/-
  EasyMl.Lemmas.Det — lifting the model of determinant/inverse to Mathlib's `Matrix.det`,
  `Matrix.adjugate` and `A⁻¹` (every size, through `EasyMl.Lemmas.HeapsAll`).
-/
import Mathlib.LinearAlgebra.Matrix.NonsingularInverse
import EasyMl.Lemmas.HeapsAll
import EasyMl.Spec.MatrixResize

namespace EasyMl.Det
open Equiv

/-! ### Minors, adjugate, inverse -/

section Ring
variable {R : Type} [CommRing R]

theorem detView_eq_det' (n : Nat) (h1 : 1 ≤ n) (get : Nat → Nat → R) :
    detView ⟨n, n, get⟩ = some (sqMat n get).det := by
  rw [detView_square, if_neg (by omega)]
  split
  · rename_i h
    subst h
    rw [Matrix.det_fin_one]
    rfl
  · rw [detModel_eq_det_all' n h1]

theorem succAbove_val (m i r : Nat) (hi : i < m + 1) (hr : r < m) :
    ((Fin.succAbove ⟨i, hi⟩ ⟨r, hr⟩ : Fin (m + 1)) : Nat) = maskIdx i 1 r := by
  unfold maskIdx Fin.succAbove
  simp only [Fin.lt_def, Fin.castSucc_mk]
  split <;> rfl

theorem minorTensor_eq_det (m : Nat) (hm1 : 1 ≤ m) (get : Nat → Nat → R)
    (i j : Nat) (hi : i < m + 1) (hj : j < m + 1) :
    minorTensor ⟨m + 1, m + 1, get⟩ i j
      = .ok (some ((sqMat (m + 1) get).submatrix (Fin.succAbove ⟨i, hi⟩) (Fin.succAbove ⟨j, hj⟩)).det) := by
  rw [minorTensor_square (m + 1) get i j (by omega) hi hj]
  simp only [Nat.add_sub_cancel]
  rw [detView_eq_det' m hm1]
  have : sqMat m (fun r c => get (maskIdx i 1 r) (maskIdx j 1 c))
      = (sqMat (m + 1) get).submatrix (Fin.succAbove ⟨i, hi⟩) (Fin.succAbove ⟨j, hj⟩) := by
    ext r c
    simp only [sqMat, Matrix.of_apply, Matrix.submatrix_apply]
    rw [succAbove_val m i r hi r.isLt, succAbove_val m j c hj c.isLt]
  rw [this]

/-- a row-major `n × n` buffer as a Mathlib matrix -/
def matOfList (n : Nat) (l : List R) : _root_.Matrix (Fin n) (Fin n) R :=
  Matrix.of fun i j => l.getD ((j : Nat) + (i : Nat) * n) 0

theorem cofactorSign_eq (i j : Nat) : (cofactorSign i j : R) = (-1) ^ (i + j) := by
  unfold cofactorSign
  rw [neg_one_pow_eq_pow_mod_two (n := i + j)]
  rcases Nat.mod_two_eq_zero_or_one i with hi | hi <;>
    rcases Nat.mod_two_eq_zero_or_one j with hj | hj
  · have : (i + j) % 2 = 0 := by omega
    simp [hi, hj, this]
  · have : (i + j) % 2 = 1 := by omega
    simp [hi, hj, this]
  · have : (i + j) % 2 = 1 := by omega
    simp [hi, hj, this]
  · have : (i + j) % 2 = 0 := by omega
    simp [hi, hj, this]

/-- the `(i, j)` minor of `A` with natural-number indices (0 outside the shape) -/
noncomputable def minorVal {m : Nat} (A : _root_.Matrix (Fin (m + 1)) (Fin (m + 1)) R) (i j : Nat) : R :=
  if h : i < m + 1 ∧ j < m + 1 then
    (A.submatrix (Fin.succAbove ⟨i, h.1⟩) (Fin.succAbove ⟨j, h.2⟩)).det
  else 0

/-- **The adjugate, over any commutative ring** (no division): the cofactor matrix the code
    fills, transposed in place, is Mathlib's `adjugate` of the input. -/
theorem adjugate_buffer (m : Nat) (hm1 : 1 ≤ m) (get : Nat → Nat → R) :
    ∃ cof, cofactorMatrix (m + 1) (minorTensor ⟨m + 1, m + 1, get⟩) = .ok (some cof) ∧
      cof.length = (m + 1) * (m + 1) ∧
      matOfList (m + 1) (transposeSquare (m + 1) cof) = (sqMat (m + 1) get).adjugate := by
  have hok := cofactorMatrix_ok (m + 1) (minorTensor ⟨m + 1, m + 1, get⟩)
    (minorVal (sqMat (m + 1) get)) (by
      intro i j hi hj
      rw [minorTensor_eq_det m hm1 get i j hi hj]
      simp [minorVal, hi, hj])
  refine ⟨_, hok, by rw [List.length_map, indexPairs_length], ?_⟩
  ext i j
  simp only [matOfList, Matrix.of_apply]
  rw [transposeSquare_spec (m + 1) _ (by rw [List.length_map, indexPairs_length]),
    getD_map_indexPairs (m + 1) _ i j i.isLt j.isLt]
  simp only
  rw [getD_map_indexPairs (m + 1) _ j i j.isLt i.isLt, Matrix.adjugate_fin_succ_eq_det_submatrix,
    cofactorSign_eq]
  simp only
  have : minorVal (sqMat (m + 1) get) j i
      = ((sqMat (m + 1) get).submatrix j.succAbove i.succAbove).det := by
    unfold minorVal
    rw [dif_pos ⟨j.isLt, i.isLt⟩]
  rw [this]

end Ring

section Field
variable {K : Type} [Field K] [NumOrd K]

/-- the element type's `==` (`PartialEq`) is equality -/
def LawfulEq (K : Type) [NumOrd K] : Prop := ∀ a b : K, NumOrd.eq a b = true ↔ a = b

open Classical in
theorem inverseTensor_succ {ν : Type} [DecidableEq ν] [Inhabited ν] (names : ν × ν)
    (hne : names.1 ≠ names.2) (m : Nat) (hm1 : 1 ≤ m) (get : Nat → Nat → K) (heq : LawfulEq K) :
    inverseTensor names ⟨m + 1, m + 1, get⟩ =
      if (sqMat (m + 1) get).det = 0 then .ok none
      else .ok (some ⟨(indexPairs (m + 1) (m + 1)).map fun ij =>
          cofactorSign ij.2 ij.1 * minorVal (sqMat (m + 1) get) ij.2 ij.1
            * (1 / (sqMat (m + 1) get).det),
        [(names.1, m + 1), (names.2, m + 1)], computeStrides [(names.1, m + 1), (names.2, m + 1)]⟩) := by
  rw [inverseTensor_square names hne (m + 1) (by omega) get, detModel_eq_det_all' (m + 1) (by omega)]
  by_cases hd : (sqMat (m + 1) get).det = 0
  · rw [if_pos ((heq _ _).mpr hd), if_pos hd]
  · rw [if_neg (fun h => hd ((heq _ _).mp h)), if_neg hd]
    rw [cofactorMatrix_ok (m + 1) _ (minorVal (sqMat (m + 1) get))]
    · simp only
      rw [scaled_transposed (m + 1) _
        (fun ij => cofactorSign ij.1 ij.2 * minorVal (sqMat (m + 1) get) ij.1 ij.2)]
    · intro i j hi hj
      rw [minorTensor_eq_det m hm1 get i j hi hj]
      simp [minorVal, hi, hj]

omit [NumOrd K] in
theorem matOfList_inv (m : Nat) (A : _root_.Matrix (Fin (m + 1)) (Fin (m + 1)) K) :
    matOfList (m + 1) ((indexPairs (m + 1) (m + 1)).map fun ij =>
      cofactorSign ij.2 ij.1 * minorVal A ij.2 ij.1 * (1 / A.det)) = A⁻¹ := by
  ext i j
  simp only [matOfList, Matrix.of_apply]
  rw [getD_map_indexPairs (m + 1) _ i j i.isLt j.isLt]
  simp only
  rw [Matrix.inv_def, Matrix.smul_apply, Matrix.adjugate_fin_succ_eq_det_submatrix,
    Ring.inverse_eq_inv', cofactorSign_eq, smul_eq_mul]
  have : minorVal A j i = (A.submatrix j.succAbove i.succAbove).det := by
    unfold minorVal
    rw [dif_pos ⟨j.isLt, i.isLt⟩]
  rw [this, one_div]
  ring

open Classical in
/-- The model's `inverse_tensor` on a square view of size over a field: absent exactly for
    determinant zero, otherwise a tensor of the input's shape whose buffer is Mathlib's `A⁻¹`. -/
theorem inverseTensor_spec {ν : Type} [DecidableEq ν] [Inhabited ν] (names : ν × ν)
    (hne : names.1 ≠ names.2) (n : Nat) (h1 : 1 ≤ n) (get : Nat → Nat → K) (heq : LawfulEq K) :
    ((sqMat n get).det = 0 → inverseTensor names ⟨n, n, get⟩ = .ok none) ∧
    ((sqMat n get).det ≠ 0 → ∃ data : List K,
      inverseTensor names ⟨n, n, get⟩
        = .ok (some ⟨data, [(names.1, n), (names.2, n)], computeStrides [(names.1, n), (names.2, n)]⟩)
      ∧ data.length = n * n ∧ matOfList n data = (sqMat n get)⁻¹) := by
  by_cases hn : n = 1
  · subst hn
    have hdet : (sqMat 1 get).det = get 0 0 := by rw [Matrix.det_fin_one]; rfl
    rw [inverseTensor_one, hdet]
    constructor
    · intro h0
      rw [if_pos ((heq _ _).mpr h0)]
    · intro h0
      rw [if_neg (fun h => h0 ((heq _ _).mp h))]
      refine ⟨[1 / get 0 0], rfl, rfl, ?_⟩
      symm
      apply Matrix.inv_eq_left_inv
      ext i j
      have hi : i = 0 := Subsingleton.elim _ _
      have hj : j = 0 := Subsingleton.elim _ _
      subst hi hj
      simp [Matrix.mul_apply, matOfList, sqMat, h0]
  · obtain ⟨m, rfl⟩ : ∃ m, n = m + 1 := ⟨n - 1, by omega⟩
    rw [inverseTensor_succ names hne m (by omega) get heq]
    constructor
    · intro h0; rw [if_pos h0]
    · intro h0
      rw [if_neg h0]
      refine ⟨_, rfl, ?_, matOfList_inv m _⟩
      rw [List.length_map, indexPairs_length]

end Field
/-- C11's list-of-rows state as an input of determinant / inverse -/
def rowsView {α : Type} [Zero α] (rs : Rows α) : View α :=
  ⟨Rows.nrows rs, Rows.ncols rs, fun r c => (Rows.cell rs r c).getD 0⟩

end EasyMl.Det
