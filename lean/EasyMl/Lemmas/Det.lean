/-
  EasyMl.Lemmas.Det — lifting the model of determinant/inverse to Mathlib's `Matrix.det`,
  `Matrix.adjugate` and `A⁻¹`.
-/
import Mathlib.LinearAlgebra.Matrix.NonsingularInverse
import EasyMl.Lemmas.DetTable
import EasyMl.Lemmas.DetMinor

namespace EasyMl.Det
open Equiv

variable {n : Nat}

/-- the arrangement (list of images) of a permutation of `Fin n` -/
def toList (σ : Perm (Fin n)) : List Nat := List.ofFn fun i : Fin n => (σ i : Nat)

/-- a permutation as `generate_permutations` presents it: arrangement and `even_swaps` flag -/
def enc (σ : Perm (Fin n)) : List Nat × Bool := (toList σ, decide (Perm.sign σ = 1))

theorem toList_one : toList (1 : Perm (Fin n)) = List.range n := by
  apply List.ext_getElem <;> simp [toList]

theorem toList_injective : Function.Injective (toList : Perm (Fin n) → List Nat) := by
  intro σ τ h
  ext i
  have := congrArg (fun l => l[i.val]?) h
  simpa [toList] using this

theorem swap_toList (σ : Perm (Fin n)) (a b : Nat) (ha : a < n) (hb : b < n) :
    swap (toList σ) a b = toList (σ * Equiv.swap ⟨a, ha⟩ ⟨b, hb⟩) := by
  have h1 : (toList σ)[a]? = some (σ ⟨a, ha⟩ : Nat) := by simp [toList, ha]
  have h2 : (toList σ)[b]? = some (σ ⟨b, hb⟩ : Nat) := by simp [toList, hb]
  unfold swap
  rw [h1, h2]
  apply List.ext_getElem
  · simp [toList]
  · intro i hi1 hi2
    have hi : i < n := by simpa [toList] using hi2
    simp only [List.getElem_set, toList, List.getElem_ofFn, Perm.coe_mul, Function.comp_apply]
    rw [Equiv.swap_apply_def]
    by_cases hib : b = i
    · subst hib
      by_cases hab : a = b
      · subst hab; simp
      · have : (⟨b, hi⟩ : Fin n) ≠ ⟨a, ha⟩ := by simp [Fin.ext_iff]; omega
        simp [this]
    · by_cases hia : a = i
      · subst hia; simp [hib]
      · have h3 : (⟨i, hi⟩ : Fin n) ≠ ⟨a, ha⟩ := by simp [Fin.ext_iff]; omega
        have h4 : (⟨i, hi⟩ : Fin n) ≠ ⟨b, hb⟩ := by simp [Fin.ext_iff]; omega
        simp [hib, hia, h3, h4]


theorem sign_eq_one_or (σ : Perm (Fin n)) : Perm.sign σ = 1 ∨ Perm.sign σ = -1 :=
  Int.units_eq_one_or _

theorem step_enc (σ : Perm (Fin n)) (y : List Nat × Bool) (h : stepOK n (enc σ) y = true) :
    ∃ τ : Perm (Fin n), y = enc τ := by
  obtain ⟨hflag, a, b, hab, hb, hy⟩ := stepOK_iff n _ _ h
  have ha : a < n := Nat.lt_trans hab hb
  refine ⟨σ * Equiv.swap ⟨a, ha⟩ ⟨b, hb⟩, ?_⟩
  have hne : (⟨a, ha⟩ : Fin n) ≠ ⟨b, hb⟩ := by simp [Fin.ext_iff]; omega
  apply Prod.ext
  · simp only [enc] at hy ⊢
    rw [hy, swap_toList σ a b ha hb]
  · simp only [enc] at hflag ⊢
    rw [hflag, Perm.sign_mul, Perm.sign_swap hne]
    rcases sign_eq_one_or σ with h1 | h1 <;> simp [h1]

theorem chain_enc (σ : Perm (Fin n)) (rest : List (List Nat × Bool))
    (h : chainOK n (enc σ :: rest) = true) : ∃ τs : List (Perm (Fin n)), rest = τs.map enc := by
  induction rest generalizing σ with
  | nil => exact ⟨[], rfl⟩
  | cons y rest ih =>
    simp only [chainOK, Bool.and_eq_true] at h
    obtain ⟨τ, hτ⟩ := step_enc σ y h.1
    subst hτ
    obtain ⟨τs, hτs⟩ := ih τ h.2
    exact ⟨τ :: τs, by simp [hτs]⟩

theorem fact_eq (n : Nat) : fact n = n.factorial := by
  induction n with
  | zero => rfl
  | succ n ih => simp [fact, Nat.factorial, ih]

/-- A table passing `tableOK` is the image under `enc` of a duplicate-free, complete list of
    the permutations of `Fin n`. -/
theorem enumerates_of_tableOK (h : tableOK n = true) :
    ∃ σs : List (Perm (Fin n)), σs.Nodup ∧ (∀ σ, σ ∈ σs) ∧
      generatePermutations (List.range n) = σs.map enc := by
  obtain ⟨hhead, hchain, hlen, hnodup⟩ := tableOK_iff n h
  cases ht : generatePermutations (List.range n) with
  | nil => rw [ht] at hhead; simp at hhead
  | cons x rest =>
    rw [ht] at hhead hchain hlen hnodup
    have hx : x = enc (1 : Perm (Fin n)) := by
      simp only [List.head?_cons, Option.some.injEq] at hhead
      rw [hhead]; simp [enc, toList_one]
    subst hx
    obtain ⟨τs, hτs⟩ := chain_enc 1 rest hchain
    subst hτs
    have hmap : (enc (1 : Perm (Fin n)) :: τs.map enc) = ((1 : Perm (Fin n)) :: τs).map enc := by simp
    rw [hmap] at hlen hnodup ⊢
    have hnd : ((1 : Perm (Fin n)) :: τs).Nodup := by
      rw [List.map_map] at hnodup
      exact List.Nodup.of_map _ hnodup
    refine ⟨1 :: τs, hnd, ?_, rfl⟩
    have hcard : ((1 : Perm (Fin n)) :: τs).toFinset.card = Fintype.card (Perm (Fin n)) := by
      rw [List.toFinset_card_of_nodup hnd, Fintype.card_perm, Fintype.card_fin, ← fact_eq]
      simpa using hlen
    have huniv := Finset.eq_univ_of_card _ hcard
    intro σ
    have : σ ∈ ((1 : Perm (Fin n)) :: τs).toFinset := by rw [huniv]; exact Finset.mem_univ σ
    exact List.mem_toFinset.mp this


variable {R : Type} [CommRing R]

/-- the `n × n` Mathlib matrix a view shows -/
def sqMat (n : Nat) (get : Nat → Nat → R) : _root_.Matrix (Fin n) (Fin n) R :=
  Matrix.of fun i j => get i j

theorem foldl_add_eq_sum {β : Type} (f : β → R) (l : List β) (a : R) :
    l.foldl (fun s x => s + f x) a = a + (l.map f).sum := by
  induction l generalizing a with
  | nil => simp
  | cons x xs ih => simp [ih, add_assoc]

theorem foldl_mul_eq_prod {β : Type} (f : β → R) (l : List β) (a : R) :
    l.foldl (fun s x => s * f x) a = a * (l.map f).prod := by
  induction l generalizing a with
  | nil => simp
  | cons x xs ih => simp [ih, mul_assoc]

theorem zipIdx_ofFn {β : Type} (f : Fin n → β) :
    (List.ofFn f).zipIdx = List.ofFn fun i : Fin n => (f i, (i : Nat)) := by
  apply List.ext_getElem <;> simp

theorem permProduct_toList (get : Nat → Nat → R) (σ : Perm (Fin n)) :
    permProduct get (toList σ) = ∏ i : Fin n, get i (σ i) := by
  unfold permProduct toList
  rw [zipIdx_ofFn]
  rw [foldl_mul_eq_prod (fun x : Nat × Nat => get x.2 x.1), one_mul, List.map_ofFn, List.prod_ofFn]
  rfl

theorem signature_sign (σ : Perm (Fin n)) :
    (signature (decide (Perm.sign σ = 1)) : R) = ((Perm.sign σ : ℤˣ) : ℤ) := by
  unfold signature
  rcases sign_eq_one_or σ with h | h <;> simp [h]

/-- Any duplicate-free complete list of the permutations with their signs, folded by the
    determinant closure, gives Mathlib's determinant. -/
theorem det_of_enumeration' (σs : List (Perm (Fin n))) (hnd : σs.Nodup) (hall : ∀ σ, σ ∈ σs)
    (get : Nat → Nat → R) :
    (σs.map enc).foldl (fun s pe => detStep get s pe.1 pe.2) 0 = (sqMat n get).det := by
  have h1 : (fun (s : R) (pe : List Nat × Bool) => detStep get s pe.1 pe.2)
      = fun s pe => s + (fun pe : List Nat × Bool => signature pe.2 * permProduct get pe.1) pe := by
    funext s pe; rfl
  rw [h1, foldl_add_eq_sum, zero_add, List.map_map]
  rw [← Matrix.det_transpose, Matrix.det_apply']
  have huniv : σs.toFinset = Finset.univ := by
    ext σ; simp [hall σ]
  rw [← huniv, List.sum_toFinset _ hnd]
  congr 1
  apply List.map_congr_left
  intro σ _
  simp only [Function.comp_apply, enc, signature_sign, permProduct_toList]
  rfl

/-- The model's Leibniz sum (Heap's order, alternating flag) is Mathlib's determinant for the
    property's sizes. -/
theorem detModel_eq_det' (n : Nat) (h1 : 1 ≤ n) (h6 : n ≤ 6) (get : Nat → Nat → R) :
    detModel n get = (sqMat n get).det := by
  obtain ⟨σs, hnd, hall, htab⟩ := enumerates_of_tableOK (tableOK_le6 n h1 h6)
  unfold detModel
  rw [withEach_eq, htab]
  exact det_of_enumeration' σs hnd hall get

/-! ### Minors, adjugate, inverse -/

section Ring
variable {R : Type} [CommRing R]

theorem detView_eq_det' (n : Nat) (h1 : 1 ≤ n) (h6 : n ≤ 6) (get : Nat → Nat → R) :
    detView ⟨n, n, get⟩ = some (sqMat n get).det := by
  rw [detView_square, if_neg (by omega)]
  split
  · rename_i h
    subst h
    rw [Matrix.det_fin_one]
    rfl
  · rw [detModel_eq_det' n h1 h6]

theorem succAbove_val (m i r : Nat) (hi : i < m + 1) (hr : r < m) :
    ((Fin.succAbove ⟨i, hi⟩ ⟨r, hr⟩ : Fin (m + 1)) : Nat) = maskIdx i 1 r := by
  unfold maskIdx Fin.succAbove
  simp only [Fin.lt_def, Fin.castSucc_mk]
  split <;> rfl

theorem minorTensor_eq_det (m : Nat) (hm1 : 1 ≤ m) (hm6 : m + 1 ≤ 6) (get : Nat → Nat → R)
    (i j : Nat) (hi : i < m + 1) (hj : j < m + 1) :
    minorTensor ⟨m + 1, m + 1, get⟩ i j
      = .ok (some ((sqMat (m + 1) get).submatrix (Fin.succAbove ⟨i, hi⟩) (Fin.succAbove ⟨j, hj⟩)).det) := by
  rw [minorTensor_square (m + 1) get i j (by omega) hi hj]
  simp only [Nat.add_sub_cancel]
  rw [detView_eq_det' m hm1 (by omega)]
  have : sqMat m (fun r c => get (maskIdx i 1 r) (maskIdx j 1 c))
      = (sqMat (m + 1) get).submatrix (Fin.succAbove ⟨i, hi⟩) (Fin.succAbove ⟨j, hj⟩) := by
    ext r c
    simp only [sqMat, Matrix.of_apply, Matrix.submatrix_apply]
    rw [succAbove_val m i r hi r.isLt, succAbove_val m j c hj c.isLt]
  rw [this]

end Ring

section Field
variable {K : Type} [Field K] [NumOrd K]

/-- the element type's `==` (`PartialEq`) is equality -/
def LawfulEq (K : Type) [NumOrd K] : Prop := ∀ a b : K, NumOrd.eq a b = true ↔ a = b

/-- a row-major `n × n` buffer as a Mathlib matrix -/
def matOfList (n : Nat) (l : List K) : _root_.Matrix (Fin n) (Fin n) K :=
  Matrix.of fun i j => l.getD ((j : Nat) + (i : Nat) * n) 0

omit [NumOrd K] in
theorem cofactorSign_eq (i j : Nat) : (cofactorSign i j : K) = (-1) ^ (i + j) := by
  unfold cofactorSign
  rw [neg_one_pow_eq_pow_mod_two (n := i + j)]
  rcases Nat.mod_two_eq_zero_or_one i with hi | hi <;>
    rcases Nat.mod_two_eq_zero_or_one j with hj | hj
  · have : (i + j) % 2 = 0 := by omega
    simp [hi, hj, this]
  · have : (i + j) % 2 = 1 := by omega
    simp [hi, hj, this]
  · have : (i + j) % 2 = 1 := by omega
    simp [hi, hj, this]
  · have : (i + j) % 2 = 0 := by omega
    simp [hi, hj, this]

/-- the `(i, j)` minor of `A` with natural-number indices (0 outside the shape) -/
noncomputable def minorVal {m : Nat} (A : _root_.Matrix (Fin (m + 1)) (Fin (m + 1)) K) (i j : Nat) : K :=
  if h : i < m + 1 ∧ j < m + 1 then
    (A.submatrix (Fin.succAbove ⟨i, h.1⟩) (Fin.succAbove ⟨j, h.2⟩)).det
  else 0

open Classical in
theorem inverseTensor_succ {ν : Type} (names : ν × ν) (m : Nat) (hm1 : 1 ≤ m) (hm6 : m + 1 ≤ 6)
    (get : Nat → Nat → K) (heq : LawfulEq K) :
    inverseTensor names ⟨m + 1, m + 1, get⟩ =
      if (sqMat (m + 1) get).det = 0 then .ok none
      else .ok (some ⟨(indexPairs (m + 1) (m + 1)).map fun ij =>
          cofactorSign ij.2 ij.1 * minorVal (sqMat (m + 1) get) ij.2 ij.1
            * (1 / (sqMat (m + 1) get).det),
        [(names.1, m + 1), (names.2, m + 1)], computeStrides [(names.1, m + 1), (names.2, m + 1)]⟩) := by
  rw [inverseTensor_square names (m + 1) (by omega) get, detModel_eq_det' (m + 1) (by omega) hm6]
  by_cases hd : (sqMat (m + 1) get).det = 0
  · rw [if_pos ((heq _ _).mpr hd), if_pos hd]
  · rw [if_neg (fun h => hd ((heq _ _).mp h)), if_neg hd]
    rw [adjugateScaled_ok (m + 1) hm6 _ _ (minorVal (sqMat (m + 1) get))]
    intro i j hi hj
    rw [minorTensor_eq_det m hm1 hm6 get i j hi hj]
    simp [minorVal, hi, hj]

omit [NumOrd K] in
theorem matOfList_inv (m : Nat) (A : _root_.Matrix (Fin (m + 1)) (Fin (m + 1)) K) :
    matOfList (m + 1) ((indexPairs (m + 1) (m + 1)).map fun ij =>
      cofactorSign ij.2 ij.1 * minorVal A ij.2 ij.1 * (1 / A.det)) = A⁻¹ := by
  ext i j
  simp only [matOfList, Matrix.of_apply]
  rw [getD_map_indexPairs (m + 1) _ i j i.isLt j.isLt]
  simp only
  rw [Matrix.inv_def, Matrix.smul_apply, Matrix.adjugate_fin_succ_eq_det_submatrix,
    Ring.inverse_eq_inv', cofactorSign_eq, smul_eq_mul]
  have : minorVal A j i = (A.submatrix j.succAbove i.succAbove).det := by
    unfold minorVal
    rw [dif_pos ⟨j.isLt, i.isLt⟩]
  rw [this, one_div]
  ring

open Classical in
/-- The model's `inverse_tensor` on a square view of size 1..6 over a field: absent exactly for
    determinant zero, otherwise a tensor of the input's shape whose buffer is Mathlib's `A⁻¹`. -/
theorem inverseTensor_spec {ν : Type} (names : ν × ν) (n : Nat) (h1 : 1 ≤ n) (h6 : n ≤ 6)
    (get : Nat → Nat → K) (heq : LawfulEq K) :
    ((sqMat n get).det = 0 → inverseTensor names ⟨n, n, get⟩ = .ok none) ∧
    ((sqMat n get).det ≠ 0 → ∃ data : List K,
      inverseTensor names ⟨n, n, get⟩
        = .ok (some ⟨data, [(names.1, n), (names.2, n)], computeStrides [(names.1, n), (names.2, n)]⟩)
      ∧ data.length = n * n ∧ matOfList n data = (sqMat n get)⁻¹) := by
  by_cases hn : n = 1
  · subst hn
    have hdet : (sqMat 1 get).det = get 0 0 := by rw [Matrix.det_fin_one]; rfl
    rw [inverseTensor_one, hdet]
    constructor
    · intro h0
      rw [if_pos ((heq _ _).mpr h0)]
    · intro h0
      rw [if_neg (fun h => h0 ((heq _ _).mp h))]
      refine ⟨[1 / get 0 0], rfl, rfl, ?_⟩
      symm
      apply Matrix.inv_eq_left_inv
      ext i j
      have hi : i = 0 := Subsingleton.elim _ _
      have hj : j = 0 := Subsingleton.elim _ _
      subst hi hj
      simp [Matrix.mul_apply, matOfList, sqMat, h0]
  · obtain ⟨m, rfl⟩ : ∃ m, n = m + 1 := ⟨n - 1, by omega⟩
    rw [inverseTensor_succ names m (by omega) h6 get heq]
    constructor
    · intro h0; rw [if_pos h0]
    · intro h0
      rw [if_neg h0]
      refine ⟨_, rfl, ?_, matOfList_inv m _⟩
      rw [List.length_map, indexPairs_length]

end Field
end EasyMl.Det
