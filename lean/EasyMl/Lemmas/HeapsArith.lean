/-
  EasyMl.Lemmas.HeapsArith — the index arithmetic behind Heap's algorithm as easy-ml runs it
  (no redundant swap after the last recursive call), for every size.

  All statements are about functions `Nat → Nat` on positions:
    `piK k`      end state of `heaps k`:  final[p] = initial[piK k p]
    `tauK K i`   the swap after the `i`-th recursive call of level `K`
    `sigmaK K i` state before the `i`-th recursive call of level `K`: L_i[p] = initial[sigmaK K i p]
  Proved here: closed forms of `sigmaK` (even `K`: piecewise `cfEven`; odd `K`: powers of one
  `K`-cycle), hence (DIST) the elements brought to position `K-1` are pairwise different and
  (FINAL) `sigmaK K (K-1) ∘ piK (K-1) = piK K`.
-/
import Mathlib.Logic.Function.Iterate
import Mathlib.Tactic.SplitIfs
import Mathlib.Tactic.Ring

namespace EasyMl.Det

/-- position map of the end state of `heaps k`: final[p] = initial[piK k p] -/
def piK (k p : Nat) : Nat :=
  if k % 2 = 1 then (if p = 0 then k - 1 else if p = k - 1 then 0 else p)
  else if k = 0 then p
  else if k = 2 then (if p = 0 then 1 else if p = 1 then 0 else p)
  else if p = 0 then k - 3 else if p = 1 then k - 2 else if p ≤ k - 3 then p - 1
  else if p = k - 2 then k - 1 else if p = k - 1 then 0 else p

/-- position map of the swap after iteration `i` at level `K` -/
def tauK (K i p : Nat) : Nat :=
  if i < K - 1 then
    (if p = (if K % 2 = 0 then i else 0) then K - 1
     else if p = K - 1 then (if K % 2 = 0 then i else 0) else p)
  else p

/-- position map of the state before iteration `i` at level `K` -/
def sigmaK (K : Nat) : Nat → Nat → Nat
  | 0, p => p
  | i + 1, p => sigmaK K i (piK (K - 1) (tauK K i p))

def cf1 (K p : Nat) : Nat :=
  if p = 0 then K - 1 else if p = K - 2 then 0 else if p = K - 1 then K - 2 else p

def cfG (K i p : Nat) : Nat :=
  if p = 0 then (if i % 2 = 0 then 0 else K - 1) else if p = 1 then K - 2
  else if p ≤ i - 1 then p - 1 else if p ≤ K - 3 then p
  else if p = K - 2 then (if i % 2 = 0 then K - 1 else 0) else if p = K - 1 then i - 1 else p

def cfL (K p : Nat) : Nat :=
  if p = 0 then K - 1 else if p = 1 then K - 2 else if p ≤ K - 2 then p - 1
  else if p = K - 1 then 0 else p

def cfEven (K i p : Nat) : Nat :=
  if i = 0 then p else if i = 1 then cf1 K p else if i = K - 1 then cfL K p else cfG K i p

theorem tauK_even_spec (K i p : Nat) (hK : K % 2 = 0) (hi : i < K - 1) :
    (tauK K i p = K - 1 ∧ p = i) ∨ (tauK K i p = i ∧ p = K - 1) ∨
      (tauK K i p = p ∧ p ≠ i ∧ p ≠ K - 1) := by
  unfold tauK
  simp only [hK, hi, if_true]
  split_ifs <;> omega

theorem piK_odd_spec (k q : Nat) (hk : k % 2 = 1) :
    (piK k q = k - 1 ∧ q = 0) ∨ (piK k q = 0 ∧ q = k - 1 ∧ q ≠ 0) ∨
      (piK k q = q ∧ q ≠ 0 ∧ q ≠ k - 1) := by
  unfold piK
  simp only [hk, if_true]
  split_ifs <;> omega

theorem step01 (K p : Nat) (hK : K % 2 = 0) (h4 : 4 ≤ K) :
    piK (K - 1) (tauK K 0 p) = cf1 K p := by
  have hk : (K - 1) % 2 = 1 := by omega
  have h1 := tauK_even_spec K 0 p hK (by omega)
  have h2 := piK_odd_spec (K - 1) (tauK K 0 p) hk
  generalize tauK K 0 p = q at h1 h2
  generalize piK (K - 1) q = r at h2
  unfold cf1
  split_ifs <;> omega

set_option maxHeartbeats 2000000 in
theorem step12 (K p : Nat) (hK : K % 2 = 0) (h4 : 4 ≤ K) :
    cf1 K (piK (K - 1) (tauK K 1 p)) = cfG K 2 p := by
  have hk : (K - 1) % 2 = 1 := by omega
  have h1 := tauK_even_spec K 1 p hK (by omega)
  have h2 := piK_odd_spec (K - 1) (tauK K 1 p) hk
  generalize tauK K 1 p = q at h1 h2
  generalize piK (K - 1) q = r at h2
  unfold cf1 cfG
  split_ifs <;> omega

set_option maxHeartbeats 2000000 in
theorem stepG (K i p : Nat) (hK : K % 2 = 0) (h4 : 4 ≤ K) (hi2 : 2 ≤ i) (hi : i + 1 ≤ K - 2) :
    cfG K i (piK (K - 1) (tauK K i p)) = cfG K (i + 1) p := by
  have hk : (K - 1) % 2 = 1 := by omega
  have h1 := tauK_even_spec K i p hK (by omega)
  have h2 := piK_odd_spec (K - 1) (tauK K i p) hk
  generalize tauK K i p = q at h1 h2
  generalize piK (K - 1) q = r at h2
  unfold cfG
  split_ifs <;> omega

set_option maxHeartbeats 2000000 in
theorem stepGL (K p : Nat) (hK : K % 2 = 0) (h4 : 4 ≤ K) :
    cfG K (K - 2) (piK (K - 1) (tauK K (K - 2) p)) = cfL K p := by
  have hk : (K - 1) % 2 = 1 := by omega
  have h1 := tauK_even_spec K (K - 2) p hK (by omega)
  have h2 := piK_odd_spec (K - 1) (tauK K (K - 2) p) hk
  generalize tauK K (K - 2) p = q at h1 h2
  generalize piK (K - 1) q = r at h2
  unfold cfG cfL
  split_ifs <;> omega

theorem sigmaK_even (K : Nat) (hK : K % 2 = 0) (h4 : 4 ≤ K) (i p : Nat) (hi : i ≤ K - 1) :
    sigmaK K i p = cfEven K i p := by
  induction i generalizing p with
  | zero => simp [sigmaK, cfEven]
  | succ i ih =>
    simp only [sigmaK]
    rw [ih _ (by omega)]
    unfold cfEven
    by_cases h0 : i = 0
    · subst h0
      have : ¬ (1 = K - 1) := by omega
      simp only [if_true, zero_add, one_ne_zero, if_false]
      exact step01 K p hK h4
    · by_cases h1 : i = 1
      · subst h1
        have h2 : ¬ (2 = K - 1) := by omega
        have h3 : ¬ (1 = K - 1) := by omega
        simp only [one_ne_zero, if_false, if_true, h2, h3, Nat.reduceAdd, Nat.reduceEqDiff]
        exact step12 K p hK h4
      · have hne : ¬ (i = K - 1) := by omega
        simp only [h0, h1, hne, if_false]
        have e0 : ¬ (i + 1 = 0) := by omega
        have e1 : ¬ (i + 1 = 1) := by omega
        simp only [e0, e1, if_false]
        by_cases hl : i + 1 = K - 1
        · simp only [hl, if_true]
          have : i = K - 2 := by omega
          subst this
          exact stepGL K p hK h4
        · simp only [hl, if_false]
          exact stepG K i p hK h4 (by omega) (by omega)

theorem cfEven_last (K i : Nat) (h4 : 4 ≤ K) (hi : i ≤ K - 1) :
    cfEven K i (K - 1) = if i = 0 then K - 1 else if i = 1 then K - 2 else if i = K - 1 then 0
      else i - 1 := by
  unfold cfEven cf1 cfL cfG
  split_ifs <;> omega

set_option maxHeartbeats 2000000 in
theorem final_even (K p : Nat) (hK : K % 2 = 0) (h4 : 4 ≤ K) :
    cfL K (piK (K - 1) p) = piK K p := by
  have hk : (K - 1) % 2 = 1 := by omega
  have h2 := piK_odd_spec (K - 1) p hk
  generalize piK (K - 1) p = r at h2
  have hK0 : K ≠ 0 := by omega
  have hK2 : K ≠ 2 := by omega
  unfold cfL piK
  simp only [hK, hK0, hK2, if_false, Nat.zero_ne_one]
  split_ifs <;> omega


/-! ### Odd `K`: the recursive call is followed by the same transposition `(0 K-1)` every time -/

def tOdd (K p : Nat) : Nat := if p = 0 then K - 1 else if p = K - 1 then 0 else p

/-- one round at odd level `K`: recursive call of level `K-1` (even), then `swap(0, K-1)` -/
def rho (K p : Nat) : Nat := piK (K - 1) (tOdd K p)

def cOdd (K i : Nat) : Nat :=
  if i = 0 then K - 1 else if i ≤ K - 4 then K - 3 - i else if i = K - 3 then K - 3
  else if i = K - 2 then K - 2 else 0

def jOdd (K p : Nat) : Nat :=
  if p = K - 1 then 0 else if p = 0 then K - 1 else if p = K - 2 then K - 2
  else if p = K - 3 then K - 3 else K - 3 - p

theorem tauK_odd (K i p : Nat) (hK : K % 2 = 1) (hi : i < K - 1) : tauK K i p = tOdd K p := by
  unfold tauK tOdd
  have : ¬ (K % 2 = 0) := by omega
  simp only [hi, this, if_true, if_false]

theorem tOdd_invol (K p : Nat) (h3 : 3 ≤ K) : tOdd K (tOdd K p) = p := by
  unfold tOdd; split_ifs <;> omega

theorem tOdd_spec (K p : Nat) :
    (tOdd K p = K - 1 ∧ p = 0) ∨ (tOdd K p = 0 ∧ p = K - 1 ∧ p ≠ 0) ∨
      (tOdd K p = p ∧ p ≠ 0 ∧ p ≠ K - 1) := by
  unfold tOdd; split_ifs <;> omega

/-- the round at odd level `K`, as a piecewise function -/
def rhoCf (K p : Nat) : Nat :=
  if p = 0 then K - 1 else if p = K - 1 then (if K = 3 then 1 else K - 4)
  else if K = 3 then (if p = 1 then 0 else p)
  else if p = 1 then K - 3 else if p ≤ K - 4 then p - 1 else if p = K - 3 then K - 2
  else if p = K - 2 then 0 else p

set_option maxHeartbeats 2000000 in
theorem rho_eq (K p : Nat) (hK : K % 2 = 1) (h3 : 3 ≤ K) : rho K p = rhoCf K p := by
  have hk : ¬ ((K - 1) % 2 = 1) := by omega
  have hk0 : K - 1 ≠ 0 := by omega
  have h1 := tOdd_spec K p
  unfold rho
  generalize tOdd K p = q at h1
  unfold piK rhoCf
  simp only [hk, hk0, if_false]
  split_ifs <;> omega

theorem cOdd_zero (K : Nat) : cOdd K 0 = K - 1 := by simp [cOdd]

theorem cOdd_mid (K i : Nat) (h1 : 1 ≤ i) (h2 : i ≤ K - 4) : cOdd K i = K - 3 - i := by
  unfold cOdd; split_ifs <;> omega

theorem cOdd_Km3 (K : Nat) (h : 4 ≤ K) : cOdd K (K - 3) = K - 3 := by
  unfold cOdd; split_ifs <;> omega

theorem cOdd_Km2 (K : Nat) (h : 3 ≤ K) : cOdd K (K - 2) = K - 2 := by
  unfold cOdd; split_ifs <;> omega

theorem cOdd_last (K : Nat) (h3 : 3 ≤ K) : cOdd K (K - 1) = 0 := by
  unfold cOdd; split_ifs <;> omega

theorem rho_cOdd (K i : Nat) (hK : K % 2 = 1) (h3 : 3 ≤ K) (hi : i + 1 ≤ K - 1) :
    rho K (cOdd K i) = cOdd K (i + 1) := by
  rw [rho_eq K _ hK h3]
  rcases (by omega : i = 0 ∨ (1 ≤ i ∧ i + 1 ≤ K - 4) ∨ (1 ≤ i ∧ i = K - 4) ∨
      (1 ≤ i ∧ i = K - 3) ∨ (1 ≤ i ∧ i = K - 2)) with h | h | h | h | h
  · subst h
    rw [cOdd_zero]
    by_cases hK3 : K = 3
    · subst hK3; decide
    · rw [cOdd_mid K (0 + 1) (by omega) (by omega)]
      unfold rhoCf; split_ifs <;> omega
  · rw [cOdd_mid K i h.1 (by omega), cOdd_mid K (i + 1) (by omega) h.2]
    unfold rhoCf; split_ifs <;> omega
  · have e : i + 1 = K - 3 := by omega
    rw [cOdd_mid K i h.1 (by omega), e, cOdd_Km3 K (by omega)]
    unfold rhoCf; split_ifs <;> omega
  · have e : i + 1 = K - 2 := by omega
    rw [e, cOdd_Km2 K h3, h.2, cOdd_Km3 K (by omega)]
    unfold rhoCf; split_ifs <;> omega
  · have e : i + 1 = K - 1 := by omega
    rw [e, cOdd_last K h3, h.2, cOdd_Km2 K h3]
    unfold rhoCf; split_ifs <;> omega

theorem rho_zero (K : Nat) (hK : K % 2 = 1) (h3 : 3 ≤ K) : rho K 0 = K - 1 := by
  rw [rho_eq K _ hK h3]; simp [rhoCf]

theorem rho_fix (K p : Nat) (hK : K % 2 = 1) (h3 : 3 ≤ K) (hp : K ≤ p) : rho K p = p := by
  rw [rho_eq K _ hK h3]
  unfold rhoCf
  split_ifs <;> omega

theorem cOdd_jOdd (K p : Nat) (h3 : 3 ≤ K) (hp : p < K) :
    cOdd K (jOdd K p) = p ∧ jOdd K p ≤ K - 1 := by
  unfold cOdd jOdd
  split_ifs <;> omega

theorem cOdd_inj (K i j : Nat) (h3 : 3 ≤ K) (hi : i ≤ K - 1) (hj : j ≤ K - 1)
    (h : cOdd K i = cOdd K j) : i = j := by
  unfold cOdd at h
  split_ifs at h <;> omega

theorem sigmaK_odd (K : Nat) (hK : K % 2 = 1) (i p : Nat) (hi : i ≤ K - 1) :
    sigmaK K i p = (rho K)^[i] p := by
  induction i generalizing p with
  | zero => rfl
  | succ i ih =>
    simp only [sigmaK, Function.iterate_succ_apply]
    rw [ih _ (by omega), tauK_odd K i p hK (by omega)]
    rfl

theorem iter_cOdd (K : Nat) (hK : K % 2 = 1) (h3 : 3 ≤ K) (i : Nat) (hi : i ≤ K - 1) :
    (rho K)^[i] (K - 1) = cOdd K i := by
  induction i with
  | zero => simp [cOdd]
  | succ i ih =>
    rw [Function.iterate_succ_apply', ih (by omega), rho_cOdd K i hK h3 hi]

/-- the round `rho K` is a single `K`-cycle on the positions `< K` -/
theorem rho_pow_K (K : Nat) (hK : K % 2 = 1) (h3 : 3 ≤ K) (p : Nat) : (rho K)^[K] p = p := by
  have hlast : (rho K)^[K] (K - 1) = K - 1 := by
    have e : (rho K)^[K] (K - 1) = rho K ((rho K)^[K - 1] (K - 1)) := by
      obtain ⟨m, hm⟩ : ∃ m, K = m + 1 := ⟨K - 1, by omega⟩
      subst hm
      rw [Nat.add_sub_cancel, Function.iterate_succ_apply']
    rw [e, iter_cOdd K hK h3 (K - 1) (by omega), cOdd_last K h3, rho_zero K hK h3]
  by_cases hp : p < K
  · obtain ⟨h1, h2⟩ := cOdd_jOdd K p h3 hp
    rw [← h1, ← iter_cOdd K hK h3 _ h2, ← Function.iterate_add_apply, Nat.add_comm,
      Function.iterate_add_apply, hlast]
  · exact Function.iterate_fixed (rho_fix K p hK h3 (by omega)) K

theorem final_odd (K p : Nat) (hK : K % 2 = 1) (h3 : 3 ≤ K) :
    (rho K)^[K - 1] (piK (K - 1) p) = piK K p := by
  have h1 : piK (K - 1) p = rho K (tOdd K p) := by
    unfold rho; rw [tOdd_invol K p h3]
  rw [h1, ← Function.iterate_succ_apply]
  have : (K - 1).succ = K := by omega
  rw [this, rho_pow_K K hK h3]
  unfold piK tOdd
  simp only [hK, if_true]

/-! ### Generic facts: the maps stay inside `[0, n)` and fix everything from `K` on -/

theorem piK_fix (k p : Nat) (hp : k ≤ p) : piK k p = p := by
  unfold piK; split_ifs <;> omega

theorem piK_lt (k n p : Nat) (hk : k ≤ n) (hp : p < n) : piK k p < n := by
  unfold piK; split_ifs <;> omega

theorem tauK_fix (K i p : Nat) (hp : K ≤ p) : tauK K i p = p := by
  unfold tauK; split_ifs <;> omega

theorem tauK_lt (K i n p : Nat) (hK : K ≤ n) (hi : i < K) (hp : p < n) : tauK K i p < n := by
  unfold tauK; split_ifs <;> omega

theorem sigmaK_fix (K i p : Nat) (hp : K ≤ p) : sigmaK K i p = p := by
  induction i generalizing p with
  | zero => rfl
  | succ i ih =>
    simp only [sigmaK]
    rw [tauK_fix K i p hp, piK_fix (K - 1) p (by omega)]
    exact ih p hp

theorem sigmaK_lt (K i n p : Nat) (hK : K ≤ n) (hi : i ≤ K) (hp : p < n) : sigmaK K i p < n := by
  induction i generalizing p with
  | zero => exact hp
  | succ i ih =>
    simp only [sigmaK]
    exact ih _ (by omega) (piK_lt (K - 1) n _ (by omega) (tauK_lt K i n p hK (by omega) hp))

end EasyMl.Det
