/-
  EasyMl.Lemmas.TapePositions — a program run with two different environments (numeric inputs)
  visits the same tapes, appends at the same positions and panics at the same instruction: the
  positions of records are a function of the program, never of the numbers (C18).
-/
import EasyMl.Lemmas.TapeProg

set_option linter.unusedSectionVars false
set_option linter.unusedSimpArgs false

namespace EasyMl
open Spec

section PosSim
variable {R : Type}

/-- same tape and same position (the numbers may differ) -/
def RecSim (r r' : Rec R) : Prop := r.history = r'.history ∧ r.index = r'.index

/-- every tape has the same length in both worlds -/
def WSim (w w' : World R) : Prop := ∀ j, (w j).length = (w' j).length

theorem RecSim.const (c c' : R) : RecSim (Rec.constant c) (Rec.constant c') := ⟨rfl, rfl⟩

theorem WSim.update {w w' : World R} (hw : WSim w w') (h : Nat) (t t' : Tape R)
    (ht : t.length = t'.length) : WSim (w.update h t) (w'.update h t') := by
  intro j
  by_cases hj : j = h
  · simp [World.update, hj, ht]
  · simp [World.update, hj, hw j]

variable [Zero R]

theorem pushUnary_sim {w w' : World R} (hw : WSim w w') (h p p' : Nat) (d d' n n' : R) :
    RecSim (Rec.pushUnary w h p d n).1 (Rec.pushUnary w' h p' d' n').1 ∧
      WSim (Rec.pushUnary w h p d n).2 (Rec.pushUnary w' h p' d' n').2 := by
  refine ⟨⟨rfl, hw h⟩, ?_⟩
  exact hw.update h _ _ (by simp [Tape.appendUnary, hw h])

theorem pushBinary_sim {w w' : World R} (hw : WSim w w') (h lp lp' rp rp' : Nat)
    (ld ld' rd rd' n n' : R) :
    RecSim (Rec.pushBinary w h lp ld rp rd n).1 (Rec.pushBinary w' h lp' ld' rp' rd' n').1 ∧
      WSim (Rec.pushBinary w h lp ld rp rd n).2 (Rec.pushBinary w' h lp' ld' rp' rd' n').2 := by
  refine ⟨⟨rfl, hw h⟩, ?_⟩
  exact hw.update h _ _ (by simp [Tape.appendBinary, hw h])

theorem mkVar_sim {w w' : World R} (hw : WSim w w') (h : Nat) (x x' : R) :
    RecSim (Rec.mkVar x h w).1 (Rec.mkVar x' h w').1 ∧ WSim (Rec.mkVar x h w).2 (Rec.mkVar x' h w').2 := by
  refine ⟨⟨rfl, hw h⟩, ?_⟩
  exact hw.update h _ _ (by simp [Tape.appendNullary, hw h])

theorem unary_sim {a a' : Rec R} (ha : RecSim a a') {w w' : World R} (hw : WSim w w')
    (f df f' df' : R → R) :
    RecSim (a.unary f df w).1 (a'.unary f' df' w').1 ∧ WSim (a.unary f df w).2 (a'.unary f' df' w').2 := by
  unfold Rec.unary
  rw [← ha.1]
  cases a.history with
  | none => exact ⟨RecSim.const _ _, hw⟩
  | some h => exact pushUnary_sim hw h _ _ _ _ _ _

/-- two outcomes end the same way, with related results -/
def OutSim (x y : Outcome (Rec R × World R)) : Prop :=
  match x, y with
  | .ok a, .ok b => RecSim a.1 b.1 ∧ WSim a.2 b.2
  | .panic k, .panic k' => k = k'
  | _, _ => False

theorem sameList_sim {a a' b b' : Rec R} (ha : RecSim a a') (hb : RecSim b b') :
    Rec.sameList a b = Rec.sameList a' b' := by
  unfold Rec.sameList
  rw [ha.1, hb.1]

theorem binary_sim {a a' b b' : Rec R} (ha : RecSim a a') (hb : RecSim b b') {w w' : World R}
    (hw : WSim w w') (f dfx dfy f' dfx' dfy' : R → R → R) :
    OutSim (a.binary b f dfx dfy w) (a'.binary b' f' dfx' dfy' w') := by
  unfold Rec.binary
  rw [← sameList_sim ha hb, ← ha.1, ← hb.1]
  split
  · simp [OutSim]
  · cases a.history <;> cases b.history <;> simp only [OutSim]
    · exact ⟨RecSim.const _ _, hw⟩
    · rw [hb.2]; exact pushUnary_sim hw _ _ _ _ _ _ _
    · rw [ha.2]; exact pushUnary_sim hw _ _ _ _ _ _ _
    · exact pushBinary_sim hw _ _ _ _ _ _ _ _ _ _ _

end PosSim

section PosProg
variable {R : Type} [CommRing R] [Div R] [RealFns R]

/-- outcome of an instruction: world and record-or-panic -/
def StepSim (x y : World R × Outcome (Rec R)) : Prop :=
  WSim x.1 y.1 ∧
  match x.2, y.2 with
  | .ok a, .ok b => RecSim a b
  | .panic k, .panic k' => k = k'
  | _, _ => False

theorem okStep_sim {x y : Rec R × World R} (h : RecSim x.1 y.1 ∧ WSim x.2 y.2) :
    StepSim (okStep x) (okStep y) := ⟨h.2, h.1⟩

theorem liftStep_sim {w w' : World R} (hw : WSim w w') {x y : Outcome (Rec R × World R)}
    (h : OutSim x y) : StepSim (liftStep w x) (liftStep w' y) := by
  cases x with
  | ok a =>
    cases y with
    | ok b => exact ⟨h.2, h.1⟩
    | panic k => exact absurd h (by simp [OutSim])
  | panic k =>
    cases y with
    | ok b => exact absurd h (by simp [OutSim])
    | panic k' => exact ⟨hw, h⟩

theorem sumStep_sim {t t' n n' : Rec R} (ht : RecSim t t') (hn : RecSim n n') {w w' : World R}
    (hw : WSim w w') : OutSim (Rec.sumStep t n w) (Rec.sumStep t' n' w') := by
  unfold Rec.sumStep
  rw [← sameList_sim ht hn, ← ht.1, ← hn.1]
  cases t.history with
  | none =>
    cases n.history with
    | none => exact ⟨RecSim.const _ _, hw⟩
    | some h => simp only [OutSim]; rw [hn.2]; exact pushUnary_sim hw _ _ _ _ _ _ _
  | some h =>
    cases n.history with
    | none => simp only [OutSim]; rw [ht.2]; exact pushUnary_sim hw _ _ _ _ _ _ _
    | some h2 =>
      by_cases hs : (!t.sameList n) = true
      · simp [hs, OutSim]
      · simp only [hs, if_false, OutSim, Bool.false_eq_true]
        exact pushBinary_sim hw _ _ _ _ _ _ _ _ _ _ _

theorem sumLoop_sim (recs recs' : List (Rec R)) (hr : ∀ i, RecSim (getRec recs i) (getRec recs' i))
    (as : List Nat) {t t' : Rec R} (ht : RecSim t t') {w w' : World R} (hw : WSim w w') :
    StepSim (Rec.sumLoop (as.map (getRec recs)) t w) (Rec.sumLoop (as.map (getRec recs')) t' w') := by
  induction as generalizing t t' w w' with
  | nil => exact ⟨hw, ht⟩
  | cons a rest ih =>
    simp only [List.map_cons, Rec.sumLoop]
    have h := sumStep_sim ht (hr a) hw
    cases h1 : Rec.sumStep t (getRec recs a) w with
    | ok x =>
      cases h2 : Rec.sumStep t' (getRec recs' a) w' with
      | ok y =>
        rw [h1, h2] at h
        exact ih h.1 h.2
      | panic k => rw [h1, h2] at h; exact absurd h (by simp [OutSim])
    | panic k =>
      cases h2 : Rec.sumStep t' (getRec recs' a) w' with
      | ok y => rw [h1, h2] at h; exact absurd h (by simp [OutSim])
      | panic k' => rw [h1, h2] at h; exact ⟨hw, h⟩

/-- One instruction, two environments: same tapes and positions afterwards, same panic. -/
theorem instr_sim (h : Nat) (env env' : Nat → R) (recs recs' : List (Rec R))
    (hl : recs.length = recs'.length) (hr : ∀ i, RecSim (getRec recs i) (getRec recs' i))
    {w w' : World R} (hw : WSim w w') (ins : Instr R) :
    StepSim (ins.exec h env recs w) (ins.exec h env' recs' w') := by
  cases ins with
  | const c => exact ⟨hw, RecSim.const c c⟩
  | var => exact okStep_sim (mkVar_sim hw h _ _)
  | arith op a b =>
    cases op <;> simp only [Instr.exec, Rec.add_eq, Rec.sub_eq, Rec.mul_eq, Rec.div_eq] <;>
      exact liftStep_sim hw (binary_sim (hr a) (hr b) hw _ _ _ _ _ _)
  | arithNum op a c =>
    cases op <;>
      simp only [Instr.exec, Rec.addNum_eq, Rec.subNum_eq, Rec.mulNum_eq, Rec.divNum_eq] <;>
      exact okStep_sim (unary_sim (hr a) hw _ _ _ _)
  | swapped op c a =>
    cases op <;> simp only [Instr.exec, Rec.subSwapped_eq, Rec.divSwapped_eq] <;>
      exact okStep_sim (unary_sim (hr a) hw _ _ _ _)
  | neg a =>
    simp only [Instr.exec, Rec.neg_eq]
    exact okStep_sim (unary_sim (hr a) hw _ _ _ _)
  | sum as => exact sumLoop_sim recs recs' hr as (RecSim.const _ _) hw
  | real f a =>
    cases f <;>
      simp only [Instr.exec, Rec.sin_eq, Rec.cos_eq, Rec.exp_eq, Rec.ln_eq, Rec.sqrt_eq] <;>
      exact okStep_sim (unary_sim (hr a) hw _ _ _ _)
  | pow a b =>
    simp only [Instr.exec, Rec.pow_eq]
    exact liftStep_sim hw (binary_sim (hr a) (hr b) hw _ _ _ _ _ _)
  | powNum a c =>
    simp only [Instr.exec, Rec.powNum_eq]
    exact okStep_sim (unary_sim (hr a) hw _ _ _ _)
  | numPow c a =>
    simp only [Instr.exec, Rec.numPow_eq]
    exact okStep_sim (unary_sim (hr a) hw _ _ _ _)
  | unary f df a => exact okStep_sim (unary_sim (hr a) hw _ _ _ _)
  | binary f dfx dfy a b => exact liftStep_sim hw (binary_sim (hr a) (hr b) hw _ _ _ _ _ _)

/-- the results of a run: same length, pairwise the same tape and position -/
def RunSim (x y : World R × Outcome (List (Rec R))) : Prop :=
  WSim x.1 y.1 ∧
  match x.2, y.2 with
  | .ok rs, .ok rs' => rs.length = rs'.length ∧ ∀ i, RecSim (getRec rs i) (getRec rs' i)
  | .panic k, .panic k' => k = k'
  | _, _ => False

theorem getRec_snoc_sim (recs recs' : List (Rec R)) (hl : recs.length = recs'.length)
    (hr : ∀ i, RecSim (getRec recs i) (getRec recs' i)) (r r' : Rec R) (h : RecSim r r') (i : Nat) :
    RecSim (getRec (recs ++ [r]) i) (getRec (recs' ++ [r']) i) := by
  rcases Nat.lt_trichotomy i recs.length with hi | hi | hi
  · rw [getRec_append_lt _ _ _ hi, getRec_append_lt _ _ _ (by omega)]; exact hr i
  · subst hi
    rw [getRec_append_length]
    have := getRec_append_length recs' r'
    rw [← hl] at this
    rw [this]
    exact h
  · unfold getRec
    rw [getD_of_le _ _ (by simp; omega), getD_of_le _ _ (by simp; omega)]
    exact RecSim.const _ _

theorem execFrom_sim (h : Nat) (env env' : Nat → R) (p : Prog R) {w w' : World R} (hw : WSim w w')
    (recs recs' : List (Rec R)) (hl : recs.length = recs'.length)
    (hr : ∀ i, RecSim (getRec recs i) (getRec recs' i)) :
    RunSim (Prog.execFrom h env p w recs) (Prog.execFrom h env' p w' recs') := by
  induction p generalizing w w' recs recs' with
  | nil => exact ⟨hw, hl, hr⟩
  | cons ins rest ih =>
    have hs := instr_sim h env env' recs recs' hl hr hw ins
    simp only [Prog.execFrom]
    rcases h1 : ins.exec h env recs w with ⟨w1, o1⟩
    rcases h2 : ins.exec h env' recs' w' with ⟨w2, o2⟩
    rw [h1, h2] at hs
    obtain ⟨hw12, ho⟩ := hs
    cases o1 with
    | ok r1 =>
      cases o2 with
      | ok r2 =>
        simp only at ho ⊢
        exact ih hw12 _ _ (by simp [hl]) (getRec_snoc_sim recs recs' hl hr r1 r2 ho)
      | panic k => exact absurd ho (by simp)
    | panic k =>
      cases o2 with
      | ok r2 => exact absurd ho (by simp)
      | panic k' => exact ⟨hw12, ho⟩

end PosProg
end EasyMl
