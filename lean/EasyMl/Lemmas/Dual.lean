/-
  EasyMl.Lemmas.Dual — the dual-number model (`Trace`, Model/Tape.lean) computes the
  specification's values and formal derivatives (Spec/Prog.lean), instruction by instruction.
-/
import EasyMl.Model.TapeExec
import EasyMl.Lemmas.Tape
import EasyMl.Lemmas.DivLaws

namespace EasyMl
open Spec

set_option linter.unusedSectionVars false

variable {R : Type} [CommRing R] [Div R] [RealFns R]

/-- the duals of a run agree with the specification's values and derivatives -/
def DualInv (ds : List (Dual R)) (vs ts : List R) : Prop :=
  ds.length = vs.length ∧ ts.length = vs.length ∧
    ∀ k, getDual ds k = ⟨vs.getD k 0, ts.getD k 0⟩

theorem Dual.ext' {a b : Dual R} (h1 : a.number = b.number) (h2 : a.derivative = b.derivative) :
    a = b := by
  cases a; cases b; simp at h1 h2; simp [h1, h2]

theorem dual_sum_foldl (as : List Nat) (ds : List (Dual R)) (vs ts : List R)
    (h : ∀ k, getDual ds k = ⟨vs.getD k 0, ts.getD k 0⟩) (acc : Dual R) :
    (as.map (getDual ds)).foldl
        (fun total next => (⟨total.number + next.number, total.derivative + next.derivative⟩ : Dual R)) acc
      = ⟨(as.map (vs.getD · 0)).foldl (· + ·) acc.number,
         (as.map (ts.getD · 0)).foldl (· + ·) acc.derivative⟩ := by
  induction as generalizing acc with
  | nil => rfl
  | cons a rest ih =>
    simp only [List.map_cons, List.foldl_cons]
    rw [ih, h a]

theorem execDual_step (i : Nat) (env : Nat → R) (ds : List (Dual R)) (vs ts : List R)
    (hinv : DualInv ds vs ts) (ins : Instr R) (hd : ins.usesDiv = false ∨ DivLaws R) :
    ins.execDual i env ds = ⟨ins.val env vs, ins.tan (unitSeed i) vs ts⟩ := by
  obtain ⟨hl, _, h⟩ := hinv
  cases ins with
  | const c => rfl
  | var =>
    simp only [Instr.execDual, Instr.val, Instr.tan, unitSeed, hl]
    split <;> rfl
  | arith o a b =>
    cases o <;> simp only [Instr.execDual, h a, h b, Instr.val, Instr.tan, Arith.app, Arith.tan,
      Dual.add, Dual.sub, Dual.mul, Dual.div]
  | arithNum o a c =>
    cases o <;> simp only [Instr.execDual, h a, Instr.val, Instr.tan, Arith.app, Arith.tan,
      Dual.addNum, Dual.subNum, Dual.mulNum, Dual.divNum] <;> apply Dual.ext' <;> simp
  | swapped o c a =>
    cases o <;> simp only [Instr.execDual, h a, Instr.val, Instr.tan, Swapped.toArith, Arith.app,
      Arith.tan, Dual.sub, Dual.div, Dual.constant]
  | neg a =>
    simp only [Instr.execDual, h a, Instr.val, Instr.tan, Dual.neg, Dual.sub, Dual.constant]
    apply Dual.ext' <;> simp
  | sum as =>
    simp only [Instr.execDual, Dual.sum, Instr.val, Instr.tan, sumList]
    rw [dual_sum_foldl as ds vs ts h]
    rfl
  | real f a =>
    cases f
    · simp only [Instr.execDual, h a, Instr.val, Instr.tan, RealFn.app, RealFn.deriv, Dual.sin]
      apply Dual.ext' <;> simp; ring
    · simp only [Instr.execDual, h a, Instr.val, Instr.tan, RealFn.app, RealFn.deriv, Dual.cos]
      apply Dual.ext' <;> simp; ring
    · simp only [Instr.execDual, h a, Instr.val, Instr.tan, RealFn.app, RealFn.deriv, Dual.exp]
      apply Dual.ext' <;> simp; ring
    · simp only [Instr.execDual, h a, Instr.val, Instr.tan, RealFn.app, RealFn.deriv, Dual.ln]
      apply Dual.ext'
      · rfl
      · exact (divLaws_of hd rfl).div_eq _ _
    · simp only [Instr.execDual, h a, Instr.val, Instr.tan, RealFn.app, RealFn.deriv, Dual.sqrt]
      apply Dual.ext'
      · rfl
      · exact (divLaws_of hd rfl).div_eq _ _
  | pow a b =>
    simp only [Instr.execDual, h a, h b, Instr.val, Instr.tan, Dual.pow, powDx, powDy]
    apply Dual.ext' <;> simp; ring
  | powNum a c =>
    simp only [Instr.execDual, h a, Instr.val, Instr.tan, Dual.powNum, powDx]
    apply Dual.ext' <;> simp; ring
  | numPow c a =>
    simp only [Instr.execDual, h a, Instr.val, Instr.tan, Dual.numPow, powDy]
    apply Dual.ext' <;> simp; ring
  | unary f df a =>
    simp only [Instr.execDual, h a, Instr.val, Instr.tan, Dual.unary]
    apply Dual.ext' <;> simp; ring
  | binary f dfx dfy a b =>
    simp only [Instr.execDual, h a, h b, Instr.val, Instr.tan, Dual.binary]
    apply Dual.ext' <;> simp; ring

theorem DualInv.snoc {ds : List (Dual R)} {vs ts : List R} (hinv : DualInv ds vs ts) (v t : R) :
    DualInv (ds ++ [⟨v, t⟩]) (vs ++ [v]) (ts ++ [t]) := by
  obtain ⟨hl, hl2, h⟩ := hinv
  refine ⟨by simp [hl], by simp [hl2], ?_⟩
  intro k
  by_cases hlt : k < ds.length
  · unfold getDual
    rw [getD_append_lt _ _ _ hlt, getD_append_lt _ _ _ (by omega), getD_append_lt _ _ _ (by omega)]
    exact h k
  · by_cases heq : k = ds.length
    · subst heq
      unfold getDual
      rw [getD_append_length]
      have h1 := getD_append_length vs v 0
      have h2 := getD_append_length ts t 0
      rw [← hl] at h1
      rw [hl2, ← hl] at h2
      rw [h1, h2]
    · unfold getDual
      rw [getD_of_le _ _ (by simp; omega), getD_of_le _ _ (by simp; omega),
        getD_of_le _ _ (by simp; omega)]
      rfl

theorem dual_run (i : Nat) (env : Nat → R) (p : Prog R) (hd : DivOK p) :
    ∀ (ds : List (Dual R)) (vs ts : List R), DualInv ds vs ts →
      DualInv (Prog.execDualFrom i env p ds) (Prog.evalFrom env p vs)
        (Prog.tangentsFrom env (unitSeed i) p vs ts).2 := by
  induction p with
  | nil => intro ds vs ts h; exact h
  | cons ins rest ih =>
    obtain ⟨hd1, hd2⟩ := hd.cons
    have ih := ih hd2
    intro ds vs ts h
    simp only [Prog.execDualFrom, Prog.evalFrom, Prog.tangentsFrom]
    rw [execDual_step i env ds vs ts h ins hd1]
    exact ih _ _ _ (h.snoc _ _)

theorem execDualFrom_length (i : Nat) (env : Nat → R) (p : Prog R) (ds : List (Dual R)) :
    (Prog.execDualFrom i env p ds).length = ds.length + p.length := by
  induction p generalizing ds with
  | nil => rfl
  | cons ins rest ih => simp only [Prog.execDualFrom, ih, List.length_append, List.length_cons,
      List.length_nil]; omega

/-- putting `Trace::variable(env i)` in for input `i` is the seeded run -/
theorem execDualWith_mkVar (i : Nat) (env : Nat → R) (p : Prog R) (ds : List (Dual R)) :
    Prog.execDualWithFrom i (Dual.mkVar (env i)) env p ds = Prog.execDualFrom i env p ds := by
  induction p generalizing ds with
  | nil => rfl
  | cons ins rest ih =>
    simp only [Prog.execDualWithFrom, Prog.execDualFrom]
    have : (if ins.isVar && ds.length == i then Dual.mkVar (env i) else ins.execDual i env ds)
        = ins.execDual i env ds := by
      by_cases hc : (ins.isVar && ds.length == i) = true
      · rw [if_pos hc]
        simp only [Bool.and_eq_true, beq_iff_eq] at hc
        obtain ⟨hv, hl⟩ := hc
        have : ins = Instr.var := by cases ins <;> simp [Instr.isVar] at hv ⊢
        subst this
        simp [Instr.execDual, hl]
      · rw [if_neg hc]
    rw [this]
    exact ih _

theorem DualInv.init : DualInv ([] : List (Dual R)) [] [] :=
  ⟨rfl, rfl, fun _ => rfl⟩

end EasyMl
