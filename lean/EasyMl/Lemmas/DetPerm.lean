/-
  EasyMl.Lemmas.DetPerm — from emitted arrangements to `Equiv.Perm (Fin n)`:
  `toList`/`enc` (a permutation as `generate_permutations` presents it), one transposition step
  flips the sign, a table passing `tableOK` enumerates `Perm (Fin n)` (sizes 1..6, kernel tables),
  and any such enumeration folded by the determinant closure is `Matrix.det` (`det_apply'`).
-/
import Mathlib.LinearAlgebra.Matrix.Determinant.Basic
import EasyMl.Lemmas.DetTable
import EasyMl.Lemmas.DetMinor

namespace EasyMl.Det
open Equiv

variable {n : Nat}

/-- the arrangement (list of images) of a permutation of `Fin n` -/
def toList (σ : Perm (Fin n)) : List Nat := List.ofFn fun i : Fin n => (σ i : Nat)

/-- a permutation as `generate_permutations` presents it: arrangement and `even_swaps` flag -/
def enc (σ : Perm (Fin n)) : List Nat × Bool := (toList σ, decide (Perm.sign σ = 1))

theorem toList_one : toList (1 : Perm (Fin n)) = List.range n := by
  apply List.ext_getElem <;> simp [toList]

theorem toList_injective : Function.Injective (toList : Perm (Fin n) → List Nat) := by
  intro σ τ h
  ext i
  have := congrArg (fun l => l[i.val]?) h
  simpa [toList] using this

theorem swap_toList (σ : Perm (Fin n)) (a b : Nat) (ha : a < n) (hb : b < n) :
    swap (toList σ) a b = toList (σ * Equiv.swap ⟨a, ha⟩ ⟨b, hb⟩) := by
  have h1 : (toList σ)[a]? = some (σ ⟨a, ha⟩ : Nat) := by simp [toList, ha]
  have h2 : (toList σ)[b]? = some (σ ⟨b, hb⟩ : Nat) := by simp [toList, hb]
  unfold swap
  rw [h1, h2]
  apply List.ext_getElem
  · simp [toList]
  · intro i hi1 hi2
    have hi : i < n := by simpa [toList] using hi2
    simp only [List.getElem_set, toList, List.getElem_ofFn, Perm.coe_mul, Function.comp_apply]
    rw [Equiv.swap_apply_def]
    by_cases hib : b = i
    · subst hib
      by_cases hab : a = b
      · subst hab; simp
      · have : (⟨b, hi⟩ : Fin n) ≠ ⟨a, ha⟩ := by simp [Fin.ext_iff]; omega
        simp [this]
    · by_cases hia : a = i
      · subst hia; simp [hib]
      · have h3 : (⟨i, hi⟩ : Fin n) ≠ ⟨a, ha⟩ := by simp [Fin.ext_iff]; omega
        have h4 : (⟨i, hi⟩ : Fin n) ≠ ⟨b, hb⟩ := by simp [Fin.ext_iff]; omega
        simp [hib, hia, h3, h4]


theorem sign_eq_one_or (σ : Perm (Fin n)) : Perm.sign σ = 1 ∨ Perm.sign σ = -1 :=
  Int.units_eq_one_or _

theorem step_enc (σ : Perm (Fin n)) (y : List Nat × Bool) (h : stepOK n (enc σ) y = true) :
    ∃ τ : Perm (Fin n), y = enc τ := by
  obtain ⟨hflag, a, b, hab, hb, hy⟩ := stepOK_iff n _ _ h
  have ha : a < n := Nat.lt_trans hab hb
  refine ⟨σ * Equiv.swap ⟨a, ha⟩ ⟨b, hb⟩, ?_⟩
  have hne : (⟨a, ha⟩ : Fin n) ≠ ⟨b, hb⟩ := by simp [Fin.ext_iff]; omega
  apply Prod.ext
  · simp only [enc] at hy ⊢
    rw [hy, swap_toList σ a b ha hb]
  · simp only [enc] at hflag ⊢
    rw [hflag, Perm.sign_mul, Perm.sign_swap hne]
    rcases sign_eq_one_or σ with h1 | h1 <;> simp [h1]

theorem chain_enc (σ : Perm (Fin n)) (rest : List (List Nat × Bool))
    (h : chainOK n (enc σ :: rest) = true) : ∃ τs : List (Perm (Fin n)), rest = τs.map enc := by
  induction rest generalizing σ with
  | nil => exact ⟨[], rfl⟩
  | cons y rest ih =>
    simp only [chainOK, Bool.and_eq_true] at h
    obtain ⟨τ, hτ⟩ := step_enc σ y h.1
    subst hτ
    obtain ⟨τs, hτs⟩ := ih τ h.2
    exact ⟨τ :: τs, by simp [hτs]⟩

theorem fact_eq (n : Nat) : fact n = n.factorial := by
  induction n with
  | zero => rfl
  | succ n ih => simp [fact, Nat.factorial, ih]

/-- A table passing `tableOK` is the image under `enc` of a duplicate-free, complete list of
    the permutations of `Fin n`. -/
theorem enumerates_of_tableOK (h : tableOK n = true) :
    ∃ σs : List (Perm (Fin n)), σs.Nodup ∧ (∀ σ, σ ∈ σs) ∧
      generatePermutations (List.range n) = σs.map enc := by
  obtain ⟨hhead, hchain, hlen, hnodup⟩ := tableOK_iff n h
  cases ht : generatePermutations (List.range n) with
  | nil => rw [ht] at hhead; simp at hhead
  | cons x rest =>
    rw [ht] at hhead hchain hlen hnodup
    have hx : x = enc (1 : Perm (Fin n)) := by
      simp only [List.head?_cons, Option.some.injEq] at hhead
      rw [hhead]; simp [enc, toList_one]
    subst hx
    obtain ⟨τs, hτs⟩ := chain_enc 1 rest hchain
    subst hτs
    have hmap : (enc (1 : Perm (Fin n)) :: τs.map enc) = ((1 : Perm (Fin n)) :: τs).map enc := by simp
    rw [hmap] at hlen hnodup ⊢
    have hnd : ((1 : Perm (Fin n)) :: τs).Nodup := by
      rw [List.map_map] at hnodup
      exact List.Nodup.of_map _ hnodup
    refine ⟨1 :: τs, hnd, ?_, rfl⟩
    have hcard : ((1 : Perm (Fin n)) :: τs).toFinset.card = Fintype.card (Perm (Fin n)) := by
      rw [List.toFinset_card_of_nodup hnd, Fintype.card_perm, Fintype.card_fin, ← fact_eq]
      simpa using hlen
    have huniv := Finset.eq_univ_of_card _ hcard
    intro σ
    have : σ ∈ ((1 : Perm (Fin n)) :: τs).toFinset := by rw [huniv]; exact Finset.mem_univ σ
    exact List.mem_toFinset.mp this


variable {R : Type} [CommRing R]

/-- the `n × n` Mathlib matrix a view shows -/
def sqMat (n : Nat) (get : Nat → Nat → R) : _root_.Matrix (Fin n) (Fin n) R :=
  Matrix.of fun i j => get i j

theorem foldl_add_eq_sum {β : Type} (f : β → R) (l : List β) (a : R) :
    l.foldl (fun s x => s + f x) a = a + (l.map f).sum := by
  induction l generalizing a with
  | nil => simp
  | cons x xs ih => simp [ih, add_assoc]

theorem foldl_mul_eq_prod {β : Type} (f : β → R) (l : List β) (a : R) :
    l.foldl (fun s x => s * f x) a = a * (l.map f).prod := by
  induction l generalizing a with
  | nil => simp
  | cons x xs ih => simp [ih, mul_assoc]

theorem zipIdx_ofFn {β : Type} (f : Fin n → β) :
    (List.ofFn f).zipIdx = List.ofFn fun i : Fin n => (f i, (i : Nat)) := by
  apply List.ext_getElem <;> simp

theorem permProduct_toList (get : Nat → Nat → R) (σ : Perm (Fin n)) :
    permProduct get (toList σ) = ∏ i : Fin n, get i (σ i) := by
  unfold permProduct toList
  rw [zipIdx_ofFn]
  rw [foldl_mul_eq_prod (fun x : Nat × Nat => get x.2 x.1), one_mul, List.map_ofFn, List.prod_ofFn]
  rfl

theorem signature_sign (σ : Perm (Fin n)) :
    (signature (decide (Perm.sign σ = 1)) : R) = ((Perm.sign σ : ℤˣ) : ℤ) := by
  unfold signature
  rcases sign_eq_one_or σ with h | h <;> simp [h]

/-- Any duplicate-free complete list of the permutations with their signs, folded by the
    determinant closure, gives Mathlib's determinant. -/
theorem det_of_enumeration' (σs : List (Perm (Fin n))) (hnd : σs.Nodup) (hall : ∀ σ, σ ∈ σs)
    (get : Nat → Nat → R) :
    (σs.map enc).foldl (fun s pe => detStep get s pe.1 pe.2) 0 = (sqMat n get).det := by
  have h1 : (fun (s : R) (pe : List Nat × Bool) => detStep get s pe.1 pe.2)
      = fun s pe => s + (fun pe : List Nat × Bool => signature pe.2 * permProduct get pe.1) pe := by
    funext s pe; rfl
  rw [h1, foldl_add_eq_sum, zero_add, List.map_map]
  rw [← Matrix.det_transpose, Matrix.det_apply']
  have huniv : σs.toFinset = Finset.univ := by
    ext σ; simp [hall σ]
  rw [← huniv, List.sum_toFinset _ hnd]
  congr 1
  apply List.map_congr_left
  intro σ _
  simp only [Function.comp_apply, enc, signature_sign, permProduct_toList]
  rfl

/-- The model's Leibniz sum (Heap's order, alternating flag) is Mathlib's determinant for the
    property's sizes. -/
theorem detModel_eq_det' (n : Nat) (h1 : 1 ≤ n) (h6 : n ≤ 6) (get : Nat → Nat → R) :
    detModel n get = (sqMat n get).det := by
  obtain ⟨σs, hnd, hall, htab⟩ := enumerates_of_tableOK (tableOK_le6 n h1 h6)
  unfold detModel
  rw [withEach_eq, htab]
  exact det_of_enumeration' σs hnd hall get

end EasyMl.Det
