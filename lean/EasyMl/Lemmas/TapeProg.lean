/-
  EasyMl.Lemmas.TapeProg — the invariant connecting a program run with records on a tape
  (`Prog.exec`) to its specification (`Prog.eval`, `Prog.tangents`, `Prog.deps`).

  After every instruction: the tape is well formed; every record carries the plain value; a record
  without a tape has formal derivative zero; a record with a tape sits at a valid position whose
  *tape* tangent (`tapeTan`, Lemmas/Tape.lean) is the formal derivative of its instruction.  The
  seeds of the tape positions are a ghost function `tseed` that is zero except at the positions
  of the input variables, where it is the seed of that input.
-/
import EasyMl.Lemmas.Tape
import EasyMl.Lemmas.DivLaws
import EasyMl.Model.TapeExec

namespace EasyMl
open Spec

set_option linter.unusedSectionVars false

/-! ### worlds -/

section World
variable {R : Type}

@[simp] theorem World.update_same (w : World R) (h : Nat) (t : Tape R) : (w.update h t) h = t := by
  simp [World.update]

theorem World.update_other (w : World R) (h j : Nat) (t : Tape R) (hj : j ≠ h) :
    (w.update h t) j = w j := by
  simp [World.update, hj]

end World

section Inv
variable {R : Type} [CommRing R] [Div R] [RealFns R]

/-- What the invariant says about one record: its value is `v`; without a tape its formal
    derivative `t` is zero; with a tape it sits at a valid position of tape `h` whose tangent
    is `t`. -/
def Good (h : Nat) (tseed : Nat → R) (w : World R) (r : Rec R) (v t : R) : Prop :=
  r.number = v ∧
  match r.history with
  | none => t = 0
  | some h' => h' = h ∧ r.index < (w h).length ∧ (tapeTan tseed (w h)).getD r.index 0 = t

theorem Good.mono {h : Nat} {tseed tseed' : Nat → R} {w w' : World R} {r : Rec R} {v t : R}
    (hg : Good h tseed w r v t) (ext : Tape R) (hw : w' h = w h ++ ext)
    (hs : ∀ j, j < (w h).length → tseed' j = tseed j) : Good h tseed' w' r v t := by
  refine ⟨hg.1, ?_⟩
  have h2 := hg.2
  cases hr : r.history with
  | none => simpa [hr] using h2
  | some h' =>
    simp only [hr] at h2 ⊢
    obtain ⟨e, hlt, htan⟩ := h2
    refine ⟨e, by rw [hw]; simp; omega, ?_⟩
    rw [hw, tapeTan_append_getD _ _ _ _ hlt, tapeTan_congr tseed' tseed (w h) hs]
    exact htan

theorem Good.sameList {h : Nat} {tseed : Nat → R} {w : World R} {a b : Rec R} {va ta vb tb : R}
    (ha : Good h tseed w a va ta) (hb : Good h tseed w b vb tb) : Rec.sameList a b = true := by
  unfold Rec.sameList
  have h1 := ha.2
  have h2 := hb.2
  cases hra : a.history <;> cases hrb : b.history <;> simp [hra, hrb] at h1 h2 ⊢
  rw [h1.1, h2.1]

/-- the result of one instruction: the new record is good for `(v, t)`, the tape stays well
    formed and only grows, other tapes are untouched, and the record has a tape iff `dep` -/
structure StepOK (h : Nat) (tseed : Nat → R) (w : World R) (res : Rec R × World R) (v t : R)
    (dep : Bool) : Prop where
  good : Good h tseed res.2 res.1 v t
  wf : Tape.WF (res.2 h)
  grows : ∃ ext, res.2 h = w h ++ ext
  dep : res.1.history.isSome = dep

theorem stepOK_const {h : Nat} {tseed : Nat → R} {w : World R} (hwf : Tape.WF (w h)) (x v t : R)
    (hv : x = v) (ht : t = 0) : StepOK h tseed w (Rec.constant x, w) v t false :=
  ⟨⟨hv, by simpa [Rec.constant] using ht⟩, hwf, ⟨[], by simp⟩, rfl⟩

theorem stepOK_unary {h : Nat} {tseed : Nat → R} {w : World R} (hwf : Tape.WF (w h))
    (hsupp : ∀ j, (w h).length ≤ j → tseed j = 0)
    {a : Rec R} {va ta : R} (ha : Good h tseed w a va ta) (hah : a.history = some h)
    (d x v t : R) (hv : x = v) (ht : t = d * ta) :
    StepOK h tseed w (Rec.pushUnary w h a.index d x) v t true := by
  have ha2 := ha.2
  simp only [hah] at ha2
  obtain ⟨_, hlt, htan⟩ := ha2
  simp only [Rec.pushUnary, Tape.appendUnary]
  refine ⟨⟨hv, ?_⟩, ?_, ⟨[⟨a.index, (w h).length, d, 0⟩], by simp⟩, rfl⟩
  · simp only [World.update_same]
    refine ⟨trivial, by simp, ?_⟩
    rw [tapeTan_snoc_last, hsupp _ (Nat.le_refl _), htan, ht]
    ring
  · simp only [World.update_same]
    exact Tape.WF_snoc _ _ hwf (Or.inl hlt) (Or.inr ⟨rfl, rfl⟩)

theorem stepOK_binary {h : Nat} {tseed : Nat → R} {w : World R} (hwf : Tape.WF (w h))
    (hsupp : ∀ j, (w h).length ≤ j → tseed j = 0)
    {a b : Rec R} {va ta vb tb : R} (ha : Good h tseed w a va ta) (hah : a.history = some h)
    (hb : Good h tseed w b vb tb) (hbh : b.history = some h)
    (ld rd x v t : R) (hv : x = v) (ht : t = ld * ta + rd * tb) :
    StepOK h tseed w (Rec.pushBinary w h a.index ld b.index rd x) v t true := by
  have ha2 := ha.2
  have hb2 := hb.2
  simp only [hah] at ha2
  simp only [hbh] at hb2
  obtain ⟨_, hlta, htana⟩ := ha2
  obtain ⟨_, hltb, htanb⟩ := hb2
  simp only [Rec.pushBinary, Tape.appendBinary]
  refine ⟨⟨hv, ?_⟩, ?_, ⟨[⟨a.index, b.index, ld, rd⟩], by simp⟩, rfl⟩
  · simp only [World.update_same]
    refine ⟨trivial, by simp, ?_⟩
    rw [tapeTan_snoc_last, hsupp _ (Nat.le_refl _), htana, htanb, ht]
    ring
  · simp only [World.update_same]
    exact Tape.WF_snoc _ _ hwf (Or.inl hlta) (Or.inl hltb)

/-- a good record with a tape is on tape `h` -/
theorem Good.hist {h : Nat} {tseed : Nat → R} {w : World R} {a : Rec R} {va ta : R}
    (ha : Good h tseed w a va ta) {h' : Nat} (hah : a.history = some h') : a.history = some h := by
  have := ha.2
  simp only [hah] at this
  rw [hah, this.1]

theorem Good.tan_zero {h : Nat} {tseed : Nat → R} {w : World R} {a : Rec R} {va ta : R}
    (ha : Good h tseed w a va ta) (hah : a.history = none) : ta = 0 := by
  have := ha.2
  simpa [hah] using this

theorem Good.congr_t {h : Nat} {tseed : Nat → R} {w : World R} {r : Rec R} {v t t' : R}
    (hg : Good h tseed w r v t) (ht : t = t') : Good h tseed w r v t' := by
  subst ht; exact hg

theorem StepOK.congr {h : Nat} {tseed : Nat → R} {w : World R} {res : Rec R × World R}
    {v t v' t' : R} {d d' : Bool} (hs : StepOK h tseed w res v t d) (hv : v = v') (ht : t = t')
    (hd : d = d') : StepOK h tseed w res v' t' d' := by
  subst hv; subst ht; subst hd; exact hs

/-- `Record::unary` and every operator of that shape -/
theorem unary_ok {h : Nat} {tseed : Nat → R} {w : World R} (hwf : Tape.WF (w h))
    (hsupp : ∀ j, (w h).length ≤ j → tseed j = 0)
    {a : Rec R} {va ta : R} (ha : Good h tseed w a va ta) (F D : R → R) :
    StepOK h tseed w (a.unary F D w) (F va) (D va * ta) a.history.isSome := by
  unfold Rec.unary
  cases hah : a.history with
  | none =>
    have := ha.tan_zero hah
    exact stepOK_const hwf _ _ _ (by rw [ha.1]) (by rw [this]; ring)
  | some h' =>
    have hh := ha.hist hah
    rw [hah] at hh
    cases hh
    exact stepOK_unary hwf hsupp ha hah _ _ _ _ (by rw [ha.1]) (by rw [ha.1])

/-- `Record::binary` and every operator of that shape: never panics on records of one tape -/
theorem binary_ok {h : Nat} {tseed : Nat → R} {w : World R} (hwf : Tape.WF (w h))
    (hsupp : ∀ j, (w h).length ≤ j → tseed j = 0)
    {a b : Rec R} {va ta vb tb : R} (ha : Good h tseed w a va ta) (hb : Good h tseed w b vb tb)
    (F DX DY : R → R → R) :
    ∃ res, a.binary b F DX DY w = .ok res ∧
      StepOK h tseed w res (F va vb) (DX va vb * ta + DY va vb * tb)
        (a.history.isSome || b.history.isSome) := by
  unfold Rec.binary
  rw [Good.sameList ha hb]
  simp only [Bool.not_true, Bool.false_eq_true, if_false]
  cases hah : a.history with
  | none =>
    have hta := ha.tan_zero hah
    cases hbh : b.history with
    | none =>
      have htb := hb.tan_zero hbh
      exact ⟨_, rfl, stepOK_const hwf _ _ _ (by rw [ha.1, hb.1]) (by rw [hta, htb]; ring)⟩
    | some h' =>
      have hh := hb.hist hbh
      rw [hbh] at hh
      cases hh
      exact ⟨_, rfl, stepOK_unary hwf hsupp hb hbh _ _ _ _ (by rw [ha.1, hb.1])
        (by rw [ha.1, hb.1, hta]; ring)⟩
  | some h' =>
    have hh := ha.hist hah
    rw [hah] at hh
    cases hh
    cases hbh : b.history with
    | none =>
      have htb := hb.tan_zero hbh
      exact ⟨_, rfl, stepOK_unary hwf hsupp ha hah _ _ _ _ (by rw [ha.1, hb.1])
        (by rw [ha.1, hb.1, htb]; ring)⟩
    | some h'' =>
      have hh := hb.hist hbh
      exact ⟨_, rfl, stepOK_binary hwf hsupp ha hah hb hh _ _ _ _ _ (by rw [ha.1, hb.1])
        (by rw [ha.1, hb.1])⟩

/-! ### every operator is of one of the two shapes -/

section Shapes
open Fn

theorem Rec.addNum_eq (a : Rec R) (c : R) (w : World R) :
    a.addNum c w = a.unary (fun x => Addition.function x c) (fun x => Addition.dx x c) w := by
  unfold Rec.addNum Rec.unary; cases a.history <;> rfl

theorem Rec.subNum_eq (a : Rec R) (c : R) (w : World R) :
    a.subNum c w = a.unary (fun x => Subtraction.function x c) (fun x => Subtraction.dx x c) w := by
  unfold Rec.subNum Rec.unary; cases a.history <;> rfl

theorem Rec.mulNum_eq (a : Rec R) (c : R) (w : World R) :
    a.mulNum c w = a.unary (fun x => Multiplication.function x c) (fun x => Multiplication.dx x c) w := by
  unfold Rec.mulNum Rec.unary; cases a.history <;> rfl

theorem Rec.divNum_eq (a : Rec R) (c : R) (w : World R) :
    a.divNum c w = a.unary (fun x => Division.function x c) (fun x => Division.dx x c) w := by
  unfold Rec.divNum Rec.unary; cases a.history <;> rfl

theorem Rec.subSwapped_eq (a : Rec R) (c : R) (w : World R) :
    a.subSwapped c w = a.unary (fun x => Subtraction.function c x) (fun x => Subtraction.dy c x) w := by
  unfold Rec.subSwapped Rec.unary; cases a.history <;> rfl

theorem Rec.divSwapped_eq (a : Rec R) (c : R) (w : World R) :
    a.divSwapped c w = a.unary (fun x => Division.function c x) (fun x => Division.dy c x) w := by
  unfold Rec.divSwapped Rec.unary; cases a.history <;> rfl

theorem Rec.neg_eq (a : Rec R) (w : World R) :
    a.neg w = a.unary (fun x => -x) (fun _ => -1) w := by
  unfold Rec.neg Rec.unary; cases a.history <;> rfl

theorem Rec.sin_eq (a : Rec R) (w : World R) : a.sin w = a.unary Sine.function Sine.dx w := by
  unfold Rec.sin Rec.unary; cases a.history <;> rfl

theorem Rec.cos_eq (a : Rec R) (w : World R) : a.cos w = a.unary Cosine.function Cosine.dx w := by
  unfold Rec.cos Rec.unary; cases a.history <;> rfl

theorem Rec.exp_eq (a : Rec R) (w : World R) :
    a.exp w = a.unary Exponential.function Exponential.dx w := by
  unfold Rec.exp Rec.unary; cases a.history <;> rfl

theorem Rec.ln_eq (a : Rec R) (w : World R) :
    a.ln w = a.unary NaturalLogarithm.function NaturalLogarithm.dx w := by
  unfold Rec.ln Rec.unary; cases a.history <;> rfl

theorem Rec.sqrt_eq (a : Rec R) (w : World R) :
    a.sqrt w = a.unary SquareRoot.function SquareRoot.dx w := by
  unfold Rec.sqrt Rec.unary; cases a.history <;> rfl

theorem Rec.powNum_eq (a : Rec R) (c : R) (w : World R) :
    a.powNum c w = a.unary (fun x => Power.function x c) (fun x => Power.dx x c) w := by
  unfold Rec.powNum Rec.unary; cases a.history <;> rfl

theorem Rec.numPow_eq (c : R) (a : Rec R) (w : World R) :
    Rec.numPow c a w = a.unary (fun x => Power.function c x) (fun x => Power.dy c x) w := by
  unfold Rec.numPow Rec.unary; cases a.history <;> rfl

theorem Rec.add_eq (a b : Rec R) (w : World R) :
    a.add b w = a.binary b Addition.function Addition.dx Addition.dy w := by
  unfold Rec.add Rec.binary
  split
  · rfl
  · cases hah : a.history <;> cases hbh : b.history <;>
      simp [Rec.addNum, hah, hbh, Addition.function, Addition.dx, Addition.dy, add_comm]

theorem Rec.mul_eq (a b : Rec R) (w : World R) :
    a.mul b w = a.binary b Multiplication.function Multiplication.dx Multiplication.dy w := by
  unfold Rec.mul Rec.binary
  split
  · rfl
  · cases hah : a.history <;> cases hbh : b.history <;>
      simp [Rec.mulNum, hah, hbh, Multiplication.function, Multiplication.dx, Multiplication.dy,
        mul_comm]

theorem Rec.sub_eq (a b : Rec R) (w : World R) :
    a.sub b w = a.binary b Subtraction.function Subtraction.dx Subtraction.dy w := by
  unfold Rec.sub Rec.binary
  split
  · rfl
  · cases hah : a.history <;> cases hbh : b.history <;>
      simp [Rec.subNum, Rec.subSwapped, hah, hbh]

theorem Rec.div_eq (a b : Rec R) (w : World R) :
    a.div b w = a.binary b Division.function Division.dx Division.dy w := by
  unfold Rec.div Rec.binary
  split
  · rfl
  · cases hah : a.history <;> cases hbh : b.history <;>
      simp [Rec.divNum, Rec.divSwapped, hah, hbh]

theorem Rec.pow_eq (a b : Rec R) (w : World R) :
    a.pow b w = a.binary b Power.function Power.dx Power.dy w := by
  unfold Rec.pow Rec.binary
  split
  · rfl
  · cases hah : a.history <;> cases hbh : b.history <;>
      simp [Rec.powNum, Rec.numPow, hah, hbh]

end Shapes

/-! ### `Sum` -/

theorem Rec.sumStep_eq (total next : Rec R) (w : World R) (hs : Rec.sameList total next = true) :
    Rec.sumStep total next w
      = total.binary next (fun x y => x + y) (fun _ _ => 1) (fun _ _ => 1) w := by
  unfold Rec.sumStep Rec.binary
  cases hah : total.history <;> cases hbh : next.history <;> simp [hs]

theorem supp_mono {h : Nat} {tseed : Nat → R} {w w' : World R}
    (hsupp : ∀ j, (w h).length ≤ j → tseed j = 0) (hg : ∃ ext, w' h = w h ++ ext) :
    ∀ j, (w' h).length ≤ j → tseed j = 0 := by
  obtain ⟨ext, he⟩ := hg
  intro j hj
  apply hsupp
  rw [he] at hj
  simp at hj
  omega

theorem sumLoop_ok {h : Nat} {tseed : Nat → R} (recs : List (Rec R)) (vs ts : List R)
    (as : List Nat) :
    ∀ (w : World R) (total : Rec R) (vt tt : R), Tape.WF (w h) →
      (∀ j, (w h).length ≤ j → tseed j = 0) → Good h tseed w total vt tt →
      (∀ a ∈ as, Good h tseed w (getRec recs a) (vs.getD a 0) (ts.getD a 0)) →
      ∃ r w', Rec.sumLoop (as.map (getRec recs)) total w = (w', .ok r) ∧
        StepOK h tseed w (r, w') ((as.map (vs.getD · 0)).foldl (· + ·) vt)
          ((as.map (ts.getD · 0)).foldl (· + ·) tt)
          (total.history.isSome || as.any (fun a => (getRec recs a).history.isSome)) := by
  induction as with
  | nil =>
    intro w total vt tt hwf _ htot _
    exact ⟨total, w, rfl, ⟨htot, hwf, ⟨[], by simp⟩, by simp⟩⟩
  | cons a rest ih =>
    intro w total vt tt hwf hsupp htot hall
    have ha := hall a (by simp)
    obtain ⟨res, hres, hok⟩ := binary_ok hwf hsupp htot ha (fun x y => x + y) (fun _ _ => 1) (fun _ _ => 1)
    rw [← Rec.sumStep_eq _ _ _ (Good.sameList htot ha)] at hres
    obtain ⟨ext, hext⟩ := hok.grows
    have hall' : ∀ a' ∈ rest, Good h tseed res.2 (getRec recs a') (vs.getD a' 0) (ts.getD a' 0) :=
      fun a' ha' => (hall a' (by simp [ha'])).mono ext hext (fun _ _ => rfl)
    obtain ⟨r, w', hloop, hok'⟩ := ih res.2 res.1 (vt + vs.getD a 0) (tt + ts.getD a 0) hok.wf
      (supp_mono hsupp hok.grows) (hok.good.congr_t (by ring)) hall'
    refine ⟨r, w', ?_, ?_⟩
    · simp only [List.map_cons, Rec.sumLoop, hres]
      exact hloop
    · obtain ⟨ext', hext'⟩ := hok'.grows
      refine ⟨hok'.good, hok'.wf, ⟨ext ++ ext', by rw [hext', hext, List.append_assoc]⟩, ?_⟩
      rw [hok'.dep, hok.dep]
      simp [Bool.or_assoc]

/-! ### the invariant of a run -/

/-- State of a run after some instructions: `recs`/`w` are the model's, `vs`/`ts`/`ds` the
    specification's values, formal derivatives (for the seed at hand) and dependency flags. -/
structure Inv (h : Nat) (tseed : Nat → R) (w : World R) (recs : List (Rec R)) (vs ts : List R)
    (ds : List Bool) : Prop where
  len_vs : vs.length = recs.length
  len_ts : ts.length = recs.length
  len_ds : ds.length = recs.length
  wf : Tape.WF (w h)
  supp : ∀ j, (w h).length ≤ j → tseed j = 0
  good : ∀ k, k < recs.length → Good h tseed w (getRec recs k) (vs.getD k 0) (ts.getD k 0)
  dep : ∀ k, k < recs.length → (getRec recs k).history.isSome = ds.getD k false

theorem getRec_append_lt (recs : List (Rec R)) (r : Rec R) (k : Nat) (hk : k < recs.length) :
    getRec (recs ++ [r]) k = getRec recs k := by
  unfold getRec; exact getD_append_lt _ _ _ hk _

theorem getRec_append_length (recs : List (Rec R)) (r : Rec R) :
    getRec (recs ++ [r]) recs.length = r := by
  unfold getRec; exact getD_append_length _ _ _

/-- extending the invariant by the result of one instruction; the ghost seed may change at
    positions that were unused before -/
theorem Inv.snoc {h : Nat} {tseed tseed' : Nat → R} {w : World R} {recs : List (Rec R)}
    {vs ts : List R} {ds : List Bool} (hinv : Inv h tseed w recs vs ts ds)
    {res : Rec R × World R} {v t : R} {d : Bool} (hok : StepOK h tseed' w res v t d)
    (hseed : ∀ j, j < (w h).length → tseed' j = tseed j)
    (hsupp' : ∀ j, (res.2 h).length ≤ j → tseed' j = 0) :
    Inv h tseed' res.2 (recs ++ [res.1]) (vs ++ [v]) (ts ++ [t]) (ds ++ [d]) := by
  obtain ⟨ext, hext⟩ := hok.grows
  refine ⟨by simp [hinv.len_vs], by simp [hinv.len_ts], by simp [hinv.len_ds], hok.wf, hsupp', ?_, ?_⟩
  · intro k hk
    by_cases hlt : k < recs.length
    · rw [getRec_append_lt _ _ _ hlt, getD_append_lt _ _ _ (by rw [hinv.len_vs]; exact hlt),
        getD_append_lt _ _ _ (by rw [hinv.len_ts]; exact hlt)]
      exact (hinv.good k hlt).mono ext hext hseed
    · have : k = recs.length := by simp at hk; omega
      subst this
      rw [getRec_append_length]
      have h1 := getD_append_length vs v 0
      have h2 := getD_append_length ts t 0
      rw [hinv.len_vs] at h1
      rw [hinv.len_ts] at h2
      rw [h1, h2]
      exact hok.good
  · intro k hk
    by_cases hlt : k < recs.length
    · rw [getRec_append_lt _ _ _ hlt, getD_append_lt _ _ _ (by rw [hinv.len_ds]; exact hlt)]
      exact hinv.dep k hlt
    · have : k = recs.length := by simp at hk; omega
      subst this
      rw [getRec_append_length]
      have h1 := getD_append_length ds d false
      rw [hinv.len_ds] at h1
      rw [h1]
      exact hok.dep

/-! ### one instruction -/

theorem any_congr_mem {α : Type} (l : List α) (f g : α → Bool) (h : ∀ a ∈ l, f a = g a) :
    l.any f = l.any g := by
  induction l with
  | nil => rfl
  | cons x xs ih =>
    simp only [List.any_cons]
    rw [h x (by simp), ih (fun a ha => h a (by simp [ha]))]

theorem liftStep_ok (w : World R) (res : Rec R × World R) :
    liftStep w (.ok res) = (res.2, .ok res.1) := rfl

/-- Every instruction other than `var`, executed on a state satisfying the invariant, does not
    panic and produces a record that is good for the specification's value and formal
    derivative; it has a tape iff a variable contributes. -/
theorem instr_step {h : Nat} {tseed seed : Nat → R} {env : Nat → R} {w : World R}
    {recs : List (Rec R)} {vs ts : List R} {ds : List Bool}
    (hinv : Inv h tseed w recs vs ts ds) (ins : Instr R)
    (hsc : ∀ a ∈ ins.operands, a < recs.length) (hnv : ins.isVar = false)
    (hd : ins.usesDiv = false ∨ DivLaws R) :
    ∃ res : Rec R × World R, ins.exec h env recs w = (res.2, .ok res.1) ∧
      StepOK h tseed w res (ins.val env vs) (ins.tan seed vs ts) (ins.dep ds) := by
  have hwf := hinv.wf
  have hsupp := hinv.supp
  cases ins with
  | const c =>
    exact ⟨(Rec.constant c, w), rfl,
      (stepOK_const hwf c c 0 rfl rfl).congr rfl rfl (by simp [Instr.dep, Instr.isVar, Instr.operands])⟩
  | var => simp [Instr.isVar] at hnv
  | arith o a b =>
    have ha := hinv.good a (hsc a (by simp [Instr.operands]))
    have hb := hinv.good b (hsc b (by simp [Instr.operands]))
    have hda := hinv.dep a (hsc a (by simp [Instr.operands]))
    have hdb := hinv.dep b (hsc b (by simp [Instr.operands]))
    have hdep : ((getRec recs a).history.isSome || (getRec recs b).history.isSome)
        = Instr.dep ds (Instr.arith o a b : Instr R) := by
      simp [Instr.dep, Instr.isVar, Instr.operands, hda, hdb]
    cases o with
    | add =>
      obtain ⟨res, hres, hok⟩ := binary_ok hwf hsupp ha hb Fn.Addition.function Fn.Addition.dx Fn.Addition.dy
      refine ⟨res, by simp only [Instr.exec, Rec.add_eq, hres, liftStep_ok], hok.congr rfl ?_ hdep⟩
      simp only [Instr.tan, Arith.tan, Fn.Addition.dx, Fn.Addition.dy]; ring
    | sub =>
      obtain ⟨res, hres, hok⟩ := binary_ok hwf hsupp ha hb Fn.Subtraction.function Fn.Subtraction.dx Fn.Subtraction.dy
      refine ⟨res, by simp only [Instr.exec, Rec.sub_eq, hres, liftStep_ok], hok.congr rfl ?_ hdep⟩
      simp only [Instr.tan, Arith.tan, Fn.Subtraction.dx, Fn.Subtraction.dy]; ring
    | mul =>
      obtain ⟨res, hres, hok⟩ := binary_ok hwf hsupp ha hb Fn.Multiplication.function Fn.Multiplication.dx Fn.Multiplication.dy
      refine ⟨res, by simp only [Instr.exec, Rec.mul_eq, hres, liftStep_ok], hok.congr rfl ?_ hdep⟩
      simp only [Instr.tan, Arith.tan, Fn.Multiplication.dx, Fn.Multiplication.dy]; ring
    | div =>
      obtain ⟨res, hres, hok⟩ := binary_ok hwf hsupp ha hb Fn.Division.function Fn.Division.dx Fn.Division.dy
      refine ⟨res, by simp only [Instr.exec, Rec.div_eq, hres, liftStep_ok], hok.congr rfl ?_ hdep⟩
      have hl : DivLaws R := divLaws_of hd rfl
      simp only [Instr.tan, Arith.tan, Fn.Division.dx, Fn.Division.dy]
      exact hl.quot _ _ _ _
  | arithNum o a c =>
    have ha := hinv.good a (hsc a (by simp [Instr.operands]))
    have hda := hinv.dep a (hsc a (by simp [Instr.operands]))
    have hdep : (getRec recs a).history.isSome = Instr.dep ds (Instr.arithNum o a c : Instr R) := by
      simp [Instr.dep, Instr.isVar, Instr.operands, hda]
    cases o with
    | add =>
      refine ⟨_, by simp only [Instr.exec, okStep, Rec.addNum_eq]; rfl,
        (unary_ok hwf hsupp ha _ _).congr rfl ?_ hdep⟩
      simp only [Instr.tan, Arith.tan, Fn.Addition.dx]; ring
    | sub =>
      refine ⟨_, by simp only [Instr.exec, okStep, Rec.subNum_eq]; rfl,
        (unary_ok hwf hsupp ha _ _).congr rfl ?_ hdep⟩
      simp only [Instr.tan, Arith.tan, Fn.Subtraction.dx]; ring
    | mul =>
      refine ⟨_, by simp only [Instr.exec, okStep, Rec.mulNum_eq]; rfl,
        (unary_ok hwf hsupp ha _ _).congr rfl ?_ hdep⟩
      simp only [Instr.tan, Arith.tan, Fn.Multiplication.dx]; ring
    | div =>
      refine ⟨_, by simp only [Instr.exec, okStep, Rec.divNum_eq]; rfl,
        (unary_ok hwf hsupp ha _ _).congr rfl ?_ hdep⟩
      have hl : DivLaws R := divLaws_of hd rfl
      simp only [Instr.tan, Arith.tan, Fn.Division.dx]
      exact hl.quotNum _ _ _
  | swapped o c a =>
    have ha := hinv.good a (hsc a (by simp [Instr.operands]))
    have hda := hinv.dep a (hsc a (by simp [Instr.operands]))
    have hdep : (getRec recs a).history.isSome = Instr.dep ds (Instr.swapped o c a : Instr R) := by
      simp [Instr.dep, Instr.isVar, Instr.operands, hda]
    cases o with
    | sub =>
      refine ⟨_, by simp only [Instr.exec, okStep, Rec.subSwapped_eq]; rfl,
        (unary_ok hwf hsupp ha _ _).congr rfl ?_ hdep⟩
      simp only [Instr.tan, Swapped.toArith, Arith.tan, Fn.Subtraction.dy]; ring
    | div =>
      refine ⟨_, by simp only [Instr.exec, okStep, Rec.divSwapped_eq]; rfl,
        (unary_ok hwf hsupp ha _ _).congr rfl ?_ hdep⟩
      have hl : DivLaws R := divLaws_of hd rfl
      simp only [Instr.tan, Swapped.toArith, Arith.tan, Fn.Division.dy]
      exact hl.quotSwapped _ _ _
  | neg a =>
    have ha := hinv.good a (hsc a (by simp [Instr.operands]))
    have hda := hinv.dep a (hsc a (by simp [Instr.operands]))
    have hdep : (getRec recs a).history.isSome = Instr.dep ds (Instr.neg a : Instr R) := by
      simp [Instr.dep, Instr.isVar, Instr.operands, hda]
    refine ⟨_, by simp only [Instr.exec, okStep, Rec.neg_eq]; rfl,
      (unary_ok hwf hsupp ha _ _).congr rfl ?_ hdep⟩
    simp only [Instr.tan]; ring
  | sum as =>
    have hall : ∀ a ∈ as, Good h tseed w (getRec recs a) (vs.getD a 0) (ts.getD a 0) :=
      fun a ha => hinv.good a (hsc a (by simpa [Instr.operands] using ha))
    have h0 : Good h tseed w (Rec.constant (0 : R)) 0 0 := ⟨rfl, by simp [Rec.constant]⟩
    obtain ⟨r, w', hloop, hok⟩ := sumLoop_ok recs vs ts as w (Rec.constant 0) 0 0 hwf hsupp h0 hall
    refine ⟨(r, w'), by simp only [Instr.exec, Rec.sum, hloop], hok.congr rfl rfl ?_⟩
    simp only [Instr.dep, Instr.isVar, Instr.operands, Rec.constant, Option.isSome_none,
      Bool.false_or]
    apply any_congr_mem
    intro a ha
    exact hinv.dep a (hsc a (by simpa [Instr.operands] using ha))
  | real f a =>
    have ha := hinv.good a (hsc a (by simp [Instr.operands]))
    have hda := hinv.dep a (hsc a (by simp [Instr.operands]))
    have hdep : (getRec recs a).history.isSome = Instr.dep ds (Instr.real f a : Instr R) := by
      simp [Instr.dep, Instr.isVar, Instr.operands, hda]
    cases f with
    | sin =>
      exact ⟨_, by simp only [Instr.exec, okStep, Rec.sin_eq]; rfl,
        (unary_ok hwf hsupp ha _ _).congr rfl rfl hdep⟩
    | cos =>
      exact ⟨_, by simp only [Instr.exec, okStep, Rec.cos_eq]; rfl,
        (unary_ok hwf hsupp ha _ _).congr rfl rfl hdep⟩
    | exp =>
      exact ⟨_, by simp only [Instr.exec, okStep, Rec.exp_eq]; rfl,
        (unary_ok hwf hsupp ha _ _).congr rfl rfl hdep⟩
    | ln =>
      exact ⟨_, by simp only [Instr.exec, okStep, Rec.ln_eq]; rfl,
        (unary_ok hwf hsupp ha _ _).congr rfl rfl hdep⟩
    | sqrt =>
      exact ⟨_, by simp only [Instr.exec, okStep, Rec.sqrt_eq]; rfl,
        (unary_ok hwf hsupp ha _ _).congr rfl rfl hdep⟩
  | pow a b =>
    have ha := hinv.good a (hsc a (by simp [Instr.operands]))
    have hb := hinv.good b (hsc b (by simp [Instr.operands]))
    have hda := hinv.dep a (hsc a (by simp [Instr.operands]))
    have hdb := hinv.dep b (hsc b (by simp [Instr.operands]))
    have hdep : ((getRec recs a).history.isSome || (getRec recs b).history.isSome)
        = Instr.dep ds (Instr.pow a b : Instr R) := by
      simp [Instr.dep, Instr.isVar, Instr.operands, hda, hdb]
    obtain ⟨res, hres, hok⟩ := binary_ok hwf hsupp ha hb Fn.Power.function Fn.Power.dx Fn.Power.dy
    exact ⟨res, by simp only [Instr.exec, Rec.pow_eq, hres, liftStep_ok], hok.congr rfl rfl hdep⟩
  | powNum a c =>
    have ha := hinv.good a (hsc a (by simp [Instr.operands]))
    have hda := hinv.dep a (hsc a (by simp [Instr.operands]))
    have hdep : (getRec recs a).history.isSome = Instr.dep ds (Instr.powNum a c : Instr R) := by
      simp [Instr.dep, Instr.isVar, Instr.operands, hda]
    exact ⟨_, by simp only [Instr.exec, okStep, Rec.powNum_eq]; rfl,
      (unary_ok hwf hsupp ha _ _).congr rfl rfl hdep⟩
  | numPow c a =>
    have ha := hinv.good a (hsc a (by simp [Instr.operands]))
    have hda := hinv.dep a (hsc a (by simp [Instr.operands]))
    have hdep : (getRec recs a).history.isSome = Instr.dep ds (Instr.numPow c a : Instr R) := by
      simp [Instr.dep, Instr.isVar, Instr.operands, hda]
    exact ⟨_, by simp only [Instr.exec, okStep, Rec.numPow_eq]; rfl,
      (unary_ok hwf hsupp ha _ _).congr rfl rfl hdep⟩
  | unary f df a =>
    have ha := hinv.good a (hsc a (by simp [Instr.operands]))
    have hda := hinv.dep a (hsc a (by simp [Instr.operands]))
    have hdep : (getRec recs a).history.isSome = Instr.dep ds (Instr.unary f df a : Instr R) := by
      simp [Instr.dep, Instr.isVar, Instr.operands, hda]
    exact ⟨_, by simp only [Instr.exec, okStep],
      (unary_ok hwf hsupp ha _ _).congr rfl rfl hdep⟩
  | binary f dfx dfy a b =>
    have ha := hinv.good a (hsc a (by simp [Instr.operands]))
    have hb := hinv.good b (hsc b (by simp [Instr.operands]))
    have hda := hinv.dep a (hsc a (by simp [Instr.operands]))
    have hdb := hinv.dep b (hsc b (by simp [Instr.operands]))
    have hdep : ((getRec recs a).history.isSome || (getRec recs b).history.isSome)
        = Instr.dep ds (Instr.binary f dfx dfy a b : Instr R) := by
      simp [Instr.dep, Instr.isVar, Instr.operands, hda, hdb]
    obtain ⟨res, hres, hok⟩ := binary_ok hwf hsupp ha hb f dfx dfy
    exact ⟨res, by simp only [Instr.exec, hres, liftStep_ok], hok.congr rfl rfl hdep⟩

/-! ### the ghost seed of the tape positions, for the direction of one input -/

/-- `isv` flags the executed instructions that are `var`; for the direction of input `i` the
    ghost seed is the indicator of the tape position of `i`'s record (zero while `i` has not
    been executed or if it is not a variable). -/
theorem ite_false_and (c : Prop) [Decidable c] :
    (if (false = true ∧ c) then (1 : R) else 0) = 0 := by
  rw [if_neg]
  rintro ⟨h, _⟩
  exact Bool.false_ne_true h

structure GU (h i : Nat) (tseed : Nat → R) (recs : List (Rec R)) (isv : List Bool) : Prop where
  len : isv.length = recs.length
  varHist : ∀ k, k < recs.length → isv.getD k false = true → (getRec recs k).history = some h
  char : ∀ j, tseed j =
    if (isv.getD i false = true ∧ (getRec recs i).index = j) then 1 else 0

theorem var_step {h i : Nat} {tseed : Nat → R} {env : Nat → R} {w : World R}
    {recs : List (Rec R)} {vs ts : List R} {ds : List Bool} {isv : List Bool}
    (hinv : Inv h tseed w recs vs ts ds) (hgu : GU h i tseed recs isv) :
    ∃ (res : Rec R × World R) (tseed' : Nat → R),
      (Instr.var : Instr R).exec h env recs w = (res.2, .ok res.1) ∧
      Inv h tseed' res.2 (recs ++ [res.1]) (vs ++ [(Instr.var : Instr R).val env vs])
        (ts ++ [(Instr.var : Instr R).tan (unitSeed i) vs ts]) (ds ++ [(Instr.var : Instr R).dep ds]) ∧
      GU h i tseed' (recs ++ [res.1]) (isv ++ [true]) := by
  have hwf := hinv.wf
  have hsupp := hinv.supp
  let len := (w h).length
  let tseed' : Nat → R := fun j => if j = len then unitSeed i recs.length else tseed j
  let r : Rec R := ⟨env recs.length, some h, len⟩
  let w' : World R := w.update h (w h ++ [⟨len, len, 0, 0⟩])
  have hexec : (Instr.var : Instr R).exec h env recs w = (w', .ok r) := rfl
  have hok : StepOK h tseed' w (r, w') (env vs.length) (unitSeed i vs.length) true := by
    refine ⟨⟨by simp [r, hinv.len_vs], ?_⟩, ?_, ⟨[⟨len, len, 0, 0⟩], by simp [w']⟩, rfl⟩
    · simp only [r, w', World.update_same]
      refine ⟨trivial, by simp [len], ?_⟩
      rw [tapeTan_snoc_last]
      simp [tseed', len, hinv.len_vs]
    · simp only [w', World.update_same]
      exact Tape.WF_snoc _ _ hwf (Or.inr ⟨rfl, rfl⟩) (Or.inr ⟨rfl, rfl⟩)
  have hseed : ∀ j, j < (w h).length → tseed' j = tseed j := by
    intro j hj
    have : j ≠ len := by simp only [len]; omega
    simp [tseed', this]
  have hsupp' : ∀ j, (w' h).length ≤ j → tseed' j = 0 := by
    intro j hj
    simp only [w', World.update_same, List.length_append, List.length_singleton] at hj
    have : j ≠ len := by simp only [len]; omega
    simp only [tseed', this, if_false]
    exact hsupp j (by omega)
  refine ⟨(r, w'), tseed', hexec, ?_, ?_⟩
  · have := hinv.snoc hok hseed hsupp'
    simpa [Instr.val, Instr.tan, Instr.dep, Instr.isVar] using this
  · refine ⟨by simp [hgu.len], ?_, ?_⟩
    · intro k hk hv
      by_cases hlt : k < recs.length
      · rw [getRec_append_lt _ _ _ hlt]
        rw [getD_append_lt _ _ _ (by rw [hgu.len]; exact hlt)] at hv
        exact hgu.varHist k hlt hv
      · have : k = recs.length := by simp at hk; omega
        subst this
        rw [getRec_append_length]
    · intro j
      have hL : tseed' j = if j = len then unitSeed i recs.length else tseed j := rfl
      -- position of the record of input `i`, if already executed
      by_cases hi : i < recs.length
      · -- executed earlier: nothing changes, and its index is below `len`
        have h1 : (isv ++ [true]).getD i false = isv.getD i false :=
          getD_append_lt _ _ _ (by rw [hgu.len]; exact hi) _
        have h2 : getRec (recs ++ [r]) i = getRec recs i := getRec_append_lt _ _ _ hi
        rw [h1, h2, hL]
        have hne : ¬ recs.length = i := by omega
        by_cases hjl : j = len
        · subst hjl
          rw [if_pos rfl]
          unfold unitSeed
          rw [if_neg hne, if_neg]
          rintro ⟨hv, hidx⟩
          have hh := hgu.varHist i hi hv
          have hg := (hinv.good i hi).2
          simp only [hh] at hg
          have := hg.2.1
          omega
        · rw [if_neg hjl]
          exact hgu.char j
      · by_cases hieq : i = recs.length
        · -- this very instruction is input `i`
          subst hieq
          have h1 : (isv ++ [true]).getD recs.length false = true := by
            have := getD_append_length isv true false
            rwa [hgu.len] at this
          rw [h1, getRec_append_length, hL]
          by_cases hjl : j = len
          · subst hjl
            rw [if_pos rfl, if_pos ⟨rfl, rfl⟩]
            unfold unitSeed
            rw [if_pos rfl]
          · have hold := hgu.char j
            have hf : isv.getD recs.length false = false :=
              getD_of_le _ _ (by rw [hgu.len]) _
            rw [hf, ite_false_and] at hold
            rw [if_neg hjl, hold, if_neg]
            rintro ⟨_, hidx⟩
            exact hjl hidx.symm
        · -- input `i` comes later
          have hgt : recs.length < i := by omega
          have h1 : (isv ++ [true]).getD i false = false :=
            getD_of_le _ _ (by simp [hgu.len]; omega) _
          have hold := hgu.char j
          have hf : isv.getD i false = false := getD_of_le _ _ (by rw [hgu.len]; omega) _
          rw [hf, ite_false_and] at hold
          have hne : ¬ recs.length = i := by omega
          rw [h1, ite_false_and, hL]
          by_cases hjl : j = len
          · subst hjl
            rw [if_pos rfl]
            unfold unitSeed
            rw [if_neg hne]
          · rw [if_neg hjl, hold]

theorem nonvar_step {h i : Nat} {tseed : Nat → R} {env : Nat → R} {w : World R}
    {recs : List (Rec R)} {vs ts : List R} {ds : List Bool} {isv : List Bool}
    (hinv : Inv h tseed w recs vs ts ds) (hgu : GU h i tseed recs isv) (ins : Instr R)
    (hsc : ∀ a ∈ ins.operands, a < recs.length) (hnv : ins.isVar = false)
    (hd : ins.usesDiv = false ∨ DivLaws R) :
    ∃ (res : Rec R × World R),
      ins.exec h env recs w = (res.2, .ok res.1) ∧
      Inv h tseed res.2 (recs ++ [res.1]) (vs ++ [ins.val env vs])
        (ts ++ [ins.tan (unitSeed i) vs ts]) (ds ++ [ins.dep ds]) ∧
      GU h i tseed (recs ++ [res.1]) (isv ++ [false]) := by
  obtain ⟨res, hexec, hok⟩ := instr_step (seed := unitSeed i) (env := env) hinv ins hsc hnv hd
  refine ⟨res, hexec, hinv.snoc hok (fun _ _ => rfl) (supp_mono hinv.supp hok.grows), ?_⟩
  refine ⟨by simp [hgu.len], ?_, ?_⟩
  · intro k hk hv
    by_cases hlt : k < recs.length
    · rw [getRec_append_lt _ _ _ hlt]
      rw [getD_append_lt _ _ _ (by rw [hgu.len]; exact hlt)] at hv
      exact hgu.varHist k hlt hv
    · have : k = recs.length := by simp at hk; omega
      subst this
      have := getD_append_length isv false false
      rw [hgu.len] at this
      rw [this] at hv
      exact absurd hv (by simp)
  · intro j
    rw [hgu.char j]
    by_cases hi : i < recs.length
    · rw [getD_append_lt _ _ _ (by rw [hgu.len]; exact hi), getRec_append_lt _ _ _ hi]
    · have hf : isv.getD i false = false := getD_of_le _ _ (by rw [hgu.len]; omega) _
      have hf' : (isv ++ [false]).getD i false = false := by
        by_cases hieq : i = recs.length
        · subst hieq
          have := getD_append_length isv false false
          rwa [hgu.len] at this
        · exact getD_of_le _ _ (by simp [hgu.len]; omega) _
      rw [hf, hf', ite_false_and, ite_false_and]

/-! ### a whole program -/

theorem tangentsFrom_fst (env seed : Nat → R) (p : Prog R) (vs ts : List R) :
    (Prog.tangentsFrom env seed p vs ts).1 = Prog.evalFrom env p vs := by
  induction p generalizing vs ts with
  | nil => rfl
  | cons ins rest ih => simp only [Prog.tangentsFrom, Prog.evalFrom]; exact ih _ _

/-- Running a well-scoped program from a state satisfying the invariant never panics and ends
    in a state satisfying the invariant for the whole program (direction of input `i`). -/
theorem prog_run {h i : Nat} {env : Nat → R} (p : Prog R) (hd : DivOK p) :
    ∀ (tseed : Nat → R) (w : World R) (recs : List (Rec R)) (vs ts : List R) (ds isv : List Bool),
      Inv h tseed w recs vs ts ds → GU h i tseed recs isv →
      Prog.wellScopedFrom p recs.length = true →
      ∃ (w' : World R) (recs' : List (Rec R)) (tseed' : Nat → R),
        Prog.execFrom h env p w recs = (w', .ok recs') ∧
        Inv h tseed' w' recs' (Prog.evalFrom env p vs)
          (Prog.tangentsFrom env (unitSeed i) p vs ts).2 (Prog.depsFrom p ds) ∧
        GU h i tseed' recs' (isv ++ p.map Instr.isVar) ∧
        recs'.length = recs.length + p.length := by
  induction p with
  | nil =>
    intro tseed w recs vs ts ds isv hinv hgu _
    exact ⟨w, recs, tseed, rfl, hinv, by simpa using hgu, by simp⟩
  | cons ins rest ih =>
    obtain ⟨hd1, hd2⟩ := hd.cons
    have ih := ih hd2
    intro tseed w recs vs ts ds isv hinv hgu hsc
    simp only [Prog.wellScopedFrom, Bool.and_eq_true, List.all_eq_true, decide_eq_true_eq] at hsc
    obtain ⟨hops, hrest⟩ := hsc
    by_cases hv : ins.isVar = true
    · have hins : ins = Instr.var := by cases ins <;> simp [Instr.isVar] at hv ⊢
      subst hins
      obtain ⟨res, tseed', hexec, hinv', hgu'⟩ := var_step (env := env) hinv hgu
      have hlen : (recs ++ [res.1]).length = recs.length + 1 := by simp
      obtain ⟨w', recs', tseed'', hrun, hinv'', hgu'', hl⟩ :=
        ih tseed' res.2 (recs ++ [res.1]) _ _ _ _ hinv' hgu' (by rw [hlen]; exact hrest)
      refine ⟨w', recs', tseed'', ?_, hinv'', ?_, by rw [hl, hlen]; simp; omega⟩
      · simp only [Prog.execFrom, hexec]; exact hrun
      · simpa [Instr.isVar, List.append_assoc] using hgu''
    · have hnv : ins.isVar = false := by simpa using hv
      obtain ⟨res, hexec, hinv', hgu'⟩ := nonvar_step (env := env) hinv hgu ins hops hnv hd1
      have hlen : (recs ++ [res.1]).length = recs.length + 1 := by simp
      obtain ⟨w', recs', tseed'', hrun, hinv'', hgu'', hl⟩ :=
        ih tseed res.2 (recs ++ [res.1]) _ _ _ _ hinv' hgu' (by rw [hlen]; exact hrest)
      refine ⟨w', recs', tseed'', ?_, hinv'', ?_, by rw [hl, hlen]; simp; omega⟩
      · simp only [Prog.execFrom, hexec]; exact hrun
      · simpa [hnv, List.append_assoc] using hgu''

/-- the state before the first instruction -/
theorem Inv.init {h : Nat} {w : World R} (hwf : Tape.WF (w h)) :
    Inv h (fun _ => (0 : R)) w [] [] [] [] :=
  ⟨rfl, rfl, rfl, hwf, fun _ _ => rfl, fun k hk => by simp at hk, fun k hk => by simp at hk⟩

theorem GU.init {h i : Nat} : GU h i (fun _ => (0 : R)) [] [] :=
  ⟨rfl, fun k hk => by simp at hk, fun j => by simp⟩

/-! ### constants never touch a tape -/

theorem unary_const (a : Rec R) (F D : R → R) (w : World R) (ha : a.history = none) :
    a.unary F D w = (Rec.constant (F a.number), w) := by
  simp [Rec.unary, ha]

theorem binary_const (a b : Rec R) (F DX DY : R → R → R) (w : World R) (ha : a.history = none)
    (hb : b.history = none) :
    a.binary b F DX DY w = .ok (Rec.constant (F a.number b.number), w) := by
  simp [Rec.binary, Rec.sameList, ha, hb]

theorem sumLoop_const (items : List (Rec R)) :
    ∀ (total : Rec R) (w : World R), total.history = none → total.index = 0 →
      (∀ r ∈ items, r.history = none) →
      ∃ r, Rec.sumLoop items total w = (w, .ok r) ∧ r.history = none ∧ r.index = 0 := by
  induction items with
  | nil => intro total w ht hi _; exact ⟨total, rfl, ht, hi⟩
  | cons x xs ih =>
    intro total w ht hi hall
    have hx := hall x (by simp)
    obtain ⟨r, hr, h1, h2⟩ := ih (Rec.constant (total.number + x.number)) w rfl rfl
      (fun r hr => hall r (by simp [hr]))
    refine ⟨r, ?_, h1, h2⟩
    simp only [Rec.sumLoop, Rec.sumStep, ht, hx]
    exact hr

/-- An instruction (other than `var`) all of whose operands are constants changes no tape and
    returns a record without a tape, at index 0. -/
theorem exec_const_operands (ins : Instr R) (h : Nat) (env : Nat → R) (recs : List (Rec R))
    (w : World R) (hnv : ins.isVar = false)
    (hops : ∀ a ∈ ins.operands, (getRec recs a).history = none) :
    ∃ x : R, ins.exec h env recs w = (w, .ok (Rec.constant x)) := by
  cases ins with
  | const c => exact ⟨_, rfl⟩
  | var => simp [Instr.isVar] at hnv
  | arith o a b =>
    have ha := hops a (by simp [Instr.operands])
    have hb := hops b (by simp [Instr.operands])
    cases o
    · exact ⟨_, by simp only [Instr.exec, Rec.add_eq, binary_const _ _ _ _ _ _ ha hb, liftStep_ok]; rfl⟩
    · exact ⟨_, by simp only [Instr.exec, Rec.sub_eq, binary_const _ _ _ _ _ _ ha hb, liftStep_ok]; rfl⟩
    · exact ⟨_, by simp only [Instr.exec, Rec.mul_eq, binary_const _ _ _ _ _ _ ha hb, liftStep_ok]; rfl⟩
    · exact ⟨_, by simp only [Instr.exec, Rec.div_eq, binary_const _ _ _ _ _ _ ha hb, liftStep_ok]; rfl⟩
  | arithNum o a c =>
    have ha := hops a (by simp [Instr.operands])
    cases o
    · exact ⟨_, by simp only [Instr.exec, okStep, Rec.addNum_eq, unary_const _ _ _ _ ha]; rfl⟩
    · exact ⟨_, by simp only [Instr.exec, okStep, Rec.subNum_eq, unary_const _ _ _ _ ha]; rfl⟩
    · exact ⟨_, by simp only [Instr.exec, okStep, Rec.mulNum_eq, unary_const _ _ _ _ ha]; rfl⟩
    · exact ⟨_, by simp only [Instr.exec, okStep, Rec.divNum_eq, unary_const _ _ _ _ ha]; rfl⟩
  | swapped o c a =>
    have ha := hops a (by simp [Instr.operands])
    cases o
    · exact ⟨_, by simp only [Instr.exec, okStep, Rec.subSwapped_eq, unary_const _ _ _ _ ha]; rfl⟩
    · exact ⟨_, by simp only [Instr.exec, okStep, Rec.divSwapped_eq, unary_const _ _ _ _ ha]; rfl⟩
  | neg a =>
    have ha := hops a (by simp [Instr.operands])
    exact ⟨_, by simp only [Instr.exec, okStep, Rec.neg_eq, unary_const _ _ _ _ ha]; rfl⟩
  | sum as =>
    obtain ⟨r, hr, h1, h2⟩ := sumLoop_const (as.map (getRec recs)) (Rec.constant 0) w rfl rfl
      (by
        intro r hr
        simp only [List.mem_map] at hr
        obtain ⟨a, ha, rfl⟩ := hr
        exact hops a (by simpa [Instr.operands] using ha))
    refine ⟨r.number, ?_⟩
    simp only [Instr.exec, Rec.sum, hr]
    cases r
    simp only [Rec.constant] at h1 h2 ⊢
    subst h1; subst h2; rfl
  | real f a =>
    have ha := hops a (by simp [Instr.operands])
    cases f
    · exact ⟨_, by simp only [Instr.exec, okStep, Rec.sin_eq, unary_const _ _ _ _ ha]; rfl⟩
    · exact ⟨_, by simp only [Instr.exec, okStep, Rec.cos_eq, unary_const _ _ _ _ ha]; rfl⟩
    · exact ⟨_, by simp only [Instr.exec, okStep, Rec.exp_eq, unary_const _ _ _ _ ha]; rfl⟩
    · exact ⟨_, by simp only [Instr.exec, okStep, Rec.ln_eq, unary_const _ _ _ _ ha]; rfl⟩
    · exact ⟨_, by simp only [Instr.exec, okStep, Rec.sqrt_eq, unary_const _ _ _ _ ha]; rfl⟩
  | pow a b =>
    have ha := hops a (by simp [Instr.operands])
    have hb := hops b (by simp [Instr.operands])
    exact ⟨_, by simp only [Instr.exec, Rec.pow_eq, binary_const _ _ _ _ _ _ ha hb, liftStep_ok]; rfl⟩
  | powNum a c =>
    have ha := hops a (by simp [Instr.operands])
    exact ⟨_, by simp only [Instr.exec, okStep, Rec.powNum_eq, unary_const _ _ _ _ ha]; rfl⟩
  | numPow c a =>
    have ha := hops a (by simp [Instr.operands])
    exact ⟨_, by simp only [Instr.exec, okStep, Rec.numPow_eq, unary_const _ _ _ _ ha]; rfl⟩
  | unary f df a =>
    have ha := hops a (by simp [Instr.operands])
    exact ⟨_, by simp only [Instr.exec, okStep, unary_const _ _ _ _ ha]; rfl⟩
  | binary f dfx dfy a b =>
    have ha := hops a (by simp [Instr.operands])
    have hb := hops b (by simp [Instr.operands])
    exact ⟨_, by simp only [Instr.exec, binary_const _ _ _ _ _ _ ha hb, liftStep_ok]; rfl⟩

/-- **All facts about a run at once.**  A well-scoped program started on a well-formed tape does
    not panic; the final state satisfies the invariant for the direction of every input `i`
    (the states are the same for all `i`, only the ghost seed differs). -/
theorem run_facts {h : Nat} {env : Nat → R} (p : Prog R) (hp : p.WellScoped) (hd : DivOK p)
    (w0 : World R) (hw0 : Tape.WF (w0 h)) :
    ∃ (w : World R) (recs : List (Rec R)),
      Prog.exec h env p w0 = (w, .ok recs) ∧ recs.length = p.length ∧
      ∀ i, ∃ tseed : Nat → R,
        Inv h tseed w recs (Prog.eval env p) (Prog.grad env p i) (Prog.deps p) ∧
        GU h i tseed recs (p.map Instr.isVar) := by
  obtain ⟨w, recs, _, hrun, _, _, hlen⟩ :=
    prog_run (h := h) (i := 0) (env := env) p hd _ w0 [] [] [] [] [] (Inv.init hw0) GU.init hp
  refine ⟨w, recs, hrun, by simpa using hlen, ?_⟩
  intro i
  obtain ⟨w', recs', tseed', hrun', hinv', hgu', _⟩ :=
    prog_run (h := h) (i := i) (env := env) p hd _ w0 [] [] [] [] [] (Inv.init hw0) GU.init hp
  rw [hrun] at hrun'
  cases hrun'
  exact ⟨tseed', hinv', by simpa using hgu'⟩

/-- `derivatives()` of a record on tape `h` is the reverse sweep of that tape -/
theorem Rec.derivatives_some (r : Rec R) (w : World R) (h : Nat) (hr : r.history = some h) :
    r.derivatives w = reverseSweep (w h) r.index := by
  unfold Rec.derivatives Rec.tryDerivatives
  rw [hr]
  show (match (match reverseSweep (w h) r.index with
      | Outcome.ok d => Outcome.ok (some d)
      | Outcome.panic k => Outcome.panic k) with
    | Outcome.ok (some d) => Outcome.ok d
    | Outcome.ok none => Outcome.panic PanicKind.explicit
    | Outcome.panic k => Outcome.panic k) = _
  generalize reverseSweep (w h) r.index = o
  cases o <;> rfl

end Inv

end EasyMl
