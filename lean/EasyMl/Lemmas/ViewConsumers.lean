/-
  EasyMl.Lemmas.ViewConsumers — the view a consumer gets from the *model* of a composition of
  matrix views is the view the *specification* describes (C12), and that view satisfies the
  hypotheses of the consumers' own theorems (C03's `MView.WF` / `HasEntries`).
-/
import EasyMl.Spec.ViewConsumers
import EasyMl.Lemmas.MatrixViewEval
import EasyMl.Lemmas.Arith

namespace EasyMl.MatrixView
open EasyMl EasyMl.Spec EasyMl.Fallible

set_option linter.unusedSectionVars false
set_option linter.unusedVariables false

variable {α : Type}

/-- a model view that refines the specification shows its consumers exactly the specified view -/
theorem elements_eq_of_refines (e : MExpr) (v : MViewU) (h : Refines e v) (elem : Nat → α) :
    v.elements elem = e.elements elem := by
  obtain ⟨hr, hc, hget, _⟩ := h
  simp only [MViewU.elements, MExpr.elements, hr, hc, Arith.MView.mk.injEq, true_and]
  funext r c
  rw [hget r c]
  cases e.cell r c <;> rfl

/-- **The consumers' view of `eval e` is the specified one.** -/
theorem eval_elements_eq_spec (e : MExpr) (hle : e.LeavesOk) (hb : e.Buildable = true)
    (elem : Nat → α) :
    ∃ v, e.eval Arith.fixed = .ok (.ok v) ∧ v.elements elem = e.elements elem := by
  have h := eval_refines e hle
  rw [if_pos hb] at h
  obtain ⟨v, hv, href⟩ := h
  exact ⟨v, hv, elements_eq_of_refines e v href elem⟩

/-- a non-empty composition satisfies the `MatrixRef` contract the consumers' theorems assume -/
theorem elements_WF (e : MExpr) (elem : Nat → α) (h1 : 1 ≤ e.size.1) (h2 : 1 ≤ e.size.2) :
    (e.elements elem).WF where
  rows_pos := h1
  cols_pos := h2
  some_of_lt i j hi hj := by
    have := e.cell_some i j ⟨hi, hj⟩
    simpa [MExpr.elements] using this
  none_of_not i j h := by
    have := e.cell_none i j h
    simp [MExpr.elements, this]

theorem elements_hasEntries [Inhabited α] (e : MExpr) (elem : Nat → α) :
    (e.elements elem).HasEntries (e.elemAt elem) := by
  intro i j hi hj
  have h := e.cell_some i j ⟨hi, hj⟩
  cases hc : e.cell i j with
  | none => rw [hc] at h; simp at h
  | some o => simp [MExpr.elements, MExpr.elemAt, hc]

theorem elements_get [Inhabited α] (e : MExpr) (elem : Nat → α) (i j : Nat)
    (hi : i < e.size.1) (hj : j < e.size.2) : (e.elements elem).get i j = some (e.elemAt elem i j) :=
  elements_hasEntries e elem i j hi hj

theorem elements_elems (e : MExpr) (elem : Nat → α) :
    (e.elements elem).elems = e.rowMajorElements elem := rfl

end EasyMl.MatrixView
