/-
  EasyMl.Lemmas.ArithCompose — composition lemmas for C03: the data of an operator result as its
  cells in evaluation order, views that show the same thing (`TView.Same`), materialisation of a
  view, and congruence of the matrix product under `Same`.  Core Lean only.
-/
import EasyMl.Lemmas.Arith

namespace EasyMl.Arith
open EasyMl EasyMl.Spec

set_option linter.unusedSectionVars false

variable {ν : Type} [DecidableEq ν] {α : Type}

/-- a valid tensor's data is its cells listed in `ShapeIterator` order -/
theorem Tensor.Valid.data_eq {t : Tensor ν α} (ht : Tensor.Valid t) (F : List Nat → α)
    (hF : ∀ idx, inBounds (t.shape.map (·.2)) idx = true → t.get idx = some (F idx)) :
    t.data = (viewIndices (t.shape.map (·.2))).map F := by
  apply map_some_injective
  rw [← ofTensor_elems ht, (ofTensor_WF ht).elems_map_some, List.map_map]
  apply List.map_congr_left
  intro idx hidx
  exact hF idx ((mem_viewIndices _ _).1 hidx)

/-- the data of an elementwise result: the operator applied cell by cell in row-major order -/
theorem elementwise_data (op : α → α → α) (l r : Operand ν α) (hl : l.WF) (hr : r.WF)
    (hs : l.shape = r.shape) (A B : List Nat → α)
    (hA : ∀ idx, inBounds (l.shape.map (·.2)) idx = true → l.asView.get idx = some (A idx))
    (hB : ∀ idx, inBounds (l.shape.map (·.2)) idx = true → r.asView.get idx = some (B idx)) :
    elementwise op l r = .ok (Tensor.mk ((viewIndices (l.shape.map (·.2))).map fun idx => op (A idx) (B idx))
      l.shape (computeStrides l.shape)) := by
  have hlen : (List.zipWith op l.seq r.seq).length = elements l.shape := by
    rw [List.length_zipWith, hl.seq_length, hr.seq_length, hs]; simp
  unfold elementwise
  rw [if_pos hs, tensorFrom_eq_ok _ _ hlen hl.validShape]
  congr 2
  have hv : Tensor.Valid (Tensor.mk (List.zipWith op l.seq r.seq) l.shape (computeStrides l.shape)) :=
    ⟨rfl, hlen, hl.validShape⟩
  apply hv.data_eq
  intro idx hb
  have hb' : inBounds (l.shape.map (·.2)) idx = true := hb
  rw [hv.get_eq idx (by simpa using inBounds_length hb')]
  simp only [hb', if_true, List.getElem?_zipWith]
  rw [hl.seq_getElem? idx hb']
  have := hr.seq_getElem? idx (by rw [← hs]; exact hb')
  rw [← hs] at this
  rw [this, hA idx hb', hB idx hb']


/-- the data of a scalar broadcast / `map`: the function applied cell by cell in row-major order -/
theorem mapOperand_data (f : α → α) (x : Operand ν α) (hx : x.WF) (A : List Nat → α)
    (hA : ∀ idx, inBounds (x.shape.map (·.2)) idx = true → x.asView.get idx = some (A idx)) :
    mapOperand f x = .ok (Tensor.mk ((viewIndices (x.shape.map (·.2))).map fun idx => f (A idx))
      x.shape (computeStrides x.shape)) := by
  have hlen : (x.seq.map f).length = elements x.shape := by rw [List.length_map, hx.seq_length]
  have hv : Tensor.Valid (Tensor.mk (x.seq.map f) x.shape (computeStrides x.shape)) :=
    ⟨rfl, hlen, hx.validShape⟩
  have hdata : x.seq.map f = (viewIndices (x.shape.map (·.2))).map fun idx => f (A idx) := by
    apply hv.data_eq
    intro idx hb
    have hb' : inBounds (x.shape.map (·.2)) idx = true := hb
    rw [hv.get_eq idx (by simpa using inBounds_length hb')]
    simp only [hb', if_true, List.getElem?_map]
    rw [hx.seq_getElem? idx hb', hA idx hb']
    rfl
  cases x with
  | tensor t =>
    have ht : Tensor.Valid t := hx
    simp only [mapOperand]
    congr 1
    show Tensor.mk (t.data.map f) t.shape t.strides = _
    rw [ht.strides]
    exact congrArg (fun d => Tensor.mk d t.shape (computeStrides t.shape)) hdata
  | view v =>
    simp only [mapOperand]
    have hlen' : (v.elems.map f).length = elements v.shape := hlen
    have hvs : ValidShape v.shape := hx.validShape
    rw [tensorFrom_eq_ok _ _ hlen' hvs]
    exact congrArg (fun d => Outcome.ok (Tensor.mk d v.shape (computeStrides v.shape))) hdata

/-- two views showing the same shape and the same element at every in-range index -/
structure TView.Same (v w : TView ν α) : Prop where
  shape : v.shape = w.shape
  get : ∀ idx, inBounds v.lens idx = true → v.get idx = w.get idx

/-- what collecting a view gives (`TensorView::map(|x| x)`, `Tensor::from(shape, iter)`) -/
def TView.materialise (v : TView ν α) : Tensor ν α := ⟨v.elems, v.shape, computeStrides v.shape⟩

theorem TView.WF.materialise_valid {v : TView ν α} (h : v.WF) : Tensor.Valid v.materialise :=
  ⟨rfl, h.elems_length, h.shape⟩

theorem TView.WF.materialise_same {v : TView ν α} (h : v.WF) :
    TView.Same v (TView.ofTensor v.materialise) := by
  refine ⟨rfl, ?_⟩
  intro idx hb
  show v.get idx = v.materialise.get idx
  rw [h.materialise_valid.get_eq idx (by simpa [TView.lens, TView.materialise] using inBounds_length hb)]
  have hb' : inBounds (v.materialise.shape.map (·.2)) idx = true := hb
  simp only [hb', if_true]
  exact (h.elems_getElem? idx hb).symm

theorem TView.Same.elems_eq {v w : TView ν α} (h : TView.Same v w) : v.elems = w.elems := by
  unfold TView.elems
  have hl : w.lens = v.lens := by simp [TView.lens, h.shape]
  rw [hl]
  apply filterMap_congr'
  intro idx hidx
  exact h.get idx ((mem_viewIndices _ _).1 hidx)

theorem TView.Same.hasEntries {v w : TView ν α} (h : TView.Same v w) {a b : ν} {m n : Nat}
    (hs : v.shape = [(a, m), (b, n)]) {A : Nat → Nat → α} (hA : v.HasEntries m n A) :
    w.HasEntries m n A := by
  intro i j hi hj
  rw [← h.get [i, j] (by simp [TView.lens, hs, inBounds, hi, hj])]
  exact hA i j hi hj

/-- the matrix product depends only on what its operands show -/
theorem matMul_congr [Add α] [Mul α] [Zero α] {l l' r r' : TView ν α} (hl : l.WF) (hr : r.WF)
    (hll : TView.Same l l') (hrr : TView.Same r r') : matMul l r = matMul l' r' := by
  cases hsl : l.shape with
  | nil => simp [matMul, ← hll.shape, hsl]
  | cons l0 tl =>
    cases tl with
    | nil => simp [matMul, ← hll.shape, hsl]
    | cons l1 tl2 =>
      cases tl2 with
      | cons x y => simp [matMul, ← hll.shape, hsl]
      | nil =>
        cases hsr : r.shape with
        | nil => simp [matMul, ← hll.shape, ← hrr.shape, hsl, hsr]
        | cons r0 tr =>
          cases tr with
          | nil => simp [matMul, ← hll.shape, ← hrr.shape, hsl, hsr]
          | cons r1 tr2 =>
            cases tr2 with
            | cons x y => simp [matMul, ← hll.shape, ← hrr.shape, hsl, hsr]
            | nil =>
              by_cases hin : l1.2 = r0.2
              · by_cases hcol : l0.1 = r1.1
                · simp [matMul, ← hll.shape, ← hrr.shape, hsl, hsr, hin, hcol]
                · obtain ⟨a, m⟩ := l0
                  obtain ⟨b, n⟩ := l1
                  obtain ⟨c, n2⟩ := r0
                  obtain ⟨d, k⟩ := r1
                  simp only at hin hcol
                  subst hin
                  have hn : 1 ≤ n := hl.shape.2 (b, n) (by simp [hsl])
                  obtain ⟨n', rfl⟩ : ∃ n', n = n' + 1 := ⟨n - 1, by omega⟩
                  obtain ⟨A, hA⟩ := hl.exists_entries hsl
                  obtain ⟨B, hB⟩ := hr.exists_entries hsr
                  have hm : 1 ≤ m := hl.shape.2 (a, m) (by simp [hsl])
                  have hk : 1 ≤ k := hr.shape.2 (d, k) (by simp [hsr])
                  have hcd : c ≠ d := by
                    have := hr.shape.1
                    simp only [hsr, List.map_cons, List.map_nil, List.nodup_cons, List.mem_cons,
                      List.not_mem_nil, or_false] at this
                    exact this.1
                  rw [matMul_eq hsl hsr hcd hcol hm hk hA hB,
                    matMul_eq (hll.shape ▸ hsl) (hrr.shape ▸ hsr) hcd hcol hm hk
                      (hll.hasEntries hsl hA) (hrr.hasEntries hsr hB)]
              · simp [matMul, ← hll.shape, ← hrr.shape, hsl, hsr, hin]

/-! ### The compatibility checks of the operators, as the decidable predicates the code evaluates -/

/-- `assert_same_dimensions`: names, name order and lengths all equal -/
def elementwiseCompatible (l r : Operand ν α) : Bool := decide (l.shape = r.shape)

/-- the two checks of `tensor_view_matrix_product`: equal inner lengths, distinct result names -/
def matMulCompatible (l r : TView ν α) : Bool :=
  match l.shape, r.shape with
  | [l0, l1], [r0, r1] => decide (l1.2 = r0.2) && !decide (l0.1 = r1.1)
  | _, _ => false

/-- the size assert of `matrix_view_addition_iter` / `…subtraction_iter` -/
def mElementwiseCompatible (l r : MOperand α) : Bool := decide (l.size = r.size)

/-- the size assert of `matrix_view_multiplication` -/
def mMatMulCompatible (l r : MView α) : Bool := decide (l.columns = r.rows)

end EasyMl.Arith
