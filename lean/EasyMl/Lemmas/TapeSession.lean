/-
  EasyMl.Lemmas.TapeSession — every public operation keeps every tape well formed, as long as
  its record operands point inside their tapes (`Live`); results are live, live records stay live
  while their tape only grows.  Used by `C15.reachable_wf` and the chain-rule statements for
  user-supplied closures in `C04`.
-/
import EasyMl.Model.TapeSession
import EasyMl.Lemmas.Tape

namespace EasyMl

set_option linter.unusedSectionVars false
set_option linter.unusedSimpArgs false

variable {R : Type} [CommRing R]

/-- every tape is well formed -/
def World.WFAll (w : World R) : Prop := ∀ h, Tape.WF (w h)

/-- no tape got shorter -/
def World.Grows (w w' : World R) : Prop := ∀ h, (w h).length ≤ (w' h).length

theorem World.Grows.refl (w : World R) : World.Grows w w := fun _ => Nat.le_refl _

theorem World.Grows.trans {w1 w2 w3 : World R} (a : World.Grows w1 w2) (b : World.Grows w2 w3) :
    World.Grows w1 w3 := fun h => Nat.le_trans (a h) (b h)

theorem Live.mono {w w' : World R} (hg : World.Grows w w') {r : Rec R} (h : Live w r) :
    Live w' r := by
  unfold Live at h ⊢
  cases hh : r.history with
  | none => trivial
  | some t =>
    simp only [hh] at h ⊢
    exact Nat.lt_of_lt_of_le h (hg t)

theorem Live.constant (w : World R) (c : R) : Live w (Rec.constant c) := by
  unfold Live Rec.constant; trivial

theorem World.WFAll.empty : World.WFAll (World.empty : World R) := fun _ => Tape.WF_nil

/-- appending one admissible entry to tape `h` -/
theorem push_good (w : World R) (h : Nat) (op : Op R) (hw : World.WFAll w)
    (hl : op.leftParent < (w h).length ∨ (op.leftParent = (w h).length ∧ op.leftDerivative = 0))
    (hr : op.rightParent < (w h).length ∨ (op.rightParent = (w h).length ∧ op.rightDerivative = 0)) :
    World.WFAll (w.update h (w h ++ [op])) ∧ World.Grows w (w.update h (w h ++ [op])) ∧
      (w h).length < ((w.update h (w h ++ [op])) h).length := by
  refine ⟨fun j => ?_, fun j => ?_, ?_⟩
  · by_cases hj : j = h
    · subst hj
      simp only [World.update, if_true]
      exact Tape.WF_snoc _ _ (hw j) hl hr
    · simp only [World.update, if_neg hj]
      exact hw j
  · by_cases hj : j = h
    · subst hj
      simp [World.update]
    · simp [World.update, hj]
  · simp [World.update]

theorem mkVar_good (x : R) (h : Nat) (w : World R) (hw : World.WFAll w) :
    World.WFAll (Rec.mkVar x h w).2 ∧ World.Grows w (Rec.mkVar x h w).2 ∧
      Live (Rec.mkVar x h w).2 (Rec.mkVar x h w).1 := by
  obtain ⟨h1, h2, h3⟩ := push_good w h ⟨(w h).length, (w h).length, 0, 0⟩ hw
    (Or.inr ⟨rfl, rfl⟩) (Or.inr ⟨rfl, rfl⟩)
  exact ⟨h1, h2, h3⟩

theorem reset_good (r : Rec R) (w : World R) (hw : World.WFAll w) :
    World.WFAll (r.reset w).2 ∧ World.Grows w (r.reset w).2 ∧ Live (r.reset w).2 (r.reset w).1 := by
  unfold Rec.reset
  cases hh : r.history with
  | none =>
    refine ⟨hw, World.Grows.refl w, ?_⟩
    simp only [Live, hh]
  | some h =>
    obtain ⟨h1, h2, h3⟩ := push_good w h ⟨(w h).length, (w h).length, 0, 0⟩ hw
      (Or.inr ⟨rfl, rfl⟩) (Or.inr ⟨rfl, rfl⟩)
    refine ⟨h1, h2, ?_⟩
    simp only [Live, hh]
    exact h3

theorem pushUnary_good (w : World R) (h parent : Nat) (d n : R) (hw : World.WFAll w)
    (hp : parent < (w h).length) :
    World.WFAll (Rec.pushUnary w h parent d n).2 ∧ World.Grows w (Rec.pushUnary w h parent d n).2 ∧
      Live (Rec.pushUnary w h parent d n).2 (Rec.pushUnary w h parent d n).1 := by
  obtain ⟨h1, h2, h3⟩ := push_good w h ⟨parent, (w h).length, d, 0⟩ hw (Or.inl hp)
    (Or.inr ⟨rfl, rfl⟩)
  exact ⟨h1, h2, h3⟩

theorem pushBinary_good (w : World R) (h lp rp : Nat) (ld rd n : R) (hw : World.WFAll w)
    (hl : lp < (w h).length) (hr : rp < (w h).length) :
    World.WFAll (Rec.pushBinary w h lp ld rp rd n).2 ∧
      World.Grows w (Rec.pushBinary w h lp ld rp rd n).2 ∧
      Live (Rec.pushBinary w h lp ld rp rd n).2 (Rec.pushBinary w h lp ld rp rd n).1 := by
  obtain ⟨h1, h2, h3⟩ := push_good w h ⟨lp, rp, ld, rd⟩ hw (Or.inl hl) (Or.inl hr)
  exact ⟨h1, h2, h3⟩

theorem unary_good (a : Rec R) (fx dfx : R → R) (w : World R) (hw : World.WFAll w)
    (ha : Live w a) :
    World.WFAll (a.unary fx dfx w).2 ∧ World.Grows w (a.unary fx dfx w).2 ∧
      Live (a.unary fx dfx w).2 (a.unary fx dfx w).1 := by
  unfold Rec.unary
  cases hh : a.history with
  | none => exact ⟨hw, World.Grows.refl w, Live.constant _ _⟩
  | some h =>
    simp only [Live, hh] at ha
    exact pushUnary_good w h a.index _ _ hw ha

theorem binary_good (a b : Rec R) (fxy dfx dfy : R → R → R) (w w' : World R) (r : Rec R)
    (hw : World.WFAll w) (ha : Live w a) (hb : Live w b)
    (hrun : a.binary b fxy dfx dfy w = .ok (r, w')) :
    World.WFAll w' ∧ World.Grows w w' ∧ Live w' r := by
  unfold Rec.binary at hrun
  split at hrun
  · cases hrun
  · rename_i hs
    cases hah : a.history with
    | none =>
      cases hbh : b.history with
      | none =>
        simp only [hah, hbh] at hrun
        obtain ⟨rfl, rfl⟩ := Prod.mk.inj (Outcome.ok.inj hrun)
        exact ⟨hw, World.Grows.refl _, Live.constant _ _⟩
      | some h =>
        simp only [hah, hbh] at hrun
        simp only [Live, hbh] at hb
        have := pushUnary_good w h b.index (dfy a.number b.number) (fxy a.number b.number) hw hb
        rw [Outcome.ok.inj hrun] at this
        exact this
    | some h =>
      cases hbh : b.history with
      | none =>
        simp only [hah, hbh] at hrun
        simp only [Live, hah] at ha
        have := pushUnary_good w h a.index (dfx a.number b.number) (fxy a.number b.number) hw ha
        rw [Outcome.ok.inj hrun] at this
        exact this
      | some h' =>
        simp only [hah, hbh] at hrun
        simp only [Live, hah] at ha
        simp only [Live, hbh] at hb
        have hsame : h = h' := by
          simp [Rec.sameList, hah, hbh] at hs
          exact hs
        subst hsame
        have := pushBinary_good w h a.index b.index (dfx a.number b.number)
          (dfy a.number b.number) (fxy a.number b.number) hw ha hb
        rw [Outcome.ok.inj hrun] at this
        exact this

/-- one round of `Sum`: a `binary` when the `same_list` test passes, a panic otherwise -/
theorem sumStep_cases (total next : Rec R) (w : World R) :
    (total.sumStep next w = total.binary next (fun x y => x + y) (fun _ _ => 1) (fun _ _ => 1) w) ∨
      ∃ k, total.sumStep next w = .panic k := by
  by_cases hs : Rec.sameList total next = true
  · left
    unfold Rec.sumStep Rec.binary
    cases hah : total.history <;> cases hbh : next.history <;> simp [hs]
  · right
    refine ⟨.explicit, ?_⟩
    unfold Rec.sumStep
    cases hah : total.history <;> cases hbh : next.history <;>
      simp_all [Rec.sameList]

theorem sumLoop_good (items : List (Rec R)) :
    ∀ (total : Rec R) (w : World R), World.WFAll w → Live w total → (∀ r ∈ items, Live w r) →
      World.WFAll (Rec.sumLoop items total w).1 ∧ World.Grows w (Rec.sumLoop items total w).1 ∧
        ∀ r, (Rec.sumLoop items total w).2 = .ok r → Live (Rec.sumLoop items total w).1 r := by
  induction items with
  | nil =>
    intro total w hw ht _
    refine ⟨hw, World.Grows.refl _, fun r hr => ?_⟩
    simp only [Rec.sumLoop] at hr ⊢
    cases hr
    exact ht
  | cons next rest ih =>
    intro total w hw ht hitems
    rcases sumStep_cases total next w with hb | ⟨k, hk⟩
    · cases hstep : total.sumStep next w with
      | panic k =>
        simp only [Rec.sumLoop, hstep]
        exact ⟨hw, World.Grows.refl _, fun r hr => by cases hr⟩
      | ok res =>
        obtain ⟨total', w'⟩ := res
        rw [hb] at hstep
        obtain ⟨h1, h2, h3⟩ := binary_good total next _ _ _ w w' total' hw ht
          (hitems next (List.mem_cons_self)) hstep
        have := ih total' w' h1 h3 (fun r hr => Live.mono h2 (hitems r (List.mem_cons_of_mem _ hr)))
        rw [← hb] at hstep
        simp only [Rec.sumLoop, hstep]
        exact ⟨this.1, World.Grows.trans h2 this.2.1, this.2.2⟩
    · simp only [Rec.sumLoop, hk]
      exact ⟨hw, World.Grows.refl _, fun r hr => by cases hr⟩

theorem clear_good (w : World R) (h : Nat) (hw : World.WFAll w) : World.WFAll (w.clear h) := by
  intro j
  by_cases hj : j = h
  · subst hj
    simp only [World.clear, World.update, if_true]
    exact Tape.WF_nil
  · simp only [World.clear, World.update, if_neg hj]
    exact hw j

theorem cloneTape_good (w : World R) (src dst : Nat) (hw : World.WFAll w) :
    World.WFAll (w.cloneTape src dst) := by
  intro j
  by_cases hj : j = dst
  · subst hj
    simp only [World.cloneTape, World.update, if_true]
    exact hw src
  · simp only [World.cloneTape, World.update, if_neg hj]
    exact hw j

/-- **one public operation keeps every tape well formed** -/
theorem PubOp.apply_wf (op : PubOp R) (w : World R) (hw : World.WFAll w) (hr : op.InRange w) :
    World.WFAll (op.apply w) := by
  cases op with
  | newVar x h => exact (mkVar_good x h w hw).1
  | unary a fx dfx => exact (unary_good a fx dfx w hw hr).1
  | binary a b fxy dfx dfy =>
    simp only [PubOp.apply]
    cases hrun : a.binary b fxy dfx dfy w with
    | panic k => exact hw
    | ok res =>
      obtain ⟨r, w'⟩ := res
      exact (binary_good a b fxy dfx dfy w w' r hw hr.1 hr.2 hrun).1
  | sum items => exact (sumLoop_good items _ w hw (Live.constant _ _) hr).1
  | reset r => exact (reset_good r w hw).1
  | clear h => exact clear_good w h hw
  | cloneTape src dst => exact cloneTape_good w src dst hw

theorem PubOp.run_wf (ops : List (PubOp R)) :
    ∀ w : World R, World.WFAll w → PubOp.InRangeAll ops w → World.WFAll (PubOp.run ops w) := by
  induction ops with
  | nil => intro w hw _; exact hw
  | cons op rest ih =>
    intro w hw hr
    exact ih _ (PubOp.apply_wf op w hw hr.1) hr.2

/-- operations other than `clear` and `WengertList::clone` only make tapes longer -/
theorem PubOp.apply_grows (op : PubOp R) (w : World R) (hw : World.WFAll w) (hr : op.InRange w)
    (hc : ∀ h, op ≠ .clear h) (hcl : ∀ s d, op ≠ .cloneTape s d) :
    World.Grows w (op.apply w) := by
  cases op with
  | newVar x h => exact (mkVar_good x h w hw).2.1
  | unary a fx dfx => exact (unary_good a fx dfx w hw hr).2.1
  | binary a b fxy dfx dfy =>
    simp only [PubOp.apply]
    cases hrun : a.binary b fxy dfx dfy w with
    | panic k => exact World.Grows.refl _
    | ok res =>
      obtain ⟨r, w'⟩ := res
      exact (binary_good a b fxy dfx dfy w w' r hw hr.1 hr.2 hrun).2.1
  | sum items => exact (sumLoop_good items _ w hw (Live.constant _ _) hr).2.1
  | reset r => exact (reset_good r w hw).2.1
  | clear h => exact absurd rfl (hc h)
  | cloneTape src dst => exact absurd rfl (hcl src dst)

end EasyMl
