/-
  EasyMl.Lemmas.Natural — the generic numeric routines are natural in the element type: they commute
  with every map that preserves the operations they use (property C19, "the library's result on a
  user type is identical to evaluating the documented formula directly on that type").

  `OpsHom φ`   : φ preserves `0 1 + − ×`          (determinant, scalar product, matrix product, sums)
  `FieldHom φ` : … and `÷` and the image of counts (mean, variance, covariances)

  The routines are the model functions of C07 (`Det.determinant`, Leibniz sum in Heap's order),
  C08 (`Decomp.dot`, `Decomp.matMul`) and C14 (`Stats.sum`, `mean`, `variance`, `covCell`,
  `covariance{Column,Row}Features`).  Core Lean only.
-/
import EasyMl.Model.Det
import EasyMl.Model.Stats
import EasyMl.Model.Decomp
import EasyMl.Model.DualElem
import EasyMl.Lemmas.DetHeaps

namespace EasyMl.Natural
open EasyMl

set_option linter.unusedSectionVars false

section
variable {α β : Type}
  [Add α] [Sub α] [Mul α] [Zero α] [One α] [Add β] [Sub β] [Mul β] [Zero β] [One β]

/-- a map between element types that commutes with the ring operations -/
structure OpsHom (φ : α → β) : Prop where
  zero : φ 0 = 0
  one : φ 1 = 1
  add : ∀ a b, φ (a + b) = φ a + φ b
  sub : ∀ a b, φ (a - b) = φ a - φ b
  mul : ∀ a b, φ (a * b) = φ a * φ b

/-- image of an outcome: the value is mapped, a panic stays the same panic -/
def omap {γ δ : Type} (f : γ → δ) : Outcome γ → Outcome δ
  | .ok v => .ok (f v)
  | .panic k => .panic k

/-- entrywise image of a matrix -/
def mapMat (φ : α → β) (M : Matrix α) : Matrix β := ⟨M.data.map φ, M.rows, M.columns⟩

variable {φ : α → β}

theorem foldl_add_hom (h : OpsHom φ) (l : List α) (a : α) :
    φ (l.foldl (· + ·) a) = (l.map φ).foldl (· + ·) (φ a) := by
  induction l generalizing a with
  | nil => rfl
  | cons x xs ih => simp only [List.foldl_cons, List.map_cons]; rw [ih, h.add]

theorem sum_hom (h : OpsHom φ) (l : List α) : φ (Stats.sum l) = Stats.sum (l.map φ) := by
  simp only [Stats.sum]; rw [foldl_add_hom h, h.zero]

theorem zipWith_mul_hom (h : OpsHom φ) (xs ys : List α) :
    (List.zipWith (· * ·) xs ys).map φ = List.zipWith (· * ·) (xs.map φ) (ys.map φ) := by
  induction xs generalizing ys with
  | nil => simp
  | cons x xs ih =>
    cases ys with
    | nil => simp
    | cons y ys => simp [h.mul, ih]

/-- `scalar_product` -/
theorem dot_hom (h : OpsHom φ) (xs ys : List α) :
    φ (Decomp.dot xs ys) = Decomp.dot (xs.map φ) (ys.map φ) := by
  unfold Decomp.dot
  rw [← zipWith_mul_hom h]
  cases hz : List.zipWith (· * ·) xs ys with
  | nil => simp [h.zero]
  | cons p ps => simp only [List.map_cons]; exact foldl_add_hom h ps p

theorem get_mapMat (h : OpsHom φ) (M : Matrix α) (i j : Nat) :
    Decomp.get (mapMat φ M) i j = φ (Decomp.get M i j) := by
  simp only [Decomp.get, mapMat, Matrix.getIndex, List.getD_eq_getElem?_getD, List.getElem?_map]
  cases M.data[j + i * M.columns]? <;> simp [h.zero]

theorem mapMat_ofFn (n m : Nat) (f : Nat → Nat → α) :
    mapMat φ (Decomp.ofFn n m f) = Decomp.ofFn n m (fun i j => φ (f i j)) := by
  simp [mapMat, Decomp.ofFn, List.map_map, Function.comp_def]

/-- matrix product -/
theorem matMul_hom (h : OpsHom φ) (l r : Matrix α) :
    Decomp.matMul (mapMat φ l) (mapMat φ r) = mapMat φ (Decomp.matMul l r) := by
  unfold Decomp.matMul
  rw [mapMat_ofFn]
  have hrow : ∀ i, Decomp.row (mapMat φ l) i = (Decomp.row l i).map φ := by
    intro i
    have e : (mapMat φ l).columns = l.columns := rfl
    simp only [Decomp.row, e, List.map_map, Function.comp_def, get_mapMat h]
  have hcol : ∀ j, Decomp.col (mapMat φ r) j = (Decomp.col r j).map φ := by
    intro j
    have e : (mapMat φ r).rows = r.rows := rfl
    simp only [Decomp.col, e, List.map_map, Function.comp_def, get_mapMat h]
  simp only [hrow, hcol, dot_hom h]
  rfl

/-! ### determinant -/

theorem signature_hom (h : OpsHom φ) (e : Bool) : φ (Det.signature e : α) = Det.signature e := by
  cases e <;> simp [Det.signature, h.one, h.sub, h.zero]

theorem permProduct_hom (h : OpsHom φ) (get : Nat → Nat → α) (perm : List Nat) :
    φ (Det.permProduct get perm) = Det.permProduct (fun i j => φ (get i j)) perm := by
  unfold Det.permProduct
  have : ∀ (l : List (Nat × Nat)) (a : α),
      φ (l.foldl (fun product (x : Nat × Nat) => product * get x.2 x.1) a) =
        l.foldl (fun product (x : Nat × Nat) => product * φ (get x.2 x.1)) (φ a) := by
    intro l
    induction l with
    | nil => intro a; rfl
    | cons x xs ih => intro a; simp only [List.foldl_cons]; rw [ih, h.mul]
  rw [this, h.one]

theorem detStep_hom (h : OpsHom φ) (get : Nat → Nat → α) (s : α) (perm : List Nat) (e : Bool) :
    φ (Det.detStep get s perm e) = Det.detStep (fun i j => φ (get i j)) (φ s) perm e := by
  simp [Det.detStep, h.add, h.mul, signature_hom h, permProduct_hom h]

/-- the Leibniz sum in Heap's order -/
theorem detModel_hom (h : OpsHom φ) (n : Nat) (get : Nat → Nat → α) :
    φ (Det.detModel n get) = Det.detModel n (fun i j => φ (get i j)) := by
  unfold Det.detModel
  rw [Det.withEach_eq, Det.withEach_eq]
  have : ∀ (l : List (List Nat × Bool)) (a : α),
      φ (l.foldl (fun s pe => Det.detStep get s pe.1 pe.2) a) =
        l.foldl (fun s pe => Det.detStep (fun i j => φ (get i j)) s pe.1 pe.2) (φ a) := by
    intro l
    induction l with
    | nil => intro a; rfl
    | cons x xs ih => intro a; simp only [List.foldl_cons]; rw [ih, detStep_hom h]
  rw [this, h.zero]

theorem detView_hom (h : OpsHom φ) (v : Det.View α) :
    Det.detView (⟨v.rows, v.cols, fun i j => φ (v.get i j)⟩ : Det.View β) = (Det.detView v).map φ := by
  unfold Det.detView
  by_cases h1 : v.rows != v.cols
  · simp [h1]
  · by_cases h2 : v.rows == 0
    · simp [h1, h2]
    · by_cases h3 : v.rows == 1
      · simp [h1, h2, h3]
      · simp only [h1, h2, h3, Bool.false_eq_true, if_false, Option.map_some]
        have := detModel_hom h v.rows v.get
        unfold Det.detModel at this
        rw [this]

/-- `linear_algebra::determinant` -/
theorem determinant_hom (h : OpsHom φ) (m : Matrix α) :
    Det.determinant (mapMat φ m) = (Det.determinant m).map φ := by
  unfold Det.determinant
  have hv : Det.viewOfMatrix (mapMat φ m) =
      (⟨m.rows, m.columns, fun i j => φ ((Det.viewOfMatrix m).get i j)⟩ : Det.View β) := by
    simp only [Det.viewOfMatrix, mapMat, Matrix.getIndex, List.getD_eq_getElem?_getD, List.getElem?_map]
    congr 1
    funext r c
    cases m.data[c + r * m.columns]? <;> simp [h.zero]
  by_cases h1 : m.rows != m.columns
  · simp [mapMat, h1]
  · by_cases h2 : m.rows == 0
    · simp [mapMat, h1, h2]
    · by_cases h3 : m.rows == 1
      · simp only [mapMat, h1, h2, h3, Bool.false_eq_true, if_false, if_true, Option.map_some]
        simp only [List.getD_eq_getElem?_getD, List.getElem?_map]
        cases m.data[0]? <;> simp [h.zero]
      · have e1 : (mapMat φ m).rows = m.rows := rfl
        have e2 : (mapMat φ m).columns = m.columns := rfl
        simp only [e1, e2, h1, h2, h3, Bool.false_eq_true, if_false]
        rw [hv]
        exact detView_hom h (Det.viewOfMatrix m)

end

/-! ### routines that divide: mean, variance, covariance -/

section
variable {α β : Type}
  [Add α] [Sub α] [Mul α] [Div α] [Zero α] [One α] [NatCast α]
  [Add β] [Sub β] [Mul β] [Div β] [Zero β] [One β] [NatCast β]

/-- … additionally commuting with division and the image of counts -/
structure FieldHom (φ : α → β) : Prop extends OpsHom φ where
  div : ∀ a b, φ (a / b) = φ a / φ b
  natCast : ∀ n : Nat, φ (n : α) = (n : β)

variable {φ : α → β}

theorem meanLoop_hom (h : FieldHom φ) (data : List α) :
    (φ (Stats.meanLoop data).1, φ (Stats.meanLoop data).2) = Stats.meanLoop (data.map φ) := by
  unfold Stats.meanLoop
  have : ∀ (l : List α) (c s : α),
      (φ (l.foldl (fun (cs : α × α) x => (cs.1 + 1, cs.2 + x)) (c, s)).1,
       φ (l.foldl (fun (cs : α × α) x => (cs.1 + 1, cs.2 + x)) (c, s)).2) =
      (l.map φ).foldl (fun (cs : β × β) x => (cs.1 + 1, cs.2 + x)) (φ c, φ s) := by
    intro l
    induction l with
    | nil => intro c s; rfl
    | cons x xs ih =>
      intro c s
      simp only [List.foldl_cons, List.map_cons]
      rw [ih, h.add, h.add, h.one]
  rw [this, h.zero]

/-- `linear_algebra::mean` -/
theorem mean_hom (h : FieldHom φ) (data : List α) :
    Stats.mean (data.map φ) = omap φ (Stats.mean data) := by
  cases data with
  | nil => rfl
  | cons x xs =>
    have hl := meanLoop_hom h (x :: xs)
    simp only [Stats.mean, List.map_cons]
    rw [List.map_cons] at hl
    rw [← hl]
    simp only [omap, h.div]

/-- `linear_algebra::variance` -/
theorem variance_hom (h : FieldHom φ) (data : List α) :
    Stats.variance (data.map φ) = omap φ (Stats.variance data) := by
  cases data with
  | nil => rfl
  | cons x xs =>
    have hm := mean_hom h (x :: xs)
    simp only [Stats.variance, List.map_cons] at hm ⊢
    rw [hm]
    cases hmean : Stats.mean (x :: xs) with
    | panic k => simp [omap]
    | ok m =>
      show Stats.mean _ = omap φ (Stats.mean _)
      have hmap : (φ x :: xs.map φ).map (fun y => (y - φ m) * (y - φ m)) =
          ((x :: xs).map fun y => (y - m) * (y - m)).map φ := by
        simp [List.map_map, Function.comp_def, h.mul, h.sub]
      have := mean_hom h ((x :: xs).map fun y => (y - m) * (y - m))
      rw [← hmap] at this
      simpa using this

theorem zipWith_dev_hom (h : FieldHom φ) (mi mj : α) (fi fj : List α) :
    (List.zipWith (fun x y => (x - mi) * (y - mj)) fi fj).map φ =
      List.zipWith (fun x y => (x - φ mi) * (y - φ mj)) (fi.map φ) (fj.map φ) := by
  induction fi generalizing fj with
  | nil => simp
  | cons x xs ih =>
    cases fj with
    | nil => simp
    | cons y ys => simp [h.mul, h.sub, ih]

/-- one covariance cell -/
theorem covCell_hom (h : FieldHom φ) (samples : α) (fi fj : List α) :
    φ (Stats.covCell samples fi fj) = Stats.covCell (φ samples) (fi.map φ) (fj.map φ) := by
  simp only [Stats.covCell]
  rw [h.div, sum_hom h.toOpsHom, zipWith_dev_hom h, h.div, h.div, sum_hom h.toOpsHom, sum_hom h.toOpsHom]

theorem covCells_hom (h : FieldHom φ) (features : Nat) (samples : α) (feature : Nat → List α) :
    (Stats.covCells features samples feature).map φ =
      Stats.covCells features (φ samples) (fun i => (feature i).map φ) := by
  simp [Stats.covCells, List.map_flatMap, List.map_map, Function.comp_def, covCell_hom h]

theorem matrixColumn_map (m : Matrix α) (c : Nat) :
    Stats.matrixColumn (mapMat φ m) c = (Stats.matrixColumn m c).map φ := by
  simp only [Stats.matrixColumn, mapMat, Matrix.getIndex, List.getElem?_map]
  induction List.range m.rows with
  | nil => rfl
  | cons r rs ih =>
    simp only [List.filterMap_cons]
    cases m.data[c + r * m.columns]? <;> simp [ih]

theorem matrixRow_map (m : Matrix α) (r : Nat) :
    Stats.matrixRow (mapMat φ m) r = (Stats.matrixRow m r).map φ := by
  simp only [Stats.matrixRow, mapMat, Matrix.getIndex, List.getElem?_map]
  induction List.range m.columns with
  | nil => rfl
  | cons c cs ih =>
    simp only [List.filterMap_cons]
    cases m.data[c + r * m.columns]? <;> simp [ih]

/-- `covariance_column_features` / `covariance_row_features` -/
theorem covariance_hom (h : FieldHom φ) (m : Matrix α) :
    Stats.covarianceColumnFeatures (mapMat φ m) =
        omap (mapMat φ) (Stats.covarianceColumnFeatures m) ∧
    Stats.covarianceRowFeatures (mapMat φ m) =
        omap (mapMat φ) (Stats.covarianceRowFeatures m) := by
  constructor
  · unfold Stats.covarianceColumnFeatures
    have e2 : (mapMat φ m).columns = m.columns := rfl
    have e1 : (mapMat φ m).rows = m.rows := rfl
    by_cases hc : 0 < m.columns
    · simp only [e1, e2, hc, if_true, omap]
      congr 1
      simp only [mapMat]
      congr 1
      rw [covCells_hom h, h.natCast]
      congr 1
      funext i
      exact matrixColumn_map m i
    · simp [e2, hc, omap]
  · unfold Stats.covarianceRowFeatures
    have e2 : (mapMat φ m).columns = m.columns := rfl
    have e1 : (mapMat φ m).rows = m.rows := rfl
    by_cases hc : 0 < m.rows
    · simp only [e1, e2, hc, if_true, omap]
      congr 1
      simp only [mapMat]
      congr 1
      rw [covCells_hom h, h.natCast]
      congr 1
      funext i
      exact matrixRow_map m i
    · simp [e1, hc, omap]

end

end EasyMl.Natural
