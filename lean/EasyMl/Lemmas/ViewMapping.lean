/-
  EasyMl.Lemmas.ViewMapping — `DimensionMappings::new` (the for-loop with the happy path and the
  two `find`s) succeeds only with two mutually inverse permutation tables (`MappingOK`), given
  distinct source names; hence `TensorAccess` / `TensorTranspose` constructors establish `View.WF`.
  Uses the pigeonhole principle on lists (Mathlib `List.Nodup.subperm`).
-/
import EasyMl.Lemmas.ViewConstructors
import Mathlib.Data.List.Perm.Subperm

namespace EasyMl
open EasyMl.Spec EasyMl.View
set_option linter.unusedSectionVars false
variable {ν : Type} [DecidableEq ν] [Inhabited ν] {α : Type}

/-- pigeonhole on lists: `n` distinct numbers below `n` are all the numbers below `n` -/
theorem mem_of_nodup_lt {l : List Nat} {n : Nat} (hl : l.length = n) (hn : l.Nodup)
    (hlt : ∀ x ∈ l, x < n) : ∀ d, d < n → d ∈ l := by
  intro d hd
  have hsub : l ⊆ List.range n := fun x hx => List.mem_range.2 (hlt x hx)
  have hsp : l.Subperm (List.range n) := List.Nodup.subperm hn hsub
  have hperm : l.Perm (List.range n) := hsp.perm_of_length_le (by simp [hl])
  exact (hperm.mem_iff).2 (List.mem_range.2 hd)

theorem mapM_range_some {β : Type} (f : Nat → Option β) (xs : List Nat) (l : List β)
    (h : xs.mapM f = some l) :
    l.length = xs.length ∧ ∀ i (hi : i < xs.length) (hi' : i < l.length), f xs[i] = some l[i] := by
  induction xs generalizing l with
  | nil => simp at h; subst h; simp
  | cons x xs ih =>
    simp only [List.mapM_cons, Option.pure_def, Option.bind_eq_bind, Option.bind_eq_some_iff,
      Option.some.injEq] at h
    obtain ⟨b, hb, bs, hbs, rfl⟩ := h
    obtain ⟨h1, h2⟩ := ih bs hbs
    refine ⟨by simp [h1], ?_⟩
    intro i hi hi'
    cases i with
    | zero => simpa using hb
    | succ i => simpa using h2 i (by simpa using hi) (by simpa using hi')

/-- what every iteration of the loop of `DimensionMappings::new` guarantees about the two
    tables it fills (positions are valid and carry the looked-up names) -/
theorem new_tables {source : Shape ν} {requested : List ν} {m : DimensionMappings}
    (h : DimensionMappings.new source requested = some m) :
    requested.length = source.length ∧ m.sourceToRequested.length = source.length ∧
    m.requestedToSource.length = source.length ∧
    ∀ d, d < source.length →
      m.sourceToRequested.getD d 0 < source.length ∧ m.requestedToSource.getD d 0 < source.length ∧
      requested.getD (m.sourceToRequested.getD d 0) default = (source.getD d (default, 0)).1 ∧
      (source.getD (m.requestedToSource.getD d 0) (default, 0)).1 = requested.getD d default := by
  simp only [DimensionMappings.new] at h
  split at h
  · simp at h
  · rename_i hlen
    simp only [ne_eq, Decidable.not_not] at hlen
    split at h
    · simp at h
    · rename_i l hl
      simp only [Option.some.injEq] at h
      subst h
      obtain ⟨hll, hget⟩ := mapM_range_some _ _ _ hl
      simp only [List.length_range] at hll
      refine ⟨hlen.symm, by simp [hll], by simp [hll], ?_⟩
      intro d hd
      have hdl : d < l.length := by omega
      have hdr : d < requested.length := by omega
      have := hget d (by simpa using hd) hdl
      simp only [List.getElem_range, mappingAt, List.getElem?_map,
        List.getElem?_eq_getElem hd, Option.map_some, List.getElem?_eq_getElem hdr] at this
      have g1 : (l.map (·.1)).getD d 0 = (l[d]).1 := by
        rw [getD_eq_getElem' (by simp; omega)]; simp
      have g2 : (l.map (·.2)).getD d 0 = (l[d]).2 := by
        rw [getD_eq_getElem' (by simp; omega)]; simp
      simp only [g1, g2, getD_eq_getElem' hd, getD_eq_getElem' hdr]
      split at this
      · rename_i heq
        simp only [Option.some.injEq] at this
        rw [← this]
        simp only [getD_eq_getElem' hd, getD_eq_getElem' hdr]
        exact ⟨hd, hd, by simpa using heq, by simp [heq]⟩
      · split at this
        · simp at this
        · rename_i a ha
          split at this
          · simp at this
          · rename_i b hb
            simp only [Option.some.injEq] at this
            rw [← this]
            obtain ⟨ha1, ha2⟩ := findPos_some ha
            obtain ⟨hb1, hb2⟩ := findPos_some hb
            simp only [decide_eq_true_eq] at ha2 hb2
            simp only [List.length_map] at hb1
            simp only [List.getElem_map] at hb2
            simp only [getD_eq_getElem' ha1, getD_eq_getElem' hb1]
            exact ⟨by omega, hb1, ha2, hb2⟩

theorem new_mappingOK {source : Shape ν} {requested : List ν} {m : DimensionMappings}
    (hn : (namesOf source).Nodup) (h : DimensionMappings.new source requested = some m) :
    MappingOK m source.length := by
  simp only [DimensionMappings.new] at h
  split at h
  · simp at h
  · rename_i hlen
    simp only [ne_eq, Decidable.not_not] at hlen
    split at h
    · simp at h
    · rename_i l hl
      simp only [Option.some.injEq] at h
      subst h
      obtain ⟨hll, hget⟩ := mapM_range_some _ _ _ hl
      simp only [List.length_range] at hll
      -- what one iteration of the loop guarantees
      have step : ∀ d (hd : d < source.length),
          ∃ (h1 : (l[d]'(by omega)).1 < requested.length) (h2 : (l[d]'(by omega)).2 < source.length),
            requested[(l[d]'(by omega)).1] = (source[d]).1 ∧
            (source[(l[d]'(by omega)).2]).1 = requested[d]'(by omega) := by
        intro d hd
        have := hget d (by simpa using hd) (by omega)
        simp only [List.getElem_range, mappingAt, List.getElem?_map,
          List.getElem?_eq_getElem hd, Option.map_some,
          List.getElem?_eq_getElem (show d < requested.length by omega)] at this
        split at this
        · rename_i heq
          simp only [Option.some.injEq] at this
          rw [← this]
          exact ⟨by simp; omega, by simpa using hd, by simpa using heq, by simp [heq]⟩
        · split at this
          · simp at this
          · rename_i a ha
            split at this
            · simp at this
            · rename_i b hb
              simp only [Option.some.injEq] at this
              rw [← this]
              obtain ⟨ha1, ha2⟩ := findPos_some ha
              obtain ⟨hb1, hb2⟩ := findPos_some hb
              simp only [decide_eq_true_eq] at ha2 hb2
              refine ⟨ha1, by simpa using hb1, ha2, ?_⟩
              simpa using hb2
      -- s2r is injective (distinct source names), hence onto 0..D
      have hinj : (l.map (·.1)).Nodup := by
        rw [List.nodup_iff_pairwise_ne, List.pairwise_iff_getElem]
        intro i j hi hj hij heq
        simp only [List.length_map] at hi hj
        simp only [List.getElem_map] at heq
        obtain ⟨_, _, e1, _⟩ := step i (by omega)
        obtain ⟨_, _, e2, _⟩ := step j (by omega)
        have : (source[i]'(by omega)).1 = (source[j]'(by omega)).1 := by
          rw [← e1, ← e2]; simp only [heq]
        have := nodup_getElem_inj hn (i := i) (j := j) (by simp; omega) (by simp; omega)
          (by simpa [namesOf] using this)
        omega
      have honto := mem_of_nodup_lt (l := l.map (·.1)) (n := source.length) (by simp [hll]) hinj
        (by
          intro x hx
          obtain ⟨d, hd, rfl⟩ := List.getElem_of_mem hx
          simp only [List.length_map] at hd
          obtain ⟨h1, _⟩ := step d (by omega)
          simp only [List.getElem_map]; omega)
      have gd1 : ∀ d (hd : d < source.length), (l.map (·.1)).getD d 0 = (l[d]'(by omega)).1 := by
        intro d hd; rw [getD_eq_getElem' (by simp; omega)]; simp
      have gd2 : ∀ d (hd : d < source.length), (l.map (·.2)).getD d 0 = (l[d]'(by omega)).2 := by
        intro d hd; rw [getD_eq_getElem' (by simp; omega)]; simp
      -- r2s ∘ s2r = id
      have inv1 : ∀ d (hd : d < source.length), ∃ (h1 : (l[d]'(by omega)).1 < source.length),
          (l[(l[d]'(by omega)).1]'(by omega)).2 = d := by
        intro d hd
        obtain ⟨h1, _, e1, _⟩ := step d hd
        have h1' : (l[d]'(by omega)).1 < source.length := by omega
        obtain ⟨_, h2, _, e2⟩ := step _ h1'
        refine ⟨h1', ?_⟩
        have : (source[(l[(l[d]'(by omega)).1]'(by omega)).2]).1 = (source[d]).1 := by rw [e2, e1]
        exact nodup_getElem_inj hn (by simpa using h2) (by simpa using hd) (by simpa [namesOf] using this)
      refine ⟨by simp [hll], by simp [hll], ?_, ?_⟩
      · intro d hd
        obtain ⟨h1, e⟩ := inv1 d hd
        rw [gd1 d hd, gd2 _ h1]
        exact ⟨h1, e⟩
      · intro d hd
        -- d = s2r[e] for some e; then r2s[d] = e
        obtain ⟨e, he, hed⟩ := List.getElem_of_mem (honto d hd)
        simp only [List.length_map] at he
        simp only [List.getElem_map] at hed
        have he' : e < source.length := by omega
        obtain ⟨_, e2⟩ := inv1 e he'
        rw [gd2 d hd]
        have : (l[d]'(by omega)).2 = e := by
          have := e2; simp only [hed] at this; exact this
        rw [this, gd1 e he']
        exact ⟨he', hed⟩

theorem mkAccess_wf {s v : View ν α} {dimensions : List ν} (hs : s.WF)
    (h : mkAccess s dimensions = some v) : v.WF := by
  simp only [mkAccess, Option.map_eq_some_iff] at h
  obtain ⟨m, hm, rfl⟩ := h
  simp only [View.WF]
  exact ⟨hs, new_mappingOK (goodShape_iff.1 (View.correct s hs).1).1 hm⟩

theorem mkTranspose_wf {s v : View ν α} {dimensions : List ν} (hs : s.WF)
    (h : mkTranspose s dimensions = some v) : v.WF := by
  simp only [mkTranspose, Option.map_eq_some_iff] at h
  obtain ⟨m, hm, rfl⟩ := h
  simp only [View.WF]
  exact ⟨hs, new_mappingOK (goodShape_iff.1 (View.correct s hs).1).1 hm⟩

/-! ### `DimensionMappings::new` succeeds for every reordering of the source's names -/

theorem mapM_some_of_forall {β : Type} (f : Nat → Option β) (xs : List Nat)
    (h : ∀ x ∈ xs, (f x).isSome = true) : ∃ l, xs.mapM f = some l := by
  induction xs with
  | nil => exact ⟨[], by simp⟩
  | cons x xs ih =>
    obtain ⟨l, hl⟩ := ih (fun y hy => h y (by simp [hy]))
    have hx := h x (by simp)
    obtain ⟨b, hb⟩ := Option.isSome_iff_exists.1 hx
    exact ⟨b :: l, by simp [List.mapM_cons, hb, hl]⟩

theorem findPos_isSome_of_mem {β : Type} {p : β → Bool} {l : List β} (h : ∃ x ∈ l, p x = true) :
    (findPos p l).isSome = true := by
  induction l with
  | nil => obtain ⟨x, hx, _⟩ := h; cases hx
  | cons y ys ih =>
    simp only [findPos]
    by_cases hy : p y = true
    · simp [hy]
    · simp only [hy, Bool.false_eq_true, if_false, Option.isSome_map]
      apply ih
      obtain ⟨x, hx, hpx⟩ := h
      simp only [List.mem_cons] at hx
      rcases hx with rfl | hx
      · exact absurd hpx hy
      · exact ⟨x, hx, hpx⟩

theorem new_some_of_same_names {source : Shape ν} {requested : List ν}
    (hlen : requested.length = source.length) (h1 : ∀ n ∈ namesOf source, n ∈ requested)
    (h2 : ∀ r ∈ requested, r ∈ namesOf source) :
    ∃ m, DimensionMappings.new source requested = some m := by
  simp only [DimensionMappings.new, hlen, ne_eq, not_true_eq_false, if_false]
  have : ∃ l, (List.range source.length).mapM (mappingAt (source.map (·.1)) requested) = some l := by
    apply mapM_some_of_forall
    intro d hd
    simp only [List.mem_range] at hd
    have hdr : d < requested.length := by omega
    simp only [mappingAt, List.getElem?_map, List.getElem?_eq_getElem hd, Option.map_some,
      List.getElem?_eq_getElem hdr]
    split
    · simp
    · have e1 : (findPos (fun x => decide (x = (source[d]).1)) requested).isSome = true :=
        findPos_isSome_of_mem ⟨(source[d]).1,
          h1 _ (List.mem_map.2 ⟨source[d], List.getElem_mem hd, rfl⟩), by simp⟩
      have e2 : (findPos (fun x => decide (x = requested[d])) (source.map (·.1))).isSome = true :=
        findPos_isSome_of_mem ⟨requested[d], h2 _ (List.getElem_mem hdr), by simp⟩
      obtain ⟨a, ha⟩ := Option.isSome_iff_exists.1 e1
      obtain ⟨b, hb⟩ := Option.isSome_iff_exists.1 e2
      simp [ha, hb]
  obtain ⟨l, hl⟩ := this
  exact ⟨_, by rw [hl]⟩

end EasyMl
