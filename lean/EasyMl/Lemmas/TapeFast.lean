/-
  EasyMl.Lemmas.TapeFast — the array-backed twins of Model/TapeFast.lean compute exactly the
  list-based definitions the theorems are about (on `toList`).
-/
import EasyMl.Model.TapeFast
import EasyMl.Lemmas.TapeWorld

namespace EasyMl.Fast
open EasyMl EasyMl.Spec

set_option linter.unusedSectionVars false

/-! ### lookups -/

section Core
variable {R : Type} [Add R] [Sub R] [Mul R] [Div R] [Neg R] [Zero R] [One R] [RealFns R]

theorem gv_eq (vs : Array R) (a : Nat) : gv vs a = vs.toList.getD a 0 := by
  unfold gv
  rw [List.getD_eq_getElem?_getD, Array.getD_eq_getD_getElem?, Array.getElem?_toList]

theorem gr_eq (recs : Array (Rec R)) (a : Nat) : gr recs a = getRec recs.toList a := by
  unfold gr getRec
  rw [List.getD_eq_getElem?_getD, Array.getD_eq_getD_getElem?, Array.getElem?_toList]

theorem gv_map (vs : Array R) (as : List Nat) :
    as.map (gv vs) = as.map (vs.toList.getD · 0) := by
  apply List.map_congr_left
  intro a _
  exact gv_eq vs a

theorem fval_eq (env : Nat → R) (vs : Array R) (ins : Instr R) :
    fval env vs ins = ins.val env vs.toList := by
  cases ins <;> simp only [fval, Instr.val, gv_eq, gv_map, Array.length_toList]

theorem ftan_eq (seed : Nat → R) (vs ts : Array R) (ins : Instr R) :
    ftan seed vs ts ins = ins.tan seed vs.toList ts.toList := by
  cases ins <;> simp only [ftan, Instr.tan, gv_eq, gv_map, Array.length_toList]

theorem fdep_eq (ds : Array Bool) (ins : Instr R) : fdep ds ins = ins.dep ds.toList := by
  unfold fdep Instr.dep
  congr 1
  apply any_congr_mem'
  intro a _
  rw [List.getD_eq_getElem?_getD, Array.getD_eq_getD_getElem?, Array.getElem?_toList]
where
  any_congr_mem' {α : Type} {l : List α} {f g : α → Bool} (h : ∀ a ∈ l, f a = g a) :
      l.any f = l.any g := by
    induction l with
    | nil => rfl
    | cons x xs ih =>
      simp only [List.any_cons]
      rw [h x (by simp), ih (fun a ha => h a (by simp [ha]))]

/-! ### the forward gradient -/

theorem fgrad_fold (env : Nat → R) (i : Nat) (l : List (Instr R)) :
    ∀ (vs ts : Array R),
      ((l.foldl (fgradStep env i) (vs, ts)).1.toList, (l.foldl (fgradStep env i) (vs, ts)).2.toList)
        = Prog.tangentsFrom env (unitSeed i) l vs.toList ts.toList := by
  induction l with
  | nil => intro vs ts; rfl
  | cons ins rest ih =>
    intro vs ts
    simp only [List.foldl_cons, fgradStep, Prog.tangentsFrom]
    rw [ih]
    simp only [Array.toList_push, fval_eq, ftan_eq]

/-- `fgrad` is `Prog.grad` -/
theorem fgrad_eq (env : Nat → R) (prog : Array (Instr R)) (i : Nat) :
    (fgrad env prog i).toList = Prog.grad env prog.toList i := by
  unfold fgrad Prog.grad Prog.tangents
  rw [← Array.foldl_toList]
  have := fgrad_fold env i prog.toList #[] #[]
  exact congrArg Prod.snd this

/-! ### the reverse sweep -/

/-- an outcome with an array read as the outcome with the list -/
def toL : Outcome (Array R) → Outcome (List R)
  | .ok d => .ok d.toList
  | .panic k => .panic k

theorem faccumulate_eq (d : Array R) (p : Nat) (x : R) :
    toL (faccumulate d p x) = accumulate d.toList p x := by
  unfold faccumulate accumulate
  by_cases hp : p < d.size
  · have hp' : p < d.toList.length := by simpa using hp
    simp only [hp, hp', dite_true, toL, Array.toList_set, Array.getElem_toList]
  · have hp' : ¬ p < d.toList.length := by simpa using hp
    simp only [hp, hp', dite_false, toL]

theorem guard_eq (c : Prop) [Decidable c] (d1 : Array R) (p : Nat) (x : R) :
    toL (if c then Outcome.ok d1 else faccumulate d1 p x)
      = if c then Outcome.ok d1.toList else accumulate d1.toList p x := by
  split
  · rfl
  · exact faccumulate_eq _ _ _

theorem fsweepEntry_eq (op : Op R) (i : Nat) (d : Array R) :
    toL (fsweepEntry op i d) = sweepEntry op i d.toList := by
  unfold fsweepEntry sweepEntry
  by_cases hi : i < d.size
  · have hi' : i < d.toList.length := by simpa using hi
    simp only [hi, hi', dite_true, Array.getElem_toList]
    rw [← guard_eq]
    generalize (if op.leftParent = i then Outcome.ok d
        else faccumulate d op.leftParent (d[i] * op.leftDerivative)) = o1
    cases o1 with
    | panic k => rfl
    | ok d1 => exact guard_eq _ _ _ _
  · have hi' : ¬ i < d.toList.length := by simpa using hi
    simp only [hi, hi', dite_false, toL]

theorem fsweepFrom_eq (ops : Array (Op R)) (k : Nat) :
    ∀ d : Array R, toL (fsweepFrom ops k d) = sweepFrom ops.toList k d.toList := by
  induction k with
  | zero => intro d; rfl
  | succ i ih =>
    intro d
    simp only [fsweepFrom, sweepFrom, Array.getElem?_toList]
    cases ops[i]? with
    | none => rfl
    | some op =>
      simp only
      rw [← fsweepEntry_eq]
      cases fsweepEntry op i d with
      | panic k => rfl
      | ok d' => simp only [toL]; exact ih d'

/-- `freverseSweep` is `reverseSweep` -/
theorem freverseSweep_eq (ops : Array (Op R)) (index : Nat) :
    toL (freverseSweep ops index) = reverseSweep ops.toList index := by
  unfold freverseSweep reverseSweep
  by_cases h : index < ops.size
  · have h' : index < ops.toList.length := by simpa using h
    simp only [h, h', dite_true, if_true]
    rw [fsweepFrom_eq]
    simp [Array.toList_set]
  · have h' : ¬ index < ops.toList.length := by simpa using h
    simp only [h, h', dite_false, if_false, toL]

end Core

/-! ### one instruction -/

section Exec
variable {R : Type} [CommRing R] [Div R] [RealFns R]

/-! ### the two operator shapes and the `Sum` loop on one tape -/

theorem fUnary_eq (tape : Array (Op R)) (a : Rec R) (F D : R → R) (w : World R) (h : Nat)
    (ht : tape.toList = w h) (ha : OnTape h a) :
    (fUnary tape a F D).2 = (a.unary F D w).1 ∧
    (fUnary tape a F D).1.toList = (a.unary F D w).2 h := by
  unfold fUnary Rec.unary
  rcases ha with ha | ha
  · simp only [ha]; exact ⟨trivial, ht⟩
  · simp only [ha, Rec.pushUnary, Tape.appendUnary, World.update_same, Array.toList_push,
      ← ht, Array.length_toList]
    exact ⟨trivial, trivial⟩

theorem fBinary_eq (tape : Array (Op R)) (a b : Rec R) (F DX DY : R → R → R) (w : World R)
    (h : Nat) (ht : tape.toList = w h) (ha : OnTape h a) (hb : OnTape h b) :
    (fBinary tape a b F DX DY).2 = (liftStep w (a.binary b F DX DY w)).2 ∧
    (fBinary tape a b F DX DY).1.toList = (liftStep w (a.binary b F DX DY w)).1 h := by
  unfold fBinary Rec.binary
  rw [sameList_onTape ha hb]
  simp only [Bool.not_true, Bool.false_eq_true, if_false]
  rcases ha with ha | ha <;> rcases hb with hb | hb
  · simp only [ha, hb, liftStep]; exact ⟨trivial, ht⟩
  · simp only [ha, hb, liftStep, Rec.pushUnary, Tape.appendUnary, World.update_same,
      Array.toList_push, ← ht, Array.length_toList]
    exact ⟨trivial, trivial⟩
  · simp only [ha, hb, liftStep, Rec.pushUnary, Tape.appendUnary, World.update_same,
      Array.toList_push, ← ht, Array.length_toList]
    exact ⟨trivial, trivial⟩
  · simp only [ha, hb, liftStep, Rec.pushBinary, Tape.appendBinary, World.update_same,
      Array.toList_push, ← ht, Array.length_toList]
    exact ⟨trivial, trivial⟩

theorem fSum_go_eq (h : Nat) (items : List (Rec R)) :
    ∀ (total : Rec R) (tape : Array (Op R)) (w : World R), tape.toList = w h → OnTape h total →
      (∀ r ∈ items, OnTape h r) →
      (fSum.go items total tape).2 = (Rec.sumLoop items total w).2 ∧
      (fSum.go items total tape).1.toList = (Rec.sumLoop items total w).1 h := by
  induction items with
  | nil => intro total tape w ht _ _; exact ⟨rfl, ht⟩
  | cons x xs ih =>
    intro total tape w ht hto hall
    have hx := hall x (by simp)
    have hall' : ∀ r ∈ xs, OnTape h r := fun r hr => hall r (by simp [hr])
    simp only [fSum.go, Rec.sumLoop, Rec.sumStep]
    rcases hto with hto | hto <;> rcases hx with hx | hx
    · simp only [hto, hx]
      exact ih _ _ _ ht (Or.inl rfl) hall'
    · simp only [hto, hx, Rec.pushUnary, Tape.appendUnary, ← ht, Array.length_toList]
      exact ih _ _ _ (by simp [Array.toList_push]) (Or.inr rfl) hall'
    · simp only [hto, hx, Rec.pushUnary, Tape.appendUnary, ← ht, Array.length_toList]
      exact ih _ _ _ (by simp [Array.toList_push]) (Or.inr rfl) hall'
    · have hs : Rec.sameList total x = true := sameList_onTape (Or.inr hto) (Or.inr hx)
      simp only [hto, hx, hs, Bool.not_true, Bool.false_eq_true, if_false, Rec.pushBinary,
        Tape.appendBinary, ← ht, Array.length_toList]
      exact ih _ _ _ (by simp [Array.toList_push]) (Or.inr rfl) hall'


/-- **`fexec` is `Instr.exec`** on tape 0: with the array tape holding the entries of tape 0 and
    every record a constant or on tape 0, the outcome (record or panic) is the same and the new
    array tape holds the new entries of tape 0. -/
theorem fexec_eq (env : Nat → R) (recs : Array (Rec R)) (tape : Array (Op R)) (w : World R)
    (ins : Instr R) (ht : tape.toList = w 0) (hrecs : ∀ k, OnTape 0 (getRec recs.toList k)) :
    (fexec env recs tape ins).2 = (ins.exec 0 env recs.toList w).2 ∧
    (fexec env recs tape ins).1.toList = (ins.exec 0 env recs.toList w).1 0 := by
  have hu : ∀ (a : Nat) (F D : R → R),
      (fexec.ok (fUnary tape (gr recs a) F D)).2 = (okStep ((getRec recs.toList a).unary F D w)).2 ∧
      (fexec.ok (fUnary tape (gr recs a) F D)).1.toList
        = (okStep ((getRec recs.toList a).unary F D w)).1 0 := by
    intro a F D
    rw [gr_eq]
    obtain ⟨h1, h2⟩ := fUnary_eq tape (getRec recs.toList a) F D w 0 ht (hrecs a)
    simp only [fexec.ok, okStep, h1, h2, and_self]
  have hb : ∀ (a b : Nat) (F DX DY : R → R → R),
      (fBinary tape (gr recs a) (gr recs b) F DX DY).2
        = (liftStep w ((getRec recs.toList a).binary (getRec recs.toList b) F DX DY w)).2 ∧
      (fBinary tape (gr recs a) (gr recs b) F DX DY).1.toList
        = (liftStep w ((getRec recs.toList a).binary (getRec recs.toList b) F DX DY w)).1 0 := by
    intro a b F DX DY
    rw [gr_eq, gr_eq]
    exact fBinary_eq tape _ _ F DX DY w 0 ht (hrecs a) (hrecs b)
  cases ins with
  | const c => exact ⟨rfl, ht⟩
  | var =>
    simp only [fexec, Instr.exec, okStep, Rec.mkVar, Tape.appendNullary, World.update_same,
      Array.toList_push, ← ht, Array.length_toList]
    exact ⟨trivial, trivial⟩
  | arith o a b =>
    cases o
    · simp only [fexec, Instr.exec, Rec.add_eq]; exact hb _ _ _ _ _
    · simp only [fexec, Instr.exec, Rec.sub_eq]; exact hb _ _ _ _ _
    · simp only [fexec, Instr.exec, Rec.mul_eq]; exact hb _ _ _ _ _
    · simp only [fexec, Instr.exec, Rec.div_eq]; exact hb _ _ _ _ _
  | arithNum o a c =>
    cases o
    · simp only [fexec, Instr.exec, Rec.addNum_eq]; exact hu _ _ _
    · simp only [fexec, Instr.exec, Rec.subNum_eq]; exact hu _ _ _
    · simp only [fexec, Instr.exec, Rec.mulNum_eq]; exact hu _ _ _
    · simp only [fexec, Instr.exec, Rec.divNum_eq]; exact hu _ _ _
  | swapped o c a =>
    cases o
    · simp only [fexec, Instr.exec, Rec.subSwapped_eq]; exact hu _ _ _
    · simp only [fexec, Instr.exec, Rec.divSwapped_eq]; exact hu _ _ _
  | neg a => simp only [fexec, Instr.exec, Rec.neg_eq]; exact hu _ _ _
  | sum as =>
    simp only [fexec, Instr.exec, fSum, Rec.sum]
    have : as.map (gr recs) = as.map (getRec recs.toList) :=
      List.map_congr_left (fun a _ => gr_eq recs a)
    rw [this]
    apply fSum_go_eq 0 _ _ _ _ ht (Or.inl rfl)
    intro r hr
    simp only [List.mem_map] at hr
    obtain ⟨a, _, rfl⟩ := hr
    exact hrecs a
  | real f a =>
    cases f
    · simp only [fexec, Instr.exec, Rec.sin_eq]; exact hu _ _ _
    · simp only [fexec, Instr.exec, Rec.cos_eq]; exact hu _ _ _
    · simp only [fexec, Instr.exec, Rec.exp_eq]; exact hu _ _ _
    · simp only [fexec, Instr.exec, Rec.ln_eq]; exact hu _ _ _
    · simp only [fexec, Instr.exec, Rec.sqrt_eq]; exact hu _ _ _
  | pow a b => simp only [fexec, Instr.exec, Rec.pow_eq]; exact hb _ _ _ _ _
  | powNum a c => simp only [fexec, Instr.exec, Rec.powNum_eq]; exact hu _ _ _
  | numPow c a => simp only [fexec, Instr.exec, Rec.numPow_eq]; exact hu _ _ _
  | unary f df a => simp only [fexec, Instr.exec]; exact hu _ _ _
  | binary f dfx dfy a b => simp only [fexec, Instr.exec]; exact hb _ _ _ _ _

end Exec

end EasyMl.Fast
