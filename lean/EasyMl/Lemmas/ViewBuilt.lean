/-
  EasyMl.Lemmas.ViewBuilt — every constructed view (`Built`, Spec/ViewBuilt.lean) is well formed.
-/
import EasyMl.Spec.ViewBuilt
import EasyMl.Lemmas.ViewConstructors
import EasyMl.Lemmas.ViewMapping
import EasyMl.Lemmas.ViewWriteMany

namespace EasyMl
open EasyMl.Spec EasyMl.View

set_option linter.unusedSectionVars false

variable {ν : Type} [DecidableEq ν] [Inhabited ν] {α : Type}

theorem Built.wf {v : View ν α} (h : Built v) : v.WF := by
  induction h with
  | tensor h hm => exact mkTensor_wf h hm
  | matrix h hm => exact mkMatrix_wf h hm
  | tmap _ ih => simpa only [View.WF] using ih
  | matrixOf _ h ih => exact mkMatrixOf_wf ih h
  | matrixStack _ h ih => exact mkMatrixStack_wf ih h
  | range _ h ih => exact mkRange_wf ih h
  | rangeStrict _ h ih => exact mkRangeStrict_wf ih h
  | rangeAll _ h ih => exact mkRangeAll_wf ih h
  | rangeAllStrict _ h ih => exact mkRangeAllStrict_wf ih h
  | mask _ h ih => exact mkMask_wf ih h
  | maskStrict _ h ih => exact mkMaskStrict_wf ih h
  | maskAll _ h ih => exact mkMaskAll_wf ih h
  | maskAllStrict _ h ih => exact mkMaskAllStrict_wf ih h
  | index _ h ih => exact mkIndex_wf ih h
  | expansion _ h ih => exact mkExpansion_wf ih h
  | rename _ h ih => exact mkRename_wf ih h
  | reverse _ h ih => exact mkReverse_wf ih h
  | access _ h ih => exact mkAccess_wf ih h
  | transpose _ h ih => exact mkTranspose_wf ih h
  | stack _ hn h ih => exact mkStack_wf ih hn h
  | chain _ hsum h ih => exact mkChain_wf ih hsum h
  | setNames _ hl ih => exact setNames_wf ih hl
  | replaceSource _ _ hsrc hl ih1 ih2 => exact replaceSource_wf ih1 ih2 hsrc hl
  | written _ ih => exact View.setCell_wf _ _ _ ih

end EasyMl
