/-
  EasyMl.Lemmas.ViewLaws — relations between adaptors: arguments that change nothing, an
  adaptor undone by itself, `TensorTranspose` as a renamed `TensorAccess`, a range of a range.
  Stated on the specification (`SameView`: same shape, same designated cell at every index) and
  carried to the checked getters of well-formed views by `sameView_get`.
-/
import EasyMl.Lemmas.ViewMain

namespace EasyMl
open EasyMl.Spec EasyMl.View

set_option linter.unusedSectionVars false

variable {ν : Type} [DecidableEq ν] [Inhabited ν] {α : Type}

/-- two views that cannot be told apart through `view_shape` and the getters -/
def SameView (a b : View ν α) : Prop :=
  a.shape = b.shape ∧ ∀ idx, a.specGet idx = b.specGet idx

theorem sameView_get {a b : View ν α} (ha : a.WF) (hb : b.WF) (h : SameView a b) (idx : List Nat)
    (hl : idx.length = a.shape.length) (hbd : ∀ i ∈ idx, i ≤ usizeMax) : a.get idx = b.get idx := by
  rw [(View.correct a ha).2 idx hl hbd, (View.correct b hb).2 idx (by rw [← h.1]; exact hl) hbd, h.2 idx]

/-- a `SameView` statement only has to be checked at in-bounds indexes -/
theorem sameView_of_inBounds {a b : View ν α} (hs : a.shape = b.shape)
    (h : ∀ idx, inBounds (lens a.shape) idx = true → a.specCell idx = b.specCell idx) : SameView a b := by
  refine ⟨hs, fun idx => ?_⟩
  simp only [View.specGet, ← hs]
  split
  · rename_i hin; exact h idx hin
  · rfl

/-! ### arguments that change nothing -/

theorem rangeShape_full (sh : Shape ν) : rangeShape sh (sh.map fun d => ⟨0, d.2⟩) = sh := by
  induction sh with
  | nil => rfl
  | cons d ds ih => simp [rangeShape, ih]

theorem rangeCoords_full (sh : Shape ν) : ∀ idx : List Nat, idx.length = sh.length →
    rangeCoords idx (sh.map fun d => (⟨0, d.2⟩ : IndexRange)) = idx := by
  induction sh with
  | nil => intro idx h; cases idx <;> simp_all [rangeCoords]
  | cons d ds ih =>
    intro idx h
    cases idx with
    | nil => simp at h
    | cons i is =>
      have := ih is (by simpa using h)
      simp only [rangeCoords] at this ⊢
      simp [this]

/-- `TensorRange` over every dimension in full -/
theorem range_full (s : View ν α) : SameView (View.range s (s.shape.map fun d => ⟨0, d.2⟩)) s := by
  refine sameView_of_inBounds (by simp [View.shape, rangeShape_full]) ?_
  intro idx hin
  simp only [View.shape, rangeShape_full] at hin
  have hl := inBounds_length hin
  simp only [lens_length] at hl
  simp only [View.specCell, rangeCoords_full s.shape idx hl]

theorem maskShape_empty (sh : Shape ν) : ∀ ms : List IndexRange, ms.length = sh.length →
    (∀ m ∈ ms, m.length = 0) → maskShape sh ms = sh := by
  induction sh with
  | nil => intro ms h _; cases ms <;> simp_all [maskShape]
  | cons d ds ih =>
    intro ms h h0
    cases ms with
    | nil => simp at h
    | cons m ms =>
      simp [maskShape, h0 m (by simp), ih ms (by simpa using h) (fun m' hm' => h0 m' (by simp [hm']))]

theorem maskCoords_empty : ∀ (idx : List Nat) (ms : List IndexRange), ms.length = idx.length →
    (∀ m ∈ ms, m.length = 0) → maskCoords idx ms = idx := by
  intro idx
  induction idx with
  | nil => intro ms _ _; simp [maskCoords]
  | cons i is ih =>
    intro ms h h0
    cases ms with
    | nil => simp at h
    | cons m ms =>
      have := ih ms (by simpa using h) (fun m' hm' => h0 m' (by simp [hm']))
      simp only [maskCoords] at this ⊢
      simp [this, h0 m (by simp)]

/-- `TensorMask` that masks nothing (every mask of length 0, wherever it starts) -/
theorem mask_nothing (s : View ν α) (ms : List IndexRange) (hl : ms.length = s.shape.length)
    (h0 : ∀ m ∈ ms, m.length = 0) : SameView (View.mask s ms) s := by
  refine sameView_of_inBounds (by simp [View.shape, maskShape_empty s.shape ms hl h0]) ?_
  intro idx hin
  simp only [View.shape, maskShape_empty s.shape ms hl h0] at hin
  have hli := inBounds_length hin
  simp only [lens_length] at hli
  simp only [View.specCell, maskCoords_empty idx ms (by omega) h0]

theorem reverseCoords_none : ∀ (idx ls : List Nat), idx.length = ls.length →
    reverseCoords idx ls (List.replicate ls.length false) = idx := by
  intro idx
  induction idx with
  | nil => intro ls h; cases ls <;> simp_all [reverseCoords]
  | cons i is ih =>
    intro ls h
    cases ls with
    | nil => simp at h
    | cons l ls => simp [reverseCoords, List.replicate_succ, ih ls (by simpa using h)]

/-- `TensorReverse` of no dimension -/
theorem reverse_none (s : View ν α) :
    SameView (View.reverse s (List.replicate s.shape.length false)) s := by
  refine sameView_of_inBounds rfl ?_
  intro idx hin
  simp only [View.shape] at hin
  have hl := inBounds_length hin
  have := reverseCoords_none idx (lens s.shape) hl
  simp only [lens_length] at this
  simp only [View.specCell, this]

theorem renameShape_own (sh : Shape ν) : renameShape sh (namesOf sh) = sh := by
  induction sh with
  | nil => rfl
  | cons d ds ih => simp [renameShape, namesOf] at ih ⊢; exact ih

/-- `TensorRename` to the names the view already has -/
theorem rename_own (s : View ν α) : SameView (View.rename s (namesOf s.shape)) s :=
  sameView_of_inBounds (by simp [View.shape, renameShape_own]) (fun _ _ => rfl)

/-- any renaming shows the cells of its source -/
theorem rename_cells (s : View ν α) (ns : List ν) (idx : List Nat) :
    (View.rename s ns).specCell idx = s.specCell idx := rfl

/-! ### an adaptor undone by itself -/

theorem reverseCoords_twice : ∀ (idx ls : List Nat) (r : List Bool), r.length = ls.length →
    inBounds ls idx = true → reverseCoords (reverseCoords idx ls r) ls r = idx := by
  intro idx
  induction idx with
  | nil => intro ls r _ h; cases ls <;> simp_all [reverseCoords]
  | cons i is ih =>
    intro ls r hr hin
    cases ls with
    | nil => simp at hin
    | cons l ls =>
      cases r with
      | nil => simp at hr
      | cons b bs =>
        simp only [inBounds_cons_cons, Bool.and_eq_true, decide_eq_true_eq] at hin
        have := ih ls bs (by simpa using hr) hin.2
        cases b
        · simp [reverseCoords, this]
        · simp only [reverseCoords, if_true, this, List.cons.injEq, and_true]
          omega

/-- reversing the same dimensions twice -/
theorem reverse_reverse (s : View ν α) (r : List Bool) (hr : r.length = s.shape.length) :
    SameView (View.reverse (View.reverse s r) r) s := by
  refine sameView_of_inBounds rfl ?_
  intro idx hin
  simp only [View.shape] at hin
  simp only [View.specCell, View.shape,
    reverseCoords_twice idx (lens s.shape) r (by simpa [lens_length] using hr) hin]

/-! ### `TensorTranspose` is `TensorAccess` under the source's names -/

theorem transposeShape_eq_renameShape : ∀ (ns os : Shape ν), ns.length = os.length →
    transposeShape ns os = renameShape os (namesOf ns) := by
  intro ns
  induction ns with
  | nil => intro os h; cases os <;> simp_all [transposeShape, renameShape, namesOf]
  | cons n ns ih =>
    intro os h
    cases os with
    | nil => simp at h
    | cons o os =>
      have := ih os (by simpa using h)
      simp only [namesOf] at this
      simp [transposeShape, renameShape, namesOf, this]

/-- `TensorTranspose::from(s, names)` cannot be told apart from
    `TensorRename::from(TensorAccess::from(s, names), <the names of s in their own order>)` -/
theorem transpose_eq_rename_access (s : View ν α) (m : DimensionMappings)
    (hm : (m.mapShapeToRequested s.shape).length = s.shape.length) :
    SameView (View.transpose s m) (View.rename (View.access s m) (namesOf s.shape)) :=
  sameView_of_inBounds
    (by simp only [View.shape]; exact transposeShape_eq_renameShape _ _ hm.symm) (fun _ _ => rfl)

/-! ### a range of a range -/

theorem rangeShape_rangeShape : ∀ (sh : Shape ν) (r1 r2 : List IndexRange), r1.length = r2.length →
    rangeShape (rangeShape sh r1) r2 =
      rangeShape sh (List.zipWith (fun a b => (⟨a.start + b.start, b.length⟩ : IndexRange)) r1 r2) := by
  intro sh
  induction sh with
  | nil => intro r1 r2 _; cases r1 <;> cases r2 <;> simp [rangeShape]
  | cons d ds ih =>
    intro r1 r2 h
    cases r1 with
    | nil => cases r2 <;> simp_all [rangeShape]
    | cons a as =>
      cases r2 with
      | nil => simp at h
      | cons b bs => simp [rangeShape, ih as bs (by simpa using h)]

theorem rangeCoords_rangeCoords : ∀ (idx : List Nat) (r1 r2 : List IndexRange),
    r1.length = r2.length →
    rangeCoords (rangeCoords idx r2) r1 =
      rangeCoords idx (List.zipWith (fun a b => (⟨a.start + b.start, b.length⟩ : IndexRange)) r1 r2) := by
  intro idx
  induction idx with
  | nil => intro r1 r2 _; simp [rangeCoords]
  | cons i is ih =>
    intro r1 r2 h
    cases r1 with
    | nil => cases r2 <;> simp_all [rangeCoords]
    | cons a as =>
      cases r2 with
      | nil => simp at h
      | cons b bs =>
        have := ih as bs (by simpa using h)
        simp only [rangeCoords] at this ⊢
        simp [this]; omega

/-- `TensorRange` over `TensorRange` is the one range with the starts added -/
theorem range_range (s : View ν α) (r1 r2 : List IndexRange) (h : r1.length = r2.length) :
    SameView (View.range (View.range s r1) r2)
      (View.range s (List.zipWith (fun a b => ⟨a.start + b.start, b.length⟩) r1 r2)) :=
  sameView_of_inBounds (by simp only [View.shape]; exact rangeShape_rangeShape _ _ _ h)
    (fun idx _ => by simp only [View.specCell, rangeCoords_rangeCoords idx r1 r2 h])

/-! ### selecting one source back out of a stack -/

/-- `provided` of `TensorIndex`: `k` at dimension `a`, nothing elsewhere (`slots` dimensions) -/
def providedAt : Nat → Nat → Nat → List (Option Nat)
  | 0, _, _ => []
  | n + 1, 0, k => some k :: List.replicate n none
  | n + 1, a + 1, k => none :: providedAt n a k

theorem indexShape_none (sh : Shape ν) : indexShape sh (List.replicate sh.length none) = sh := by
  induction sh with
  | nil => rfl
  | cons d ds ih => simp [List.replicate_succ, indexShape, ih]

theorem selectCoords_none (idx : List Nat) : selectCoords (List.replicate idx.length none) idx = idx := by
  induction idx with
  | nil => rfl
  | cons i is ih => simp [List.replicate_succ, selectCoords, ih]

theorem indexShape_insert (x : ν × Nat) (k : Nat) : ∀ (a : Nat) (sh : Shape ν), a ≤ sh.length →
    indexShape (sh.insertIdx a x) (providedAt (sh.length + 1) a k) = sh := by
  intro a
  induction a with
  | zero => intro sh _; simp [providedAt, indexShape, indexShape_none]
  | succ a ih =>
    intro sh h
    cases sh with
    | nil => simp at h
    | cons d ds =>
      simp only [List.insertIdx_succ_cons, List.length_cons, providedAt, indexShape]
      rw [ih ds (by simpa using h)]

theorem selectCoords_pick (k : Nat) : ∀ (a : Nat) (idx : List Nat), a ≤ idx.length →
    (selectCoords (providedAt (idx.length + 1) a k) idx).getD a 0 = k ∧
    (selectCoords (providedAt (idx.length + 1) a k) idx).eraseIdx a = idx := by
  intro a
  induction a with
  | zero => intro idx _; simp [providedAt, selectCoords, selectCoords_none]
  | succ a ih =>
    intro idx h
    cases idx with
    | nil => simp at h
    | cons i is =>
      obtain ⟨h1, h2⟩ := ih is (by simpa using h)
      simp only [List.length_cons, providedAt, selectCoords, List.getD_cons_succ, List.eraseIdx_cons_succ,
        List.cons.injEq, true_and]
      exact ⟨h1, h2⟩

/-- `TensorIndex` selecting source `k` along the dimension a `TensorStack` added gives that source
    back -/
theorem index_stack (ss : List (View ν α)) (along : Nat × ν) (k : Nat) (v : View ν α)
    (hk : ss[k]? = some v) (hsame : ∀ sh ∈ shapes ss, sh = (shapes ss).headD [])
    (ha : along.1 ≤ ((shapes ss).headD []).length) :
    SameView (View.index (View.stack ss along) (providedAt (((shapes ss).headD []).length + 1) along.1 k)) v := by
  have hv : v.shape = (shapes ss).headD [] := by
    apply hsame
    rw [shapes_eq_map]
    exact List.mem_map.2 ⟨v, List.mem_of_getElem? hk, rfl⟩
  have hshape : (View.index (View.stack ss along)
      (providedAt (((shapes ss).headD []).length + 1) along.1 k)).shape = v.shape := by
    simp only [View.shape]
    rw [stackShape_eq along ss.length _ 0 (Nat.zero_le _) (by simpa using ha), Nat.sub_zero,
      indexShape_insert _ k along.1 _ ha, hv]
  refine sameView_of_inBounds hshape ?_
  intro idx hin
  rw [hshape] at hin
  have hl := inBounds_length hin
  simp only [lens_length, hv] at hl
  obtain ⟨h1, h2⟩ := selectCoords_pick k along.1 idx (by omega)
  rw [hl] at h1 h2
  simp only [View.specCell, h1, h2, specCellAt_eq, hk]

end EasyMl
