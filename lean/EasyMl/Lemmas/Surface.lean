/-
  EasyMl.Lemmas.Surface — the model functions behind the "API surface" operations (`sread`,
  `swrite`): what is read through an access / transpose of a tensor, and what is seen after an
  in-place map through it, is the value of the (mapped) lazy view (C01/C13).
-/
import EasyMl.Lemmas.MapMut
import EasyMl.Lemmas.History

namespace EasyMl
open EasyMl.Spec

set_option linter.unusedSectionVars false

variable {ν : Type} [DecidableEq ν] {α : Type}

/-- the elements of a view depend on its `get` and on the lengths of its shape only -/
theorem elems_of_same_lens (v w : LazyView ν α) (hl : v.shape.map (·.2) = w.shape.map (·.2))
    (hg : v.get = w.get) : (materialise v).elems = (materialise w).elems := by
  simp only [materialise, hl, hg]

theorem transposed_lens (v : LazyView ν α) (names : List ν) (hp : IsOrdering v.shape names) :
    (transposed v names).shape.map (·.2) = (reordered v names).shape.map (·.2) := by
  have hl : names.length = v.shape.length := by simpa using hp.length_eq
  simp only [transposed, reordered]
  exact withNames_map_snd _ _ (by simp [shapeFor_length, hl])

/-- iterating with index pairs every index tuple of the shape (row-major, each once) with the
    element the plain iterator yields at that position -/
theorem iterWithIndex_eq_zip (v : TView ν α) (hv : v.lazy.Valid) :
    v.iterWithIndex = (allIndexes (v.shape.map (·.2))).zip v.iter := by
  rw [v.iterWithIndex_eq, v.iter_eq]
  simp only [materialise, TView.lazy_shape, TView.lazy_get]
  have h : ∀ L : List (List Nat), (∀ i ∈ L, (v.get i).isSome = true) →
      L.filterMap (fun idx => (v.get idx).map fun x => (idx, x)) = L.zip (L.filterMap v.get) := by
    intro L
    induction L with
    | nil => intro _; rfl
    | cons i is ih =>
      intro hall
      obtain ⟨x, hx⟩ := Option.isSome_iff_exists.1 (hall i (by simp))
      simp only [List.filterMap_cons, hx, Option.map_some, List.zip_cons_cons]
      rw [ih fun j hj => hall j (by simp [hj])]
  exact h _ fun i hi => hv.isSome_of_mem i hi

/-- what is read through `TensorAccess` / `TensorTranspose` of a tensor -/
theorem read_access_eq [Inhabited ν] (shape : Shape ν) (data : List α) (t : Tensor ν α)
    (ht : Tensor.tryFrom shape data = some t) (names : List ν) (hp : IsOrdering shape names) :
    (∃ a, t.view.access names = some a ∧
      a.shape = (reordered (ofData shape data) names).shape ∧
      a.iter = (materialise (reordered (ofData shape data) names)).elems) ∧
    (∃ x, t.view.transposeView names = some x ∧
      x.shape = (transposed (ofData shape data) names).shape ∧
      x.iter = (materialise (transposed (ofData shape data) names)).elems) := by
  have hv := view_valid shape data t ht
  have he := view_equiv_ofData shape data t ht
  have hs : t.view.shape = shape := he.1
  obtain ⟨a, ha, hal⟩ := t.view.access_of_ordering names hv.shape.1 (hs ▸ hp)
  have hsh : a.shape = shapeFor shape names := by
    have := congrArg LazyView.shape hal
    simpa [reordered, hs] using this
  have hit : a.iter = (materialise (reordered (ofData shape data) names)).elems := by
    rw [a.iter_eq, hal, materialise_congr (reordered_congr he names)]
  refine ⟨⟨a, ha, hsh, hit⟩,
    ⟨{ shape := setNames a.shape (t.view.shape.map (·.1)), get := a.get },
      by simp only [TView.transposeView, ha], ?_, ?_⟩⟩
  · simp only [transposed, setNames_eq_withNames, ofData_shape, hsh, hs]
  · have hget : a.get = (reordered t.view.lazy names).get := congrArg LazyView.get hal
    rw [TView.iter_eq]
    have hp' : IsOrdering (ofData shape data).shape names := hp
    rw [elems_of_same_lens (transposed (ofData shape data) names) (reordered (ofData shape data) names)
      (transposed_lens _ names hp') rfl, ← hit, a.iter_eq]
    apply elems_of_same_lens
    · simp only [TView.lazy_shape, setNames_eq_withNames]
      have hl : names.length = shape.length := by simpa using hp.length_eq
      exact withNames_map_snd _ _ (by simp [hsh, shapeFor_length, hs, hl])
    · rfl

/-- what is seen through `TensorAccess` / `TensorTranspose` after an in-place map through the
    access (`TensorAccess::map_mut*`, the mutable iterators and getters) -/
theorem write_access_eq [Inhabited ν] (f : List Nat → α → α) (shape : Shape ν) (data : List α)
    (t : Tensor ν α) (ht : Tensor.tryFrom shape data = some t) (names : List ν) (a : Access ν α)
    (ha : t.indexBy names = some a) :
    (∃ r, (a.mapMutWithIndex f).view.access names = some r ∧
      r.shape = (reordered (ofData shape data) names).shape ∧
      r.iter = (materialise (mappedWithIndex f (reordered (ofData shape data) names))).elems) ∧
    (∃ x, (a.mapMutWithIndex f).view.transposeView names = some x ∧
      x.shape = (transposed (ofData shape data) names).shape ∧
      x.iter = (materialise (mappedWithIndex f (transposed (ofData shape data) names))).elems) := by
  obtain ⟨hp, _⟩ := indexBy_eq_some shape data t names a ht ha
  have hp' : IsOrdering shape names := hp
  obtain ⟨d', hd', hm⟩ := Access.mapMutWithIndex_eq f shape data t ht names a ha
  obtain ⟨⟨r, hr, hrs, hri⟩, ⟨x, hx, hxs, hxi⟩⟩ :=
    read_access_eq shape d' (a.mapMutWithIndex f) hd' names hp'
  have he : (materialise (reordered (ofData shape d') names)).elems =
      (materialise (mappedWithIndex f (reordered (ofData shape data) names))).elems :=
    congrArg TVal.elems hm
  refine ⟨⟨r, hr, hrs, by rw [hri, he]⟩, ⟨x, hx, hxs, ?_⟩⟩
  rw [hxi, elems_of_same_lens (transposed (ofData shape d') names) (reordered (ofData shape d') names)
    (transposed_lens _ names hp') rfl, he]
  apply elems_of_same_lens
  · simp only [mappedWithIndex]
    exact (transposed_lens (ofData shape data) names hp').symm
  · rfl

/-- … and through the tensor itself (`Tensor::map_mut_with_index`, its mutable iterators) -/
theorem write_tensor_eq (f : List Nat → α → α) (shape : Shape ν) (data : List α) (t : Tensor ν α)
    (ht : Tensor.tryFrom shape data = some t) :
    (t.mapMutWithIndex f).view.shape = shape ∧
    (t.mapMutWithIndex f).view.iter =
      (materialise (mappedWithIndex f (ofData shape data))).elems := by
  rw [Tensor.mapMutWithIndex_eq f shape data t ht, Tensor.mapWithIndex_eq f shape data t ht]
  have hv := mappedWithIndex_valid (ofData_valid shape data t ht) f
  refine ⟨rfl, ?_⟩
  rw [TView.iter_eq]
  have he : (Tensor.ofVal (materialise (mappedWithIndex f (ofData shape data)))).view.lazy.Equiv
      (mappedWithIndex f (ofData shape data)) := ⟨rfl, fun idx hlen => hv.ofVal_get idx hlen⟩
  rw [materialise_congr he]

end EasyMl
