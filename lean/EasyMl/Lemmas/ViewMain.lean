/-
  EasyMl.Lemmas.ViewMain — the main induction of C02: for every well-formed view (any depth,
  any width) the shape is valid and the code-shaped `View.get` returns exactly the documented
  `View.specGet`, with no panic outcome, for all coordinates up to `usize::MAX`.
-/
import EasyMl.Lemmas.ViewReorder
import EasyMl.Lemmas.ViewExpansion

namespace EasyMl
open EasyMl.Spec EasyMl.View

set_option linter.unusedSectionVars false

variable {ν : Type} [DecidableEq ν] [Inhabited ν] {α : Type}

/-! ### lists of sources -/

theorem shapes_eq_map (ss : List (View ν α)) : shapes ss = ss.map View.shape := by
  induction ss with
  | nil => simp [shapes]
  | cons v vs ih => simp [shapes, ih]

theorem WFs_iff (ss : List (View ν α)) : WFs ss ↔ ∀ s ∈ ss, s.WF := by
  induction ss with
  | nil => simp [WFs]
  | cons v vs ih => simp [WFs, ih]

theorem getAt_eq (ss : List (View ν α)) (k : Nat) (idx : List Nat) :
    getAt ss k idx = match ss[k]? with
      | some v => v.get idx
      | none => .ok none := by
  induction ss generalizing k with
  | nil => simp [getAt]
  | cons v vs ih =>
    cases k with
    | zero => simp [getAt]
    | succ k => simp [getAt, ih]

theorem specCellAt_eq (ss : List (View ν α)) (k : Nat) (idx : List Nat) :
    specCellAt ss k idx = match ss[k]? with
      | some v => v.specCell idx
      | none => none := by
  induction ss generalizing k with
  | nil => simp [specCellAt]
  | cons v vs ih =>
    cases k with
    | zero => simp [specCellAt]
    | succ k => simp [specCellAt, ih]

theorem rangeShape_length {sh : Shape ν} {rs : List IndexRange} (h : RangesOK sh rs) :
    (rangeShape sh rs).length = sh.length := by
  have := congrArg List.length (rangeShape_names h); simpa using this

theorem maskShape_length {sh : Shape ν} {ms : List IndexRange} (h : MasksOK sh ms) :
    (maskShape sh ms).length = sh.length := by
  have := congrArg List.length (maskShape_names h); simpa using this

theorem renameShape_length {sh : Shape ν} {ns : List ν} (h : ns.length = sh.length) :
    (renameShape sh ns).length = sh.length := by
  have := congrArg List.length (renameShape_lens h); simpa using this

theorem transposeShape_length {a b : Shape ν} (h : b.length = a.length) :
    (transposeShape a b).length = a.length := by
  have := congrArg List.length (transposeShape_names h); simpa using this

/-- What the induction establishes for one view. -/
def Correct (v : View ν α) : Prop :=
  GoodShape v.shape ∧
  ∀ idx : List Nat, idx.length = v.shape.length → Bounded idx → v.get idx = .ok (v.specGet idx)

/-- asking a correct source with an index of the right arity -/
theorem Correct.get_eq {s : View ν α} (h : Correct s) {mapped : List Nat}
    (hl : mapped.length = s.shape.length) (hb : Bounded mapped) :
    s.get mapped = .ok (if inBounds (lens s.shape) mapped then s.specCell mapped else none) := by
  rw [h.2 mapped hl hb]; rfl

theorem correct_tensor (id : Nat) (t : Tensor ν α) (hw : (View.tensor id t).WF) :
    Correct (View.tensor id t) := by
  simp only [View.WF] at hw
  refine ⟨by simpa [View.shape] using tensor_shape_good t hw, ?_⟩
  intro idx hl _
  simp only [View.shape] at hl
  simp only [View.get, View.specGet, View.shape, View.specCell, tensorGet_eq id t idx hw hl]
  rfl

theorem correct_matrix (id : Nat) (m : Matrix α) (r c : ν) (hw : (View.matrix id m r c).WF) :
    Correct (View.matrix id m r c) := by
  simp only [View.WF] at hw
  obtain ⟨hinv, hrc, hmax⟩ := hw
  constructor
  · simp only [View.shape, goodShape_cons, namesOf_cons, namesOf_nil, List.mem_cons,
      List.not_mem_nil, or_false, not_false_eq_true, true_and]
    obtain ⟨hd, hr, hc⟩ := hinv
    have h1 : m.rows ≤ m.rows * m.columns := Nat.le_mul_of_pos_right _ hc
    have h2 : m.columns ≤ m.rows * m.columns := Nat.le_mul_of_pos_left _ hr
    exact ⟨hrc, hr, by omega, hc, by omega, goodShape_nil⟩
  · intro idx hl _
    simp only [View.shape, List.length_cons, List.length_nil] at hl
    simp only [View.get, View.specGet, View.shape, View.specCell, matrixGet_eq id m idx hinv hl,
      lens_cons, lens_nil]
    rfl

theorem pair_of_length_two {idx : List Nat} (h : idx.length = 2) :
    [idx.getD 0 0, idx.getD 1 0] = idx := by
  match idx, h with
  | [a, b], _ => rfl

theorem shape_pair_of_length_two {sh : Shape ν} (h : sh.length = 2) :
    [sh.getD 0 (default, 0), sh.getD 1 (default, 0)] = sh := by
  match sh, h with
  | [a, b], _ => rfl

theorem matrixOf_lens (s : View ν α) (r c : ν) (h : s.shape.length = 2) :
    lens (View.matrixOf s r c).shape = lens s.shape := by
  have := shape_pair_of_length_two h
  conv => rhs; rw [← this]
  simp [View.shape]

theorem correct_matrixOf (s : View ν α) (r c : ν) (ih : s.WF → Correct s)
    (hw : (View.matrixOf s r c).WF) : Correct (View.matrixOf s r c) := by
  simp only [View.WF] at hw
  have hs := ih hw.1
  have hl2 := hw.2.1
  constructor
  · have hg := goodShape_iff.1 hs.1
    rw [goodShape_iff, matrixOf_lens s r c hl2]
    refine ⟨?_, hg.2⟩
    simp only [View.shape, namesOf_cons, namesOf_nil, List.nodup_cons, List.mem_cons, List.not_mem_nil,
      or_false, not_false_eq_true, List.nodup_nil, and_true]
    exact hw.2.2
  · intro idx hl hbd
    simp only [View.shape, List.length_cons, List.length_nil] at hl
    have hl' : idx.length = s.shape.length := by omega
    simp only [View.get, View.specGet, View.specCell, matrixOf_lens s r c hl2,
      pair_of_length_two (by omega : idx.length = 2)]
    rw [hs.get_eq hl' hbd]

theorem correct_tmap (s : View ν α) (ih : s.WF → Correct s) (hw : (View.tmap s).WF) :
    Correct (View.tmap s) := by
  simp only [View.WF] at hw
  have hs := ih hw
  refine ⟨by simpa [View.shape] using hs.1, ?_⟩
  intro idx hl hbd
  simp only [View.shape] at hl
  simp only [View.get, View.specGet, View.shape, View.specCell]
  rw [hs.get_eq hl hbd]
  rfl

theorem correct_range (s : View ν α) (rs : List IndexRange) (ih : s.WF → Correct s)
    (hw : (View.range s rs).WF) : Correct (View.range s rs) := by
  simp only [View.WF] at hw
  have hs := ih hw.1
  refine ⟨by simpa [View.shape] using rangeShape_good hs.1 hw.2, ?_⟩
  intro idx hl _
  simp only [View.shape, rangeShape_length hw.2] at hl
  simp only [View.get, View.specGet, View.shape, View.specCell,
    mapIndexesByRange_eq hs.1 hw.2 hl]
  by_cases hb : inBounds (lens (rangeShape s.shape rs)) idx = true
  · have hin := rangeCoords_inBounds hw.2 hb
    have hlen := inBounds_length hin
    simp only [lens_length] at hlen
    simp only [hb, if_true, obind_some]
    rw [hs.get_eq hlen (bounded_of_inBounds hin hs.1.lens_le)]
    simp [hin]
  · simp [hb]

theorem correct_mask (s : View ν α) (ms : List IndexRange) (ih : s.WF → Correct s)
    (hw : (View.mask s ms).WF) : Correct (View.mask s ms) := by
  simp only [View.WF] at hw
  have hs := ih hw.1
  refine ⟨by simpa [View.shape] using maskShape_good hs.1 hw.2, ?_⟩
  intro idx hl hbd
  simp only [View.shape, maskShape_length hw.2] at hl
  have hspec := mapIndexesByMaskChecked_spec hs.1 hw.2 hl hbd
  simp only [View.get, View.specGet, View.shape, View.specCell]
  cases hm : mapIndexesByMaskChecked idx ms with
  | none => simp only [hm] at hspec; simp [hspec]
  | some mapped =>
    simp only [hm] at hspec
    obtain ⟨a, b, c, d⟩ := hspec
    simp only
    rw [hs.get_eq a b, c]
    by_cases hb : inBounds (lens (maskShape s.shape ms)) idx = true
    · simp [hb, d hb]
    · simp [hb]

theorem correct_index (s : View ν α) (p : List (Option Nat)) (ih : s.WF → Correct s)
    (hw : (View.index s p).WF) : Correct (View.index s p) := by
  simp only [View.WF] at hw
  have hs := ih hw.1
  refine ⟨by simpa [View.shape] using indexShape_good hs.1, ?_⟩
  intro idx hl hbd
  simp only [View.shape] at hl
  obtain ⟨a, b, c, d⟩ := computeSelectIndexes_spec hs.1 hw.2 hl hbd
  simp only [View.get, View.specGet, View.shape, View.specCell, a]
  rw [hs.get_eq b c, d]
  rfl

theorem correct_expansion (s : View ν α) (e : List (Nat × ν)) (ih : s.WF → Correct s)
    (hw : (View.expansion s e).WF) : Correct (View.expansion s e) := by
  simp only [View.WF] at hw
  have hs := ih hw.1
  obtain ⟨hsorted, hpos, hnodup, hfresh⟩ := hw.2
  refine ⟨by simpa [View.shape] using expansionShape_good _ e s.shape 0 hs.1 hnodup hfresh, ?_⟩
  intro idx hl hbd
  have hlen := expansionShape_length e s.shape 0 hsorted
    (fun x hx => ⟨Nat.zero_le _, by simpa using hpos x hx⟩)
  simp only [View.shape, hlen] at hl
  have hspec := computeExpansionIndexes_spec (e.map (·.2)) s.shape.length idx e s.shape 0
    (by simp) hsorted (fun x hx => ⟨Nat.zero_le _, hpos x hx⟩)
    (fun x hx => List.mem_map.2 ⟨x, hx, rfl⟩)
    (fun d hd hc => by
      obtain ⟨x, hx, hxe⟩ := List.mem_map.1 hc
      exact hfresh x hx (by rw [hxe]; exact List.mem_map.2 ⟨d, hd, rfl⟩))
    hl hbd
  simp only [View.get, View.specGet, View.shape, View.specCell]
  cases hc : computeExpansionIndexes s.shape.length e idx 0 with
  | panic k => simp [hc] at hspec
  | ok o =>
    cases o with
    | none => simp only [hc] at hspec; simp [hspec]
    | some used =>
      simp only [hc] at hspec
      obtain ⟨a, b, c, d⟩ := hspec
      simp only [obind_some]
      rw [hs.get_eq a b, c, ← d]
      rfl

theorem correct_rename (s : View ν α) (ns : List ν) (ih : s.WF → Correct s)
    (hw : (View.rename s ns).WF) : Correct (View.rename s ns) := by
  simp only [View.WF] at hw
  have hs := ih hw.1
  refine ⟨by simpa [View.shape] using renameShape_good hs.1 hw.2.1 hw.2.2, ?_⟩
  intro idx hl hbd
  simp only [View.shape, renameShape_length hw.2.1] at hl
  simp only [View.get, View.specGet, View.shape, View.specCell, renameShape_lens hw.2.1]
  rw [hs.get_eq hl hbd]

theorem correct_reverse (s : View ν α) (r : List Bool) (ih : s.WF → Correct s)
    (hw : (View.reverse s r).WF) : Correct (View.reverse s r) := by
  simp only [View.WF] at hw
  have hs := ih hw.1
  refine ⟨by simpa [View.shape] using hs.1, ?_⟩
  intro idx hl hbd
  simp only [View.shape] at hl
  have hspec := tryReverseIndexes_spec (ls := lens s.shape) (r := r) (idx := idx)
    (by simpa using hw.2) (by simpa using hl) hbd hs.1.lens_le
  simp only [View.get, View.specGet, View.shape, View.specCell]
  cases hm : tryReverseIndexes idx (lens s.shape) r with
  | none => simp only [hm] at hspec; simp [hspec]
  | some mapped =>
    simp only [hm] at hspec
    obtain ⟨a, b, c, d⟩ := hspec
    simp only
    rw [hs.get_eq (by simpa using a) b, c]
    by_cases hb : inBounds (lens s.shape) idx = true
    · simp [hb, d hb]
    · simp [hb]

theorem correct_access (s : View ν α) (m : DimensionMappings) (ih : s.WF → Correct s)
    (hw : (View.access s m).WF) : Correct (View.access s m) := by
  simp only [View.WF] at hw
  have hs := ih hw.1
  refine ⟨by simpa [View.shape] using mapShapeToRequested_good hs.1 hw.2, ?_⟩
  intro idx hl hbd
  simp only [View.shape, mapShapeToRequested_length hw.2] at hl
  simp only [View.get, View.specGet, View.shape, View.specCell]
  rw [hs.get_eq (mapDimensionsToSource_length hw.2 idx) (mapDimensionsToSource_bounded hbd),
    access_inBounds hw.2 hl, mapDimensionsToSource_eq_coords_of_good hs.1 hw.2]
  rfl

theorem correct_transpose (s : View ν α) (m : DimensionMappings) (ih : s.WF → Correct s)
    (hw : (View.transpose s m).WF) : Correct (View.transpose s m) := by
  simp only [View.WF] at hw
  have hs := ih hw.1
  have hlen := mapShapeToRequested_length hw.2
  refine ⟨by simpa [View.shape] using
    transposeShape_good hs.1 (mapShapeToRequested_good hs.1 hw.2) hlen, ?_⟩
  intro idx hl hbd
  simp only [View.shape, transposeShape_length hlen] at hl
  simp only [View.get, View.specGet, View.shape, View.specCell, transposeShape_lens hlen]
  rw [hs.get_eq (mapDimensionsToSource_length hw.2 idx) (mapDimensionsToSource_bounded hbd),
    access_inBounds hw.2 hl, mapDimensionsToSource_eq_coords_of_good hs.1 hw.2]

theorem headD_mem_shapes {ss : List (View ν α)} (h : ss ≠ []) :
    (shapes ss).headD [] ∈ shapes ss := by
  cases ss with
  | nil => exact absurd rfl h
  | cons v vs => simp [shapes]

theorem correct_stack (ss : List (View ν α)) (along : Nat × ν)
    (ih : ∀ s ∈ ss, s.WF → Correct s) (hw : (View.stack ss along).WF) :
    Correct (View.stack ss along) := by
  simp only [View.WF] at hw
  obtain ⟨hwfs, hne, hn, hsame, ha, hfresh⟩ := hw
  rw [WFs_iff] at hwfs
  -- the common shape of the sources
  have hfirst_mem := headD_mem_shapes hne
  generalize hf : (shapes ss).headD [] = first at *
  have hshape : ∀ s ∈ ss, s.shape = first := by
    intro s hs
    exact hsame s.shape (by rw [shapes_eq_map]; exact List.mem_map.2 ⟨s, hs, rfl⟩)
  have hfirst_good : GoodShape first := by
    rw [shapes_eq_map] at hfirst_mem
    obtain ⟨s, hs, rfl⟩ := List.mem_map.1 hfirst_mem
    exact (ih s hs (hwfs s hs)).1
  have hpos : 1 ≤ ss.length := by
    cases ss with
    | nil => exact absurd rfl hne
    | cons _ _ => simp
  have hsh : (View.stack ss along).shape = first.insertIdx along.1 (along.2, ss.length) := by
    simp only [View.shape, hf]
    have := stackShape_eq along ss.length first 0 (Nat.zero_le _) (by simpa using ha)
    simpa using this
  refine ⟨by rw [hsh]; exact insertIdx_good hfirst_good _ _ ha hfresh hpos hn, ?_⟩
  intro idx hl hbd
  rw [hsh, List.length_insertIdx_of_le_length ha] at hl
  simp only [View.get, View.specGet, View.specCell, hsh, stackIndexing, stackRest_eq along.1 idx 0 (Nat.zero_le _),
    Nat.sub_zero, getAt_eq, specCellAt_eq, lens_insertIdx,
    insertIdx_inBounds (lens first) along.1 ss.length idx (by simpa using ha) (by simpa using hl)]
  by_cases hk : idx.getD along.1 0 < ss.length
  · have hget : ss[idx.getD along.1 0]? = some ss[idx.getD along.1 0] := List.getElem?_eq_getElem hk
    have hv := List.getElem_mem hk
    have hc := ih _ hv (hwfs _ hv)
    have hvs := hshape _ hv
    have hlen : (idx.eraseIdx along.1).length = (ss[idx.getD along.1 0]).shape.length := by
      have : along.1 < idx.length := by omega
      rw [hvs, List.length_eraseIdx, if_pos this]
      omega
    have hbe : Bounded (idx.eraseIdx along.1) :=
      fun i hi => hbd i (List.mem_of_mem_eraseIdx hi)
    simp only [hget, hk, decide_true, Bool.true_and]
    rw [hc.get_eq hlen hbe, hvs]
  · have hget : ss[idx.getD along.1 0]? = none := List.getElem?_eq_none (by omega)
    simp only [hget, hk, decide_false, Bool.false_and]
    rfl

theorem mem_le_sum {l : List Nat} {x : Nat} (h : x ∈ l) : x ≤ l.sum := by
  induction l with
  | nil => cases h
  | cons y ys ih =>
    simp only [List.mem_cons] at h
    simp only [List.sum_cons]
    rcases h with rfl | h
    · omega
    · have := ih h; omega

theorem chainLens_getD (ss : List (View ν α)) (a k : Nat) (hk : k < ss.length) :
    (chainLens (shapes ss) a).getD k 0 = ((ss[k]).shape.getD a (default, 0)).2 := by
  have h1 : k < (chainLens (shapes ss) a).length := by simp [chainLens, shapes_eq_map, hk]
  rw [getD_eq_getElem' h1]
  simp [chainLens, shapes_eq_map]

theorem correct_chain (ss : List (View ν α)) (along : Nat)
    (ih : ∀ s ∈ ss, s.WF → Correct s) (hw : (View.chain ss along).WF) :
    Correct (View.chain ss along) := by
  simp only [View.WF] at hw
  obtain ⟨hwfs, hne, ha, hsim, hsum⟩ := hw
  rw [WFs_iff] at hwfs
  have hfirst_mem := headD_mem_shapes hne
  generalize hf : (shapes ss).headD [] = first at *
  have hsimv : ∀ s ∈ ss, Similar along s.shape first := by
    intro s hs
    exact hsim s.shape (by rw [shapes_eq_map]; exact List.mem_map.2 ⟨s, hs, rfl⟩)
  have hfirst_good : GoodShape first := by
    rw [shapes_eq_map] at hfirst_mem
    obtain ⟨s, hs, rfl⟩ := List.mem_map.1 hfirst_mem
    exact (ih s hs (hwfs s hs)).1
  have hsh : (View.chain ss along).shape =
      first.set along ((first.getD along (default, 0)).1, (chainLens (shapes ss) along).sum) := by
    simp only [View.shape, hf]
    exact chainShape_eq first (shapes ss) along ha
  have hsum1 : 1 ≤ (chainLens (shapes ss) along).sum := by
    have h1 : (first.getD along (default, 0)).2 ∈ chainLens (shapes ss) along := by
      simp only [chainLens, List.mem_map]; exact ⟨first, hfirst_mem, rfl⟩
    have h2 : 1 ≤ (first.getD along (default, 0)).2 := by
      rw [getD_eq_getElem' ha]
      exact hfirst_good.1.2 _ (List.getElem_mem ha)
    have := mem_le_sum h1
    omega
  refine ⟨by rw [hsh]; exact set_good hfirst_good _ _ hsum1 hsum, ?_⟩
  intro idx hl hbd
  rw [hsh, List.length_set] at hl
  have hloc := chainLocate_spec (chainLens (shapes ss) along) (idx.getD along 0)
  have hlenl : (lens first).length = first.length := lens_length first
  simp only [View.get, View.specGet, View.specCell, hsh, chainIndexing, chainIndexingGo_eq, lens_set,
    getAt_eq, specCellAt_eq]
  rw [show (List.map (fun s => (s.getD along (default, 0)).2) (shapes ss)) = chainLens (shapes ss) along from rfl]
  cases hc : chainLocate (chainLens (shapes ss) along) (idx.getD along 0) with
  | none => simp
  | some p =>
    obtain ⟨k, j⟩ := p
    simp only [hc] at hloc
    obtain ⟨hk, hj, hpre, hlt⟩ := hloc
    have hk' : k < ss.length := by simpa [chainLens, shapes_eq_map] using hk
    have hget : ss[k]? = some ss[k] := List.getElem?_eq_getElem hk'
    have hv := List.getElem_mem hk'
    have hcor := ih _ hv (hwfs _ hv)
    obtain ⟨hnames, hlens⟩ := hsimv _ hv
    have hshlen : (ss[k]).shape.length = first.length := by
      have := congrArg List.length hnames; simpa using this
    rw [chainLens_getD ss along k hk'] at hj
    have hbs : Bounded (idx.set along j) := by
      intro i hi
      rcases List.mem_or_eq_of_mem_set hi with h | h
      · exact hbd i h
      · have := hbd.getD along; omega
    simp only [Option.map_some, Nat.zero_add, hget]
    rw [hcor.get_eq (by rw [List.length_set, hl, hshlen]) hbs, hlens]
    have e1 := inBounds_set_set (lens first) idx along ((ss[k]).shape.getD along (default, 0)).2 j
      (by rw [hlenl]; exact hl)
    have e2 := inBounds_set_set (lens first) idx along (chainLens (shapes ss) along).sum
      (idx.getD along 0) (by rw [hlenl]; exact hl)
    rw [set_getD_self] at e2
    rw [e1, e2]
    have d1 : decide (j < ((ss[k]).shape.getD along (default, 0)).2 ∨ (lens first).length ≤ along) = true := by
      simp only [decide_eq_true_eq]; exact Or.inl hj
    have d2 : decide (idx.getD along 0 < (chainLens (shapes ss) along).sum ∨ (lens first).length ≤ along) = true := by
      simp only [decide_eq_true_eq]; exact Or.inl hlt
    rw [d1, d2]

/-- the matrix-side range has the cells and the shape of the tensor range with the same two ranges -/
theorem correct_mrange (s : View ν α) (rows columns : IndexRange) (ih : s.WF → Correct s)
    (hw : (View.mrange s rows columns).WF) : Correct (View.mrange s rows columns) := by
  simp only [View.WF] at hw
  have h : Correct (View.range s [rows, columns]) :=
    correct_range s [rows, columns] ih (by simp only [View.WF]; exact ⟨hw.1, hw.2.2⟩)
  exact h

theorem correct_mreverse (s : View ν α) (rows columns : Bool) (ih : s.WF → Correct s)
    (hw : (View.mreverse s rows columns).WF) : Correct (View.mreverse s rows columns) := by
  simp only [View.WF] at hw
  have h : Correct (View.reverse s [rows, columns]) :=
    correct_reverse s [rows, columns] ih (by simp only [View.WF]; exact ⟨hw.1, by simp [hw.2]⟩)
  exact h

/-- **Main induction.**  Every well-formed view has a valid shape and resolves every index tuple
    exactly as documented, without panicking. -/
theorem View.correct (v : View ν α) : v.WF → Correct v := by
  induction v using View.ind with
  | tensor id t => exact correct_tensor id t
  | matrix id m r c => exact correct_matrix id m r c
  | matrixOf s r c ih => exact correct_matrixOf s r c ih
  | mrange s rows columns ih => exact correct_mrange s rows columns ih
  | mreverse s rows columns ih => exact correct_mreverse s rows columns ih
  | tmap s ih => exact correct_tmap s ih
  | range s rs ih => exact correct_range s rs ih
  | mask s ms ih => exact correct_mask s ms ih
  | index s p ih => exact correct_index s p ih
  | expansion s e ih => exact correct_expansion s e ih
  | rename s ns ih => exact correct_rename s ns ih
  | reverse s r ih => exact correct_reverse s r ih
  | access s m ih => exact correct_access s m ih
  | transpose s m ih => exact correct_transpose s m ih
  | stack ss along ih => exact correct_stack ss along ih
  | chain ss along ih => exact correct_chain ss along ih

end EasyMl
