/-
  EasyMl.Lemmas.ViewWrite — writing through a view (`*view.get_reference_mut(idx)? = x`):
  `View.setCell` leaves the shape and the whole index mapping of the view untouched and changes
  exactly one element of one leaf.
-/
import EasyMl.Lemmas.ViewUnchecked

namespace EasyMl
open EasyMl.Spec EasyMl.View

set_option linter.unusedSectionVars false

variable {ν : Type} [DecidableEq ν] [Inhabited ν] {α : Type}

/-- what a write of `x` into cell `c` does to one leaf -/
def updLeaf (c : Cell) (x : α) (leaf : Nat × List α) : Nat × List α :=
  if leaf.1 = c.1 then (leaf.1, leaf.2.set c.2 x) else leaf

/-- the structure (shape, index mapping) of a view does not depend on the stored elements -/
def SameStructure (c : Cell) (x : α) (v : View ν α) : Prop :=
  (v.setCell c x).shape = v.shape ∧
  (∀ idx, (v.setCell c x).get idx = v.get idx) ∧
  (v.setCell c x).leaves = v.leaves.map (updLeaf c x)

theorem setCellList_eq_map (c : Cell) (x : α) (ss : List (View ν α)) :
    setCellList c x ss = ss.map (setCell c x) := by
  induction ss with
  | nil => simp [setCellList]
  | cons v vs ih => simp [setCellList, ih]

theorem shapes_setCellList (c : Cell) (x : α) (ss : List (View ν α))
    (h : ∀ s ∈ ss, SameStructure c x s) : shapes (setCellList c x ss) = shapes ss := by
  rw [setCellList_eq_map, shapes_eq_map, shapes_eq_map, List.map_map]
  apply List.map_congr_left
  intro s hs
  exact (h s hs).1

theorem leavesList_setCellList (c : Cell) (x : α) (ss : List (View ν α))
    (h : ∀ s ∈ ss, SameStructure c x s) :
    leavesList (setCellList c x ss) = (leavesList ss).map (updLeaf c x) := by
  induction ss with
  | nil => simp [setCellList, leavesList]
  | cons v vs ih =>
    simp only [setCellList, leavesList, List.map_append]
    rw [(h v (by simp)).2.2, ih (fun s hs => h s (by simp [hs]))]

theorem View.sameStructure (c : Cell) (x : α) (v : View ν α) : SameStructure c x v := by
  induction v using View.ind with
  | tensor id t =>
    refine ⟨?_, ?_, ?_⟩
    · simp only [View.setCell]; split <;> rfl
    · intro idx
      simp only [View.setCell]
      split
      · simp [View.get, tensorGet, Tensor.offset]
      · rfl
    · simp only [View.setCell, View.leaves, List.map_cons, List.map_nil, updLeaf]
      split <;> simp [View.leaves]
  | matrix id m r cn =>
    refine ⟨?_, ?_, ?_⟩
    · simp only [View.setCell]; split <;> rfl
    · intro idx
      simp only [View.setCell]
      split
      · simp [View.get, matrixGet, Matrix.getIndex]
      · rfl
    · simp only [View.setCell, View.leaves, List.map_cons, List.map_nil, updLeaf]
      split <;> simp [View.leaves]
  | matrixOf s r cn ih =>
    exact ⟨by simp [View.setCell, View.shape, ih.1], by intro idx; simp [View.setCell, View.get, ih.2.1],
      by simp [View.setCell, View.leaves, ih.2.2]⟩
  | mrange s rows columns ih =>
    exact ⟨by simp [View.setCell, View.shape, ih.1], by intro idx; simp [View.setCell, View.get, ih.2.1],
      by simp [View.setCell, View.leaves, ih.2.2]⟩
  | mreverse s rows columns ih =>
    exact ⟨by simp [View.setCell, View.shape, ih.1],
      by intro idx; simp [View.setCell, View.get, ih.2.1, ih.1],
      by simp [View.setCell, View.leaves, ih.2.2]⟩
  | tmap s ih =>
    exact ⟨by simp [View.setCell, View.shape, ih.1], by intro idx; simp [View.setCell, View.get, ih.2.1],
      by simp [View.setCell, View.leaves, ih.2.2]⟩
  | range s rs ih =>
    exact ⟨by simp [View.setCell, View.shape, ih.1], by intro idx; simp [View.setCell, View.get, ih.2.1],
      by simp [View.setCell, View.leaves, ih.2.2]⟩
  | mask s ms ih =>
    exact ⟨by simp [View.setCell, View.shape, ih.1], by intro idx; simp [View.setCell, View.get, ih.2.1],
      by simp [View.setCell, View.leaves, ih.2.2]⟩
  | index s p ih =>
    exact ⟨by simp [View.setCell, View.shape, ih.1], by intro idx; simp [View.setCell, View.get, ih.2.1],
      by simp [View.setCell, View.leaves, ih.2.2]⟩
  | expansion s e ih =>
    exact ⟨by simp [View.setCell, View.shape, ih.1],
      by intro idx; simp [View.setCell, View.get, ih.2.1, ih.1],
      by simp [View.setCell, View.leaves, ih.2.2]⟩
  | rename s ns ih =>
    exact ⟨by simp [View.setCell, View.shape, ih.1], by intro idx; simp [View.setCell, View.get, ih.2.1],
      by simp [View.setCell, View.leaves, ih.2.2]⟩
  | reverse s r ih =>
    exact ⟨by simp [View.setCell, View.shape, ih.1],
      by intro idx; simp [View.setCell, View.get, ih.2.1, ih.1],
      by simp [View.setCell, View.leaves, ih.2.2]⟩
  | access s m ih =>
    exact ⟨by simp [View.setCell, View.shape, ih.1], by intro idx; simp [View.setCell, View.get, ih.2.1],
      by simp [View.setCell, View.leaves, ih.2.2]⟩
  | transpose s m ih =>
    exact ⟨by simp [View.setCell, View.shape, ih.1], by intro idx; simp [View.setCell, View.get, ih.2.1],
      by simp [View.setCell, View.leaves, ih.2.2]⟩
  | stack ss along ih =>
    have hsh := shapes_setCellList c x ss ih
    refine ⟨?_, ?_, ?_⟩
    · have hlen : (setCellList c x ss).length = ss.length := by simp [setCellList_eq_map]
      simp only [View.setCell, View.shape, hsh, hlen]
    · intro idx
      simp only [View.setCell, View.get, getAt_eq, setCellList_eq_map, List.getElem?_map]
      cases hk : ss[(stackIndexing idx along.1).1]? with
      | none => simp
      | some v => simp [(ih v (List.mem_of_getElem? hk)).2.1]
    · simp [View.setCell, View.leaves, leavesList_setCellList c x ss ih]
  | chain ss along ih =>
    have hsh := shapes_setCellList c x ss ih
    refine ⟨?_, ?_, ?_⟩
    · simp [View.setCell, View.shape, hsh]
    · intro idx
      simp only [View.setCell, View.get, hsh]
      cases hc : chainIndexing idx (shapes ss) along with
      | none => rfl
      | some p =>
        simp only [getAt_eq, setCellList_eq_map, List.getElem?_map]
        cases hk : ss[p.1]? with
        | none => simp
        | some v => simp [(ih v (List.mem_of_getElem? hk)).2.1]
    · simp [View.setCell, View.leaves, leavesList_setCellList c x ss ih]

/-! ### reading back -/

theorem find_map_updLeaf (c : Cell) (x : α) (l : List (Nat × List α)) (i : Nat) :
    (l.map (updLeaf c x)).find? (·.1 == i) = (l.find? (·.1 == i)).map (updLeaf c x) := by
  induction l with
  | nil => simp
  | cons y ys ih =>
    have h1 : (updLeaf c x y).1 = y.1 := by simp only [updLeaf]; split <;> rfl
    simp only [List.map_cons, List.find?_cons, h1]
    split
    · simp
    · exact ih

theorem find_of_nodup {l : List (Nat × List α)} (hn : (l.map (·.1)).Nodup) {i : Nat} {d : List α}
    (hm : (i, d) ∈ l) : l.find? (·.1 == i) = some (i, d) := by
  induction l with
  | nil => cases hm
  | cons y ys ih =>
    simp only [List.map_cons, List.nodup_cons] at hn
    simp only [List.mem_cons] at hm
    simp only [List.find?_cons]
    rcases hm with rfl | hm
    · simp
    · have : y.1 ≠ i := by
        intro he
        exact hn.1 (by rw [he]; exact List.mem_map.2 ⟨(i, d), hm, rfl⟩)
      have hb : (y.1 == i) = false := by simpa using this
      rw [hb]
      exact ih hn.2 hm

/-- after the write the written cell holds `x`, every other cell what it held before -/
theorem lookup_setCell (v : View ν α) (hn : v.leafIds.Nodup) (c : Cell) (x : α) {data : List α}
    (hm : (c.1, data) ∈ v.leaves) (hlt : c.2 < data.length) (c' : Cell) :
    (v.setCell c x).lookup c' = if c' = c then some x else v.lookup c' := by
  simp only [View.lookup, (View.sameStructure c x v).2.2, find_map_updLeaf]
  by_cases h1 : c'.1 = c.1
  · have hf := find_of_nodup hn hm
    rw [h1, hf]
    simp only [Option.map_some, updLeaf, if_true]
    by_cases h2 : c'.2 = c.2
    · have : c' = c := Prod.ext h1 h2
      simp [this, hlt]
    · have : c' ≠ c := fun h => h2 (by rw [h])
      simp only [this, if_false]
      rw [List.getElem?_set_ne (by omega)]
  · have : c' ≠ c := fun h => h1 (by rw [h])
    simp only [this, if_false]
    cases hf : v.leaves.find? (·.1 == c'.1) with
    | none => simp
    | some p =>
      have hp : p.1 = c'.1 := by
        have := List.find?_some hf; simpa using this
      have : p.1 ≠ c.1 := by rw [hp]; exact h1
      simp [updLeaf, this]

end EasyMl
