/-
  EasyMl.Lemmas.Iter — helper lemmas for C09 (iterators).
-/
import EasyMl.Model.Iter
import EasyMl.Spec.Iter
import EasyMl.Lemmas.Tensor

namespace EasyMl.Iter
open EasyMl EasyMl.Spec

/-! ### products -/

theorem prod_pos_of_all_pos (ls : List Nat) (h : ∀ l ∈ ls, 0 < l) : 0 < prod ls := by
  induction ls with
  | nil => simp
  | cons l ls ih =>
    rw [prod_cons]
    exact Nat.mul_pos (h l (by simp)) (ih fun x hx => h x (by simp [hx]))

theorem prod_eq_zero_of_mem (ls : List Nat) (h : 0 ∈ ls) : prod ls = 0 := by
  induction ls with
  | nil => simp at h
  | cons l ls ih =>
    rw [prod_cons]
    rcases List.mem_cons.mp h with h | h
    · subst h; simp
    · rw [ih h]; simp

theorem all_pos_of_prod_pos (ls : List Nat) (h : 0 < prod ls) : ∀ l ∈ ls, 0 < l := by
  intro l hl
  rcases Nat.eq_zero_or_pos l with h0 | h0
  · subst h0; rw [prod_eq_zero_of_mem ls hl] at h; omega
  · exact h0

theorem all_pos_of_inBounds (ls is : List Nat) (h : inBounds ls is = true) : ∀ l ∈ ls, 0 < l := by
  induction ls generalizing is with
  | nil => simp
  | cons l ls ih =>
    cases is with
    | nil => simp [inBounds] at h
    | cons i is =>
      simp only [inBounds, Bool.and_eq_true, decide_eq_true_eq] at h
      intro x hx
      rcases List.mem_cons.mp hx with hx | hx
      · subst hx; omega
      · exact ih is h.2 x hx

theorem inBounds_length (ls is : List Nat) (h : inBounds ls is = true) : is.length = ls.length := by
  induction ls generalizing is with
  | nil => cases is <;> simp_all [inBounds]
  | cons l ls ih =>
    cases is with
    | nil => simp [inBounds] at h
    | cons i is =>
      simp only [inBounds, Bool.and_eq_true] at h
      simp [ih is h.2]

/-! ### the carry pass preserves the mixed-radix value -/

/-- `carry_val`: on an in-bounds suffix the pass adds exactly one to the mixed-radix value,
    where a carry out of the suffix counts `prod ls`; the new suffix is in bounds again and the
    carry is 0 or 1. -/
theorem carry_val (ls is : List Nat) (h : inBounds ls is = true) :
    ravel ls (carry ls is).1 + (carry ls is).2 * prod ls = ravel ls is + 1 ∧
      inBounds ls (carry ls is).1 = true ∧ (carry ls is).2 ≤ 1 := by
  induction ls generalizing is with
  | nil =>
    cases is with
    | nil => simp [carry, ravel, inBounds]
    | cons _ _ => simp [inBounds] at h
  | cons l ls ih =>
    cases is with
    | nil => simp [inBounds] at h
    | cons i is =>
      simp only [inBounds, Bool.and_eq_true, decide_eq_true_eq] at h
      obtain ⟨hv, hb, hc⟩ := ih is h.2
      simp only [carry]
      by_cases heq : i + (carry ls is).2 = l
      · simp only [beq_iff_eq, heq, if_true, ravel, prod_cons, inBounds, hb, Bool.and_true,
          decide_eq_true_eq]
        refine ⟨?_, by omega, by omega⟩
        have : l * prod ls = i * prod ls + (carry ls is).2 * prod ls := by
          rw [← heq, Nat.add_mul]
        omega
      · simp only [beq_iff_eq, heq, if_false, ravel, prod_cons, inBounds, hb, Bool.and_true,
          decide_eq_true_eq]
        refine ⟨?_, by omega, by omega⟩
        rw [Nat.add_mul]; omega

theorem carry_length (ls is : List Nat) (h : is.length = ls.length) :
    (carry ls is).1.length = ls.length := by
  induction ls generalizing is with
  | nil => cases is <;> simp_all [carry]
  | cons l ls ih =>
    cases is with
    | nil => simp at h
    | cons i is =>
      simp only [List.length_cons, Nat.add_right_cancel_iff] at h
      simp only [carry]
      split <;> simp [ih is h]

/-! ### unravel -/

theorem unravel_inBounds (ls : List Nat) (k : Nat) (h : k < prod ls) :
    inBounds ls (unravel ls k) = true := by
  induction ls generalizing k with
  | nil => simp [unravel, inBounds]
  | cons l ls ih =>
    rw [prod_cons] at h
    have hp : 0 < prod ls := by
      rcases Nat.eq_zero_or_pos (prod ls) with h0 | h0
      · rw [h0] at h; simp at h
      · exact h0
    simp only [unravel, inBounds, Bool.and_eq_true, decide_eq_true_eq]
    refine ⟨?_, ih _ (Nat.mod_lt _ hp)⟩
    exact (Nat.div_lt_iff_lt_mul hp).mpr h

theorem ravel_unravel (ls : List Nat) (k : Nat) (h : k < prod ls) :
    ravel ls (unravel ls k) = k := by
  induction ls generalizing k with
  | nil => simp [prod] at h; simp [ravel, h]
  | cons l ls ih =>
    rw [prod_cons] at h
    have hp : 0 < prod ls := by
      rcases Nat.eq_zero_or_pos (prod ls) with h0 | h0
      · rw [h0] at h; simp at h
      · exact h0
    simp only [unravel, ravel]
    rw [ih _ (Nat.mod_lt _ hp)]
    exact Nat.div_add_mod' k (prod ls)

theorem unravel_ravel (ls idx : List Nat) (h : inBounds ls idx = true) :
    unravel ls (ravel ls idx) = idx :=
  ravel_injective ls _ _ (unravel_inBounds ls _ (ravel_lt ls idx h)) h
    (ravel_unravel ls _ (ravel_lt ls idx h))

theorem unravel_zero (ls : List Nat) : unravel ls 0 = ls.map fun _ => 0 := by
  induction ls with
  | nil => rfl
  | cons l ls ih => simp [unravel, ih]

theorem unravel_length (ls : List Nat) (k : Nat) : (unravel ls k).length = ls.length := by
  induction ls generalizing k with
  | nil => rfl
  | cons l ls ih => simp [unravel, ih]

theorem unravel_injective (ls : List Nat) (j k : Nat) (hj : j < prod ls) (hk : k < prod ls)
    (h : unravel ls j = unravel ls k) : j = k := by
  rw [← ravel_unravel ls j hj, ← ravel_unravel ls k hk, h]

/-! ### one step of the shape iterator -/

theorem next_finished (it : ShapeIter) (hf : it.finished = true) : it.next = (none, it) := by
  simp [ShapeIter.next, hf]

/-- From an unfinished in-bounds state `next` yields the current index and moves to the state
    whose index has the next mixed-radix value, or finishes when that was the last one. -/
theorem next_spec (it : ShapeIter) (hf : it.finished = false)
    (hb : inBounds it.shape it.indexes = true) :
    it.next.1 = some it.indexes ∧ it.next.2.shape = it.shape ∧
      (ravel it.shape it.indexes + 1 < prod it.shape →
        it.next.2.finished = false ∧ inBounds it.shape it.next.2.indexes = true ∧
          ravel it.shape it.next.2.indexes = ravel it.shape it.indexes + 1) ∧
      (prod it.shape ≤ ravel it.shape it.indexes + 1 → it.next.2.finished = true) := by
  obtain ⟨shape, indexes, finished⟩ := it
  simp only at hf hb ⊢
  subst hf
  cases shape with
  | nil =>
    cases indexes with
    | nil => simp [ShapeIter.next, ravel]
    | cons _ _ => simp [inBounds] at hb
  | cons l0 ls =>
    cases indexes with
    | nil => simp [inBounds] at hb
    | cons i0 is =>
      simp only [inBounds, Bool.and_eq_true, decide_eq_true_eq] at hb
      obtain ⟨hv, hbs, hc⟩ := carry_val ls is hb.2
      have hr := ravel_lt ls _ hbs
      have hr0 := ravel_lt ls _ hb.2
      simp only [ShapeIter.next, Bool.false_eq_true, if_false, ravel, prod_cons, true_and]
      have hmul : (i0 + (carry ls is).2) * prod ls = i0 * prod ls + (carry ls is).2 * prod ls :=
        Nat.add_mul ..
      have hle : (i0 + 1) * prod ls ≤ l0 * prod ls := Nat.mul_le_mul_right _ hb.1
      rw [Nat.add_mul] at hle
      constructor
      · intro hlt
        have hne : i0 + (carry ls is).2 ≠ l0 := by
          intro heq
          rw [heq] at hmul
          omega
        simp only [beq_iff_eq, hne, if_false, inBounds, hbs, Bool.and_true, decide_eq_true_eq,
          true_and]
        refine ⟨by omega, by omega⟩
      · intro hge
        have heq : i0 + (carry ls is).2 = l0 := by
          rcases Nat.lt_or_ge (i0 + (carry ls is).2) l0 with hlt | hge'
          · exfalso
            have : (i0 + (carry ls is).2 + 1) * prod ls ≤ l0 * prod ls :=
              Nat.mul_le_mul_right _ hlt
            rw [Nat.add_mul, hmul] at this
            omega
          · omega
        simp [heq]

theorem steps_succ (k : Nat) (it : ShapeIter) :
    ShapeIter.steps (k + 1) it = (ShapeIter.steps k it).next.2 := by
  induction k generalizing it with
  | zero => rfl
  | succ k ih => rw [ShapeIter.steps, ih]; rfl

theorem new_spec (shape : List Nat) :
    (ShapeIter.new shape).shape = shape ∧ (ShapeIter.new shape).indexes = unravel shape 0 ∧
      ((ShapeIter.new shape).finished = true ↔ prod shape = 0) := by
  refine ⟨rfl, (unravel_zero shape).symm, ?_⟩
  simp only [ShapeIter.new, Bool.not_eq_true', List.all_eq_false, decide_eq_true_eq]
  constructor
  · rintro ⟨l, hl, h0⟩
    have : l = 0 := by omega
    subst this
    exact prod_eq_zero_of_mem shape hl
  · intro h0
    rcases Nat.eq_zero_or_pos (prod shape) with _ | _
    · by_cases hall : ∀ l ∈ shape, 0 < l
      · have := prod_pos_of_all_pos shape hall; omega
      · have : ∃ l, l ∈ shape ∧ ¬ 0 < l := Classical.byContradiction fun hne =>
          hall fun l hl => Classical.byContradiction fun hnl => hne ⟨l, hl, hnl⟩
        obtain ⟨l, hl, h⟩ := this
        exact ⟨l, hl, by omega⟩
    · omega

/-- The state after `k` calls: unfinished at the index of mixed-radix value `k` while
    `k < Π lengths`, finished afterwards. -/
theorem steps_spec (shape : List Nat) (k : Nat) :
    (ShapeIter.steps k (ShapeIter.new shape)).shape = shape ∧
      (k < prod shape → (ShapeIter.steps k (ShapeIter.new shape)).finished = false ∧
        (ShapeIter.steps k (ShapeIter.new shape)).indexes = unravel shape k) ∧
      (prod shape ≤ k → (ShapeIter.steps k (ShapeIter.new shape)).finished = true) := by
  induction k with
  | zero =>
    obtain ⟨h1, h2, h3⟩ := new_spec shape
    refine ⟨h1, fun h => ⟨?_, h2⟩, fun h => h3.mpr (by omega)⟩
    cases hf : (ShapeIter.new shape).finished with
    | false => exact hf
    | true => have := h3.mp hf; omega
  | succ k ih =>
    rw [steps_succ]
    obtain ⟨hs, hlt, hge⟩ := ih
    generalize ShapeIter.steps k (ShapeIter.new shape) = it at hs hlt hge
    rcases Nat.lt_or_ge k (prod shape) with hk | hk
    · obtain ⟨hf, hi⟩ := hlt hk
      have hb : inBounds it.shape it.indexes = true := by
        rw [hs, hi]; exact unravel_inBounds shape k hk
      obtain ⟨_, h2, h3, h4⟩ := next_spec it hf hb
      have hrv : ravel it.shape it.indexes = k := by rw [hs, hi]; exact ravel_unravel shape k hk
      rw [hrv, hs] at h3 h4
      refine ⟨h2.trans hs, fun h => ?_, fun h => h4 (by omega)⟩
      obtain ⟨g1, g2, g3⟩ := h3 h
      refine ⟨g1, ?_⟩
      rw [← g3]
      exact (unravel_ravel shape _ g2).symm
    · have hf := hge hk
      rw [next_finished it hf]
      exact ⟨hs, fun h => by omega, fun _ => hf⟩

/-! ### the size hint -/

/-- row-major strides of a list of lengths -/
def strides : List Nat → List Nat
  | [] => []
  | _ :: ls => prod ls :: strides ls

theorem prodC_eq (xs : List Nat) (acc : Nat) (hpos : ∀ x ∈ xs, 0 < x)
    (h : acc * prod xs ≤ usizeMax) : prodC xs acc = .ok (acc * prod xs) := by
  induction xs generalizing acc with
  | nil => simp [prodC]
  | cons x xs ih =>
    have hx : 0 < x := hpos x (by simp)
    have hp : 0 < prod xs := prod_pos_of_all_pos xs fun y hy => hpos y (by simp [hy])
    rw [prod_cons] at h
    have h1 : acc * x ≤ acc * (x * prod xs) :=
      Nat.mul_le_mul_left _ (Nat.le_mul_of_pos_right x hp)
    have hc : cmul acc x = .ok (acc * x) := by simp [cmul]; omega
    simp only [prodC, hc]
    rw [ih (acc * x) (fun y hy => hpos y (by simp [hy])) (by rw [Nat.mul_assoc]; exact h)]
    simp [Nat.mul_assoc]

theorem stridesC_eq (ls : List Nat) (hpos : ∀ x ∈ ls, 0 < x) (h : prod ls ≤ usizeMax) :
    stridesC ls = .ok (strides ls) := by
  induction ls with
  | nil => rfl
  | cons l ls ih =>
    have hl : 0 < l := hpos l (by simp)
    have hpos' : ∀ x ∈ ls, 0 < x := fun y hy => hpos y (by simp [hy])
    rw [prod_cons] at h
    have h1 : prod ls ≤ l * prod ls := Nat.le_mul_of_pos_left _ hl
    have hp := prodC_eq ls 1 hpos' (by omega)
    simp only [stridesC, hp, ih hpos' (by omega), strides, Nat.one_mul]

theorem seenC_eq (ls idx : List Nat) (hb : inBounds ls idx = true) (acc : Nat)
    (h : acc + ravel ls idx ≤ usizeMax) :
    seenC idx (strides ls) acc = .ok (acc + ravel ls idx) := by
  induction ls generalizing idx acc with
  | nil =>
    cases idx with
    | nil => simp [seenC, ravel]
    | cons _ _ => simp [inBounds] at hb
  | cons l ls ih =>
    cases idx with
    | nil => simp [inBounds] at hb
    | cons i is =>
      simp only [inBounds, Bool.and_eq_true, decide_eq_true_eq] at hb
      simp only [ravel] at h ⊢
      have hc : cmul i (prod ls) = .ok (i * prod ls) := by simp [cmul]; omega
      have ha : cadd acc (i * prod ls) = .ok (acc + i * prod ls) := by simp [cadd]; omega
      simp only [seenC, strides, hc, ha]
      rw [ih is hb.2 _ (by omega)]
      simp [Nat.add_assoc]

/-- The size hint of an unfinished in-bounds state is `Π lengths − value`, computed without
    overflow or underflow as long as the element count itself fits in a `usize`. -/
theorem sizeHint_spec (it : ShapeIter) (hf : it.finished = false)
    (hb : inBounds it.shape it.indexes = true) (hfit : prod it.shape ≤ usizeMax) :
    it.sizeHint = .ok (prod it.shape - ravel it.shape it.indexes,
      some (prod it.shape - ravel it.shape it.indexes)) := by
  have hpos := all_pos_of_inBounds _ _ hb
  have hlt := ravel_lt _ _ hb
  unfold ShapeIter.sizeHint
  simp only [hf, Bool.false_eq_true, if_false]
  by_cases hD : it.shape.length > 0
  · simp only [hD, if_true]
    have h1 := prodC_eq it.shape 1 hpos (by omega)
    have h2 := stridesC_eq it.shape hpos hfit
    have h3 := seenC_eq it.shape it.indexes hb 0 (by omega)
    have h4 : csub (prod it.shape) (ravel it.shape it.indexes) =
        .ok (prod it.shape - ravel it.shape it.indexes) := by simp [csub]; omega
    simp only [h1, h2, h3, Nat.one_mul, Nat.zero_add, h4]
  · have hnil : it.shape = [] := by
      cases hs : it.shape with
      | nil => rfl
      | cons _ _ => rw [hs] at hD; simp at hD
    have hi : it.indexes = [] := by
      rw [hnil] at hb
      cases hidx : it.indexes with
      | nil => rfl
      | cons _ _ => rw [hidx] at hb; simp [inBounds] at hb
    simp [hnil, hi, ravel]

theorem sizeHint_finished (it : ShapeIter) (hf : it.finished = true) :
    it.sizeHint = .ok (0, some 0) := by
  simp [ShapeIter.sizeHint, hf]

theorem prodC_overflow (xs : List Nat) (acc : Nat) (hacc : 0 < acc) (hfit : acc ≤ usizeMax)
    (hpos : ∀ x ∈ xs, 0 < x) (h : usizeMax < acc * prod xs) :
    prodC xs acc = .panic .overflow := by
  induction xs generalizing acc with
  | nil => simp at h; omega
  | cons x xs ih =>
    have hx : 0 < x := hpos x (by simp)
    rw [prod_cons] at h
    simp only [prodC]
    by_cases hc : acc * x ≤ usizeMax
    · have : cmul acc x = .ok (acc * x) := by simp [cmul, hc]
      simp only [this]
      exact ih (acc * x) (Nat.mul_pos hacc hx) hc (fun y hy => hpos y (by simp [hy]))
        (by rw [Nat.mul_assoc]; exact h)
    · have : cmul acc x = .panic .overflow := by simp [cmul, hc]
      simp [this]

/-! ### indexes never exceed their lengths (so `+= 1` cannot overflow) -/

/-- every index at most its length -/
def leBounds : List Nat → List Nat → Bool
  | l :: ls, c :: cs => decide (c ≤ l) && leBounds ls cs
  | [], [] => true
  | _, _ => false

theorem leBounds_of_inBounds (ls is : List Nat) (h : inBounds ls is = true) :
    leBounds ls is = true := by
  induction ls generalizing is with
  | nil => cases is <;> simp_all [inBounds, leBounds]
  | cons l ls ih =>
    cases is with
    | nil => simp [inBounds] at h
    | cons i is =>
      simp only [inBounds, Bool.and_eq_true, decide_eq_true_eq] at h
      simp only [leBounds, Bool.and_eq_true, decide_eq_true_eq]
      exact ⟨by omega, ih is h.2⟩

theorem next_leBounds (it : ShapeIter) (hf : it.finished = false)
    (hb : inBounds it.shape it.indexes = true) :
    leBounds it.shape it.next.2.indexes = true := by
  obtain ⟨shape, indexes, finished⟩ := it
  simp only at hf hb ⊢
  subst hf
  cases shape with
  | nil =>
    cases indexes with
    | nil => simp [ShapeIter.next, leBounds]
    | cons _ _ => simp [inBounds] at hb
  | cons l0 ls =>
    cases indexes with
    | nil => simp [inBounds] at hb
    | cons i0 is =>
      simp only [inBounds, Bool.and_eq_true, decide_eq_true_eq] at hb
      obtain ⟨_, hbs, hc⟩ := carry_val ls is hb.2
      simp only [ShapeIter.next, Bool.false_eq_true, if_false, leBounds, Bool.and_eq_true,
        decide_eq_true_eq]
      exact ⟨by omega, leBounds_of_inBounds _ _ hbs⟩

theorem steps_leBounds (shape : List Nat) (k : Nat) :
    leBounds shape (ShapeIter.steps k (ShapeIter.new shape)).indexes = true := by
  induction k with
  | zero =>
    show leBounds shape (shape.map fun _ => 0) = true
    induction shape with
    | nil => rfl
    | cons l ls ih => simp [leBounds, ih]
  | succ k ih =>
    rw [steps_succ]
    obtain ⟨hs, hlt, hge⟩ := steps_spec shape k
    generalize ShapeIter.steps k (ShapeIter.new shape) = it at hs hlt hge ih
    rcases Nat.lt_or_ge k (prod shape) with hk | hk
    · obtain ⟨hf, hi⟩ := hlt hk
      have hb : inBounds it.shape it.indexes = true := by
        rw [hs, hi]; exact unravel_inBounds shape k hk
      have := next_leBounds it hf hb
      rwa [hs] at this
    · rw [next_finished it (hge hk)]; exact ih

/-! ### lexicographic order of `unravel` -/

theorem unravel_lex (ls : List Nat) (j k : Nat) (hjk : j < k) (hk : k < prod ls) :
    List.Lex (· < ·) (unravel ls j) (unravel ls k) := by
  induction ls generalizing j k with
  | nil => simp [prod] at hk; omega
  | cons l ls ih =>
    rw [prod_cons] at hk
    have hp : 0 < prod ls := by
      rcases Nat.eq_zero_or_pos (prod ls) with h0 | h0
      · rw [h0] at hk; simp at hk
      · exact h0
    simp only [unravel]
    rcases Nat.lt_or_ge (j / prod ls) (k / prod ls) with hlt | hge
    · exact List.Lex.rel hlt
    · have hle : j / prod ls ≤ k / prod ls := Nat.div_le_div_right (Nat.le_of_lt hjk)
      have heq : j / prod ls = k / prod ls := Nat.le_antisymm hle hge
      rw [heq]
      apply List.Lex.cons
      apply ih _ _ _ (Nat.mod_lt _ hp)
      have hj := Nat.div_add_mod j (prod ls)
      have hk' := Nat.div_add_mod k (prod ls)
      rw [heq] at hj
      omega

/-! ### the matrix odometers -/

theorem succ_div_mod_wrap (n k : Nat) (hn : 0 < n) (h : k % n = n - 1) :
    (k + 1) / n = k / n + 1 ∧ (k + 1) % n = 0 := by
  have hk := Nat.div_add_mod k n
  have e : k + 1 = n * (k / n + 1) := by rw [Nat.mul_add, Nat.mul_one]; omega
  rw [e]
  exact ⟨Nat.mul_div_cancel_left _ hn, Nat.mul_mod_right _ _⟩

theorem succ_div_mod_step (n k : Nat) (hn : 0 < n) (h : k % n ≠ n - 1) :
    (k + 1) / n = k / n ∧ (k + 1) % n = k % n + 1 := by
  have hk := Nat.div_add_mod k n
  have hlt := Nat.mod_lt k hn
  have e : k + 1 = n * (k / n) + (k % n + 1) := by omega
  rw [e, Nat.mul_add_div hn, Nat.mul_add_mod]
  have : k % n + 1 < n := by omega
  rw [Nat.div_eq_of_lt this, Nat.mod_eq_of_lt this]
  exact ⟨rfl, rfl⟩

/-- the row-major iterator after `k` calls -/
def rowMajorState (rows columns k : Nat) : MatIter :=
  if rows * columns = 0 then ⟨rows, columns, 0, 0, true⟩
  else if k < rows * columns then ⟨rows, columns, k / columns, k % columns, false⟩
  else ⟨rows, columns, rows, 0, true⟩

theorem rowMajorState_zero (rows columns : Nat) :
    rowMajorState rows columns 0 = MatIter.new rows columns := by
  unfold rowMajorState MatIter.new
  by_cases h0 : rows * columns = 0
  · simp only [h0, if_true]
    rcases Nat.mul_eq_zero.mp h0 with h | h <;> simp [h]
  · have hr : 0 < rows := Nat.pos_of_ne_zero fun h => h0 (by simp [h])
    have hc : 0 < columns := Nat.pos_of_ne_zero fun h => h0 (by simp [h])
    have : 0 < rows * columns := Nat.mul_pos hr hc
    simp [h0, this, hr, hc]

theorem rowMajorNext_state (rows columns k : Nat) :
    rowMajorNext (rowMajorState rows columns k) =
      .ok (Spec.rowMajorItem rows columns k, rowMajorState rows columns (k + 1)) := by
  by_cases h0 : rows * columns = 0
  · simp [rowMajorState, h0, rowMajorNext, Spec.rowMajorItem]
  · have hr : 0 < rows := Nat.pos_of_ne_zero fun h => h0 (by simp [h])
    have hc : 0 < columns := Nat.pos_of_ne_zero fun h => h0 (by simp [h])
    rcases Nat.lt_or_ge k (rows * columns) with hk | hk
    · have hdiv : k / columns < rows := (Nat.div_lt_iff_lt_mul hc).mpr hk
      have hmod := Nat.mod_lt k hc
      have hcs : csub columns 1 = .ok (columns - 1) := by simp [csub]; omega
      have hrs : csub rows 1 = .ok (rows - 1) := by simp [csub]; omega
      have hst : rowMajorState rows columns k = ⟨rows, columns, k / columns, k % columns, false⟩ := by
        simp [rowMajorState, h0, hk]
      rw [hst]
      simp only [rowMajorNext, Bool.false_eq_true, if_false, hcs, Spec.rowMajorItem, hk, if_true]
      by_cases hw : k % columns = columns - 1
      · obtain ⟨e1, e2⟩ := succ_div_mod_wrap columns k hc hw
        have hk1 : k + 1 = (k / columns + 1) * columns := by
          have := Nat.div_add_mod k columns
          rw [Nat.add_mul, Nat.one_mul, Nat.mul_comm]; omega
        simp only [hw, beq_self_eq_true, if_true, hrs]
        by_cases hend : k / columns = rows - 1
        · have : ¬ (k + 1 < rows * columns) := by
            rw [hk1, hend]; have : rows - 1 + 1 = rows := by omega
            rw [this]; omega
          simp [hend, rowMajorState, h0, this]
          omega
        · have hlt : k / columns + 1 < rows := by omega
          have : k + 1 < rows * columns := by
            rw [hk1]; exact Nat.mul_lt_mul_of_pos_right hlt hc
          simp [hend, rowMajorState, h0, this, e1, e2]
      · obtain ⟨e1, e2⟩ := succ_div_mod_step columns k hc hw
        have : k + 1 < rows * columns := by
          have h1 := Nat.div_add_mod k columns
          have h2 : (k / columns + 1) * columns ≤ rows * columns := Nat.mul_le_mul_right _ hdiv
          rw [Nat.add_mul, Nat.one_mul, Nat.mul_comm] at h2
          omega
        simp [hw, rowMajorState, h0, this, e1, e2]
    · have hst : rowMajorState rows columns k = ⟨rows, columns, rows, 0, true⟩ := by
        simp [rowMajorState, h0]; omega
      have hst' : rowMajorState rows columns (k + 1) = ⟨rows, columns, rows, 0, true⟩ := by
        simp [rowMajorState, h0]; omega
      rw [hst, hst']
      have : ¬ k < rows * columns := by omega
      simp [rowMajorNext, Spec.rowMajorItem, this]

theorem rowMajorSizeHint_state (rows columns k : Nat) (hfit : rows * columns ≤ usizeMax) :
    rowMajorSizeHint (rowMajorState rows columns k) =
      .ok (rows * columns - k, some (rows * columns - k)) := by
  by_cases h0 : rows * columns = 0
  · simp only [rowMajorState, h0, if_true, rowMajorSizeHint]
    have : csub rows 0 = .ok rows := by simp [csub]
    simp only [this]
    rcases Nat.mul_eq_zero.mp h0 with h | h
    · subst h; simp
    · subst h
      have hz : csub 0 0 = .ok 0 := by simp [csub]
      match rows with
      | 0 => simp
      | 1 => simp [hz]
      | x + 2 => simp [hz, cmul, cadd]
  · have hr : 0 < rows := Nat.pos_of_ne_zero fun h => h0 (by simp [h])
    have hc : 0 < columns := Nat.pos_of_ne_zero fun h => h0 (by simp [h])
    rcases Nat.lt_or_ge k (rows * columns) with hk | hk
    · have hdiv : k / columns < rows := (Nat.div_lt_iff_lt_mul hc).mpr hk
      have hmod := Nat.mod_lt k hc
      have hdm := Nat.div_add_mod k columns
      have hst : rowMajorState rows columns k = ⟨rows, columns, k / columns, k % columns, false⟩ := by
        simp [rowMajorState, h0, hk]
      rw [hst]
      have h1 : csub rows (k / columns) = .ok (rows - k / columns) := by simp [csub]; omega
      have h2 : csub columns (k % columns) = .ok (columns - k % columns) := by simp [csub]; omega
      simp only [rowMajorSizeHint, h1, h2]
      generalize hq : k / columns = q at *
      generalize hm : k % columns = m at *
      rw [Nat.mul_comm] at hdm
      match hrem : rows - q with
      | 0 => omega
      | 1 =>
        have : rows = q + 1 := by omega
        subst this
        have : (q + 1) * columns = q * columns + columns := by rw [Nat.add_mul, Nat.one_mul]
        simp only [Outcome.ok.injEq, Prod.mk.injEq, Option.some.injEq]
        omega
      | x + 2 =>
        have : rows = q + (x + 2) := by omega
        subst this
        have e1 : (q + (x + 2)) * columns = q * columns + ((x + 1) * columns + columns) := by
          rw [Nat.add_mul, show x + 2 = (x + 1) + 1 from rfl, Nat.add_mul (x + 1), Nat.one_mul]
        have h3 : cmul (x + 1) columns = .ok ((x + 1) * columns) := by simp [cmul]; omega
        have h4 : cadd (columns - m) ((x + 1) * columns) = .ok (columns - m + (x + 1) * columns) := by
          simp [cadd]; omega
        simp only [h3, h4, Outcome.ok.injEq, Prod.mk.injEq, Option.some.injEq]
        omega
    · have hst : rowMajorState rows columns k = ⟨rows, columns, rows, 0, true⟩ := by
        simp [rowMajorState, h0]; omega
      rw [hst]
      have : csub rows rows = .ok 0 := by simp [csub]
      simp only [rowMajorSizeHint, this]
      have : rows * columns - k = 0 := by omega
      simp [this]

/-- the column-major iterator after `k` calls -/
def colMajorState (rows columns k : Nat) : MatIter :=
  if rows * columns = 0 then ⟨rows, columns, 0, 0, true⟩
  else if k < rows * columns then ⟨rows, columns, k % rows, k / rows, false⟩
  else ⟨rows, columns, 0, columns, true⟩

theorem colMajorState_zero (rows columns : Nat) :
    colMajorState rows columns 0 = MatIter.new rows columns := by
  unfold colMajorState MatIter.new
  by_cases h0 : rows * columns = 0
  · simp only [h0, if_true]
    rcases Nat.mul_eq_zero.mp h0 with h | h <;> simp [h]
  · have hr : 0 < rows := Nat.pos_of_ne_zero fun h => h0 (by simp [h])
    have hc : 0 < columns := Nat.pos_of_ne_zero fun h => h0 (by simp [h])
    have : 0 < rows * columns := Nat.mul_pos hr hc
    simp [h0, this, hr, hc]

theorem colMajorNext_state (rows columns k : Nat) :
    colMajorNext (colMajorState rows columns k) =
      .ok (Spec.colMajorItem rows columns k, colMajorState rows columns (k + 1)) := by
  by_cases h0 : rows * columns = 0
  · simp [colMajorState, h0, colMajorNext, Spec.colMajorItem]
  · have hr : 0 < rows := Nat.pos_of_ne_zero fun h => h0 (by simp [h])
    have hc : 0 < columns := Nat.pos_of_ne_zero fun h => h0 (by simp [h])
    rcases Nat.lt_or_ge k (rows * columns) with hk | hk
    · have hdiv : k / rows < columns :=
        (Nat.div_lt_iff_lt_mul hr).mpr (by rw [Nat.mul_comm]; exact hk)
      have hmod := Nat.mod_lt k hr
      have hcs : csub columns 1 = .ok (columns - 1) := by simp [csub]; omega
      have hrs : csub rows 1 = .ok (rows - 1) := by simp [csub]; omega
      have hst : colMajorState rows columns k = ⟨rows, columns, k % rows, k / rows, false⟩ := by
        simp [colMajorState, h0, hk]
      rw [hst]
      simp only [colMajorNext, Bool.false_eq_true, if_false, hrs, Spec.colMajorItem, hk, if_true]
      by_cases hw : k % rows = rows - 1
      · obtain ⟨e1, e2⟩ := succ_div_mod_wrap rows k hr hw
        have hk1 : k + 1 = rows * (k / rows + 1) := by
          have := Nat.div_add_mod k rows
          rw [Nat.mul_add, Nat.mul_one]; omega
        simp only [hw, beq_self_eq_true, if_true, hcs]
        by_cases hend : k / rows = columns - 1
        · have : ¬ (k + 1 < rows * columns) := by
            rw [hk1, hend]; have : columns - 1 + 1 = columns := by omega
            rw [this]; omega
          simp [hend, colMajorState, h0, this]
          omega
        · have hlt : k / rows + 1 < columns := by omega
          have : k + 1 < rows * columns := by
            rw [hk1]; exact Nat.mul_lt_mul_of_pos_left hlt hr
          simp [hend, colMajorState, h0, this, e1, e2]
      · obtain ⟨e1, e2⟩ := succ_div_mod_step rows k hr hw
        have : k + 1 < rows * columns := by
          have h1 := Nat.div_add_mod k rows
          have h2 : rows * (k / rows + 1) ≤ rows * columns := Nat.mul_le_mul_left _ hdiv
          rw [Nat.mul_add, Nat.mul_one] at h2
          omega
        simp [hw, colMajorState, h0, this, e1, e2]
    · have hst : colMajorState rows columns k = ⟨rows, columns, 0, columns, true⟩ := by
        simp [colMajorState, h0]; omega
      have hst' : colMajorState rows columns (k + 1) = ⟨rows, columns, 0, columns, true⟩ := by
        simp [colMajorState, h0]; omega
      rw [hst, hst']
      have : ¬ k < rows * columns := by omega
      simp [colMajorNext, Spec.colMajorItem, this]

theorem colMajorSizeHint_state (rows columns k : Nat) (hfit : rows * columns ≤ usizeMax) :
    colMajorSizeHint (colMajorState rows columns k) =
      .ok (rows * columns - k, some (rows * columns - k)) := by
  by_cases h0 : rows * columns = 0
  · simp only [colMajorState, h0, if_true, colMajorSizeHint]
    have : csub columns 0 = .ok columns := by simp [csub]
    simp only [this]
    rcases Nat.mul_eq_zero.mp h0 with h | h
    · subst h
      have hz : csub 0 0 = .ok 0 := by simp [csub]
      match columns with
      | 0 => simp
      | 1 => simp [hz]
      | x + 2 => simp [hz, cmul, cadd]
    · subst h; simp
  · have hr : 0 < rows := Nat.pos_of_ne_zero fun h => h0 (by simp [h])
    have hc : 0 < columns := Nat.pos_of_ne_zero fun h => h0 (by simp [h])
    rcases Nat.lt_or_ge k (rows * columns) with hk | hk
    · have hdiv : k / rows < columns :=
        (Nat.div_lt_iff_lt_mul hr).mpr (by rw [Nat.mul_comm]; exact hk)
      have hmod := Nat.mod_lt k hr
      have hdm := Nat.div_add_mod k rows
      have hst : colMajorState rows columns k = ⟨rows, columns, k % rows, k / rows, false⟩ := by
        simp [colMajorState, h0, hk]
      rw [hst]
      have h1 : csub columns (k / rows) = .ok (columns - k / rows) := by simp [csub]; omega
      have h2 : csub rows (k % rows) = .ok (rows - k % rows) := by simp [csub]; omega
      simp only [colMajorSizeHint, h1, h2]
      generalize hq : k / rows = q at *
      generalize hm : k % rows = m at *
      match hrem : columns - q with
      | 0 => omega
      | 1 =>
        have : columns = q + 1 := by omega
        subst this
        have : rows * (q + 1) = rows * q + rows := by rw [Nat.mul_add, Nat.mul_one]
        simp only [Outcome.ok.injEq, Prod.mk.injEq, Option.some.injEq]
        omega
      | x + 2 =>
        have : columns = q + (x + 2) := by omega
        subst this
        have e1 : rows * (q + (x + 2)) = rows * q + ((x + 1) * rows + rows) := by
          rw [Nat.mul_add, show x + 2 = (x + 1) + 1 from rfl, Nat.mul_add rows (x + 1), Nat.mul_one,
            Nat.mul_comm rows (x + 1)]
        have h3 : cmul (x + 1) rows = .ok ((x + 1) * rows) := by simp [cmul]; omega
        have h4 : cadd (rows - m) ((x + 1) * rows) = .ok (rows - m + (x + 1) * rows) := by
          simp [cadd]; omega
        simp only [h3, h4, Outcome.ok.injEq, Prod.mk.injEq, Option.some.injEq]
        omega
    · have hst : colMajorState rows columns k = ⟨rows, columns, 0, columns, true⟩ := by
        simp [colMajorState, h0]; omega
      rw [hst]
      have : csub columns columns = .ok 0 := by simp [csub]
      simp only [colMajorSizeHint, this]
      have : rows * columns - k = 0 := by omega
      simp [this]

/-! ### generic facts about enumerating iterators and the flavours on top -/

section Generic
variable {σ π κ α : Type}

theorem _root_.EasyMl.Spec.Enumerates.collect_from {next : σ → Outcome (Option π × σ)} {s0 : σ} {total : Nat}
    {item : Nat → Option π} {state : Nat → σ} (E : Enumerates next s0 total item state)
    (n j : Nat) :
    collect next n (state j) = .ok ((List.range' j n).map item, state (j + n)) := by
  induction n generalizing j with
  | zero => simp [collect]
  | succ n ih =>
    have e : j + 1 + n = j + (n + 1) := by omega
    simp only [collect, E.step j, ih (j + 1), List.range'_succ, List.map_cons, e]

theorem _root_.EasyMl.Spec.Enumerates.item_none {next : σ → Outcome (Option π × σ)} {s0 : σ} {total : Nat}
    {item : Nat → Option π} {state : Nat → σ} (E : Enumerates next s0 total item state)
    (k : Nat) (hk : total ≤ k) : item k = none := by
  cases h : item k with
  | none => rfl
  | some p =>
    have := (E.some_iff k).mp (by simp [h])
    omega

/-- the reference flavours enumerate the cells of the positions -/
theorem _root_.EasyMl.Spec.Enumerates.ref {next : σ → Outcome (Option π × σ)} {s0 : σ} {total : Nat}
    {item : Nat → Option π} {state : Nat → σ} (E : Enumerates next s0 total item state)
    (cell : π → Option κ) :
    Enumerates (refNext next cell) s0 total (fun k => (item k).map cell) state where
  start := E.start
  step k := by simp [refNext, E.step k]
  some_iff k := by simpa using E.some_iff k

theorem _root_.EasyMl.Spec.Enumerates.copy {next : σ → Outcome (Option π × σ)} {s0 : σ} {total : Nat}
    {item : Nat → Option π} {state : Nat → σ} (E : Enumerates next s0 total item state)
    (cell : π → Option κ) (mem : κ → α) :
    Enumerates (copyNext next cell mem) s0 total (fun k => (item k).map fun p => (cell p).map mem)
      state where
  start := E.start
  step k := by simp [copyNext, E.step k]
  some_iff k := by simpa using E.some_iff k

/-- `WithIndex` over an enumerating iterator whose counter shows the position about to be
    yielded enumerates the pairs (position, item) -/
theorem _root_.EasyMl.Spec.Enumerates.withIndex {β : Type} {next : σ → Outcome (Option β × σ)} {s0 : σ} {total : Nat}
    {item : Nat → Option β} {state : Nat → σ} (E : Enumerates next s0 total item state)
    (counter : σ → π) :
    Enumerates (withIndexNext counter next) s0 total
      (fun k => (item k).map fun x => (counter (state k), x)) state where
  start := E.start
  step k := by simp [withIndexNext, E.step k]
  some_iff k := by simpa using E.some_iff k

/-- memory in which the listed cells hold the placeholder -/
def visitedMem [DecidableEq κ] (mem0 : κ → α) (placeholder : α) (cells : List κ) : κ → α :=
  fun c => if c ∈ cells then placeholder else mem0 c

theorem owned_collect_from [DecidableEq κ] {next : σ → Outcome (Option π × σ)} {s0 : σ}
    {total : Nat} {item : Nat → Option π} {state : Nat → σ}
    (E : Enumerates next s0 total item state) (cell : π → Option κ) (cellOf : Nat → κ)
    (hcell : ∀ k, k < total → ∃ p, item k = some p ∧ cell p = some (cellOf k))
    (hinj : ∀ j k, j < total → k < total → cellOf j = cellOf k → j = k)
    (mem0 : κ → α) (placeholder : α) (n j : Nat) :
    collect (ownedNext next cell placeholder) n
        (state j, visitedMem mem0 placeholder ((List.range (min j total)).map cellOf)) =
      .ok ((List.range' j n).map (fun k => if k < total then some (some (mem0 (cellOf k))) else none),
        (state (j + n),
          visitedMem mem0 placeholder ((List.range (min (j + n) total)).map cellOf))) := by
  induction n generalizing j with
  | zero => simp [collect]
  | succ n ih =>
    rcases Nat.lt_or_ge j total with hj | hj
    · obtain ⟨p, hp, hc⟩ := hcell j hj
      have hnot : cellOf j ∉ (List.range (min j total)).map cellOf := by
        intro hmem
        obtain ⟨i, hi, he⟩ := List.mem_map.mp hmem
        have hi' := List.mem_range.mp hi
        have := hinj i j (by omega) hj he
        omega
      have hmem : update (visitedMem mem0 placeholder ((List.range (min j total)).map cellOf))
          (cellOf j) placeholder =
          visitedMem mem0 placeholder ((List.range (min (j + 1) total)).map cellOf) := by
        funext c
        have e1 : min j total = j := by omega
        have e2 : min (j + 1) total = j + 1 := by omega
        simp only [update, visitedMem, e1, e2, List.range_succ, List.map_append, List.mem_append,
          List.map_cons, List.map_nil, List.mem_singleton]
        by_cases hcj : c = cellOf j
        · simp [hcj]
        · simp [hcj]
      have hstep : ownedNext next cell placeholder
          (state j, visitedMem mem0 placeholder ((List.range (min j total)).map cellOf)) =
          .ok (some (some (mem0 (cellOf j))), (state (j + 1),
            visitedMem mem0 placeholder ((List.range (min (j + 1) total)).map cellOf))) := by
        simp only [ownedNext, E.step j, hp, hc, hmem]
        simp [visitedMem, hnot]
      have e : j + 1 + n = j + (n + 1) := by omega
      simp only [collect, hstep, ih (j + 1), List.range'_succ, List.map_cons, hj, if_true, e]
    · have hnone := E.item_none j hj
      have e1 : min j total = min (j + 1) total := by omega
      have hstep : ownedNext next cell placeholder
          (state j, visitedMem mem0 placeholder ((List.range (min j total)).map cellOf)) =
          .ok (none, (state (j + 1),
            visitedMem mem0 placeholder ((List.range (min (j + 1) total)).map cellOf))) := by
        simp only [ownedNext, E.step j, hnone, e1]
      have : ¬ j < total := by omega
      have e : j + 1 + n = j + (n + 1) := by omega
      simp only [collect, hstep, ih (j + 1), List.range'_succ, List.map_cons, this, if_false, e]

end Generic


/-! ### the concrete iterators enumerate their specification -/

theorem shape_enumerates (shape : List Nat) :
    Enumerates shapeNext (ShapeIter.new shape) (prod shape) (shapeItem shape)
      (fun k => ShapeIter.steps k (ShapeIter.new shape)) where
  start := rfl
  step k := by
    simp only [shapeNext, steps_succ]
    congr 1
    obtain ⟨hs, hlt, hge⟩ := steps_spec shape k
    rcases Nat.lt_or_ge k (prod shape) with hk | hk
    · obtain ⟨hf, hi⟩ := hlt hk
      have hb : inBounds (ShapeIter.steps k (ShapeIter.new shape)).shape
          (ShapeIter.steps k (ShapeIter.new shape)).indexes = true := by
        rw [hs, hi]; exact unravel_inBounds shape k hk
      have := (next_spec _ hf hb).1
      rw [hi] at this
      simp only [shapeItem, hk, if_true, ← this]
    · have : ¬ k < prod shape := by omega
      rw [next_finished _ (hge hk)]
      simp [shapeItem, this]
  some_iff k := by
    unfold shapeItem
    split <;> simp [*]

theorem rowMajor_enumerates (rows columns : Nat) :
    Enumerates rowMajorNext (MatIter.new rows columns) (rows * columns)
      (rowMajorItem rows columns) (rowMajorState rows columns) where
  start := rowMajorState_zero rows columns
  step k := rowMajorNext_state rows columns k
  some_iff k := by
    unfold rowMajorItem
    split <;> simp [*]

theorem colMajor_enumerates (rows columns : Nat) :
    Enumerates colMajorNext (MatIter.new rows columns) (rows * columns)
      (colMajorItem rows columns) (colMajorState rows columns) where
  start := colMajorState_zero rows columns
  step k := colMajorNext_state rows columns k
  some_iff k := by
    unfold colMajorItem
    split <;> simp [*]

/-- a `Range`-based iterator after `k` calls -/
def lineState (line : Line) (stop k : Nat) : LineIter := ⟨line, ⟨min k stop, stop⟩⟩

theorem line_enumerates (line : Line) (stop : Nat) :
    Enumerates lineNext ⟨line, ⟨0, stop⟩⟩ stop
      (fun k => if k < stop then some (line.position k) else none) (lineState line stop) where
  start := by simp [lineState]
  step k := by
    simp only [lineNext, LineIter.next, lineState, RangeIter.next]
    rcases Nat.lt_or_ge k stop with hk | hk
    · have e1 : min k stop = k := by omega
      have e2 : min (k + 1) stop = k + 1 := by omega
      simp [e1, e2, hk]
    · have e1 : min k stop = stop := by omega
      have e2 : min (k + 1) stop = stop := by omega
      have : ¬ k < stop := by omega
      simp [e1, e2, this]
  some_iff k := by split <;> simp [*]

theorem lineState_sizeHint (line : Line) (stop k : Nat) :
    (lineState line stop k).sizeHint = (stop - k, some (stop - k)) := by
  simp only [LineIter.sizeHint, lineState, RangeIter.sizeHint]
  rcases Nat.lt_or_ge k stop with hk | hk
  · have e1 : min k stop = k := by omega
    simp [e1, hk]
  · have e1 : min k stop = stop := by omega
    have : stop - k = 0 := by omega
    simp [e1, this]

/-! ### the counter read by `WithIndex` is the position about to be yielded -/

theorem shapeNext_counter (it it' : ShapeIter) (p : List Nat)
    (h : shapeNext it = .ok (some p, it')) : it.indexes = p := by
  simp only [shapeNext, ShapeIter.next] at h
  split at h
  · simp at h
  · split at h <;> simp at h <;> exact h.1

theorem rowMajorNext_counter (it it' : MatIter) (p : Nat × Nat)
    (h : rowMajorNext it = .ok (some p, it')) : (it.rowCounter, it.columnCounter) = p := by
  unfold rowMajorNext at h
  split at h
  · simp at h
  · repeat' split at h
    all_goals first | (simp at h; done) | (simp at h; exact h.1)

theorem colMajorNext_counter (it it' : MatIter) (p : Nat × Nat)
    (h : colMajorNext it = .ok (some p, it')) : (it.rowCounter, it.columnCounter) = p := by
  unfold colMajorNext at h
  split at h
  · simp at h
  · repeat' split at h
    all_goals first | (simp at h; done) | (simp at h; exact h.1)



section Generic2
variable {σ π κ α : Type}

/-- `WithIndex` over a reference iterator pairs every cell with the position it was fetched
    from, provided the counter shows the position about to be yielded -/
theorem _root_.EasyMl.Spec.Enumerates.withIndex_ref {next : σ → Outcome (Option π × σ)} {s0 : σ}
    {total : Nat} {item : Nat → Option π} {state : Nat → σ}
    (E : Enumerates next s0 total item state) (counter : σ → π)
    (hcounter : ∀ s s' p, next s = .ok (some p, s') → counter s = p) (cell : π → Option κ) :
    Enumerates (withIndexNext counter (refNext next cell)) s0 total
      (fun k => (item k).map fun p => (p, cell p)) state where
  start := E.start
  step k := by
    have hs := E.step k
    simp only [withIndexNext, refNext, hs]
    cases hi : item k with
    | none => simp
    | some p =>
      rw [hi] at hs
      simp [hcounter _ _ _ hs]
  some_iff k := by simpa using E.some_iff k

/-- distinct calls hand out distinct cells, if distinct calls visit distinct positions and the
    source maps distinct valid positions to distinct cells -/
theorem cellOf_injective {total : Nat} {item : Nat → Option π} (cell : π → Option κ)
    (valid : π → Prop) (cellOf : Nat → κ)
    (hcell : ∀ k, k < total → ∃ p, item k = some p ∧ valid p ∧ cell p = some (cellOf k))
    (hitem : ∀ j k p, j < total → k < total → item j = some p → item k = some p → j = k)
    (hsrc : ∀ p q c, valid p → valid q → cell p = some c → cell q = some c → p = q)
    (j k : Nat) (hj : j < total) (hk : k < total) (h : cellOf j = cellOf k) : j = k := by
  obtain ⟨p, hp, vp, cp⟩ := hcell j hj
  obtain ⟨q, hq, vq, cq⟩ := hcell k hk
  rw [h] at cp
  have := hsrc p q _ vp vq cp cq
  subst this
  exact hitem j k p hj hk hp hq

end Generic2

/-! ### positions are visited once -/

theorem shapeItem_injective (shape : List Nat) (j k : Nat) (p : List Nat)
    (hj : shapeItem shape j = some p) (hk : shapeItem shape k = some p) : j = k := by
  unfold shapeItem at hj hk
  split at hj <;> split at hk <;> simp at hj hk
  exact unravel_injective shape j k ‹_› ‹_› (hj.trans hk.symm)

theorem rowMajorItem_injective (rows columns j k : Nat) (p : Nat × Nat)
    (hj : rowMajorItem rows columns j = some p) (hk : rowMajorItem rows columns k = some p) :
    j = k := by
  unfold rowMajorItem at hj hk
  split at hj <;> split at hk <;> simp at hj hk
  have h := hj.trans hk.symm
  simp only [Prod.mk.injEq] at h
  have h1 := Nat.div_add_mod j columns
  have h2 := Nat.div_add_mod k columns
  rw [h.1, h.2] at h1
  omega

theorem colMajorItem_injective (rows columns j k : Nat) (p : Nat × Nat)
    (hj : colMajorItem rows columns j = some p) (hk : colMajorItem rows columns k = some p) :
    j = k := by
  unfold colMajorItem at hj hk
  split at hj <;> split at hk <;> simp at hj hk
  have h := hj.trans hk.symm
  simp only [Prod.mk.injEq] at h
  have h1 := Nat.div_add_mod j rows
  have h2 := Nat.div_add_mod k rows
  rw [h.1, h.2] at h1
  omega

theorem rowMajorItem_valid (rows columns k : Nat) (p : Nat × Nat)
    (h : rowMajorItem rows columns k = some p) : p.1 < rows ∧ p.2 < columns := by
  unfold rowMajorItem at h
  split at h <;> simp at h
  subst h
  rename_i hk
  have hc : 0 < columns := Nat.pos_of_ne_zero fun h => by subst h; simp at hk
  exact ⟨(Nat.div_lt_iff_lt_mul hc).mpr hk, Nat.mod_lt _ hc⟩

theorem colMajorItem_valid (rows columns k : Nat) (p : Nat × Nat)
    (h : colMajorItem rows columns k = some p) : p.1 < rows ∧ p.2 < columns := by
  unfold colMajorItem at h
  split at h <;> simp at h
  subst h
  rename_i hk
  have hr : 0 < rows := Nat.pos_of_ne_zero fun h => by subst h; simp at hk
  exact ⟨Nat.mod_lt _ hr, (Nat.div_lt_iff_lt_mul hr).mpr (by rw [Nat.mul_comm]; exact hk)⟩

/-! ### sources -/

/-- a `Matrix` maps distinct in-range positions to distinct cells -/
theorem ofMatrix_cell (rows columns : Nat) (p : Nat × Nat) (hp : p.1 < rows ∧ p.2 < columns) :
    (MSource.ofMatrix rows columns).cell p = some (p.2 + p.1 * columns) := by
  simp [MSource.ofMatrix, hp]

theorem ofMatrix_injective (rows columns : Nat) (p q : Nat × Nat) (c : Nat)
    (hp : p.1 < rows ∧ p.2 < columns) (hq : q.1 < rows ∧ q.2 < columns)
    (h1 : (MSource.ofMatrix rows columns).cell p = some c)
    (h2 : (MSource.ofMatrix rows columns).cell q = some c) : p = q := by
  rw [ofMatrix_cell _ _ _ hp] at h1
  rw [ofMatrix_cell _ _ _ hq] at h2
  have h : p.2 + p.1 * columns = q.2 + q.1 * columns := by
    simp only [Option.some.injEq] at h1 h2; omega
  have hr : p.1 = q.1 := by
    rcases Nat.lt_trichotomy p.1 q.1 with hlt | heq | hgt
    · exfalso
      have : (p.1 + 1) * columns ≤ q.1 * columns := Nat.mul_le_mul_right _ hlt
      rw [Nat.add_mul] at this; omega
    · exact heq
    · exfalso
      have : (q.1 + 1) * columns ≤ p.1 * columns := Nat.mul_le_mul_right _ hgt
      rw [Nat.add_mul] at this; omega
  rw [hr] at h
  exact Prod.ext hr (by omega)

/-- a `Tensor` resolves an in-bounds index to its row-major offset -/
theorem ofTensor_cell {ν α : Type} [DecidableEq ν] (shape : Shape ν) (data : List α)
    (t : Tensor ν α) (ht : Tensor.tryFrom shape data = some t) (idx : List Nat)
    (hb : inBounds (shape.map (·.2)) idx = true) :
    (TSource.ofTensor t).cell idx = some (ravel (shape.map (·.2)) idx) ∧
      (TSource.ofTensor t).shape = shape.map (·.2) := by
  unfold Tensor.tryFrom at ht
  split at ht
  · simp at ht
  · simp only [Option.some.injEq] at ht
    subst ht
    have hlen : idx.length = shape.length := by
      have := inBounds_length _ _ hb; simpa using this
    simp only [TSource.ofTensor, Tensor.offset, getIndexDirect]
    rw [getIndexDirectGo_eq shape idx 0 hlen]
    simp [hb]


/-- a constructed tensor has no zero length -/
theorem tryFrom_lengths_pos {ν α : Type} [DecidableEq ν] (shape : Shape ν) (data : List α)
    (t : Tensor ν α) (ht : Tensor.tryFrom shape data = some t) :
    ∀ l ∈ shape.map (·.2), 0 < l := by
  unfold Tensor.tryFrom at ht
  cases hv : validateDimensions shape data.length with
  | some e => simp [hv] at ht
  | none =>
    unfold validateDimensions at hv
    by_cases h1 : data.length ≠ elements shape
    · simp [h1] at hv
    · by_cases h2 : hasDuplicates (shape.map (·.1)) = true
      · simp [h1, h2] at hv
      · by_cases h3 : shape.any (·.2 == 0) = true
        · simp [h1, h2, h3] at hv
        · intro l hl
          obtain ⟨d, hd, rfl⟩ := List.mem_map.mp hl
          rcases Nat.eq_zero_or_pos d.2 with h0 | h0
          · exact absurd (List.any_eq_true.mpr ⟨d, hd, by simp [h0]⟩) h3
          · exact h0

/-! ### matrix sources -/

/-- a matrix source resolves every position inside its size, and different positions to
    different cells -/
structure MSource.WellFormed {κ : Type} (src : MSource κ) : Prop where
  resolves : ∀ p : Nat × Nat, p.1 < src.rows ∧ p.2 < src.columns → ∃ c, src.cell p = some c
  injective : ∀ (p q : Nat × Nat) (c : κ), p.1 < src.rows ∧ p.2 < src.columns →
    q.1 < src.rows ∧ q.2 < src.columns → src.cell p = some c → src.cell q = some c → p = q

theorem ofMatrix_wellFormed (rows columns : Nat) : (MSource.ofMatrix rows columns).WellFormed where
  resolves p hp := ⟨_, ofMatrix_cell rows columns p hp⟩
  injective p q c hp hq h1 h2 := ofMatrix_injective rows columns p q c hp hq h1 h2

theorem range_wellFormed {κ : Type} (src : MSource κ) (h : src.WellFormed)
    (rs rl cs cl : Nat) : (src.range rs rl cs cl).WellFormed := by
  have key : ∀ p : Nat × Nat, p.1 < (src.range rs rl cs cl).rows ∧ p.2 < (src.range rs rl cs cl).columns →
      (src.range rs rl cs cl).cell p = src.cell (p.1 + rs, p.2 + cs) ∧
        (p.1 + rs < src.rows ∧ p.2 + cs < src.columns) := by
    intro p hp
    simp only [MSource.range, clipLength] at hp ⊢
    simp only [rangeMap, hp.1, hp.2, if_true]
    exact ⟨trivial, by omega, by omega⟩
  constructor
  · intro p hp
    obtain ⟨e, v⟩ := key p hp
    rw [e]; exact h.resolves _ v
  · intro p q c hp hq h1 h2
    obtain ⟨e1, v1⟩ := key p hp
    obtain ⟨e2, v2⟩ := key q hq
    rw [e1] at h1; rw [e2] at h2
    have := h.injective _ _ c v1 v2 h1 h2
    simp only [Prod.mk.injEq] at this
    exact Prod.ext (by omega) (by omega)

theorem reverse_wellFormed {κ : Type} (src : MSource κ) (h : src.WellFormed)
    (revRows revColumns : Bool) : (src.reverse revRows revColumns).WellFormed := by
  have key : ∀ p : Nat × Nat, p.1 < src.rows ∧ p.2 < src.columns →
      (src.reverse revRows revColumns).cell p =
        src.cell (if revRows then src.rows - 1 - p.1 else p.1,
                  if revColumns then src.columns - 1 - p.2 else p.2) ∧
        ((if revRows then src.rows - 1 - p.1 else p.1) < src.rows ∧
         (if revColumns then src.columns - 1 - p.2 else p.2) < src.columns) := by
    intro p hp
    have h1 : ¬ (src.rows = 0 ∨ src.columns = 0) := by omega
    have h2 : ¬ ((revRows = true ∧ p.1 > src.rows - 1) ∨ (revColumns = true ∧ p.2 > src.columns - 1)) := by
      omega
    simp only [MSource.reverse, h1, h2, if_false]
    refine ⟨trivial, ?_, ?_⟩ <;> split <;> omega
  constructor
  · intro p hp
    obtain ⟨e, v⟩ := key p hp
    rw [e]; exact h.resolves _ v
  · intro p q c hp hq h1 h2
    obtain ⟨e1, v1⟩ := key p hp
    obtain ⟨e2, v2⟩ := key q hq
    rw [e1] at h1; rw [e2] at h2
    have := h.injective _ _ c v1 v2 h1 h2
    simp only [Prod.mk.injEq] at this
    have hp' : p.1 < src.rows ∧ p.2 < src.columns := hp
    have hq' : q.1 < src.rows ∧ q.2 < src.columns := hq
    apply Prod.ext
    · have := this.1; split at this <;> omega
    · have := this.2; split at this <;> omega

theorem linePosition_injective (line : Line) (j k : Nat) (h : line.position j = line.position k) :
    j = k := by
  cases line <;> simp [Line.position] at h <;> omega


/-! ### the literal indexed carry loop equals the structural `carry` -/

/-- `carry` with an explicit amount `c` arriving at the rightmost position -/
def carryC : List Nat → List Nat → Nat → List Nat × Nat
  | l :: ls, i :: is, c =>
    let r := carryC ls is c
    let i' := i + r.2
    if i' == l then (0 :: r.1, 1) else (i' :: r.1, 0)
  | _, _, c => ([], c)

theorem carry_eq_carryC (ls is : List Nat) : carry ls is = carryC ls is 1 := by
  induction ls generalizing is with
  | nil => cases is <;> simp [carry, carryC]
  | cons l ls ih =>
    cases is with
    | nil => simp [carry, carryC]
    | cons i is => simp only [carry, carryC, ih is]

/-- add `c` at position `pos` -/
def addAt (l : List Nat) (pos c : Nat) : List Nat := l.set pos (l.getD pos 0 + c)

theorem carryC_snoc (ls is : List Nat) (h : is.length = ls.length) (l i c : Nat) :
    carryC (ls ++ [l]) (is ++ [i]) c =
      ((carryC ls is (if i + c == l then 1 else 0)).1 ++ [if i + c == l then 0 else i + c],
        (carryC ls is (if i + c == l then 1 else 0)).2) := by
  induction ls generalizing is with
  | nil =>
    cases is with
    | nil =>
      simp only [List.nil_append, carryC]
      split <;> simp_all
    | cons _ _ => simp at h
  | cons l' ls ih =>
    cases is with
    | nil => simp at h
    | cons i' is =>
      simp only [List.length_cons, Nat.add_right_cancel_iff] at h
      simp only [List.cons_append, carryC, ih is h]
      split <;> split <;> simp

theorem getD_append_left' (l u : List Nat) (d : Nat) (h : d < l.length) :
    (l ++ u).getD d 0 = l.getD d 0 := by
  simp [List.getD_eq_getElem?_getD, List.getElem?_append_left h]

theorem body_frame (S T L U : List Nat) (hlen : L.length = S.length) (d : Nat) (hd : d < L.length) :
    carryLoopBody (S ++ T) (L ++ U) d = carryLoopBody S L d ++ U := by
  have hS : d < S.length := by omega
  simp only [carryLoopBody, getD_append_left' L U d hd, getD_append_left' S T d hS]
  split
  · have h1 : d < L.length := hd
    have h2 : d - 1 < (L.set d 0).length := by simp; omega
    rw [List.set_append_left _ _ h1]
    rw [getD_append_left' _ U _ h2, List.set_append_left _ _ h2]
  · rfl

theorem carryLoopBody_length (S L : List Nat) (d : Nat) : (carryLoopBody S L d).length = L.length := by
  simp only [carryLoopBody]; split <;> simp

theorem foldl_frame (S T U : List Nat) (ds : List Nat) (L : List Nat) (hlen : L.length = S.length)
    (hds : ∀ d ∈ ds, d < L.length) :
    ds.foldl (carryLoopBody (S ++ T)) (L ++ U) = ds.foldl (carryLoopBody S) L ++ U := by
  induction ds generalizing L with
  | nil => rfl
  | cons d ds ih =>
    simp only [List.foldl_cons]
    rw [body_frame S T L U hlen d (hds d (by simp))]
    apply ih
    · rw [carryLoopBody_length]; exact hlen
    · intro d' hd'; rw [carryLoopBody_length]; exact hds d' (by simp [hd'])

theorem addAt_zero (l : List Nat) (pos : Nat) : addAt l pos 0 = l := by
  simp only [addAt, Nat.add_zero]
  by_cases h : pos < l.length
  · simp [List.getD_eq_getElem?_getD, List.getElem?_eq_getElem h]
  · simp [List.set_eq_of_length_le (by omega : l.length ≤ pos)]

theorem loop_suffix (b : Nat) : ∀ (B SB : List Nat), B.length = b → SB.length = b →
    ∀ (A SA : List Nat), A.length = SA.length → 1 ≤ A.length → ∀ c : Nat,
    ((List.range' A.length b).reverse).foldl (carryLoopBody (SA ++ SB))
        (addAt (A ++ B) (A.length + b - 1) c) =
      addAt A (A.length - 1) (carryC SB B c).2 ++ (carryC SB B c).1 := by
  induction b with
  | zero =>
    intro B SB hB hSB A SA hA ha c
    have : B = [] := List.length_eq_zero_iff.mp hB
    subst this
    have : SB = [] := List.length_eq_zero_iff.mp hSB
    subst this
    simp [carryC]
  | succ b ih =>
    intro B SB hB hSB A SA hA ha c
    obtain ⟨B', y, rfl⟩ : ∃ B' y, B = B' ++ [y] := by
      have hne : B ≠ [] := by intro h; simp [h] at hB
      exact ⟨B.dropLast, B.getLast hne, (List.dropLast_concat_getLast hne).symm⟩
    obtain ⟨SB', ly, rfl⟩ : ∃ SB' ly, SB = SB' ++ [ly] := by
      have hne : SB ≠ [] := by intro h; simp [h] at hSB
      exact ⟨SB.dropLast, SB.getLast hne, (List.dropLast_concat_getLast hne).symm⟩
    simp only [List.length_append, List.length_cons, List.length_nil, Nat.zero_add,
      Nat.add_right_cancel_iff] at hB hSB
    rw [List.range'_concat, List.reverse_append]
    simp only [List.reverse_cons, List.reverse_nil, List.nil_append, List.singleton_append,
      List.foldl_cons, Nat.one_mul]
    -- the state before the first body: pending carry added at the last position
    have hpos : A.length + (b + 1) - 1 = (A ++ B').length := by simp; omega
    have hstate : addAt (A ++ (B' ++ [y])) (A.length + (b + 1) - 1) c = (A ++ B') ++ [y + c] := by
      rw [hpos, ← List.append_assoc]
      simp [addAt, List.getD_eq_getElem?_getD]
    rw [hstate]
    have hd : A.length + b = (A ++ B').length := by simp; omega
    have hSlen : (SA ++ SB').length = (A ++ B').length := by simp; omega
    -- the first body, at position d = |A ++ B'|
    have hbody : carryLoopBody (SA ++ (SB' ++ [ly])) ((A ++ B') ++ [y + c]) (A.length + b) =
        addAt (A ++ B') (A.length + b - 1) (if y + c == ly then 1 else 0) ++
          [if y + c == ly then 0 else y + c] := by
      have g1 : ((A ++ B') ++ [y + c]).getD (A.length + b) 0 = y + c := by
        rw [hd]; simp [List.getD_eq_getElem?_getD]
      have g2 : (SA ++ (SB' ++ [ly])).getD (A.length + b) 0 = ly := by
        rw [← List.append_assoc, hd, ← hSlen]; simp [List.getD_eq_getElem?_getD]
      simp only [carryLoopBody, g1, g2]
      by_cases heq : y + c = ly
      · simp only [heq, beq_self_eq_true, if_true]
        have s1 : ((A ++ B') ++ [ly]).set (A.length + b) 0 = (A ++ B') ++ [0] := by
          rw [hd]; simp
        rw [s1]
        have hlt : A.length + b - 1 < (A ++ B').length := by rw [← hd]; omega
        rw [getD_append_left' _ _ _ hlt, List.set_append_left _ _ hlt]
        rfl
      · have : (y + c == ly) = false := by simp [heq]
        simp only [this, Bool.false_eq_true, if_false, addAt_zero]
    rw [hbody]
    -- the remaining positions do not touch the last cell
    rw [← List.append_assoc SA SB' [ly]]
    rw [foldl_frame (SA ++ SB') [ly] _ _ _ (by simp [addAt]; omega)
      (by
        intro d hd'
        simp only [List.mem_reverse, List.mem_range'_1] at hd'
        simp [addAt]; omega)]
    rw [ih B' SB' hB hSB A SA hA ha, carryC_snoc SB' B' (by omega)]
    simp [List.append_assoc]

/-- The literal indexed loop computes the same as the structural `carry`. -/
theorem carryLoop_eq_carry (l0 i0 : Nat) (ls is : List Nat) (h : is.length = ls.length) :
    carryLoop (l0 :: ls) (i0 :: is) = (i0 + (carry ls is).2) :: (carry ls is).1 := by
  have := loop_suffix ls.length is ls h rfl [i0] [l0] rfl (by simp) 1
  simp only [List.length_cons, List.length_nil, Nat.zero_add, List.singleton_append] at this
  unfold carryLoop
  simp only [List.length_cons]
  have e : ls.length + 1 - 1 = ls.length := by omega
  have e' : 1 + ls.length - 1 = ls.length := by omega
  rw [e]
  rw [e'] at this
  have hst : (i0 :: is).set ls.length ((i0 :: is).getD ls.length 0 + 1) = addAt (i0 :: is) ls.length 1 := rfl
  rw [hst, this, carry_eq_carryC]
  simp [addAt]

theorem nextLoop_eq_next (it : ShapeIter) (h : it.indexes.length = it.shape.length) :
    it.nextLoop = it.next := by
  obtain ⟨shape, indexes, finished⟩ := it
  simp only at h
  unfold ShapeIter.nextLoop ShapeIter.next
  cases finished with
  | true => simp
  | false =>
    cases shape with
    | nil =>
      cases indexes with
      | nil => simp
      | cons _ _ => simp at h
    | cons l0 ls =>
      cases indexes with
      | nil => simp at h
      | cons i0 is =>
        simp only [List.length_cons, Nat.add_right_cancel_iff] at h
        simp [carryLoop_eq_carry l0 i0 ls is h]


theorem leBounds_length (ls is : List Nat) (h : leBounds ls is = true) : is.length = ls.length := by
  induction ls generalizing is with
  | nil => cases is <;> simp_all [leBounds]
  | cons l ls ih =>
    cases is with
    | nil => simp [leBounds] at h
    | cons i is =>
      simp only [leBounds, Bool.and_eq_true] at h
      simp [ih is h.2]

/-! ### tensor sources -/

/-- a tensor source resolves every index inside its shape, and different indexes to different
    cells (for a view: C02's `view_get_some_iff_inBounds` and `view_get_injective`) -/
structure TSource.WellFormed {κ : Type} (src : TSource κ) : Prop where
  resolves : ∀ idx, inBounds src.shape idx = true → ∃ c, src.cell idx = some c
  injective : ∀ (p q : List Nat) (c : κ), inBounds src.shape p = true → inBounds src.shape q = true →
    src.cell p = some c → src.cell q = some c → p = q

theorem ofTensor_wellFormed {ν α : Type} [DecidableEq ν] (shape : Shape ν) (data : List α)
    (t : Tensor ν α) (ht : Tensor.tryFrom shape data = some t) :
    (TSource.ofTensor t).WellFormed := by
  have hs : (TSource.ofTensor t).shape = shape.map (·.2) := by
    unfold Tensor.tryFrom at ht
    split at ht
    · simp at ht
    · simp only [Option.some.injEq] at ht; subst ht; rfl
  constructor
  · intro idx hb
    rw [hs] at hb
    exact ⟨_, (ofTensor_cell shape data t ht idx hb).1⟩
  · intro p q c hp hq h1 h2
    rw [hs] at hp hq
    rw [(ofTensor_cell shape data t ht p hp).1] at h1
    rw [(ofTensor_cell shape data t ht q hq).1] at h2
    apply ravel_injective _ p q hp hq
    simp only [Option.some.injEq] at h1 h2
    omega

/-! ### std's consumers over an enumerating iterator -/

section Consumers
variable {σ β : Type}

theorem Enumerates_item_some {next : σ → Outcome (Option β × σ)} {s0 : σ} {total : Nat}
    {item : Nat → Option β} {state : Nat → σ} (E : Enumerates next s0 total item state)
    (k : Nat) (hk : k < total) : ∃ x, item k = some x := by
  have := (E.some_iff k).mpr hk
  cases h : item k with
  | none => simp [h] at this
  | some x => exact ⟨x, rfl⟩

theorem drain_spec {next : σ → Outcome (Option β × σ)} {s0 : σ} {total : Nat}
    {item : Nat → Option β} {state : Nat → σ} (E : Enumerates next s0 total item state)
    (fuel k : Nat) :
    drain next fuel (state k) =
      .ok ((List.range' k (min fuel (total - k))).filterMap item,
        state (k + min fuel (total - k + 1))) := by
  induction fuel generalizing k with
  | zero => simp [drain]
  | succ fuel ih =>
    rcases Nat.lt_or_ge k total with hk | hk
    · obtain ⟨x, hx⟩ := Enumerates_item_some E k hk
      have e1 : min (fuel + 1) (total - k) = min fuel (total - (k + 1)) + 1 := by omega
      have e2 : k + 1 + min fuel (total - (k + 1) + 1) = k + min (fuel + 1) (total - k + 1) := by
        omega
      simp only [drain, E.step k, hx, ih (k + 1), e1, List.range'_succ, List.filterMap_cons, e2]
    · have hn := E.item_none k hk
      have e1 : min (fuel + 1) (total - k) = 0 := by omega
      have e2 : k + min (fuel + 1) (total - k + 1) = k + 1 := by omega
      rw [e1, e2]
      simp [drain, E.step k, hn]

theorem drain_length {next : σ → Outcome (Option β × σ)} {s0 : σ} {total : Nat}
    {item : Nat → Option β} {state : Nat → σ} (E : Enumerates next s0 total item state)
    (k n : Nat) (hn : k + n ≤ total) : ((List.range' k n).filterMap item).length = n := by
  induction n generalizing k with
  | zero => simp
  | succ n ih =>
    obtain ⟨x, hx⟩ := Enumerates_item_some E k (by omega)
    simp only [List.range'_succ, List.filterMap_cons, hx, List.length_cons, ih (k + 1) (by omega)]

theorem nthOf_spec {next : σ → Outcome (Option β × σ)} {s0 : σ} {total : Nat}
    {item : Nat → Option β} {state : Nat → σ} (E : Enumerates next s0 total item state)
    (j k : Nat) :
    nthOf next j (state k) =
      .ok (if k + j < total then item (k + j) else none,
        state (k + min (j + 1) (total - k + 1))) := by
  induction j generalizing k with
  | zero =>
    have e : k + min (0 + 1) (total - k + 1) = k + 1 := by omega
    simp only [nthOf, E.step k, Nat.add_zero, e]
    by_cases hk : k < total
    · simp [hk]
    · simp [hk, E.item_none k (by omega)]
  | succ j ih =>
    rcases Nat.lt_or_ge k total with hk | hk
    · obtain ⟨x, hx⟩ := Enumerates_item_some E k hk
      have e1 : k + 1 + min (j + 1) (total - (k + 1) + 1) = k + min (j + 1 + 1) (total - k + 1) := by
        omega
      have e2 : k + 1 + j = k + (j + 1) := by omega
      simp only [nthOf, E.step k, hx, ih (k + 1), e1, e2]
    · have hn := E.item_none k hk
      have e1 : k + min (j + 1 + 1) (total - k + 1) = k + 1 := by omega
      have e2 : ¬ k + (j + 1) < total := by omega
      rw [e1]
      simp [nthOf, E.step k, hn, e2]

end Consumers

/-! ### the with-index wrapper has no state of its own; mapped and writing iterators -/

section Wrappers
variable {σ π κ α β γ : Type}

/-- For *any* step function: the with-index wrapper makes exactly the calls of the wrapped
    iterator — same final state, same items (paired with something), same panics. -/
theorem collect_withIndex (counter : σ → π) (next : σ → Outcome (Option β × σ)) (n : Nat) (s : σ) :
    (∀ xs s', collect next n s = .ok (xs, s') →
      ∃ ys, collect (withIndexNext counter next) n s = .ok (ys, s') ∧
        ys.map (Option.map Prod.snd) = xs) ∧
    (∀ k, collect next n s = .panic k → collect (withIndexNext counter next) n s = .panic k) := by
  induction n generalizing s with
  | zero =>
    refine ⟨fun xs s' h => ?_, fun k h => ?_⟩
    · simp only [collect, Outcome.ok.injEq, Prod.mk.injEq] at h
      exact ⟨[], by simp [collect, h.2], by simp [h.1]⟩
    · simp [collect] at h
  | succ n ih =>
    cases hn : next s with
    | panic k =>
      refine ⟨fun xs s' h => ?_, fun k' h => ?_⟩
      · simp [collect, hn] at h
      · simp only [collect, hn, Outcome.panic.injEq] at h
        simp [collect, withIndexNext, hn, h]
    | ok r =>
      obtain ⟨x, t⟩ := r
      obtain ⟨ih1, ih2⟩ := ih t
      refine ⟨fun xs s' h => ?_, fun k h => ?_⟩
      · simp only [collect, hn] at h
        cases hc : collect next n t with
        | panic k => simp [hc] at h
        | ok r' =>
          obtain ⟨xs', t'⟩ := r'
          simp only [hc, Outcome.ok.injEq, Prod.mk.injEq] at h
          obtain ⟨ys, hy, hm⟩ := ih1 xs' t' hc
          refine ⟨(x.map fun x => (counter s, x)) :: ys, ?_, ?_⟩
          · simp [collect, withIndexNext, hn, hy, h.2]
          · rw [← h.1]
            cases x <;> simp [hm]
      · simp only [collect, hn] at h
        cases hc : collect next n t with
        | ok r' => simp [hc] at h
        | panic k' =>
          simp only [hc, Outcome.panic.injEq] at h
          simp [collect, withIndexNext, hn, ih2 k' hc, h]

/-- a mapped iterator enumerates the mapped items -/
theorem _root_.EasyMl.Spec.Enumerates.map {next : σ → Outcome (Option β × σ)} {s0 : σ}
    {total : Nat} {item : Nat → Option β} {state : Nat → σ}
    (E : Enumerates next s0 total item state) (f : β → γ) :
    Enumerates (mapNext f next) s0 total (fun k => (item k).map f) state where
  start := E.start
  step k := by simp [mapNext, E.step k]
  some_iff k := by simpa using E.some_iff k

/-- memory in which the listed cells have been rewritten with `g` -/
def writtenMem [DecidableEq κ] (mem0 : κ → α) (g : α → α) (cells : List κ) : κ → α :=
  fun c => if c ∈ cells then g (mem0 c) else mem0 c

theorem write_collect_from [DecidableEq κ] {next : σ → Outcome (Option π × σ)} {s0 : σ}
    {total : Nat} {item : Nat → Option π} {state : Nat → σ}
    (E : Enumerates next s0 total item state) (cell : π → Option κ) (cellOf : Nat → κ)
    (hcell : ∀ k, k < total → ∃ p, item k = some p ∧ cell p = some (cellOf k))
    (hinj : ∀ j k, j < total → k < total → cellOf j = cellOf k → j = k)
    (mem0 : κ → α) (g : α → α) (n j : Nat) :
    collect (writeNext next cell g) n
        (state j, writtenMem mem0 g ((List.range (min j total)).map cellOf)) =
      .ok ((List.range' j n).map (fun k => if k < total then some (some (cellOf k)) else none),
        (state (j + n), writtenMem mem0 g ((List.range (min (j + n) total)).map cellOf))) := by
  induction n generalizing j with
  | zero => simp [collect]
  | succ n ih =>
    rcases Nat.lt_or_ge j total with hj | hj
    · obtain ⟨p, hp, hc⟩ := hcell j hj
      have hnot : cellOf j ∉ (List.range (min j total)).map cellOf := by
        intro hmem
        obtain ⟨i, hi, he⟩ := List.mem_map.mp hmem
        have hi' := List.mem_range.mp hi
        have := hinj i j (by omega) hj he
        omega
      have hmem : update (writtenMem mem0 g ((List.range (min j total)).map cellOf)) (cellOf j)
          (g (writtenMem mem0 g ((List.range (min j total)).map cellOf) (cellOf j))) =
          writtenMem mem0 g ((List.range (min (j + 1) total)).map cellOf) := by
        funext c
        have e1 : min j total = j := by omega
        have e2 : min (j + 1) total = j + 1 := by omega
        have hnot' : cellOf j ∉ (List.range j).map cellOf := by rw [e1] at hnot; exact hnot
        simp only [update, writtenMem, e1, e2, List.range_succ, List.map_append, List.mem_append,
          List.map_cons, List.map_nil, List.mem_singleton, hnot', if_false]
        by_cases hcj : c = cellOf j
        · simp [hcj]
        · simp [hcj]
      have hstep : writeNext next cell g
          (state j, writtenMem mem0 g ((List.range (min j total)).map cellOf)) =
          .ok (some (some (cellOf j)), (state (j + 1),
            writtenMem mem0 g ((List.range (min (j + 1) total)).map cellOf))) := by
        simp only [writeNext, E.step j, hp, hc, hmem]
      have e : j + 1 + n = j + (n + 1) := by omega
      simp only [collect, hstep, ih (j + 1), List.range'_succ, List.map_cons, hj, if_true, e]
    · have hnone := E.item_none j hj
      have e1 : min j total = min (j + 1) total := by omega
      have hstep : writeNext next cell g
          (state j, writtenMem mem0 g ((List.range (min j total)).map cellOf)) =
          .ok (none, (state (j + 1),
            writtenMem mem0 g ((List.range (min (j + 1) total)).map cellOf))) := by
        simp only [writeNext, E.step j, hnone, e1]
      have : ¬ j < total := by omega
      have e : j + 1 + n = j + (n + 1) := by omega
      simp only [collect, hstep, ih (j + 1), List.range'_succ, List.map_cons, this, if_false, e]

end Wrappers

/-- reading a list back cell by cell -/
theorem filterMap_range'_getElem?_map {β γ : Type} (f : β → γ) (l pre : List β) :
    (List.range' pre.length l.length).filterMap (fun k => ((pre ++ l)[k]?).map f) = l.map f := by
  induction l generalizing pre with
  | nil => simp
  | cons x xs ih =>
    have e : pre ++ x :: xs = (pre ++ [x]) ++ xs := by simp
    have hx : (pre ++ x :: xs)[pre.length]? = some x := by simp
    simp only [List.length_cons, List.range'_succ, List.filterMap_cons, hx, Option.map_some,
      List.map_cons]
    congr 1
    have := ih (pre ++ [x])
    rw [List.length_append, List.length_singleton] at this
    rw [e]
    exact this

/-- the closure's results in the first `p` cells, the old contents from there on -/
theorem take_map_append_drop {α : Type} (m : Nat → α) (g : α → α) (n p : Nat) :
    (((List.range n).map m).take p).map g ++ ((List.range n).map m).drop p =
      (List.range n).map (fun i => if i < p then g (m i) else m i) := by
  apply List.ext_getElem?
  intro i
  by_cases hi : i < n
  · by_cases hp : i < p
    · rw [List.getElem?_append_left (by simp; omega)]
      simp [hi, hp]
    · rw [List.getElem?_append_right (by simp; omega)]
      simp only [List.length_map, List.length_take, List.length_range, List.getElem?_drop,
        List.getElem?_map]
      have e : p + (i - min p n) = i := by omega
      simp [e, hi, hp]
  · have h1 : ((((List.range n).map m).take p).map g ++ ((List.range n).map m).drop p).length ≤ i := by
      simp; omega
    rw [List.getElem?_eq_none h1, List.getElem?_eq_none (by simp; omega)]

end EasyMl.Iter
