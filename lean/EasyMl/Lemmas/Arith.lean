/-
  EasyMl.Lemmas.Arith — helper lemmas for C03 (tensor and matrix arithmetic): the order of
  `ShapeIterator`, well-formed views, element sequences versus indexed reads.  Core Lean only.
-/
import EasyMl.Model.Arith
import EasyMl.Lemmas.Tensor

namespace EasyMl.Arith
open EasyMl EasyMl.Spec

set_option linter.unusedSectionVars false

variable {ν : Type} [DecidableEq ν] {α : Type}

/-! ### `viewIndices`: the order of `ShapeIterator` is the row-major order -/

theorem range_flatMap_map_add (l P : Nat) :
    ((List.range l).flatMap fun i => (List.range P).map fun r => i * P + r) = List.range (l * P) := by
  induction l with
  | zero => simp
  | succ l ih =>
    rw [List.range_succ, List.flatMap_append, ih]
    simp only [List.flatMap_cons, List.flatMap_nil, List.append_nil]
    rw [Nat.succ_mul, List.range_add]

theorem viewIndices_map_ravel (lens : List Nat) :
    (viewIndices lens).map (ravel lens) = List.range (prod lens) := by
  induction lens with
  | nil => simp [viewIndices, ravel]
  | cons l ls ih =>
    simp only [viewIndices, List.map_flatMap, List.map_map, prod_cons]
    have : ∀ i, (List.map (ravel (l :: ls) ∘ fun x => i :: x) (viewIndices ls))
        = (List.range (prod ls)).map fun r => i * prod ls + r := by
      intro i
      rw [← ih, List.map_map]
      apply List.map_congr_left
      intro t _
      simp [ravel]
    simp only [this]
    exact range_flatMap_map_add l (prod ls)

theorem viewIndices_length (lens : List Nat) : (viewIndices lens).length = prod lens := by
  have := congrArg List.length (viewIndices_map_ravel lens)
  simpa using this

theorem mem_viewIndices (lens idx : List Nat) :
    idx ∈ viewIndices lens ↔ inBounds lens idx = true := by
  induction lens generalizing idx with
  | nil => cases idx <;> simp [viewIndices, inBounds]
  | cons l ls ih =>
    cases idx with
    | nil => simp [viewIndices, inBounds]
    | cons c cs =>
      simp only [viewIndices, List.mem_flatMap, List.mem_range, List.mem_map, List.cons.injEq,
        inBounds, Bool.and_eq_true, decide_eq_true_eq]
      constructor
      · rintro ⟨i, hi, t, ht, rfl, rfl⟩
        exact ⟨hi, (ih t).1 ht⟩
      · rintro ⟨hc, hcs⟩
        exact ⟨c, hc, cs, (ih cs).2 hcs, rfl, rfl⟩

theorem inBounds_length {lens idx : List Nat} (h : inBounds lens idx = true) :
    idx.length = lens.length := by
  induction lens generalizing idx with
  | nil => cases idx <;> simp_all [inBounds]
  | cons l ls ih =>
    cases idx with
    | nil => simp [inBounds] at h
    | cons c cs =>
      simp only [inBounds, Bool.and_eq_true] at h
      simp [ih h.2]

/-- The tuple at row-major position `ravel lens idx` of the iteration is `idx`. -/
theorem viewIndices_getElem?_ravel (lens idx : List Nat) (h : inBounds lens idx = true) :
    (viewIndices lens)[ravel lens idx]? = some idx := by
  have hlt : ravel lens idx < (viewIndices lens).length := by
    rw [viewIndices_length]; exact ravel_lt lens idx h
  have hmap := viewIndices_map_ravel lens
  have h1 : ((viewIndices lens).map (ravel lens))[ravel lens idx]? = some (ravel lens idx) := by
    rw [hmap]
    simp [ravel_lt lens idx h]
  rw [List.getElem?_map] at h1
  rw [List.getElem?_eq_getElem hlt] at h1 ⊢
  simp only [Option.map_some, Option.some.injEq] at h1
  have hmem : (viewIndices lens)[ravel lens idx] ∈ viewIndices lens := List.getElem_mem hlt
  have hb := (mem_viewIndices lens _).1 hmem
  rw [ravel_injective lens _ idx hb h h1]

/-! ### Valid shapes and tensors -/

theorem hasDuplicates_eq_false_iff (l : List ν) : hasDuplicates l = false ↔ l.Nodup := by
  induction l with
  | nil => simp [hasDuplicates]
  | cons x xs ih =>
    simp only [hasDuplicates, Bool.or_eq_false_iff, List.nodup_cons, ih]
    simp

/-- A tensor that `Tensor::from` can have produced. -/
structure Tensor.Valid (t : Tensor ν α) : Prop where
  strides : t.strides = computeStrides t.shape
  len : t.data.length = elements t.shape
  shape : ValidShape t.shape

theorem any_zero_eq_false_iff (shape : Shape ν) :
    shape.any (·.2 == 0) = false ↔ ∀ d ∈ shape, 1 ≤ d.2 := by
  induction shape with
  | nil => simp
  | cons x xs ih =>
    simp only [List.any_cons, Bool.or_eq_false_iff, ih, List.mem_cons, forall_eq_or_imp,
      beq_eq_false_iff_ne]
    constructor
    · rintro ⟨h1, h2⟩; exact ⟨by omega, h2⟩
    · rintro ⟨h1, h2⟩; exact ⟨by omega, h2⟩

theorem validateDimensions_eq_none_iff (shape : Shape ν) (n : Nat) :
    validateDimensions shape n = none ↔ n = elements shape ∧ ValidShape shape := by
  unfold validateDimensions ValidShape
  rw [← hasDuplicates_eq_false_iff, ← any_zero_eq_false_iff]
  by_cases h1 : n = elements shape
  · cases h2 : hasDuplicates (shape.map (·.1)) with
    | true => simp [h1]
    | false =>
      cases h3 : shape.any (·.2 == 0) with
      | true => simp [h1]
      | false => simp [h1]
  · simp [h1]

theorem tryFrom_eq_some_iff (shape : Shape ν) (data : List α) (t : Tensor ν α) :
    Tensor.tryFrom shape data = some t ↔
      (data.length = elements shape ∧ ValidShape shape ∧
        t = { data := data, shape := shape, strides := computeStrides shape }) := by
  unfold Tensor.tryFrom
  cases hv : validateDimensions shape data.length with
  | some e =>
    have : ¬ (data.length = elements shape ∧ ValidShape shape) := by
      rw [← validateDimensions_eq_none_iff]; simp [hv]
    simp only [reduceCtorEq, false_iff, not_and]
    intro h1 h2; exact absurd ⟨h1, h2⟩ this
  | none =>
    have := (validateDimensions_eq_none_iff shape data.length).1 hv
    simp only [Option.some.injEq, this.1, this.2, true_and]
    constructor <;> (intro h; exact h.symm)

theorem tryFrom_valid {shape : Shape ν} {data : List α} {t : Tensor ν α}
    (h : Tensor.tryFrom shape data = some t) : Tensor.Valid t ∧ t.shape = shape ∧ t.data = data := by
  obtain ⟨h1, h2, rfl⟩ := (tryFrom_eq_some_iff shape data t).1 h
  exact ⟨⟨rfl, h1, h2⟩, rfl, rfl⟩

theorem tensorFrom_eq_ok (shape : Shape ν) (data : List α) (h1 : data.length = elements shape)
    (h2 : ValidShape shape) :
    tensorFrom shape data = .ok { data := data, shape := shape, strides := computeStrides shape } := by
  unfold tensorFrom
  rw [(tryFrom_eq_some_iff shape data _).2 ⟨h1, h2, rfl⟩]

theorem tensorFrom_eq_panic (shape : Shape ν) (data : List α)
    (h : ¬ (data.length = elements shape ∧ ValidShape shape)) :
    tensorFrom shape data = .panic .explicit := by
  unfold tensorFrom
  cases ht : Tensor.tryFrom shape data with
  | none => rfl
  | some t =>
    have := (tryFrom_eq_some_iff shape data t).1 ht
    exact absurd ⟨this.1, this.2.1⟩ h

/-- Reads of a valid tensor: in bounds ⇒ the row-major entry of the data. -/
theorem Tensor.Valid.get_eq {t : Tensor ν α} (ht : Tensor.Valid t) (idx : List Nat)
    (hlen : idx.length = t.shape.length) :
    t.get idx = if inBounds (t.shape.map (·.2)) idx then t.data[ravel (t.shape.map (·.2)) idx]?
      else none := by
  unfold Tensor.get Tensor.offset getIndexDirect
  rw [ht.strides, getIndexDirectGo_eq t.shape idx 0 hlen]
  by_cases h : inBounds (t.shape.map (·.2)) idx = true <;> simp [h]

/-! ### Well-formed views -/

/-- The `TensorRef` contract a view must meet: a valid shape, an element at every in-range index
    tuple and none at the others. -/
structure TView.WF (v : TView ν α) : Prop where
  shape : ValidShape v.shape
  some_of_inBounds : ∀ idx, inBounds v.lens idx = true → (v.get idx).isSome = true
  none_of_not : ∀ idx, idx.length = v.shape.length → inBounds v.lens idx = false → v.get idx = none

theorem TView.WF.elems_map_some {v : TView ν α} (h : v.WF) :
    v.elems.map some = (viewIndices v.lens).map v.get := by
  unfold TView.elems
  have : ∀ l : List (List Nat), (∀ idx ∈ l, (v.get idx).isSome = true) →
      (l.filterMap v.get).map some = l.map v.get := by
    intro l
    induction l with
    | nil => simp
    | cons x xs ih =>
      intro hall
      have hx := hall x (by simp)
      obtain ⟨a, ha⟩ := Option.isSome_iff_exists.1 hx
      simp only [List.filterMap_cons, ha, List.map_cons]
      rw [ih (fun idx hi => hall idx (by simp [hi]))]
  exact this _ (fun idx hi => h.some_of_inBounds idx ((mem_viewIndices _ _).1 hi))

theorem TView.WF.elems_length {v : TView ν α} (h : v.WF) : v.elems.length = elements v.shape := by
  have := congrArg List.length h.elems_map_some
  simp only [List.length_map, viewIndices_length] at this
  simpa [elements, TView.lens] using this

/-- Position `ravel idx` of the view-order element sequence holds the element at `idx`. -/
theorem TView.WF.elems_getElem? {v : TView ν α} (h : v.WF) (idx : List Nat)
    (hb : inBounds v.lens idx = true) : v.elems[ravel v.lens idx]? = v.get idx := by
  have h1 := congrArg (fun l => l[ravel v.lens idx]?) h.elems_map_some
  simp only [List.getElem?_map, viewIndices_getElem?_ravel _ _ hb, Option.map_some] at h1
  cases he : v.elems[ravel v.lens idx]? with
  | none => simp [he] at h1
  | some a => simp only [he, Option.map_some] at h1; exact Option.some.inj h1

theorem filterMap_congr' {β γ : Type} {f g : β → Option γ} {l : List β}
    (h : ∀ x ∈ l, f x = g x) : l.filterMap f = l.filterMap g := by
  induction l with
  | nil => rfl
  | cons x xs ih =>
    simp only [List.filterMap_cons, h x (by simp)]
    rw [ih (fun y hy => h y (by simp [hy]))]

theorem range_filterMap_getElem? (data : List α) :
    (List.range data.length).filterMap (fun i => data[i]?) = data := by
  induction data with
  | nil => simp
  | cons x xs ih =>
    rw [List.length_cons, List.range_succ_eq_map]
    simp only [List.filterMap_cons, List.getElem?_cons_zero, List.filterMap_map]
    congr 1

/-- The `direct_iter_reference` shortcut: for a `Tensor` the flat storage order *is* the view
    order. -/
theorem ofTensor_elems {t : Tensor ν α} (ht : Tensor.Valid t) : (TView.ofTensor t).elems = t.data := by
  unfold TView.elems TView.ofTensor TView.lens
  simp only
  have hget : ∀ idx ∈ viewIndices (t.shape.map (·.2)),
      t.get idx = t.data[ravel (t.shape.map (·.2)) idx]? := by
    intro idx hi
    have hb := (mem_viewIndices _ _).1 hi
    have hl := inBounds_length hb
    rw [ht.get_eq idx (by simpa using hl)]
    simp [hb]
  rw [filterMap_congr' hget]
  have : List.filterMap (fun idx => t.data[ravel (t.shape.map (·.2)) idx]?) (viewIndices (t.shape.map (·.2)))
      = List.filterMap (fun i => t.data[i]?) ((viewIndices (t.shape.map (·.2))).map (ravel (t.shape.map (·.2)))) := by
    rw [List.filterMap_map]; rfl
  rw [this, viewIndices_map_ravel]
  have hl : prod (t.shape.map (·.2)) = t.data.length := by rw [ht.len]; rfl
  rw [hl]
  exact range_filterMap_getElem? t.data

theorem ofTensor_WF {t : Tensor ν α} (ht : Tensor.Valid t) : (TView.ofTensor t).WF := by
  refine ⟨ht.shape, ?_, ?_⟩
  · intro idx hb
    have hl := inBounds_length hb
    show (t.get idx).isSome = true
    rw [ht.get_eq idx (by simpa [TView.ofTensor, TView.lens] using hl)]
    have hb' : inBounds (t.shape.map (·.2)) idx = true := hb
    simp only [hb', if_true]
    have hlt := ravel_lt _ _ hb'
    have : ravel (t.shape.map (·.2)) idx < t.data.length := by rw [ht.len]; exact hlt
    simp [this]
  · intro idx hl hb
    show t.get idx = none
    rw [ht.get_eq idx hl]
    have hb' : inBounds (t.shape.map (·.2)) idx = false := hb
    simp [hb']

/-! ### Operands -/

/-- A well-formed operand: a tensor `Tensor::from` can have produced / a view meeting the
    `TensorRef` contract. -/
def Operand.WF : Operand ν α → Prop
  | .tensor t => Tensor.Valid t
  | .view v => v.WF

theorem Operand.asView_shape (o : Operand ν α) : o.asView.shape = o.shape := by
  cases o <;> rfl

theorem Operand.WF.asView {o : Operand ν α} (h : o.WF) : o.asView.WF := by
  cases o with
  | tensor t => exact ofTensor_WF h
  | view v => exact h

theorem Operand.WF.validShape {o : Operand ν α} (h : o.WF) : ValidShape o.shape := by
  rw [← Operand.asView_shape]; exact h.asView.shape

/-- Whatever the operand kind, the sequence the operators zip is the view-order sequence. -/
theorem Operand.WF.seq_eq {o : Operand ν α} (h : o.WF) : o.seq = o.asView.elems := by
  cases o with
  | tensor t => exact (ofTensor_elems h).symm
  | view v => rfl

theorem Operand.WF.seq_length {o : Operand ν α} (h : o.WF) : o.seq.length = elements o.shape := by
  rw [h.seq_eq, h.asView.elems_length, Operand.asView_shape]

theorem Operand.WF.seq_getElem? {o : Operand ν α} (h : o.WF) (idx : List Nat)
    (hb : inBounds (o.shape.map (·.2)) idx = true) :
    o.seq[ravel (o.shape.map (·.2)) idx]? = o.asView.get idx := by
  rw [h.seq_eq]
  have := h.asView.elems_getElem? idx (by simpa [TView.lens, Operand.asView_shape] using hb)
  simpa [TView.lens, Operand.asView_shape] using this

/-! ### `outcomeMapM` -/

theorem outcomeMapM_eq_ok {β γ : Type} (f : β → Outcome γ) (g : β → γ) (l : List β)
    (h : ∀ x ∈ l, f x = .ok (g x)) : outcomeMapM f l = .ok (l.map g) := by
  induction l with
  | nil => rfl
  | cons x xs ih =>
    simp only [outcomeMapM, h x (by simp), ih (fun y hy => h y (by simp [hy])), List.map_cons]

/-! ### Row-major tables -/

/-- A `rows × cols` table listed row by row is the list of `f (k / cols) (k % cols)`. -/
theorem table_eq_map_range (rows cols : Nat) {β : Type} (f : Nat → Nat → β) :
    ((List.range rows).flatMap fun i => (List.range cols).map fun j => f i j)
      = (List.range (rows * cols)).map fun k => f (k / cols) (k % cols) := by
  rw [← range_flatMap_map_add rows cols, List.map_flatMap]
  congr 1
  funext i
  rw [List.map_map]
  apply List.map_congr_left
  intro j hj
  simp only [List.mem_range] at hj
  have hc : 0 < cols := by omega
  simp only [Function.comp]
  have h1 : (i * cols + j) / cols = i := by
    rw [Nat.mul_comm, Nat.mul_add_div hc, Nat.div_eq_of_lt hj]; simp
  have h2 : (i * cols + j) % cols = j := by
    rw [Nat.mul_comm, Nat.mul_add_mod, Nat.mod_eq_of_lt hj]
  rw [h1, h2]

theorem table_length (rows cols : Nat) {β : Type} (f : Nat → Nat → β) :
    ((List.range rows).flatMap fun i => (List.range cols).map fun j => f i j).length = rows * cols := by
  rw [table_eq_map_range]; simp

theorem table_getElem? (rows cols : Nat) {β : Type} (f : Nat → Nat → β) (i j : Nat)
    (hi : i < rows) (hj : j < cols) :
    ((List.range rows).flatMap fun i => (List.range cols).map fun j => f i j)[i * cols + j]?
      = some (f i j) := by
  rw [table_eq_map_range]
  have hlt : i * cols + j < rows * cols := by
    calc i * cols + j < i * cols + cols := by omega
      _ = (i + 1) * cols := by rw [Nat.add_mul]; simp
      _ ≤ rows * cols := Nat.mul_le_mul_right _ hi
  have hc : 0 < cols := by omega
  have h1 : (i * cols + j) / cols = i := by
    rw [Nat.mul_comm, Nat.mul_add_div hc, Nat.div_eq_of_lt hj]; simp
  have h2 : (i * cols + j) % cols = j := by
    rw [Nat.mul_comm, Nat.mul_add_mod, Nat.mod_eq_of_lt hj]
  simp [hlt, h1, h2]

theorem flatMap_singleton_range (n : Nat) {β : Type} (f : Nat → β) :
    ((List.range n).flatMap fun i => [f i]) = (List.range n).map f := by
  induction n with
  | zero => rfl
  | succ n ih => rw [List.range_succ]; simp [ih]

theorem viewIndices_one (n : Nat) : viewIndices [n] = (List.range n).map fun i => [i] := by
  simp only [viewIndices, List.map_cons, List.map_nil]
  exact flatMap_singleton_range n _

theorem viewIndices_two (m k : Nat) :
    viewIndices [m, k] = (List.range m).flatMap fun i => (List.range k).map fun j => [i, j] := by
  have h1 := viewIndices_one k
  simp only [viewIndices] at h1 ⊢
  simp only [h1, List.map_map]
  rfl

/-! ### The scalar product -/

/-- `f 0 + f 1 + … + f n`, associated to the left and starting from `f 0` (no zero is added):
    the value `Iterator::reduce(|x, y| x + y)` computes. -/
def leftSum [Add α] (f : Nat → α) : Nat → α
  | 0 => f 0
  | n + 1 => leftSum f n + f (n + 1)

theorem foldl_add_range_succ [Add α] (f : Nat → α) (n : Nat) :
    ((List.range n).map fun p => f (p + 1)).foldl (· + ·) (f 0) = leftSum f n := by
  induction n with
  | zero => rfl
  | succ n ih =>
    rw [List.range_succ, List.map_append, List.foldl_append, ih]
    rfl

theorem scalarProduct_range [Add α] [Mul α] (f g : Nat → α) (n : Nat) :
    scalarProduct ((List.range (n + 1)).map f) ((List.range (n + 1)).map g)
      = some (leftSum (fun p => f p * g p) n) := by
  unfold scalarProduct
  have : List.zipWith (· * ·) ((List.range (n + 1)).map f) ((List.range (n + 1)).map g)
      = (List.range (n + 1)).map fun p => f p * g p := by
    rw [List.zipWith_map_left, List.zipWith_map_right, List.zipWith_self]
  rw [this, List.range_succ_eq_map]
  simp only [List.map_cons, List.map_map]
  rw [← foldl_add_range_succ (fun p => f p * g p) n]
  rfl

theorem scalarProduct_nil_left [Add α] [Mul α] (r : List α) : scalarProduct ([] : List α) r = none := by
  simp [scalarProduct]

/-! ### Matrix multiplication of tensors -/

/-- the entries of a 2-dimensional view are given by the table `A` -/
def TView.HasEntries (v : TView ν α) (m n : Nat) (A : Nat → Nat → α) : Prop :=
  ∀ i j, i < m → j < n → v.get [i, j] = some (A i j)

theorem filterMap_range_some {β : Type} (n : Nat) (g : Nat → Option β) (f : Nat → β)
    (h : ∀ k, k < n → g k = some (f k)) : (List.range n).filterMap g = (List.range n).map f := by
  rw [filterMap_congr' (g := fun k => some (f k)) (fun k hk => h k (List.mem_range.1 hk))]
  exact congrFun List.filterMap_eq_map _

theorem elems_one (b : ν) (n : Nat) (g : List Nat → Option α) :
    TView.elems (⟨[(b, n)], g⟩ : TView ν α) = (List.range n).filterMap fun k => g [k] := by
  simp only [TView.elems, TView.lens, List.map_cons, List.map_nil, viewIndices_one,
    List.filterMap_map]
  rfl

theorem select_row {v : TView ν α} {a b : ν} {m n : Nat} (hs : v.shape = [(a, m), (b, n)])
    (i : Nat) (hi : i < m) :
    v.select a i = .ok ⟨[(b, n)], fun idx => v.get (idx.insertIdx 0 i)⟩ := by
  simp [TView.select, hs, findPos, hi]

theorem select_col {v : TView ν α} {a b : ν} {m n : Nat} (hs : v.shape = [(a, m), (b, n)])
    (hab : a ≠ b) (j : Nat) (hj : j < n) :
    v.select b j = .ok ⟨[(a, m)], fun idx => v.get (idx.insertIdx 1 j)⟩ := by
  simp [TView.select, hs, findPos, hj, hab]

theorem matMulCell_eq [Add α] [Mul α] {l r : TView ν α} {a b c d : ν} {m n k : Nat}
    (hls : l.shape = [(a, m), (b, n + 1)]) (hrs : r.shape = [(c, n + 1), (d, k)])
    (hcd : c ≠ d) {A B : Nat → Nat → α} (hA : l.HasEntries m (n + 1) A)
    (hB : r.HasEntries (n + 1) k B) (i j : Nat) (hi : i < m) (hj : j < k) :
    matMulCell l r a d [i, j] = .ok (leftSum (fun p => A i p * B p j) n) := by
  simp only [matMulCell, select_row hls i hi, select_col hrs hcd j hj, elems_one]
  rw [filterMap_range_some (n + 1) _ (fun p => A i p) (fun p hp => by simpa using hA i p hi hp),
    filterMap_range_some (n + 1) _ (fun p => B p j) (fun p hp => by simpa using hB p j hp hj),
    scalarProduct_range]

theorem matMul_eq [Add α] [Mul α] [Zero α] {l r : TView ν α} {a b c d : ν} {m n k : Nat}
    (hls : l.shape = [(a, m), (b, n + 1)]) (hrs : r.shape = [(c, n + 1), (d, k)])
    (hcd : c ≠ d) (had : a ≠ d) (hm : 1 ≤ m) (hk : 1 ≤ k)
    {A B : Nat → Nat → α} (hA : l.HasEntries m (n + 1) A) (hB : r.HasEntries (n + 1) k B) :
    matMul l r = .ok (Tensor.mk
      ((List.range m).flatMap fun i => (List.range k).map fun j => leftSum (fun p => A i p * B p j) n)
      [(a, m), (d, k)] (computeStrides [(a, m), (d, k)])) := by
  have hvs : ValidShape [(a, m), (d, k)] := by
    constructor
    · simp [had]
    · intro x hx
      simp only [List.mem_cons, List.not_mem_nil, or_false] at hx
      rcases hx with rfl | rfl <;> assumption
  simp only [matMul, hls, hrs, if_true, had, if_false]
  rw [tensorFrom_eq_ok _ _ (by simp) hvs]
  simp only
  rw [outcomeMapM_eq_ok _ (fun idx => leftSum (fun p => A (idx.getD 0 0) p * B p (idx.getD 1 0)) n)]
  · simp only [viewIndices_two, List.map_flatMap, List.map_map]
    rfl
  · intro idx hidx
    rw [viewIndices_two] at hidx
    simp only [List.mem_flatMap, List.mem_range, List.mem_map] at hidx
    obtain ⟨i, hi, j, hj, rfl⟩ := hidx
    exact matMulCell_eq hls hrs hcd hA hB i j hi hj

/-! ### Matrices -/

/-- The `MatrixRef` contract: at least 1×1, an element exactly at the in-range indexes. -/
structure MView.WF (v : MView α) : Prop where
  rows_pos : 1 ≤ v.rows
  cols_pos : 1 ≤ v.columns
  some_of_lt : ∀ i j, i < v.rows → j < v.columns → (v.get i j).isSome = true
  none_of_not : ∀ i j, ¬ (i < v.rows ∧ j < v.columns) → v.get i j = none

theorem map_some_injective {β : Type} {l₁ l₂ : List β} (h : l₁.map some = l₂.map some) : l₁ = l₂ := by
  have := congrArg (List.filterMap id) h
  simpa [List.filterMap_map] using this

theorem filterMap_map_some_of_isSome {β γ : Type} (l : List β) (g : β → Option γ)
    (h : ∀ x ∈ l, (g x).isSome = true) : (l.filterMap g).map some = l.map g := by
  induction l with
  | nil => simp
  | cons x xs ih =>
    obtain ⟨a, ha⟩ := Option.isSome_iff_exists.1 (h x (by simp))
    simp only [List.filterMap_cons, ha, List.map_cons]
    rw [ih (fun y hy => h y (by simp [hy]))]

theorem flatMap_congr' {β γ : Type} {f g : β → List γ} {l : List β}
    (h : ∀ x ∈ l, f x = g x) : l.flatMap f = l.flatMap g := by
  induction l with
  | nil => rfl
  | cons x xs ih =>
    simp only [List.flatMap_cons, h x (by simp)]
    rw [ih (fun y hy => h y (by simp [hy]))]

theorem MView.WF.elems_map_some {v : MView α} (h : v.WF) :
    v.elems.map some = (List.range v.rows).flatMap fun i => (List.range v.columns).map fun j => v.get i j := by
  unfold MView.elems
  rw [List.map_flatMap]
  apply flatMap_congr'
  intro i hi
  apply filterMap_map_some_of_isSome
  intro j hj
  exact h.some_of_lt i j (List.mem_range.1 hi) (List.mem_range.1 hj)

theorem MView.WF.elems_length {v : MView α} (h : v.WF) : v.elems.length = v.rows * v.columns := by
  have := congrArg List.length h.elems_map_some
  rw [List.length_map, table_length] at this
  exact this

theorem MView.WF.elems_getElem? {v : MView α} (h : v.WF) (i j : Nat) (hi : i < v.rows)
    (hj : j < v.columns) : v.elems[i * v.columns + j]? = v.get i j := by
  have h1 := congrArg (fun l => l[i * v.columns + j]?) h.elems_map_some
  simp only [List.getElem?_map, table_getElem? _ _ _ i j hi hj] at h1
  cases he : v.elems[i * v.columns + j]? with
  | none => simp [he] at h1
  | some a => simp only [he, Option.map_some] at h1; exact Option.some.inj h1

theorem Matrix.tryGet_eq (m : Matrix α) (i j : Nat) :
    m.tryGet i j = if i < m.rows ∧ j < m.columns then m.data[i * m.columns + j]? else none := by
  unfold Matrix.tryGet Matrix.getIndex
  rw [Nat.add_comm]

theorem ofMatrix_WF {m : Matrix α} (h : m.Inv) : (MView.ofMatrix m).WF := by
  refine ⟨h.2.1, h.2.2, ?_, ?_⟩
  · intro i j hi hj
    show (m.tryGet i j).isSome = true
    have hi' : i < m.rows := hi
    have hj' : j < m.columns := hj
    rw [Matrix.tryGet_eq, if_pos ⟨hi', hj'⟩]
    have : i * m.columns + j < m.data.length := by
      rw [h.1]
      calc i * m.columns + j < i * m.columns + m.columns := by omega
        _ = (i + 1) * m.columns := by rw [Nat.add_mul]; simp
        _ ≤ m.rows * m.columns := Nat.mul_le_mul_right _ hi'
    simp [this]
  · intro i j hn
    show m.tryGet i j = none
    rw [Matrix.tryGet_eq]
    have hn' : ¬ (i < m.rows ∧ j < m.columns) := hn
    simp [hn']

/-- `direct_row_major_reference_iter` of a `Matrix` is its row-major order. -/
theorem ofMatrix_elems {m : Matrix α} (h : m.Inv) : (MView.ofMatrix m).elems = m.data := by
  apply map_some_injective
  rw [(ofMatrix_WF h).elems_map_some, table_eq_map_range]
  show List.map (fun k => m.tryGet (k / m.columns) (k % m.columns)) (List.range (m.rows * m.columns)) = _
  rw [← h.1]
  apply List.ext_getElem?
  intro k
  simp only [List.getElem?_map]
  by_cases hk : k < m.data.length
  · have hc : 0 < m.columns := h.2.2
    have hk' : k < m.rows * m.columns := by rw [← h.1]; exact hk
    have hdiv : k / m.columns < m.rows := (Nat.div_lt_iff_lt_mul hc).2 hk'
    have hmod : k % m.columns < m.columns := Nat.mod_lt _ hc
    have hre : k / m.columns * m.columns + k % m.columns = k := by
      rw [Nat.mul_comm]; exact Nat.div_add_mod k m.columns
    have hr : (List.range m.data.length)[k]? = some k := by simp [hk]
    rw [hr, Option.map_some, Matrix.tryGet_eq, if_pos ⟨hdiv, hmod⟩, hre]
    simp [hk]
  · simp [hk]

def MOperand.WF : MOperand α → Prop
  | .matrix m => m.Inv
  | .view v => v.WF

theorem MOperand.asView_size (o : MOperand α) : (o.asView.rows, o.asView.columns) = o.size := by
  cases o <;> rfl

theorem MOperand.WF.asView {o : MOperand α} (h : o.WF) : o.asView.WF := by
  cases o with
  | matrix m => exact ofMatrix_WF h
  | view v => exact h

theorem MOperand.WF.seq_eq {o : MOperand α} (h : o.WF) : o.seq = o.asView.elems := by
  cases o with
  | matrix m => exact (ofMatrix_elems h).symm
  | view v => rfl

theorem MOperand.WF.seq_length {o : MOperand α} (h : o.WF) : o.seq.length = o.size.1 * o.size.2 := by
  rw [h.seq_eq, h.asView.elems_length, ← MOperand.asView_size]

theorem MOperand.WF.seq_getElem? {o : MOperand α} (h : o.WF) (i j : Nat) (hi : i < o.size.1)
    (hj : j < o.size.2) : o.seq[i * o.size.2 + j]? = o.asView.get i j := by
  rw [h.seq_eq]
  have hs := MOperand.asView_size o
  have h1 : o.asView.rows = o.size.1 := congrArg Prod.fst hs
  have h2 : o.asView.columns = o.size.2 := congrArg Prod.snd hs
  rw [← h2]
  exact h.asView.elems_getElem? i j (by rw [h1]; exact hi) (by rw [h2]; exact hj)

theorem matrixFromFlat_eq_ok (size : Nat × Nat) (values : List α)
    (h1 : size.1 * size.2 = values.length) (h2 : values ≠ []) :
    matrixFromFlat size values = .ok ⟨values, size.1, size.2⟩ := by
  simp [matrixFromFlat, Matrix.fromFlatRowMajor, h1, h2]

theorem matrixFromFlat_eq_panic (size : Nat × Nat) (values : List α)
    (h : ¬ (size.1 * size.2 = values.length ∧ values ≠ [])) :
    matrixFromFlat size values = .panic .explicit := by
  simp only [matrixFromFlat, Matrix.fromFlatRowMajor]
  rw [if_neg h]

/-- the entries of a matrix view are given by the table `A` -/
def MView.HasEntries (v : MView α) (A : Nat → Nat → α) : Prop :=
  ∀ i j, i < v.rows → j < v.columns → v.get i j = some (A i j)

theorem mMatMulCell_eq [Add α] [Mul α] {l r : MView α} {n : Nat}
    (hl : l.columns = n + 1) (hr : r.rows = n + 1) {A B : Nat → Nat → α}
    (hA : l.HasEntries A) (hB : r.HasEntries B) (i j : Nat) (hi : i < l.rows) (hj : j < r.columns) :
    mMatMulCell l r (i, j) = .ok (leftSum (fun p => A i p * B p j) n) := by
  have h1 : l.row i = .ok ((List.range (n + 1)).map fun p => A i p) := by
    unfold MView.row
    rw [if_pos ⟨hi, by omega⟩, hl]
    rw [filterMap_range_some (n + 1) _ (fun p => A i p) (fun p hp => hA i p hi (by omega))]
  have h2 : r.column j = .ok ((List.range (n + 1)).map fun p => B p j) := by
    unfold MView.column
    rw [if_pos ⟨by omega, hj⟩, hr]
    rw [filterMap_range_some (n + 1) _ (fun p => B p j) (fun p hp => hB p j (by omega) hj)]
  simp only [mMatMulCell, h1, h2, scalarProduct_range]

theorem mMatMul_eq [Add α] [Mul α] [Zero α] {l r : MView α} {n : Nat}
    (hl : l.columns = n + 1) (hr : r.rows = n + 1) (hm : 1 ≤ l.rows) (hk : 1 ≤ r.columns)
    {A B : Nat → Nat → α} (hA : l.HasEntries A) (hB : r.HasEntries B) :
    mMatMul l r = .ok ⟨(List.range l.rows).flatMap fun i => (List.range r.columns).map fun j =>
      leftSum (fun p => A i p * B p j) n, l.rows, r.columns⟩ := by
  unfold mMatMul
  rw [if_pos (by omega), if_pos ⟨by omega, by omega⟩]
  rw [outcomeMapM_eq_ok _ (fun ij => leftSum (fun p => A ij.1 p * B p ij.2) n)]
  · simp only [List.map_flatMap, List.map_map]
    rfl
  · intro ij hij
    simp only [List.mem_flatMap, List.mem_range, List.mem_map] at hij
    obtain ⟨i, hi, j, hj, rfl⟩ := hij
    exact mMatMulCell_eq hl hr hA hB i j hi hj


/-! ### Tables of entries exist for well-formed views -/

theorem TView.WF.exists_entries {v : TView ν α} (h : v.WF) {a b : ν} {m n : Nat}
    (hs : v.shape = [(a, m), (b, n)]) : ∃ A, v.HasEntries m n A := by
  have hm : 1 ≤ m := h.shape.2 (a, m) (by simp [hs])
  have hn : 1 ≤ n := h.shape.2 (b, n) (by simp [hs])
  have h0 := h.some_of_inBounds [0, 0] (by simp [TView.lens, hs, inBounds]; omega)
  obtain ⟨x, _⟩ := Option.isSome_iff_exists.1 h0
  refine ⟨fun i j => (v.get [i, j]).getD x, ?_⟩
  intro i j hi hj
  have := h.some_of_inBounds [i, j] (by simp [TView.lens, hs, inBounds, hi, hj])
  obtain ⟨y, hy⟩ := Option.isSome_iff_exists.1 this
  simp [hy]

theorem MView.WF.exists_entries {v : MView α} (h : v.WF) : ∃ A, v.HasEntries A := by
  have h0 := h.some_of_lt 0 0 h.rows_pos h.cols_pos
  obtain ⟨x, _⟩ := Option.isSome_iff_exists.1 h0
  refine ⟨fun i j => (v.get i j).getD x, ?_⟩
  intro i j hi hj
  obtain ⟨y, hy⟩ := Option.isSome_iff_exists.1 (h.some_of_lt i j hi hj)
  simp [hy]

/-- A hand-made transposing view (what `TensorAccess`/`TensorTranspose` do on two dimensions):
    iteration order differs from the source's.  Used for the non-vacuity examples. -/
def TView.swap2 (v : TView ν α) : TView ν α :=
  match v.shape with
  | [d0, d1] => ⟨[d1, d0], fun idx => match idx with
      | [j, i] => v.get [i, j]
      | _ => none⟩
  | _ => v

theorem TView.WF.swap2 {v : TView ν α} (h : v.WF) {a b : ν} {m n : Nat}
    (hs : v.shape = [(a, m), (b, n)]) : v.swap2.WF ∧ v.swap2.shape = [(b, n), (a, m)] := by
  have hsw : v.swap2 = ⟨[(b, n), (a, m)], fun idx => match idx with
      | [j, i] => v.get [i, j]
      | _ => none⟩ := by
    simp [TView.swap2, hs]
  rw [hsw]
  refine ⟨⟨?_, ?_, ?_⟩, rfl⟩
  · have := h.shape
    rw [hs] at this
    obtain ⟨hn, hl⟩ := this
    constructor
    · simp only [List.map_cons, List.map_nil, List.nodup_cons, List.mem_cons, List.not_mem_nil,
        or_false, not_false_eq_true, List.nodup_nil, and_true] at hn ⊢
      exact fun h => hn h.symm
    · intro d hd
      simp only [List.mem_cons, List.not_mem_nil, or_false] at hd
      rcases hd with rfl | rfl
      · exact hl (b, n) (by simp)
      · exact hl (a, m) (by simp)
  · intro idx hb
    have hl := inBounds_length hb
    match idx, hl with
    | [j, i], _ =>
      simp only [TView.lens, List.map_cons, List.map_nil, inBounds, Bool.and_eq_true,
        decide_eq_true_eq, and_true] at hb
      exact h.some_of_inBounds [i, j] (by simp [TView.lens, hs, inBounds, hb.1, hb.2])
  · intro idx hl hb
    match idx, hl with
    | [j, i], _ =>
      simp only [TView.lens, List.map_cons, List.map_nil, inBounds, 
        Bool.and_true] at hb
      apply h.none_of_not [i, j] (by simp [hs])
      simp only [TView.lens, hs, List.map_cons, List.map_nil, inBounds, Bool.and_true]
      rcases Nat.lt_or_ge j n with hj | hj
      · rcases Nat.lt_or_ge i m with hi | hi
        · simp [hi, hj] at hb
        · simp [Nat.not_lt.2 hi]
      · simp [Nat.not_lt.2 hj]

/-- A 2-dimensional tensor view (dimension names `a`, `b`) and a matrix view that show the same
    table. -/
structure SameTable (tv : TView ν α) (mv : MView α) (a b : ν) : Prop where
  shape : tv.shape = [(a, mv.rows), (b, mv.columns)]
  get : ∀ i j, tv.get [i, j] = mv.get i j

theorem SameTable.elems_eq {tv : TView ν α} {mv : MView α} {a b : ν} (h : SameTable tv mv a b)
    (htv : tv.WF) (hmv : mv.WF) : tv.elems = mv.elems := by
  apply map_some_injective
  rw [htv.elems_map_some, hmv.elems_map_some]
  simp only [TView.lens, h.shape, List.map_cons, List.map_nil, viewIndices_two, List.map_flatMap,
    List.map_map]
  apply flatMap_congr'
  intro i _
  apply List.map_congr_left
  intro j _
  exact h.get i j

/-- a valid 2-dimensional tensor and the matrix with the same flat data show the same table -/
theorem sameTable_of_same_data {t : Tensor ν α} (ht : Tensor.Valid t) {a b : ν} {R C : Nat}
    (hs : t.shape = [(a, R), (b, C)]) :
    SameTable (TView.ofTensor t) (MView.ofMatrix ⟨t.data, R, C⟩) a b := by
  refine ⟨hs, ?_⟩
  intro i j
  show t.get [i, j] = Matrix.tryGet ⟨t.data, R, C⟩ i j
  rw [ht.get_eq [i, j] (by simp [hs]), Matrix.tryGet_eq]
  simp only [hs, List.map_cons, List.map_nil, inBounds, ravel, Bool.and_true, Bool.and_eq_true,
    decide_eq_true_eq, prod_cons, prod_nil, Nat.mul_one, Nat.add_zero]

end EasyMl.Arith
