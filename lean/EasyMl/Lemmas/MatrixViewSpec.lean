/-
  EasyMl.Lemmas.MatrixViewSpec — the model of nested matrix views refines the specification
  (C12): sizes, designated cells for checked and unchecked access, never a panic.
-/
import EasyMl.Lemmas.FallibleMatrix
import EasyMl.Lemmas.PartitionGrid
import EasyMl.Spec.MatrixView

namespace EasyMl.MatrixView
open EasyMl.Spec EasyMl.Fallible

set_option linter.unusedSectionVars false
set_option linter.unusedVariables false

/-- outside the size there is no cell -/
theorem MExpr.cell_none (e : MExpr) (i j : Nat) (h : ¬ (i < e.size.1 ∧ j < e.size.2)) :
    e.cell i j = none := by
  induction e generalizing i j with
  | leaf rows columns => simp only [MExpr.size] at h; simp [MExpr.cell, h]
  | leafCM rows columns => simp only [MExpr.size] at h; simp [MExpr.cell, h]
  | part rows columns rp cp kr kc => simp only [MExpr.cell]; rw [if_neg h]
  | range e rows columns ih => simp only [MExpr.cell]; rw [if_neg h]
  | reverse e fr fc ih => simp only [MExpr.size] at h; simp only [MExpr.cell]; rw [if_neg h]
  | map e ih => simp only [MExpr.size] at h; simp only [MExpr.cell]; exact ih i j h
  | viaTensor e ih => simp only [MExpr.size] at h; simp only [MExpr.cell]; exact ih i j h
  | swapped e ih =>
    simp only [MExpr.size] at h; simp only [MExpr.cell]
    exact ih j i (fun hh => h ⟨hh.2, hh.1⟩)

/-- no slice is longer than the largest boundary -/
theorem diffs_getD_le (bounds : List Nat) (prev C k : Nat) (hC : ∀ b ∈ bounds, b ≤ C) :
    ((diffs bounds prev).getD k (0, 0)).2 ≤ C := by
  induction bounds generalizing prev k with
  | nil => simp [diffs]
  | cons b bs ih =>
    have hb : b ≤ C := hC b (by simp)
    cases k with
    | zero => simp only [diffs, List.getD_cons_zero]; omega
    | succ k =>
      simp only [diffs, List.getD_cons_succ]
      exact ih b k (fun x hx => hC x (by simp [hx]))

theorem normSize_le (rl cl : Nat) : (normSize rl cl).1 ≤ rl ∧ (normSize rl cl).2 ≤ cl := by
  simp only [normSize]; split <;> simp

theorem MExpr.size_le (e : MExpr) (h : e.LeavesOk) : e.size.1 ≤ usizeMax ∧ e.size.2 ≤ usizeMax := by
  induction e with
  | leaf rows columns =>
    obtain ⟨hr, hc, hb⟩ := h
    simp only [MExpr.size]
    constructor
    · calc rows = rows * 1 := by simp
        _ ≤ rows * columns := Nat.mul_le_mul_left _ hc
        _ ≤ usizeMax := hb
    · calc columns = 1 * columns := by simp
        _ ≤ rows * columns := Nat.mul_le_mul_right _ hr
        _ ≤ usizeMax := hb
  | leafCM rows columns =>
    obtain ⟨hr, hc, hb⟩ := h
    simp only [MExpr.size]
    constructor
    · calc rows = rows * 1 := by simp
        _ ≤ rows * columns := Nat.mul_le_mul_left _ hc
        _ ≤ usizeMax := hb
    · calc columns = 1 * columns := by simp
        _ ≤ rows * columns := Nat.mul_le_mul_right _ hr
        _ ≤ usizeMax := hb
  | part rows columns rp cp kr kc =>
    obtain ⟨⟨hr, hc, hb⟩, ⟨ha1, ha2, _, _, _⟩, _, _⟩ := h
    have hR : rows ≤ usizeMax := by
      calc rows = rows * 1 := by simp
        _ ≤ rows * columns := Nat.mul_le_mul_left _ hc
        _ ≤ usizeMax := hb
    have hC : columns ≤ usizeMax := by
      calc columns = 1 * columns := by simp
        _ ≤ rows * columns := Nat.mul_le_mul_right _ hr
        _ ≤ usizeMax := hb
    have h1 := diffs_getD_le (rp ++ [rows]) 0 rows kr (by
      intro b hb'; simp only [List.mem_append, List.mem_singleton] at hb'
      rcases hb' with hb' | rfl
      · exact axisChecked_le ha1 b hb'
      · exact Nat.le_refl _)
    have h2 := diffs_getD_le (cp ++ [columns]) 0 columns kc (by
      intro b hb'; simp only [List.mem_append, List.mem_singleton] at hb'
      rcases hb' with hb' | rfl
      · exact axisChecked_le ha2 b hb'
      · exact Nat.le_refl _)
    have h3 := normSize_le (partRect rows columns rp cp kr kc).1.2 (partRect rows columns rp cp kr kc).2.2
    simp only [MExpr.size]
    simp only [partRect] at h3 ⊢
    omega
  | range e rows columns ih =>
    have := ih h
    simp only [MExpr.size]
    omega
  | reverse e fr fc ih => exact ih h
  | map e ih => exact ih h
  | viaTensor e ih => exact ih h
  | swapped e ih => exact ⟨(ih h).2, (ih h).1⟩

/-- inside the size there is a cell (leaves at least 1×1 are not needed for this) -/
theorem MExpr.cell_some (e : MExpr) (i j : Nat) (h : i < e.size.1 ∧ j < e.size.2) :
    (e.cell i j).isSome = true := by
  induction e generalizing i j with
  | leaf rows columns => simp only [MExpr.size] at h; simp [MExpr.cell, h]
  | leafCM rows columns => simp only [MExpr.size] at h; simp [MExpr.cell, h]
  | part rows columns rp cp kr kc => simp only [MExpr.cell]; rw [if_pos h]; rfl
  | range e rows columns ih =>
    simp only [MExpr.cell]; rw [if_pos h]
    simp only [MExpr.size] at h
    exact ih _ _ ⟨by omega, by omega⟩
  | reverse e fr fc ih =>
    simp only [MExpr.size] at h
    simp only [MExpr.cell]; rw [if_pos h]
    apply ih
    constructor
    · split <;> omega
    · split <;> omega
  | map e ih => simp only [MExpr.size] at h; simp only [MExpr.cell]; exact ih i j h
  | viaTensor e ih => simp only [MExpr.size] at h; simp only [MExpr.cell]; exact ih i j h
  | swapped e ih =>
    simp only [MExpr.size] at h; simp only [MExpr.cell]; exact ih j i ⟨h.2, h.1⟩

/-- what evaluating a composition yields, relative to the specification -/
def Refines (e : MExpr) (v : MViewU) : Prop :=
  v.view.rows = e.size.1 ∧ v.view.columns = e.size.2 ∧
  (∀ i j, v.view.get i j = .ok (e.cell i j)) ∧
  (∀ i j o, e.cell i j = some o → v.uget i j = .ok o)

theorem leaf_refines (rows columns : Nat) (hr : 1 ≤ rows) (hc : 1 ≤ columns)
    (hb : rows * columns ≤ usizeMax) :
    Refines (.leaf rows columns)
      ⟨MView.ofMatrix ⟨rows * columns, rows, columns⟩, MatrixMeta.uget ⟨rows * columns, rows, columns⟩⟩ := by
  have hinv : MatrixMeta.Inv ⟨rows * columns, rows, columns⟩ := ⟨rfl, hr, hc, hb⟩
  refine ⟨rfl, rfl, ?_, ?_⟩
  · intro i j
    simp only [MView.ofMatrix, MatrixMeta.get_eq _ hinv, MExpr.cell]
    by_cases h : i < rows ∧ j < columns
    · simp [h, Nat.add_comm]
    · simp [h]
  · intro i j o ho
    simp only [MExpr.cell] at ho
    split at ho
    · rename_i h
      simp only [Option.some.injEq] at ho
      subst ho
      have h1 : (i + 1) * columns ≤ rows * columns := Nat.mul_le_mul_right _ (by omega)
      rw [Nat.add_mul] at h1
      simp only [Nat.one_mul] at h1
      have h2 : i * columns ≤ usizeMax := by omega
      have h3 : j + i * columns ≤ usizeMax := by omega
      have h4 : j + i * columns < rows * columns := by omega
      simp [MatrixMeta.uget, cmul_ok h2, cadd_ok h3, h4, Nat.add_comm]
    · simp at ho

theorem leafCM_refines (rows columns : Nat) (hr : 1 ≤ rows) (hc : 1 ≤ columns)
    (hb : rows * columns ≤ usizeMax) :
    Refines (.leafCM rows columns)
      ⟨⟨rows, columns, cmGet rows columns⟩, cmUget rows columns⟩ := by
  have key : ∀ i j, i < rows → j < columns →
      j * rows ≤ usizeMax ∧ j * rows + i ≤ usizeMax ∧ j * rows + i < rows * columns := by
    intro i j hi hj
    have h1 : (j + 1) * rows ≤ columns * rows := Nat.mul_le_mul_right _ (by omega)
    rw [Nat.add_mul, Nat.mul_comm columns rows] at h1
    simp only [Nat.one_mul] at h1
    omega
  refine ⟨rfl, rfl, ?_, ?_⟩
  · intro i j
    simp only [cmGet, MExpr.cell]
    by_cases h : i < rows ∧ j < columns
    · obtain ⟨h1, h2, h3⟩ := key i j h.1 h.2
      simp [h.1, h.2, cmul_ok h1, cadd_ok h2, h3]
    · have h' : ¬ (j < columns ∧ i < rows) := fun hh => h ⟨hh.2, hh.1⟩
      simp [h, h']
  · intro i j o ho
    simp only [MExpr.cell] at ho
    split at ho
    · rename_i h
      simp only [Option.some.injEq] at ho
      subst ho
      obtain ⟨h1, h2, h3⟩ := key i j h.1 h.2
      simp [cmUget, cmul_ok h1, cadd_ok h2, h3]
    · simp at ho

/-- the parts come in row-major grid order: position `a * |l2| + b` of the grid is the part of
    the `a`-th row slice and the `b`-th column slice -/
theorem getElem?_flatMap_map {α β γ : Type} (l1 : List α) (l2 : List β) (f : α → β → γ) (a b : Nat)
    (ha : a < l1.length) (hb : b < l2.length) :
    (l1.flatMap fun x => l2.map (f x))[a * l2.length + b]? = some (f l1[a] l2[b]) := by
  induction l1 generalizing a with
  | nil => simp at ha
  | cons x xs ih =>
    rw [List.flatMap_cons]
    cases a with
    | zero =>
      rw [List.getElem?_append_left (by simpa using hb)]
      simp [hb]
    | succ a =>
      have hidx : (a + 1) * l2.length + b = (l2.map (f x)).length + (a * l2.length + b) := by
        rw [List.length_map, Nat.add_mul]; omega
      rw [hidx, List.getElem?_append_right (Nat.le_add_right _ _), Nat.add_sub_cancel_left]
      simp only [List.length_cons] at ha
      rw [ih a (by omega)]
      simp

/-- the unchecked getter of a part reaches the designated cell -/
theorem ofSlices_uget (C rs rl cs cl i j : Nat) (hi : i < (normSize rl cl).1)
    (hj : j < (normSize rl cl).2) :
    (MatrixPart.ofSlices (partSlices C rs rl cs cl)).uget i j = .ok ((rs + i) * C + cs + j) := by
  have hirl : i < rl := by
    simp only [normSize] at hi; split at hi <;> simp at hi <;> omega
  have hjcl : j < cl := by
    simp only [normSize] at hj; split at hj <;> simp at hj <;> omega
  have h1 : i < (partSlices C rs rl cs cl).length := by rw [partSlices_length]; exact hirl
  have h2 : (partSlices C rs rl cs cl)[i]? = some (List.range' ((rs + i) * C + cs) cl) := by
    rw [List.getElem?_eq_getElem h1]; simp [partSlices]
  have h3 : (List.range' ((rs + i) * C + cs) cl)[j]? = some ((rs + i) * C + cs + j) := by
    rw [List.getElem?_eq_getElem (by simpa using hjcl)]; simp [List.getElem_range']
  simp only [MatrixPart.uget, ofSlices_data, h2, h3]

theorem part_refines (rows columns : Nat) (rp cp : List Nat) (kr kc : Nat)
    (hle : (MExpr.part rows columns rp cp kr kc).LeavesOk) :
    ∃ v, (MExpr.part rows columns rp cp kr kc).eval Arith.fixed = .ok (.ok v) ∧
      Refines (.part rows columns rp cp kr kc) v := by
  obtain ⟨⟨hr, hc, hb⟩, ⟨ha1, ha2, ha3, ha4, ha5⟩, hkr, hkc⟩ := hle
  have hinv : MatrixMeta.Inv ⟨rows * columns, rows, columns⟩ := ⟨rfl, hr, hc, hb⟩
  have hpart : partition ⟨rows * columns, rows, columns⟩ rp cp =
      .ok (gridSpec ⟨rows * columns, rows, columns⟩ rp cp) := by
    rw [partition_eq_spec _ hinv]
    simp [partitionSpec, ha1, ha2, ha3, ha4, ha5]
  have hlr : kr < (diffs (rp ++ [rows]) 0).length := by rw [diffs_length]; simp; omega
  have hlc : kc < (diffs (cp ++ [columns]) 0).length := by rw [diffs_length]; simp; omega
  have hnc : (diffs (cp ++ [columns]) 0).length = cp.length + 1 := by rw [diffs_length]; simp
  have hgrid : gridSpec ⟨rows * columns, rows, columns⟩ rp cp =
      (diffs (rp ++ [rows]) 0).flatMap fun r => (diffs (cp ++ [columns]) 0).map fun c =>
        MatrixPart.ofSlices (partSlices columns r.1 r.2 c.1 c.2) := rfl
  have hget := getElem?_flatMap_map (diffs (rp ++ [rows]) 0) (diffs (cp ++ [columns]) 0)
    (fun r c => MatrixPart.ofSlices (partSlices columns r.1 r.2 c.1 c.2)) kr kc hlr hlc
  rw [hnc] at hget
  have hrd : (partRect rows columns rp cp kr kc).1 = (diffs (rp ++ [rows]) 0)[kr] := by
    simp only [partRect, List.getD_eq_getElem?_getD, List.getElem?_eq_getElem hlr, Option.getD_some]
  have hcd : (partRect rows columns rp cp kr kc).2 = (diffs (cp ++ [columns]) 0)[kc] := by
    simp only [partRect, List.getD_eq_getElem?_getD, List.getElem?_eq_getElem hlc, Option.getD_some]
  have hidx : idxC (gridSpec ⟨rows * columns, rows, columns⟩ rp cp) (kr * (cp.length + 1) + kc) =
      .ok (MatrixPart.ofSlices (partSlices columns (partRect rows columns rp cp kr kc).1.1
        (partRect rows columns rp cp kr kc).1.2 (partRect rows columns rp cp kr kc).2.1
        (partRect rows columns rp cp kr kc).2.2)) := by
    rw [hrd, hcd, hgrid]
    simp only [idxC, hget]
  have hev : (MExpr.part rows columns rp cp kr kc).eval Arith.fixed =
      .ok (.ok ⟨MView.ofPart (MatrixPart.ofSlices (partSlices columns
          (partRect rows columns rp cp kr kc).1.1 (partRect rows columns rp cp kr kc).1.2
          (partRect rows columns rp cp kr kc).2.1 (partRect rows columns rp cp kr kc).2.2)),
        (MatrixPart.ofSlices (partSlices columns
          (partRect rows columns rp cp kr kc).1.1 (partRect rows columns rp cp kr kc).1.2
          (partRect rows columns rp cp kr kc).2.1 (partRect rows columns rp cp kr kc).2.2)).uget⟩) := by
    simp only [MExpr.eval, hpart, hidx]
  refine ⟨_, hev, ?_⟩
  have hsz := ofSlices_size columns (partRect rows columns rp cp kr kc).1.1
    (partRect rows columns rp cp kr kc).1.2 (partRect rows columns rp cp kr kc).2.1
    (partRect rows columns rp cp kr kc).2.2
  simp only [Prod.ext_iff] at hsz
  refine ⟨hsz.1, hsz.2, ?_, ?_⟩
  · intro i j
    simp only [MView.ofPart, ofSlices_get, MExpr.cell, MExpr.size] <;> rfl
  · intro i j o ho
    simp only [MExpr.cell] at ho
    by_cases h : i < (MExpr.part rows columns rp cp kr kc).size.1 ∧
        j < (MExpr.part rows columns rp cp kr kc).size.2
    · rw [if_pos h] at ho
      simp only [Option.some.injEq] at ho
      subst ho
      exact ofSlices_uget _ _ _ _ _ i j h.1 h.2
    · rw [if_neg h] at ho; simp at ho

theorem range_refines (e : MExpr) (src : MViewU) (hsrc : Refines e src) (hle : e.LeavesOk)
    (rows columns : IndexRange) :
    Refines (.range e rows columns)
      ⟨⟨(rows.clip src.view.rows).length, (columns.clip src.view.columns).length,
          src.view.getVia (rows.clip src.view.rows).map (columns.clip src.view.columns).map⟩,
        rangeUget src.uget (rows.clip src.view.rows) (columns.clip src.view.columns)⟩ := by
  obtain ⟨hr, hc, hget, hu⟩ := hsrc
  obtain ⟨hrb, hcb⟩ := e.size_le hle
  have hR : src.view.rows ≤ usizeMax := by rw [hr]; exact hrb
  have hC : src.view.columns ≤ usizeMax := by rw [hc]; exact hcb
  have hrl : (rows.clip src.view.rows).length = (MExpr.range e rows columns).size.1 := by
    rw [hr, IndexRange.clip_length _ _ hrb]; rfl
  have hcl : (columns.clip src.view.columns).length = (MExpr.range e rows columns).size.2 := by
    rw [hc, IndexRange.clip_length _ _ hcb]; rfl
  refine ⟨hrl, hcl, ?_, ?_⟩
  · intro i j
    simp only [MView.getVia, IndexRange.map_clip_eq _ _ hR, IndexRange.map_clip_eq _ _ hC,
      MExpr.cell, hrl, hcl]
    by_cases hi : i < (MExpr.range e rows columns).size.1
    · by_cases hj : j < (MExpr.range e rows columns).size.2
      · simp [hi, hj, hget]
      · simp [hi, hj]
    · simp [hi]
  · intro i j o ho
    simp only [MExpr.cell] at ho
    split at ho
    · rename_i h
      simp only [rangeUget, IndexRange.map_clip_eq _ _ hR, IndexRange.map_clip_eq _ _ hC, hrl, hcl,
        h.1, h.2, if_true, unwrapC]
      exact hu _ _ o ho
    · simp at ho

/-- the per-coordinate map of the repaired checked reverse getters, as a plain function -/
def revCoord (f : Bool) (l i : Nat) : Option Nat :=
  if f then (if i < l then some (l - 1 - i) else none) else some i

theorem fixed_rev_eq (f : Bool) (l i : Nat) :
    (if f then Arith.fixed.reverseChecked l else fun i => .ok (some i)) i = .ok (revCoord f l i) := by
  cases f
  · simp [revCoord]
  · simp only [if_true, Arith.fixed, revCoord, reverseOne]
    by_cases h : i < l
    · have h1 : 1 ≤ l := by omega
      have h2 : i ≤ l - 1 := by omega
      have h3 : ¬ i ≥ l := by omega
      simp [h, h3, csub_ok h1, csub_ok h2]
    · have h3 : i ≥ l := by omega
      simp [h, h3]

/-- ask the source when both coordinates were mapped -/
def optGet (src : MView) : Option Nat → Option Nat → Outcome (Option Nat)
  | some r, some c => src.get r c
  | _, _ => .ok none

theorem getVia_ok (src : MView) (f g : Nat → Outcome (Option Nat)) (i j : Nat)
    (x y : Option Nat) (hf : f i = .ok x) (hg : g j = .ok y) :
    src.getVia f g i j = optGet src x y := by
  simp only [MView.getVia, hf, hg]
  cases x <;> cases y <;> rfl

theorem reverse_refines (e : MExpr) (src : MViewU) (hsrc : Refines e src) (fr fc : Bool) :
    Refines (.reverse e fr fc)
      ⟨src.view.reverse Arith.fixed fr fc,
        reverseUget src.uget src.view.rows src.view.columns fr fc⟩ := by
  obtain ⟨hr, hc, hget, hu⟩ := hsrc
  refine ⟨hr, hc, ?_, ?_⟩
  · intro i j
    simp only [MView.reverse, MExpr.cell, hr, hc]
    by_cases hempty : e.size.1 = 0 ∨ e.size.2 = 0
    · have : ¬ (i < e.size.1 ∧ j < e.size.2) := by omega
      simp [hempty, this]
    · simp only [hempty, if_false]
      rw [getVia_ok src.view _ _ i j _ _ (fixed_rev_eq fr e.size.1 i) (fixed_rev_eq fc e.size.2 j)]
      by_cases hin : i < e.size.1 ∧ j < e.size.2
      · rw [if_pos hin]
        cases fr <;> cases fc <;> simp [optGet, revCoord, hin.1, hin.2, hget]
      · rw [if_neg hin]
        by_cases hi : i < e.size.1
        · have hj : ¬ j < e.size.2 := fun hj => hin ⟨hi, hj⟩
          have hcell : ∀ r, e.cell r j = none := fun r => e.cell_none r j (fun h => hj h.2)
          cases fr <;> cases fc <;> simp [optGet, revCoord, hi, hj, hget, hcell]
        · have hcell : ∀ c, e.cell i c = none := fun c => e.cell_none i c (fun h => hi h.1)
          by_cases hj : j < e.size.2
          · cases fr <;> cases fc <;> simp [optGet, revCoord, hi, hj, hget, hcell]
          · cases fr <;> cases fc <;> simp [optGet, revCoord, hi, hj, hget, hcell]
  · intro i j o ho
    simp only [MExpr.cell] at ho
    split at ho
    · rename_i hin
      have h1 : 1 ≤ e.size.1 := by omega
      have h2 : 1 ≤ e.size.2 := by omega
      have hi' : i ≤ e.size.1 - 1 := by omega
      have hj' : j ≤ e.size.2 - 1 := by omega
      have := hu _ _ o ho
      cases fr <;> cases fc <;>
        simp_all [reverseUget, reverseOne, csub_ok h1, csub_ok h2, csub_ok hi', csub_ok hj']
    · simp at ho

theorem withNames_bool_valid (src : MView) :
    isValidShape [(true, src.rows), (false, src.columns)] = true ↔
      1 ≤ src.rows ∧ 1 ≤ src.columns := by
  rw [isValidShape_iff]
  constructor
  · intro ⟨_, h⟩
    exact ⟨h (true, src.rows) (by simp), h (false, src.columns) (by simp)⟩
  · intro ⟨h1, h2⟩
    refine ⟨by simp, ?_⟩
    intro d hd
    simp only [List.mem_cons, List.not_mem_nil, or_false] at hd
    rcases hd with rfl | rfl <;> assumption

theorem withNames_bool_ok (src : MView) (h : 1 ≤ src.rows ∧ 1 ≤ src.columns) :
    ∃ t, tensorRefMatrixWithNames src true false = .ok (.ok t) ∧
      t.shape = [(true, src.rows), (false, src.columns)] ∧ ∀ r c, t.get [r, c] = src.get r c := by
  simp only [tensorRefMatrixWithNames]
  rw [if_pos ((withNames_bool_valid src).mpr h)]
  exact ⟨_, rfl, rfl, fun r c => by simp [idxC]⟩

theorem withNames_bool_err (src : MView) (h : ¬ (1 ≤ src.rows ∧ 1 ≤ src.columns)) :
    tensorRefMatrixWithNames src true false =
      .ok (.error [(true, src.rows), (false, src.columns)]) := by
  simp only [tensorRefMatrixWithNames]
  rw [if_neg (fun hh => h ((withNames_bool_valid src).mp hh))]

end EasyMl.MatrixView
