/-
  EasyMl.Lemmas.ViewSource — every well-formed view is a valid source of the whole-view
  consumers of Model/Transform.lean, its elements are the ones the index mapping designates, and
  the lazy adaptors of the two models coincide.
-/
import EasyMl.Model.ViewSource
import EasyMl.Lemmas.ArithViews
import EasyMl.Lemmas.Transform
import EasyMl.Lemmas.ViewLaws
import EasyMl.Lemmas.ViewMapping

namespace EasyMl
open EasyMl.Spec EasyMl.View

set_option linter.unusedSectionVars false

variable {ν : Type} [DecidableEq ν] [Inhabited ν] {α : Type}

@[simp] theorem View.asSource_shape (w : View ν α) : w.asSource.shape = w.shape := rfl

/-- a well-formed view over distinct containers meets the `TensorRef` contract the consumers
    rely on -/
theorem View.asSource_valid (w : View ν α) (h : w.WF) (hn : w.leafIds.Nodup) :
    w.asSource.lazy.Valid := by
  have hw := Arith.ofView_WF w h hn
  refine ⟨hw.shape, ?_⟩
  intro idx hl
  by_cases hin : inBounds (w.shape.map (·.2)) idx = true
  · have := hw.some_of_inBounds idx hin
    simp only [TView.lazy, View.asSource] at this ⊢
    rw [this]; exact hin.symm
  · have hout : inBounds (w.shape.map (·.2)) idx = false := by simpa using hin
    have := hw.none_of_not idx hl hout
    simp only [TView.lazy, View.asSource] at this ⊢
    rw [this]
    exact hout.symm

/-- the element a consumer reads at an in-bounds index is the one stored in the cell the index
    mapping designates -/
theorem View.asSource_get (w : View ν α) (h : w.WF) (idx : List Nat)
    (hin : inBounds (lens w.shape) idx = true) :
    ∃ c, w.specCell idx = some c ∧ w.asSource.get idx = w.lookup c := by
  have hc := View.correct w h
  obtain ⟨c, hcell, _⟩ := (View.resolves w h).1 idx hin
  have la := (inBounds_iff.1 hin).1
  have hget : w.get idx = .ok (some c) := by
    rw [hc.2 idx (by simpa [lens] using la) (bounded_of_inBounds hin hc.1.lens_le)]
    simp [View.specGet, hin, hcell]
  refine ⟨c, hcell, ?_⟩
  simp only [View.asSource, Arith.TView.ofView, hin, if_true, View.read, hget, obind]
  cases w.lookup c <;> rfl

/-- outside its shape (any arity) a source answers nothing -/
theorem View.asSource_get_outside (w : View ν α) (idx : List Nat)
    (hout : inBounds (lens w.shape) idx = false) : w.asSource.get idx = none := by
  simp [View.asSource, Arith.TView.ofView, hout]

/-- two views with the same shape and the same leaves that designate the same cells are the same
    source: every consumer gives the same result on them -/
theorem sameView_asSource {a b : View ν α} (ha : a.WF) (hb : b.WF) (h : SameView a b)
    (hl : a.leaves = b.leaves) : a.asSource = b.asSource := by
  have hs : a.shape = b.shape := h.1
  have hg : a.asSource.get = b.asSource.get := by
    funext idx
    by_cases hin : inBounds (lens a.shape) idx = true
    · obtain ⟨c, hc, e1⟩ := View.asSource_get a ha idx hin
      obtain ⟨c', hc', e2⟩ := View.asSource_get b hb idx (by rw [← hs]; exact hin)
      have hcc : c = c' := by
        have := h.2 idx
        simp only [View.specGet, hin, ← hs, if_true, hc, hc'] at this
        exact Option.some.inj this
      rw [e1, e2, hcc]
      simp only [View.lookup, hl]
    · have hout : inBounds (lens a.shape) idx = false := by simpa using hin
      rw [View.asSource_get_outside a idx hout, View.asSource_get_outside b idx (by rw [← hs]; exact hout)]
  show (⟨a.asSource.shape, a.asSource.get⟩ : TView ν α) = ⟨b.asSource.shape, b.asSource.get⟩
  rw [hg]
  simp only [View.asSource_shape, hs]

/-- `TensorAccess` in the two models: the access of Model/Transform.lean over a view as a source
    is the `View.access` of Model/View.lean as a source -/
theorem View.asSource_access (w : View ν α) (h : w.WF) (names : List ν) (m : DimensionMappings)
    (hm : DimensionMappings.new w.shape names = some m) :
    ∃ a, w.asSource.access names = some a ∧ a.lazy.Equiv (View.access w m).asSource.lazy := by
  have hg := (View.correct w h).1
  have hok : MappingOK m w.shape.length := new_mappingOK (goodShape_iff.1 hg).1 hm
  refine ⟨{ shape := m.mapShapeToRequested w.shape,
            get := fun idx => w.asSource.get (m.mapDimensionsToSource idx) },
    by simp only [TView.access, View.asSource_shape, hm], rfl, ?_⟩
  intro idx hl
  simp only [TView.lazy, View.asSource_shape] at hl ⊢
  have hlen : idx.length = w.shape.length := by rw [hl]; exact mapShapeToRequested_length hok
  have hb := access_inBounds (sh := w.shape) (idx := idx) hok hlen
  simp only [View.asSource, Arith.TView.ofView, View.shape, hb]
  by_cases hin : inBounds (lens (m.mapShapeToRequested w.shape)) idx = true
  · simp only [hin, if_true, View.read, View.get, View.lookup, View.leaves]
  · simp [hin]

end EasyMl
