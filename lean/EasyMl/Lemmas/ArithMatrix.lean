/-
  EasyMl.Lemmas.ArithMatrix — the left-associated sum of `scalar_product` as a Mathlib `Finset`
  sum (needed to read the model's matrix product as `Matrix.mul`).
-/
import Mathlib.Data.Matrix.Mul
import Mathlib.Algebra.BigOperators.Fin
import EasyMl.Lemmas.Arith

namespace EasyMl.Arith

theorem leftSum_eq_sum_range {R : Type} [AddCommMonoid R] (f : Nat → R) (n : Nat) :
    leftSum f n = ∑ p ∈ Finset.range (n + 1), f p := by
  induction n with
  | zero => simp [leftSum]
  | succ n ih => rw [leftSum, ih, Finset.sum_range_succ _ (n + 1)]

theorem leftSum_eq_sum_fin {R : Type} [AddCommMonoid R] (n : Nat) (f : Fin (n + 1) → R)
    (g : Nat → R) (h : ∀ p : Fin (n + 1), g p.val = f p) :
    leftSum g n = ∑ p : Fin (n + 1), f p := by
  rw [leftSum_eq_sum_range, ← Fin.sum_univ_eq_sum_range]
  exact Finset.sum_congr rfl (fun p _ => h p)

end EasyMl.Arith
