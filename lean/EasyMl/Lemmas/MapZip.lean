/-
  EasyMl.Lemmas.MapZip — helper lemmas for reshape, rename, map, elementwise, first/scalar and
  the tensor ↔ matrix conversions (C13).
-/
import EasyMl.Lemmas.Transform

namespace EasyMl
open EasyMl.Spec

set_option linter.unusedSectionVars false

variable {ν : Type} [DecidableEq ν] {α β : Type}

/-! ### mapped views -/

theorem mappedWithIndex_valid {v : LazyView ν α} (hv : v.Valid) (f : List Nat → α → β) :
    (mappedWithIndex f v).Valid :=
  ⟨hv.shape, fun idx hlen => by
    simp only [mappedWithIndex] at hlen ⊢
    rw [Option.isSome_map]; exact hv.get idx hlen⟩

theorem mapped_valid {v : LazyView ν α} (hv : v.Valid) (f : α → β) : (mapped f v).Valid :=
  mappedWithIndex_valid hv fun _ => f

theorem elems_mapped (f : α → β) (v : LazyView ν α) :
    (materialise (mapped f v)).elems = (materialise v).elems.map f := by
  simp only [materialise, mapped, List.map_filterMap]

theorem elems_mappedWithIndex (f : List Nat → α → β) (v : TView ν α) :
    (materialise (mappedWithIndex f v.lazy)).elems = v.iterWithIndex.map fun p => f p.1 p.2 := by
  rw [v.iterWithIndex_eq]
  simp only [materialise, mappedWithIndex, List.map_filterMap, TView.lazy_shape, TView.lazy_get,
    Option.map_map]
  rfl

theorem mappedWithIndex_congr {l r : LazyView ν α} (h : l.Equiv r) (f : List Nat → α → β) :
    (mappedWithIndex f l).Equiv (mappedWithIndex f r) :=
  ⟨h.1, fun idx hlen => by simp only [mappedWithIndex] at hlen ⊢; rw [h.2 idx hlen]⟩

theorem mapped_congr {l r : LazyView ν α} (h : l.Equiv r) (f : α → β) :
    (mapped f l).Equiv (mapped f r) := mappedWithIndex_congr h fun _ => f

/-- `TensorView::map` / `TensorAccess::map` -/
theorem TView.map_eq (f : α → β) (v : TView ν α) (hv : v.lazy.Valid) :
    v.map f = .ok (Tensor.ofVal (materialise (mapped f v.lazy))) := by
  unfold TView.map
  rw [v.iter_eq, ← elems_mapped]
  exact (mapped_valid hv f).fromOrPanic

/-- `TensorView::map_with_index` / `TensorAccess::map_with_index` -/
theorem TView.mapWithIndex_eq (f : List Nat → α → β) (v : TView ν α) (hv : v.lazy.Valid) :
    v.mapWithIndex f = .ok (Tensor.ofVal (materialise (mappedWithIndex f v.lazy))) := by
  unfold TView.mapWithIndex
  rw [← elems_mappedWithIndex]
  exact (mappedWithIndex_valid hv f).fromOrPanic

/-- `Tensor::map` and `Tensor::map_with_index` -/
theorem Tensor.map_eq (f : α → β) (shape : Shape ν) (data : List α) (t : Tensor ν α)
    (ht : Tensor.tryFrom shape data = some t) :
    t.map f = Tensor.ofVal (materialise (mapped f (ofData shape data))) := by
  obtain ⟨_, ht'⟩ := (tryFrom_eq_some_iff shape data t).1 ht
  rw [ht']
  simp only [Tensor.map, Tensor.ofVal, elems_mapped, elems_ofData shape data t ht]
  rfl

theorem Tensor.mapWithIndex_eq (f : List Nat → α → β) (shape : Shape ν) (data : List α)
    (t : Tensor ν α) (ht : Tensor.tryFrom shape data = some t) :
    t.mapWithIndex f = Tensor.ofVal (materialise (mappedWithIndex f (ofData shape data))) := by
  obtain ⟨_, ht'⟩ := (tryFrom_eq_some_iff shape data t).1 ht
  have he := view_equiv_ofData shape data t ht
  rw [← materialise_congr (mappedWithIndex_congr he f)]
  simp only [Tensor.mapWithIndex, Tensor.ofVal, elems_mappedWithIndex]
  rw [ht']
  rfl

/-! ### element-wise combination -/

theorem zipWith_filterMap {ι γ A B δ : Type} (G : A → B → δ) (a₁ : ι → γ → A) (a₂ : ι → γ → B)
    (g₁ g₂ : ι → Option γ) (L : List ι)
    (h : ∀ i ∈ L, (g₁ i).isSome = true ∧ (g₂ i).isSome = true) :
    List.zipWith G (L.filterMap fun i => (g₁ i).map (a₁ i)) (L.filterMap fun i => (g₂ i).map (a₂ i)) =
      L.filterMap fun i =>
        match g₁ i, g₂ i with
        | some x, some y => some (G (a₁ i x) (a₂ i y))
        | _, _ => none := by
  induction L with
  | nil => rfl
  | cons i is ih =>
    obtain ⟨h1, h2⟩ := h i (by simp)
    obtain ⟨x, hx⟩ := Option.isSome_iff_exists.1 h1
    obtain ⟨y, hy⟩ := Option.isSome_iff_exists.1 h2
    simp only [List.filterMap_cons, hx, hy, Option.map_some, List.zipWith_cons_cons]
    rw [ih fun j hj => h j (by simp [hj])]

theorem zipped_valid {l r : LazyView ν α} (hl : l.Valid) (hr : r.Valid) (hs : l.shape = r.shape)
    (f : List Nat → α → α → α) : (zipped f l r).Valid :=
  ⟨hl.shape, fun idx hlen => by
    simp only [zipped] at hlen ⊢
    have h1 := hl.get idx hlen
    have h2 := hr.get idx (hs ▸ hlen)
    rw [← hs] at h2
    cases hb : inBounds (l.shape.map (·.2)) idx
    · rw [hb] at h1
      cases ha : l.get idx with
      | none => rfl
      | some _ => simp [ha] at h1
    · rw [hb] at h1 h2
      obtain ⟨x, hx⟩ := Option.isSome_iff_exists.1 h1
      obtain ⟨y, hy⟩ := Option.isSome_iff_exists.1 h2
      simp [hx, hy]⟩

theorem zipped_congr {l l' r r' : LazyView ν α} (h₁ : l.Equiv l') (h₂ : r.Equiv r')
    (hs : l.shape = r.shape) (f : List Nat → α → α → α) :
    (zipped f l r).Equiv (zipped f l' r') :=
  ⟨h₁.1, fun idx hlen => by
    simp only [zipped] at hlen ⊢
    rw [h₁.2 idx hlen, h₂.2 idx (hs ▸ hlen)]⟩

/-- all four ways the code pairs the two iterators compute the elements of the zipped view -/
theorem elems_zipped {l r : LazyView ν α} (hl : l.Valid) (hr : r.Valid) (hs : l.shape = r.shape)
    (f : List Nat → α → α → α) :
    let L := allIndexes (l.shape.map (·.2))
    (materialise (zipped f l r)).elems =
        List.zipWith (fun (p q : List Nat × α) => f p.1 p.2 q.2)
          (L.filterMap fun i => (l.get i).map fun x => (i, x))
          (L.filterMap fun i => (r.get i).map fun x => (i, x)) ∧
    (materialise (zipped f l r)).elems =
        List.zipWith (fun (p : List Nat × α) (y : α) => f p.1 p.2 y)
          (L.filterMap fun i => (l.get i).map fun x => (i, x)) (L.filterMap r.get) ∧
    (materialise (zipped f l r)).elems =
        List.zipWith (fun (x : α) (q : List Nat × α) => f q.1 x q.2)
          (L.filterMap l.get) (L.filterMap fun i => (r.get i).map fun x => (i, x)) := by
  intro L
  have hsome : ∀ i ∈ L, (l.get i).isSome = true ∧ (r.get i).isSome = true := by
    intro i hi
    refine ⟨hl.isSome_of_mem i hi, hr.isSome_of_mem i ?_⟩
    rw [← hs]; exact hi
  have e1 : L.filterMap l.get = L.filterMap fun i => (l.get i).map fun x => x := by simp
  have e2 : L.filterMap r.get = L.filterMap fun i => (r.get i).map fun x => x := by simp
  refine ⟨?_, ?_, ?_⟩
  · rw [zipWith_filterMap _ _ _ _ _ L hsome]; rfl
  · rw [e2, zipWith_filterMap _ _ _ _ _ L hsome]; rfl
  · rw [e1, zipWith_filterMap _ _ _ _ _ L hsome]; rfl

theorem elems_zipped_plain {l r : LazyView ν α} (hl : l.Valid) (hr : r.Valid)
    (hs : l.shape = r.shape) (f : α → α → α) :
    (materialise (zipped (fun _ => f) l r)).elems =
      List.zipWith f (materialise l).elems (materialise r).elems := by
  have hsome : ∀ i ∈ allIndexes (l.shape.map (·.2)),
      (l.get i).isSome = true ∧ (r.get i).isSome = true := by
    intro i hi
    refine ⟨hl.isSome_of_mem i hi, hr.isSome_of_mem i ?_⟩
    rw [← hs]; exact hi
  have e1 : ∀ (v : LazyView ν α) (L : List (List Nat)),
      L.filterMap v.get = L.filterMap fun i => (v.get i).map fun x => x := by intro v L; simp
  simp only [materialise]
  rw [← hs, e1 l, e1 r, zipWith_filterMap _ _ _ _ _ _ hsome]
  rfl

theorem TView.elementwise_eq [DecidableEq (Shape ν)] (f : α → α → α) (l r : TView ν α)
    (hl : l.lazy.Valid) (hr : r.lazy.Valid) :
    l.elementwise f r =
      if l.shape = r.shape then
        .ok (Tensor.ofVal (materialise (zipped (fun _ => f) l.lazy r.lazy)))
      else .panic .explicit := by
  unfold TView.elementwise
  by_cases hs : l.shape = r.shape
  · rw [if_neg (by simp [hs]), if_pos hs, l.iter_eq, r.iter_eq,
      ← elems_zipped_plain hl hr hs f]
    exact (zipped_valid hl hr hs _).fromOrPanic
  · rw [if_pos hs, if_neg hs]

theorem TView.elementwiseWithIndex_eq [DecidableEq (Shape ν)] (f : List Nat → α → α → α)
    (l r : TView ν α) (hl : l.lazy.Valid) (hr : r.lazy.Valid) :
    l.elementwiseWithIndex f r =
      if l.shape = r.shape then .ok (Tensor.ofVal (materialise (zipped f l.lazy r.lazy)))
      else .panic .explicit := by
  unfold TView.elementwiseWithIndex
  by_cases hs : l.shape = r.shape
  · rw [if_neg (by simp [hs]), if_pos hs, l.iterWithIndex_eq, r.iter_eq]
    have := (elems_zipped hl hr hs f).2.1
    simp only [TView.lazy_shape, TView.lazy_get] at this
    simp only [materialise, TView.lazy_shape, TView.lazy_get, ← hs]
    rw [← this]
    exact (zipped_valid hl hr hs f).fromOrPanic
  · rw [if_pos hs, if_neg hs]

theorem Tensor.elementwise_eq [DecidableEq (Shape ν)] (f : α → α → α) (shape : Shape ν)
    (data : List α) (t : Tensor ν α) (ht : Tensor.tryFrom shape data = some t) (r : TView ν α)
    (hr : r.lazy.Valid) :
    t.elementwise f r =
      if shape = r.shape then
        .ok (Tensor.ofVal (materialise (zipped (fun _ => f) (ofData shape data) r.lazy)))
      else .panic .explicit := by
  obtain ⟨_, ht'⟩ := (tryFrom_eq_some_iff shape data t).1 ht
  have hv := ofData_valid shape data t ht
  unfold Tensor.elementwise
  rw [ht']
  simp only
  by_cases hs : shape = r.shape
  · rw [if_neg (by simp [hs]), if_pos hs]
    congr 1
    simp only [Tensor.ofVal]
    congr 1
    rw [show (materialise (zipped (fun _ => f) (ofData shape data) r.lazy)).elems = _ from
      elems_zipped_plain hv hr hs f, elems_ofData shape data t ht, r.iter_eq]
  · rw [if_pos hs, if_neg hs]

theorem Tensor.elementwiseWithIndex_eq [DecidableEq (Shape ν)] (f : List Nat → α → α → α)
    (shape : Shape ν) (data : List α) (t : Tensor ν α) (ht : Tensor.tryFrom shape data = some t)
    (r : TView ν α) (hr : r.lazy.Valid) :
    t.elementwiseWithIndex f r =
      if shape = r.shape then
        .ok (Tensor.ofVal (materialise (zipped f (ofData shape data) r.lazy)))
      else .panic .explicit := by
  obtain ⟨_, ht'⟩ := (tryFrom_eq_some_iff shape data t).1 ht
  have hv := ofData_valid shape data t ht
  unfold Tensor.elementwiseWithIndex
  rw [ht']
  simp only
  by_cases hs : shape = r.shape
  · rw [if_neg (by simp [hs]), if_pos hs]
    congr 1
    simp only [Tensor.ofVal]
    congr 1
    have := (elems_zipped hv hr hs f).2.2
    simp only [ofData_shape, TView.lazy_get] at this
    rw [this, r.iterWithIndex_eq, ← hs]
    have hd := elems_ofData shape data t ht
    simp only [materialise, ofData_shape] at hd
    rw [hd]
  · rw [if_pos hs, if_neg hs]

/-! ### reshape and rename -/

theorem accepts_iff (shape : Shape ν) (n : Nat) :
    Accepts shape n ↔ validateDimensions shape n = none := by
  rw [validateDimensions_none_iff]; rfl

theorem Tensor.reshape_eq (shape : Shape ν) (data : List α) (t : Tensor ν α)
    (ht : Tensor.tryFrom shape data = some t) (target : Shape ν) :
    t.reshapeOwned target =
      (if Accepts target data.length then .ok (Tensor.ofVal ⟨target, data⟩) else .panic .explicit) ∧
    t.reshapeMut target = t.reshapeOwned target := by
  obtain ⟨_, ht'⟩ := (tryFrom_eq_some_iff shape data t).1 ht
  rw [ht']
  unfold Tensor.reshapeOwned Tensor.reshapeMut Tensor.fromOrPanic Tensor.tryFrom
  simp only
  by_cases h : Accepts target data.length
  · have := (accepts_iff target data.length).1 h
    simp [this, h, Tensor.ofVal]
  · cases hv : validateDimensions target data.length with
    | none => exact absurd ((accepts_iff target data.length).2 hv) h
    | some e => simp [h]

theorem Tensor.rename_eq (shape : Shape ν) (data : List α) (t : Tensor ν α)
    (ht : Tensor.tryFrom shape data = some t) (names : List ν) (hl : names.length = shape.length) :
    t.rename names =
      if names.Nodup then
        .ok (Tensor.ofVal (materialise (renamed (ofData shape data) names)))
      else .panic .explicit := by
  obtain ⟨_, ht'⟩ := (tryFrom_eq_some_iff shape data t).1 ht
  unfold Tensor.rename
  by_cases h : names.Nodup
  · have hd : hasDuplicates names = false := by
      cases hd : hasDuplicates names with
      | false => rfl
      | true => exact absurd h ((hasDuplicates_iff names).1 hd)
    rw [if_pos h, hd]
    simp only [Bool.false_eq_true, if_false]
    congr 1
    rw [ht']
    simp only [Tensor.ofVal, materialise, renamed, ofData_shape, setNames_eq_withNames]
    have hlens := withNames_map_snd shape names hl
    congr 1
    · rw [hlens]
      have := elems_ofData shape data t ht
      simp only [materialise, ofData_shape] at this
      exact this.symm
    · exact computeStrides_congr _ _ hlens.symm
  · rw [if_neg h, (hasDuplicates_iff names).2 h]
    rfl

/-! ### first and scalar -/

theorem elems_ne_nil {v : LazyView ν α} (hv : v.Valid) : (materialise v).elems ≠ [] := by
  intro h
  have hlen := hv.elems_length
  rw [h] at hlen
  have hz : inBounds (v.shape.map (·.2)) ((v.shape.map (·.2)).map fun _ => 0) = true := by
    apply inBounds_zeros_of_pos
    intro l hl
    obtain ⟨d, hd, rfl⟩ := List.mem_map.1 hl
    exact hv.shape.2 d hd
  have := ravel_lt _ _ hz
  simp at hlen
  omega

theorem TView.first_eq (v : TView ν α) (hv : v.lazy.Valid) :
    ∃ x, v.first = .ok x ∧ (materialise v.lazy).elems.head? = some x := by
  unfold TView.first
  rw [v.iter_eq]
  cases h : (materialise v.lazy).elems with
  | nil => exact absurd h (elems_ne_nil hv)
  | cons x xs => exact ⟨x, rfl, rfl⟩

theorem Tensor.first_eq (shape : Shape ν) (data : List α) (t : Tensor ν α)
    (ht : Tensor.tryFrom shape data = some t) :
    ∃ x, t.first = .ok x ∧ data.head? = some x := by
  obtain ⟨_, ht'⟩ := (tryFrom_eq_some_iff shape data t).1 ht
  have := elems_ne_nil (ofData_valid shape data t ht)
  rw [elems_ofData shape data t ht] at this
  unfold Tensor.first
  rw [ht']
  cases data with
  | nil => exact absurd rfl this
  | cons x xs => exact ⟨x, rfl, rfl⟩

theorem TView.scalar_eq (v : TView ν α) (hv : v.lazy.Valid) (h0 : v.shape = []) :
    ∃ x, v.scalar = .ok x ∧ (materialise v.lazy).elems = [x] := by
  have hg := hv.get [] (by simp [h0])
  simp only [TView.lazy_shape, TView.lazy_get, h0, List.map_nil, inBounds] at hg
  obtain ⟨x, hx⟩ := Option.isSome_iff_exists.1 hg
  refine ⟨x, by simp [TView.scalar, hx], ?_⟩
  simp [materialise, h0, allIndexes, hx]

/-! ### tensor ↔ matrix -/

theorem Tensor.intoMatrix_eq (r c : ν) (n m : Nat) (data : List α) (t : Tensor ν α)
    (ht : Tensor.tryFrom [(r, n), (c, m)] data = some t) :
    t.intoMatrix = .ok ⟨data, n, m⟩ ∧
    (⟨data, n, m⟩ : Matrix α).intoTensor r c = .ok (some t) := by
  obtain ⟨⟨hc, hnd, hpos⟩, ht'⟩ := (tryFrom_eq_some_iff _ data t).1 ht
  have hc' : data.length = n * m := by simpa [elements] using hc
  have hn := hpos (r, n) (by simp)
  have hm := hpos (c, m) (by simp)
  have hne : data ≠ [] := by
    intro h; rw [h] at hc'
    have : 0 < n * m := Nat.mul_pos hn hm
    simp at hc'; omega
  constructor
  · rw [ht']
    simp [Tensor.intoMatrix, Matrix.fromFlatRowMajor, hc', hne]
  · have hd : hasDuplicates [r, c] = false := by
      cases hd : hasDuplicates [r, c] with
      | false => rfl
      | true => exact absurd hnd ((hasDuplicates_iff _).1 hd)
    have hz : ([(r, n), (c, m)] : Shape ν).any (·.2 == 0) = false := by
      simp; omega
    simp only [Matrix.intoTensor, List.map_cons, List.map_nil, hd, hz, Bool.or_self,
      Bool.false_eq_true, if_false, Tensor.fromOrPanic, ht]

theorem Matrix.intoTensor_eq (mat : Matrix α) (hm : mat.Inv) (r c : ν) :
    (r = c → mat.intoTensor r c = .ok none) ∧
    (r ≠ c → ∃ t, Tensor.tryFrom [(r, mat.rows), (c, mat.columns)] mat.data = some t ∧
        mat.intoTensor r c = .ok (some t) ∧ t.intoMatrix = .ok mat) := by
  obtain ⟨hlen, hr, hc⟩ := hm
  constructor
  · rintro rfl
    simp [Matrix.intoTensor, hasDuplicates]
  · intro hne
    have hacc : Tensor.tryFrom [(r, mat.rows), (c, mat.columns)] mat.data =
        some ⟨mat.data, [(r, mat.rows), (c, mat.columns)],
          computeStrides [(r, mat.rows), (c, mat.columns)]⟩ := by
      rw [tryFrom_eq_some_iff]
      refine ⟨⟨by simpa [elements] using hlen, by simp [hne], ?_⟩, rfl⟩
      intro d hd
      simp only [List.mem_cons, List.not_mem_nil, or_false] at hd
      rcases hd with rfl | rfl <;> assumption
    refine ⟨_, hacc, (Tensor.intoMatrix_eq r c _ _ _ _ hacc).2, ?_⟩
    have := (Tensor.intoMatrix_eq r c _ _ _ _ hacc).1
    rw [this]

end EasyMl
