/-
  EasyMl.Lemmas.TapeNode — the adjoint at the tape position of EVERY record (inputs and
  intermediate results) is the derivative of the output with respect to that node
  (`Prog.gradNode`, Spec/Prog.lean): the invariant of Lemmas/TapeProg.lean with the ghost seed
  placed at the position of an arbitrary instruction `m` instead of an input.
-/
import EasyMl.Lemmas.TapeWorld

namespace EasyMl
open Spec

set_option linter.unusedSectionVars false

variable {R : Type} [CommRing R] [Div R] [RealFns R]

/-- raising the seed of the LAST entry of a tape by `s` raises the tangent of that entry by `s`
    and changes no other tangent -/
theorem tapeTan_bump_last (seed : Nat → R) (ops : Tape R) (op : Op R) (s : R) :
    (∀ i, i < ops.length →
      (tapeTan (fun j => if j = ops.length then s else seed j) (ops ++ [op])).getD i 0
        = (tapeTan seed (ops ++ [op])).getD i 0) ∧
    (tapeTan (fun j => if j = ops.length then s else seed j) (ops ++ [op])).getD ops.length 0
      = (tapeTan seed (ops ++ [op])).getD ops.length 0 + (s - seed ops.length) := by
  have hpre : tapeTan (fun j => if j = ops.length then s else seed j) ops = tapeTan seed ops := by
    apply tapeTan_congr
    intro j hj
    have : j ≠ ops.length := by omega
    simp [this]
  constructor
  · intro i hi
    rw [tapeTan_append_getD _ _ _ _ hi, tapeTan_append_getD _ _ _ _ hi, hpre]
  · rw [tapeTan_snoc_last, tapeTan_snoc_last, hpre]
    simp only [if_true]
    ring

/-- a result with a tape sits in the last entry of its tape, at or beyond the old length -/
theorem exec_last (ins : Instr R) (h : Nat) (env : Nat → R) (recs : List (Rec R)) (w w' : World R)
    (r : Rec R) (hexec : ins.exec h env recs w = (w', .ok r)) (t : Nat) (hr : r.history = some t) :
    (∃ ext, w' t = w t ++ ext) ∧ r.index + 1 = (w' t).length ∧ (w t).length ≤ r.index := by
  by_cases hs : ∃ as, ins = .sum as
  · obtain ⟨as, rfl⟩ := hs
    have := sumLoop_position _ _ _ _ _ hexec
    simp only [Rec.constant] at this
    rcases this with ⟨h1, _⟩ | ⟨t', ext, h1, hne, hw', hidx⟩
    · rw [hr] at h1; cases h1
    · rw [hr] at h1; cases h1
      have hl : (w' t).length = (w t).length + ext.length := by rw [hw']; simp
      have : ext.length ≠ 0 := by simpa using hne
      exact ⟨⟨ext, by rw [hw']; simp⟩, by omega, by omega⟩
  · have hns : ∀ as, ins ≠ .sum as := fun as e => hs ⟨as, e⟩
    rcases exec_pos1 ins h env recs w w' r hns hexec with ⟨h1, _⟩ | ⟨t', e, h1, hidx, hw'⟩
    · simp only at h1; rw [hr] at h1; cases h1
    · simp only at h1 hidx hw'
      rw [hr] at h1; cases h1
      exact ⟨⟨[e], by rw [hw']; simp⟩, by rw [hw']; simp [hidx], by omega⟩

/-- `var` with the zero seed: the new nullary entry has tangent zero -/
theorem var_stepOK {h : Nat} {tseed : Nat → R} {env : Nat → R} {w : World R}
    {recs : List (Rec R)} {vs ts : List R} {ds : List Bool}
    (hinv : Inv h tseed w recs vs ts ds) :
    ∃ res : Rec R × World R, (Instr.var : Instr R).exec h env recs w = (res.2, .ok res.1) ∧
      StepOK h tseed w res ((Instr.var : Instr R).val env vs)
        ((Instr.var : Instr R).tan (fun _ => 0) vs ts) ((Instr.var : Instr R).dep ds) := by
  refine ⟨(⟨env recs.length, some h, (w h).length⟩,
    w.update h (w h ++ [⟨(w h).length, (w h).length, 0, 0⟩])), rfl, ?_⟩
  refine ⟨⟨by simp [Instr.val, hinv.len_vs], ?_⟩, ?_, ⟨[⟨(w h).length, (w h).length, 0, 0⟩], by simp⟩,
    by simp [Instr.dep, Instr.isVar]⟩
  · simp only [World.update_same]
    refine ⟨trivial, by simp, ?_⟩
    rw [tapeTan_snoc_last, hinv.supp _ (Nat.le_refl _)]
    simp [Instr.tan]
  · simp only [World.update_same]
    exact Tape.WF_snoc _ _ hinv.wf (Or.inr ⟨rfl, rfl⟩) (Or.inr ⟨rfl, rfl⟩)

/-- One instruction (any kind) whose node is perturbed by `s`: the invariant continues with the
    ghost seed `s` at the position of the new record (a constant node cannot be perturbed:
    `s ≠ 0` needs a variable to contribute). -/
theorem node_step {h : Nat} {tseed : Nat → R} {env : Nat → R} {w : World R}
    {recs : List (Rec R)} {vs ts : List R} {ds : List Bool}
    (hinv : Inv h tseed w recs vs ts ds) (ins : Instr R)
    (hsc : ∀ a ∈ ins.operands, a < recs.length) (hd : ins.usesDiv = false ∨ DivLaws R)
    (s : R) (hs : s ≠ 0 → ins.dep ds = true) :
    ∃ (res : Rec R × World R) (tseed' : Nat → R),
      ins.exec h env recs w = (res.2, .ok res.1) ∧
      Inv h tseed' res.2 (recs ++ [res.1]) (vs ++ [ins.val env vs])
        (ts ++ [ins.tan (fun _ => 0) vs ts + s]) (ds ++ [ins.dep ds]) ∧
      (∀ j, tseed' j = if (res.1.history.isSome = true ∧ j = res.1.index) then s else tseed j) ∧
      (res.1.history.isSome = true → (w h).length ≤ res.1.index) ∧
      res.1.history.isSome = ins.dep ds := by
  -- the unperturbed step
  have hstep : ∃ res : Rec R × World R, ins.exec h env recs w = (res.2, .ok res.1) ∧
      StepOK h tseed w res (ins.val env vs) (ins.tan (fun _ => 0) vs ts) (ins.dep ds) := by
    by_cases hv : ins.isVar = true
    · have : ins = Instr.var := by cases ins <;> simp [Instr.isVar] at hv ⊢
      subst this
      exact var_stepOK hinv
    · exact instr_step (seed := fun _ => 0) (env := env) hinv ins hsc (by simpa using hv) hd
  obtain ⟨res, hexec, hok⟩ := hstep
  cases hh : res.1.history with
  | none =>
    -- a constant: no perturbation possible, nothing to seed
    have hdep : ins.dep ds = false := by rw [← hok.dep, hh]; rfl
    have hs0 : s = 0 := by
      by_contra hne
      rw [hs hne] at hdep
      cases hdep
    refine ⟨res, tseed, hexec, ?_, ?_, ?_, ?_⟩
    · have := hinv.snoc hok (fun _ _ => rfl) (supp_mono hinv.supp hok.grows)
      rw [hs0, add_zero]
      exact this
    · intro j; simp [hh]
    · intro hc; rw [hh] at hc; cases hc
    · rw [hok.dep]
  | some h' =>
    have hg := hok.good.2
    simp only [hh] at hg
    obtain ⟨rfl, hlt, htan⟩ := hg
    obtain ⟨⟨ext, hext⟩, hlast, hge⟩ := exec_last ins h' env recs w res.2 res.1 hexec h' hh
    -- the tape after the step: `init ++ [lastOp]` with the record in the last entry
    have hne : res.2 h' ≠ [] := by
      intro e; rw [e] at hlast; simp at hlast
    have hsplit := (List.dropLast_append_getLast hne).symm
    set init := (res.2 h').dropLast with hinit
    set lastOp := (res.2 h').getLast hne
    have hil : init.length = res.1.index := by
      have : (res.2 h').length = init.length + 1 := by
        conv_lhs => rw [hsplit]
        simp
      omega
    let tseed' : Nat → R := fun j => if j = init.length then s else tseed j
    have hz : tseed init.length = 0 := hinv.supp _ (by rw [hil]; exact hge)
    obtain ⟨hb1, hb2⟩ := tapeTan_bump_last tseed init lastOp s
    have hgood' : Good h' tseed' res.2 res.1 (ins.val env vs) (ins.tan (fun _ => 0) vs ts + s) := by
      refine ⟨hok.good.1, ?_⟩
      simp only [hh]
      refine ⟨trivial, hlt, ?_⟩
      rw [hsplit, ← hil, hb2, hz, sub_zero, hil, ← hsplit, htan]
    have hok' : StepOK h' tseed' w res (ins.val env vs) (ins.tan (fun _ => 0) vs ts + s)
        (ins.dep ds) := ⟨hgood', hok.wf, hok.grows, hok.dep⟩
    have hseed : ∀ j, j < (w h').length → tseed' j = tseed j := by
      intro j hj
      have : j ≠ init.length := by omega
      simp [tseed', this]
    have hsupp' : ∀ j, (res.2 h').length ≤ j → tseed' j = 0 := by
      intro j hj
      have : j ≠ init.length := by omega
      simp only [tseed', this, if_false]
      exact hinv.supp j (by rw [hext] at hj; simp at hj; omega)
    refine ⟨res, tseed', hexec, hinv.snoc hok' hseed hsupp', ?_, fun _ => hge, ?_⟩
    · intro j
      simp only [tseed', hh, Option.isSome_some, true_and, hil]
    · rw [hok.dep]

/-! ### the ghost seed for the direction of node `m` -/

/-- the ghost seed is the indicator of the tape position of the record of instruction `m`
    (zero while `m` has not been executed) -/
structure GN (m : Nat) (tseed : Nat → R) (recs : List (Rec R)) : Prop where
  char : ∀ j, tseed j =
    if (m < recs.length ∧ (getRec recs m).history.isSome = true ∧ (getRec recs m).index = j)
    then 1 else 0

/-- the records with a tape sit below the tape length (from the invariant) -/
theorem Inv.index_lt {h : Nat} {tseed : Nat → R} {w : World R} {recs : List (Rec R)}
    {vs ts : List R} {ds : List Bool} (hinv : Inv h tseed w recs vs ts ds) (k : Nat)
    (hk : k < recs.length) (hs : (getRec recs k).history.isSome = true) :
    (getRec recs k).index < (w h).length := by
  have hg := (hinv.good k hk).2
  cases hh : (getRec recs k).history with
  | none => rw [hh] at hs; cases hs
  | some h' => simp only [hh] at hg; exact hg.2.1

theorem prog_run_node {h m : Nat} {env : Nat → R} (p : Prog R) (hd : DivOK p) :
    ∀ (tseed : Nat → R) (w : World R) (recs : List (Rec R)) (vs ts : List R) (ds : List Bool),
      Inv h tseed w recs vs ts ds → GN m tseed recs → vs.length = recs.length →
      Prog.wellScopedFrom p recs.length = true →
      (∀ k, m = recs.length + k → (Prog.depsFrom p ds).getD m false = true) →
      ∃ (w' : World R) (recs' : List (Rec R)) (tseed' : Nat → R),
        Prog.execFrom h env p w recs = (w', .ok recs') ∧
        Inv h tseed' w' recs' (Prog.evalFrom env p vs)
          (Prog.nodeTangentsFrom env (unitSeed m) p vs ts).2 (Prog.depsFrom p ds) ∧
        GN m tseed' recs' ∧ recs'.length = recs.length + p.length := by
  induction p with
  | nil =>
    intro tseed w recs vs ts ds hinv hgn _ _ _
    exact ⟨w, recs, tseed, rfl, hinv, hgn, by simp⟩
  | cons ins rest ih =>
    obtain ⟨hd1, hd2⟩ := hd.cons
    have ih := ih hd2
    intro tseed w recs vs ts ds hinv hgn hlen hsc hdep
    simp only [Prog.wellScopedFrom, Bool.and_eq_true, List.all_eq_true, decide_eq_true_eq] at hsc
    obtain ⟨hops, hrest⟩ := hsc
    -- the dependency flag of node `m`, once computed, is not changed by later instructions
    have hdeps_pre : ∀ (q : Prog R) (ds' : List Bool) (j : Nat), j < ds'.length →
        (Prog.depsFrom q ds').getD j false = ds'.getD j false := by
      intro q
      induction q with
      | nil => intro ds' j _; rfl
      | cons i2 r2 ih2 =>
        intro ds' j hj
        simp only [Prog.depsFrom]
        rw [ih2 _ j (by simp; omega), getD_append_lt _ _ _ hj]
    have hs : unitSeed (R := R) m vs.length ≠ 0 → ins.dep ds = true := by
      intro hne
      have hm : vs.length = m := by
        by_contra hc
        exact hne (by simp [unitSeed, hc])
      have := hdep 0 (by omega)
      simp only [Prog.depsFrom] at this
      rw [hdeps_pre rest (ds ++ [ins.dep ds]) m (by simp [hinv.len_ds]; omega)] at this
      have hl : m = ds.length := by rw [hinv.len_ds]; omega
      rw [hl, getD_append_length] at this
      exact this
    obtain ⟨res, tseed', hexec, hinv', hts, hge, hsome⟩ :=
      node_step (env := env) hinv ins hops hd1 (unitSeed m vs.length) hs
    have hlen' : (recs ++ [res.1]).length = recs.length + 1 := by simp
    have hgn' : GN m tseed' (recs ++ [res.1]) := by
      constructor
      intro j
      rw [hts j]
      by_cases hlt : m < recs.length
      · -- node `m` was executed earlier
        have hne : vs.length ≠ m := by omega
        have hu : unitSeed (R := R) m vs.length = 0 := by simp [unitSeed, hne]
        rw [getRec_append_lt _ _ _ hlt, hu]
        have hold := hgn.char j
        by_cases hc : res.1.history.isSome = true ∧ j = res.1.index
        · rw [if_pos hc]
          -- the new position is not the position of node `m`
          rw [if_neg]
          rintro ⟨_, hs', hidx⟩
          have := hinv.index_lt m hlt hs'
          have := hge hc.1
          omega
        · rw [if_neg hc, hold]
          have : (m < recs.length ∧ (getRec recs m).history.isSome = true ∧ (getRec recs m).index = j)
              ↔ (m < recs.length + 1 ∧ (getRec recs m).history.isSome = true ∧ (getRec recs m).index = j) := by
            constructor
            · rintro ⟨_, b, c⟩; exact ⟨by omega, b, c⟩
            · rintro ⟨_, b, c⟩; exact ⟨hlt, b, c⟩
          simp only [hlen', this]
      · by_cases heq : m = recs.length
        · -- this instruction is node `m`
          subst heq
          have hu : unitSeed (R := R) recs.length vs.length = 1 := by simp [unitSeed, hlen]
          rw [getRec_append_length, hu]
          have hold := hgn.char j
          rw [if_neg (by rintro ⟨h1, _⟩; omega)] at hold
          by_cases hc : res.1.history.isSome = true ∧ j = res.1.index
          · rw [if_pos hc, if_pos ⟨by simp, hc.1, hc.2.symm⟩]
          · rw [if_neg hc, hold, if_neg]
            rintro ⟨_, b, c⟩
            exact hc ⟨b, c.symm⟩
        · -- node `m` comes later
          have hne : vs.length ≠ m := by omega
          have hu : unitSeed (R := R) m vs.length = 0 := by simp [unitSeed, hne]
          rw [hu]
          have hold := hgn.char j
          rw [if_neg (by rintro ⟨h1, _⟩; omega)] at hold
          have hR : (if (m < (recs ++ [res.1]).length ∧
              (getRec (recs ++ [res.1]) m).history.isSome = true ∧
              (getRec (recs ++ [res.1]) m).index = j) then (1 : R) else 0) = 0 := by
            apply if_neg
            rintro ⟨h1, _⟩
            rw [hlen'] at h1
            omega
          rw [hR]
          by_cases hc : res.1.history.isSome = true ∧ j = res.1.index
          · rw [if_pos hc]
          · rw [if_neg hc, hold]
    obtain ⟨w', recs', tseed'', hrun, hinv'', hgn'', hl⟩ :=
      ih tseed' res.2 (recs ++ [res.1]) _ _ _ hinv' hgn' (by simp [hlen])
        (by rw [hlen']; exact hrest)
        (by
          intro k hk
          have := hdep (k + 1) (by rw [hlen'] at hk; omega)
          simpa [Prog.depsFrom] using this)
    refine ⟨w', recs', tseed'', ?_, ?_, hgn'', by rw [hl, hlen']; simp; omega⟩
    · simp only [Prog.execFrom, hexec]; exact hrun
    · simpa [Prog.nodeTangentsFrom, Prog.evalFrom, Prog.depsFrom] using hinv''

/-- all facts about a run for the direction of an arbitrary node `m` to which a variable
    contributes -/
theorem run_facts_node {h : Nat} {env : Nat → R} (p : Prog R) (hp : p.WellScoped) (hd : DivOK p)
    (w0 : World R) (hw0 : Tape.WF (w0 h)) (m : Nat) (hm : (Prog.deps p).getD m false = true) :
    ∃ (w : World R) (recs : List (Rec R)) (tseed : Nat → R),
      Prog.exec h env p w0 = (w, .ok recs) ∧ recs.length = p.length ∧
      Inv h tseed w recs (Prog.eval env p) (Prog.gradNode env p m) (Prog.deps p) ∧
      GN m tseed recs := by
  obtain ⟨w, recs, tseed, hrun, hinv, hgn, hlen⟩ :=
    prog_run_node (h := h) (m := m) (env := env) p hd (fun _ => 0) w0 [] [] [] []
      (Inv.init hw0) ⟨fun j => by simp⟩ rfl hp (fun _ _ => hm)
  exact ⟨w, recs, tseed, hrun, by simpa using hlen, hinv, hgn⟩

/-- for an input, the derivative with respect to the node is the derivative with respect to
    the input -/
theorem gradNode_eq_grad (env : Nat → R) (p : Prog R) (i : Nat) (hi : p.isInput i = true) :
    Prog.gradNode env p i = Prog.grad env p i := by
  have key : ∀ (q : Prog R) (vs ts : List R),
      (∀ k, vs.length + k = i → (q.map Instr.isVar).getD k false = true) →
      (Prog.nodeTangentsFrom env (unitSeed i) q vs ts).2
        = (Prog.tangentsFrom env (unitSeed i) q vs ts).2 := by
    intro q
    induction q with
    | nil => intro vs ts _; rfl
    | cons ins rest ih =>
      intro vs ts hq
      simp only [Prog.nodeTangentsFrom, Prog.tangentsFrom]
      have hstep : ins.tan (fun _ => 0) vs ts + unitSeed i vs.length = ins.tan (unitSeed i) vs ts := by
        by_cases hpos : vs.length = i
        · have hv : ins.isVar = true := by simpa using hq 0 (by omega)
          have : ins = Instr.var := by cases ins <;> simp [Instr.isVar] at hv ⊢
          subst this
          simp [Instr.tan]
        · have hu : unitSeed (R := R) i vs.length = 0 := by simp [unitSeed, hpos]
          rw [hu, add_zero]
          cases ins <;> simp [Instr.tan, unitSeed, hpos]
      rw [hstep]
      apply ih
      intro k hk
      have := hq (k + 1) (by simp at hk; omega)
      simpa using this
  unfold Prog.gradNode Prog.grad Prog.tangents
  apply key
  intro k hk
  simp only [List.length_nil, Nat.zero_add] at hk
  subst hk
  exact hi

end EasyMl
