/-
  EasyMl.Lemmas.TapeChecked — the `Rec` / `Dual` operators at a bounded integer element type
  (`Model/TapeChecked.lean`): the number is the plain checked operator's value-or-panic, the
  weights are the documented rules of functions.rs evaluated with the checked operators, and the
  `Dual` operators are agent K's `traceBin` / `traceScalar` / `traceNeg` (property C19).
-/
import EasyMl.Model.TapeChecked
import EasyMl.Lemmas.Numeric

namespace EasyMl

open EasyMl.Num

theorem Outcome.bind_assoc' {α β γ : Type} (x : Outcome α) (f : α → Outcome β)
    (g : β → Outcome γ) :
    Outcome.bind (Outcome.bind x f) g = Outcome.bind x (fun a => Outcome.bind (f a) g) := by
  cases x <;> rfl

namespace Chk
variable {t : IntTy}

theorem add_lift (x y : Val t) : (lift x + lift y : Chk t) = (pAdd t x y : Chk t) := rfl
theorem sub_lift (x y : Val t) : (lift x - lift y : Chk t) = (pSub t x y : Chk t) := rfl
theorem mul_lift (x y : Val t) : (lift x * lift y : Chk t) = (pMul t x y : Chk t) := rfl
theorem div_lift (x y : Val t) : (lift x / lift y : Chk t) = (pDiv t x y : Chk t) := rfl
theorem neg_lift (x : Val t) : (-(lift x) : Chk t) = (checked t (-(toInt t x)) : Chk t) := rfl

theorem pAdd_comm (x y : Val t) : pAdd t x y = pAdd t y x := by
  simp [pAdd, Int.add_comm]

theorem pMul_comm (x y : Val t) : pMul t x y = pMul t y x := by
  simp [pMul, Int.mul_comm]

theorem add_lift_comm (x y : Val t) : (lift y + lift x : Chk t) = lift x + lift y := by
  rw [add_lift, add_lift, pAdd_comm]

theorem mul_lift_comm (x y : Val t) : (lift y * lift x : Chk t) = lift x * lift y := by
  rw [mul_lift, mul_lift, pMul_comm]

/-- the element function at evaluated operands is the plain checked operator -/
theorem fnOf_lift (op : BinOp) (x y : Val t) :
    Fn.fnOf op (lift x) (lift y) = ((arithPlain t).bin op x y : Chk t) := by
  cases op <;> rfl

/-- the documented `d_function_dx` evaluated with the checked operators (agent K's `dfdx`) -/
theorem dxOf_lift (op : BinOp) (x y : Val t) :
    Fn.dxOf op (lift x) (lift y) = (dfdx (arithPlain t) op x y : Chk t) := by
  cases op <;> rfl

/-- the documented `d_function_dy` evaluated with the checked operators (agent K's `dfdy`):
    for division `-x`, then `y * y`, then the quotient, each step checked -/
theorem dyOf_lift (op : BinOp) (x y : Val t) :
    Fn.dyOf op (lift x) (lift y) = (dfdy (arithPlain t) op x y : Chk t) := by
  cases op <;> rfl

end Chk

/-! ### Record -/

section
variable {R : Type} [Zero R]

theorem Rec.unary_number (a : Rec R) (fx dfx : R → R) (w : World R) :
    (a.unary fx dfx w).1.number = fx a.number := by
  unfold Rec.unary; cases a.history <;> rfl

theorem Rec.binary_number (a b : Rec R) (fxy dfx dfy : R → R → R) (w w' : World R) (r : Rec R)
    (h : a.binary b fxy dfx dfy w = .ok (r, w')) : r.number = fxy a.number b.number := by
  unfold Rec.binary at h
  split at h
  · cases h
  · cases hah : a.history <;> cases hbh : b.history <;> simp only [hah, hbh] at h <;>
      exact (congrArg (fun p => p.1.number) (Outcome.ok.inj h)).symm

end

variable {t : IntTy}

/-- every `&Record op &Record` at the checked element type is `Record::binary` called with the
    element function and the two documented rules — also in the constant-variable pairing of
    `+` and `*`, where the code commutes the operands (`rhs + &self.number`). -/
theorem Rec.bin_eq_binary (op : BinOp) (a b : Rec (Chk t)) (x y : Val t)
    (ha : a.number = Chk.lift x) (hb : b.number = Chk.lift y) (w : World (Chk t)) :
    Rec.bin op a b w = a.binary b (Fn.fnOf op) (Fn.dxOf op) (Fn.dyOf op) w := by
  cases op
  · show a.add b w = _
    unfold Rec.add Rec.binary
    split
    · rfl
    · cases hah : a.history <;> cases hbh : b.history <;>
        simp [Rec.addNum, hah, hbh, Fn.fnOf, Fn.dxOf, Fn.dyOf, Fn.Addition.function,
          Fn.Addition.dx, Fn.Addition.dy, ha, hb, Chk.add_lift_comm]
  · show a.sub b w = _
    unfold Rec.sub Rec.binary
    split
    · rfl
    · cases hah : a.history <;> cases hbh : b.history <;>
        simp [Rec.subNum, Rec.subSwapped, hah, hbh, Fn.fnOf, Fn.dxOf, Fn.dyOf]
  · show a.mul b w = _
    unfold Rec.mul Rec.binary
    split
    · rfl
    · cases hah : a.history <;> cases hbh : b.history <;>
        simp [Rec.mulNum, hah, hbh, Fn.fnOf, Fn.dxOf, Fn.dyOf, Fn.Multiplication.function,
          Fn.Multiplication.dx, Fn.Multiplication.dy, ha, hb, Chk.mul_lift_comm]
  · show a.div b w = _
    unfold Rec.div Rec.binary
    split
    · rfl
    · cases hah : a.history <;> cases hbh : b.history <;>
        simp [Rec.divNum, Rec.divSwapped, hah, hbh, Fn.fnOf, Fn.dxOf, Fn.dyOf]

theorem Rec.binNum_eq_unary (op : BinOp) (a : Rec (Chk t)) (c : Chk t) (w : World (Chk t)) :
    Rec.binNum op a c w = a.unary (fun x => Fn.fnOf op x c) (fun x => Fn.dxOf op x c) w := by
  cases op
  · show a.addNum c w = _
    unfold Rec.addNum Rec.unary; cases a.history <;> rfl
  · show a.subNum c w = _
    unfold Rec.subNum Rec.unary; cases a.history <;> rfl
  · show a.mulNum c w = _
    unfold Rec.mulNum Rec.unary; cases a.history <;> rfl
  · show a.divNum c w = _
    unfold Rec.divNum Rec.unary; cases a.history <;> rfl

theorem Rec.binNum_number (op : BinOp) (a : Rec (Chk t)) (c : Chk t) (w : World (Chk t)) :
    (Rec.binNum op a c w).1.number = Fn.fnOf op a.number c := by
  rw [Rec.binNum_eq_unary, Rec.unary_number]

theorem Rec.subSwapped_number (a : Rec (Chk t)) (c : Chk t) (w : World (Chk t)) :
    (a.subSwapped c w).1.number = c - a.number := by
  unfold Rec.subSwapped; cases a.history <;> rfl

theorem Rec.divSwapped_number (a : Rec (Chk t)) (c : Chk t) (w : World (Chk t)) :
    (a.divSwapped c w).1.number = c / a.number := by
  unfold Rec.divSwapped; cases a.history <;> rfl

theorem Rec.neg_number (a : Rec (Chk t)) (w : World (Chk t)) :
    (a.neg w).1.number = -a.number := by
  unfold Rec.neg; cases a.history <;> rfl

/-! ### Trace -/

set_option linter.unusedSimpArgs false in
theorem Dual.bin_evaluated (op : BinOp) (a b : Num.Trace (Val t)) :
    (Dual.bin op (Dual.ofTrace a) (Dual.ofTrace b)).evaluated
      = traceBin (arithPlain t) op a b := by
  cases op <;>
    simp only [Dual.bin, Dual.add, Dual.sub, Dual.mul, Dual.div, Dual.evaluated, Dual.ofTrace,
      Chk.out, Chk.add_lift, Chk.sub_lift, Chk.mul_lift, Chk.div_lift, traceBin] <;>
    simp only [HAdd.hAdd, HSub.hSub, HMul.hMul, HDiv.hDiv, Add.add, Sub.sub, Mul.mul, Div.div,
      Chk.bin, Outcome.bind_assoc', arithPlain, bind, pure] <;> rfl

set_option linter.unusedSimpArgs false in
theorem Dual.binNum_evaluated (op : BinOp) (a : Num.Trace (Val t)) (c : Val t) :
    (Dual.binNum op (Dual.ofTrace a) (Chk.lift c)).evaluated
      = traceScalar (arithPlain t) op a c := by
  cases op <;>
    simp only [Dual.binNum, Dual.addNum, Dual.subNum, Dual.mulNum, Dual.divNum, Dual.evaluated,
      Dual.ofTrace, Chk.out, Chk.add_lift, Chk.sub_lift, Chk.mul_lift, Chk.div_lift,
      traceScalar] <;>
    simp only [HAdd.hAdd, HSub.hSub, HMul.hMul, HDiv.hDiv, Add.add, Sub.sub, Mul.mul, Div.div,
      Chk.bin, Outcome.bind_assoc', arithPlain, bind, pure] <;> rfl

theorem Dual.neg_evaluated (a : Num.Trace (Val t)) :
    (Dual.neg (Dual.ofTrace a)).evaluated = traceNeg (arithPlain t) a :=
  Dual.bin_evaluated .sub (Num.Trace.constant (zero t) (zero t)) a

/-- `0 - x`, checked, is `-x`, checked -/
theorem Chk.zero_sub (x : Val t) : pSub t (zero t) x = checked t (-(toInt t x)) := by
  simp [pSub, toInt_zero]

end EasyMl
