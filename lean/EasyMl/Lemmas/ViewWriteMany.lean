/-
  EasyMl.Lemmas.ViewWriteMany — a view that was written through is a well-formed view again (so
  every theorem applies to it again), and a whole sequence of writes changes exactly the cells
  the index mapping designates.
-/
import EasyMl.Lemmas.ViewWrite
import EasyMl.Lemmas.ViewInjective

namespace EasyMl
open EasyMl.Spec EasyMl.View

set_option linter.unusedSectionVars false

variable {ν : Type} [DecidableEq ν] [Inhabited ν] {α : Type}

theorem updLeaf_fst (c : Cell) (x : α) (l : Nat × List α) : (updLeaf c x l).1 = l.1 := by
  simp only [updLeaf]; split <;> rfl

theorem View.leafIds_setCell (c : Cell) (x : α) (v : View ν α) :
    (v.setCell c x).leafIds = v.leafIds := by
  simp only [View.leafIds, (View.sameStructure c x v).2.2, List.map_map]
  apply List.map_congr_left
  intro l _
  exact updLeaf_fst c x l

theorem wfs_setCellList (c : Cell) (x : α) (ss : List (View ν α))
    (ih : ∀ s ∈ ss, s.WF → (s.setCell c x).WF) (h : WFs ss) : WFs (setCellList c x ss) := by
  induction ss with
  | nil => simp [setCellList, WFs]
  | cons v vs ihl =>
    simp only [WFs] at h
    simp only [setCellList, WFs]
    exact ⟨ih v (by simp) h.1, ihl (fun s hs => ih s (by simp [hs])) h.2⟩

/-- storing an element keeps the invariant of the view -/
theorem View.setCell_wf (c : Cell) (x : α) (v : View ν α) : v.WF → (v.setCell c x).WF := by
  induction v using View.ind with
  | tensor id t =>
    intro h
    simp only [View.setCell]
    split
    · simp only [View.WF, List.length_set] at h ⊢; exact h
    · exact h
  | matrix id m r cn =>
    intro h
    simp only [View.setCell]
    split
    · simp only [View.WF, Matrix.Inv, List.length_set] at h ⊢; exact h
    · exact h
  | matrixOf s r cn ih =>
    intro h; simp only [View.WF] at h
    simp only [View.setCell, View.WF, (View.sameStructure c x s).1]; exact ⟨ih h.1, h.2⟩
  | mrange s rows columns ih =>
    intro h; simp only [View.WF] at h
    simp only [View.setCell, View.WF, (View.sameStructure c x s).1]; exact ⟨ih h.1, h.2⟩
  | mreverse s rows columns ih =>
    intro h; simp only [View.WF] at h
    simp only [View.setCell, View.WF, (View.sameStructure c x s).1]; exact ⟨ih h.1, h.2⟩
  | tmap s ih =>
    intro h; simp only [View.WF] at h
    simp only [View.setCell, View.WF]; exact ih h
  | range s rs ih =>
    intro h; simp only [View.WF] at h
    simp only [View.setCell, View.WF, (View.sameStructure c x s).1]; exact ⟨ih h.1, h.2⟩
  | mask s ms ih =>
    intro h; simp only [View.WF] at h
    simp only [View.setCell, View.WF, (View.sameStructure c x s).1]; exact ⟨ih h.1, h.2⟩
  | index s p ih =>
    intro h; simp only [View.WF] at h
    simp only [View.setCell, View.WF, (View.sameStructure c x s).1]; exact ⟨ih h.1, h.2⟩
  | expansion s e ih =>
    intro h; simp only [View.WF] at h
    simp only [View.setCell, View.WF, (View.sameStructure c x s).1]; exact ⟨ih h.1, h.2⟩
  | rename s ns ih =>
    intro h; simp only [View.WF] at h
    simp only [View.setCell, View.WF, (View.sameStructure c x s).1]; exact ⟨ih h.1, h.2⟩
  | reverse s r ih =>
    intro h; simp only [View.WF] at h
    simp only [View.setCell, View.WF, (View.sameStructure c x s).1]; exact ⟨ih h.1, h.2⟩
  | access s m ih =>
    intro h; simp only [View.WF] at h
    simp only [View.setCell, View.WF, (View.sameStructure c x s).1]; exact ⟨ih h.1, h.2⟩
  | transpose s m ih =>
    intro h; simp only [View.WF] at h
    simp only [View.setCell, View.WF, (View.sameStructure c x s).1]; exact ⟨ih h.1, h.2⟩
  | stack ss along ih =>
    intro h; simp only [View.WF] at h
    have hsh := shapes_setCellList c x ss (fun s _ => View.sameStructure c x s)
    have hlen : (setCellList c x ss).length = ss.length := by simp [setCellList_eq_map]
    have hne : setCellList c x ss ≠ [] := by
      intro he; apply h.2.1; apply List.eq_nil_of_length_eq_zero; rw [← hlen, he]; rfl
    simp only [View.setCell, View.WF, hsh, hlen]
    exact ⟨wfs_setCellList c x ss ih h.1, hne, h.2.2⟩
  | chain ss along ih =>
    intro h; simp only [View.WF] at h
    have hsh := shapes_setCellList c x ss (fun s _ => View.sameStructure c x s)
    have hlen : (setCellList c x ss).length = ss.length := by simp [setCellList_eq_map]
    have hne : setCellList c x ss ≠ [] := by
      intro he; apply h.2.1; apply List.eq_nil_of_length_eq_zero; rw [← hlen, he]; rfl
    simp only [View.setCell, View.WF, hsh]
    exact ⟨wfs_setCellList c x ss ih h.1, hne, h.2.2⟩

/-- one write through an in-bounds index, with the view it leaves behind made explicit -/
theorem View.write_inBounds (v : View ν α) (h : v.WF) (hn : v.leafIds.Nodup) (idx : List Nat)
    (hin : inBounds (lens v.shape) idx = true) (x : α) :
    ∃ c, v.write idx x = .ok (some (v.setCell c x)) ∧
      (v.setCell c x).read idx = .ok (some x) ∧
      ∀ idx', inBounds (lens v.shape) idx' = true → idx' ≠ idx →
        (v.setCell c x).read idx' = v.read idx' := by
  have hg := (View.correct v h).1
  have hl := inBounds_length hin
  simp only [lens_length] at hl
  have hget := (View.correct v h).2 idx hl (bounded_of_inBounds hin hg.lens_le)
  obtain ⟨c, hc, _, data, hm, hlt⟩ := View.specCell_valid v h idx hin
  have hgc : v.get idx = .ok (some c) := by rw [hget]; simp [View.specGet, hin, hc]
  have hss := View.sameStructure c x v
  refine ⟨c, by simp [View.write, hgc], ?_, ?_⟩
  · simp [View.read, hss.2.1, hgc, lookup_setCell v hn c x hm hlt]
  · intro idx' hin' hne
    have la := inBounds_length hin'
    simp only [lens_length] at la
    have hget' := (View.correct v h).2 idx' la (bounded_of_inBounds hin' hg.lens_le)
    obtain ⟨c', hc', _⟩ := View.specCell_valid v h idx' hin'
    have hgc' : v.get idx' = .ok (some c') := by rw [hget']; simp [View.specGet, hin', hc']
    have hcc : c' ≠ c := by
      intro he
      exact hne ((View.resolves v h).2 hn idx' idx hin' hin (by rw [hc', hc, he]))
    simp [View.read, hss.2.1, hgc', lookup_setCell v hn c x hm hlt, hcc]

theorem View.writeMany_spec (ws : List (List Nat × α)) : ∀ (v : View ν α), v.WF → v.leafIds.Nodup →
    (∀ w ∈ ws, w.1.length = v.shape.length ∧ ∀ i ∈ w.1, i ≤ usizeMax) →
    ∃ v', v.writeMany ws = .ok v' ∧ v'.WF ∧ v'.leafIds = v.leafIds ∧ v'.shape = v.shape ∧
      (∀ i, v'.get i = v.get i) ∧
      ∀ idx, inBounds (lens v.shape) idx = true →
        v'.read idx = match View.lastWrite ws idx with
          | some x => .ok (some x)
          | none => v.read idx := by
  induction ws with
  | nil => intro v h _ _; exact ⟨v, rfl, h, rfl, rfl, fun _ => rfl, fun _ _ => rfl⟩
  | cons w rest ih =>
    intro v h hn hws
    have hw := hws w (by simp)
    have hrest : ∀ w' ∈ rest, w'.1.length = v.shape.length ∧ ∀ i ∈ w'.1, i ≤ usizeMax :=
      fun w' hw' => hws w' (by simp [hw'])
    by_cases hin : inBounds (lens v.shape) w.1 = true
    · obtain ⟨c, hwr, hback, hother⟩ := View.write_inBounds v h hn w.1 hin w.2
      have hss := View.sameStructure c w.2 v
      have h1 : (v.setCell c w.2).WF := View.setCell_wf c w.2 v h
      have hids : (v.setCell c w.2).leafIds = v.leafIds := View.leafIds_setCell c w.2 v
      obtain ⟨v', e, hwf, hid, hsh, hget, hread⟩ :=
        ih (v.setCell c w.2) h1 (by rw [hids]; exact hn) (by rw [hss.1]; exact hrest)
      refine ⟨v', by simp only [View.writeMany, hwr, e], hwf, by rw [hid, hids], by rw [hsh, hss.1],
        fun i => by rw [hget, hss.2.1], ?_⟩
      intro idx hidx
      have := hread idx (by rw [hss.1]; exact hidx)
      rw [this]
      simp only [View.lastWrite]
      cases hlw : View.lastWrite rest idx with
      | some x => rfl
      | none =>
        by_cases he : w.1 = idx
        · simp only [he, if_true]; rw [← he]; exact hback
        · simp only [he, if_false]; exact hother idx hidx (fun e => he e.symm)
    · have hout : inBounds (lens v.shape) w.1 = false := by simpa using hin
      have hget := (View.correct v h).2 w.1 hw.1 hw.2
      have hwr : v.write w.1 w.2 = .ok none := by simp [View.write, hget, View.specGet, hout]
      obtain ⟨v', e, hwf, hid, hsh, hget', hread⟩ := ih v h hn hrest
      refine ⟨v', by simp only [View.writeMany, hwr, e], hwf, hid, hsh, hget', ?_⟩
      intro idx hidx
      rw [hread idx hidx]
      simp only [View.lastWrite]
      cases hlw : View.lastWrite rest idx with
      | some x => rfl
      | none =>
        have he : w.1 ≠ idx := by intro e; rw [e] at hout; rw [hout] at hidx; exact Bool.false_ne_true hidx
        simp [he]

end EasyMl
