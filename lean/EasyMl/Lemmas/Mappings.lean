/-
  EasyMl.Lemmas.Mappings — helper lemmas about `DimensionMappings` (the two permutation
  tables), constructor validation and the correspondence between the code-shaped `Access`
  functions and the by-name specification (C01).  Core Lean only.
-/
import EasyMl.Lemmas.Tensor

namespace EasyMl
open EasyMl.Spec

set_option linter.unusedSectionVars false

variable {ν : Type} [DecidableEq ν] {α : Type}

theorem hasDuplicates_iff (l : List ν) : hasDuplicates l = true ↔ ¬ l.Nodup := by
  induction l with
  | nil => simp [hasDuplicates]
  | cons x xs ih =>
    simp only [hasDuplicates, Bool.or_eq_true, List.contains_iff_mem, ih, List.nodup_cons]
    grind

theorem findPos_eq (x : ν) (l : List ν) :
    findPos (fun y => decide (y = x)) l = if x ∈ l then some (l.idxOf x) else none := by
  induction l with
  | nil => simp [findPos]
  | cons y ys ih =>
    simp only [findPos, ih, List.idxOf_cons, List.mem_cons]
    by_cases h : y = x
    · simp [h]
    · have h' : ¬ x = y := fun e => h e.symm
      have hb : (y == x) = false := by simp [h]
      by_cases hm : x ∈ ys <;> simp [h, h', hm, hb]

theorem mapM_option_eq_some_iff {β γ : Type} (f : β → Option γ) (l : List β) (r : List γ) :
    l.mapM f = some r ↔ l.map f = r.map some := by
  induction l generalizing r with
  | nil => cases r <;> simp
  | cons x xs ih =>
    simp only [List.mapM_cons, List.map_cons]
    cases hx : f x with
    | none => cases r <;> simp
    | some y =>
      cases hxs : xs.mapM f with
      | none =>
        cases r with
        | nil => simp
        | cons a as =>
          simp
          intro _ h
          have := (ih as).2 h
          simp [hxs] at this
      | some ys =>
        have := (ih ys).1 hxs
        cases r with
        | nil => simp
        | cons a as =>
          simp [this]
          intro _
          constructor
          · intro h; subst h; rfl
          · intro h; exact (List.map_inj_right (fun _ _ e => Option.some.inj e)).1 h

/-- pigeonhole: a duplicate-free list contained in a list that is not longer is a permutation of it -/
theorem perm_of_nodup_subset_length (l₁ l₂ : List ν) (hnd : l₁.Nodup) (hsub : ∀ x ∈ l₁, x ∈ l₂)
    (hlen : l₂.length ≤ l₁.length) : l₂.Perm l₁ := by
  induction l₁ generalizing l₂ with
  | nil =>
    cases l₂ with
    | nil => exact .nil
    | cons _ _ => simp at hlen
  | cons x xs ih =>
    have hx : x ∈ l₂ := hsub x (by simp)
    have hnd' := List.nodup_cons.1 hnd
    have h1 : l₂.Perm (x :: l₂.erase x) := List.perm_cons_erase hx
    refine h1.trans (List.Perm.cons x ?_)
    apply ih _ hnd'.2
    · intro y hy
      have hne : y ≠ x := fun e => hnd'.1 (e ▸ hy)
      exact (List.mem_erase_of_ne hne).2 (hsub y (by simp [hy]))
    · rw [List.length_erase_of_mem hx]
      simp at hlen; omega

/-! ### `DimensionMappings::new` -/

/-- an iteration of the loop succeeds only if the source's `d`-th name occurs in `requested` -/
theorem mappingAt_isSome_mem (src req : List ν) (d : Nat) (p : Nat × Nat)
    (h : mappingAt src req d = some p) : ∃ x, src[d]? = some x ∧ x ∈ req := by
  unfold mappingAt at h
  split at h
  · rename_i dim r hs hr
    refine ⟨dim, hs, ?_⟩
    split at h
    · rename_i e; subst e; exact List.mem_of_getElem? hr
    · rw [findPos_eq] at h
      by_cases hm : dim ∈ req
      · exact hm
      · simp [hm] at h
  · simp at h

/-- With both lists duplicate-free and having the same members, iteration `d` of the loop
    stores the position of the source's `d`-th name in `requested` and the position of the
    requested `d`-th name in the source (the "happy path" stores the same thing). -/
theorem mappingAt_eq (src req : List ν) (d : Nat) (x r : ν) (hs : src[d]? = some x)
    (hr : req[d]? = some r) (hsn : src.Nodup) (hrn : req.Nodup) (hxr : x ∈ req) (hrs : r ∈ src) :
    mappingAt src req d = some (req.idxOf x, src.idxOf r) := by
  unfold mappingAt
  simp only [hs, hr]
  have hd1 : d < src.length := (List.getElem?_eq_some_iff.1 hs).1
  have hd2 : d < req.length := (List.getElem?_eq_some_iff.1 hr).1
  have hsx : src[d] = x := (List.getElem?_eq_some_iff.1 hs).2
  have hrr : req[d] = r := (List.getElem?_eq_some_iff.1 hr).2
  split
  · rename_i e
    subst e
    have h1 : req.idxOf r = d := by rw [← hrr]; exact hrn.idxOf_getElem d hd2
    have h2 : src.idxOf r = d := by rw [← hsx]; exact hsn.idxOf_getElem d hd1
    rw [h1, h2]
  · rw [findPos_eq, findPos_eq]
    simp [hxr, hrs]

theorem mapM_mappingAt_of_perm (src req : List ν) (hsn : src.Nodup) (hp : req.Perm src) :
    (List.range src.length).mapM (mappingAt src req) =
      some (List.zip (src.map (req.idxOf ·)) (req.map (src.idxOf ·))) := by
  have hrn : req.Nodup := hp.nodup_iff.2 hsn
  have hlen : req.length = src.length := hp.length_eq
  rw [mapM_option_eq_some_iff]
  apply List.ext_getElem
  · simp [hlen]
  · intro i h1 h2
    simp only [List.length_map, List.length_range] at h1
    have h1' : i < req.length := by omega
    simp only [List.getElem_map, List.getElem_range, List.getElem_zip]
    exact mappingAt_eq src req i src[i] req[i] (List.getElem?_eq_getElem h1)
      (List.getElem?_eq_getElem h1') hsn hrn (hp.mem_iff.2 (List.getElem_mem h1))
      (hp.mem_iff.1 (List.getElem_mem h1'))

/-- `DimensionMappings::new` on a permutation of the source names yields the two position tables. -/
theorem new_of_perm (source : Shape ν) (req : List ν) (hsn : (source.map (·.1)).Nodup)
    (hp : req.Perm (source.map (·.1))) :
    DimensionMappings.new source req =
      some { sourceToRequested := (source.map (·.1)).map (req.idxOf ·),
             requestedToSource := req.map ((source.map (·.1)).idxOf ·) } := by
  have hlen : req.length = source.length := by simpa using hp.length_eq
  unfold DimensionMappings.new
  have := mapM_mappingAt_of_perm (source.map (·.1)) req hsn hp
  simp only [List.length_map] at this
  simp only [hlen, ne_eq, not_true_eq_false, if_false, this]
  congr 2
  · apply List.map_fst_zip; simp [hlen]
  · apply List.map_snd_zip; simp [hlen]

/-- `DimensionMappings::new` succeeds only on permutations of the (duplicate-free) source names. -/
theorem perm_of_new (source : Shape ν) (req : List ν) (m : DimensionMappings)
    (hsn : (source.map (·.1)).Nodup) (h : DimensionMappings.new source req = some m) :
    req.Perm (source.map (·.1)) := by
  unfold DimensionMappings.new at h
  split at h
  · simp at h
  · rename_i hlen
    simp only [ne_eq, Decidable.not_not] at hlen
    split at h
    · simp at h
    · rename_i l hl
      rw [mapM_option_eq_some_iff] at hl
      apply perm_of_nodup_subset_length _ _ hsn
      · intro x hx
        obtain ⟨d, hd, rfl⟩ := List.getElem_of_mem hx
        have hd' : d < source.length := by simpa using hd
        have : ((List.range source.length).map (mappingAt (source.map (·.1)) req))[d]? =
            (l.map some)[d]? := by rw [hl]
        simp only [List.getElem?_map, List.getElem?_range hd', Option.map_some] at this
        cases hld : l[d]? with
        | none => simp [hld] at this
        | some p =>
          simp only [hld, Option.map_some, Option.some.injEq] at this
          obtain ⟨y, hy, hmem⟩ := mappingAt_isSome_mem _ _ _ _ this
          rw [List.getElem?_eq_getElem hd] at hy
          simp only [Option.some.injEq] at hy
          rw [hy]; exact hmem
      · simp [hlen]

/-! ### the two tables are mutually inverse permutations of `0..D-1` -/

theorem idxOf_inj_of_mem (l : List ν) (x y : ν) (hx : x ∈ l) (h : l.idxOf x = l.idxOf y) : x = y := by
  have hy : y ∈ l := by
    have := List.idxOf_lt_length_iff.2 hx
    rw [h] at this
    exact List.idxOf_lt_length_iff.1 this
  have h1 := List.getElem_idxOf (List.idxOf_lt_length_iff.2 hx)
  have h2 := List.getElem_idxOf (List.idxOf_lt_length_iff.2 hy)
  rw [← h1, ← h2]
  simp [h]

/-- the table of positions (in `b`) of the members of `a` is a permutation of `0..|b|-1` -/
theorem idxOf_table_perm_range (a b : List ν) (ha : a.Nodup) (hb : b.Nodup) (hp : a.Perm b) :
    (a.map (b.idxOf ·)).Perm (List.range b.length) := by
  have hnd : (a.map (b.idxOf ·)).Nodup := by
    rw [List.nodup_iff_pairwise_ne, List.pairwise_map]
    rw [List.nodup_iff_pairwise_ne] at ha
    refine ha.imp_of_mem ?_
    intro x y hx _ hne e
    exact hne (idxOf_inj_of_mem b x y (hp.mem_iff.1 hx) e)
  rw [List.perm_ext_iff_of_nodup hnd List.nodup_range]
  intro k
  simp only [List.mem_map, List.mem_range]
  constructor
  · rintro ⟨x, hx, rfl⟩
    exact List.idxOf_lt_length_iff.2 (hp.mem_iff.1 hx)
  · intro hk
    exact ⟨b[k], hp.mem_iff.2 (List.getElem_mem hk), hb.idxOf_getElem k hk⟩

/-- looking up position `d` in one table and the result in the other gives `d` back -/
theorem idxOf_tables_inverse (a b : List ν) (ha : a.Nodup) (hp : a.Perm b) (d : Nat)
    (hd : d < a.length) :
    ((a.map (b.idxOf ·))[d]?).bind (fun k => (b.map (a.idxOf ·))[k]?) = some d := by
  have hmem : a[d] ∈ b := hp.mem_iff.1 (List.getElem_mem hd)
  have hk : b.idxOf a[d] < b.length := List.idxOf_lt_length_iff.2 hmem
  simp only [List.getElem?_map, List.getElem?_eq_getElem hd, Option.map_some, Option.bind_some,
    List.getElem?_eq_getElem hk, Option.some.injEq]
  rw [List.getElem_idxOf hk]
  exact ha.idxOf_getElem d hd

/-! ### shapes -/

/-- in a shape with unique names, looking a member's name up finds that member -/
theorem find?_name_of_mem (shape : Shape ν) (hnd : (shape.map (·.1)).Nodup) (d : ν × Nat)
    (hd : d ∈ shape) : shape.find? (fun e => decide (e.1 = d.1)) = some d := by
  induction shape with
  | nil => simp at hd
  | cons e rest ih =>
    simp only [List.map_cons, List.nodup_cons, List.mem_map, not_exists, not_and] at hnd
    rcases List.mem_cons.1 hd with rfl | hmem
    · simp
    · have hne : ¬ e.1 = d.1 := fun h => hnd.1 d hmem h.symm
      simp only [List.find?_cons, hne, decide_false]
      exact ih hnd.2 hmem

/-- the entry at the position of name `n` is `n` with the length `find?` reports -/
theorem getD_idxOf_name (shape : Shape ν) (n : ν) (dflt : ν × Nat) (hn : n ∈ shape.map (·.1)) :
    shape.getD ((shape.map (·.1)).idxOf n) dflt =
      (n, ((shape.find? (fun e => decide (e.1 = n))).map (·.2)).getD 0) := by
  induction shape with
  | nil => simp at hn
  | cons e rest ih =>
    simp only [List.map_cons, List.idxOf_cons, List.find?_cons]
    by_cases h : e.1 = n
    · subst h; simp
    · have hb : (e.1 == n) = false := by simp [h]
      simp only [hb, cond_false, List.getD_cons_succ, h, decide_false]
      apply ih
      simp only [List.map_cons, List.mem_cons] at hn
      rcases hn with rfl | hn
      · exact absurd rfl h
      · exact hn

/-- re-deriving every entry of a shape with unique names from its name gives the shape back -/
theorem shapeFor_self (shape : Shape ν) (hnd : (shape.map (·.1)).Nodup) :
    shapeFor shape (shape.map (·.1)) = shape := by
  unfold shapeFor
  rw [List.map_map]
  conv => rhs; rw [← List.map_id shape]
  apply List.map_congr_left
  intro d hd
  simp only [Function.comp, find?_name_of_mem shape hnd d hd, Option.map_some, Option.getD_some, id]

theorem mapShapeToRequested_eq_shapeFor [Inhabited ν] (shape : Shape ν) (names : List ν)
    (hsub : ∀ n ∈ names, n ∈ shape.map (·.1)) (s2r : List Nat) :
    DimensionMappings.mapShapeToRequested
      { sourceToRequested := s2r, requestedToSource := names.map ((shape.map (·.1)).idxOf ·) } shape =
      shapeFor shape names := by
  unfold DimensionMappings.mapShapeToRequested shapeFor
  simp only [List.map_map]
  apply List.map_congr_left
  intro n hn
  exact getD_idxOf_name shape n _ (hsub n hn)

/-! ### bounds: by coordinates in source order, and by the index tuple in the requested order -/

theorem inBounds_map_iff (shape : Shape ν) (c : ν → Nat) :
    inBounds (shape.map (·.2)) (shape.map fun d => c d.1) = true ↔ ∀ d ∈ shape, c d.1 < d.2 := by
  induction shape with
  | nil => simp [inBounds]
  | cons e rest ih => simp [inBounds, ih]

theorem inBounds_names_iff (names : List ν) (len : ν → Nat) (idx : List Nat) (hnd : names.Nodup)
    (hlen : idx.length = names.length) :
    inBounds (names.map len) idx = true ↔ ∀ n ∈ names, idx.getD (names.idxOf n) 0 < len n := by
  induction names generalizing idx with
  | nil =>
    cases idx with
    | nil => simp [inBounds]
    | cons _ _ => simp at hlen
  | cons m ms ih =>
    cases idx with
    | nil => simp at hlen
    | cons c cs =>
      simp only [List.length_cons, Nat.add_right_cancel_iff] at hlen
      have hnd' := List.nodup_cons.1 hnd
      simp only [List.map_cons, inBounds, Bool.and_eq_true, decide_eq_true_eq, ih cs hnd'.2 hlen,
        List.mem_cons, forall_eq_or_imp, List.idxOf_cons_self, List.getD_cons_zero]
      apply and_congr Iff.rfl
      apply forall_congr'
      intro n
      apply imp_congr_right
      intro hn
      have hb : (m == n) = false := by
        simp only [beq_eq_false_iff_ne, ne_eq]
        intro e; subst e; exact hnd'.1 hn
      simp [List.idxOf_cons, hb]

/-- The spec's offset is present exactly when the index tuple is inside the shape *reported for
    that ordering* (each coordinate below the length of the dimension named at its position). -/
theorem lookupOffset_isSome_iff (shape : Shape ν) (names : List ν) (idx : List Nat)
    (hnd : (shape.map (·.1)).Nodup) (hp : names.Perm (shape.map (·.1)))
    (hlen : idx.length = names.length) :
    (lookupOffset shape names idx).isSome = inBounds ((shapeFor shape names).map (·.2)) idx := by
  have hnn : names.Nodup := hp.nodup_iff.2 hnd
  rw [Bool.eq_iff_iff]
  unfold lookupOffset coords shapeFor
  simp only [List.map_map]
  have e : ((fun (d : ν × Nat) => d.2) ∘ fun n =>
      (n, ((shape.find? (fun e => decide (e.1 = n))).map (·.2)).getD 0)) =
      fun n => ((shape.find? (fun e => decide (e.1 = n))).map (·.2)).getD 0 := rfl
  rw [e, inBounds_names_iff names _ idx hnn hlen]
  have : (if inBounds (shape.map (·.2)) (shape.map fun d => coordOf names idx d.1) = true then
      some (ravel (shape.map (·.2)) (shape.map fun d => coordOf names idx d.1)) else none).isSome
      = true ↔ ∀ d ∈ shape, coordOf names idx d.1 < d.2 := by
    rw [← inBounds_map_iff]
    split <;> simp_all
  rw [this]
  unfold coordOf
  constructor
  · intro h n hn
    obtain ⟨d, hd, rfl⟩ := List.mem_map.1 (hp.mem_iff.1 hn)
    rw [find?_name_of_mem shape hnd d hd]
    exact h d hd
  · intro h d hd
    have := h d.1 (hp.mem_iff.2 (List.mem_map.2 ⟨d, hd, rfl⟩))
    rw [find?_name_of_mem shape hnd d hd] at this
    exact this

/-- For a fixed ordering, the source-order coordinates determine the index tuple. -/
theorem coords_injective (shape : Shape ν) (names : List ν) (a b : List Nat)
    (hnd : (shape.map (·.1)).Nodup) (hp : names.Perm (shape.map (·.1)))
    (ha : a.length = names.length) (hb : b.length = names.length)
    (h : coords shape names a = coords shape names b) : a = b := by
  have hnn : names.Nodup := hp.nodup_iff.2 hnd
  unfold coords coordOf at h
  rw [List.map_inj_left] at h
  apply List.ext_getElem (by omega)
  intro k hk1 hk2
  have hk : k < names.length := by omega
  obtain ⟨d, hd, hdn⟩ := List.mem_map.1 (hp.mem_iff.1 (List.getElem_mem hk))
  have := h d hd
  rw [hdn, hnn.idxOf_getElem k hk] at this
  simpa [List.getD_eq_getElem?_getD, List.getElem?_eq_getElem hk1, List.getElem?_eq_getElem hk2]
    using this

/-- Distinct index tuples (in any one ordering) never alias the same element. -/
theorem lookupOffset_injective (shape : Shape ν) (names : List ν) (a b : List Nat) (o : Nat)
    (hnd : (shape.map (·.1)).Nodup) (hp : names.Perm (shape.map (·.1)))
    (hla : a.length = names.length) (hlb : b.length = names.length)
    (ha : lookupOffset shape names a = some o) (hb : lookupOffset shape names b = some o) : a = b := by
  unfold lookupOffset at ha hb
  simp only at ha hb
  split at ha
  · split at hb
    · rename_i h1 h2
      simp only [Option.some.injEq] at ha hb
      apply coords_injective shape names a b hnd hp hla hlb
      exact ravel_injective _ _ _ h1 h2 (ha.trans hb.symm)
    · simp at hb
  · simp at ha

theorem lookupOffset_lt (shape : Shape ν) (names : List ν) (idx : List Nat) (o : Nat)
    (h : lookupOffset shape names idx = some o) : o < elements shape := by
  unfold lookupOffset at h
  simp only at h
  split at h
  · rename_i hb
    simp only [Option.some.injEq] at h
    subst h
    exact ravel_lt _ _ hb
  · simp at h

/-! ### valid tensors and accesses -/

theorem validateDimensions_none_iff (shape : Shape ν) (n : Nat) :
    validateDimensions shape n = none ↔
      n = elements shape ∧ (shape.map (·.1)).Nodup ∧ ∀ d ∈ shape, 1 ≤ d.2 := by
  unfold validateDimensions
  have hdup : hasDuplicates (shape.map (·.1)) = false ↔ (shape.map (·.1)).Nodup := by
    have := hasDuplicates_iff (shape.map (·.1))
    cases h : hasDuplicates (shape.map (·.1)) <;> simp_all
  have hany : shape.any (·.2 == 0) = false ↔ ∀ d ∈ shape, 1 ≤ d.2 := by
    rw [List.any_eq_false]
    constructor
    · intro h d hd; have := h d hd; simp only [beq_iff_eq] at this; omega
    · intro h d hd; have := h d hd; simp only [beq_iff_eq]; omega
  rw [← hdup, ← hany]
  by_cases h1 : n = elements shape
  · cases hasDuplicates (shape.map (·.1)) <;> cases shape.any (·.2 == 0) <;> simp [h1]
  · simp [h1]

theorem tryFrom_eq_some_iff (shape : Shape ν) (data : List α) (t : Tensor ν α) :
    Tensor.tryFrom shape data = some t ↔
      (data.length = elements shape ∧ (shape.map (·.1)).Nodup ∧ ∀ d ∈ shape, 1 ≤ d.2) ∧
      t = { data := data, shape := shape, strides := computeStrides shape } := by
  unfold Tensor.tryFrom
  rw [← validateDimensions_none_iff]
  split
  · rename_i e h; simp [h]
  · rename_i h; simp [h, eq_comm]

/-- what `index_by` gives on a valid tensor when it succeeds -/
theorem indexBy_eq_some (shape : Shape ν) (data : List α) (t : Tensor ν α) (names : List ν)
    (a : Access ν α) (ht : Tensor.tryFrom shape data = some t) (ha : t.indexBy names = some a) :
    names.Perm (shape.map (·.1)) ∧
    a = { source := t,
          mapping := { sourceToRequested := (shape.map (·.1)).map (names.idxOf ·),
                       requestedToSource := names.map ((shape.map (·.1)).idxOf ·) } } := by
  obtain ⟨⟨_, hnd, _⟩, rfl⟩ := (tryFrom_eq_some_iff shape data t).1 ht
  unfold Tensor.indexBy at ha
  simp only at ha
  split at ha
  · rename_i m hm
    have hp := perm_of_new shape names m hnd hm
    rw [new_of_perm shape names hnd hp] at hm
    simp only [Option.some.injEq] at hm ha
    subst hm
    exact ⟨hp, ha.symm⟩
  · simp at ha

theorem mapDimensionsToSource_eq_coords (shape : Shape ν) (names : List ν) (idx r2s : List Nat) :
    DimensionMappings.mapDimensionsToSource
      { sourceToRequested := (shape.map (·.1)).map (names.idxOf ·), requestedToSource := r2s } idx =
      coords shape names idx := by
  simp [DimensionMappings.mapDimensionsToSource, coords, coordOf, List.map_map, Function.comp_def]

theorem coords_length (shape : Shape ν) (names : List ν) (idx : List Nat) :
    (coords shape names idx).length = shape.length := by simp [coords]

/-- the checked offset of a valid tensor (lemma form of `C01.offset_eq_rowMajor`) -/
theorem offset_of_tryFrom (shape : Shape ν) (data : List α) (t : Tensor ν α)
    (ht : Tensor.tryFrom shape data = some t) (idx : List Nat) (hlen : idx.length = shape.length) :
    t.offset idx =
      if inBounds (shape.map (·.2)) idx then some (ravel (shape.map (·.2)) idx) else none := by
  obtain ⟨_, rfl⟩ := (tryFrom_eq_some_iff shape data t).1 ht
  simp only [Tensor.offset, getIndexDirect]
  rw [getIndexDirectGo_eq shape idx 0 hlen]
  simp

/-- bounds of the source-order coordinates = bounds of the tuple against the reported shape -/
theorem inBounds_coords (shape : Shape ν) (names : List ν) (idx : List Nat)
    (hnd : (shape.map (·.1)).Nodup) (hp : names.Perm (shape.map (·.1)))
    (hlen : idx.length = names.length) :
    inBounds (shape.map (·.2)) (coords shape names idx) =
      inBounds ((shapeFor shape names).map (·.2)) idx := by
  rw [← lookupOffset_isSome_iff shape names idx hnd hp hlen]
  unfold lookupOffset
  simp only
  split <;> simp_all

end EasyMl
