/-
  EasyMl.Lemmas.PartViews — compositions of views never merge cells: every view designates
  pairwise different cells of its source (so a write through a view changes one cell of it), all
  of them cells of the source at the bottom; for a `MatrixPart` at the bottom these are cells of
  that part only (C12: views over different parts of a partition never alias).
-/
import EasyMl.Lemmas.MatrixViewSpec

namespace EasyMl.MatrixView
open EasyMl.Spec EasyMl.Fallible

set_option linter.unusedSectionVars false
set_option linter.unusedVariables false

theorem MExpr.leavesOk_base (e : MExpr) (h : e.LeavesOk) : e.base.LeavesOk := by
  induction e with
  | leaf _ _ => exact h
  | leafCM _ _ => exact h
  | part _ _ _ _ _ _ => exact h
  | range e _ _ ih => exact ih h
  | reverse e _ _ ih => exact ih h
  | map e ih => exact ih h
  | viaTensor e ih => exact ih h
  | swapped e ih => exact ih h

/-- every cell of a composition is a cell of the source at its bottom -/
theorem MExpr.cell_in_base (e : MExpr) (i j o : Nat) (h : e.cell i j = some o) :
    ∃ i' j', e.base.cell i' j' = some o := by
  induction e generalizing i j with
  | leaf _ _ => exact ⟨i, j, h⟩
  | leafCM _ _ => exact ⟨i, j, h⟩
  | part _ _ _ _ _ _ => exact ⟨i, j, h⟩
  | range e rows columns ih =>
    simp only [MExpr.cell] at h
    by_cases hin : i < (MExpr.range e rows columns).size.1 ∧ j < (MExpr.range e rows columns).size.2
    · rw [if_pos hin] at h; exact ih _ _ h
    · rw [if_neg hin] at h; simp at h
  | reverse e fr fc ih =>
    simp only [MExpr.cell] at h
    by_cases hin : i < e.size.1 ∧ j < e.size.2
    · rw [if_pos hin] at h; exact ih _ _ h
    · rw [if_neg hin] at h; simp at h
  | map e ih => exact ih i j h
  | viaTensor e ih => exact ih i j h
  | swapped e ih => exact ih j i h

/-- `a·n + b` with `b < n` determines `a` and `b` -/
theorem grid_index_inj (n a b a' b' : Nat) (hb : b < n) (hb' : b' < n)
    (h : a * n + b = a' * n + b') : a = a' ∧ b = b' := by
  have := block_injective n 0 0 n a b a' b' (by omega) hb hb' (by simpa using h)
  exact this

/-- the rectangle of an accepted part lies inside the matrix -/
theorem partRect_bounds (rows columns : Nat) (rp cp : List Nat) (kr kc : Nat)
    (hle : (MExpr.part rows columns rp cp kr kc).LeavesOk) :
    (partRect rows columns rp cp kr kc).1.1 + (partRect rows columns rp cp kr kc).1.2 ≤ rows ∧
    (partRect rows columns rp cp kr kc).2.1 + (partRect rows columns rp cp kr kc).2.2 ≤ columns := by
  obtain ⟨_, ⟨ha1, ha2, _, ha4, ha5⟩, hkr, hkc⟩ := hle
  have hlr : kr < (diffs (rp ++ [rows]) 0).length := by rw [diffs_length]; simp; omega
  have hlc : kc < (diffs (cp ++ [columns]) 0).length := by rw [diffs_length]; simp; omega
  have hrd : (partRect rows columns rp cp kr kc).1 = (diffs (rp ++ [rows]) 0)[kr] := by
    simp only [partRect, List.getD_eq_getElem?_getD, List.getElem?_eq_getElem hlr, Option.getD_some]
  have hcd : (partRect rows columns rp cp kr kc).2 = (diffs (cp ++ [columns]) 0)[kc] := by
    simp only [partRect, List.getD_eq_getElem?_getD, List.getElem?_eq_getElem hlc, Option.getD_some]
  have hrs : sortedLe (0 :: (rp ++ [rows])) = true := by
    rw [sortedLe_zero_cons, sortedLe_append_singleton _ _ (axisChecked_le ha1)]; exact ha4
  have hcs : sortedLe (0 :: (cp ++ [columns])) = true := by
    rw [sortedLe_zero_cons, sortedLe_append_singleton _ _ (axisChecked_le ha2)]; exact ha5
  have hrb := diffs_mem_bound _ 0 rows hrs (by
    intro b hb; simp only [List.mem_append, List.mem_singleton] at hb
    rcases hb with hb | rfl
    · exact axisChecked_le ha1 b hb
    · exact Nat.le_refl _) _ (List.getElem_mem hlr)
  have hcb := diffs_mem_bound _ 0 columns hcs (by
    intro b hb; simp only [List.mem_append, List.mem_singleton] at hb
    rcases hb with hb | rfl
    · exact axisChecked_le ha2 b hb
    · exact Nat.le_refl _) _ (List.getElem_mem hlc)
  rw [hrd, hcd]
  exact ⟨hrb.2, hcb.2⟩

/-- **No view merges cells**: two indexes of a composition that designate the same cell are the
    same index. -/
theorem MExpr.cell_injective (e : MExpr) (hle : e.LeavesOk) (i j i' j' o : Nat)
    (h : e.cell i j = some o) (h' : e.cell i' j' = some o) : i = i' ∧ j = j' := by
  induction e generalizing i j i' j' o with
  | leaf rows columns =>
    simp only [MExpr.cell] at h h'
    by_cases hin : i < rows ∧ j < columns
    · by_cases hin' : i' < rows ∧ j' < columns
      · rw [if_pos hin] at h; rw [if_pos hin'] at h'
        simp only [Option.some.injEq] at h h'
        exact grid_index_inj columns i j i' j' hin.2 hin'.2 (by omega)
      · rw [if_neg hin'] at h'; simp at h'
    · rw [if_neg hin] at h; simp at h
  | leafCM rows columns =>
    simp only [MExpr.cell] at h h'
    by_cases hin : i < rows ∧ j < columns
    · by_cases hin' : i' < rows ∧ j' < columns
      · rw [if_pos hin] at h; rw [if_pos hin'] at h'
        simp only [Option.some.injEq] at h h'
        have := grid_index_inj rows j i j' i' hin.1 hin'.1 (by omega)
        exact ⟨this.2, this.1⟩
      · rw [if_neg hin'] at h'; simp at h'
    · rw [if_neg hin] at h; simp at h
  | part rows columns rp cp kr kc =>
    obtain ⟨_, hcb⟩ := partRect_bounds rows columns rp cp kr kc hle
    simp only [MExpr.cell] at h h'
    by_cases hin : i < (MExpr.part rows columns rp cp kr kc).size.1 ∧
        j < (MExpr.part rows columns rp cp kr kc).size.2
    · by_cases hin' : i' < (MExpr.part rows columns rp cp kr kc).size.1 ∧
          j' < (MExpr.part rows columns rp cp kr kc).size.2
      · rw [if_pos hin] at h; rw [if_pos hin'] at h'
        simp only [Option.some.injEq] at h h'
        have hsz := normSize_le (partRect rows columns rp cp kr kc).1.2 (partRect rows columns rp cp kr kc).2.2
        simp only [MExpr.size] at hin hin'
        have hj : j < (partRect rows columns rp cp kr kc).2.2 := Nat.lt_of_lt_of_le hin.2 hsz.2
        have hj' : j' < (partRect rows columns rp cp kr kc).2.2 := Nat.lt_of_lt_of_le hin'.2 hsz.2
        exact block_injective columns _ _ _ i j i' j' hcb hj hj' (by rw [h, h'])
      · rw [if_neg hin'] at h'; simp at h'
    · rw [if_neg hin] at h; simp at h
  | range e rows columns ih =>
    simp only [MExpr.cell] at h h'
    by_cases hin : i < (MExpr.range e rows columns).size.1 ∧ j < (MExpr.range e rows columns).size.2
    · by_cases hin' : i' < (MExpr.range e rows columns).size.1 ∧ j' < (MExpr.range e rows columns).size.2
      · rw [if_pos hin] at h; rw [if_pos hin'] at h'
        have := ih hle _ _ _ _ o h h'
        omega
      · rw [if_neg hin'] at h'; simp at h'
    · rw [if_neg hin] at h; simp at h
  | reverse e fr fc ih =>
    simp only [MExpr.cell] at h h'
    by_cases hin : i < e.size.1 ∧ j < e.size.2
    · by_cases hin' : i' < e.size.1 ∧ j' < e.size.2
      · rw [if_pos hin] at h; rw [if_pos hin'] at h'
        have := ih hle _ _ _ _ o h h'
        cases fr <;> cases fc <;> simp at this <;> omega
      · rw [if_neg hin'] at h'; simp at h'
    · rw [if_neg hin] at h; simp at h
  | map e ih => exact ih hle i j i' j' o h h'
  | viaTensor e ih => exact ih hle i j i' j' o h h'
  | swapped e ih =>
    have := ih hle j i j' i' o h h'
    exact ⟨this.2, this.1⟩

/-- the model's part at grid position `(kr, kc)`: `partition` succeeds, the position exists and
    the part's checked getter answers the specified cell -/
theorem part_getter (rows columns : Nat) (rp cp : List Nat) (kr kc : Nat)
    (hle : (MExpr.part rows columns rp cp kr kc).LeavesOk) :
    ∃ parts, partition ⟨rows * columns, rows, columns⟩ rp cp = .ok parts ∧
      ∃ hk : kr * (cp.length + 1) + kc < parts.length,
        ∀ i j, parts[kr * (cp.length + 1) + kc].get i j =
          .ok ((MExpr.part rows columns rp cp kr kc).cell i j) := by
  obtain ⟨v, hev, _, _, hget, _⟩ := part_refines rows columns rp cp kr kc hle
  simp only [MExpr.eval] at hev
  cases hp : partition ⟨rows * columns, rows, columns⟩ rp cp with
  | panic k => rw [hp] at hev; simp at hev
  | ok parts =>
    rw [hp] at hev
    simp only at hev
    refine ⟨parts, rfl, ?_⟩
    by_cases hk : kr * (cp.length + 1) + kc < parts.length
    · refine ⟨hk, ?_⟩
      rw [idxC_ok hk] at hev
      simp only [Outcome.ok.injEq, Except.ok.injEq] at hev
      subst hev
      exact hget
    · have : parts[kr * (cp.length + 1) + kc]? = none := by
        rw [List.getElem?_eq_none]; omega
      simp [idxC, this] at hev

/-- every part `Matrix::partition` hands out has rectangular row slices and a size within the
    matrix's -/
theorem partition_parts_rect (m : MatrixMeta) (hm : m.Inv) (rp cp : List Nat)
    (parts : List MatrixPart) (h : partition m rp cp = .ok parts) :
    ∀ p ∈ parts, p.Rect ∧ p.rows ≤ m.rows ∧ p.columns ≤ m.columns := by
  obtain ⟨hparts, hok1, hok2, hok4, hok5⟩ := partition_ok_grid m hm rp cp parts h
  subst hparts
  intro p hp
  obtain ⟨r, hr, c, hc, rfl⟩ := gridSpec_mem m rp cp p hp
  have hrs : sortedLe (0 :: (rp ++ [m.rows])) = true := by
    rw [sortedLe_zero_cons, sortedLe_append_singleton _ _ (axisChecked_le hok1)]; exact hok4
  have hcs : sortedLe (0 :: (cp ++ [m.columns])) = true := by
    rw [sortedLe_zero_cons, sortedLe_append_singleton _ _ (axisChecked_le hok2)]; exact hok5
  have hrb := diffs_mem_bound _ 0 m.rows hrs (by
    intro b hb; simp only [List.mem_append, List.mem_singleton] at hb
    rcases hb with hb | rfl
    · exact axisChecked_le hok1 b hb
    · exact Nat.le_refl _) r hr
  have hcb := diffs_mem_bound _ 0 m.columns hcs (by
    intro b hb; simp only [List.mem_append, List.mem_singleton] at hb
    rcases hb with hb | rfl
    · exact axisChecked_le hok2 b hb
    · exact Nat.le_refl _) c hc
  have hsz := ofSlices_size m.columns r.1 r.2 c.1 c.2
  simp only [Prod.ext_iff] at hsz
  have hn := normSize_le r.2 c.2
  refine ⟨ofSlices_rect _ _ _ _ _, ?_, ?_⟩
  · rw [hsz.1]; omega
  · rw [hsz.2]; omega

/-- every designated cell lies inside the data of the source -/
theorem MExpr.cell_lt (e : MExpr) (hle : e.LeavesOk) (i j o : Nat) (h : e.cell i j = some o) :
    o < e.dataLen := by
  induction e generalizing i j with
  | leaf rows columns =>
    simp only [MExpr.cell] at h
    by_cases hin : i < rows ∧ j < columns
    · rw [if_pos hin] at h
      simp only [Option.some.injEq] at h
      subst h
      have h1 : (i + 1) * columns ≤ rows * columns := Nat.mul_le_mul_right _ (by omega)
      rw [Nat.add_mul] at h1
      simp only [MExpr.dataLen]; omega
    · rw [if_neg hin] at h; simp at h
  | leafCM rows columns =>
    simp only [MExpr.cell] at h
    by_cases hin : i < rows ∧ j < columns
    · rw [if_pos hin] at h
      simp only [Option.some.injEq] at h
      subst h
      have h1 : (j + 1) * rows ≤ columns * rows := Nat.mul_le_mul_right _ (by omega)
      rw [Nat.add_mul, Nat.mul_comm columns rows] at h1
      simp only [MExpr.dataLen]; omega
    · rw [if_neg hin] at h; simp at h
  | part rows columns rp cp kr kc =>
    obtain ⟨hrb, hcb⟩ := partRect_bounds rows columns rp cp kr kc hle
    simp only [MExpr.cell] at h
    by_cases hin : i < (MExpr.part rows columns rp cp kr kc).size.1 ∧
        j < (MExpr.part rows columns rp cp kr kc).size.2
    · rw [if_pos hin] at h
      simp only [Option.some.injEq] at h
      subst h
      have hsz := normSize_le (partRect rows columns rp cp kr kc).1.2 (partRect rows columns rp cp kr kc).2.2
      simp only [MExpr.size] at hin
      have h1 : ((partRect rows columns rp cp kr kc).1.1 + i + 1) * columns ≤ rows * columns :=
        Nat.mul_le_mul_right _ (by omega)
      rw [Nat.add_mul] at h1
      simp only [MExpr.dataLen]; omega
    · rw [if_neg hin] at h; simp at h
  | range e rows columns ih =>
    simp only [MExpr.cell] at h
    by_cases hin : i < (MExpr.range e rows columns).size.1 ∧ j < (MExpr.range e rows columns).size.2
    · rw [if_pos hin] at h; exact ih hle _ _ h
    · rw [if_neg hin] at h; simp at h
  | reverse e fr fc ih =>
    simp only [MExpr.cell] at h
    by_cases hin : i < e.size.1 ∧ j < e.size.2
    · rw [if_pos hin] at h; exact ih hle _ _ h
    · rw [if_neg hin] at h; simp at h
  | map e ih => exact ih hle i j h
  | viaTensor e ih => exact ih hle i j h
  | swapped e ih => exact ih hle j i h

end EasyMl.MatrixView
