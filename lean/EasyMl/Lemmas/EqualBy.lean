/-
  EasyMl.Lemmas.EqualBy — tensor equality / similarity for an arbitrary (possibly irreflexive)
  element comparison (C13), and transitivity of similarity.
-/
import EasyMl.Lemmas.Equality

namespace EasyMl
open EasyMl.Spec

set_option linter.unusedSectionVars false

variable {ν : Type} [DecidableEq ν] {α : Type}

theorem zip_filterMap_all {ι γ : Type} (rel : γ → γ → Bool) (g₁ g₂ : ι → Option γ) (L : List ι)
    (h : ∀ i ∈ L, (g₁ i).isSome = true ∧ (g₂ i).isSome = true) :
    ((L.filterMap g₁).zip (L.filterMap g₂)).all (fun p => rel p.1 p.2) =
      L.all fun i => cellRel rel (g₁ i) (g₂ i) := by
  induction L with
  | nil => rfl
  | cons i is ih =>
    obtain ⟨h1, h2⟩ := h i (by simp)
    obtain ⟨x, hx⟩ := Option.isSome_iff_exists.1 h1
    obtain ⟨y, hy⟩ := Option.isSome_iff_exists.1 h2
    simp only [List.filterMap_cons, hx, hy, List.zip_cons_cons, List.all_cons]
    rw [ih fun j hj => h j (by simp [hj])]
    rfl

/-- `tensor_equality` with element comparison `rel`, on valid sources: same shape and the
    elements at every index tuple related by `rel`. -/
theorem tensorEqualityBy_iff (rel : α → α → Bool) (l r : TView ν α) (hl : l.lazy.Valid)
    (hr : r.lazy.Valid) : tensorEqualityBy rel l r = true ↔ EqualBy rel l.lazy r.lazy := by
  unfold tensorEqualityBy EqualBy
  rw [Bool.and_eq_true, decide_eq_true_eq]
  simp only [TView.lazy_shape, TView.lazy_get]
  constructor
  · rintro ⟨hs, ha⟩
    refine ⟨hs, fun idx hb => ?_⟩
    simp only [TView.iter, shapeIndexes_eq_allIndexes, ← hs] at ha
    rw [zip_filterMap_all] at ha
    · exact List.all_eq_true.1 ha idx ((mem_allIndexes_iff _ idx).2 hb)
    · intro i hi
      exact ⟨hl.isSome_of_mem i hi, hr.isSome_of_mem i (by simpa [← hs] using hi)⟩
  · rintro ⟨hs, hc⟩
    refine ⟨hs, ?_⟩
    simp only [TView.iter, shapeIndexes_eq_allIndexes, ← hs]
    rw [zip_filterMap_all]
    · exact List.all_eq_true.2 fun idx hi => hc idx ((mem_allIndexes_iff _ idx).1 hi)
    · intro i hi
      exact ⟨hl.isSome_of_mem i hi, hr.isSome_of_mem i (by simpa [← hs] using hi)⟩

theorem equalBy_congr_right (rel : α → α → Bool) {l r r' : LazyView ν α} (h : r.Equiv r')
    (hs : l.shape = r.shape) : EqualBy rel l r ↔ EqualBy rel l r' := by
  obtain ⟨hs', hg⟩ := h
  unfold EqualBy
  constructor
  · rintro ⟨_, hc⟩
    refine ⟨hs.trans hs', fun idx hb => ?_⟩
    rw [← hg idx (by rw [← hs]; simpa using inBounds_length _ _ hb)]
    exact hc idx hb
  · rintro ⟨_, hc⟩
    refine ⟨hs, fun idx hb => ?_⟩
    rw [hg idx (by rw [← hs]; simpa using inBounds_length _ _ hb)]
    exact hc idx hb

theorem equalBy_congr_left (rel : α → α → Bool) {l l' r : LazyView ν α} (h : l.Equiv l') :
    EqualBy rel l r ↔ EqualBy rel l' r := by
  obtain ⟨hs', hg⟩ := h
  unfold EqualBy
  constructor
  · rintro ⟨hs, hc⟩
    refine ⟨hs'.symm.trans hs, fun idx hb => ?_⟩
    rw [← hs'] at hb
    rw [← hg idx (by simpa using inBounds_length _ _ hb)]
    exact hc idx hb
  · rintro ⟨hs, hc⟩
    refine ⟨hs'.trans hs, fun idx hb => ?_⟩
    rw [hg idx (by simpa using inBounds_length _ _ hb)]
    exact hc idx (hs' ▸ hb)

/-- `tensor_similarity` with element comparison `rel`, on valid sources. -/
theorem tensorSimilarityBy_iff [Inhabited ν] (rel : α → α → Bool) (l r : TView ν α)
    (hl : l.lazy.Valid) (hr : r.lazy.Valid) :
    tensorSimilarityBy rel l r = true ↔ SimilarBy rel l.lazy r.lazy := by
  have hle := accessSourceOrder_equiv l
  have hlv : l.accessSourceOrder.lazy.Valid := hl.of_equiv hle
  have hsl : l.accessSourceOrder.shape = l.shape := hle.1
  unfold tensorSimilarityBy SimilarBy
  simp only [TView.lazy_shape]
  by_cases hp : IsOrdering r.shape (l.shape.map (·.1))
  · obtain ⟨a, ha, hal⟩ := r.access_of_ordering _ hr.shape.1 hp
    have hav : a.lazy.Valid := hal ▸ reordered_valid hr _ hp
    simp only [ha]
    by_cases hs : l.shape = a.shape
    · rw [if_neg (by simp [hs])]
      have h1 := tensorEqualityBy_iff rel l.accessSourceOrder a hlv hav
      unfold tensorEqualityBy at h1
      simp only [hsl, hs, decide_true, Bool.true_and] at h1
      rw [h1, equalBy_congr_left rel hle, hal]
      constructor
      · intro h; exact ⟨_, hp, h⟩
      · rintro ⟨names, hp', he⟩
        have : names = l.shape.map (·.1) := by
          have := he.1
          simp only [TView.lazy_shape, reordered] at this
          rw [this, shapeFor_map_fst]
        subst this; exact he
    · rw [if_pos (by simpa using hs)]
      constructor
      · intro h; cases h
      · rintro ⟨names, hp', he⟩
        have hsh := he.1
        simp only [TView.lazy_shape, reordered] at hsh
        have : names = l.shape.map (·.1) := by rw [hsh, shapeFor_map_fst]
        subst this
        have : a.shape = shapeFor r.shape (l.shape.map (·.1)) := congrArg LazyView.shape hal
        exact absurd (hsh.trans this.symm) hs
  · simp only [r.access_none _ hr.shape.1 hp]
    constructor
    · intro h; cases h
    · rintro ⟨names, hp', he⟩
      have hsh := he.1
      simp only [TView.lazy_shape, reordered] at hsh
      have : names = l.shape.map (·.1) := by rw [hsh, shapeFor_map_fst]
      subst this
      exact absurd hp' hp

/-- comparing a stored tensor with itself: every stored element must be related to itself -/
theorem equalBy_self_ofData (rel : α → α → Bool) (shape : Shape ν) (data : List α) (t : Tensor ν α)
    (ht : Tensor.tryFrom shape data = some t) :
    EqualBy rel (ofData shape data) (ofData shape data) ↔ ∀ x ∈ data, rel x x = true := by
  have hv := ofData_valid shape data t ht
  have hd := elems_ofData shape data t ht
  unfold EqualBy
  simp only [ofData_shape, true_and]
  constructor
  · intro h x hx
    rw [← hd] at hx
    simp only [materialise, ofData_shape, List.mem_filterMap] at hx
    obtain ⟨idx, hidx, hg⟩ := hx
    have := h idx ((mem_allIndexes_iff _ idx).1 hidx)
    rw [hg] at this
    exact this
  · intro h idx hb
    obtain ⟨x, hx⟩ := Option.isSome_iff_exists.1
      (hv.isSome_of_mem idx ((mem_allIndexes_iff _ idx).2 hb))
    rw [hx]
    apply h
    rw [← hd]
    simp only [materialise, ofData_shape, List.mem_filterMap]
    exact ⟨idx, (mem_allIndexes_iff _ idx).2 hb, hx⟩

/-! ### composing reorderings; transitivity of similarity -/

/-- reordering to `names₁` and then to `names₂` addresses what reordering to `names₂` does -/
theorem coords_coords (shape : Shape ν) (names₁ names₂ : List ν) (idx : List Nat)
    (hp : names₁.Perm (shape.map (·.1))) :
    coords shape names₁ (coords (shapeFor shape names₁) names₂ idx) = coords shape names₂ idx := by
  have hc : coords (shapeFor shape names₁) names₂ idx =
      names₁.map fun n => idx.getD (names₂.idxOf n) 0 := by
    simp [coords, coordOf, shapeFor, List.map_map, Function.comp_def]
  rw [hc]
  unfold coords coordOf
  apply List.map_congr_left
  intro d hd
  have hmem : d.1 ∈ names₁ := hp.mem_iff.2 (List.mem_map.2 ⟨d, hd, rfl⟩)
  have hk : names₁.idxOf d.1 < names₁.length := List.idxOf_lt_length_iff.2 hmem
  rw [List.getD_eq_getElem?_getD, List.getElem?_map, List.getElem?_eq_getElem hk]
  simp only [Option.map_some, Option.getD_some]
  rw [List.getElem_idxOf hk]

theorem reordered_reordered {v : LazyView ν α} (names₁ names₂ : List ν)
    (hp₁ : IsOrdering v.shape names₁) (hp₂ : names₂.Perm names₁) :
    (reordered (reordered v names₁) names₂).Equiv (reordered v names₂) := by
  refine ⟨?_, fun idx _ => ?_⟩
  · simp only [reordered]
    exact shapeFor_shapeFor _ _ _ fun n hn => hp₂.mem_iff.1 hn
  · simp only [reordered]
    rw [coords_coords v.shape names₁ names₂ idx hp₁]

theorem similar_trans' [DecidableEq α] {a b c : LazyView ν α} (hb : b.Valid) (hc : c.Valid)
    (hab : Similar a b) (hbc : Similar b c) : Similar a c := by
  obtain ⟨hp₁, hm₁⟩ := (similar_iff_left_names a b).1 hab
  obtain ⟨hp₂, hm₂⟩ := (similar_iff_left_names b c).1 hbc
  -- b has the value of c reordered to b's names; a has the value of b reordered to a's names
  have hcv := reordered_valid hc _ hp₂
  have he : (reordered c (b.shape.map (·.1))).Equiv b := equiv_of_materialise_eq hcv hb hm₂
  have hpa : (a.shape.map (·.1)).Perm (b.shape.map (·.1)) := hp₁
  refine ⟨a.shape.map (fun d => d.1), ?_, ?_⟩
  · exact hpa.trans hp₂
  · rw [← hm₁, ← materialise_congr (reordered_congr he (a.shape.map (·.1)))]
    exact (materialise_congr (reordered_reordered _ _ hp₂ hpa)).symm

end EasyMl
