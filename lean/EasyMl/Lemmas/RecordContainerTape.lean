/-
  EasyMl.Lemmas.RecordContainerTape — the container operations keep every tape well formed
  (`Tape.WF` of Lemmas/Tape.lean: each entry's parents are earlier entries, or the entry itself
  with weight zero) and keep every container's positions on its tape; hence (with `sweep_correct`)
  `derivatives()` of a container never panics and returns one vector per element, each with
  exactly one entry per tape entry.

  Names live in `EasyMl.RC`.
-/
import EasyMl.Lemmas.RecordContainer
import EasyMl.Lemmas.Tape

namespace EasyMl.RC
open EasyMl EasyMl.Fn

set_option linter.unusedSectionVars false
set_option linter.unusedSimpArgs false

section TapeWF
variable {R : Type} [CommRing R]

/-- every tape of the world is well formed -/
def WorldWF (w : World R) : Prop := ∀ h, Tape.WF (w h)

/-- the positions a variable container stores exist on its tape -/
def OnTape (w : World R) (c : Cont R) : Prop :=
  ∀ h, c.history = some h → ∀ e ∈ c.elems, e.2 < (w h).length

/-- tapes only grow: every tape of `w` is a prefix of the same tape of `w'` -/
def Grows (w w' : World R) : Prop := ∀ h, ∃ ext, w' h = w h ++ ext

theorem Grows.refl (w : World R) : Grows w w := fun _ => ⟨[], by simp⟩

theorem Grows.trans {w1 w2 w3 : World R} (a : Grows w1 w2) (b : Grows w2 w3) : Grows w1 w3 := by
  intro h
  obtain ⟨e1, h1⟩ := a h
  obtain ⟨e2, h2⟩ := b h
  exact ⟨e1 ++ e2, by rw [h2, h1, List.append_assoc]⟩

theorem Grows.length_le {w w' : World R} (g : Grows w w') (h : Nat) : (w h).length ≤ (w' h).length := by
  obtain ⟨ext, he⟩ := g h
  rw [he]; simp

/-- a container that was on its tape stays on it when the tapes grow -/
theorem OnTape.mono {w w' : World R} {c : Cont R} (hc : OnTape w c) (g : Grows w w') : OnTape w' c :=
  fun h hh e he => Nat.lt_of_lt_of_le (hc h hh e he) (g.length_le h)

theorem grows_update (w : World R) (h : Nat) (ext : Tape R) : Grows w (w.update h (w h ++ ext)) := by
  intro j
  by_cases hj : j = h
  · subst hj; exact ⟨ext, by simp⟩
  · exact ⟨[], by simp [update_other w h j _ hj]⟩

theorem worldWF_update {w : World R} (hw : WorldWF w) (h : Nat) (t : Tape R) (ht : Tape.WF t) :
    WorldWF (w.update h t) := by
  intro j
  by_cases hj : j = h
  · subst hj; simpa using ht
  · simpa [update_other w h j _ hj] using hw j

/-! ### the batch appenders -/

theorem batchUnary_wf (fx dfx : R → R) (es : List (R × Nat)) (t : Tape R) (ht : Tape.WF t)
    (hp : ∀ e ∈ es, e.2 < t.length) :
    Tape.WF (Tape.batchUnary fx dfx es t).2 ∧ ∃ ext, (Tape.batchUnary fx dfx es t).2 = t ++ ext := by
  induction es generalizing t with
  | nil => exact ⟨ht, [], by simp [Tape.batchUnary]⟩
  | cons e es ih =>
    obtain ⟨x, p⟩ := e
    have hp0 : p < t.length := hp (x, p) (by simp)
    have ht1 : Tape.WF (t ++ [(⟨p, t.length, dfx x, 0⟩ : Op R)]) :=
      Tape.WF_snoc t _ ht (Or.inl hp0) (Or.inr ⟨rfl, rfl⟩)
    have hp1 : ∀ e ∈ es, e.2 < (t ++ [(⟨p, t.length, dfx x, 0⟩ : Op R)]).length := by
      intro e he
      have := hp e (by simp [he])
      simp; omega
    obtain ⟨hwf, ext, hext⟩ := ih _ ht1 hp1
    simp only [Tape.batchUnary, Tape.appendUnary]
    exact ⟨hwf, (⟨p, t.length, dfx x, 0⟩ : Op R) :: ext, by rw [hext]; simp⟩

theorem batchX_wf (f dfx : R → R → R) (ps : List ((R × Nat) × (R × Nat))) (t : Tape R)
    (ht : Tape.WF t) (hp : ∀ p ∈ ps, p.1.2 < t.length) :
    Tape.WF (Tape.batchX f dfx ps t).2 ∧ ∃ ext, (Tape.batchX f dfx ps t).2 = t ++ ext := by
  induction ps generalizing t with
  | nil => exact ⟨ht, [], by simp [Tape.batchX]⟩
  | cons e es ih =>
    obtain ⟨⟨x, p⟩, ⟨y, q⟩⟩ := e
    have hp0 : p < t.length := hp ((x, p), (y, q)) (by simp)
    have ht1 : Tape.WF (t ++ [(⟨p, t.length, dfx x y, 0⟩ : Op R)]) :=
      Tape.WF_snoc t _ ht (Or.inl hp0) (Or.inr ⟨rfl, rfl⟩)
    have hp1 : ∀ e ∈ es, e.1.2 < (t ++ [(⟨p, t.length, dfx x y, 0⟩ : Op R)]).length := by
      intro e he
      have := hp e (by simp [he])
      simp; omega
    obtain ⟨hwf, ext, hext⟩ := ih _ ht1 hp1
    simp only [Tape.batchX, Tape.appendUnary]
    exact ⟨hwf, (⟨p, t.length, dfx x y, 0⟩ : Op R) :: ext, by rw [hext]; simp⟩

theorem batchY_wf (f dfy : R → R → R) (ps : List ((R × Nat) × (R × Nat))) (t : Tape R)
    (ht : Tape.WF t) (hp : ∀ p ∈ ps, p.2.2 < t.length) :
    Tape.WF (Tape.batchY f dfy ps t).2 ∧ ∃ ext, (Tape.batchY f dfy ps t).2 = t ++ ext := by
  induction ps generalizing t with
  | nil => exact ⟨ht, [], by simp [Tape.batchY]⟩
  | cons e es ih =>
    obtain ⟨⟨x, p⟩, ⟨y, q⟩⟩ := e
    have hp0 : q < t.length := hp ((x, p), (y, q)) (by simp)
    have ht1 : Tape.WF (t ++ [(⟨q, t.length, dfy x y, 0⟩ : Op R)]) :=
      Tape.WF_snoc t _ ht (Or.inl hp0) (Or.inr ⟨rfl, rfl⟩)
    have hp1 : ∀ e ∈ es, e.2.2 < (t ++ [(⟨q, t.length, dfy x y, 0⟩ : Op R)]).length := by
      intro e he
      have := hp e (by simp [he])
      simp; omega
    obtain ⟨hwf, ext, hext⟩ := ih _ ht1 hp1
    simp only [Tape.batchY, Tape.appendUnary]
    exact ⟨hwf, (⟨q, t.length, dfy x y, 0⟩ : Op R) :: ext, by rw [hext]; simp⟩

theorem batchBoth_wf (f dfx dfy : R → R → R) (ps : List ((R × Nat) × (R × Nat))) (t : Tape R)
    (ht : Tape.WF t) (hp : ∀ p ∈ ps, p.1.2 < t.length ∧ p.2.2 < t.length) :
    Tape.WF (Tape.batchBoth f dfx dfy ps t).2 ∧ ∃ ext, (Tape.batchBoth f dfx dfy ps t).2 = t ++ ext := by
  induction ps generalizing t with
  | nil => exact ⟨ht, [], by simp [Tape.batchBoth]⟩
  | cons e es ih =>
    obtain ⟨⟨x, p⟩, ⟨y, q⟩⟩ := e
    have hp0 := hp ((x, p), (y, q)) (by simp)
    have ht1 : Tape.WF (t ++ [(⟨p, q, dfx x y, dfy x y⟩ : Op R)]) :=
      Tape.WF_snoc t _ ht (Or.inl hp0.1) (Or.inl hp0.2)
    have hp1 : ∀ e ∈ es, e.1.2 < (t ++ [(⟨p, q, dfx x y, dfy x y⟩ : Op R)]).length
        ∧ e.2.2 < (t ++ [(⟨p, q, dfx x y, dfy x y⟩ : Op R)]).length := by
      intro e he
      have := hp e (by simp [he])
      simp; omega
    obtain ⟨hwf, ext, hext⟩ := ih _ ht1 hp1
    simp only [Tape.batchBoth, Tape.appendBinary]
    exact ⟨hwf, (⟨p, q, dfx x y, dfy x y⟩ : Op R) :: ext, by rw [hext]; simp⟩

/-- positions `start, start+1, …` of `n` fresh entries are on a tape of length `start + n` -/
theorem onTape_of_indexes (w' : World R) (c' : Cont R) (h : Nat) (start : Nat)
    (hh : c'.history = some h) (hidx : c'.indexes = incrementingIndexes start c'.elems.length)
    (hlen : (w' h).length = start + c'.elems.length) : OnTape w' c' := by
  intro h' hh' e he
  rw [hh] at hh'
  cases hh'
  have hmem : e.2 ∈ c'.indexes := List.mem_map.mpr ⟨e, he, rfl⟩
  rw [hidx] at hmem
  simp only [incrementingIndexes, List.mem_map, List.mem_range] at hmem
  obtain ⟨i, hi, hie⟩ := hmem
  omega

theorem onTape_of_nextUnused (w w' : World R) (c' : Cont R) (hn : NextUnused w c' w') : OnTape w' c' := by
  intro h hh
  unfold NextUnused at hn
  rw [hh] at hn
  exact onTape_of_indexes w' c' h (w h).length hh hn.1 hn.2.1 h hh

/-! ### whole operations -/

/-- what an operation owes its surroundings: the tapes stay well formed and only grow, the result
    sits on its tape -/
def Keeps (w : World R) (c' : Cont R) (w' : World R) : Prop :=
  WorldWF w' ∧ Grows w w' ∧ OnTape w' c'

theorem unary_keeps (c : Cont R) (fx dfx : R → R) (w : World R) (hw : WorldWF w) (hc : OnTape w c) :
    Keeps w (c.unary fx dfx w).1 (c.unary fx dfx w).2 := by
  have hn := unary_nextUnused c fx dfx w
  refine ⟨?_, ?_, onTape_of_nextUnused w _ _ hn⟩
  all_goals
    unfold Cont.unary
    cases hh : c.history with
    | none => first | exact hw | exact Grows.refl w
    | some h =>
      obtain ⟨hwf, ext, hext⟩ := batchUnary_wf fx dfx c.elems (w h) (hw h) (hc h hh)
      first
        | exact worldWF_update hw h _ hwf
        | (simp only [hext]; exact grows_update w h ext)

theorem binary_keeps (a b : Cont R) (f dfx dfy : R → R → R) (w : World R) (hw : WorldWF w)
    (ha : OnTape w a) (hb : OnTape w b) (haw : a.WF) (hbw : b.WF) (c' : Cont R) (w' : World R)
    (hok : a.binary b f dfx dfy w = .ok (c', w')) : Keeps w c' w' := by
  have sp := binary_ok_spec a b f dfx dfy w haw hbw c' w' hok
  refine ⟨?_, ?_, onTape_of_nextUnused w _ _ sp.2.1⟩
  all_goals
    unfold Cont.binary at hok
    split at hok
    · cases hok
    · cases hha : a.history <;> cases hhb : b.history <;> simp only [hha, hhb] at hok
      · injection hok with hok; injection hok with _ h2; subst h2
        first | exact hw | exact Grows.refl w
      · rename_i h
        injection hok with hok; injection hok with _ h2; subst h2
        obtain ⟨hwf, ext, hext⟩ := batchY_wf f dfy (a.elems.zip b.elems) (w h) (hw h)
          (fun p hp => hb h hhb p.2 (List.of_mem_zip hp).2)
        first
          | exact worldWF_update hw h _ hwf
          | (simp only [hext]; exact grows_update w h ext)
      · rename_i h
        injection hok with hok; injection hok with _ h2; subst h2
        obtain ⟨hwf, ext, hext⟩ := batchX_wf f dfx (a.elems.zip b.elems) (w h) (hw h)
          (fun p hp => ha h hha p.1 (List.of_mem_zip hp).1)
        first
          | exact worldWF_update hw h _ hwf
          | (simp only [hext]; exact grows_update w h ext)
      · rename_i h h'
        by_cases hne : h = h'
        · subst hne
          simp only [ne_eq, not_true_eq_false, if_false] at hok
          injection hok with hok; injection hok with _ h2; subst h2
          obtain ⟨hwf, ext, hext⟩ := batchBoth_wf f dfx dfy (a.elems.zip b.elems) (w h) (hw h)
            (fun p hp => ⟨ha h hha p.1 (List.of_mem_zip hp).1, hb h hhb p.2 (List.of_mem_zip hp).2⟩)
          first
            | exact worldWF_update hw h _ hwf
            | (simp only [hext]; exact grows_update w h ext)
        · simp [hne] at hok

/-- a block of nullary entries keeps the tape well formed -/
theorem nullaries_wf (t : Tape R) (ht : Tape.WF t) (n : Nat) : Tape.WF (t ++ nullaries t.length n) := by
  induction n generalizing t with
  | zero => simpa [nullaries] using ht
  | succ n ih =>
    rw [nullaries_succ]
    have h1 : Tape.WF (t ++ [(⟨t.length, t.length, 0, 0⟩ : Op R)]) :=
      Tape.WF_snoc t _ ht (Or.inr ⟨rfl, rfl⟩) (Or.inr ⟨rfl, rfl⟩)
    have := ih _ h1
    simpa [List.append_assoc] using this

theorem variables_keeps (h : Nat) (shape : Shape String) (vals : List R) (w : World R)
    (hw : WorldWF w) (hlen : vals.length = elements shape) :
    Keeps w (Cont.variables h shape vals w).1 (Cont.variables h shape vals w).2 := by
  simp only [Cont.variables, appendNullaryRepeating_eq]
  refine ⟨worldWF_update hw h _ (nullaries_wf _ (hw h) _), grows_update w h _, ?_⟩
  refine onTape_of_indexes _ _ h (w h).length rfl ?_ ?_
  · simp [Cont.indexes, List.map_snd_zip, incrementingIndexes_length, hlen, List.length_zip]
  · simp [nullaries, List.length_zip, incrementingIndexes_length, hlen]

theorem reset_keeps (c : Cont R) (w : World R) (hw : WorldWF w) (hwf : c.WF) :
    Keeps w (c.reset w).1 (c.reset w).2 := by
  unfold Cont.reset
  cases hh : c.history with
  | none => exact ⟨hw, Grows.refl w, fun h hh' => by simp [hh] at hh'⟩
  | some h =>
    simp only [appendNullaryRepeating_eq, Cont.total]
    refine ⟨worldWF_update hw h _ (nullaries_wf _ (hw h) _), grows_update w h _, ?_⟩
    refine onTape_of_indexes _ _ h (w h).length rfl ?_ ?_
    · simp only [Cont.indexes, List.map_map]
      have hl : c.elems.length = (incrementingIndexes (w h).length (elements c.shape)).length := by
        rw [incrementingIndexes_length, hwf.length_eq]
      rw [show ((fun (e : R × Nat) => e.2) ∘ fun (p : (R × Nat) × Nat) => (p.1.1, p.2)) = (fun p => p.2) from rfl]
      rw [List.map_snd_zip (Nat.le_of_eq hl.symm)]
      simp [List.length_zip, incrementingIndexes_length, hwf.length_eq]
    · simp [nullaries, List.length_zip, incrementingIndexes_length, hwf.length_eq]

/-! ### matrix multiplication -/

theorem mem_rowOf {α : Type} (l : List α) (n i : Nat) (x : α) (h : x ∈ Cont.rowOf l n i) : x ∈ l :=
  List.mem_of_mem_drop (List.mem_of_mem_take h)

theorem mem_colOf {α : Type} (l : List α) (n k j : Nat) (x : α) (h : x ∈ Cont.colOf l n k j) : x ∈ l := by
  simp only [Cont.colOf, List.mem_filterMap] at h
  obtain ⟨i, _, hi⟩ := h
  exact List.mem_of_getElem? hi

/-- one product entry keeps the tape well formed and sits at the old length -/
theorem productEntry_wf (lv rv : Bool) (hor : (lv || rv) = true) (p : (R × Nat) × (R × Nat))
    (t : Tape R) (ht : Tape.WF t) (hl : lv = true → p.1.2 < t.length) (hr : rv = true → p.2.2 < t.length) :
    Tape.WF (Cont.productEntry lv rv p t).2
      ∧ (∃ e, (Cont.productEntry lv rv p t).2 = t ++ [e])
      ∧ (Cont.productEntry lv rv p t).1.2 = t.length := by
  cases lv <;> cases rv
  · simp at hor
  · simp only [Cont.productEntry, Tape.appendUnary]
    exact ⟨Tape.WF_snoc t _ ht (Or.inl (hr rfl)) (Or.inr ⟨rfl, rfl⟩), ⟨_, rfl⟩, trivial⟩
  · simp only [Cont.productEntry, Tape.appendUnary]
    exact ⟨Tape.WF_snoc t _ ht (Or.inl (hl rfl)) (Or.inr ⟨rfl, rfl⟩), ⟨_, rfl⟩, trivial⟩
  · simp only [Cont.productEntry, Tape.appendBinary]
    exact ⟨Tape.WF_snoc t _ ht (Or.inl (hl rfl)) (Or.inl (hr rfl)), ⟨_, rfl⟩, trivial⟩

theorem reduceProducts_wf (lv rv : Bool) (hor : (lv || rv) = true) (acc : R × Nat)
    (ps : List ((R × Nat) × (R × Nat))) (t : Tape R) (ht : Tape.WF t) (hacc : acc.2 < t.length)
    (hl : lv = true → ∀ p ∈ ps, p.1.2 < t.length) (hr : rv = true → ∀ p ∈ ps, p.2.2 < t.length) :
    Tape.WF (Cont.reduceProducts (Cont.productEntry lv rv) acc ps t).2
      ∧ (∃ ext, (Cont.reduceProducts (Cont.productEntry lv rv) acc ps t).2 = t ++ ext)
      ∧ (Cont.reduceProducts (Cont.productEntry lv rv) acc ps t).1.2
          < (Cont.reduceProducts (Cont.productEntry lv rv) acc ps t).2.length := by
  induction ps generalizing acc t with
  | nil => exact ⟨ht, ⟨[], by simp [Cont.reduceProducts]⟩, hacc⟩
  | cons p ps ih =>
    obtain ⟨hw1, ⟨e1, he1⟩, hq⟩ := productEntry_wf lv rv hor p t ht
      (fun h => hl h p (by simp)) (fun h => hr h p (by simp))
    simp only [Cont.reduceProducts, Tape.appendBinary]
    set t1 := (Cont.productEntry lv rv p t).2 with ht1
    set q := (Cont.productEntry lv rv p t).1 with hq1
    have hlen1 : t1.length = t.length + 1 := by rw [he1]; simp
    have hw2 : Tape.WF (t1 ++ [(⟨acc.2, q.2, Addition.dx acc.1 q.1, Addition.dy acc.1 q.1⟩ : Op R)]) :=
      Tape.WF_snoc t1 _ hw1 (Or.inl (by show acc.2 < t1.length; omega)) (Or.inl (by show q.2 < t1.length; omega))
    have hlen2 : (t1 ++ [(⟨acc.2, q.2, Addition.dx acc.1 q.1, Addition.dy acc.1 q.1⟩ : Op R)]).length
        = t.length + 2 := by simp [hlen1]
    obtain ⟨hw3, ⟨ext, hext⟩, hlt⟩ := ih (Addition.function acc.1 q.1, t1.length) _ hw2
      (by simp)
      (fun h p' hp' => by have := hl h p' (by simp [hp']); omega)
      (fun h p' hp' => by have := hr h p' (by simp [hp']); omega)
    refine ⟨hw3, ⟨e1 :: ⟨acc.2, q.2, Addition.dx acc.1 q.1, Addition.dy acc.1 q.1⟩ :: ext, ?_⟩, hlt⟩
    rw [hext, he1]
    simp

theorem scalarProductOnTape_wf (lv rv : Bool) (hor : (lv || rv) = true)
    (ps : List ((R × Nat) × (R × Nat))) (t : Tape R) (ht : Tape.WF t)
    (hl : lv = true → ∀ p ∈ ps, p.1.2 < t.length) (hr : rv = true → ∀ p ∈ ps, p.2.2 < t.length)
    (x : R × Nat) (t' : Tape R)
    (h : Cont.scalarProductOnTape (Cont.productEntry lv rv) ps t = .ok (x, t')) :
    Tape.WF t' ∧ (∃ ext, t' = t ++ ext) ∧ x.2 < t'.length := by
  cases ps with
  | nil => simp [Cont.scalarProductOnTape] at h
  | cons p ps =>
    simp only [Cont.scalarProductOnTape] at h
    injection h with h
    obtain ⟨hw1, ⟨e1, he1⟩, hq⟩ := productEntry_wf lv rv hor p t ht
      (fun hh => hl hh p (by simp)) (fun hh => hr hh p (by simp))
    have hlen1 : (Cont.productEntry lv rv p t).2.length = t.length + 1 := by rw [he1]; simp
    obtain ⟨hw3, ⟨ext, hext⟩, hlt⟩ := reduceProducts_wf lv rv hor (Cont.productEntry lv rv p t).1 ps _ hw1
      (by omega)
      (fun hh p' hp' => by have := hl hh p' (by simp [hp']); omega)
      (fun hh p' hp' => by have := hr hh p' (by simp [hp']); omega)
    rw [h] at hw3 hext hlt
    simp only at hw3 hext hlt
    exact ⟨hw3, ⟨e1 :: ext, by rw [hext, he1]; simp⟩, hlt⟩

theorem matmulCells_wf (lv rv : Bool) (hor : (lv || rv) = true) (as bs : List (R × Nat)) (n l : Nat)
    (cells : List (Nat × Nat)) (t : Tape R) (ht : Tape.WF t)
    (ha : lv = true → ∀ e ∈ as, e.2 < t.length) (hb : rv = true → ∀ e ∈ bs, e.2 < t.length)
    (xs : List (R × Nat)) (t' : Tape R)
    (h : Cont.matmulCells (Cont.productEntry lv rv) as bs n l cells t = .ok (xs, t')) :
    Tape.WF t' ∧ (∃ ext, t' = t ++ ext) ∧ ∀ x ∈ xs, x.2 < t'.length := by
  induction cells generalizing t xs t' with
  | nil =>
    simp only [Cont.matmulCells] at h
    injection h with h; injection h with h1 h2; subst h1 h2
    exact ⟨ht, ⟨[], by simp⟩, by simp⟩
  | cons c cells ih =>
    obtain ⟨i, j⟩ := c
    simp only [Cont.matmulCells] at h
    cases hs : Cont.scalarProductOnTape (Cont.productEntry lv rv)
        ((Cont.rowOf as n i).zip (Cont.colOf bs n l j)) t with
    | panic k => simp [hs] at h
    | ok r =>
      obtain ⟨x, t1⟩ := r
      simp only [hs] at h
      obtain ⟨hw1, ⟨e1, he1⟩, hx⟩ := scalarProductOnTape_wf lv rv hor _ t ht
        (fun hh p hp => ha hh p.1 (mem_rowOf _ _ _ _ (List.of_mem_zip hp).1))
        (fun hh p hp => hb hh p.2 (mem_colOf _ _ _ _ _ (List.of_mem_zip hp).2)) x t1 hs
      have hle : t.length ≤ t1.length := by rw [he1]; simp
      cases hr : Cont.matmulCells (Cont.productEntry lv rv) as bs n l cells t1 with
      | panic k => simp [hr] at h
      | ok r2 =>
        obtain ⟨xs2, t2⟩ := r2
        simp only [hr] at h
        injection h with h; injection h with h1 h2; subst h1 h2
        obtain ⟨hw2, ⟨e2, he2⟩, hxs⟩ := ih t1 hw1
          (fun hh e he => Nat.lt_of_lt_of_le (ha hh e he) hle)
          (fun hh e he => Nat.lt_of_lt_of_le (hb hh e he) hle) xs2 t2 hr
        refine ⟨hw2, ⟨e1 ++ e2, by rw [he2, he1, List.append_assoc]⟩, ?_⟩
        intro y hy
        simp only [List.mem_cons] at hy
        rcases hy with rfl | hy
        · have : t1.length ≤ t2.length := by rw [he2]; simp
          omega
        · exact hxs y hy

/-- the shared multiplication loop keeps the tapes well formed, lets them only grow, and puts the
    result on its tape -/
theorem matmulCore_keeps (a b : Cont R) (m n l : Nat) (sh : Shape String) (w : World R)
    (hw : WorldWF w) (ha : OnTape w a) (hb : OnTape w b)
    (hsame : areSameList a.history b.history = true) (c' : Cont R) (w' : World R)
    (h : Cont.matmulCore (Cont.entryFor a b) a b m n l sh w = .ok (c', w')) : Keeps w c' w' := by
  unfold Cont.matmulCore Cont.entryFor at h
  cases hha : a.history with
  | none =>
    cases hhb : b.history with
    | none =>
      simp only [hha, hhb, Cont.pickHistory] at h
      cases hr : Cont.matmulPlain a.elems b.elems n l (Cont.cellsOf m l) with
      | panic k => simp [hr] at h
      | ok xs =>
        simp only [hr] at h
        injection h with h; injection h with h1 h2; subst h1 h2
        exact ⟨hw, Grows.refl w, fun h' hh' => by simp at hh'⟩
    | some hb' =>
      simp only [hha, hhb, Cont.pickHistory, Option.isSome_none, Option.isSome_some] at h
      cases hr : Cont.matmulCells (Cont.productEntry false true) a.elems b.elems n l (Cont.cellsOf m l) (w hb') with
      | panic k => simp [hr] at h
      | ok r =>
        obtain ⟨xs, t⟩ := r
        simp only [hr] at h
        injection h with h; injection h with h1 h2; subst h1 h2
        obtain ⟨hwf, ⟨ext, hext⟩, hxs⟩ := matmulCells_wf false true rfl _ _ _ _ _ _ (hw hb')
          (fun hh => by cases hh) (fun _ e he => hb hb' hhb e he) xs t hr
        refine ⟨worldWF_update hw hb' _ hwf, by rw [hext]; exact grows_update w hb' ext, ?_⟩
        intro h' hh' e he
        simp only [Option.some.injEq] at hh'
        subst hh'
        simpa using hxs e he
  | some ha' =>
    have hbcase : (b.history = none ∨ b.history = some ha') := by
      cases hhb : b.history with
      | none => exact Or.inl rfl
      | some hb' =>
        right
        have : ha' = hb' := by simpa [areSameList, hha, hhb] using hsame
        rw [this]
    have hrv : b.history.isSome = true → ∀ e ∈ b.elems, e.2 < (w ha').length := by
      intro hs e he
      rcases hbcase with hn | hs'
      · simp [hn] at hs
      · exact hb ha' hs' e he
    simp only [hha, Cont.pickHistory, Option.isSome_some] at h
    cases hr : Cont.matmulCells (Cont.productEntry true b.history.isSome) a.elems b.elems n l (Cont.cellsOf m l) (w ha') with
    | panic k => simp [hr] at h
    | ok r =>
      obtain ⟨xs, t⟩ := r
      simp only [hr] at h
      injection h with h; injection h with h1 h2; subst h1 h2
      obtain ⟨hwf, ⟨ext, hext⟩, hxs⟩ := matmulCells_wf true b.history.isSome (by simp) _ _ _ _ _ _ (hw ha')
        (fun _ e he => ha ha' hha e he) hrv xs t hr
      refine ⟨worldWF_update hw ha' _ hwf, by rw [hext]; exact grows_update w ha' ext, ?_⟩
      intro h' hh' e he
      simp only [Option.some.injEq] at hh'
      subst hh'
      simpa using hxs e he

theorem matmul_keeps (a b : Cont R) (w : World R) (hw : WorldWF w) (ha : OnTape w a) (hb : OnTape w b)
    (c' : Cont R) (w' : World R) :
    (a.matmulTensor b w = .ok (c', w') → Keeps w c' w')
      ∧ (a.matmulMatrix b w = .ok (c', w') → Keeps w c' w') := by
  constructor
  · intro h
    simp only [Cont.matmulTensor, Cont.matmulTensorWith] at h
    by_cases hsame : areSameList a.history b.history = true
    · simp only [hsame, Bool.not_true, Bool.false_eq_true, if_false] at h
      split at h
      · split at h
        · simp at h
        · split at h
          · simp at h
          · exact matmulCore_keeps a b _ _ _ _ w hw ha hb hsame c' w' h
      · simp at h
    · have : areSameList a.history b.history = false := by simpa using hsame
      simp [this] at h
  · intro h
    simp only [Cont.matmulMatrix] at h
    by_cases hsame : areSameList a.history b.history = true
    · simp only [hsame, Bool.not_true, Bool.false_eq_true, if_false] at h
      split at h
      · split at h
        · simp at h
        · exact matmulCore_keeps a b _ _ _ _ w hw ha hb hsame c' w' h
      · simp at h
    · have : areSameList a.history b.history = false := by simpa using hsame
      simp [this] at h

/-! ### derivatives are total -/

theorem collectOutcomes_ok {α : Type} (l : List (Outcome α)) (f : List α)
    (h : l = f.map Outcome.ok) : Cont.collectOutcomes l = .ok f := by
  subst h
  induction f with
  | nil => rfl
  | cons a f ih => simp [Cont.collectOutcomes, ih]

/-- on well-formed tapes `derivatives()` of a variable container never panics: one vector per
    element, each with exactly one entry per tape entry -/
theorem derivatives_total (c : Cont R) (w : World R) (h : Nat) (hh : c.history = some h)
    (hw : WorldWF w) (hc : OnTape w c) :
    ∃ ds, c.derivatives w = .ok (some ds) ∧ ds.length = c.elems.length
      ∧ ∀ d ∈ ds, d.length = (w h).length := by
  have each : ∀ e ∈ c.elems, ∃ adj, Rec.derivatives ⟨e.1, some h, e.2⟩ w = .ok adj
      ∧ adj.length = (w h).length := by
    intro e he
    obtain ⟨adj, hs, hl, _⟩ := sweep_correct (w h) (hw h) e.2 (hc h hh e he)
    exact ⟨adj, by simp [Rec.derivatives, Rec.tryDerivatives, hs], hl⟩
  -- collect the vectors
  have collect : ∀ es : List (R × Nat), (∀ e ∈ es, e ∈ c.elems) → ∃ ds : List (List R),
      (es.map fun e => Rec.derivatives ⟨e.1, some h, e.2⟩ w) = ds.map Outcome.ok
        ∧ ds.length = es.length ∧ ∀ d ∈ ds, d.length = (w h).length := by
    intro es
    induction es with
    | nil => intro _; exact ⟨[], rfl, rfl, by simp⟩
    | cons e es ih =>
      intro hsub
      obtain ⟨adj, ha, hl⟩ := each e (hsub e (by simp))
      obtain ⟨ds, h1, h2, h3⟩ := ih (fun e' he' => hsub e' (by simp [he']))
      refine ⟨adj :: ds, by simp [ha, h1], by simp [h2], ?_⟩
      intro d hd
      simp only [List.mem_cons] at hd
      rcases hd with rfl | hd
      · exact hl
      · exact h3 d hd
  have := collect c.elems (fun e he => he)
  obtain ⟨ds, h1, h2, h3⟩ := this
  refine ⟨ds, ?_, h2, h3⟩
  unfold Cont.derivatives
  simp only [hh, collectOutcomes_ok _ ds h1]

end TapeWF

/-! ### user closures that panic: the tapes are those of the scalar computation so far -/

section Panicking
variable {R : Type} [Zero R]

theorem toRecs_take (c : Cont R) (k : Nat) : c.toRecs.take k = recsOf c.history (c.elems.take k) := by
  simp [Cont.toRecs, recsOf, List.map_take]

theorem zip_take {α β : Type} (l : List α) (l' : List β) (k : Nat) :
    (l.take k).zip (l'.take k) = (l.zip l').take k := by
  simp only [List.zip, List.take_zipWith]

theorem unaryPanicAt_eq (c : Cont R) (fx dfx : R → R) (k : Nat) (w : World R) :
    c.unaryPanicAt fx dfx k w = (Cont.mapRecs (fun r => r.unary fx dfx) (c.toRecs.take k) w).2 := by
  rw [toRecs_take]
  unfold Cont.unaryPanicAt
  cases hh : c.history with
  | none => simp [mapRecs_unary_none]
  | some h => simp [mapRecs_unary_some]

theorem binaryPanicAt_eq (a b : Cont R) (f dfx dfy : R → R → R) (k : Nat) (w : World R)
    (hs : a.shape = b.shape) (hsame : areSameList a.history b.history = true) :
    ∃ recs, zipRecs (fun x y => x.binary y f dfx dfy) (a.toRecs.take k) (b.toRecs.take k) w
      = .ok (recs, a.binaryPanicAt b f dfx dfy k w) := by
  rw [toRecs_take, toRecs_take]
  unfold Cont.binaryPanicAt
  simp only [hs, ne_eq, not_true_eq_false, if_false]
  cases hha : a.history with
  | none =>
    cases hhb : b.history with
    | none => exact ⟨_, by rw [zipRecs_binary_none_none]⟩
    | some h => exact ⟨_, by rw [zipRecs_binary_none_some, zip_take]⟩
  | some h =>
    cases hhb : b.history with
    | none => exact ⟨_, by rw [zipRecs_binary_some_none, zip_take]⟩
    | some h' =>
      have hh : h = h' := by simpa [areSameList, hha, hhb] using hsame
      subst hh
      exact ⟨_, by simp only [ne_eq, not_true_eq_false, if_false]; rw [zipRecs_binary_some_some, zip_take]⟩

end Panicking

end EasyMl.RC
