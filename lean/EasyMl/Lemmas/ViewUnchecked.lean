/-
  EasyMl.Lemmas.ViewUnchecked — the unchecked getters (`get_reference_unchecked(_mut)`) compute,
  on every in-bounds index tuple, the same cell as the checked ones; none of their intermediate
  `unwrap`s, unchecked additions / subtractions or `get_unchecked` calls can fail there.
-/
import EasyMl.Lemmas.ViewInjective

namespace EasyMl
open EasyMl.Spec EasyMl.View

set_option linter.unusedSectionVars false

variable {ν : Type} [DecidableEq ν] [Inhabited ν] {α : Type}

theorem mapIndexesByMask_eq {sh : Shape ν} {ms : List IndexRange} {idx : List Nat}
    (hs : GoodShape sh) (h : MasksOK sh ms)
    (hin : inBounds (lens (maskShape sh ms)) idx = true) :
    mapIndexesByMask idx ms = .ok (maskCoords idx ms) := by
  induction sh generalizing ms idx with
  | nil => cases ms <;> cases idx <;> simp_all [MasksOK, maskShape, mapIndexesByMask, maskCoords]
  | cons d ds ih =>
    cases ms with
    | nil => simp [MasksOK] at h
    | cons m ms =>
      cases idx with
      | nil => simp [maskShape] at hin
      | cons i is =>
        simp only [MasksOK] at h
        rw [goodShape_cons] at hs
        simp only [maskShape, lens_cons, inBounds_cons_cons, Bool.and_eq_true, decide_eq_true_eq] at hin
        have ih' := ih hs.2.2.2 h.2 hin.2
        simp only [mapIndexesByMask, IndexRange.mask, ih', maskCoords, List.zipWith_cons_cons]
        by_cases h1 : i < m.start
        · simp [h1]
        · have : i + m.length ≤ usizeMax := by omega
          simp [h1, cadd, this]

theorem reverseIndexes_eq {ls : List Nat} {r : List Bool} {idx : List Nat}
    (hr : r.length = ls.length) (hin : inBounds ls idx = true) :
    reverseIndexes idx ls r = .ok (reverseCoords idx ls r) := by
  induction ls generalizing r idx with
  | nil => cases r <;> cases idx <;> simp_all [reverseIndexes, reverseCoords]
  | cons l ls ih =>
    cases r with
    | nil => simp at hr
    | cons b bs =>
      cases idx with
      | nil => simp at hin
      | cons i is =>
        simp only [List.length_cons, Nat.add_right_cancel_iff] at hr
        simp only [inBounds_cons_cons, Bool.and_eq_true, decide_eq_true_eq] at hin
        have ih' := ih hr hin.2
        cases b with
        | true =>
          have h1 : 1 ≤ l := by omega
          have h2 : i ≤ l - 1 := by omega
          simp [reverseIndexes, csub, h1, h2, ih', reverseCoords]
        | false => simp [reverseIndexes, ih', reverseCoords]

theorem getUncheckedAt_eq (ss : List (View ν α)) (k : Nat) (idx : List Nat) :
    getUncheckedAt ss k idx = match ss[k]? with
      | some v => v.getUnchecked idx
      | none => .panic .unwrap := by
  induction ss generalizing k with
  | nil => simp [getUncheckedAt]
  | cons v vs ih =>
    cases k with
    | zero => simp [getUncheckedAt]
    | succ k => simp [getUncheckedAt, ih]

/-- on in-bounds tuples the unchecked path returns the designated cell -/
def UncheckedOK (v : View ν α) : Prop :=
  ∀ idx c, inBounds (lens v.shape) idx = true → v.specCell idx = some c → v.getUnchecked idx = .ok c

theorem uncheckedOK_range (s : View ν α) (rs : List IndexRange) (ih : s.WF → UncheckedOK s) :
    (View.range s rs).WF → UncheckedOK (View.range s rs) := by
  intro hw idx c hin hc
  simp only [View.WF] at hw
  have hgood := (View.correct s hw.1).1
  simp only [View.shape] at hin
  have hl := inBounds_length hin
  simp only [lens_length, rangeShape_length hw.2] at hl
  simp only [View.getUnchecked, mapIndexesByRange_eq hgood hw.2 hl, hin, if_true]
  exact ih hw.1 _ c (rangeCoords_inBounds hw.2 hin) hc


theorem uncheckedOK_reverse (s : View ν α) (r : List Bool) (ih : s.WF → UncheckedOK s) :
    (View.reverse s r).WF → UncheckedOK (View.reverse s r) := by
  intro hw idx c hin hc
  simp only [View.WF] at hw
  have hgood := (View.correct s hw.1).1
  simp only [View.shape] at hin
  simp only [View.getUnchecked, reverseIndexes_eq (by simpa using hw.2) hin]
  have la := inBounds_length hin
  have hb := bounded_of_inBounds hin hgood.lens_le
  have hspec := tryReverseIndexes_spec (ls := lens s.shape) (r := r) (idx := idx)
    (by simpa using hw.2) la hb hgood.lens_le
  cases hm : tryReverseIndexes idx (lens s.shape) r with
  | none => simp [hm, hin] at hspec
  | some mapped =>
    simp only [hm] at hspec
    obtain ⟨_, _, c1, d⟩ := hspec
    exact ih hw.1 _ c (by rw [← d hin, c1, hin]) hc


theorem uncheckedOK_mrange (s : View ν α) (rows columns : IndexRange) (ih : s.WF → UncheckedOK s)
    (hw : (View.mrange s rows columns).WF) : UncheckedOK (View.mrange s rows columns) := by
  simp only [View.WF] at hw
  have h : UncheckedOK (View.range s [rows, columns]) :=
    uncheckedOK_range s [rows, columns] ih (by simp only [View.WF]; exact ⟨hw.1, hw.2.2⟩)
  exact h

theorem uncheckedOK_mreverse (s : View ν α) (rows columns : Bool) (ih : s.WF → UncheckedOK s)
    (hw : (View.mreverse s rows columns).WF) : UncheckedOK (View.mreverse s rows columns) := by
  simp only [View.WF] at hw
  have h : UncheckedOK (View.reverse s [rows, columns]) :=
    uncheckedOK_reverse s [rows, columns] ih (by simp only [View.WF]; exact ⟨hw.1, by simp [hw.2]⟩)
  exact h

theorem View.uncheckedOK (v : View ν α) : v.WF → UncheckedOK v := by
  induction v using View.ind with
  | tensor id t =>
    intro hw idx c hin hc
    simp only [View.WF] at hw
    simp only [View.shape] at hin
    have hl := inBounds_length hin
    simp only [lens_length] at hl
    have := tensorGet_eq id t idx hw hl
    simp only [tensorGet, hin, if_true] at this
    simp only [View.specCell, Option.some.injEq] at hc
    simp only [View.getUnchecked, tensorGetUnchecked]
    cases ho : t.offset idx with
    | none => simp [ho] at this
    | some i =>
      simp only [ho] at this
      by_cases hi : i < t.data.length
      · simp only [hi, if_true, Outcome.ok.injEq, Option.some.injEq] at this
        simp [hi, this, hc]
      · simp [hi] at this
  | matrix id m r c =>
    intro hw idx cell hin hc
    simp only [View.WF] at hw
    simp only [View.shape, lens_cons, lens_nil] at hin
    have hl := inBounds_length hin
    have := matrixGet_eq id m idx hw.1 (by simpa using hl)
    simp only [hin, if_true] at this
    simp only [View.specCell, Option.some.injEq] at hc
    match idx, hl with
    | [row, col], _ =>
      simp only [inBounds_cons_cons, inBounds_nil_nil, Bool.and_true, Bool.and_eq_true,
        decide_eq_true_eq] at hin
      simp only [matrixGet, List.getD_cons_zero, List.getD_cons_succ, hin, and_self, if_true] at this
      simp only [View.getUnchecked, matrixGetUnchecked, List.getD_cons_zero, List.getD_cons_succ]
      by_cases hi : m.getIndex row col < m.data.length
      · simp only [hi, if_true, Outcome.ok.injEq, Option.some.injEq] at this
        simp [hi, this, hc]
      · simp [hi] at this
  | matrixOf s r cn ih =>
    intro hw idx c hin hc
    simp only [View.WF] at hw
    rw [matrixOf_lens s r cn hw.2.1] at hin
    have hl := inBounds_length hin
    simp only [lens_length, hw.2.1] at hl
    simp only [View.getUnchecked, pair_of_length_two hl]
    exact ih hw.1 _ c hin hc
  | mrange s rows columns ih => exact uncheckedOK_mrange s rows columns ih
  | mreverse s rows columns ih => exact uncheckedOK_mreverse s rows columns ih
  | tmap s ih =>
    intro hw idx c hin hc
    simp only [View.WF] at hw
    simp only [View.getUnchecked]
    exact ih hw _ c hin hc
  | range s rs ih => exact uncheckedOK_range s rs ih
  | mask s ms ih =>
    intro hw idx c hin hc
    simp only [View.WF] at hw
    have hgood := (View.correct s hw.1).1
    simp only [View.shape] at hin
    simp only [View.getUnchecked, mapIndexesByMask_eq hgood hw.2 hin]
    have hl := inBounds_length hin
    simp only [lens_length, maskShape_length hw.2] at hl
    have hb := bounded_of_inBounds hin (maskShape_good hgood hw.2).lens_le
    have hspec := mapIndexesByMaskChecked_spec hgood hw.2 hl hb
    cases hm : mapIndexesByMaskChecked idx ms with
    | none => simp [hm, hin] at hspec
    | some mapped =>
      simp only [hm] at hspec
      obtain ⟨_, _, c1, d⟩ := hspec
      exact ih hw.1 _ c (by rw [← d hin, c1, hin]) hc
  | index s p ih =>
    intro hw idx c hin hc
    simp only [View.WF] at hw
    have hgood := (View.correct s hw.1).1
    simp only [View.shape] at hin
    have hl := inBounds_length hin
    simp only [lens_length] at hl
    have hb := bounded_of_inBounds hin (indexShape_good (p := p) hgood).lens_le
    obtain ⟨a, _, _, d⟩ := computeSelectIndexes_spec hgood hw.2 hl hb
    simp only [View.getUnchecked, a]
    exact ih hw.1 _ c (by rw [d, hin]) hc
  | expansion s e ih =>
    intro hw idx c hin hc
    simp only [View.WF] at hw
    have hgood := (View.correct s hw.1).1
    obtain ⟨hsorted, hpos, hnodup, hfresh⟩ := hw.2
    have hlen := expansionShape_length e s.shape 0 hsorted
      (fun x hx => ⟨Nat.zero_le _, by simpa using hpos x hx⟩)
    have hfresh' : ∀ d ∈ s.shape, d.1 ∉ e.map (·.2) := fun d hd hc => by
      obtain ⟨x, hx, hxe⟩ := List.mem_map.1 hc
      exact hfresh x hx (by rw [hxe]; exact List.mem_map.2 ⟨d, hd, rfl⟩)
    simp only [View.shape] at hin
    have la := inBounds_length hin
    simp only [lens_length, hlen] at la
    have hb := bounded_of_inBounds hin
      (expansionShape_good _ e s.shape 0 hgood hnodup hfresh).lens_le
    have hspec := computeExpansionIndexes_spec (e.map (·.2)) s.shape.length idx e s.shape 0
      (by simp) hsorted (fun x hx => ⟨Nat.zero_le _, hpos x hx⟩)
      (fun x hx => List.mem_map.2 ⟨x, hx, rfl⟩) hfresh' la hb
    simp only [View.getUnchecked]
    cases hce : computeExpansionIndexes s.shape.length e idx 0 with
    | panic k => simp [hce] at hspec
    | ok o =>
      cases o with
      | none => simp [hce, hin] at hspec
      | some used =>
        simp only [hce] at hspec
        obtain ⟨_, _, c1, d⟩ := hspec
        simp only
        refine ih hw.1 _ c (by rw [c1, hin]) ?_
        rw [d]; exact hc
  | rename s ns ih =>
    intro hw idx c hin hc
    simp only [View.WF] at hw
    simp only [View.getUnchecked]
    exact ih hw.1 _ c (by simpa [View.shape, renameShape_lens hw.2.1] using hin) hc
  | reverse s r ih =>
    intro hw idx c hin hc
    simp only [View.WF] at hw
    have hgood := (View.correct s hw.1).1
    simp only [View.shape] at hin
    simp only [View.getUnchecked, reverseIndexes_eq (by simpa using hw.2) hin]
    have la := inBounds_length hin
    have hb := bounded_of_inBounds hin hgood.lens_le
    have hspec := tryReverseIndexes_spec (ls := lens s.shape) (r := r) (idx := idx)
      (by simpa using hw.2) la hb hgood.lens_le
    cases hm : tryReverseIndexes idx (lens s.shape) r with
    | none => simp [hm, hin] at hspec
    | some mapped =>
      simp only [hm] at hspec
      obtain ⟨_, _, c1, d⟩ := hspec
      exact ih hw.1 _ c (by rw [← d hin, c1, hin]) hc
  | access s m ih =>
    intro hw idx c hin hc
    simp only [View.WF] at hw
    have hgood := (View.correct s hw.1).1
    have hlen := mapShapeToRequested_length hw.2
    simp only [View.shape] at hin
    have la := inBounds_length hin
    simp only [lens_length, hlen] at la
    simp only [View.getUnchecked]
    refine ih hw.1 _ c (by rw [access_inBounds hw.2 la, hin]) ?_
    rw [mapDimensionsToSource_eq_coords_of_good hgood hw.2]; exact hc
  | transpose s m ih =>
    intro hw idx c hin hc
    simp only [View.WF] at hw
    have hgood := (View.correct s hw.1).1
    have hlen := mapShapeToRequested_length hw.2
    simp only [View.shape, transposeShape_lens hlen] at hin
    have la := inBounds_length hin
    simp only [lens_length, hlen] at la
    simp only [View.getUnchecked]
    refine ih hw.1 _ c (by rw [access_inBounds hw.2 la, hin]) ?_
    rw [mapDimensionsToSource_eq_coords_of_good hgood hw.2]; exact hc
  | stack ss along ih =>
    intro hw idx c hin hc
    have hw' := hw
    simp only [View.WF] at hw
    obtain ⟨hwfs, hne, _, hsame, ha, _⟩ := hw
    rw [WFs_iff] at hwfs
    generalize hf : (shapes ss).headD [] = first at *
    have hshape : ∀ s ∈ ss, s.shape = first := by
      intro s hs
      exact hsame s.shape (by rw [shapes_eq_map]; exact List.mem_map.2 ⟨s, hs, rfl⟩)
    have hsh : (View.stack ss along).shape = first.insertIdx along.1 (along.2, ss.length) := by
      simp only [View.shape, hf]
      have := stackShape_eq along ss.length first 0 (Nat.zero_le _) (by simpa using ha)
      simpa using this
    have la := inBounds_length hin
    rw [hsh, lens_length, List.length_insertIdx_of_le_length ha] at la
    rw [hsh, lens_insertIdx, insertIdx_inBounds (lens first) along.1 ss.length idx (by simpa using ha)
      (by simpa using la)] at hin
    simp only [Bool.and_eq_true, decide_eq_true_eq] at hin
    simp only [View.getUnchecked, stackIndexing, stackRest_eq along.1 idx 0 (Nat.zero_le _), Nat.sub_zero,
      getUncheckedAt_eq, List.getElem?_eq_getElem hin.1]
    simp only [View.specCell, specCellAt_eq, List.getElem?_eq_getElem hin.1] at hc
    have hv := List.getElem_mem hin.1
    exact ih _ hv (hwfs _ hv) _ c (by rw [hshape _ hv]; exact hin.2) hc
  | chain ss along ih =>
    intro hw idx c hin hc
    simp only [View.WF] at hw
    obtain ⟨hwfs, hne, ha, hsim, _⟩ := hw
    rw [WFs_iff] at hwfs
    generalize hf : (shapes ss).headD [] = first at *
    have hsimv : ∀ s ∈ ss, Similar along s.shape first := by
      intro s hs
      exact hsim s.shape (by rw [shapes_eq_map]; exact List.mem_map.2 ⟨s, hs, rfl⟩)
    have hsh : (View.chain ss along).shape =
        first.set along ((first.getD along (default, 0)).1, (chainLens (shapes ss) along).sum) := by
      simp only [View.shape, hf]
      exact chainShape_eq first (shapes ss) along ha
    have hlenl : (lens first).length = first.length := lens_length first
    have la := inBounds_length hin
    rw [hsh, lens_length, List.length_set] at la
    rw [hsh, lens_set] at hin
    have e2 := inBounds_set_set (lens first) idx along (chainLens (shapes ss) along).sum
      (idx.getD along 0) (by rw [hlenl]; exact la)
    rw [set_getD_self] at e2
    rw [e2] at hin
    simp only [Bool.and_eq_true, decide_eq_true_eq] at hin
    have hlt : idx.getD along 0 < (chainLens (shapes ss) along).sum := by
      rcases hin.1 with h | h
      · exact h
      · omega
    have hloc := chainLocate_spec (chainLens (shapes ss) along) (idx.getD along 0)
    simp only [View.getUnchecked, chainIndexing, chainIndexingGo_eq]
    simp only [View.specCell] at hc
    rw [show (List.map (fun s => (s.getD along (default, 0)).2) (shapes ss)) =
      chainLens (shapes ss) along from rfl] at hc
    cases hcl : chainLocate (chainLens (shapes ss) along) (idx.getD along 0) with
    | none => simp only [hcl] at hloc; omega
    | some p =>
      obtain ⟨k, j⟩ := p
      simp only [hcl] at hloc hc
      obtain ⟨hk, hj, _, _⟩ := hloc
      have hk' : k < ss.length := by simpa [chainLens, shapes_eq_map] using hk
      rw [chainLens_getD ss along k hk'] at hj
      obtain ⟨_, hlens⟩ := hsimv _ (List.getElem_mem hk')
      simp only [Option.map_some, Nat.zero_add, getUncheckedAt_eq, List.getElem?_eq_getElem hk']
      simp only [specCellAt_eq, List.getElem?_eq_getElem hk'] at hc
      have hv := List.getElem_mem hk'
      refine ih _ hv (hwfs _ hv) _ c ?_ hc
      rw [hlens, inBounds_set_set (lens first) idx along _ j (by rw [hlenl]; exact la)]
      simp only [Bool.and_eq_true, decide_eq_true_eq]
      exact ⟨Or.inl hj, hin.2⟩

end EasyMl
