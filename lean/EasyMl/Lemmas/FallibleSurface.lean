/-
  EasyMl.Lemmas.FallibleSurface — the API-surface compositions of C16 (`recordGet`): total, `Some`
  exactly inside the ACCESSED shape, and the value is the source's cell at the index mapped back
  to the source order.
-/
import EasyMl.Lemmas.FallibleRange
import EasyMl.Lemmas.FallibleAccess

namespace EasyMl.Fallible
open EasyMl EasyMl.Spec

set_option linter.unusedSectionVars false
set_option linter.unusedVariables false

variable {ν : Type} [DecidableEq ν] [Inhabited ν]

/-- `TensorAccess<_, RecordTensor (owned / & / &mut), D>::try_get_as_record` on a valid shape in
    an order that is a permutation of its names: never a panic; the tensor and the access exist;
    the accessed shape carries the names in the requested order with their own lengths; the
    answer is `Some` exactly when the index is inside the ACCESSED shape; and it is what the
    tensor itself answers at the index mapped back to the source order. -/
theorem recordGet_spec (shape : Shape ν) (hv : isValidShape shape = true)
    (hb : elements shape ≤ usizeMax) (order : List ν) (hp : order.Perm (shape.map (·.1)))
    (idx : List Nat) (hlen : idx.length = shape.length) :
    ∃ t a m, tensorTryFrom Arith.fixed shape (elements shape) = .ok (.ok t) ∧
      DimensionMappings.new shape order = some m ∧
      accessTryFrom (TView.ofTensor t) order = .ok (.ok a) ∧
      a.shape.map (·.1) = order ∧ (∀ d ∈ a.shape, d ∈ shape) ∧
      ∃ r, recordGet shape order idx = .ok r ∧
        r.isSome = Spec.inBounds (a.shape.map (·.2)) idx ∧
        (TView.ofTensor t).get (m.sourceToRequested.map (idx.getD · 0)) = .ok r := by
  have ht : tensorTryFrom Arith.fixed shape (elements shape) =
      .ok (.ok ⟨elements shape, shape, computeStrides shape⟩) := by
    rw [tensorTryFrom_fixed_eq shape _ hb, if_pos ⟨rfl, hv⟩]
  have hwf := ofTensor_wf hb ht
  have hshape : (TView.ofTensor ⟨elements shape, shape, computeStrides shape⟩).shape = shape := rfl
  have hnd : (shape.map (·.1)).Nodup := ((isValidShape_iff shape).mp hv).1
  cases hm : DimensionMappings.new shape order with
  | none =>
    have := new_isSome_of_perm (shape := shape) hp
    rw [hm] at this; simp at this
  | some m =>
    obtain ⟨a, ha, hashape, haget⟩ :=
      accessTryFrom_of_some (TView.ofTensor ⟨elements shape, shape, computeStrides shape⟩) order
        (by rw [hshape]; exact hnd) (by rw [hshape]; exact hm)
    have htot := (access_total _ hwf order (by rw [hshape]; exact hm) ha).1
    have halen : a.shape.length = shape.length := by
      rw [hashape]; simp [accessShape, (new_spec hm).2.2.1]
    obtain ⟨r, hr, hin⟩ := htot idx (by rw [halen]; exact hlen)
    refine ⟨_, a, m, ht, rfl, ha, ?_, ?_, r, ?_, hin, ?_⟩
    · rw [hashape]; exact accessShape_names hm hnd
    · rw [hashape]; exact accessShape_mem hm hnd
    · simp only [recordGet, ht, ha]; exact hr
    · rw [← haget idx (by rw [hshape]; exact hlen)]; exact hr

end EasyMl.Fallible
